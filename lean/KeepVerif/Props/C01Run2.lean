import KeepVerif.Props.C01Run
/-!
# C01 — pieces of the phase 5 chain (honest dealers, public verdict)

(a) `honest_share_valid`, `phase3_shares_valid`: the shares an honest member sends in phase 3 decrypt
    under the pairwise key and verify against the commitments it broadcasts — by construction of
    the honest behaviour; `symKey_comm`: both ends derive the same symmetric key.
(b) `target5_of_valid`: an accusation whose evidence share decrypts and verifies is judged AGAINST
    THE ACCUSER by every judge (so, with (a), accusations against honest dealers are judged false).
Not yet theorems about `run`: that the evidence log of every honest judge holds exactly these
messages in phase 5 (needs the phase 3/4 unfolding of `run`), and (c).
-/
namespace KeepVerif.C01

theorem evalPoly_mod (q : Nat) (cs : List Nat) (x : Nat) : evalPoly q cs x % q = evalPoly q cs x := by
  cases cs with
  | nil => simp [evalPoly]
  | cons c rest => simp [evalPoly, List.foldr_cons, Nat.mod_mod]

private theorem zip_map_fst (A B : List Nat) (h : A.length = B.length) : (A.zip B).map (·.1) = A := by
  induction A generalizing B with
  | nil => simp
  | cons a as ih =>
    cases B with
    | nil => simp at h
    | cons b bs => simp only [List.zip_cons_cons, List.map_cons]; rw [ih bs (by simpa using h)]

private theorem zip_map_snd (A B : List Nat) (h : A.length = B.length) : (A.zip B).map (·.2) = B := by
  induction A generalizing B with
  | nil => cases B with
    | nil => rfl
    | cons b bs => simp at h
  | cons a as ih =>
    cases B with
    | nil => simp at h
    | cons b bs => simp only [List.zip_cons_cons, List.map_cons]; rw [ih bs (by simpa using h)]

/-- (a) the share an honest dealer computes for member `j` verifies against the Pedersen
    commitments it broadcasts (symbolic commitments = coefficient pairs) -/
theorem honest_share_valid (q : Nat) (A B : List Nat) (h : A.length = B.length) (hne : A ≠ []) (j : Nat) :
    validComms q (evalPoly q A j) (evalPoly q B j) (A.zip B) j = true := by
  have hz : (A.zip B).isEmpty = false := by
    cases A with
    | nil => exact absurd rfl hne
    | cons a as => cases B with
      | nil => simp at h
      | cons b bs => rfl
  simp [validComms, hz, zip_map_fst A B h, zip_map_snd A B h, evalPoly_mod]

/-- both ends of a pair derive the same symmetric key (ECDH, symbolic) -/
theorem symKey_comm (a b : Nat) : symKey a b = symKey b a := by
  simp [symKey, Nat.min_comm, Nat.max_comm]

theorem decrypt_enc (k : Nat × Nat) (s t : Nat) : decrypt (some (Cipher.enc k.1 k.2 s t)) k = some (s, t) := by
  simp [decrypt]

private theorem lookup_filterMap_sym (st : St) (L : List Nat) (j : Nat) (k : Nat × Nat) (hj : j ∈ L)
    (hjs : j ≠ st.id) (hk : lookup j st.sym = some k) (hn : L.Nodup) :
    lookup j (L.filterMap (fun j =>
      if j = st.id then none else
      match lookup j st.sym with
      | some k => some (j, Cipher.enc k.1 k.2 (evalPoly st.q st.coefA j) (evalPoly st.q st.coefB j))
      | none => none)) =
    some (Cipher.enc k.1 k.2 (evalPoly st.q st.coefA j) (evalPoly st.q st.coefB j)) := by
  induction L with
  | nil => simp at hj
  | cons x xs ih =>
    simp only [List.nodup_cons] at hn
    simp only [List.mem_cons] at hj
    by_cases hx : x = j
    · subst hx
      simp [List.filterMap_cons, hjs, hk, lookup]
    · have hjx : j ∈ xs := by
        rcases hj with h | h
        · exact absurd h.symm hx
        · exact h
      simp only [List.filterMap_cons]
      split
      · exact ih hjx hn.2
      · rename_i b hb
        split at hb
        · simp at hb
        · split at hb
          · simp only [Option.some.injEq] at hb
            subst hb
            simp only [lookup, hx, if_false]
            exact ih hjx hn.2
          · simp at hb

/-- (a) the phase 3 messages of an honest member: the share for every member it has a key with
    decrypts under that key and verifies against the commitments message -/
theorem phase3_shares_valid (st : St) (hlen : st.coefA.length = st.coefB.length) (hne : st.coefA ≠ [])
    (j : Nat) (k : Nat × Nat) (hj : j ∈ members st.n) (hjs : j ≠ st.id) (hk : lookup j st.sym = some k) :
    ∃ sh cs, (phase3 st).2 = [.shares ⟨st.id, st.id, true⟩ sh, .comms ⟨st.id, st.id, true⟩ cs] ∧
      ∃ s t, decrypt (lookup j sh) k = some (s, t) ∧ validComms st.q s t cs j = true := by
  refine ⟨_, _, rfl, evalPoly st.q st.coefA j, evalPoly st.q st.coefB j, ?_, ?_⟩
  · exact (congrArg (fun c => decrypt c k)
      (lookup_filterMap_sym st (members st.n) j k hj hjs hk (members_nodup st.n))).trans
      (decrypt_enc k _ _)
  · exact honest_share_valid st.q st.coefA st.coefB hlen hne j

/-- the honest behaviour of the model uses polynomials of `t+1` coefficients -/
theorem initSt_coefs (cfg : Cfg) (i : Nat) :
    (initSt cfg i).coefA.length = (initSt cfg i).coefB.length ∧ (initSt cfg i).coefA ≠ [] := by
  constructor
  · simp [initSt]
  · simp [initSt, List.range_succ]

theorem openAccusation_cases (ev : Evidence) (self n a m key : Nat) :
    openAccusation ev self n a m key = .inl .accuser ∨ openAccusation ev self n a m key = .inl .fatal ∨
    ∃ dpk sh, pubKeyOf ev.evEph a m = some key ∧ pubKeyOf ev.evEph m a = some dpk ∧
      lookup m ev.evShares = some sh ∧
      openAccusation ev self n a m key = .inr (decrypt (lookup a sh) (symKey key dpk)) := by
  unfold openAccusation
  split
  · exact Or.inl rfl
  · cases ha : pubKeyOf ev.evEph a m with
    | none => exact Or.inr (Or.inl rfl)
    | some apk =>
      simp only []
      split
      · exact Or.inl rfl
      · rename_i hk
        have hk' : apk = key := by simpa using hk
        subst hk'
        cases hd : pubKeyOf ev.evEph m a with
        | none => exact Or.inl rfl
        | some dpk =>
          cases hs : lookup m ev.evShares with
          | none => exact Or.inl rfl
          | some sh => exact Or.inr (Or.inr ⟨dpk, sh, rfl, rfl, rfl, rfl⟩)

/-- (b) an accusation whose evidence share decrypts and verifies against the commitments of the
    accused is judged against the ACCUSER, whoever the judge is -/
theorem target5_of_valid (P : Pub5) (self : Nat) (x : Nat × Nat × Nat)
    (h : ∀ dpk sh, pubKeyOf P.ev.evEph x.1 x.2.1 = some x.2.2 →
      pubKeyOf P.ev.evEph x.2.1 x.1 = some dpk → lookup x.2.1 P.ev.evShares = some sh →
      ∃ s t, decrypt (lookup x.1 sh) (symKey x.2.2 dpk) = some (s, t) ∧
        validComms P.q s t ((lookup x.2.1 P.recvC).getD []) x.1 = true) :
    target5 P self x = x.1 := by
  unfold target5 verdict5
  rcases openAccusation_cases P.ev self P.n x.1 x.2.1 x.2.2 with ho | ho | ⟨dpk, sh, h1, h2, h3, ho⟩
  · rw [ho]
  · rw [ho]
  · obtain ⟨s, t, hdec, hval⟩ := h dpk sh h1 h2 h3
    rw [ho, hdec]
    simp [hval]

end KeepVerif.C01
