import KeepVerif.Proofs.C40Members
import KeepVerif.Proofs.C40Inj
/-!
# C40 — Key generation results and inactivity claims satisfy the on-chain rules

Theorems over `Model/C40.lean`.  The hash `H` (keccak256) is an arbitrary function, ECDSA recovery
is a parameter with the sign/recover law as a hypothesis (A-ecdsa).  The constants, the ABI type
lists of *both* sides and the text of the Solidity functions come from `Gen/C40.lean`
(regenerated from the sources on every run).
-/
namespace KeepVerif.C40

-- the byte-level definitions stay folded (only their lengths matter to the proofs)
attribute [local irreducible] beBytes word

/-! ## T1 ties -/

/-- The client's hard-coded sizes are the contract's constants, and the contract's group
    parameters are ordered as the proofs need. -/
theorem constants_tie :
    goSignatureSize = signatureByteSize ∧ goSignatureSize = inactSignatureByteSize ∧
    goPublicKeySize = publicKeyByteSize ∧ goInactPublicKeySize = 64 ∧ publicKeyByteSize = 64 ∧
    0 < signatureByteSize ∧ 0 < groupThreshold ∧ 0 < inactGroupThreshold ∧
    groupThreshold ≤ activeThreshold ∧ activeThreshold ≤ groupSize ∧ groupSize ≤ 255 := by decide

/-- The ABI type lists the client packs with are the types of the expressions the contracts pass
    to `abi.encode`, in the same order. -/
theorem abi_types_tie :
    Gen.C40.goDkgSigTypes = Gen.C40.solDkgSigTypes ∧
    Gen.C40.goInactTypes = Gen.C40.solInactTypes ∧
    Gen.C40.goMembersHashTypes = Gen.C40.solMembersHashTypes0 ∧
    Gen.C40.goMembersHashTypes = Gen.C40.solMembersHashTypes1 := by decide

/-- … and the argument *expressions* on both sides are the ones the model pairs up. -/
theorem abi_args_tie :
    Gen.C40.solDkgSigArgs = ["block.chainid", "result.groupPubKey", "result.misbehavedMembersIndices", "startBlock"] ∧
    Gen.C40.goDkgSigArgs = ["chainID", "groupPublicKey", "misbehavedMembersIndexes", "startBlock"] ∧
    Gen.C40.solInactArgs = ["block.chainid", "nonce", "walletPubKey", "claim.inactiveMembersIndices", "claim.heartbeatFailed"] ∧
    Gen.C40.goInactArgs = ["chainID", "nonce", "walletPublicKey", "inactiveMembersIndexes", "heartbeatFailed"] ∧
    Gen.C40.solMembersHashArgs0 = ["groupMembers"] ∧ Gen.C40.solMembersHashArgs1 = ["result.members"] ∧
    Gen.C40.goMembersHashArgs = ["operatorsIDs"] := by decide

/-- T1 tie: the statements of `EcdsaDkgValidator.validateFields` (comments stripped, whitespace collapsed, cut at `;{}`)
    are the ones the hand model in `Model/C40.lean` was written from. A changed contract changes the
    generated list and this stops checking. -/
theorem text_solValidateFields : Gen.C40.solValidateFields = [
    "function validateFields(EcdsaDkg.Result calldata result) public pure returns (bool isValid, string memory errorMsg)",
    "if (result.groupPubKey.length != publicKeyByteSize)",
    "return (false, \"Malformed group public key\")",
    "uint8[] calldata misbehavedMembersIndices = result .misbehavedMembersIndices",
    "if (groupSize - misbehavedMembersIndices.length < activeThreshold)",
    "return (false, \"Too many members misbehaving during DKG\")",
    "if (misbehavedMembersIndices.length > 1)",
    "if ( misbehavedMembersIndices[0] < 1 || misbehavedMembersIndices[misbehavedMembersIndices.length - 1] > groupSize )",
    "return (false, \"Corrupted misbehaved members indices\")",
    "for (uint256 i = 1; i < misbehavedMembersIndices.length; i++)",
    "if ( misbehavedMembersIndices[i - 1] >= misbehavedMembersIndices[i] )",
    "return (false, \"Corrupted misbehaved members indices\")",
    "uint256 signaturesCount = result.signatures.length / signatureByteSize",
    "if (result.signatures.length == 0)",
    "return (false, \"No signatures provided\")",
    "if (result.signatures.length % signatureByteSize != 0)",
    "return (false, \"Malformed signatures array\")",
    "uint256[] calldata signingMembersIndices = result.signingMembersIndices",
    "if (signaturesCount != signingMembersIndices.length)",
    "return (false, \"Unexpected signatures count\")",
    "if (signaturesCount < groupThreshold)",
    "return (false, \"Too few signatures\")",
    "if (signaturesCount > groupSize)",
    "return (false, \"Too many signatures\")",
    "if ( signingMembersIndices[0] < 1 || signingMembersIndices[signingMembersIndices.length - 1] > groupSize )",
    "return (false, \"Corrupted signing member indices\")",
    "for (uint256 i = 1; i < signingMembersIndices.length; i++)",
    "if (signingMembersIndices[i - 1] >= signingMembersIndices[i])",
    "return (false, \"Corrupted signing member indices\")",
    "return (true, \"\")"
  ] := rfl

/-- T1 tie: the statements of `EcdsaDkgValidator.validateMembersHash` (comments stripped, whitespace collapsed, cut at `;{}`)
    are the ones the hand model in `Model/C40.lean` was written from. A changed contract changes the
    generated list and this stops checking. -/
theorem text_solValidateMembersHash : Gen.C40.solValidateMembersHash = [
    "function validateMembersHash(EcdsaDkg.Result calldata result) public pure returns (bool)",
    "if (result.misbehavedMembersIndices.length > 0)",
    "uint32[] memory groupMembers = new uint32[]( result.members.length - result.misbehavedMembersIndices.length )",
    "uint256 k = 0",
    "uint256 j = 0",
    "for (uint256 i = 0; i < result.members.length; i++)",
    "if (i != result.misbehavedMembersIndices[k] - 1)",
    "groupMembers[j] = result.members[i]",
    "j++",
    "else if (k < result.misbehavedMembersIndices.length - 1)",
    "k++",
    "return keccak256(abi.encode(groupMembers)) == result.membersHash",
    "return keccak256(abi.encode(result.members)) == result.membersHash"
  ] := rfl

/-- T1 tie: the statements of `EcdsaDkgValidator.validateSignatures` (comments stripped, whitespace collapsed, cut at `;{}`)
    are the ones the hand model in `Model/C40.lean` was written from. A changed contract changes the
    generated list and this stops checking. -/
theorem text_solValidateSignatures : Gen.C40.solValidateSignatures = [
    "function validateSignatures( EcdsaDkg.Result calldata result, uint256 startBlock ) public view returns (bool)",
    "bytes32 hash = keccak256( abi.encode( block.chainid, result.groupPubKey, result.misbehavedMembersIndices, startBlock ) ).toEthSignedMessageHash()",
    "uint256[] calldata signingMembersIndices = result.signingMembersIndices",
    "uint32[] memory signingMemberIds = new uint32[]( signingMembersIndices.length )",
    "for (uint256 i = 0; i < signingMembersIndices.length; i++)",
    "signingMemberIds[i] = result.members[signingMembersIndices[i] - 1]",
    "address[] memory signingMemberAddresses = sortitionPool.getIDOperators( signingMemberIds )",
    "bytes memory current",
    "uint256 signaturesCount = result.signatures.length / signatureByteSize",
    "for (uint256 i = 0; i < signaturesCount; i++)",
    "current = result.signatures.slice( signatureByteSize * i, signatureByteSize )",
    "address recoveredAddress = hash.recover(current)",
    "if (signingMemberAddresses[i] != recoveredAddress)",
    "return false",
    "return true"
  ] := rfl

/-- T1 tie: the statements of `EcdsaInactivity.verifyClaim` (comments stripped, whitespace collapsed, cut at `;{}`)
    are the ones the hand model in `Model/C40.lean` was written from. A changed contract changes the
    generated list and this stops checking. -/
theorem text_solVerifyClaim : Gen.C40.solVerifyClaim = [
    "function verifyClaim( SortitionPool sortitionPool, Claim calldata claim, bytes memory walletPubKey, uint256 nonce, uint32[] calldata groupMembers ) external view returns (uint32[] memory inactiveMembers)",
    "validateMembersIndices( claim.inactiveMembersIndices, groupMembers.length )",
    "uint256 signaturesCount = claim.signatures.length / signatureByteSize",
    "require(claim.signatures.length != 0, \"No signatures provided\")",
    "require( claim.signatures.length % signatureByteSize == 0, \"Malformed signatures array\" )",
    "require( signaturesCount == claim.signingMembersIndices.length, \"Unexpected signatures count\" )",
    "require(signaturesCount >= groupThreshold, \"Too few signatures\")",
    "require(signaturesCount <= groupMembers.length, \"Too many signatures\")",
    "validateMembersIndices( claim.signingMembersIndices, groupMembers.length )",
    "bytes32 signedMessageHash = keccak256( abi.encode( block.chainid, nonce, walletPubKey, claim.inactiveMembersIndices, claim.heartbeatFailed ) ).toEthSignedMessageHash()",
    "address[] memory groupMembersAddresses = sortitionPool.getIDOperators( groupMembers )",
    "bytes memory checkedSignature",
    "bool senderSignatureExists = false",
    "for (uint256 i = 0; i < signaturesCount; i++)",
    "uint256 memberIndex = claim.signingMembersIndices[i]",
    "checkedSignature = claim.signatures.slice( signatureByteSize * i, signatureByteSize )",
    "address recoveredAddress = signedMessageHash.recover( checkedSignature )",
    "require( groupMembersAddresses[memberIndex - 1] == recoveredAddress, \"Invalid signature\" )",
    "if (!senderSignatureExists && msg.sender == recoveredAddress)",
    "senderSignatureExists = true",
    "require(senderSignatureExists, \"Sender must be claim signer\")",
    "inactiveMembers = new uint32[](claim.inactiveMembersIndices.length)",
    "for (uint256 i = 0; i < claim.inactiveMembersIndices.length; i++)",
    "uint256 memberIndex = claim.inactiveMembersIndices[i]",
    "inactiveMembers[i] = groupMembers[memberIndex - 1]",
    "return inactiveMembers"
  ] := rfl

/-- T1 tie: the statements of `EcdsaInactivity.validateMembersIndices` (comments stripped, whitespace collapsed, cut at `;{}`)
    are the ones the hand model in `Model/C40.lean` was written from. A changed contract changes the
    generated list and this stops checking. -/
theorem text_solValidateMembersIndices : Gen.C40.solValidateMembersIndices = [
    "function validateMembersIndices( uint256[] calldata indices, uint256 groupSize ) internal pure",
    "require( indices.length > 0 && indices.length <= groupSize, \"Corrupted members indices\" )",
    "require( indices[0] > 0 && indices[indices.length - 1] <= groupSize, \"Corrupted members indices\" )",
    "for (uint256 i = 0; i < indices.length - 1; i++)",
    "require(indices[i] < indices[i + 1], \"Corrupted members indices\")"
  ] := rfl

/-- T1 tie: the statements of `Wallets.addWallet` (comments stripped, whitespace collapsed, cut at `;{}`)
    are the ones the hand model in `Model/C40.lean` was written from. A changed contract changes the
    generated list and this stops checking. -/
theorem text_solAddWallet : Gen.C40.solAddWallet = [
    "function addWallet( Data storage self, bytes32 membersIdsHash, bytes calldata publicKey ) internal returns ( bytes32 walletID, bytes32 publicKeyX, bytes32 publicKeyY )",
    "walletID = keccak256(publicKey)",
    "publicKeyX = bytes32(publicKey[:32])",
    "publicKeyY = bytes32(publicKey[32:])",
    "self.registry[walletID].membersIdsHash = membersIdsHash",
    "self.registry[walletID].publicKeyX = publicKeyX",
    "self.registry[walletID].publicKeyY = publicKeyY"
  ] := rfl

/-- T1 tie: the statements of `Wallets.validatePublicKey` (comments stripped, whitespace collapsed, cut at `;{}`)
    are the ones the hand model in `Model/C40.lean` was written from. A changed contract changes the
    generated list and this stops checking. -/
theorem text_solValidatePublicKey : Gen.C40.solValidatePublicKey = [
    "function validatePublicKey(Data storage self, bytes calldata publicKey) internal view",
    "require(publicKey.length == 64, \"Invalid length of the public key\")",
    "bytes32 walletID = keccak256(publicKey)",
    "require( self.registry[walletID].publicKeyX == bytes32(0), \"Wallet with the given public key already exists\" )",
    "bytes32 publicKeyX = bytes32(publicKey[:32])",
    "require(publicKeyX != bytes32(0), \"Wallet public key must be non-zero\")"
  ] := rfl

/-! ## `abi.encode` facts -/

theorem flatMap_word_length (l : List Nat) : (l.flatMap word).length = 32 * l.length := by
  induction l with
  | nil => simp
  | cons a l ih => simp only [List.flatMap_cons, List.length_append, word_length, ih, List.length_cons]; omega

/-- every encoding of a single value is a whole number of 32-byte words -/
theorem encVal_length_mod (t : Ty) (v : Val) (b : Bytes) (h : encVal t v = some b) : b.length % 32 = 0 := by
  unfold encVal at h
  split at h <;> (try split at h) <;> cases h
  all_goals try simp only [word_length, List.length_append, padRight32, List.length_replicate,
    flatMap_word_length]
  all_goals omega

/-- the pre-image of the members hash is `offset ‖ length ‖ one word per id` -/
theorem encode_uint32_array (ids : List Nat) (h : ∀ v ∈ ids, v < 2 ^ 32) :
    encodeTyped ["uint32[]"] [.arr ids] = some (word 32 ++ (word ids.length ++ ids.flatMap word)) := by
  have hall : (ids.all fun x => decide (x < 2 ^ 32)) = true := by
    simpa [List.all_eq_true] using h
  simp [encodeTyped, Ty.parse, encode, encodeGo, encVal, hall, Ty.isDynamic]

/-! ## members hash -/

/-- the contract-side pre-image, uniformly -/
theorem membersPreimageContract_eq (members mis : List Nat) :
    membersPreimageContract members mis =
      (contractGroupMembers members mis).bind (fun gm => membersPreimageClient gm) := by
  unfold membersPreimageContract membersPreimageClient
  cases mis with
  | nil => simp [contractGroupMembers, abi_types_tie.2.2.2]
  | cons c rest =>
    simp only [abi_types_tie.2.2.1]
    cases contractGroupMembers members (c :: rest) <;> rfl

/-- what `AssembleDKGResult` returns when it returns -/
theorem assemble_ok_iff (H : Bytes → Bytes) (inp : DkgInput) (r : DkgResult) :
    assembleDKGResult H inp = .ok r ↔
      ∃ key signers sigBytes opIds pre,
        pubKeyChain inp.x inp.y = .ok key ∧ convertSignatures inp.sigs = .ok (signers, sigBytes) ∧
        operatingIDs inp.ids (sortNat inp.operating) = .ok opIds ∧
        membersPreimageClient opIds = some pre ∧
        r = { submitter := inp.submitter, groupPubKey := key, misbehaved := sortNat inp.misbehaved,
              signatures := sigBytes, signing := signers, members := inp.ids, membersHash := H pre } := by
  unfold assembleDKGResult
  constructor
  · intro h
    split at h
    · cases h
    · rename_i key hk
      split at h
      · cases h
      · rename_i signers sigBytes hc
        split at h
        · cases h
        · rename_i opIds ho
          split at h
          · cases h
          · rename_i pre hp
            injection h with h
            exact ⟨key, signers, sigBytes, opIds, pre, hk, hc, ho, hp, h.symm⟩
  · rintro ⟨key, signers, sigBytes, opIds, pre, hk, hc, ho, hp, rfl⟩
    simp [hk, hc, ho, hp]

/-- **members_hash_matches.** For *every* split of the selected group `1..N` (`N ≤ 255`) into
    operating and misbehaved members, handed over in any order, the members hash in the assembled
    result is the hash the contract recomputes in `validateMembersHash` (pre-images are equal
    byte for byte, so this holds for every hash function). -/
theorem members_hash_matches (H : Bytes → Bytes) (inp : DkgInput) (r : DkgResult)
    (hN : inp.ids.length ≤ 255)
    (hp : IsPartition inp.ids.length inp.operating inp.misbehaved)
    (hr : assembleDKGResult H inp = .ok r) :
    validateMembersHash H r = some true := by
  obtain ⟨key, signers, sigBytes, opIds, pre, _, _, ho, hpre, rfl⟩ := (assemble_ok_iff H inp r).1 hr
  obtain ⟨opIds', ho', hc, _⟩ := contract_members_eq_client inp.ids inp.operating inp.misbehaved hN hp
  rw [ho] at ho'
  injection ho' with ho'
  subst ho'
  simp [validateMembersHash, membersPreimageContract_eq, hc, hpre]

/-- non-vacuity and a concrete instance: members 2 and 4 of five misbehaved -/
example : contractGroupMembers [10, 20, 30, 40, 50] [2, 4] = some [10, 30, 50] := by decide
example : (operatingIDs [10, 20, 30, 40, 50] [1, 3, 5]).toOption = some [10, 30, 50] := by decide
/-- the contract's loop is *not* a plain filter for lists it does not expect: an unsorted list
    makes it write past the end of `groupMembers` (so sorting on the client side matters). -/
example : contractGroupMembers [10, 20, 30, 40, 50] [4, 2] = none := by decide

/-! ## signed message of the DKG result -/

/-- **sig_hash_preimage_equal (DKG result).** For every chain id below `2^256`, every start block
    below `2^63`, every key and every misbehaved list (any order): the bytes the client hashes and
    signs in `CalculateDKGResultSignatureHash` are the bytes `validateSignatures` hashes for the
    assembled result. -/
theorem sig_hash_preimage_equal (H : Bytes → Bytes) (inp : DkgInput) (r : DkgResult)
    (hc : inp.chainId < 2 ^ 256) (hb : inp.startBlock < 2 ^ 63)
    (hm : ∀ m ∈ inp.misbehaved, m < 256)
    (hr : assembleDKGResult H inp = .ok r) :
    (dkgSigPreimageClient inp.chainId inp.x inp.y inp.misbehaved inp.startBlock).toOption =
      dkgSigPreimageContract inp.chainId r inp.startBlock ∧
    (dkgSigPreimageContract inp.chainId r inp.startBlock).isSome := by
  obtain ⟨key, signers, sigBytes, opIds, pre, hk, _, _, _, rfl⟩ := (assemble_ok_iff H inp r).1 hr
  have hkey : key = marshalCropped inp.x inp.y := by
    unfold pubKeyChain at hk
    split at hk
    · injection hk with hk; exact hk.symm
    · cases hk
  subst hkey
  have hlen : ¬ (marshalCropped inp.x inp.y).length ≠ goPublicKeySize := by
    rw [marshalCropped_length]; decide
  have hsb : startBlockWord inp.startBlock = inp.startBlock := by simp [startBlockWord, hb]
  have hcm : inp.chainId % 2 ^ 256 = inp.chainId := Nat.mod_eq_of_lt hc
  unfold dkgSigPreimageClient dkgSigPreimageContract
  simp only [hlen, if_false, hsb, hcm, abi_types_tie.1]
  refine ⟨by cases encodeTyped _ _ <;> rfl, ?_⟩
  have hall : ((sortNat inp.misbehaved).all fun x => decide (x < 2 ^ 8)) = true := by
    simp only [List.all_eq_true, decide_eq_true_eq]
    intro a ha
    exact hm a (mem_sortNat.1 ha)
  have hb' : inp.startBlock < 2 ^ 256 := by omega
  simp [encodeTyped, Gen.C40.solDkgSigTypes, Ty.parse, encode, encodeGo, encVal, Ty.isDynamic, hall,
    hc, hb']


/-- Why `sig_hash_preimage_equal` needs `startBlock < 2^63`: the client converts the `uint64`
    start block with `big.NewInt(int64(startBlock))`, so from `2^63` on it packs the two's
    complement of a negative number while the contract uses the block number itself.
    (Unreachable in practice: Ethereum block numbers are far below `2^63`.) -/
theorem startBlock_int64_wrap : startBlockWord (2 ^ 63) = 2 ^ 256 - 2 ^ 63 ∧ startBlockWord (2 ^ 63) ≠ 2 ^ 63 := by
  decide

/-! ## wallet id -/

/-- **wallet_id_equal.** The id the client computes with `calculateWalletID` for the group key is
    `Wallets.addWallet`'s `keccak256(publicKey)` of the `groupPubKey` field it submits. -/
theorem wallet_id_equal (H : Bytes → Bytes) (inp : DkgInput) (r : DkgResult)
    (hr : assembleDKGResult H inp = .ok r) :
    walletIdClient H inp.x inp.y = .ok (walletIdContract H r.groupPubKey) := by
  obtain ⟨key, signers, sigBytes, opIds, pre, hk, _, _, _, rfl⟩ := (assemble_ok_iff H inp r).1 hr
  simp [walletIdClient, hk, walletIdContract]

/-! ## signatures in chain format -/

theorem lookup_of_mem_keys : ∀ (sigs : List (Nat × Bytes)) (i : Nat), i ∈ sigs.map Prod.fst →
    ∃ s, sigs.lookup i = some s ∧ (i, s) ∈ sigs
  | [], _, h => by simp at h
  | (k, v) :: tl, i, h => by
    by_cases hik : i = k
    · subst hik
      exact ⟨v, by simp [List.lookup], by simp⟩
    · have hmem : i ∈ tl.map Prod.fst := by
        simp only [List.map_cons, List.mem_cons] at h
        rcases h with h | h
        · exact absurd h hik
        · exact h
      obtain ⟨s, hs, hm⟩ := lookup_of_mem_keys tl i hmem
      have hne : (i == k) = false := by simpa using hik
      exact ⟨s, by simp [List.lookup, hne, hs], by simp [hm]⟩

theorem concatSigs_ok (sigs : List (Nat × Bytes)) (hlen : ∀ s ∈ sigs, s.2.length = goSignatureSize) :
    ∀ l : List Nat, (∀ i ∈ l, i ∈ sigs.map Prod.fst) →
      ∃ bs, concatSigs sigs l = .ok bs ∧ bs.length = goSignatureSize * l.length
  | [], _ => ⟨[], rfl, by simp⟩
  | i :: rest, h => by
    obtain ⟨s, hs, hm⟩ := lookup_of_mem_keys sigs i (h i (by simp))
    obtain ⟨bs, hbs, hl⟩ := concatSigs_ok sigs hlen rest (fun j hj => h j (by simp [hj]))
    have hsl : s.length = goSignatureSize := hlen (i, s) hm
    refine ⟨s ++ bs, ?_, ?_⟩
    · simp [concatSigs, hs, hsl, hbs]
    · simp only [List.length_append, hsl, hl, List.length_cons]
      rw [Nat.mul_succ]; omega

/-- with 65-byte signatures the conversion succeeds: sorted signer indexes, `65·n` bytes -/
theorem convertSignatures_ok (sigs : List (Nat × Bytes)) (hlen : ∀ s ∈ sigs, s.2.length = goSignatureSize) :
    ∃ bs, convertSignatures sigs = .ok (sortNat (sigs.map Prod.fst), bs) ∧
      bs.length = goSignatureSize * sigs.length := by
  obtain ⟨bs, hbs, hl⟩ := concatSigs_ok sigs hlen (sortNat (sigs.map Prod.fst))
    (fun i hi => mem_sortNat.1 hi)
  refine ⟨bs, by simp [convertSignatures, hbs], ?_⟩
  rw [hl, sortNat_length, List.length_map]

theorem getLastD_mem : ∀ (l : List Nat) (d : Nat), l ≠ [] → l.getLastD d ∈ l
  | [], _, h => absurd rfl h
  | [a], d, _ => by simp [List.getLastD]
  | a :: b :: t, d, _ => by
    have := getLastD_mem (b :: t) a (by simp)
    simp only [List.getLastD] at this ⊢
    exact List.mem_cons_of_mem _ this

theorem headD_mem : ∀ (l : List Nat) (d : Nat), l ≠ [] → l.headD d ∈ l
  | [], _, h => absurd rfl h
  | a :: _, _, _ => by simp

/-- a strictly increasing, non-empty list of indexes inside `[1, n]` passes the contract's
    "first ≥ 1, last ≤ n, adjacent increasing" test -/
theorem indices_check (l : List Nat) (n : Nat) (hs : l.Pairwise (· < ·)) (hne : l ≠ [])
    (hr : ∀ a ∈ l, 1 ≤ a ∧ a ≤ n) :
    ¬ (l.headD 0 < 1 ∨ l.getLastD 0 > n) ∧ chainLt l = true := by
  have h1 := hr _ (headD_mem l 0 hne)
  have h2 := hr _ (getLastD_mem l 0 hne)
  exact ⟨by omega, chainLt_of_strict hs⟩

/-- **assembled_passes_static.** For every split of the `groupSize` selected members into operating
    and misbehaved with at least `activeThreshold` (the client's quorum) operating, every supporter
    map (any iteration order) whose keys are member indexes, with between `groupThreshold` and
    `groupSize` signatures of 65 bytes each, every key with 32-byte coordinates and every list of
    32-bit operator ids: `AssembleDKGResult` succeeds and the result passes
    `EcdsaDkgValidator.validateFields`. -/
theorem assembled_passes_static (H : Bytes → Bytes) (inp : DkgInput)
    (hsize : inp.ids.length = groupSize)
    (hp : IsPartition inp.ids.length inp.operating inp.misbehaved)
    (hq : activeThreshold ≤ inp.operating.length)
    (hkeys : (inp.sigs.map Prod.fst).Nodup)
    (hrange : ∀ k ∈ inp.sigs.map Prod.fst, 1 ≤ k ∧ k ≤ inp.ids.length)
    (hcount : groupThreshold ≤ inp.sigs.length ∧ inp.sigs.length ≤ groupSize)
    (hlen : ∀ s ∈ inp.sigs, s.2.length = goSignatureSize)
    (hxy : inp.x < 2 ^ 256 ∧ inp.y < 2 ^ 256)
    (hids : ∀ v ∈ inp.ids, v < 2 ^ 32) :
    ∃ r, assembleDKGResult H inp = .ok r ∧ validateFields r = "" := by
  obtain ⟨c1, c2, c3, c4, c5, c6, c7, c8, c9, c10, c11⟩ := constants_tie
  have hN : inp.ids.length ≤ 255 := by omega
  obtain ⟨bs, hconv, hbl⟩ := convertSignatures_ok inp.sigs hlen
  obtain ⟨opIds, hop, _, hol⟩ := contract_members_eq_client inp.ids inp.operating inp.misbehaved hN hp
  have hopr : ∀ v ∈ opIds, v < 2 ^ 32 := by
    intro v hv
    have h' := operatingIDs_ok inp.ids hN (sortNat inp.operating)
      (fun j hj => ((hp.mem_operating j).1 (mem_sortNat.1 hj)).1)
    rw [hop] at h'
    injection h' with h'
    subst h'
    simp only [List.mem_map] at hv
    obtain ⟨j, hj, rfl⟩ := hv
    have hj' := ((hp.mem_operating j).1 (mem_sortNat.1 hj)).1
    have hlt : j - 1 < inp.ids.length := by omega
    have : inp.ids.getD (j - 1) 0 = inp.ids[j - 1] := by simp [List.getD, List.getElem?_eq_getElem hlt]
    rw [this]
    exact hids _ (List.getElem_mem hlt)
  have hpre : membersPreimageClient opIds = some (word 32 ++ (word opIds.length ++ opIds.flatMap word)) := by
    have : Gen.C40.goMembersHashTypes = ["uint32[]"] := by decide
    rw [membersPreimageClient, this]
    exact encode_uint32_array opIds hopr
  have hkey : pubKeyChain inp.x inp.y = .ok (marshalCropped inp.x inp.y) := by
    simp [pubKeyChain, hxy, marshalCropped]
  refine ⟨_, (assemble_ok_iff H inp _).2 ⟨_, _, _, _, _, hkey, hconv, hop, hpre, rfl⟩, ?_⟩
  -- the static checks, one by one
  have hsum := hp.length
  have hmisS := sortNat_strict hp.nodup_mis
  have hmisR : ∀ a ∈ sortNat inp.misbehaved, 1 ≤ a ∧ a ≤ groupSize := by
    intro a ha; have := hp.mem_mis a (mem_sortNat.1 ha); omega
  have hsigS := sortNat_strict hkeys
  have hsigR : ∀ a ∈ sortNat (inp.sigs.map Prod.fst), 1 ≤ a ∧ a ≤ groupSize := by
    intro a ha; have := hrange a (mem_sortNat.1 ha); omega
  have hslen : (sortNat (inp.sigs.map Prod.fst)).length = inp.sigs.length := by
    rw [sortNat_length, List.length_map]
  have hsne : sortNat (inp.sigs.map Prod.fst) ≠ [] := by
    intro h; rw [h] at hslen; simp at hslen; omega
  have hbl' : bs.length = signatureByteSize * inp.sigs.length := by rw [hbl, c1]
  have k1 : ¬ (marshalCropped inp.x inp.y).length ≠ publicKeyByteSize := by
    rw [marshalCropped_length, c5]; simp
  have k2 : ¬ groupSize < (sortNat inp.misbehaved).length := by rw [sortNat_length]; omega
  have k3 : ¬ groupSize - (sortNat inp.misbehaved).length < activeThreshold := by
    rw [sortNat_length]; omega
  have k4 : ¬ ((sortNat inp.misbehaved).length > 1 ∧
      ((sortNat inp.misbehaved).headD 0 < 1 ∨ (sortNat inp.misbehaved).getLastD 0 > groupSize)) := by
    rintro ⟨hl, hbad⟩
    have hne : sortNat inp.misbehaved ≠ [] := by intro h; rw [h] at hl; simp at hl
    exact (indices_check _ groupSize hmisS hne hmisR).1 hbad
  have k5 : ¬ ((sortNat inp.misbehaved).length > 1 ∧ ¬ chainLt (sortNat inp.misbehaved) = true) := by
    rintro ⟨_, hbad⟩; exact hbad (chainLt_of_strict hmisS)
  have k6 : ¬ bs.length = 0 := by
    rw [hbl']; intro h
    rcases Nat.mul_eq_zero.1 h with h | h <;> omega
  have k7 : ¬ bs.length % signatureByteSize ≠ 0 := by rw [hbl']; simp
  have kdiv : bs.length / signatureByteSize = inp.sigs.length := by
    rw [hbl']; exact Nat.mul_div_cancel_left _ c6
  have k8 : ¬ bs.length / signatureByteSize ≠ (sortNat (inp.sigs.map Prod.fst)).length := by
    rw [kdiv, hslen]; simp
  have k9 : ¬ bs.length / signatureByteSize < groupThreshold := by rw [kdiv]; omega
  have k10 : ¬ bs.length / signatureByteSize > groupSize := by rw [kdiv]; omega
  obtain ⟨k11, k12⟩ := indices_check _ groupSize hsigS hsne hsigR
  simp only [validateFields, k1, k2, k3, k4, k5, k6, k7, k8, k9, k10, if_false]
  cases hsg : sortNat (inp.sigs.map Prod.fst) with
  | nil => exact absurd hsg hsne
  | cons s0 tl =>
    rw [hsg] at k11 k12
    have k11' : ¬ (s0 < 1 ∨ (s0 :: tl).getLastD 0 > groupSize) := by
      simpa [List.headD] using k11
    simp only [k11', k12, if_false, not_true_eq_false]


/-! ## inactivity claims -/

theorem mem_dedup : ∀ {l : List Nat} {a : Nat}, a ∈ dedup l ↔ a ∈ l
  | [], _ => by simp [dedup]
  | b :: l, a => by
    simp only [dedup, List.mem_cons, List.mem_filter, mem_dedup (l := l), decide_eq_true_eq]
    constructor
    · rintro (h | ⟨h, _⟩)
      · exact Or.inl h
      · exact Or.inr h
    · rintro (h | h)
      · exact Or.inl h
      · by_cases hab : a = b
        · exact Or.inl hab
        · exact Or.inr ⟨h, hab⟩

theorem dedup_nodup : ∀ (l : List Nat), (dedup l).Nodup
  | [] => by simp [dedup]
  | b :: l => by
    simp only [dedup, List.nodup_cons, List.mem_filter, decide_eq_true_eq]
    exact ⟨fun h => h.2 rfl, (dedup_nodup l).filter _⟩

/-- a strictly increasing list inside `[lo, n]` has at most `n + 1 - lo` elements -/
theorem strict_length_le (n : Nat) : ∀ (l : List Nat) (lo : Nat), l.Pairwise (· < ·) → lo ≤ n + 1 →
    (∀ a ∈ l, lo ≤ a ∧ a ≤ n) → l.length + lo ≤ n + 1
  | [], lo, _, h, _ => by simpa using h
  | a :: t, lo, hs, _, hr => by
    rw [List.pairwise_cons] at hs
    have ha := hr a (by simp)
    have := strict_length_le n t (a + 1) hs.2 (by omega)
      (fun b hb => ⟨hs.1 b hb, (hr b (by simp [hb])).2⟩)
    simp only [List.length_cons]; omega

/-- the contract's `validateMembersIndices` accepts every non-empty strictly increasing list
    of indexes inside `[1, n]` -/
theorem validateMembersIndices_ok (l : List Nat) (n : Nat) (hs : l.Pairwise (· < ·)) (hne : l ≠ [])
    (hr : ∀ a ∈ l, 1 ≤ a ∧ a ≤ n) : validateMembersIndices l n = true := by
  have hlen := strict_length_le n l 1 hs (by omega) hr
  have hpos : 0 < l.length := List.length_pos_iff.2 hne
  have h1 := hr _ (headD_mem l 0 hne)
  have h2 := hr _ (getLastD_mem l 0 hne)
  simp only [validateMembersIndices, Bool.and_eq_true, decide_eq_true_eq]
  exact ⟨⟨⟨by omega, by omega⟩, ⟨by omega, by omega⟩⟩, chainLt_of_strict hs⟩

theorem assembleClaim_ok_iff (inp : ClaimInput) (c : Claim) :
    assembleClaim inp = .ok c ↔
      ∃ signers sigBytes, convertSignatures inp.sigs = .ok (signers, sigBytes) ∧
        c = { walletID := inp.walletID, inactive := claimInactive inp.inactive,
              heartbeatFailed := inp.heartbeatFailed, signatures := sigBytes, signing := signers } := by
  unfold assembleClaim
  constructor
  · intro h
    split at h
    · cases h
    · rename_i signers sigBytes hc
      injection h with h
      exact ⟨signers, sigBytes, hc, h.symm⟩
  · rintro ⟨signers, sigBytes, hc, rfl⟩
    simp [hc]

/-- **sig_hash_preimage_equal (inactivity claim).** For every chain id and nonce below `2^256`,
    every key, every accused list (any order, duplicates allowed) and both values of the heartbeat
    flag: the bytes the client hashes and signs in `CalculateInactivityClaimHash` for the claim
    pre-image are the bytes `EcdsaInactivity.verifyClaim` hashes for the assembled claim (with the
    wallet's registered key `bytes.concat(x, y)`). -/
theorem claim_hash_preimage_equal (inp : ClaimInput) (c : Claim)
    (hc : inp.chainId < 2 ^ 256) (hn : inp.nonce < 2 ^ 256) (hm : ∀ m ∈ inp.inactive, m < 256)
    (hr : assembleClaim inp = .ok c) :
    (claimPreimageClient inp.chainId inp.nonce inp.x inp.y (claimInactive inp.inactive)
        inp.heartbeatFailed).toOption =
      claimPreimageContract inp.chainId inp.nonce (marshalCropped inp.x inp.y) c ∧
    (claimPreimageContract inp.chainId inp.nonce (marshalCropped inp.x inp.y) c).isSome := by
  obtain ⟨signers, sigBytes, _, rfl⟩ := (assembleClaim_ok_iff inp c).1 hr
  have hlen : ¬ (marshalCropped inp.x inp.y).length ≠ goInactPublicKeySize := by
    rw [marshalCropped_length]; decide
  have hcm : inp.chainId % 2 ^ 256 = inp.chainId := Nat.mod_eq_of_lt hc
  have hnm : inp.nonce % 2 ^ 256 = inp.nonce := Nat.mod_eq_of_lt hn
  unfold claimPreimageClient claimPreimageContract
  simp only [hlen, if_false, hcm, hnm, abi_types_tie.2.1]
  refine ⟨by cases encodeTyped _ _ <;> rfl, ?_⟩
  have hall : ((claimInactive inp.inactive).all fun x => decide (x < 2 ^ 256)) = true := by
    simp only [List.all_eq_true, decide_eq_true_eq]
    intro a ha
    have := hm a (mem_dedup.1 (mem_sortNat.1 ha))
    omega
  simp [encodeTyped, Gen.C40.solInactTypes, Ty.parse, encode, encodeGo, encVal, Ty.isDynamic, hall,
    hc, hn]

/-- **claim_passes_static.** For every wallet group of `N ≤ 255` members, every non-empty accused
    list inside `[1, N]` (any order, duplicates allowed), every supporter map (any iteration order)
    whose keys are member indexes with at least `groupThreshold` signatures of 65 bytes:
    `AssembleInactivityClaim` on the claim pre-image succeeds and the claim passes every static
    `require` of `EcdsaInactivity.verifyClaim`. -/
theorem claim_passes_static (inp : ClaimInput)
    (hina : inp.inactive ≠ []) (hinr : ∀ a ∈ inp.inactive, 1 ≤ a ∧ a ≤ inp.ids.length)
    (hkeys : (inp.sigs.map Prod.fst).Nodup)
    (hrange : ∀ k ∈ inp.sigs.map Prod.fst, 1 ≤ k ∧ k ≤ inp.ids.length)
    (hcount : inactGroupThreshold ≤ inp.sigs.length)
    (hlen : ∀ s ∈ inp.sigs, s.2.length = goSignatureSize) :
    ∃ c, assembleClaim inp = .ok c ∧ verifyClaimStatic c inp.ids.length = "" := by
  obtain ⟨c1, c2, c3, c4, c5, c6, c7, c8, c9, c10, c11⟩ := constants_tie
  obtain ⟨bs, hconv, hbl⟩ := convertSignatures_ok inp.sigs hlen
  refine ⟨_, (assembleClaim_ok_iff inp _).2 ⟨_, _, hconv, rfl⟩, ?_⟩
  have hsz : 0 < inactSignatureByteSize := by rw [← c2, c1]; exact c6
  have hbl' : bs.length = inactSignatureByteSize * inp.sigs.length := by rw [hbl, c2]
  have hinaS : (claimInactive inp.inactive).Pairwise (· < ·) := sortNat_strict (dedup_nodup _)
  have hinaNe : claimInactive inp.inactive ≠ [] := by
    obtain ⟨a, ha⟩ := List.exists_mem_of_ne_nil _ hina
    intro h
    have : a ∈ claimInactive inp.inactive := mem_sortNat.2 (mem_dedup.2 ha)
    rw [h] at this; simp at this
  have hinaR : ∀ a ∈ claimInactive inp.inactive, 1 ≤ a ∧ a ≤ inp.ids.length :=
    fun a ha => hinr a (mem_dedup.1 (mem_sortNat.1 ha))
  have hsigS := sortNat_strict hkeys
  have hsigR : ∀ a ∈ sortNat (inp.sigs.map Prod.fst), 1 ≤ a ∧ a ≤ inp.ids.length :=
    fun a ha => hrange a (mem_sortNat.1 ha)
  have hslen : (sortNat (inp.sigs.map Prod.fst)).length = inp.sigs.length := by
    rw [sortNat_length, List.length_map]
  have hsne : sortNat (inp.sigs.map Prod.fst) ≠ [] := by
    intro h; rw [h] at hslen; simp at hslen; omega
  have hcnt := strict_length_le inp.ids.length _ 1 hsigS (by omega) hsigR
  have k1 := validateMembersIndices_ok _ _ hinaS hinaNe hinaR
  have k2 : ¬ bs.length = 0 := by
    rw [hbl']; intro h
    rcases Nat.mul_eq_zero.1 h with h | h <;> omega
  have k3 : ¬ bs.length % inactSignatureByteSize ≠ 0 := by rw [hbl']; simp
  have kdiv : bs.length / inactSignatureByteSize = inp.sigs.length := by
    rw [hbl']; exact Nat.mul_div_cancel_left _ hsz
  have k4 : ¬ bs.length / inactSignatureByteSize ≠ (sortNat (inp.sigs.map Prod.fst)).length := by
    rw [kdiv, hslen]; simp
  have k5 : ¬ bs.length / inactSignatureByteSize < inactGroupThreshold := by rw [kdiv]; omega
  have k6 : ¬ bs.length / inactSignatureByteSize > inp.ids.length := by rw [kdiv]; omega
  have k7 := validateMembersIndices_ok _ _ hsigS hsne hsigR
  simp only [verifyClaimStatic, k1, k2, k3, k4, k5, k6, k7, if_false, not_true_eq_false]

/-- non-vacuity: duplicates and order of the accused list disappear -/
example : dedup [7, 3, 7, 1, 3] = [7, 3, 1] := by decide
example : validateMembersIndices [1, 3, 7] 10 = true := by decide
example : validateMembersIndices [3, 1, 7] 10 = false := by decide


/-! ## the checks with generated comparison operators are the hand-written ones -/

theorem chainAny_ge : ∀ (l : List Nat), chainAny (fun a b => decide (a ≥ b)) l = !chainLt l
  | [] => rfl
  | [_] => rfl
  | a :: b :: rest => by
    simp only [chainAny, chainLt, chainAny_ge (b :: rest), Bool.not_and]
    congr 1
    by_cases h : a < b <;> simp [h] <;> omega

theorem chainAll_lt : ∀ (l : List Nat), chainAll (fun a b => decide (a < b)) l = chainLt l
  | [] => rfl
  | [_] => rfl
  | a :: b :: rest => by simp only [chainAll, chainLt, chainAll_lt (b :: rest)]

/-- **T1 tie of the comparison operators.** With the operators extracted from the contract text,
    the generated `validateFields` is the hand-written one (so every theorem about
    `validateFields` is a theorem about the generated version the monitor runs). -/
theorem validateFieldsGen_eq (r : DkgResult) : validateFieldsGen r = validateFields r := by
  have h5 : Gen.C40.vfOp5 = fun a b => decide (a ≥ b) := rfl
  have h13 : Gen.C40.vfOp13 = fun a b => decide (a ≥ b) := rfl
  unfold validateFieldsGen validateFields
  rw [h5, h13]
  simp only [Gen.C40.vfOp0, Gen.C40.vfOp1, Gen.C40.vfOp2, Gen.C40.vfOp3, Gen.C40.vfOp4,
    Gen.C40.vfOp6, Gen.C40.vfOp7, Gen.C40.vfOp8, Gen.C40.vfOp9, Gen.C40.vfOp10, Gen.C40.vfOp11,
    Gen.C40.vfOp12, chainAny_ge, Bool.and_eq_true, Bool.or_eq_true, decide_eq_true_eq,
    Bool.not_eq_true', Bool.not_eq_true]

theorem validateMembersIndicesGen_eq (l : List Nat) (n : Nat) :
    validateMembersIndicesGen l n = validateMembersIndices l n := by
  have h4 : Gen.C40.viOp4 = fun a b => decide (a < b) := rfl
  unfold validateMembersIndicesGen validateMembersIndices
  rw [h4, chainAll_lt]
  simp only [Gen.C40.viOp0, Gen.C40.viOp1, Gen.C40.viOp2, Gen.C40.viOp3, Bool.decide_and]

theorem verifyClaimStaticGen_eq (c : Claim) (n : Nat) :
    verifyClaimStaticGen c n = verifyClaimStatic c n := by
  unfold verifyClaimStaticGen verifyClaimStatic
  simp only [validateMembersIndicesGen_eq, Gen.C40.vcOp0, Gen.C40.vcOp1, Gen.C40.vcOp2,
    Gen.C40.vcOp3, Gen.C40.vcOp4, Bool.not_eq_true', decide_eq_false_iff_not, Bool.not_eq_true,
    Nat.not_le, ge_iff_le, gt_iff_lt, ne_eq, Decidable.not_not]

/-! ## the supporter map's iteration order does not matter -/

theorem lookup_eq_some_iff (sigs : List (Nat × Bytes)) (hnd : (sigs.map Prod.fst).Nodup) (i : Nat)
    (s : Bytes) : sigs.lookup i = some s ↔ (i, s) ∈ sigs := by
  induction sigs with
  | nil => simp
  | cons kv tl ih =>
    obtain ⟨k, v⟩ := kv
    simp only [List.map_cons, List.nodup_cons] at hnd
    by_cases hik : i = k
    · subst hik
      have hb : (i == i) = true := by simp
      simp only [List.lookup, hb, Option.some.injEq, List.mem_cons, Prod.mk.injEq, true_and]
      constructor
      · intro h; exact Or.inl h.symm
      · rintro (h | h)
        · exact h.symm
        · exact absurd (List.mem_map_of_mem (f := Prod.fst) h) hnd.1
    · have hb : (i == k) = false := by simpa using hik
      simp only [List.lookup, hb, ih hnd.2, List.mem_cons, Prod.mk.injEq, hik, false_and, false_or]

theorem lookup_perm {sigs sigs' : List (Nat × Bytes)} (hp : sigs.Perm sigs')
    (hnd : (sigs.map Prod.fst).Nodup) (i : Nat) : sigs.lookup i = sigs'.lookup i := by
  have hnd' : (sigs'.map Prod.fst).Nodup := (hp.map Prod.fst).nodup_iff.1 hnd
  cases h : sigs.lookup i with
  | some s =>
    have := (lookup_eq_some_iff sigs hnd i s).1 h
    exact ((lookup_eq_some_iff sigs' hnd' i s).2 (hp.mem_iff.1 this)).symm
  | none =>
    cases h' : sigs'.lookup i with
    | none => rfl
    | some s =>
      have := (lookup_eq_some_iff sigs' hnd' i s).1 h'
      have := (lookup_eq_some_iff sigs hnd i s).2 (hp.mem_iff.2 this)
      rw [h] at this; cases this

theorem concatSigs_congr {sigs sigs' : List (Nat × Bytes)} (h : ∀ i, sigs.lookup i = sigs'.lookup i) :
    ∀ l, concatSigs sigs l = concatSigs sigs' l
  | [] => rfl
  | i :: rest => by simp only [concatSigs, h i, concatSigs_congr h rest]

/-- **Map order.** Go iterates the signature map in an unspecified order; whatever the order, the
    signer indexes and the concatenated signatures come out the same (keys of a map are distinct). -/
theorem convertSignatures_order_independent {sigs sigs' : List (Nat × Bytes)} (hp : sigs.Perm sigs')
    (hnd : (sigs.map Prod.fst).Nodup) : convertSignatures sigs = convertSignatures sigs' := by
  have hnd' : (sigs'.map Prod.fst).Nodup := (hp.map Prod.fst).nodup_iff.1 hnd
  have hidx : sortNat (sigs.map Prod.fst) = sortNat (sigs'.map Prod.fst) :=
    strict_unique (sortNat_strict hnd) (sortNat_strict hnd')
      (fun a => by rw [mem_sortNat, mem_sortNat]; exact (hp.map Prod.fst).mem_iff)
  simp only [convertSignatures, hidx, concatSigs_congr (lookup_perm hp hnd)]

/-! ## monitor tie: the monitor accepts every output of the model -/

theorem isPartition_spec {n : Nat} {operating mis : List Nat} (h : isPartition n operating mis = true) :
    IsPartition n operating mis := by
  have := eq_of_beq h
  unfold IsPartition
  rw [← this]
  exact (sortNat_perm _).symm

theorem keysOk_spec {n : Nat} {sigs : List (Nat × Bytes)} (h : keysOk n sigs = true) :
    (sigs.map Prod.fst).Nodup ∧ ∀ k ∈ sigs.map Prod.fst, 1 ≤ k ∧ k ≤ n := by
  simp only [keysOk, Bool.and_eq_true, List.all_eq_true, decide_eq_true_eq] at h
  exact ⟨(sortNat_perm _).nodup_iff.1 (strict_nodup (strict_of_chainLt h.1)), h.2⟩

/-- the observation the model predicts for a DKG case; `rec` = the recovery flags (A-ecdsa) -/
def modelDkgObs (H : Bytes → Bytes) (inp : DkgInput) (rec : List Bool) : Option DkgObs :=
  match assembleDKGResult H inp,
    dkgSigPreimageClient inp.chainId inp.x inp.y inp.misbehaved inp.startBlock,
    walletIdClient H inp.x inp.y with
  | .ok r, .ok pre, .ok wid => some { res := r, hash := H pre, recovered := rec, walletId := wid }
  | _, _, _ => none

/-- **Monitor soundness for the DKG path.** For every input whatsoever, the monitor `holdsDkg`
    accepts what the model computes, provided the recovery flags obey A-ecdsa (signatures really
    made by the operator of the seat recover to that operator's address). Together with the
    byte-for-byte correspondence of model and implementation this is what transfers the theorems
    above to the implementation's outputs. -/
theorem holdsDkg_model (H : Bytes → Bytes) (inp : DkgInput) (real : List Nat) (rec : List Bool)
    (hrec : ∀ r, assembleDKGResult H inp = .ok r →
      realRecovered r.signing rec real = true ∧
      ((inp.sigs.all fun s => real.contains s.1) = true → rec.all id = true ∧ rec.length = inp.sigs.length)) :
    holdsDkg H inp real (modelDkgObs H inp rec) = true := by
  obtain ⟨c1, c2, c3, c4, c5, c6, c7, c8, c9, c10, c11⟩ := constants_tie
  -- what the domain predicate says
  have hdom : dkgInDomain inp = true →
      inp.ids.length ≤ 255 ∧ IsPartition inp.ids.length inp.operating inp.misbehaved ∧
      ((inp.sigs.map Prod.fst).Nodup ∧ ∀ k ∈ inp.sigs.map Prod.fst, 1 ≤ k ∧ k ≤ inp.ids.length) ∧
      (inp.x < 2 ^ 256 ∧ inp.y < 2 ^ 256) ∧ (inp.chainId < 2 ^ 256 ∧ inp.startBlock < 2 ^ 63) ∧
      (∀ v ∈ inp.ids, v < 2 ^ 32) := by
    intro h
    simp only [dkgInDomain, Bool.and_eq_true, decide_eq_true_eq, List.all_eq_true] at h
    obtain ⟨⟨⟨⟨⟨⟨h1, h2⟩, h3⟩, h4⟩, h5⟩, h6⟩, _⟩ := h
    exact ⟨h1, isPartition_spec h2, keysOk_spec h3, h4, h5, h6⟩
  -- in the domain, whenever the result is assembled the contract's derived values agree
  have hin : ∀ r pre wid, dkgInDomain inp = true → assembleDKGResult H inp = .ok r →
      dkgSigPreimageClient inp.chainId inp.x inp.y inp.misbehaved inp.startBlock = .ok pre →
      walletIdClient H inp.x inp.y = .ok wid →
      (validateMembersHash H r == some true &&
        (dkgSigPreimageContract inp.chainId r inp.startBlock).map H == some (H pre) &&
        walletIdContract H r.groupPubKey == wid && r.members == inp.ids &&
        r.submitter == inp.submitter && realRecovered r.signing rec real) = true := by
    intro r pre wid hd hr hpre hwid
    obtain ⟨hN, hp, _, _, ⟨hc, hb⟩, _⟩ := hdom hd
    have hm : ∀ m ∈ inp.misbehaved, m < 256 := fun m hm => by have := hp.mem_mis m hm; omega
    have e1 := members_hash_matches H inp r hN hp hr
    have e2 := (sig_hash_preimage_equal H inp r hc hb hm hr).1
    rw [hpre] at e2
    have e3 := wallet_id_equal H inp r hr
    rw [hwid] at e3
    injection e3 with e3
    obtain ⟨_, _, _, _, _, _, _, _, _, rfl⟩ := (assemble_ok_iff H inp r).1 hr
    have e2' : dkgSigPreimageContract inp.chainId _ inp.startBlock = some pre := e2.symm
    simp [e1, e2', e3, (hrec _ hr).1]
  -- a submittable input is assembled, hashed and passes the static checks
  have hsub : dkgSubmittable inp = true → dkgInDomain inp = true ∧
      ∃ r pre wid, assembleDKGResult H inp = .ok r ∧
        dkgSigPreimageClient inp.chainId inp.x inp.y inp.misbehaved inp.startBlock = .ok pre ∧
        walletIdClient H inp.x inp.y = .ok wid ∧ validateFields r = "" := by
    intro h
    simp only [dkgSubmittable, Bool.and_eq_true, decide_eq_true_eq, List.all_eq_true] at h
    obtain ⟨⟨⟨⟨hd, hsz⟩, hq⟩, hcnt⟩, hl⟩ := h
    obtain ⟨hN, hp, ⟨hk1, hk2⟩, hxy, ⟨hc, hb⟩, hids⟩ := hdom hd
    obtain ⟨r, hr, hv⟩ := assembled_passes_static H inp hsz hp hq hk1 hk2 hcnt hl hxy hids
    have hm : ∀ m ∈ inp.misbehaved, m < 256 := fun m hm => by have := hp.mem_mis m hm; omega
    obtain ⟨e2, e2s⟩ := sig_hash_preimage_equal H inp r hc hb hm hr
    refine ⟨hd, r, ?_⟩
    cases hcl : dkgSigPreimageClient inp.chainId inp.x inp.y inp.misbehaved inp.startBlock with
    | error e => rw [hcl] at e2; rw [← e2] at e2s; cases e2s
    | ok pre => exact ⟨pre, _, hr, rfl, wallet_id_equal H inp r hr, hv⟩
  unfold modelDkgObs
  cases hs : dkgSubmittable inp with
  | true =>
    obtain ⟨hd, r, pre, wid, hr, hpre, hwid, hv⟩ := hsub hs
    have h1 := hin r pre wid hd hr hpre hwid
    have h2 := (hrec r hr).2
    simp only [hr, hpre, hwid, holdsDkg, validateFieldsGen_eq, hd, hs, Bool.not_true, Bool.false_or,
      h1, hv, Bool.true_and, beq_self_eq_true]
    cases hall : (inp.sigs.all fun s => real.contains s.1) with
    | false => rfl
    | true => simp [h2 hall]
  | false =>
    cases hr : assembleDKGResult H inp with
    | error e => simp [holdsDkg, hs]
    | ok r =>
      cases hpre : dkgSigPreimageClient inp.chainId inp.x inp.y inp.misbehaved inp.startBlock with
      | error e => simp [holdsDkg, hs]
      | ok pre =>
        cases hwid : walletIdClient H inp.x inp.y with
        | error e => simp [holdsDkg, hs]
        | ok wid =>
          cases hd : dkgInDomain inp with
          | false => simp [holdsDkg, hs, hd]
          | true =>
            have h1 := hin r pre wid hd hr hpre hwid
            simp only [holdsDkg, hd, hs, Bool.not_true, Bool.false_or, h1, Bool.not_false,
              Bool.true_or, Bool.and_self]


/-- the observation the model predicts for an inactivity case -/
def modelClaimObs (H : Bytes → Bytes) (inp : ClaimInput) (rec : List Bool) : Option ClaimObs :=
  match assembleClaim inp,
    claimPreimageClient inp.chainId inp.nonce inp.x inp.y (claimInactive inp.inactive) inp.heartbeatFailed with
  | .ok c, .ok pre => some { claim := c, hash := H pre, recovered := rec }
  | _, _ => none

/-- **Monitor soundness for the inactivity path** (same shape as `holdsDkg_model`). -/
theorem holdsClaim_model (H : Bytes → Bytes) (inp : ClaimInput) (real : List Nat) (rec : List Bool)
    (hrec : ∀ c, assembleClaim inp = .ok c →
      realRecovered c.signing rec real = true ∧
      ((inp.sigs.all fun s => real.contains s.1) = true → rec.all id = true ∧ rec.length = inp.sigs.length)) :
    holdsClaim H inp real (modelClaimObs H inp rec) = true := by
  have hdom : claimInDomain inp = true →
      inp.ids.length ≤ 255 ∧
      ((inp.sigs.map Prod.fst).Nodup ∧ ∀ k ∈ inp.sigs.map Prod.fst, 1 ≤ k ∧ k ≤ inp.ids.length) ∧
      (inp.chainId < 2 ^ 256 ∧ inp.nonce < 2 ^ 256) ∧
      (∀ k ∈ inp.inactive, 1 ≤ k ∧ k ≤ inp.ids.length) := by
    intro h
    simp only [claimInDomain, Bool.and_eq_true, decide_eq_true_eq, List.all_eq_true] at h
    obtain ⟨⟨⟨⟨⟨h1, h2⟩, _⟩, h4⟩, h5⟩, _⟩ := h
    exact ⟨h1, keysOk_spec h2, h4, h5⟩
  have hin : ∀ c pre, claimInDomain inp = true → assembleClaim inp = .ok c →
      claimPreimageClient inp.chainId inp.nonce inp.x inp.y (claimInactive inp.inactive)
        inp.heartbeatFailed = .ok pre →
      ((claimPreimageContract inp.chainId inp.nonce (marshalCropped inp.x inp.y) c).map H == some (H pre) &&
        c.walletID == inp.walletID && c.heartbeatFailed == inp.heartbeatFailed &&
        realRecovered c.signing rec real) = true := by
    intro c pre hd hr hpre
    obtain ⟨hN, _, ⟨hc, hn⟩, hina⟩ := hdom hd
    have hm : ∀ m ∈ inp.inactive, m < 256 := fun m hm => by have := hina m hm; omega
    have e2 := (claim_hash_preimage_equal inp c hc hn hm hr).1
    rw [hpre] at e2
    have e2' : claimPreimageContract inp.chainId inp.nonce (marshalCropped inp.x inp.y) c = some pre := e2.symm
    obtain ⟨_, _, _, rfl⟩ := (assembleClaim_ok_iff inp c).1 hr
    simp [e2', (hrec _ hr).1]
  have hsub : claimSubmittable inp = true → claimInDomain inp = true ∧
      ∃ c pre, assembleClaim inp = .ok c ∧
        claimPreimageClient inp.chainId inp.nonce inp.x inp.y (claimInactive inp.inactive)
          inp.heartbeatFailed = .ok pre ∧ verifyClaimStatic c inp.ids.length = "" := by
    intro h
    simp only [claimSubmittable, Bool.and_eq_true, decide_eq_true_eq, List.all_eq_true] at h
    obtain ⟨⟨⟨hd, hne⟩, hcnt⟩, hl⟩ := h
    obtain ⟨hN, ⟨hk1, hk2⟩, ⟨hc, hn⟩, hina⟩ := hdom hd
    obtain ⟨c, hr, hv⟩ := claim_passes_static inp hne hina hk1 hk2 hcnt hl
    have hm : ∀ m ∈ inp.inactive, m < 256 := fun m hm => by have := hina m hm; omega
    obtain ⟨e2, e2s⟩ := claim_hash_preimage_equal inp c hc hn hm hr
    refine ⟨hd, c, ?_⟩
    cases hcl : claimPreimageClient inp.chainId inp.nonce inp.x inp.y (claimInactive inp.inactive)
        inp.heartbeatFailed with
    | error e => rw [hcl] at e2; rw [← e2] at e2s; cases e2s
    | ok pre => exact ⟨pre, hr, rfl, hv⟩
  unfold modelClaimObs
  cases hs : claimSubmittable inp with
  | true =>
    obtain ⟨hd, c, pre, hr, hpre, hv⟩ := hsub hs
    have h1 := hin c pre hd hr hpre
    have h2 := (hrec c hr).2
    simp only [hr, hpre, holdsClaim, verifyClaimStaticGen_eq, hd, hs, Bool.not_true, Bool.false_or,
      h1, hv, Bool.true_and, beq_self_eq_true]
    cases hall : (inp.sigs.all fun s => real.contains s.1) with
    | false => rfl
    | true => simp [h2 hall]
  | false =>
    cases hr : assembleClaim inp with
    | error e => simp [holdsClaim, hs]
    | ok c =>
      cases hpre : claimPreimageClient inp.chainId inp.nonce inp.x inp.y (claimInactive inp.inactive)
          inp.heartbeatFailed with
      | error e => simp [holdsClaim, hs]
      | ok pre =>
        cases hd : claimInDomain inp with
        | false => simp [holdsClaim, hs, hd]
        | true =>
          have h1 := hin c pre hd hr hpre
          simp only [holdsClaim, hd, hs, Bool.not_true, Bool.false_or, h1, Bool.not_false,
            Bool.true_or, Bool.and_self]


/-! ## signature recovery (A-ecdsa as a hypothesis) -/

theorem slice_mid (pre c post : Bytes) (sz k : Nat) (hpre : pre.length = sz * k) (hc : c.length = sz) :
    slice (pre ++ (c ++ post)) (sz * k) sz = c := by
  unfold slice
  rw [← hpre, List.drop_left, ← hc, List.take_left]

/-- the contract's loop over the concatenated signatures accepts when chunk `i` recovers to
    address `i` -/
theorem checkSigLoop_concat (recover : Bytes → Bytes → Option Nat) (hash : Bytes) (sz : Nat) :
    ∀ (chunks : List Bytes) (addrs : List Nat) (pre : Bytes) (k : Nat) (addrsPre : List Nat),
      pre.length = sz * k → addrsPre.length = k → chunks.length = addrs.length →
      (∀ c ∈ chunks, c.length = sz) → (∀ p ∈ chunks.zip addrs, recover hash p.1 = some p.2) →
      checkSigLoop recover hash (pre ++ chunks.flatten) sz (addrsPre ++ addrs)
        (List.range' k chunks.length) = some true
  | [], _, _, _, _, _, _, _, _, _ => by simp [checkSigLoop]
  | c :: cs, [], _, _, _, _, _, h, _, _ => by simp at h
  | c :: cs, a :: as, pre, k, addrsPre, hpre, hap, hlen, hsz, hrec => by
    have hc : c.length = sz := hsz c (by simp)
    have hget : (addrsPre ++ a :: as)[k]? = some a := by
      rw [List.getElem?_append_right (by omega)]
      simp [hap]
    have hr : recover hash c = some a := hrec (c, a) (by simp)
    simp only [List.length_cons, List.range'_succ, List.flatten_cons, checkSigLoop, hget,
      slice_mid pre c cs.flatten sz k hpre hc, hr, if_true]
    have ih := checkSigLoop_concat recover hash sz cs as (pre ++ c) (k + 1) (addrsPre ++ [a])
      (by rw [List.length_append, hpre, hc, Nat.mul_succ])
      (by simp [hap]) (by simpa using hlen)
      (fun c' hc' => hsz c' (by simp [hc']))
      (fun p hp => hrec p (by simp only [List.zip_cons_cons, List.mem_cons]; exact Or.inr hp))
    simpa [List.append_assoc] using ih

theorem concatSigs_eq_flatten (sigs : List (Nat × Bytes)) :
    ∀ (l : List Nat) (bs : Bytes), concatSigs sigs l = .ok bs →
      bs = (l.map (fun i => (sigs.lookup i).getD [])).flatten ∧
      ∀ i ∈ l, ((sigs.lookup i).getD []).length = goSignatureSize
  | [], bs, h => by
    simp only [concatSigs] at h
    injection h with h
    subst h
    simp
  | i :: rest, bs, h => by
    simp only [concatSigs] at h
    split at h
    · cases h
    · rename_i hl
      split at h
      · rename_i bs' hbs
        injection h with h
        subst h
        obtain ⟨e, hall⟩ := concatSigs_eq_flatten sigs rest bs' hbs
        refine ⟨by simp [e], ?_⟩
        intro j hj
        simp only [List.mem_cons] at hj
        rcases hj with rfl | hj
        · simpa using hl
        · exact hall j hj
      · cases h

theorem pickMembers_ok (members : List Nat) :
    ∀ (l : List Nat), (∀ i ∈ l, 1 ≤ i ∧ i ≤ members.length) →
      pickMembers members l = some (l.map (fun i => members.getD (i - 1) 0))
  | [], _ => rfl
  | i :: rest, h => by
    have hi := h i (by simp)
    have hne : i ≠ 0 := by omega
    have hlt : i - 1 < members.length := by omega
    simp only [pickMembers, hne, if_false, List.getElem?_eq_getElem hlt,
      pickMembers_ok members rest (fun j hj => h j (by simp [hj])), List.map_cons]
    congr 2
    simp [List.getD, List.getElem?_eq_getElem hlt]

/-- The signer indexes the client submits are strictly ascending, hence unique — what both
    contracts require of `signingMembersIndices` — for every supporter map (keys of a map are
    distinct), whatever its iteration order. -/
theorem signing_indices_strict (sigs : List (Nat × Bytes)) (hkeys : (sigs.map Prod.fst).Nodup)
    (signers : List Nat) (sigBytes : Bytes) (hconv : convertSignatures sigs = .ok (signers, sigBytes)) :
    signers.Pairwise (· < ·) ∧ signers.Nodup ∧ chainLt signers = true ∧
      ∀ i, i ∈ signers ↔ i ∈ sigs.map Prod.fst := by
  simp only [convertSignatures] at hconv
  cases hcs : concatSigs sigs (sortNat (sigs.map Prod.fst)) with
  | error e => rw [hcs] at hconv; cases hconv
  | ok bs =>
    rw [hcs] at hconv
    injection hconv with hconv
    injection hconv with h1 h2
    subst h1
    have hs := sortNat_strict hkeys
    exact ⟨hs, strict_nodup hs, chainLt_of_strict hs, fun i => mem_sortNat⟩

/-- Core of both signature theorems: the concatenated signatures of the supporter map, cut into
    `sz`-byte slices, recover one by one to the addresses of the operators of the signing seats. -/
theorem converted_signatures_check (recover : Bytes → Bytes → Option Nat) (addrOf : Nat → Nat)
    (sign : Nat → Bytes → Bytes) (hlaw : ∀ k d, recover d (sign k d) = some (addrOf k))
    (sigs : List (Nat × Bytes)) (ids : List Nat) (d : Bytes) (sz : Nat)
    (hsz : goSignatureSize = sz) (hpos : 0 < sz)
    (signers : List Nat) (sigBytes : Bytes) (hconv : convertSignatures sigs = .ok (signers, sigBytes))
    (hrange : ∀ k ∈ sigs.map Prod.fst, 1 ≤ k ∧ k ≤ ids.length)
    (hsigned : ∀ s ∈ sigs, s.2 = sign (ids.getD (s.1 - 1) 0) d) :
    pickMembers ids signers = some (signers.map (fun i => ids.getD (i - 1) 0)) ∧
    checkSigLoop recover d sigBytes sz ((signers.map (fun i => ids.getD (i - 1) 0)).map addrOf)
      (List.range (sigBytes.length / sz)) = some true := by
  have hconv' : signers = sortNat (sigs.map Prod.fst) ∧
      concatSigs sigs (sortNat (sigs.map Prod.fst)) = .ok sigBytes := by
    simp only [convertSignatures] at hconv
    cases hcs : concatSigs sigs (sortNat (sigs.map Prod.fst)) with
    | error e => rw [hcs] at hconv; cases hconv
    | ok bs =>
      rw [hcs] at hconv
      injection hconv with hconv
      injection hconv with h1 h2
      exact ⟨h1.symm, by rw [← h2]⟩
  obtain ⟨rfl, hcat⟩ := hconv'
  obtain ⟨hflat, hlens⟩ := concatSigs_eq_flatten _ _ _ hcat
  have hsr : ∀ i ∈ sortNat (sigs.map Prod.fst), 1 ≤ i ∧ i ≤ ids.length :=
    fun i hi => hrange i (mem_sortNat.1 hi)
  refine ⟨pickMembers_ok ids _ hsr, ?_⟩
  let idx := sortNat (sigs.map Prod.fst)
  let chunks := idx.map (fun i => (sigs.lookup i).getD [])
  have hchunkLen : ∀ c ∈ chunks, c.length = sz := by
    intro c hcm
    obtain ⟨i, hi, rfl⟩ := List.mem_map.1 hcm
    rw [← hsz]; exact hlens i hi
  have hflen : sigBytes.length = sz * idx.length := by
    rw [hflat]
    have : ∀ (cs : List Bytes), (∀ c ∈ cs, c.length = sz) → cs.flatten.length = sz * cs.length := by
      intro cs; induction cs with
      | nil => simp
      | cons c cs ih =>
        intro h
        simp only [List.flatten_cons, List.length_append, List.length_cons, h c (by simp),
          ih (fun c' hc' => h c' (by simp [hc'])), Nat.mul_succ]; omega
    have := this chunks hchunkLen
    simpa [chunks] using this
  have hcount : sigBytes.length / sz = idx.length := by
    rw [hflen]; exact Nat.mul_div_cancel_left _ hpos
  rw [hcount]
  have hmain := checkSigLoop_concat recover d sz chunks
    ((idx.map (fun i => ids.getD (i - 1) 0)).map addrOf) [] 0 [] (by simp) rfl
    (by simp [chunks]) hchunkLen
    (by
      intro p hp
      have hz : chunks.zip ((idx.map (fun i => ids.getD (i - 1) 0)).map addrOf) =
          idx.map (fun i => ((sigs.lookup i).getD [], addrOf (ids.getD (i - 1) 0))) := by
        simp only [chunks, List.map_map]
        rw [List.zip_map']
        rfl
      rw [hz] at hp
      obtain ⟨i, hi, rfl⟩ := List.mem_map.1 hp
      obtain ⟨s, hs, hmem⟩ := lookup_of_mem_keys sigs i (mem_sortNat.1 hi)
      simp only [hs, Option.getD_some]
      have hsg : s = sign (ids.getD (i - 1) 0) d := hsigned (i, s) hmem
      rw [hsg]
      exact hlaw _ _)
  rw [← hflat] at hmain
  simpa [List.range_eq_range', chunks] using hmain

/-- **signatures_validate.** Assume ECDSA (A-ecdsa): `recover d (sign k d) = some (addrOf k)`.
    If every supporter of the map is a member index and its signature was made by the operator of
    that seat (`ids[idx-1]`) over the *client's* hash with the Ethereum prefix — which is what
    `Signing().Sign(CalculateDKGResultSignatureHash(…))` does — then the contract's
    `validateSignatures` accepts the assembled result (for every chain id below `2^256`, start
    block below `2^63`, and every map iteration order). -/
theorem signatures_validate (H : Bytes → Bytes) (recover : Bytes → Bytes → Option Nat)
    (addrOf : Nat → Nat) (sign : Nat → Bytes → Bytes)
    (hlaw : ∀ k d, recover d (sign k d) = some (addrOf k))
    (inp : DkgInput) (r : DkgResult) (pre : Bytes)
    (hc : inp.chainId < 2 ^ 256) (hb : inp.startBlock < 2 ^ 63) (hm : ∀ m ∈ inp.misbehaved, m < 256)
    (hrange : ∀ k ∈ inp.sigs.map Prod.fst, 1 ≤ k ∧ k ≤ inp.ids.length)
    (hpre : dkgSigPreimageClient inp.chainId inp.x inp.y inp.misbehaved inp.startBlock = .ok pre)
    (hsigned : ∀ s ∈ inp.sigs, s.2 = sign (inp.ids.getD (s.1 - 1) 0) (ethSigned H (H pre)))
    (hr : assembleDKGResult H inp = .ok r) :
    validateSignatures H recover addrOf inp.chainId r inp.startBlock = some true := by
  obtain ⟨c1, c2, c3, c4, c5, c6, _⟩ := constants_tie
  have e2 := (sig_hash_preimage_equal H inp r hc hb hm hr).1
  rw [hpre] at e2
  have e2' : dkgSigPreimageContract inp.chainId r inp.startBlock = some pre := e2.symm
  obtain ⟨key, signers, sigBytes, opIds, mpre, _, hconv, _, _, rfl⟩ := (assemble_ok_iff H inp r).1 hr
  obtain ⟨hpick, hloop⟩ := converted_signatures_check recover addrOf sign hlaw inp.sigs inp.ids
    (ethSigned H (H pre)) signatureByteSize c1 c6 signers sigBytes hconv hrange hsigned
  simp only [validateSignatures, e2', hpick, hloop]

/-- **claim_signatures_validate.** Same for inactivity claims: under A-ecdsa, if every supporter
    of the map is a member index of the wallet's group and signed — with the key of the operator
    of its seat — the client's claim hash (`Signing().Sign(CalculateInactivityClaimHash(…))`),
    the signature loop of `EcdsaInactivity.verifyClaim` accepts the assembled claim: signature `i`
    recovers to `groupMembersAddresses[signingMembersIndices[i] - 1]`. For every chain id and nonce
    below `2^256`, every accused list and map iteration order. -/
theorem claim_signatures_validate (H : Bytes → Bytes) (recover : Bytes → Bytes → Option Nat)
    (addrOf : Nat → Nat) (sign : Nat → Bytes → Bytes)
    (hlaw : ∀ k d, recover d (sign k d) = some (addrOf k))
    (inp : ClaimInput) (c : Claim) (pre : Bytes)
    (hc : inp.chainId < 2 ^ 256) (hn : inp.nonce < 2 ^ 256) (hm : ∀ m ∈ inp.inactive, m < 256)
    (hrange : ∀ k ∈ inp.sigs.map Prod.fst, 1 ≤ k ∧ k ≤ inp.ids.length)
    (hpre : claimPreimageClient inp.chainId inp.nonce inp.x inp.y (claimInactive inp.inactive)
      inp.heartbeatFailed = .ok pre)
    (hsigned : ∀ s ∈ inp.sigs, s.2 = sign (inp.ids.getD (s.1 - 1) 0) (ethSigned H (H pre)))
    (hr : assembleClaim inp = .ok c) :
    verifyClaimSignatures H recover addrOf inp.chainId inp.nonce (marshalCropped inp.x inp.y) c
      inp.ids = some true := by
  obtain ⟨c1, c2, c3, c4, c5, c6, _⟩ := constants_tie
  have hpos : 0 < inactSignatureByteSize := by rw [← c2, c1]; exact c6
  have e2 := (claim_hash_preimage_equal inp c hc hn hm hr).1
  rw [hpre] at e2
  have e2' : claimPreimageContract inp.chainId inp.nonce (marshalCropped inp.x inp.y) c = some pre :=
    e2.symm
  obtain ⟨signers, sigBytes, hconv, rfl⟩ := (assembleClaim_ok_iff inp c).1 hr
  obtain ⟨hpick, hloop⟩ := converted_signatures_check recover addrOf sign hlaw inp.sigs inp.ids
    (ethSigned H (H pre)) inactSignatureByteSize c2 hpos signers sigBytes hconv hrange hsigned
  simp only [verifyClaimSignatures, e2', hpick, hloop]

/-! ## the signed pre-images determine the signed fields (`abi.encode` injectivity) -/

/-- **The DKG signed message binds its fields.** Two (chain id, result, start block) triples whose
    `validateSignatures` pre-images are equal agree on the chain id, the group public key, the
    misbehaved indexes and the start block (`encode_inj` instantiated at the contract's type list;
    with A-hash — keccak256 injective — equal hashes therefore mean equal fields). -/
theorem dkg_preimage_injective (c c' s s' : Nat) (r r' : DkgResult) (b : Bytes)
    (hk : r.groupPubKey.length < 2 ^ 256) (hk' : r'.groupPubKey.length < 2 ^ 256)
    (hm : r.misbehaved.length < 2 ^ 256) (hm' : r'.misbehaved.length < 2 ^ 256)
    (h : dkgSigPreimageContract c r s = some b) (h' : dkgSigPreimageContract c' r' s' = some b) :
    c = c' ∧ r.groupPubKey = r'.groupPubKey ∧ r.misbehaved = r'.misbehaved ∧ s = s' := by
  have hty : Gen.C40.solDkgSigTypes.mapM Ty.parse = some [.uint 256, .bytes, .uintArr 8, .uint 256] := by
    decide
  simp only [dkgSigPreimageContract, encodeTyped, hty, List.length_cons, List.length_nil, if_true] at h h'
  have := encode_inj [.uint 256, .bytes, .uintArr 8, .uint 256] _ _ b
    (by intro ty hty; simp only [List.mem_cons, List.not_mem_nil, or_false] at hty
        rcases hty with rfl | rfl | rfl | rfl <;> simp [Ty.ok])
    (by intro v hv; simp only [List.mem_cons, List.not_mem_nil, or_false] at hv
        rcases hv with rfl | rfl | rfl | rfl <;> simp [Val.lenOk, hk, hm])
    (by intro v hv; simp only [List.mem_cons, List.not_mem_nil, or_false] at hv
        rcases hv with rfl | rfl | rfl | rfl <;> simp [Val.lenOk, hk', hm'])
    rfl rfl h h'
  simpa using this

/-- **The inactivity claim's signed message binds its fields**: chain id, nonce, wallet public
    key, accused indexes and the heartbeat flag. -/
theorem claim_preimage_injective (c c' n n' : Nat) (k k' : Bytes) (cl cl' : Claim) (b : Bytes)
    (hk : k.length < 2 ^ 256) (hk' : k'.length < 2 ^ 256)
    (hm : cl.inactive.length < 2 ^ 256) (hm' : cl'.inactive.length < 2 ^ 256)
    (h : claimPreimageContract c n k cl = some b) (h' : claimPreimageContract c' n' k' cl' = some b) :
    c = c' ∧ n = n' ∧ k = k' ∧ cl.inactive = cl'.inactive ∧ cl.heartbeatFailed = cl'.heartbeatFailed := by
  have hty : Gen.C40.solInactTypes.mapM Ty.parse =
      some [.uint 256, .uint 256, .bytes, .uintArr 256, .bool] := by decide
  simp only [claimPreimageContract, encodeTyped, hty, List.length_cons, List.length_nil, if_true] at h h'
  have := encode_inj [.uint 256, .uint 256, .bytes, .uintArr 256, .bool] _ _ b
    (by intro ty hty; simp only [List.mem_cons, List.not_mem_nil, or_false] at hty
        rcases hty with rfl | rfl | rfl | rfl | rfl <;> simp [Ty.ok])
    (by intro v hv; simp only [List.mem_cons, List.not_mem_nil, or_false] at hv
        rcases hv with rfl | rfl | rfl | rfl | rfl <;> simp [Val.lenOk, hk, hm])
    (by intro v hv; simp only [List.mem_cons, List.not_mem_nil, or_false] at hv
        rcases hv with rfl | rfl | rfl | rfl | rfl <;> simp [Val.lenOk, hk', hm'])
    rfl rfl h h'
  simpa using this

/-! ## the lists the client derives from a `dkg.Result` are a partition -/

theorem applyMark_range (n : Nat) (st : List Nat × List Nat) (m : Bool × Nat)
    (h : ∀ a ∈ st.1 ++ st.2, 1 ≤ a ∧ a ≤ n) : ∀ a ∈ (applyMark n st m).1 ++ (applyMark n st m).2, 1 ≤ a ∧ a ≤ n := by
  obtain ⟨ia, dq⟩ := st
  unfold applyMark
  simp only
  split
  · rename_i hc
    split
    · intro a ha
      simp only [List.mem_append, List.mem_singleton] at ha
      rcases ha with ha | ha | ha
      · exact h a (by simp [ha])
      · exact h a (by simp [ha])
      · subst ha; exact ⟨hc.1, hc.2.1⟩
    · intro a ha
      simp only [List.mem_append, List.mem_singleton] at ha
      rcases ha with (ha | ha) | ha
      · exact h a (by simp [ha])
      · subst ha; exact ⟨hc.1, hc.2.1⟩
      · exact h a (by simp [ha])
  · exact h

theorem applyMarks_range (n : Nat) (marks : List (Bool × Nat)) :
    ∀ a ∈ (applyMarks n marks).1 ++ (applyMarks n marks).2, 1 ≤ a ∧ a ≤ n := by
  unfold applyMarks
  suffices ∀ (st : List Nat × List Nat), (∀ a ∈ st.1 ++ st.2, 1 ≤ a ∧ a ≤ n) →
      ∀ a ∈ (marks.foldl (applyMark n) st).1 ++ (marks.foldl (applyMark n) st).2, 1 ≤ a ∧ a ≤ n from
    this ([], []) (by simp)
  induction marks with
  | nil => intro st h; simpa using h
  | cons m ms ih => intro st h; exact ih _ (applyMark_range n st m h)

/-- **The client's inputs are in the theorems' domain.** Whatever sequence of
    `MarkMemberAsInactive` / `MarkMemberAsDisqualified` calls a DKG run made (repeated, conflicting
    and out-of-group marks included), `result.Group.OperatingMemberIndexes()` and
    `result.MisbehavedMembersIndexes()` — what `SignResult` / `SubmitResult` hand to the chain
    layer — split the member indexes `1..n`; so `members_hash_matches`,
    `assembled_passes_static`, `sig_hash_preimage_equal` and `signatures_validate` apply to them. -/
theorem result_lists_partition (n : Nat) (marks : List (Bool × Nat)) :
    IsPartition n (groupOperating n (applyMarks n marks)) (resultMisbehaved (applyMarks n marks)) := by
  have hr := applyMarks_range n marks
  generalize applyMarks n marks = st at hr
  obtain ⟨ia, dq⟩ := st
  simp only at hr
  unfold IsPartition groupOperating resultMisbehaved
  simp only
  have hmem : ∀ j, ((ia.contains j || dq.contains j) = true) ↔ j ∈ ia ++ dq := by
    intro j; simp
  have hfilt : (List.range' 1 n).filter (fun j => !(ia.contains j) && !(dq.contains j)) =
      (List.range' 1 n).filter (fun j => !(ia.contains j || dq.contains j)) := by
    congr 1; funext j; simp [Bool.not_or]
  rw [hfilt]
  have hperm : (sortNat (dedup (ia ++ dq))).Perm
      ((List.range' 1 n).filter (fun j => !!(ia.contains j || dq.contains j))) := by
    rw [List.perm_ext_iff_of_nodup ((sortNat_perm _).nodup_iff.2 (dedup_nodup _))
      ((strict_nodup (range'_strict 1 n)).filter _)]
    intro a
    rw [mem_sortNat, mem_dedup, List.mem_filter, List.mem_range'_1, Bool.not_not, hmem]
    constructor
    · intro ha; have := hr a ha; exact ⟨by omega, ha⟩
    · intro ha; exact ha.2
  exact (List.Perm.append_left _ hperm).trans
    (List.filter_append_perm (fun j => !(ia.contains j || dq.contains j)) (List.range' 1 n))

/-- non-vacuity: the demo of seeded change C40-b-w3 (inactive 9, disqualified 3 and 10) -/
example : groupOperating 10 ([9], [3, 10]) = [1, 2, 4, 5, 6, 7, 8] := by decide
example : applyMarks 10 [(false, 9), (true, 3), (true, 10), (false, 3), (true, 0), (false, 11), (true, 9)]
    = ([9], [3, 10]) := by decide

end KeepVerif.C40
