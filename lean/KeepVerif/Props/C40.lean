import KeepVerif.Proofs.C40Members
/-!
# C40 — Key generation results and inactivity claims satisfy the on-chain rules

Theorems over `Model/C40.lean`.  The hash `H` (keccak256) is an arbitrary function, ECDSA recovery
is a parameter with the sign/recover law as a hypothesis (A-ecdsa).  The constants, the ABI type
lists of *both* sides and the text of the Solidity functions come from `Gen/C40.lean`
(regenerated from the sources on every run).
-/
namespace KeepVerif.C40

-- the byte-level definitions stay folded (only their lengths matter to the proofs)
attribute [local irreducible] beBytes word

/-! ## T1 ties -/

/-- The client's hard-coded sizes are the contract's constants, and the contract's group
    parameters are ordered as the proofs need. -/
theorem constants_tie :
    goSignatureSize = signatureByteSize ∧ goSignatureSize = inactSignatureByteSize ∧
    goPublicKeySize = publicKeyByteSize ∧ goInactPublicKeySize = 64 ∧ publicKeyByteSize = 64 ∧
    0 < signatureByteSize ∧ 0 < groupThreshold ∧ 0 < inactGroupThreshold ∧
    groupThreshold ≤ activeThreshold ∧ activeThreshold ≤ groupSize ∧ groupSize ≤ 255 := by decide

/-- The ABI type lists the client packs with are the types of the expressions the contracts pass
    to `abi.encode`, in the same order. -/
theorem abi_types_tie :
    Gen.C40.goDkgSigTypes = Gen.C40.solDkgSigTypes ∧
    Gen.C40.goInactTypes = Gen.C40.solInactTypes ∧
    Gen.C40.goMembersHashTypes = Gen.C40.solMembersHashTypes0 ∧
    Gen.C40.goMembersHashTypes = Gen.C40.solMembersHashTypes1 := by decide

/-- … and the argument *expressions* on both sides are the ones the model pairs up. -/
theorem abi_args_tie :
    Gen.C40.solDkgSigArgs = ["block.chainid", "result.groupPubKey", "result.misbehavedMembersIndices", "startBlock"] ∧
    Gen.C40.goDkgSigArgs = ["chainID", "groupPublicKey", "misbehavedMembersIndexes", "startBlock"] ∧
    Gen.C40.solInactArgs = ["block.chainid", "nonce", "walletPubKey", "claim.inactiveMembersIndices", "claim.heartbeatFailed"] ∧
    Gen.C40.goInactArgs = ["chainID", "nonce", "walletPublicKey", "inactiveMembersIndexes", "heartbeatFailed"] ∧
    Gen.C40.solMembersHashArgs0 = ["groupMembers"] ∧ Gen.C40.solMembersHashArgs1 = ["result.members"] ∧
    Gen.C40.goMembersHashArgs = ["operatorsIDs"] := by decide

/-- T1 tie: the statements of `EcdsaDkgValidator.validateFields` (comments stripped, whitespace collapsed, cut at `;{}`)
    are the ones the hand model in `Model/C40.lean` was written from. A changed contract changes the
    generated list and this stops checking. -/
theorem text_solValidateFields : Gen.C40.solValidateFields = [
    "function validateFields(EcdsaDkg.Result calldata result) public pure returns (bool isValid, string memory errorMsg)",
    "if (result.groupPubKey.length != publicKeyByteSize)",
    "return (false, \"Malformed group public key\")",
    "uint8[] calldata misbehavedMembersIndices = result .misbehavedMembersIndices",
    "if (groupSize - misbehavedMembersIndices.length < activeThreshold)",
    "return (false, \"Too many members misbehaving during DKG\")",
    "if (misbehavedMembersIndices.length > 1)",
    "if ( misbehavedMembersIndices[0] < 1 || misbehavedMembersIndices[misbehavedMembersIndices.length - 1] > groupSize )",
    "return (false, \"Corrupted misbehaved members indices\")",
    "for (uint256 i = 1; i < misbehavedMembersIndices.length; i++)",
    "if ( misbehavedMembersIndices[i - 1] >= misbehavedMembersIndices[i] )",
    "return (false, \"Corrupted misbehaved members indices\")",
    "uint256 signaturesCount = result.signatures.length / signatureByteSize",
    "if (result.signatures.length == 0)",
    "return (false, \"No signatures provided\")",
    "if (result.signatures.length % signatureByteSize != 0)",
    "return (false, \"Malformed signatures array\")",
    "uint256[] calldata signingMembersIndices = result.signingMembersIndices",
    "if (signaturesCount != signingMembersIndices.length)",
    "return (false, \"Unexpected signatures count\")",
    "if (signaturesCount < groupThreshold)",
    "return (false, \"Too few signatures\")",
    "if (signaturesCount > groupSize)",
    "return (false, \"Too many signatures\")",
    "if ( signingMembersIndices[0] < 1 || signingMembersIndices[signingMembersIndices.length - 1] > groupSize )",
    "return (false, \"Corrupted signing member indices\")",
    "for (uint256 i = 1; i < signingMembersIndices.length; i++)",
    "if (signingMembersIndices[i - 1] >= signingMembersIndices[i])",
    "return (false, \"Corrupted signing member indices\")",
    "return (true, \"\")"
  ] := rfl

/-- T1 tie: the statements of `EcdsaDkgValidator.validateMembersHash` (comments stripped, whitespace collapsed, cut at `;{}`)
    are the ones the hand model in `Model/C40.lean` was written from. A changed contract changes the
    generated list and this stops checking. -/
theorem text_solValidateMembersHash : Gen.C40.solValidateMembersHash = [
    "function validateMembersHash(EcdsaDkg.Result calldata result) public pure returns (bool)",
    "if (result.misbehavedMembersIndices.length > 0)",
    "uint32[] memory groupMembers = new uint32[]( result.members.length - result.misbehavedMembersIndices.length )",
    "uint256 k = 0",
    "uint256 j = 0",
    "for (uint256 i = 0; i < result.members.length; i++)",
    "if (i != result.misbehavedMembersIndices[k] - 1)",
    "groupMembers[j] = result.members[i]",
    "j++",
    "else if (k < result.misbehavedMembersIndices.length - 1)",
    "k++",
    "return keccak256(abi.encode(groupMembers)) == result.membersHash",
    "return keccak256(abi.encode(result.members)) == result.membersHash"
  ] := rfl

/-- T1 tie: the statements of `EcdsaDkgValidator.validateSignatures` (comments stripped, whitespace collapsed, cut at `;{}`)
    are the ones the hand model in `Model/C40.lean` was written from. A changed contract changes the
    generated list and this stops checking. -/
theorem text_solValidateSignatures : Gen.C40.solValidateSignatures = [
    "function validateSignatures( EcdsaDkg.Result calldata result, uint256 startBlock ) public view returns (bool)",
    "bytes32 hash = keccak256( abi.encode( block.chainid, result.groupPubKey, result.misbehavedMembersIndices, startBlock ) ).toEthSignedMessageHash()",
    "uint256[] calldata signingMembersIndices = result.signingMembersIndices",
    "uint32[] memory signingMemberIds = new uint32[]( signingMembersIndices.length )",
    "for (uint256 i = 0; i < signingMembersIndices.length; i++)",
    "signingMemberIds[i] = result.members[signingMembersIndices[i] - 1]",
    "address[] memory signingMemberAddresses = sortitionPool.getIDOperators( signingMemberIds )",
    "bytes memory current",
    "uint256 signaturesCount = result.signatures.length / signatureByteSize",
    "for (uint256 i = 0; i < signaturesCount; i++)",
    "current = result.signatures.slice( signatureByteSize * i, signatureByteSize )",
    "address recoveredAddress = hash.recover(current)",
    "if (signingMemberAddresses[i] != recoveredAddress)",
    "return false",
    "return true"
  ] := rfl

/-- T1 tie: the statements of `EcdsaInactivity.verifyClaim` (comments stripped, whitespace collapsed, cut at `;{}`)
    are the ones the hand model in `Model/C40.lean` was written from. A changed contract changes the
    generated list and this stops checking. -/
theorem text_solVerifyClaim : Gen.C40.solVerifyClaim = [
    "function verifyClaim( SortitionPool sortitionPool, Claim calldata claim, bytes memory walletPubKey, uint256 nonce, uint32[] calldata groupMembers ) external view returns (uint32[] memory inactiveMembers)",
    "validateMembersIndices( claim.inactiveMembersIndices, groupMembers.length )",
    "uint256 signaturesCount = claim.signatures.length / signatureByteSize",
    "require(claim.signatures.length != 0, \"No signatures provided\")",
    "require( claim.signatures.length % signatureByteSize == 0, \"Malformed signatures array\" )",
    "require( signaturesCount == claim.signingMembersIndices.length, \"Unexpected signatures count\" )",
    "require(signaturesCount >= groupThreshold, \"Too few signatures\")",
    "require(signaturesCount <= groupMembers.length, \"Too many signatures\")",
    "validateMembersIndices( claim.signingMembersIndices, groupMembers.length )",
    "bytes32 signedMessageHash = keccak256( abi.encode( block.chainid, nonce, walletPubKey, claim.inactiveMembersIndices, claim.heartbeatFailed ) ).toEthSignedMessageHash()",
    "address[] memory groupMembersAddresses = sortitionPool.getIDOperators( groupMembers )",
    "bytes memory checkedSignature",
    "bool senderSignatureExists = false",
    "for (uint256 i = 0; i < signaturesCount; i++)",
    "uint256 memberIndex = claim.signingMembersIndices[i]",
    "checkedSignature = claim.signatures.slice( signatureByteSize * i, signatureByteSize )",
    "address recoveredAddress = signedMessageHash.recover( checkedSignature )",
    "require( groupMembersAddresses[memberIndex - 1] == recoveredAddress, \"Invalid signature\" )",
    "if (!senderSignatureExists && msg.sender == recoveredAddress)",
    "senderSignatureExists = true",
    "require(senderSignatureExists, \"Sender must be claim signer\")",
    "inactiveMembers = new uint32[](claim.inactiveMembersIndices.length)",
    "for (uint256 i = 0; i < claim.inactiveMembersIndices.length; i++)",
    "uint256 memberIndex = claim.inactiveMembersIndices[i]",
    "inactiveMembers[i] = groupMembers[memberIndex - 1]",
    "return inactiveMembers"
  ] := rfl

/-- T1 tie: the statements of `EcdsaInactivity.validateMembersIndices` (comments stripped, whitespace collapsed, cut at `;{}`)
    are the ones the hand model in `Model/C40.lean` was written from. A changed contract changes the
    generated list and this stops checking. -/
theorem text_solValidateMembersIndices : Gen.C40.solValidateMembersIndices = [
    "function validateMembersIndices( uint256[] calldata indices, uint256 groupSize ) internal pure",
    "require( indices.length > 0 && indices.length <= groupSize, \"Corrupted members indices\" )",
    "require( indices[0] > 0 && indices[indices.length - 1] <= groupSize, \"Corrupted members indices\" )",
    "for (uint256 i = 0; i < indices.length - 1; i++)",
    "require(indices[i] < indices[i + 1], \"Corrupted members indices\")"
  ] := rfl

/-- T1 tie: the statements of `Wallets.addWallet` (comments stripped, whitespace collapsed, cut at `;{}`)
    are the ones the hand model in `Model/C40.lean` was written from. A changed contract changes the
    generated list and this stops checking. -/
theorem text_solAddWallet : Gen.C40.solAddWallet = [
    "function addWallet( Data storage self, bytes32 membersIdsHash, bytes calldata publicKey ) internal returns ( bytes32 walletID, bytes32 publicKeyX, bytes32 publicKeyY )",
    "walletID = keccak256(publicKey)",
    "publicKeyX = bytes32(publicKey[:32])",
    "publicKeyY = bytes32(publicKey[32:])",
    "self.registry[walletID].membersIdsHash = membersIdsHash",
    "self.registry[walletID].publicKeyX = publicKeyX",
    "self.registry[walletID].publicKeyY = publicKeyY"
  ] := rfl

/-- T1 tie: the statements of `Wallets.validatePublicKey` (comments stripped, whitespace collapsed, cut at `;{}`)
    are the ones the hand model in `Model/C40.lean` was written from. A changed contract changes the
    generated list and this stops checking. -/
theorem text_solValidatePublicKey : Gen.C40.solValidatePublicKey = [
    "function validatePublicKey(Data storage self, bytes calldata publicKey) internal view",
    "require(publicKey.length == 64, \"Invalid length of the public key\")",
    "bytes32 walletID = keccak256(publicKey)",
    "require( self.registry[walletID].publicKeyX == bytes32(0), \"Wallet with the given public key already exists\" )",
    "bytes32 publicKeyX = bytes32(publicKey[:32])",
    "require(publicKeyX != bytes32(0), \"Wallet public key must be non-zero\")"
  ] := rfl

/-! ## `abi.encode` facts -/

theorem flatMap_word_length (l : List Nat) : (l.flatMap word).length = 32 * l.length := by
  induction l with
  | nil => simp
  | cons a l ih => simp only [List.flatMap_cons, List.length_append, word_length, ih, List.length_cons]; omega

/-- every encoding of a single value is a whole number of 32-byte words -/
theorem encVal_length_mod (t : Ty) (v : Val) (b : Bytes) (h : encVal t v = some b) : b.length % 32 = 0 := by
  unfold encVal at h
  split at h <;> (try split at h) <;> cases h
  all_goals try simp only [word_length, List.length_append, padRight32, List.length_replicate,
    flatMap_word_length]
  all_goals omega

/-- the pre-image of the members hash is `offset ‖ length ‖ one word per id` -/
theorem encode_uint32_array (ids : List Nat) (h : ∀ v ∈ ids, v < 2 ^ 32) :
    encodeTyped ["uint32[]"] [.arr ids] = some (word 32 ++ (word ids.length ++ ids.flatMap word)) := by
  have hall : (ids.all fun x => decide (x < 2 ^ 32)) = true := by
    simpa [List.all_eq_true] using h
  simp [encodeTyped, Ty.parse, encode, encodeGo, encVal, hall, Ty.isDynamic]

/-! ## members hash -/

/-- the contract-side pre-image, uniformly -/
theorem membersPreimageContract_eq (members mis : List Nat) :
    membersPreimageContract members mis =
      (contractGroupMembers members mis).bind (fun gm => membersPreimageClient gm) := by
  unfold membersPreimageContract membersPreimageClient
  cases mis with
  | nil => simp [contractGroupMembers, abi_types_tie.2.2.2]
  | cons c rest =>
    simp only [abi_types_tie.2.2.1]
    cases contractGroupMembers members (c :: rest) <;> rfl

/-- what `AssembleDKGResult` returns when it returns -/
theorem assemble_ok_iff (H : Bytes → Bytes) (inp : DkgInput) (r : DkgResult) :
    assembleDKGResult H inp = .ok r ↔
      ∃ key signers sigBytes opIds pre,
        pubKeyChain inp.x inp.y = .ok key ∧ convertSignatures inp.sigs = .ok (signers, sigBytes) ∧
        operatingIDs inp.ids (sortNat inp.operating) = .ok opIds ∧
        membersPreimageClient opIds = some pre ∧
        r = { submitter := inp.submitter, groupPubKey := key, misbehaved := sortNat inp.misbehaved,
              signatures := sigBytes, signing := signers, members := inp.ids, membersHash := H pre } := by
  unfold assembleDKGResult
  constructor
  · intro h
    split at h
    · cases h
    · rename_i key hk
      split at h
      · cases h
      · rename_i signers sigBytes hc
        split at h
        · cases h
        · rename_i opIds ho
          split at h
          · cases h
          · rename_i pre hp
            injection h with h
            exact ⟨key, signers, sigBytes, opIds, pre, hk, hc, ho, hp, h.symm⟩
  · rintro ⟨key, signers, sigBytes, opIds, pre, hk, hc, ho, hp, rfl⟩
    simp [hk, hc, ho, hp]

/-- **members_hash_matches.** For *every* split of the selected group `1..N` (`N ≤ 255`) into
    operating and misbehaved members, handed over in any order, the members hash in the assembled
    result is the hash the contract recomputes in `validateMembersHash` (pre-images are equal
    byte for byte, so this holds for every hash function). -/
theorem members_hash_matches (H : Bytes → Bytes) (inp : DkgInput) (r : DkgResult)
    (hN : inp.ids.length ≤ 255)
    (hp : IsPartition inp.ids.length inp.operating inp.misbehaved)
    (hr : assembleDKGResult H inp = .ok r) :
    validateMembersHash H r = some true := by
  obtain ⟨key, signers, sigBytes, opIds, pre, _, _, ho, hpre, rfl⟩ := (assemble_ok_iff H inp r).1 hr
  obtain ⟨opIds', ho', hc, _⟩ := contract_members_eq_client inp.ids inp.operating inp.misbehaved hN hp
  rw [ho] at ho'
  injection ho' with ho'
  subst ho'
  simp [validateMembersHash, membersPreimageContract_eq, hc, hpre]

/-- non-vacuity and a concrete instance: members 2 and 4 of five misbehaved -/
example : contractGroupMembers [10, 20, 30, 40, 50] [2, 4] = some [10, 30, 50] := by decide
example : (operatingIDs [10, 20, 30, 40, 50] [1, 3, 5]).toOption = some [10, 30, 50] := by decide
/-- the contract's loop is *not* a plain filter for lists it does not expect: an unsorted list
    makes it write past the end of `groupMembers` (so sorting on the client side matters). -/
example : contractGroupMembers [10, 20, 30, 40, 50] [4, 2] = none := by decide

/-! ## signed message of the DKG result -/

/-- **sig_hash_preimage_equal (DKG result).** For every chain id below `2^256`, every start block
    below `2^63`, every key and every misbehaved list (any order): the bytes the client hashes and
    signs in `CalculateDKGResultSignatureHash` are the bytes `validateSignatures` hashes for the
    assembled result. -/
theorem sig_hash_preimage_equal (H : Bytes → Bytes) (inp : DkgInput) (r : DkgResult)
    (hc : inp.chainId < 2 ^ 256) (hb : inp.startBlock < 2 ^ 63)
    (hm : ∀ m ∈ inp.misbehaved, m < 256)
    (hr : assembleDKGResult H inp = .ok r) :
    (dkgSigPreimageClient inp.chainId inp.x inp.y inp.misbehaved inp.startBlock).toOption =
      dkgSigPreimageContract inp.chainId r inp.startBlock ∧
    (dkgSigPreimageContract inp.chainId r inp.startBlock).isSome := by
  obtain ⟨key, signers, sigBytes, opIds, pre, hk, _, _, _, rfl⟩ := (assemble_ok_iff H inp r).1 hr
  have hkey : key = marshalCropped inp.x inp.y := by
    unfold pubKeyChain at hk
    split at hk
    · injection hk with hk; exact hk.symm
    · cases hk
  subst hkey
  have hlen : ¬ (marshalCropped inp.x inp.y).length ≠ goPublicKeySize := by
    rw [marshalCropped_length]; decide
  have hsb : startBlockWord inp.startBlock = inp.startBlock := by simp [startBlockWord, hb]
  have hcm : inp.chainId % 2 ^ 256 = inp.chainId := Nat.mod_eq_of_lt hc
  unfold dkgSigPreimageClient dkgSigPreimageContract
  simp only [hlen, if_false, hsb, hcm, abi_types_tie.1]
  refine ⟨by cases encodeTyped _ _ <;> rfl, ?_⟩
  have hall : ((sortNat inp.misbehaved).all fun x => decide (x < 2 ^ 8)) = true := by
    simp only [List.all_eq_true, decide_eq_true_eq]
    intro a ha
    exact hm a (mem_sortNat.1 ha)
  have hb' : inp.startBlock < 2 ^ 256 := by omega
  simp [encodeTyped, Gen.C40.solDkgSigTypes, Ty.parse, encode, encodeGo, encVal, Ty.isDynamic, hall,
    hc, hb']


/-! ## wallet id -/

/-- **wallet_id_equal.** The id the client computes with `calculateWalletID` for the group key is
    `Wallets.addWallet`'s `keccak256(publicKey)` of the `groupPubKey` field it submits. -/
theorem wallet_id_equal (H : Bytes → Bytes) (inp : DkgInput) (r : DkgResult)
    (hr : assembleDKGResult H inp = .ok r) :
    walletIdClient H inp.x inp.y = .ok (walletIdContract H r.groupPubKey) := by
  obtain ⟨key, signers, sigBytes, opIds, pre, hk, _, _, _, rfl⟩ := (assemble_ok_iff H inp r).1 hr
  simp [walletIdClient, hk, walletIdContract]

/-! ## signatures in chain format -/

theorem lookup_of_mem_keys : ∀ (sigs : List (Nat × Bytes)) (i : Nat), i ∈ sigs.map Prod.fst →
    ∃ s, sigs.lookup i = some s ∧ (i, s) ∈ sigs
  | [], _, h => by simp at h
  | (k, v) :: tl, i, h => by
    by_cases hik : i = k
    · subst hik
      exact ⟨v, by simp [List.lookup], by simp⟩
    · have hmem : i ∈ tl.map Prod.fst := by
        simp only [List.map_cons, List.mem_cons] at h
        rcases h with h | h
        · exact absurd h hik
        · exact h
      obtain ⟨s, hs, hm⟩ := lookup_of_mem_keys tl i hmem
      have hne : (i == k) = false := by simpa using hik
      exact ⟨s, by simp [List.lookup, hne, hs], by simp [hm]⟩

theorem concatSigs_ok (sigs : List (Nat × Bytes)) (hlen : ∀ s ∈ sigs, s.2.length = goSignatureSize) :
    ∀ l : List Nat, (∀ i ∈ l, i ∈ sigs.map Prod.fst) →
      ∃ bs, concatSigs sigs l = .ok bs ∧ bs.length = goSignatureSize * l.length
  | [], _ => ⟨[], rfl, by simp⟩
  | i :: rest, h => by
    obtain ⟨s, hs, hm⟩ := lookup_of_mem_keys sigs i (h i (by simp))
    obtain ⟨bs, hbs, hl⟩ := concatSigs_ok sigs hlen rest (fun j hj => h j (by simp [hj]))
    have hsl : s.length = goSignatureSize := hlen (i, s) hm
    refine ⟨s ++ bs, ?_, ?_⟩
    · simp [concatSigs, hs, hsl, hbs]
    · simp only [List.length_append, hsl, hl, List.length_cons]
      rw [Nat.mul_succ]; omega

/-- with 65-byte signatures the conversion succeeds: sorted signer indexes, `65·n` bytes -/
theorem convertSignatures_ok (sigs : List (Nat × Bytes)) (hlen : ∀ s ∈ sigs, s.2.length = goSignatureSize) :
    ∃ bs, convertSignatures sigs = .ok (sortNat (sigs.map Prod.fst), bs) ∧
      bs.length = goSignatureSize * sigs.length := by
  obtain ⟨bs, hbs, hl⟩ := concatSigs_ok sigs hlen (sortNat (sigs.map Prod.fst))
    (fun i hi => mem_sortNat.1 hi)
  refine ⟨bs, by simp [convertSignatures, hbs], ?_⟩
  rw [hl, sortNat_length, List.length_map]

theorem getLastD_mem : ∀ (l : List Nat) (d : Nat), l ≠ [] → l.getLastD d ∈ l
  | [], _, h => absurd rfl h
  | [a], d, _ => by simp [List.getLastD]
  | a :: b :: t, d, _ => by
    have := getLastD_mem (b :: t) a (by simp)
    simp only [List.getLastD] at this ⊢
    exact List.mem_cons_of_mem _ this

theorem headD_mem : ∀ (l : List Nat) (d : Nat), l ≠ [] → l.headD d ∈ l
  | [], _, h => absurd rfl h
  | a :: _, _, _ => by simp

/-- a strictly increasing, non-empty list of indexes inside `[1, n]` passes the contract's
    "first ≥ 1, last ≤ n, adjacent increasing" test -/
theorem indices_check (l : List Nat) (n : Nat) (hs : l.Pairwise (· < ·)) (hne : l ≠ [])
    (hr : ∀ a ∈ l, 1 ≤ a ∧ a ≤ n) :
    ¬ (l.headD 0 < 1 ∨ l.getLastD 0 > n) ∧ chainLt l = true := by
  have h1 := hr _ (headD_mem l 0 hne)
  have h2 := hr _ (getLastD_mem l 0 hne)
  exact ⟨by omega, chainLt_of_strict hs⟩

/-- **assembled_passes_static.** For every split of the `groupSize` selected members into operating
    and misbehaved with at least `activeThreshold` (the client's quorum) operating, every supporter
    map (any iteration order) whose keys are member indexes, with between `groupThreshold` and
    `groupSize` signatures of 65 bytes each, every key with 32-byte coordinates and every list of
    32-bit operator ids: `AssembleDKGResult` succeeds and the result passes
    `EcdsaDkgValidator.validateFields`. -/
theorem assembled_passes_static (H : Bytes → Bytes) (inp : DkgInput)
    (hsize : inp.ids.length = groupSize)
    (hp : IsPartition inp.ids.length inp.operating inp.misbehaved)
    (hq : activeThreshold ≤ inp.operating.length)
    (hkeys : (inp.sigs.map Prod.fst).Nodup)
    (hrange : ∀ k ∈ inp.sigs.map Prod.fst, 1 ≤ k ∧ k ≤ inp.ids.length)
    (hcount : groupThreshold ≤ inp.sigs.length ∧ inp.sigs.length ≤ groupSize)
    (hlen : ∀ s ∈ inp.sigs, s.2.length = goSignatureSize)
    (hxy : inp.x < 2 ^ 256 ∧ inp.y < 2 ^ 256)
    (hids : ∀ v ∈ inp.ids, v < 2 ^ 32) :
    ∃ r, assembleDKGResult H inp = .ok r ∧ validateFields r = "" := by
  obtain ⟨c1, c2, c3, c4, c5, c6, c7, c8, c9, c10, c11⟩ := constants_tie
  have hN : inp.ids.length ≤ 255 := by omega
  obtain ⟨bs, hconv, hbl⟩ := convertSignatures_ok inp.sigs hlen
  obtain ⟨opIds, hop, _, hol⟩ := contract_members_eq_client inp.ids inp.operating inp.misbehaved hN hp
  have hopr : ∀ v ∈ opIds, v < 2 ^ 32 := by
    intro v hv
    have h' := operatingIDs_ok inp.ids hN (sortNat inp.operating)
      (fun j hj => ((hp.mem_operating j).1 (mem_sortNat.1 hj)).1)
    rw [hop] at h'
    injection h' with h'
    subst h'
    simp only [List.mem_map] at hv
    obtain ⟨j, hj, rfl⟩ := hv
    have hj' := ((hp.mem_operating j).1 (mem_sortNat.1 hj)).1
    have hlt : j - 1 < inp.ids.length := by omega
    have : inp.ids.getD (j - 1) 0 = inp.ids[j - 1] := by simp [List.getD, List.getElem?_eq_getElem hlt]
    rw [this]
    exact hids _ (List.getElem_mem hlt)
  have hpre : membersPreimageClient opIds = some (word 32 ++ (word opIds.length ++ opIds.flatMap word)) := by
    have : Gen.C40.goMembersHashTypes = ["uint32[]"] := by decide
    rw [membersPreimageClient, this]
    exact encode_uint32_array opIds hopr
  have hkey : pubKeyChain inp.x inp.y = .ok (marshalCropped inp.x inp.y) := by
    simp [pubKeyChain, hxy, marshalCropped]
  refine ⟨_, (assemble_ok_iff H inp _).2 ⟨_, _, _, _, _, hkey, hconv, hop, hpre, rfl⟩, ?_⟩
  -- the static checks, one by one
  have hsum := hp.length
  have hmisS := sortNat_strict hp.nodup_mis
  have hmisR : ∀ a ∈ sortNat inp.misbehaved, 1 ≤ a ∧ a ≤ groupSize := by
    intro a ha; have := hp.mem_mis a (mem_sortNat.1 ha); omega
  have hsigS := sortNat_strict hkeys
  have hsigR : ∀ a ∈ sortNat (inp.sigs.map Prod.fst), 1 ≤ a ∧ a ≤ groupSize := by
    intro a ha; have := hrange a (mem_sortNat.1 ha); omega
  have hslen : (sortNat (inp.sigs.map Prod.fst)).length = inp.sigs.length := by
    rw [sortNat_length, List.length_map]
  have hsne : sortNat (inp.sigs.map Prod.fst) ≠ [] := by
    intro h; rw [h] at hslen; simp at hslen; omega
  have hbl' : bs.length = signatureByteSize * inp.sigs.length := by rw [hbl, c1]
  have k1 : ¬ (marshalCropped inp.x inp.y).length ≠ publicKeyByteSize := by
    rw [marshalCropped_length, c5]; simp
  have k2 : ¬ groupSize < (sortNat inp.misbehaved).length := by rw [sortNat_length]; omega
  have k3 : ¬ groupSize - (sortNat inp.misbehaved).length < activeThreshold := by
    rw [sortNat_length]; omega
  have k4 : ¬ ((sortNat inp.misbehaved).length > 1 ∧
      ((sortNat inp.misbehaved).headD 0 < 1 ∨ (sortNat inp.misbehaved).getLastD 0 > groupSize)) := by
    rintro ⟨hl, hbad⟩
    have hne : sortNat inp.misbehaved ≠ [] := by intro h; rw [h] at hl; simp at hl
    exact (indices_check _ groupSize hmisS hne hmisR).1 hbad
  have k5 : ¬ ((sortNat inp.misbehaved).length > 1 ∧ ¬ chainLt (sortNat inp.misbehaved) = true) := by
    rintro ⟨_, hbad⟩; exact hbad (chainLt_of_strict hmisS)
  have k6 : ¬ bs.length = 0 := by
    rw [hbl']; intro h
    rcases Nat.mul_eq_zero.1 h with h | h <;> omega
  have k7 : ¬ bs.length % signatureByteSize ≠ 0 := by rw [hbl']; simp
  have kdiv : bs.length / signatureByteSize = inp.sigs.length := by
    rw [hbl']; exact Nat.mul_div_cancel_left _ c6
  have k8 : ¬ bs.length / signatureByteSize ≠ (sortNat (inp.sigs.map Prod.fst)).length := by
    rw [kdiv, hslen]; simp
  have k9 : ¬ bs.length / signatureByteSize < groupThreshold := by rw [kdiv]; omega
  have k10 : ¬ bs.length / signatureByteSize > groupSize := by rw [kdiv]; omega
  obtain ⟨k11, k12⟩ := indices_check _ groupSize hsigS hsne hsigR
  simp only [validateFields, k1, k2, k3, k4, k5, k6, k7, k8, k9, k10, if_false]
  cases hsg : sortNat (inp.sigs.map Prod.fst) with
  | nil => exact absurd hsg hsne
  | cons s0 tl =>
    rw [hsg] at k11 k12
    have k11' : ¬ (s0 < 1 ∨ (s0 :: tl).getLastD 0 > groupSize) := by
      simpa [List.headD] using k11
    simp only [k11', k12, if_false, not_true_eq_false]


end KeepVerif.C40
