import KeepVerif.Model.C32
/-!
# C32 — SPV required confirmations are minimal and sufficient across epochs

Theorems over `Model/C32.lean` (`getProofInfo`).  `epochLen` comes from `Gen/C32.lean`
(regenerated from `difficultyEpochLength` on every run); the proofs use its value.

`Pre i` = the inputs the property talks about: no `uint` wrap-around (a transaction never has
more confirmations than `latest + 1`, heights below 2^64), factor ≥ 1, positive difficulties,
required count representable.  Outside `Pre` the model still predicts the code (wrap-around,
division panic) and correspondence is checked, but the property claims nothing.
-/
namespace KeepVerif.C32

theorem epochLen_eq : epochLen = 2016 := by decide
theorem W_eq : W = 18446744073709551616 := rfl

/-- true (mathematical) first block of the proof -/
def start (i : Input) : Nat := i.latest + 1 - i.conf
/-- true last block of a proof of `f` headers -/
def stop (i : Input) : Nat := start i + i.f - 1

structure Pre (i : Input) : Prop where
  fail0 : i.fail = 0
  conf_le : i.conf ≤ i.latest + 1
  f_pos : 1 ≤ i.f
  end_lt : i.latest + 1 - i.conf + i.f < W
  latest_lt : i.latest + 1 < W
  cur_lt : i.cur < W
  dCur_pos : 0 < i.dCur
  dPrev_pos : 0 < i.dPrev
  fits : i.f * i.dPrev / i.dCur + epochLen + 1 < W

theorem pre_iff (i : Input) : pre i = true ↔ Pre i := by
  unfold pre
  simp only [Bool.and_eq_true, decide_eq_true_eq]
  constructor
  · rintro ⟨⟨⟨⟨⟨⟨⟨⟨a, b⟩, c⟩, d⟩, e⟩, f⟩, g⟩, h⟩, k⟩
    exact ⟨a, b, c, d, e, f, g, h, k⟩
  · rintro ⟨a, b, c, d, e, f, g, h, k⟩
    exact ⟨⟨⟨⟨⟨⟨⟨⟨a, b⟩, c⟩, d⟩, e⟩, f⟩, g⟩, h⟩, k⟩

/-! ## No wrap-around under `Pre` -/

theorem startBlock_eq {i : Input} (h : Pre i) : startBlock i = start i := by
  have := h.conf_le; have := h.latest_lt
  unfold startBlock start; simp only [W_eq] at *; omega

theorem endBlock_eq {i : Input} (h : Pre i) : endBlock i = stop i := by
  have := h.conf_le; have := h.latest_lt; have := h.end_lt; have := h.f_pos
  unfold endBlock stop; rw [startBlock_eq h]; unfold start; simp only [W_eq] at *; omega

theorem start_le_stop {i : Input} (h : Pre i) : start i ≤ stop i := by
  have := h.f_pos; unfold stop; omega

/-! ## Range classification -/

/-- C32 (classification, per class): under `Pre` each of the three supported classes is chosen
    exactly when the *true* epochs of the first and last proof block are (current, current),
    (previous, previous), (previous, current).  (`e + 1 = cur` is "e is the previous epoch";
    for `cur = 0` there is no previous epoch and the wrapped `currentEpoch - 1` matches nothing.) -/
theorem classify_spec {i : Input} (h : Pre i) :
    (classify i = .curCur ↔ start i / epochLen = i.cur ∧ stop i / epochLen = i.cur) ∧
    (classify i = .prevPrev ↔ start i / epochLen + 1 = i.cur ∧ stop i / epochLen + 1 = i.cur) ∧
    (classify i = .prevCur ↔ start i / epochLen + 1 = i.cur ∧ stop i / epochLen = i.cur) := by
  have hc := h.cur_lt
  have hs : start i < W := by have := h.end_lt; unfold start; omega
  have he : stop i < W := by have := h.end_lt; unfold stop start; omega
  have hle := start_le_stop h
  unfold classify
  simp only [startBlock_eq h, endBlock_eq h, prevEpoch, epochLen_eq]
  generalize start i = s at *
  generalize stop i = e at *
  simp only [W_eq] at *
  split
  · simp only [true_iff, reduceCtorEq, false_iff]; omega
  · split
    · simp only [true_iff, reduceCtorEq, false_iff]; omega
    · split
      · simp only [true_iff, reduceCtorEq, false_iff]; omega
      · simp only [reduceCtorEq, false_iff]; omega

/-- C32 (classification, exhaustive): the proof is reported "within relay range" exactly when
    *every* block of the `f`-header range lies in the relay's previous or current epoch. -/
theorem within_iff_range_in_window {i : Input} (h : Pre i) :
    classify i ≠ .unsupported ↔
      ∀ b, start i ≤ b → b ≤ stop i → (b / epochLen = i.cur ∨ b / epochLen + 1 = i.cur) := by
  obtain ⟨h1, h2, h3⟩ := classify_spec h
  have hle := start_le_stop h
  rw [epochLen_eq] at *
  constructor
  · intro hne b hb1 hb2
    cases hcl : classify i with
    | curCur => have := h1.1 hcl; omega
    | prevPrev => have := h2.1 hcl; omega
    | prevCur => have := h3.1 hcl; omega
    | unsupported => exact absurd hcl hne
  · intro hall hcl
    have a := hall (start i) (Nat.le_refl _) hle
    have b := hall (stop i) hle (Nat.le_refl _)
    have n1 : ¬(start i / 2016 = i.cur ∧ stop i / 2016 = i.cur) := fun x => by
      have := h1.2 x; rw [hcl] at this; cases this
    have n2 : ¬(start i / 2016 + 1 = i.cur ∧ stop i / 2016 + 1 = i.cur) := fun x => by
      have := h2.2 x; rw [hcl] at this; cases this
    have n3 : ¬(start i / 2016 + 1 = i.cur ∧ stop i / 2016 = i.cur) := fun x => by
      have := h3.2 x; rw [hcl] at this; cases this
    omega

/-- The result flag is the classification (ties `proofInfo` to `classify`). -/
theorem proofInfo_within {i : Input} (h : Pre i) :
    (∃ acc req, proofInfo i = .info true acc req) ↔ classify i ≠ .unsupported := by
  have hf := h.fail0
  have hd : i.dCur ≠ 0 := Nat.pos_iff_ne_zero.1 h.dCur_pos
  unfold proofInfo
  cases classify i <;> simp [hf, hd]

/-! ## The crossing case -/

/-- In the crossing branch the number of previous-epoch blocks is below the factor — for *all*
    inputs, wrapped or not — so `totalDifficultyRequired - totalDifficultyPreviousEpoch` is never
    negative and the `Nat` subtraction in the model is the `big.Int` subtraction of the code. -/
theorem crossing_nPrev_lt_f (i : Input) (hc : classify i = .prevCur) : nPrev i < i.f % W := by
  unfold classify at hc
  simp only [prevEpoch, epochLen_eq] at hc
  unfold nPrev
  rw [epochLen_eq]
  unfold endBlock at hc
  have hs : startBlock i < W := Nat.mod_lt _ (by decide)
  generalize startBlock i = s at *
  simp only [W_eq] at *
  split at hc
  · cases hc
  · split at hc
    · cases hc
    · split at hc
      · rename_i c3; omega
      · cases hc


/-- ceiling division as the code computes it (`DivMod`, `+1` on a positive remainder) -/
def ceilDiv (need d : Nat) : Nat := if need % d > 0 then need / d + 1 else need / d

theorem ceilDiv_sufficient (need d : Nat) (hd : 0 < d) : need ≤ ceilDiv need d * d := by
  have h1 := Nat.div_add_mod need d
  have h2 := Nat.mod_lt need hd
  have h3 : need / d * d = d * (need / d) := Nat.mul_comm _ _
  unfold ceilDiv
  split
  · rw [Nat.add_mul]; omega
  · omega

theorem ceilDiv_minimal (need d k : Nat) (hk : k < ceilDiv need d) : k * d < need := by
  have h1 := Nat.div_add_mod need d
  have h3 : need / d * d = d * (need / d) := Nat.mul_comm _ _
  unfold ceilDiv at hk
  split at hk
  · have : k * d ≤ need / d * d := Nat.mul_le_mul_right d (by omega)
    omega
  · have : (k + 1) * d ≤ need / d * d := Nat.mul_le_mul_right d (by omega)
    rw [Nat.add_mul] at this
    have hd : 0 < d := by
      rcases Nat.eq_zero_or_pos d with h0 | h0
      · subst h0; simp at hk
      · exact h0
    omega

theorem nCur_eq (i : Input) : nCur i = ceilDiv (i.dPrev * i.f - nPrev i * i.dPrev) i.dCur := rfl

/-- `sumDiff` when all `m` headers have the same difficulty. -/
theorem sumDiff_const (cur dPrev dCur s d : Nat) :
    ∀ m, (∀ j, j < m → diffOf cur dPrev dCur (s + j) = d) → sumDiff cur dPrev dCur s m = m * d
  | 0, _ => by simp [sumDiff]
  | m + 1, h => by
    rw [sumDiff, sumDiff_const cur dPrev dCur s d m (fun j hj => h j (by omega)), h m (by omega),
      Nat.add_mul, Nat.one_mul]

/-- `sumDiff` for a range that starts in the previous epoch: the closed form the monitor uses. -/
theorem sumDiff_crossing (cur dPrev dCur s : Nat) (hs : s / epochLen + 1 = cur) :
    ∀ m, sumDiff cur dPrev dCur s m = accCrossing (epochLen - s % epochLen) dPrev dCur m
  | 0 => by simp [sumDiff, accCrossing]
  | m + 1 => by
    rw [sumDiff, sumDiff_crossing cur dPrev dCur s hs m]
    unfold accCrossing diffOf
    rw [epochLen_eq] at *
    by_cases h1 : m + 1 ≤ 2016 - s % 2016
    · have h2 : m ≤ 2016 - s % 2016 := by omega
      have h3 : (s + m) / 2016 < cur := by omega
      rw [if_pos h1, if_pos h2, if_pos h3, Nat.add_mul, Nat.one_mul]
    · have h3 : ¬ (s + m) / 2016 < cur := by omega
      rw [if_neg h1, if_neg h3]
      by_cases h2 : m ≤ 2016 - s % 2016
      · have : m + 1 - (2016 - s % 2016) = 1 := by omega
        have hm : m = 2016 - s % 2016 := by omega
        rw [if_pos h2, this, Nat.one_mul, ← hm]
      · have : m + 1 - (2016 - s % 2016) = (m - (2016 - s % 2016)) + 1 := by omega
        rw [if_neg h2, this, Nat.add_mul, Nat.one_mul, Nat.add_assoc]

/-- Arithmetic heart of the crossing case, on the closed form: with `np < f` blocks left in the
    previous epoch, `np + ⌈(f·dPrev − np·dPrev)/dCur⌉` headers reach `f·dPrev`, fewer do not. -/
theorem crossing_arith (np f dPrev dCur : Nat) (hnp : np < f) (hp : 0 < dPrev) (hc : 0 < dCur) :
    let req := np + ceilDiv (dPrev * f - np * dPrev) dCur
    accCrossing np dPrev dCur req ≥ f * dPrev ∧
    (∀ m, m < req → accCrossing np dPrev dCur m < f * dPrev) ∧ np < req := by
  intro req
  have hmul : np * dPrev + dPrev ≤ f * dPrev := by
    have := Nat.mul_le_mul_right dPrev (show np + 1 ≤ f by omega)
    rwa [Nat.add_mul, Nat.one_mul] at this
  have hcomm : dPrev * f = f * dPrev := Nat.mul_comm _ _
  have hneed : dPrev * f - np * dPrev + np * dPrev = f * dPrev := by omega
  have hpos : 0 < dPrev * f - np * dPrev := by omega
  have hsuf := ceilDiv_sufficient (dPrev * f - np * dPrev) dCur hc
  have hk : 0 < ceilDiv (dPrev * f - np * dPrev) dCur := by
    rcases Nat.eq_zero_or_pos (ceilDiv (dPrev * f - np * dPrev) dCur) with h0 | h0
    · rw [h0] at hsuf; omega
    · exact h0
  refine ⟨?_, ?_, by omega⟩
  · unfold accCrossing
    have h1 : ¬ req ≤ np := by omega
    have h2 : req - np = ceilDiv (dPrev * f - np * dPrev) dCur := by omega
    rw [if_neg h1, h2]; omega
  · intro m hm
    unfold accCrossing
    by_cases h1 : m ≤ np
    · rw [if_pos h1]
      have := Nat.mul_le_mul_right dPrev h1
      omega
    · rw [if_neg h1]
      have := ceilDiv_minimal (dPrev * f - np * dPrev) dCur (m - np) (by omega)
      omega

/-- Under `Pre` nothing is truncated in the crossing branch: the required count is
    `nPrev + ⌈…⌉` over the true start block. -/
theorem crossingRequired_eq {i : Input} (h : Pre i) (hc : classify i = .prevCur) :
    crossingRequired i =
      (epochLen - start i % epochLen) +
        ceilDiv (i.dPrev * i.f - (epochLen - start i % epochLen) * i.dPrev) i.dCur := by
  have hlt := crossing_nPrev_lt_f i hc
  have hfit := h.fits
  unfold crossingRequired
  rw [nCur_eq]
  unfold nPrev at *
  rw [startBlock_eq h] at *
  rw [epochLen_eq] at *
  generalize hk : ceilDiv (i.dPrev * i.f - (2016 - start i % 2016) * i.dPrev) i.dCur = k
  -- k ≤ f·dPrev / dCur + 1
  have hkle : k ≤ i.f * i.dPrev / i.dCur + 1 := by
    have hsub : i.dPrev * i.f - (2016 - start i % 2016) * i.dPrev ≤ i.f * i.dPrev := by
      rw [Nat.mul_comm i.dPrev i.f]; omega
    have hdiv := Nat.div_le_div_right (c := i.dCur) hsub
    rw [← hk]; unfold ceilDiv; split <;> omega
  simp only [W_eq] at *
  omega

/-- **C32 (sufficient and minimal).**  For every input in `Pre` on which `getProofInfo` reports
    the proof within range with `req` required confirmations: the `req` headers starting at the
    transaction's block accumulate at least `factor ×` (difficulty of the first header's epoch),
    and no smaller number of headers does.  Covers all three supported classes; in the
    crossing class this is the ceil computation, with difficulty rising or falling. -/
theorem required_sufficient_minimal {i : Input} (h : Pre i) {acc req : Nat}
    (hr : proofInfo i = .info true acc req) :
    let target := i.f * diffOf i.cur i.dPrev i.dCur (start i)
    sumDiff i.cur i.dPrev i.dCur (start i) req ≥ target ∧
    ∀ m, m < req → sumDiff i.cur i.dPrev i.dCur (start i) m < target := by
  intro target
  have hf := h.fail0
  have hd : i.dCur ≠ 0 := Nat.pos_iff_ne_zero.1 h.dCur_pos
  obtain ⟨h1, h2, h3⟩ := classify_spec h
  have hle := start_le_stop h
  have hfW : i.f % W = i.f := by
    have := h.end_lt; apply Nat.mod_eq_of_lt; omega
  -- a range inside one epoch: every header has the first header's difficulty
  have same : start i / epochLen = stop i / epochLen → req = i.f →
      sumDiff i.cur i.dPrev i.dCur (start i) req ≥ target ∧
      ∀ m, m < req → sumDiff i.cur i.dPrev i.dCur (start i) m < target := by
    intro hse hreq
    subst hreq
    have hconst : ∀ j, j < i.f →
        diffOf i.cur i.dPrev i.dCur (start i + j) = diffOf i.cur i.dPrev i.dCur (start i) := by
      intro j hj
      unfold diffOf
      have : (start i + j) / epochLen = start i / epochLen := by
        rw [epochLen_eq] at *; unfold stop at hse; omega
      rw [this]
    have hdpos : 0 < diffOf i.cur i.dPrev i.dCur (start i) := by
      unfold diffOf; split
      · exact h.dPrev_pos
      · exact h.dCur_pos
    constructor
    · rw [sumDiff_const _ _ _ _ _ i.f hconst]; exact Nat.le_refl _
    · intro m hm
      rw [sumDiff_const _ _ _ _ _ m (fun j hj => hconst j (by omega))]
      exact Nat.mul_lt_mul_of_pos_right hm hdpos
  unfold proofInfo at hr
  simp only [hf, show (0 : Nat) ≠ 1 by decide, show (0 : Nat) ≠ 2 by decide,
    show (0 : Nat) ≠ 3 by decide, show (0 : Nat) ≠ 4 by decide, show (0 : Nat) ≠ 5 by decide,
    if_false, hd] at hr
  cases hcl : classify i with
  | curCur =>
    rw [hcl] at hr; simp only [Out.info.injEq, true_and] at hr
    have := h1.1 hcl
    exact same (by omega) (by omega)
  | prevPrev =>
    rw [hcl] at hr; simp only [Out.info.injEq, true_and] at hr
    have := h2.1 hcl
    exact same (by omega) (by omega)
  | prevCur =>
    rw [hcl] at hr; simp only [Out.info.injEq, true_and] at hr
    have hs := (h3.1 hcl).1
    have hnp : epochLen - start i % epochLen < i.f := by
      have := crossing_nPrev_lt_f i hcl
      unfold nPrev at this; rw [startBlock_eq h, hfW] at this; exact this
    obtain ⟨a, b, _⟩ := crossing_arith (epochLen - start i % epochLen) i.f i.dPrev i.dCur hnp
      h.dPrev_pos h.dCur_pos
    have htarget : target = i.f * i.dPrev := by
      show i.f * diffOf i.cur i.dPrev i.dCur (start i) = _
      unfold diffOf; rw [if_pos (by omega)]
    rw [htarget, ← hr.2, crossingRequired_eq h hcl]
    constructor
    · rw [sumDiff_crossing _ _ _ _ hs]; exact a
    · intro m hm; rw [sumDiff_crossing _ _ _ _ hs]; exact b m hm
  | unsupported => rw [hcl] at hr; simp at hr

/-- Non-vacuity: the example from the code comment (factor 6, difficulty 50 → 30, two blocks
    left in the previous epoch) satisfies `Pre`, is a crossing, and needs 9 headers. -/
example : pre ⟨4030 + 19, 20, 6, 2, 30, 50, 0⟩ = true ∧
    proofInfo ⟨4030 + 19, 20, 6, 2, 30, 50, 0⟩ = .info true 20 9 := by decide

/-- The accumulated count is passed through unchanged whenever the proof is in range. -/
theorem accumulated_passthrough {i : Input} (h : Pre i) {acc req : Nat}
    (hr : proofInfo i = .info true acc req) : acc = i.conf := by
  have hf := h.fail0
  have hd : i.dCur ≠ 0 := Nat.pos_iff_ne_zero.1 h.dCur_pos
  have hcW : i.conf % W = i.conf := by
    have := h.conf_le; have := h.latest_lt; apply Nat.mod_eq_of_lt; omega
  unfold proofInfo at hr
  cases hcl : classify i <;> simp [hf, hd, hcl, hcW] at hr <;> omega


/-- **Monitor soundness.**  The monitor `holds` (the property as an independent decidable
    predicate: true epochs of first/last block, sufficiency, and "one fewer is not enough")
    accepts the model's output on *every* input.  With the correspondence run (model output =
    implementation output) this transfers the theorems above to what the code returned. -/
theorem holds_model (i : Input) : holds i (proofInfo i) = true := by
  unfold holds
  by_cases hp : pre i = true
  · have h := (pre_iff i).1 hp
    have hf := h.fail0
    have hd : i.dCur ≠ 0 := Nat.pos_iff_ne_zero.1 h.dCur_pos
    obtain ⟨h1, h2, h3⟩ := classify_spec h
    have hle := start_le_stop h
    have hfW : i.f % W = i.f := by
      have := h.end_lt; apply Nat.mod_eq_of_lt; omega
    have hcW : i.conf % W = i.conf := by
      have := h.conf_le; have := h.latest_lt; apply Nat.mod_eq_of_lt; omega
    have hst : i.latest + 1 - i.conf = start i := rfl
    have hsp : start i + i.f - 1 = stop i := rfl
    simp only [hp, Bool.not_true, Bool.false_eq_true, if_false, hst, hsp]
    cases hcl : classify i with
    | curCur =>
      have hpi : proofInfo i = .info true i.conf i.f := by
        unfold proofInfo; simp [hf, hcl, hfW, hcW]
      obtain ⟨hs, he⟩ := h1.1 hcl
      simp [hpi, hs, he]
    | prevPrev =>
      have hpi : proofInfo i = .info true i.conf i.f := by
        unfold proofInfo; simp [hf, hcl, hfW, hcW]
      obtain ⟨hs, he⟩ := h2.1 hcl
      have hse : start i / epochLen = stop i / epochLen := by omega
      simp [hpi, he, hse]
    | prevCur =>
      have hpi : proofInfo i = .info true i.conf (crossingRequired i) := by
        unfold proofInfo; simp [hf, hcl, hd, hcW]
      obtain ⟨hs, he⟩ := h3.1 hcl
      have hne : ¬ start i / epochLen = i.cur := by omega
      have hnp : epochLen - start i % epochLen < i.f := by
        have := crossing_nPrev_lt_f i hcl
        unfold nPrev at this; rw [startBlock_eq h, hfW] at this; exact this
      obtain ⟨a, b, c⟩ := crossing_arith (epochLen - start i % epochLen) i.f i.dPrev i.dCur hnp
        h.dPrev_pos h.dCur_pos
      rw [← crossingRequired_eq h hcl] at a b c
      have b' := b (crossingRequired i - 1) (by omega)
      have c' : 0 < crossingRequired i := by omega
      simp [hpi, hs, he, hne, a, b', c']
    | unsupported =>
      have hpi : proofInfo i = .info false 0 0 := by
        unfold proofInfo; simp [hf, hcl]
      have n1 : ¬(start i / epochLen = i.cur ∧ stop i / epochLen = i.cur) := fun x => by
        have := h1.2 x; rw [hcl] at this; cases this
      have n2 : ¬(start i / epochLen + 1 = i.cur ∧ stop i / epochLen + 1 = i.cur) := fun x => by
        have := h2.2 x; rw [hcl] at this; cases this
      have n3 : ¬(start i / epochLen + 1 = i.cur ∧ stop i / epochLen = i.cur) := fun x => by
        have := h3.2 x; rw [hcl] at this; cases this
      have hdiv : start i / epochLen ≤ stop i / epochLen := Nat.div_le_div_right hle
      have hno : ¬((start i / epochLen = i.cur ∨ start i / epochLen + 1 = i.cur) ∧
          (stop i / epochLen = i.cur ∨ stop i / epochLen + 1 = i.cur)) := by omega
      rw [hpi]
      simp only [Bool.and_eq_true, Bool.or_eq_true, decide_eq_true_eq, hno, if_false]
      simp
  · simp [hp]

end KeepVerif.C32
