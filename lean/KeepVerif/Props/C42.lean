import KeepVerif.Model.C42
/-!
# C42 — Sortition pool status changes are only requested when permitted

Theorems over `Model/C42.lean` (`checkOperatorStatus`, `checkRewardsEligibility`, the join
policies, `MonitorPool`).  All statements are for **every** chain state (`Tick`: each of the ten
answers `t`/`f`/error), **every** policy tree and **every** history (list of ticks).
-/
namespace KeepVerif.C42

/-! ### policies -/

/-- a policy evaluation only queries, it never sends a transaction. -/
theorem policy_trace_no_tx (tk : Tick) (p : Policy) : ∀ c ∈ (evalPolicy tk p).2, c.isTx = false := by
  induction p with
  | uncond => simp [evalPolicy]
  | const b => simp [evalPolicy, Call.isTx]
  | nil => simp [evalPolicy]
  | beta =>
    unfold evalPolicy
    cases tk.chaosnet <;> cases tk.beta <;> simp [Call.isTx]
  | cons h t ih1 ih2 =>
    intro c hc
    unfold evalPolicy at hc
    by_cases hh : (evalPolicy tk h).1 = true
    · simp only [hh, if_true, List.mem_append] at hc
      rcases hc with hc | hc
      · exact ih1 c hc
      · exact ih2 c hc
    · simp only [hh] at hc
      exact ih1 c (by simpa using hc)

/-- `BetaOperatorPolicy.ShouldJoin` truth table: allowed iff chaosnet is (successfully reported)
inactive, or active and the operator is (successfully reported) a beta operator; any query
error denies. -/
theorem beta_policy (tk : Tick) :
    policyAllows tk .beta = true ↔ tk.chaosnet = .f ∨ (tk.chaosnet = .t ∧ tk.beta = .t) := by
  unfold policyAllows evalPolicy
  cases tk.chaosnet <;> cases tk.beta <;> simp

/-- the beta policy asks for the beta status only while chaosnet is active. -/
theorem beta_policy_calls (tk : Tick) :
    Call.beta ∈ (evalPolicy tk .beta).2 ↔ tk.chaosnet = .t := by
  unfold evalPolicy
  cases tk.chaosnet <;> cases tk.beta <;> simp

theorem policyAllows_cons (tk : Tick) (h t : Policy) :
    policyAllows tk (.cons h t) = (policyAllows tk h && policyAllows tk t) := by
  simp only [policyAllows, evalPolicy]
  split <;> simp_all

/-- semantic list of a conjunction's members. -/
def members : Policy → List Policy
  | .cons h t => h :: members t
  | _ => []

def isConj : Policy → Bool
  | .nil => true
  | .cons _ t => isConj t
  | _ => false

/-- `ConjunctionPolicy.ShouldJoin`: allowed iff every member allows (any nesting, any length,
the empty conjunction allows). -/
theorem conjunction_policy (tk : Tick) (p : Policy) (hp : isConj p = true) :
    policyAllows tk p = (members p).all (policyAllows tk) := by
  induction p with
  | uncond => simp [isConj] at hp
  | const b => simp [isConj] at hp
  | beta => simp [isConj] at hp
  | nil => simp [policyAllows, evalPolicy, members]
  | cons h t _ ih2 =>
    have ih := ih2 (by simpa [isConj] using hp)
    simp only [members, List.all_cons, ← ih]
    exact policyAllows_cons tk h t

example : policyAllows ⟨.f,.f,.f,.f,.f,.f,.t,.t,.f,.f⟩ (.cons .beta (.cons .uncond .nil)) = true := by decide
example : policyAllows ⟨.f,.f,.f,.f,.f,.f,.t,.f,.f,.f⟩ (.cons .beta (.cons .uncond .nil)) = false := by decide

/-! ### one status check -/

private theorem mem_policy_not_tx {tk : Tick} {p : Policy} {c : Call} (hc : c.isTx = true) :
    c ∉ (evalPolicy tk p).2 := fun h => by
  have := policy_trace_no_tx tk p c h
  simp [this] at hc

private theorem rewards_cases (tk : Tick) :
    (Call.restore ∈ (checkRewards tk).1 ↔ tk.eligible = .f ∧ tk.canRestore = .t) ∧
    Call.join ∉ (checkRewards tk).1 ∧ Call.update ∉ (checkRewards tk).1 ∧
    count .restore (checkRewards tk).1 ≤ 1 := by
  unfold checkRewards count
  cases tk.eligible <;> cases tk.canRestore <;> simp

/-- C42 (join): `JoinSortitionPool` is requested **iff** the operator is not in the pool, not up
to date, the pool is unlocked (all three queries answered without error) and the policy allows. -/
theorem join_iff (p : Policy) (tk : Tick) :
    Call.join ∈ (check p tk).1 ↔
      tk.inPool = .f ∧ tk.upToDate = .f ∧ tk.locked = .f ∧ policyAllows tk p = true := by
  have hr := rewards_cases tk
  have hp : Call.join ∉ (evalPolicy tk p).2 := mem_policy_not_tx rfl
  unfold check policyAllows
  cases h1 : tk.inPool <;> cases h2 : tk.upToDate <;> cases h3 : tk.locked <;>
    simp [hr.2.1, hp]

/-- C42 (update): `UpdateOperatorStatus` is requested **iff** the operator is in the pool, out of
date and the pool is unlocked. -/
theorem update_iff (p : Policy) (tk : Tick) :
    Call.update ∈ (check p tk).1 ↔ tk.inPool = .t ∧ tk.upToDate = .f ∧ tk.locked = .f := by
  have hr := rewards_cases tk
  have hp : Call.update ∉ (evalPolicy tk p).2 := mem_policy_not_tx rfl
  unfold check
  cases h1 : tk.inPool <;> cases h2 : tk.upToDate <;> cases h3 : tk.locked <;>
    simp [hr.2.2.1, hp]
  all_goals (split <;> simp)

/-- C42 (restore): `RestoreRewardEligibility` is requested **iff** the operator is in the pool,
the up-to-date query did not fail, the chain says the operator is ineligible and that
eligibility can be restored. -/
theorem restore_iff (p : Policy) (tk : Tick) :
    Call.restore ∈ (check p tk).1 ↔
      tk.inPool = .t ∧ tk.upToDate ≠ .e ∧ tk.eligible = .f ∧ tk.canRestore = .t := by
  have hr := rewards_cases tk
  have hp : Call.restore ∉ (evalPolicy tk p).2 := mem_policy_not_tx rfl
  unfold check
  cases h1 : tk.inPool <;> cases h2 : tk.upToDate <;> cases h3 : tk.locked <;>
    simp [hr.1, hp]
  all_goals (split <;> simp)

/-- `checkRewardsEligibility` alone. -/
theorem rewards_restore_iff (tk : Tick) :
    Call.restore ∈ (checkRewards tk).1 ↔ tk.eligible = .f ∧ tk.canRestore = .t :=
  (rewards_cases tk).1

/-- join and update are never requested by the same check. -/
theorem join_update_exclusive (p : Policy) (tk : Tick) :
    ¬ (Call.join ∈ (check p tk).1 ∧ Call.update ∈ (check p tk).1) := by
  rw [join_iff, update_iff]
  rintro ⟨⟨h, _⟩, ⟨h', _⟩⟩
  rw [h] at h'; cases h'

/-- A failing query requests nothing further: after an error of `IsOperatorInPool`,
`IsOperatorUpToDate` no transaction at all; after an error of `IsPoolLocked` neither join nor
update; after an error of `IsEligibleForRewards`/`CanRestoreRewardEligibility` no restore. -/
theorem errors_request_nothing_further (p : Policy) (tk : Tick) :
    (tk.inPool = .e → ∀ c ∈ (check p tk).1, c.isTx = false) ∧
    (tk.upToDate = .e → ∀ c ∈ (check p tk).1, c.isTx = false) ∧
    (tk.locked = .e → Call.join ∉ (check p tk).1 ∧ Call.update ∉ (check p tk).1) ∧
    (tk.eligible = .e → Call.restore ∉ (check p tk).1) ∧
    (tk.canRestore = .e → Call.restore ∉ (check p tk).1) := by
  refine ⟨?_, ?_, ?_, ?_, ?_⟩
  · intro h; unfold check; simp [h, Call.isTx]
  · intro h; unfold check; cases h1 : tk.inPool <;> simp [h, Call.isTx]
  · intro h; rw [join_iff, update_iff]; simp [h]
  · intro h; rw [restore_iff]; simp [h]
  · intro h; rw [restore_iff]; simp [h]

/-- an up-to-date operator (or a locked pool) gets neither join nor update. -/
theorem uptodate_or_locked_no_change (p : Policy) (tk : Tick)
    (h : tk.upToDate = .t ∨ tk.locked = .t) :
    Call.join ∉ (check p tk).1 ∧ Call.update ∉ (check p tk).1 := by
  rw [join_iff, update_iff]
  rcases h with h | h <;> simp [h]

/-! ### histories: the monitor is stateless -/

/-- `MonitorPool` does nothing at all for an unknown operator / a failing resolution. -/
theorem not_registered_requests_nothing (reg : Ans) (p : Policy) (ticks : List Tick) (h : reg ≠ .t) :
    (monitorPool reg p ticks).2 = [] ∧ (monitorPool reg p ticks).1 ≠ .ok := by
  unfold monitorPool
  cases reg <;> simp_all

/-- Every check of a history sees only its own chain state: the i-th trace is `check` of the
i-th tick, whatever came before (hence `join_iff`/`update_iff`/`restore_iff` hold at every
point of every history). -/
theorem history_independent (p : Policy) (ticks : List Tick) (i : Nat) (hi : i < ticks.length) :
    ((monitorPool .t p ticks).2)[i]? = some (check p ticks[i]).1 := by
  simp [monitorPool, hi]

/-- history form of the three rules. -/
theorem history_rules (p : Policy) (ticks : List Tick) :
    ∀ tr ∈ (monitorPool .t p ticks).2, ∃ tk ∈ ticks, tr = (check p tk).1 ∧
      (Call.join ∈ tr ↔ tk.inPool = .f ∧ tk.upToDate = .f ∧ tk.locked = .f ∧ policyAllows tk p = true) ∧
      (Call.update ∈ tr ↔ tk.inPool = .t ∧ tk.upToDate = .f ∧ tk.locked = .f) ∧
      (Call.restore ∈ tr ↔ tk.inPool = .t ∧ tk.upToDate ≠ .e ∧ tk.eligible = .f ∧ tk.canRestore = .t) := by
  intro tr htr
  simp only [monitorPool, List.mem_map] at htr
  obtain ⟨tk, htk, rfl⟩ := htr
  exact ⟨tk, htk, rfl, join_iff p tk, update_iff p tk, restore_iff p tk⟩

/-! ### the monitor accepts every model output -/

private theorem count_le_one (p : Policy) (tk : Tick) :
    count .join (check p tk).1 ≤ 1 ∧ count .update (check p tk).1 ≤ 1 ∧
    count .restore (check p tk).1 ≤ 1 := by
  have hr := rewards_cases tk
  have hpj : ∀ c, c.isTx = true → (List.filter (· = c) (evalPolicy tk p).2) = [] := by
    intro c hc
    rw [List.filter_eq_nil_iff]
    intro a ha hac
    have := policy_trace_no_tx tk p a ha
    simp at hac; subst hac; simp [this] at hc
  have hr3 := hr.2.2.2
  have hrj : List.filter (· = Call.join) (checkRewards tk).1 = [] := by
    rw [List.filter_eq_nil_iff]; intro a ha hac; simp at hac; subst hac; exact hr.2.1 ha
  have hru : List.filter (· = Call.update) (checkRewards tk).1 = [] := by
    rw [List.filter_eq_nil_iff]; intro a ha hac; simp at hac; subst hac; exact hr.2.2.1 ha
  unfold count at hr3 ⊢
  unfold check
  cases h1 : tk.inPool <;> cases h2 : tk.upToDate <;> cases h3 : tk.locked <;>
    simp [List.filter_cons, List.filter_append, hpj Call.join rfl, hpj Call.update rfl,
      hpj Call.restore rfl, hrj, hru, hr3]
  all_goals (try split) <;> simp [hpj Call.join rfl, hpj Call.update rfl, hpj Call.restore rfl]

theorem holdsTick_model (p : Policy) (tk : Tick) : holdsTick p tk (check p tk).1 = true := by
  have hj := join_iff p tk
  have hu := update_iff p tk
  have hr := restore_iff p tk
  have hc := count_le_one p tk
  unfold holdsTick
  simp only [Bool.and_eq_true, Bool.or_eq_true, Bool.not_eq_true', decide_eq_true_eq,
    List.contains_eq_mem]
  refine ⟨⟨⟨⟨⟨?_, ?_⟩, ?_⟩, hc.1⟩, hc.2.1⟩, hc.2.2⟩
  · by_cases h : Call.join ∈ (check p tk).1
    · right; have := hj.1 h; simp [this]
    · left; simpa using h
  · by_cases h : Call.update ∈ (check p tk).1
    · right; have := hu.1 h; simp [this]
    · left; simpa using h
  · by_cases h : Call.restore ∈ (check p tk).1
    · right; have := hr.1 h; simp [this]
    · left; simpa using h

/-- Soundness link: the monitor accepts the model's output on every input, so "implementation
output = model output" (correspondence) transfers the theorems above to the implementation. -/
theorem holds_model (reg : Ans) (p : Policy) (ticks : List Tick) :
    holds reg p ticks (monitorPool reg p ticks).1 (monitorPool reg p ticks).2 = true := by
  unfold holds monitorPool
  cases reg
  · simp only [and_self, if_true]
    induction ticks with
    | nil => simp [holdsAll]
    | cons tk tks ih => simp [holdsAll, holdsTick_model, ih]
  · simp
  · simp

/-- the monitor is not vacuous: it rejects an update while locked, a join while in the pool,
a join against the policy and an unasked restore. -/
example : holdsTick .uncond ⟨.t,.f,.t,.t,.t,.t,.f,.f,.t,.t⟩ [.inPool,.upToDate,.eligible,.locked,.update] = false := by decide
example : holdsTick .uncond ⟨.t,.f,.t,.t,.t,.f,.f,.f,.t,.t⟩ [.inPool,.upToDate,.eligible,.locked,.join] = false := by decide
example : holdsTick (.const false) ⟨.f,.f,.t,.t,.t,.f,.f,.f,.t,.t⟩ [.inPool,.upToDate,.locked,.const,.join] = false := by decide
example : holdsTick .uncond ⟨.t,.t,.f,.f,.t,.f,.f,.f,.t,.t⟩ [.inPool,.upToDate,.eligible,.canRestore,.restore] = false := by decide
example : holdsTick .uncond ⟨.f,.f,.t,.t,.t,.f,.f,.f,.t,.t⟩ [.inPool,.upToDate,.locked,.join] = true := by decide

end KeepVerif.C42
