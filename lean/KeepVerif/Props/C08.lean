import KeepVerif.Model.C08
import KeepVerif.Props.C07
/-!
# C08 — tECDSA signing: any honest quorum of the final group signs validly

Theorems over `Model/C08.lean` (run by `drvC08` against `pkg/tbtc finalSigningGroup`, the signing
identity converter and `tecdsa.NewSignature`).  tss-lib signing is a parameter (A-tss).  The part
the tests never combine — the index shift after a DKG with excluded members against the party
identities tss-lib stored — is proved in full: for every identity seed and every operating list
(any order), `Ks[finalIndex m − 1] = seed + m`.
-/
namespace KeepVerif.C08
open KeepVerif.C07

/-! ## insertion sort facts -/

theorem insertSorted_perm (a : Nat) (l : List Nat) : (insertSorted a l).Perm (a :: l) := by
  induction l with
  | nil => exact List.Perm.refl _
  | cons b bs ih =>
    simp only [insertSorted]
    split
    · exact List.Perm.refl _
    · exact ((List.Perm.cons b ih).trans (List.Perm.swap a b bs))

theorem isort_perm (l : List Nat) : (isort l).Perm l := by
  induction l with
  | nil => exact List.Perm.refl _
  | cons a as ih => exact (insertSorted_perm a _).trans (List.Perm.cons a ih)

theorem mem_isort (l : List Nat) (x : Nat) : x ∈ isort l ↔ x ∈ l := (isort_perm l).mem_iff

theorem length_isort (l : List Nat) : (isort l).length = l.length := (isort_perm l).length_eq

theorem nodup_isort (l : List Nat) (h : l.Nodup) : (isort l).Nodup := (isort_perm l).nodup_iff.2 h

theorem insertSorted_sorted (a : Nat) (l : List Nat) (h : l.Pairwise (· ≤ ·)) :
    (insertSorted a l).Pairwise (· ≤ ·) := by
  induction l with
  | nil => simp [insertSorted]
  | cons b bs ih =>
    rw [List.pairwise_cons] at h
    simp only [insertSorted]
    split
    · rename_i hab
      exact List.pairwise_cons.2 ⟨fun x hx => by
        rcases List.mem_cons.1 hx with rfl | hx
        · exact hab
        · exact Nat.le_trans hab (h.1 x hx), List.pairwise_cons.2 h⟩
    · rename_i hab
      refine List.pairwise_cons.2 ⟨fun x hx => ?_, ih h.2⟩
      rcases List.mem_cons.1 ((insertSorted_perm a bs).mem_iff.1 hx) with rfl | hx
      · omega
      · exact h.1 x hx

theorem isort_sorted (l : List Nat) : (isort l).Pairwise (· ≤ ·) := by
  induction l with
  | nil => exact List.Pairwise.nil
  | cons a as ih => exact insertSorted_sorted a _ ih

/-- for a duplicate-free input the sorted list is strictly ascending -/
theorem isort_strict (l : List Nat) (h : l.Nodup) : (isort l).Pairwise (· < ·) := by
  have hs := isort_sorted l
  have hn := List.nodup_iff_pairwise_ne.1 (nodup_isort l h)
  generalize isort l = s at hs hn
  induction s with
  | nil => exact List.Pairwise.nil
  | cons a as ih =>
    rw [List.pairwise_cons] at hs hn ⊢
    exact ⟨fun x hx => Nat.lt_of_le_of_ne (hs.1 x hx) (hn.1 x hx), ih hs.2 hn.2⟩

theorem storedKeys_eq (seed : Nat) (operating : List Nat) :
    storedKeys seed operating = (isort operating).map (seed + ·) := by
  unfold storedKeys
  rw [show operating.map (toKey seed) = operating.map (seed + ·) from rfl, isort_map_add]

/-! ## the index shift -/

/-- **final_index_matches_dkg_identity**: with `Ks` the ascending party keys `seed + m` of the
    operating members (what tss-lib stored at key generation), the key found by the signing
    converter at a member's FINAL index is the key-generation identity of that member — for every
    seed, every operating list (any exclusion set, any input order). -/
theorem final_index_matches_dkg_identity (seed : Nat) (operating : List Nat) (m : Nat)
    (hm : m ∈ operating) :
    sKey (storedKeys seed operating) (finalIndex operating m) = toKey seed m := by
  have hms : m ∈ isort operating := (mem_isort _ _).2 hm
  have hlt : (isort operating).idxOf m < (isort operating).length := List.idxOf_lt_length_iff.2 hms
  unfold sKey finalIndex
  rw [storedKeys_eq, Nat.add_sub_cancel, List.getD_eq_getElem?_getD, List.getElem?_map,
    List.getElem?_eq_getElem hlt, List.getElem_idxOf hlt]
  rfl

/-- … and converts back to the member with the DKG converter (`r` of the harness observation). -/
theorem final_index_recovers_member (seed : Nat) (operating : List Nat) (m : Nat)
    (hm : m ∈ operating) (h : m < 256) :
    toIndex seed (sKey (storedKeys seed operating) (finalIndex operating m)) = m := by
  rw [final_index_matches_dkg_identity seed operating m hm]
  exact party_id_roundtrip seed m h

theorem idxOf_map_add (seed m : Nat) (l : List Nat) :
    (l.map (seed + ·)).idxOf (seed + m) = l.idxOf m := by
  induction l with
  | nil => rfl
  | cons a as ih =>
    simp only [List.map_cons, List.idxOf_cons]
    have : (seed + a == seed + m) = (a == m) := by
      rw [Bool.eq_iff_iff, beq_iff_eq, beq_iff_eq]; omega
    rw [this, ih]

/-- The other direction (`b` of the observation): a member's key-generation key resolves, through
    the signing converter over the stored keys, to its final index. -/
theorem dkg_key_resolves_to_final_index (seed : Nat) (operating : List Nat) (m : Nat)
    (hm : m ∈ operating) (hlen : operating.length ≤ 255) :
    sIndex (storedKeys seed operating) (toKey seed m) = finalIndex operating m := by
  have hms : m ∈ isort operating := (mem_isort _ _).2 hm
  have hlt : (isort operating).idxOf m < (isort operating).length := List.idxOf_lt_length_iff.2 hms
  unfold sIndex finalIndex toKey
  rw [storedKeys_eq, idxOf_map_add, List.length_map, if_pos hlt]
  have := length_isort operating
  omega

/-- **final_index_bijective** (range): final indexes lie in `1..|operating|`. -/
theorem final_index_range (operating : List Nat) (m : Nat) (hm : m ∈ operating) :
    1 ≤ finalIndex operating m ∧ finalIndex operating m ≤ operating.length := by
  have hlt : (isort operating).idxOf m < (isort operating).length :=
    List.idxOf_lt_length_iff.2 ((mem_isort _ _).2 hm)
  rw [length_isort] at hlt
  unfold finalIndex; omega

/-- **final_index_bijective** (injective): two operating members never share a final index. -/
theorem final_index_injective (operating : List Nat) (a b : Nat) (ha : a ∈ operating)
    (hb : b ∈ operating) (h : finalIndex operating a = finalIndex operating b) : a = b := by
  have hla : (isort operating).idxOf a < (isort operating).length :=
    List.idxOf_lt_length_iff.2 ((mem_isort _ _).2 ha)
  have hlb : (isort operating).idxOf b < (isort operating).length :=
    List.idxOf_lt_length_iff.2 ((mem_isort _ _).2 hb)
  unfold finalIndex at h
  have e : (isort operating).idxOf a = (isort operating).idxOf b := by omega
  have := List.getElem_idxOf hla
  rw [← this]
  simp only [e]
  exact List.getElem_idxOf hlb

/-- **final_index_bijective** (onto): every index `1..|operating|` is the final index of some
    operating member (duplicate-free operating list, as `OperatingMemberIndexes` returns). -/
theorem final_index_surjective (operating : List Nat) (hn : operating.Nodup) (k : Nat)
    (h1 : 1 ≤ k) (h2 : k ≤ operating.length) : ∃ m ∈ operating, finalIndex operating m = k := by
  have hk : k - 1 < (isort operating).length := by rw [length_isort]; omega
  refine ⟨(isort operating)[k - 1], (mem_isort _ _).1 (List.getElem_mem hk), ?_⟩
  unfold finalIndex
  rw [(nodup_isort operating hn).idxOf_getElem]
  omega

/-- The shift preserves the order of the members. -/
theorem final_index_monotone (operating : List Nat) (hn : operating.Nodup) (a b : Nat)
    (ha : a ∈ operating) (hb : b ∈ operating) (hab : a < b) :
    finalIndex operating a < finalIndex operating b := by
  have hs := isort_strict operating hn
  have hla : (isort operating).idxOf a < (isort operating).length :=
    List.idxOf_lt_length_iff.2 ((mem_isort _ _).2 ha)
  have hlb : (isort operating).idxOf b < (isort operating).length :=
    List.idxOf_lt_length_iff.2 ((mem_isort _ _).2 hb)
  unfold finalIndex
  apply Nat.add_lt_add_right
  apply Nat.lt_of_not_le
  intro hle
  rcases Nat.lt_or_eq_of_le hle with hlt | heq
  · have := List.pairwise_iff_getElem.1 hs _ _ hlb hla hlt
    rw [List.getElem_idxOf hlb, List.getElem_idxOf hla] at this
    omega
  · have e1 := List.getElem_idxOf hla
    have e2 := List.getElem_idxOf hlb
    simp only [← heq] at e1
    rw [e1] at e2
    omega

/-- **final_operators_exact**: the call succeeds exactly when the selection has the group size and
    the quorum is met; the final operators are one per operating member, and the operator stored at
    a member's final index is the operator selected for that member's seat. -/
theorem final_operators_exact (n quorum : Nat) (sel operating : List Nat)
    (hsel : sel.length = n) (hq : quorum ≤ operating.length) :
    ∃ ops idx, finalSigningGroup n quorum sel operating = some (ops, idx) ∧
      ops.length = operating.length ∧
      (∀ m ∈ operating, ops.getD (finalIndex operating m - 1) 0 = sel.getD (m - 1) 0) ∧
      (∀ m ∈ operating, (m, finalIndex operating m) ∈ idx) ∧
      (∀ p ∈ idx, p.1 ∈ operating ∧ p.2 = finalIndex operating p.1) := by
  refine ⟨(isort operating).map (fun m => sel.getD (m - 1) 0),
    (isort operating).map (fun m => (m, finalIndex operating m)), ?_, ?_, ?_, ?_, ?_⟩
  · unfold finalSigningGroup
    rw [if_neg (by omega)]
  · simp [length_isort]
  · intro m hm
    have hlt : (isort operating).idxOf m < (isort operating).length :=
      List.idxOf_lt_length_iff.2 ((mem_isort _ _).2 hm)
    unfold finalIndex
    rw [Nat.add_sub_cancel, List.getD_eq_getElem?_getD, List.getElem?_map,
      List.getElem?_eq_getElem hlt, List.getElem_idxOf hlt]
    rfl
  · intro m hm
    exact List.mem_map.2 ⟨m, (mem_isort _ _).2 hm, rfl⟩
  · intro p hp
    obtain ⟨m, hm, rfl⟩ := List.mem_map.1 hp
    exact ⟨(mem_isort _ _).1 hm, rfl⟩

theorem final_group_invalid (n quorum : Nat) (sel operating : List Nat)
    (h : sel.length ≠ n ∨ operating.length < quorum) :
    finalSigningGroup n quorum sel operating = none := by
  unfold finalSigningGroup; rw [if_pos h]

/-! ## signing identity converter -/

/-- **signing_party_roundtrip**: over duplicate-free stored keys, final index → party key → final
    index is the identity. -/
theorem signing_party_roundtrip (keys : List Nat) (hn : keys.Nodup) (idx : Nat) (h1 : 1 ≤ idx)
    (h2 : idx ≤ keys.length) (hlen : keys.length ≤ 255) : sIndex keys (sKey keys idx) = idx := by
  have hk : idx - 1 < keys.length := by omega
  unfold sIndex sKey
  rw [List.getD_eq_getElem?_getD, List.getElem?_eq_getElem hk, Option.getD_some, hn.idxOf_getElem,
    if_pos hk]
  omega

/-- A key that is not one of the stored party keys maps to the null member index. -/
theorem sIndex_unknown (keys : List Nat) (key : Nat) (h : key ∉ keys) : sIndex keys key = 0 := by
  unfold sIndex
  rw [if_neg]
  rw [List.idxOf_lt_length_iff]; exact h

/-- The stored keys of a DKG over a duplicate-free operating list are duplicate free. -/
theorem nodup_map_toKey (seed : Nat) (l : List Nat) (h : l.Nodup) : (l.map (toKey seed)).Nodup := by
  rw [List.nodup_iff_pairwise_ne] at h ⊢
  rw [List.pairwise_map]
  exact h.imp (fun hab e => hab (party_id_injective seed _ _ e))

theorem storedKeys_nodup (seed : Nat) (operating : List Nat) (hn : operating.Nodup) :
    (storedKeys seed operating).Nodup := by
  rw [storedKeys_eq]
  exact nodup_map_toKey seed _ (nodup_isort operating hn)

/-- The party keys that the members of any subset `S` of the operating DKG members derive at
    signing time — from their stored FINAL indexes — are exactly their key-generation identities:
    a duplicate-free sub-collection of the keys tss-lib stored. This is the precondition of A-tss. -/
theorem signing_parties_are_dkg_identities (seed : Nat) (operating S : List Nat)
    (hS : ∀ m ∈ S, m ∈ operating) :
    (S.map (finalIndex operating)).map (sKey (storedKeys seed operating)) = S.map (toKey seed) := by
  rw [List.map_map]
  apply List.map_congr_left
  intro m hm
  exact final_index_matches_dkg_identity seed operating m (hS m hm)

theorem signing_parties_subset_stored (seed : Nat) (operating S : List Nat)
    (hS : ∀ m ∈ S, m ∈ operating) :
    ∀ k ∈ (S.map (finalIndex operating)).map (sKey (storedKeys seed operating)),
      k ∈ storedKeys seed operating := by
  rw [signing_parties_are_dkg_identities seed operating S hS, storedKeys_eq]
  intro k hk
  obtain ⟨m, hm, rfl⟩ := List.mem_map.1 hk
  exact List.mem_map.2 ⟨m, (mem_isort _ _).2 (hS m hm), rfl⟩

/-! ## tss-lib signing as a parameter (assumption A-tss) -/

/-- What the property needs from tss-lib signing: parties that are a duplicate-free sub-collection
    of the key-generation party keys, more than `threshold` of them, produce a signature that
    verifies under the wallet key with a low `s`. -/
structure TssSigning where
  halfN : Nat
  sign : (storedKeys parties : List Nat) → (msg : Nat) → Signature
  verifies : (storedKeys : List Nat) → (msg : Nat) → Signature → Prop
  spec : ∀ ks parties threshold msg, parties.Nodup → (∀ k ∈ parties, k ∈ ks) →
    threshold < parties.length → verifies ks msg (sign ks parties msg) ∧ (sign ks parties msg).s ≤ halfN

/-- **low_s / verifies** (under A-tss): every subset `S` of more than `threshold` operating DKG
    members, using the member indexes stored for the wallet, signs validly with a low `s`. -/
theorem quorum_signs_validly_under_A_tss (tss : TssSigning) (seed threshold msg : Nat)
    (operating S : List Nat) (hS : ∀ m ∈ S, m ∈ operating) (hSn : S.Nodup)
    (hq : threshold < S.length) :
    let ks := storedKeys seed operating
    let parties := (S.map (finalIndex operating)).map (sKey ks)
    tss.verifies ks msg (tss.sign ks parties msg) ∧ (tss.sign ks parties msg).s ≤ tss.halfN := by
  intro ks parties
  apply tss.spec ks parties threshold msg
  · show ((S.map (finalIndex operating)).map (sKey (storedKeys seed operating))).Nodup
    rw [signing_parties_are_dkg_identities seed operating S hS]
    exact nodup_map_toKey seed S hSn
  · exact signing_parties_subset_stored seed operating S hS
  · show threshold < ((S.map (finalIndex operating)).map (sKey (storedKeys seed operating))).length
    simpa using hq

/-! ## signature extraction -/

/-- **signature_fields_exact**: `r`, `s` are the big-endian values of the byte strings tss-lib
    returned, the recovery id is the first recovery byte (as `int8`). -/
theorem signature_fields_exact (r s rec : List Nat) :
    (newSignature r s rec).r = natOfBytes r ∧ (newSignature r s rec).s = natOfBytes s ∧
      (newSignature r s rec).recoveryID = int8OfByte (rec.headD 0) := ⟨rfl, rfl, rfl⟩

theorem natOfBytes_append (a b : List Nat) :
    natOfBytes (a ++ b) = natOfBytes a * 256 ^ b.length + natOfBytes b := by
  unfold natOfBytes
  rw [List.foldl_append]
  generalize List.foldl (fun acc b => acc * 256 + b) 0 a = x
  induction b generalizing x with
  | nil => simp
  | cons c cs ih =>
    simp only [List.foldl_cons, List.length_cons]
    rw [ih, ih 0, ih (0 * 256 + c)]
    simp [Nat.pow_succ, Nat.add_mul, Nat.mul_assoc, Nat.mul_comm 256, Nat.add_assoc]

/-- a recovery id in `0..3` is copied unchanged -/
theorem recovery_id_exact (b : Nat) (h : b < 128) : int8OfByte b = b := by
  unfold int8OfByte; rw [if_pos h]

/-! ## the monitor accepts every model output; non-vacuity -/


theorem isStrictAsc_of_pairwise : ∀ (l : List Nat), l.Pairwise (· < ·) → isStrictAsc l = true
  | [], _ => rfl
  | [_], _ => rfl
  | a :: b :: rest, h => by
    rw [List.pairwise_cons] at h
    simp only [isStrictAsc, Bool.and_eq_true, decide_eq_true_eq]
    exact ⟨h.1 b (by simp), isStrictAsc_of_pairwise (b :: rest) h.2⟩

theorem map_finalIndex_isort (operating : List Nat) (hn : operating.Nodup) :
    (isort operating).map (finalIndex operating) = List.range' 1 (isort operating).length := by
  apply List.ext_getElem
  · simp
  · intro i h1 h2
    simp only [List.getElem_map, List.getElem_range', finalIndex]
    rw [(nodup_isort operating hn).idxOf_getElem]
    omega

/-- The `final` monitor accepts the model's own output, for every seed, selection and
    duplicate-free operating list of `uint8` member indexes (what the driver prints for a
    `final` op is exactly this entry list). -/
theorem holdsFinal_model (n quorum seed : Nat) (sel operating ops : List Nat) (idx : List (Nat × Nat))
    (hn : operating.Nodup) (hlen : operating.length ≤ 255) (hm : ∀ m ∈ operating, m < 256)
    (h : finalSigningGroup n quorum sel operating = some (ops, idx)) :
    holdsFinal sel operating ops
      (idx.map fun p => (p.1, p.2, toIndex seed (sKey (storedKeys seed operating) p.2),
        sIndex (storedKeys seed operating) (toKey seed p.1))) = true := by
  unfold finalSigningGroup at h
  split at h
  · cases h
  · simp only [Option.some.injEq, Prod.mk.injEq] at h
    obtain ⟨rfl, rfl⟩ := h
    have hmem : ∀ x, x ∈ isort operating ↔ x ∈ operating := mem_isort operating
    unfold holdsFinal
    simp only [List.map_map, Function.comp_def, List.map_id', List.length_map]
    rw [isStrictAsc_of_pairwise _ (isort_strict operating hn), map_finalIndex_isort operating hn]
    simp only [Bool.true_and, beq_self_eq_true, Bool.and_true, Bool.and_eq_true, List.all_eq_true,
      List.contains_eq_mem, decide_eq_true_eq, List.mem_map, beq_iff_eq]
    refine ⟨⟨fun x hx => (hmem x).1 hx, fun x hx => (hmem x).2 hx⟩, ?_⟩
    rintro _ ⟨m, hm', rfl⟩
    have hmo := (hmem m).1 hm'
    exact ⟨final_index_recovers_member seed operating m hmo (hm m hmo),
      dkg_key_resolves_to_final_index seed operating m hmo hlen⟩


/-! ## signing states: admission -/

theorem sAdmitted_spec (self sess : Nat) (g : Group) (seats : List Nat) (m : Msg)
    (h : sAdmitted self sess g seats m = true) :
    m.kind < 10 ∧ m.sender ≠ self ∧ validMembership seats m.sender m.op = true ∧
      g.isOperating m.sender = true ∧ m.sess = sess := by
  simp only [sAdmitted, shouldAccept, Bool.and_eq_true, decide_eq_true_eq, Bool.not_eq_true',
    beq_eq_false_iff_ne, beq_iff_eq] at h
  obtain ⟨⟨a, ⟨b, c⟩, d⟩, e⟩ := h
  exact ⟨a, b, c, d, e.symm⟩

theorem sfoldl_hist (self sess : Nat) (g : Group) (seats : List Nat) (evs rest : List Ev) (s : St)
    (hs : ∀ m ∈ s.hist, sAdmitted self sess g seats m = true ∧ Ev.recv m ∈ evs)
    (hsub : ∀ e ∈ rest, e ∈ evs) :
    ∀ m ∈ (rest.foldl (sStep self sess g seats) s).hist,
      sAdmitted self sess g seats m = true ∧ Ev.recv m ∈ evs := by
  induction rest generalizing s with
  | nil => exact hs
  | cons e rest ih =>
    simp only [List.foldl_cons]
    apply ih _ _ (fun x hx => hsub x (List.mem_cons_of_mem _ hx))
    cases e with
    | recv x =>
      intro m hm
      simp only [sStep] at hm
      split at hm
      · rename_i hc
        rcases List.mem_append.1 hm with h | h
        · exact hs m h
        · simp at h; subst h; exact ⟨hc.2, hsub _ (by simp)⟩
      · exact hs m hm
    | next =>
      intro m hm
      simp only [sStep] at hm
      split at hm <;> exact hs m hm

/-- **signing_history_only_admitted**: in every signing state, whatever is delivered, only messages
    of the attempt's session (message + attempt number), from a member of the final group that is
    included in the attempt and is not the receiver, with the network key of the operator seated at
    the claimed index, enter the history. -/
theorem signing_history_only_admitted (self sess : Nat) (g : Group) (seats : List Nat) (evs : List Ev) :
    ∀ m ∈ (sRun self sess g seats evs).hist,
      m.kind < 10 ∧ m.sender ≠ self ∧ validMembership seats m.sender m.op = true ∧
        g.isOperating m.sender = true ∧ m.sess = sess := by
  intro m hm
  exact sAdmitted_spec _ _ _ _ _
    (sfoldl_hist self sess g seats evs evs ⟨0, []⟩ (by simp) (fun _ h => h) m hm).1

/-- **outsiders_and_other_attempts_never_reach_tss**: the messages handed to the tss-lib signing
    updates (`receivedMessages[T]`) carry the attempt's session id and come from members of the
    final group (`1..n`) that are not excluded from the attempt, never from the member itself. -/
theorem outsiders_and_other_attempts_never_reach_tss (n self sess : Nat) (excl seats : List Nat)
    (evs : List Ev) (k : Nat) :
    ∀ m ∈ received (sRun self sess (memberGroup n self excl) seats evs).hist k,
      m.sess = sess ∧ m.sender ∉ excl ∧ m.sender ≠ self ∧ 1 ≤ m.sender ∧ m.sender ≤ n ∧
        validMembership seats m.sender m.op = true := by
  intro m hm
  obtain ⟨_, hself, hval, hop, hsess⟩ :=
    signing_history_only_admitted self sess _ seats evs m (received_subset _ k m hm).1
  rw [memberGroup, isOperating_exclude, isOperating_new] at hop
  simp only [Bool.and_eq_true, decide_eq_true_eq, Bool.or_eq_true, beq_iff_eq,
    Bool.not_eq_true', List.contains_eq_mem, decide_eq_false_iff_not] at hop
  refine ⟨hsess, ?_, hself, hop.1.1, hop.1.2, hval⟩
  rcases hop.2 with h | h
  · exact absurd h hself
  · exact h

/-- The `srecv` monitor accepts the model's own output for every input. -/
theorem holdsSrecv_model (self sess : Nat) (g : Group) (seats : List Nat) (evs : List Ev)
    (hseq : ∀ (i : Nat) (m : Msg), evs[i]? = some (Ev.recv m) → m.seq = i) :
    holdsSrecv self sess g seats evs (sRun self sess g seats evs).idx
      (sCanTransition (sRun self sess g seats evs).idx g (sRun self sess g seats evs).hist)
      ((List.range 10).map fun k =>
        (received (sRun self sess g seats evs).hist k).map fun m => (m.sender, m.seq)) = true := by
  generalize hrun : sRun self sess g seats evs = s
  have hh : ∀ m ∈ s.hist, sAdmitted self sess g seats m = true ∧ Ev.recv m ∈ evs := by
    rw [← hrun]; exact sfoldl_hist self sess g seats evs evs ⟨0, []⟩ (by simp) (fun _ h => h)
  unfold holdsSrecv
  rw [Bool.and_eq_true]
  constructor
  · rw [List.all_eq_true]
    intro k hk
    simp only [List.length_map, List.length_range, List.mem_range] at hk
    simp only [getD_map_range _ _ 10 k hk, Bool.and_eq_true]
    constructor
    · rw [List.all_eq_true]
      intro p hp
      obtain ⟨m, hm, rfl⟩ := List.mem_map.1 hp
      obtain ⟨hmh, hmk⟩ := received_subset s.hist k m hm
      obtain ⟨i, hi⟩ := List.mem_iff_getElem?.1 (hh m hmh).2
      have := hseq i m hi
      subst this
      simp [hi, hmk, (hh m hmh).1]
    · apply nodupB_of_nodup
      rw [List.map_map]
      exact received_senders_nodup s.hist k
  · unfold sCanTransition
    cases hk : sKindOf s.idx with
    | none => rfl
    | some k =>
      have hk10 : k < 10 := by
        unfold sKindOf at hk
        split at hk
        · simp at hk; omega
        · split at hk
          · simp at hk; omega
          · simp at hk
      dsimp only
      rw [getD_map_range _ _ 10 k hk10]
      simp

/-! ## the real-run monitors accept the model's predicted outcome (under A-tss) -/

theorem opOf_nodup (n : Nat) (excl : List Nat) : (opOf n excl).Nodup :=
  List.nodup_iff_pairwise_ne.2
    (((List.pairwise_lt_range' (s := 1) (n := n)).sublist List.filter_sublist).imp
      (fun h => Nat.ne_of_lt h))

theorem sKey_mem (ks : List Nat) (f : Nat) (h1 : 1 ≤ f) (h2 : f ≤ ks.length) : sKey ks f ∈ ks := by
  have hk : f - 1 < ks.length := by omega
  unfold sKey
  rw [List.getD_eq_getElem?_getD, List.getElem?_eq_getElem hk, Option.getD_some]
  exact List.getElem_mem hk

theorem sKey_inj (ks : List Nat) (hn : ks.Nodup) (f g : Nat) (hf1 : 1 ≤ f) (hf2 : f ≤ ks.length)
    (hg1 : 1 ≤ g) (hg2 : g ≤ ks.length) (h : sKey ks f = sKey ks g) : f = g := by
  have hf : f - 1 < ks.length := by omega
  have hg : g - 1 < ks.length := by omega
  unfold sKey at h
  rw [List.getD_eq_getElem?_getD, List.getElem?_eq_getElem hf, Option.getD_some,
    List.getD_eq_getElem?_getD, List.getElem?_eq_getElem hg, Option.getD_some] at h
  have a := hn.idxOf_getElem (f - 1) hf
  have b := hn.idxOf_getElem (g - 1) hg
  rw [h] at a
  omega

theorem length_storedKeys (seed : Nat) (operating : List Nat) :
    (storedKeys seed operating).length = operating.length := by
  rw [storedKeys_eq, List.length_map, length_isort]

/-- verdict of one signing attempt by the final member indexes `S` (A-tss: `TssSigning`) -/
def sigVerdict (tss : TssSigning) [∀ ks msg sg, Decidable (tss.verifies ks msg sg)]
    (ks : List Nat) (msg : Nat) (S : List Nat) : Bool :=
  decide (tss.verifies ks msg (tss.sign ks (S.map (sKey ks)) msg))
    && decide ((tss.sign ks (S.map (sKey ks)) msg).s ≤ tss.halfN)

/-- the model's prediction of a `sign` run -/
def modelSign (tss : TssSigning) [∀ ks msg sg, Decidable (tss.verifies ks msg sg)]
    (seed n t : Nat) (excl : List Nat) (subsets : List (List Nat)) (msg : Nat) : SignObs :=
  let op := opOf n excl
  let ks := storedKeys seed op
  { dkgOk := decide (t ≤ op.length)
    ksOk := op.all fun m => sKey ks (finalIndex op m) == toKey seed m
    sigs := subsets.map (sigVerdict tss ks msg) }

/-- a quorum of final member indexes: distinct, inside the final group, at least the honest threshold -/
def Quorum (k t : Nat) (S : List Nat) : Prop := S.Nodup ∧ (∀ f ∈ S, 1 ≤ f ∧ f ≤ k) ∧ t ≤ S.length

theorem sigVerdict_true (tss : TssSigning) [∀ ks msg sg, Decidable (tss.verifies ks msg sg)]
    (seed t msg : Nat) (operating S : List Nat) (hop : operating.Nodup) (ht1 : 1 ≤ t)
    (hS : Quorum operating.length t S) :
    sigVerdict tss (storedKeys seed operating) msg S = true := by
  obtain ⟨hnd, hr, hlen⟩ := hS
  have hks := storedKeys_nodup seed operating hop
  have hl := length_storedKeys seed operating
  have := tss.spec (storedKeys seed operating) (S.map (sKey (storedKeys seed operating))) (t - 1) msg
    (by
      rw [List.nodup_iff_pairwise_ne, List.pairwise_map]
      exact (List.nodup_iff_pairwise_ne.1 hnd).imp_of_mem (fun {a b} ha hb hab e =>
        hab (sKey_inj _ hks a b (hr a ha).1 (by rw [hl]; exact (hr a ha).2) (hr b hb).1
          (by rw [hl]; exact (hr b hb).2) e)))
    (by
      intro k hk
      obtain ⟨f, hf, rfl⟩ := List.mem_map.1 hk
      exact sKey_mem _ f (hr f hf).1 (by rw [hl]; exact (hr f hf).2))
    (by rw [List.length_map]; omega)
  simp [sigVerdict, this.1, this.2]

/-- **holdsSign_model_under_A_tss**: for every group size, exclusion set that leaves the honest
    threshold, seed, message and every list of quorums of the final group, the `sign` monitor accepts
    the outcome the model predicts under A-tss. -/
theorem holdsSign_model_under_A_tss (tss : TssSigning) [∀ ks msg sg, Decidable (tss.verifies ks msg sg)]
    (seed n t : Nat) (excl : List Nat) (subsets : List (List Nat)) (msg : Nat)
    (ht : t ≤ (opOf n excl).length) (ht1 : 1 ≤ t)
    (hq : ∀ S ∈ subsets, Quorum (opOf n excl).length t S) :
    holdsSign (modelSign tss seed n t excl subsets msg) = true := by
  unfold holdsSign modelSign
  simp only [Bool.and_eq_true, decide_eq_true_eq, List.all_eq_true, List.mem_map, beq_iff_eq, id]
  refine ⟨⟨ht, fun m hm => final_index_matches_dkg_identity seed _ m hm⟩, ?_⟩
  rintro _ ⟨S, hS, rfl⟩
  exact sigVerdict_true tss seed t msg _ S (opOf_nodup n excl) ht1 (hq S hS)

/-- the model's prediction of a `wsign` run: the retry loop picks SOME quorum `included` of the
    final group (the selection is seeded randomness — a parameter) -/
def modelWsign (tss : TssSigning) [∀ ks msg sg, Decidable (tss.verifies ks msg sg)]
    (seed n t : Nat) (excl : List Nat) (included : List Nat) (msg : Nat) : WsignObs :=
  { dkgOk := decide (t ≤ (opOf n excl).length)
    sigOk := sigVerdict tss (storedKeys seed (opOf n excl)) msg included }

/-- **holdsWsign_model_under_A_tss**: whichever quorum of the final group the signing executor
    selects, the `wsign` monitor accepts the predicted outcome. -/
theorem holdsWsign_model_under_A_tss (tss : TssSigning) [∀ ks msg sg, Decidable (tss.verifies ks msg sg)]
    (seed n t : Nat) (excl : List Nat) (included : List Nat) (msg : Nat)
    (ht : t ≤ (opOf n excl).length) (ht1 : 1 ≤ t) (hq : Quorum (opOf n excl).length t included) :
    holdsWsign (modelWsign tss seed n t excl included msg) = true := by
  unfold holdsWsign modelWsign
  simp only [Bool.and_eq_true, decide_eq_true_eq]
  exact ⟨ht, sigVerdict_true tss seed t msg _ included (opOf_nodup n excl) ht1 hq⟩

/-- **any_honest_quorum_signs** (C08 as stated, over the model, under A-tss): for every group size,
    exclusion set at key generation, seed and message, and every subset `S` of the final signing
    group with at least the honest threshold of distinct members: the signature produced by the
    parties they derive from their STORED member indexes verifies under the wallet key and has a
    low `s`; and every stored index used is the final index of exactly one operating key-generation
    member, whose key-generation party key it selects from the stored keys. -/
theorem any_honest_quorum_signs (tss : TssSigning) (seed n t : Nat) (excl : List Nat) (msg : Nat)
    (S : List Nat) (ht1 : 1 ≤ t) (hq : Quorum (opOf n excl).length t S) :
    let op := opOf n excl
    let ks := storedKeys seed op
    let sg := tss.sign ks (S.map (sKey ks)) msg
    tss.verifies ks msg sg ∧ sg.s ≤ tss.halfN ∧
      ∀ f ∈ S, ∃ m ∈ op, finalIndex op m = f ∧ sKey ks f = toKey seed m ∧
        ∀ m' ∈ op, finalIndex op m' = f → m' = m := by
  intro op ks sg
  obtain ⟨hnd, hr, hlen⟩ := hq
  have hop := opOf_nodup n excl
  have hks := storedKeys_nodup seed op hop
  have hl := length_storedKeys seed op
  have hspec := tss.spec ks (S.map (sKey ks)) (t - 1) msg
    (by
      rw [List.nodup_iff_pairwise_ne, List.pairwise_map]
      exact (List.nodup_iff_pairwise_ne.1 hnd).imp_of_mem (fun {a b} ha hb hab e =>
        hab (sKey_inj _ hks a b (hr a ha).1 (by rw [hl]; exact (hr a ha).2) (hr b hb).1
          (by rw [hl]; exact (hr b hb).2) e)))
    (by
      intro k hk
      obtain ⟨f, hf, rfl⟩ := List.mem_map.1 hk
      exact sKey_mem _ f (hr f hf).1 (by rw [hl]; exact (hr f hf).2))
    (by rw [List.length_map]; omega)
  refine ⟨hspec.1, hspec.2, ?_⟩
  intro f hf
  obtain ⟨m, hm, hfm⟩ := final_index_surjective op hop f (hr f hf).1 (hr f hf).2
  refine ⟨m, hm, hfm, ?_, ?_⟩
  · rw [← hfm]; exact final_index_matches_dkg_identity seed op m hm
  · intro m' hm' h'
    exact final_index_injective op m' m hm' hm (by rw [h', hfm])

example : finalSigningGroup 5 3 [10, 20, 30, 40, 50] [5, 1, 3] =
    some ([10, 30, 50], [(1, 1), (3, 2), (5, 3)]) := by decide
example : storedKeys 1000 [5, 1, 3] = [1001, 1003, 1005] := by decide
example : sKey (storedKeys 1000 [5, 1, 3]) (finalIndex [5, 1, 3] 5) = 1005 := by decide
example : holdsFinal [10, 20, 30, 40, 50] [5, 1, 3] [10, 30, 50]
    [(1, 1, 1, 1), (3, 2, 3, 2), (5, 3, 5, 3)] = true := by decide
/-- a mapping by ORIGINAL index (the bug the tests cannot see) is rejected: -/
example : holdsFinal [10, 20, 30, 40, 50] [5, 1, 3] [10, 30, 50]
    [(1, 1, 1, 1), (3, 3, 0, 2), (5, 5, 0, 3)] = false := by decide
example : newSignature [1, 0] [255] [3] = ⟨256, 255, 3⟩ := by decide
example : (newSignature [] [] [200]).recoveryID = -56 := by decide

end KeepVerif.C08
