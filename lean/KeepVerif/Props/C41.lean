import KeepVerif.Model.C41
/-!
# C41 — Ephemeral ECDH channels agree on keys and reject tampering

Proved for every curve model `D : DHGroup`, every key-derivation function `kdf` and every
`A : AEAD` (the laws of the curve library and of NaCl secretbox are the structure fields, i.e.
hypotheses — instances `zmodGroup`, `symAEAD` in the model file show they are satisfiable).
What is *proved* is the key-agreement algebra and the keep-core glue (`Ecdh`, `IsKeyMatching`,
nonce framing, short-input branch).  Unforgeability of secretbox is an assumption: it appears as
the explicit hypothesis of `tamper_rejected` / `wrong_key_rejected`.
-/
namespace KeepVerif.C41

variable (D : DHGroup) {K : Type} (kdf : D.X → K) (A : AEAD K)

/-- Both sides derive the same symmetric key, for all private scalars (any byte strings). -/
theorem ecdh_symmetric (a b : Nat) :
    ecdh D kdf a (pubOf D b) = ecdh D kdf b (pubOf D a) := by
  unfold ecdh pubOf
  rw [D.smul_smul, D.smul_smul, Nat.mul_comm]

/-- …namely the key derived from `(a*b)•G` (what the harness recomputes independently). -/
theorem ecdh_eq_product (a b : Nat) :
    ecdh D kdf a (pubOf D b) = kdf (D.xcoord (D.smul (a * b) D.G)) := by
  unfold ecdh pubOf
  rw [D.smul_smul]

/-- Private keys whose shared points have the same x-coordinate yield the same symmetric key
    (e.g. `b` and `N - b`): "a different key is rejected" is about *symmetric* keys. -/
theorem same_x_same_key (b c : Nat) (pub : D.Pt)
    (h : D.xcoord (D.smul c pub) = D.xcoord (D.smul b pub)) :
    ecdh D kdf c pub = ecdh D kdf b pub := by
  unfold ecdh; rw [h]

/-- `Decrypt(Encrypt(m)) = m` for every key, plaintext (also empty) and 24-byte nonce. -/
theorem decrypt_encrypt (k : K) (nonce m : Bytes) (hn : nonce.length = nonceSize) :
    decrypt A k (encrypt A k nonce m) = some m := by
  unfold decrypt encrypt
  have h1 : ¬ (nonce ++ A.sealBox k nonce m).length < nonceSize := by
    rw [List.length_append, hn]; omega
  rw [if_neg h1, ← hn, List.take_left, List.drop_left]
  exact A.openBox_sealBox k nonce m

/-- The channel: what `a` encrypts for `b` is decrypted by `b` (and vice versa by symmetry). -/
theorem channel_roundtrip (a b : Nat) (nonce m : Bytes) (hn : nonce.length = nonceSize) :
    decrypt A (ecdh D kdf b (pubOf D a)) (encrypt A (ecdh D kdf a (pubOf D b)) nonce m) = some m := by
  rw [ecdh_symmetric D kdf a b]
  exact decrypt_encrypt A _ nonce m hn

/-- Glue: input shorter than the nonce is an error (the `recover` branch), never a panic. -/
theorem decrypt_short (k : K) (ct : Bytes) (h : ct.length < nonceSize) : decrypt A k ct = none := by
  unfold decrypt; rw [if_pos h]

/-- Whatever `Decrypt` accepts is exactly the honest encryption of its output under the key and
    the nonce it carries.  (No assumption beyond the functional laws.) -/
theorem accepted_is_honest_encryption (k : K) (ct m : Bytes) (h : decrypt A k ct = some m) :
    nonceSize ≤ ct.length ∧ ct = encrypt A k (ct.take nonceSize) m := by
  unfold decrypt at h
  split at h
  · cases h
  · rename_i hl
    refine ⟨Nat.le_of_not_lt hl, ?_⟩
    have := A.openBox_sound _ _ _ _ h
    unfold encrypt
    rw [← this, List.take_append_drop]

/-- Input shorter than nonce + authenticator is rejected. -/
theorem decrypt_shorter_than_overhead (k : K) (ct : Bytes) (h : ct.length < nonceSize + A.overhead) :
    decrypt A k ct = none := by
  cases hd : decrypt A k ct with
  | none => rfl
  | some m =>
    exfalso
    obtain ⟨h1, h2⟩ := accepted_is_honest_encryption A k ct m hd
    have hl := congrArg List.length h2
    unfold encrypt at hl
    rw [List.length_append, A.sealBox_length, List.length_take] at hl
    omega

/-- A modification that keeps the nonce is never accepted as the original plaintext: if the
    result is the original `m`, the ciphertext is the original one.  Unconditional. -/
theorem modified_never_yields_original (k : K) (nonce m ct' : Bytes)
    (hn : ct'.take nonceSize = nonce) (h : decrypt A k ct' = some m) :
    ct' = encrypt A k nonce m := by
  rw [← hn]; exact (accepted_is_honest_encryption A k ct' m h).2

/-- A-aead (assumption, not a result): a byte string that is not an honest encryption under `k`
    — what an adversary without `k` can produce, by unforgeability — is rejected. -/
theorem tamper_rejected (k : K) (ct : Bytes)
    (hforge : ∀ m, ct ≠ encrypt A k (ct.take nonceSize) m) : decrypt A k ct = none := by
  cases hd : decrypt A k ct with
  | none => rfl
  | some m => exact absurd (accepted_is_honest_encryption A k ct m hd).2 (hforge m)

/-- A-aead (assumption): under key separation of the sealed boxes a different key is rejected. -/
theorem wrong_key_rejected (k k' : K) (nonce m : Bytes) (hn : nonce.length = nonceSize)
    (hsep : ∀ m', A.sealBox k' nonce m' ≠ A.sealBox k nonce m) :
    decrypt A k' (encrypt A k nonce m) = none := by
  apply tamper_rejected
  intro m' h
  unfold encrypt at h
  rw [← hn, List.take_left] at h
  exact hsep m' (List.append_cancel_left h).symm

/-- `IsKeyMatching(pub(a), c)` holds exactly when `c` generates the public key. -/
theorem key_matching_iff (a c : Nat) :
    isKeyMatching D (pubOf D a) c = true ↔ D.smul c D.G = D.smul a D.G := by
  unfold isKeyMatching pubOf
  simp

theorem key_matching_self (a : Nat) : isKeyMatching D (pubOf D a) a = true :=
  (key_matching_iff D a a).2 rfl

/-- In the exponent model of a cyclic group of order `N`: matching ⇔ the same scalar modulo `N`
    (so unreduced encodings `a + N` match, `N - a` — same x, other y — does not). -/
theorem key_matching_mod (N a c : Nat) :
    isKeyMatching (zmodGroup N) (pubOf (zmodGroup N) a) c = true ↔ c % N = a % N := by
  rw [key_matching_iff]
  show c * (1 % N) % N = a * (1 % N) % N ↔ c % N = a % N
  by_cases h1 : N = 1
  · subst h1; simp [Nat.mod_one]
  · have : 1 % N = 1 := by
      rcases Nat.eq_zero_or_pos N with h0 | h0
      · subst h0; rfl
      · exact Nat.mod_eq_of_lt (by omega)
    rw [this, Nat.mul_one, Nat.mul_one]

/-- T1 tie: the nonce framing constants of keep-common / secretbox used by the model. -/
theorem framing_facts : nonceSize = 24 ∧ symAEAD.overhead = Gen.C41.overhead := by decide

/-! ## Monitor accepts the model (partial) -/

def Result.toImpl (r : Result) (pt : Bytes) : ImplObs :=
  ⟨r.agree, r.ref, r.ctLen, r.dec == some pt, r.wrong, r.mods, r.matchC, r.matchA,
   r.back == some pt, r.matchBC, r.matchCA⟩

/-- framing: decrypting an honest encryption with any key opens the sealed box with that key -/
theorem decrypt_encrypt_other (k k' : K) (nonce m : Bytes) (hn : nonce.length = nonceSize) :
    decrypt A k' (encrypt A k nonce m) = A.openBox k' nonce (A.sealBox k nonce m) := by
  unfold decrypt encrypt
  have h1 : ¬ (nonce ++ A.sealBox k nonce m).length < nonceSize := by
    rw [List.length_append, hn]; omega
  rw [if_neg h1, ← hn, List.take_left, List.drop_left]

/-- the symbolic box is key-separated: the tag's first cell is the key -/
theorem sym_wrong_key (k k' : Nat) (n m : Bytes) (h : k' ≠ k) :
    symAEAD.openBox k' n (symAEAD.sealBox k n m) = none := by
  show symUnseal k' n (symSeal k n m) = none
  unfold symUnseal
  split
  · rename_i hc
    exfalso
    have := congrArg List.head? hc
    simp [symSeal, symTag] at this
    exact h this.symm
  · rfl

/-! ## The symbolic instance rejects every modified honest ciphertext

In the symbolic instance a modified cell is `bad`.  The authenticator's `tag` cell carries the values
of the nonce and of the message, so a `bad` cell anywhere, a shorter or a longer box cannot open. -/

private theorem none_not_mem_vals (l : Bytes) (hb : ∀ c ∈ l, c.isByte = true) : none ∉ vals l := by
  intro h
  unfold vals at h
  rw [List.mem_map] at h
  obtain ⟨c, hc, hv⟩ := h
  have := hb c hc
  cases c <;> simp [Cell.isByte, Cell.val] at this hv

private theorem none_mem_vals_of_bad (l : Bytes) (h : Cell.bad ∈ l) : none ∈ vals l := by
  unfold vals
  exact List.mem_map.2 ⟨.bad, h, rfl⟩

private theorem bad_mem_set (l : Bytes) (p : Nat) (hp : p < l.length) : Cell.bad ∈ l.set p .bad := by
  rw [List.mem_iff_getElem?]
  exact ⟨p, by simp [hp]⟩

private theorem symSeal_eq (k : Nat) (n m : Bytes) :
    symSeal k n m = .tag k (vals n) (vals m) :: (List.replicate 15 (.byte 0) ++ m) := by
  simp [symSeal, symTag]

private theorem drop16_symSeal (k : Nat) (n m : Bytes) : (symSeal k n m).drop 16 = m := by
  rw [symSeal_eq]; simp

/-- what opening a box means in the symbolic instance -/
private theorem symUnseal_some (k : Nat) (n c m : Bytes) (h : symUnseal k n c = some m) :
    c = .tag k (vals n) (vals m) :: (List.replicate 15 (.byte 0) ++ m) := by
  have := symAEAD.openBox_sound k n c m h
  rw [← symSeal_eq]; exact this

/-- a box with a `bad` cell in it does not open under an all-bytes message/nonce history -/
private theorem sym_box_set_bad (k : Nat) (n m : Bytes) (hm : ∀ c ∈ m, c.isByte = true)
    (j : Nat) (hj : j < (symSeal k n m).length) :
    symUnseal k n ((symSeal k n m).set j .bad) = none := by
  cases h : symUnseal k n ((symSeal k n m).set j .bad) with
  | none => rfl
  | some m' =>
    exfalso
    have hc := symUnseal_some k n _ m' h
    have hbad : Cell.bad ∈ (symSeal k n m).set j .bad := bad_mem_set _ j hj
    cases j with
    | zero =>
      rw [symSeal_eq, List.set_cons_zero] at hc
      injection hc with h1 _
      cases h1
    | succ j =>
      rw [symSeal_eq, List.set_cons_succ] at hc
      have hc' := hc
      injection hc with h1 h2
      injection h1 with _ _ hv
      -- hv : vals m = vals m'
      rw [symSeal_eq, List.set_cons_succ, hc'] at hbad
      simp only [List.mem_cons, List.mem_append, List.mem_replicate] at hbad
      rcases hbad with hb | ⟨_, hb⟩ | hb
      · cases hb
      · cases hb
      · exact none_not_mem_vals m hm (hv ▸ none_mem_vals_of_bad m' hb)

/-- a shorter box does not open -/
private theorem sym_box_take (k : Nat) (n m : Bytes) (j : Nat) (hj : j < (symSeal k n m).length) :
    symUnseal k n ((symSeal k n m).take j) = none := by
  cases h : symUnseal k n ((symSeal k n m).take j) with
  | none => rfl
  | some m' =>
    exfalso
    have hc := symUnseal_some k n _ m' h
    have hl := congrArg List.length hc
    rw [symSeal_eq] at hc hl hj
    cases j with
    | zero => simp at hc
    | succ j =>
      rw [List.take_succ_cons] at hc
      injection hc with h1 h2
      injection h1 with _ _ hv
      have hlen : m.length = m'.length := by
        have := congrArg List.length hv; simpa [vals] using this
      simp at hl hj
      omega

/-- a longer box does not open -/
private theorem sym_box_extend (k : Nat) (n m : Bytes) (e : Nat) (he : e ≠ 0) :
    symUnseal k n (symSeal k n m ++ List.replicate e (.byte 0)) = none := by
  cases h : symUnseal k n (symSeal k n m ++ List.replicate e (.byte 0)) with
  | none => rfl
  | some m' =>
    exfalso
    have hc := symUnseal_some k n _ m' h
    have hl := congrArg List.length hc
    rw [symSeal_eq, List.cons_append] at hc
    injection hc with h1 h2
    injection h1 with _ _ hv
    have hlen : m.length = m'.length := by
      have := congrArg List.length hv; simpa [vals] using this
    rw [symSeal_eq] at hl
    simp at hl
    omega

/-- a `bad` cell in the nonce: the box was sealed for another nonce -/
private theorem sym_nonce_set_bad (k : Nat) (n m : Bytes) (hn : ∀ c ∈ n, c.isByte = true)
    (p : Nat) (hp : p < n.length) :
    symUnseal k (n.set p .bad) (symSeal k n m) = none := by
  cases h : symUnseal k (n.set p .bad) (symSeal k n m) with
  | none => rfl
  | some m' =>
    exfalso
    have hc := symUnseal_some k _ _ m' h
    rw [symSeal_eq] at hc
    injection hc with h1 _
    injection h1 with _ hv _
    exact none_not_mem_vals n hn (hv ▸ none_mem_vals_of_bad _ (bad_mem_set n p hp))

/-- framing: `Decrypt` of a 24-cell nonce followed by a box opens that box under that nonce -/
theorem decrypt_append (k : K) (n c : Bytes) (hn : n.length = nonceSize) :
    decrypt A k (n ++ c) = A.openBox k n c := by
  unfold decrypt
  have h1 : ¬ (n ++ c).length < nonceSize := by rw [List.length_append, hn]; omega
  rw [if_neg h1, ← hn, List.take_left, List.drop_left]

private theorem symSeal_length (k : Nat) (n m : Bytes) : (symSeal k n m).length = m.length + 16 :=
  symAEAD.sealBox_length k n m

/-- **Per-modification verdict in the symbolic instance**: an honest ciphertext (all-byte nonce and
    plaintext) to which one of the driver's modification classes is applied is rejected when the
    modification changes it (xor with a non-zero mask anywhere — nonce, authenticator or body —,
    truncation, extension) and decrypts to the original plaintext when it does not. -/
theorem mod_verdict (k : Nat) (nonce pt : Bytes) (hn : nonce.length = nonceSize)
    (hbn : ∀ c ∈ nonce, c.isByte = true) (hbp : ∀ c ∈ pt, c.isByte = true) (m : Mod)
    (hok : ∀ pos mask, m = .xor pos mask → pos < pt.length + nonceSize + 16) :
    verdictChar pt (decrypt symAEAD k (applyMod (encrypt symAEAD k nonce pt) m))
      = if modChanges (pt.length + nonceSize + 16) m then 'r' else 'o' := by
  have hdec : decrypt symAEAD k (encrypt symAEAD k nonce pt) = some pt :=
    decrypt_encrypt symAEAD k nonce pt hn
  have hsame : verdictChar pt (some pt) = 'o' := by simp [verdictChar]
  have hbox : (symSeal k nonce pt).length = pt.length + 16 := symSeal_length k nonce pt
  have hct : encrypt symAEAD k nonce pt = nonce ++ symSeal k nonce pt := rfl
  have hlen : (encrypt symAEAD k nonce pt).length = pt.length + nonceSize + 16 := by
    rw [hct, List.length_append, hbox, hn]; omega
  cases m with
  | xor pos mask =>
    have hpos := hok pos mask rfl
    by_cases hm : mask = 0
    · subst hm
      simp [applyMod, modChanges, hdec, hsame]
    · have hmc : modChanges (pt.length + nonceSize + 16) (.xor pos mask) = true := by
        simp [modChanges, hm]
      rw [hmc, if_pos rfl]
      simp only [applyMod, if_neg hm]
      rw [hct, List.set_append]
      split
      · rename_i hlt
        rw [decrypt_append symAEAD k _ _ (by rw [List.length_set]; exact hn)]
        show verdictChar pt (symUnseal k (nonce.set pos .bad) (symSeal k nonce pt)) = 'r'
        rw [sym_nonce_set_bad k nonce pt hbn pos hlt]; rfl
      · rename_i hge
        rw [decrypt_append symAEAD k _ _ hn]
        show verdictChar pt (symUnseal k nonce ((symSeal k nonce pt).set (pos - nonce.length) .bad)) = 'r'
        rw [sym_box_set_bad k nonce pt hbp _ (by rw [hbox, hn]; omega)]; rfl
  | trunc n =>
    by_cases hlt : n < pt.length + nonceSize + 16
    · have hmc : modChanges (pt.length + nonceSize + 16) (.trunc n) = true := by
        simp [modChanges, hlt]
      rw [hmc, if_pos rfl]
      simp only [applyMod]
      by_cases hs : n < nonceSize
      · rw [decrypt_short symAEAD k _ (by rw [List.length_take, hlen]; omega)]; rfl
      · rw [hct, List.take_append, List.take_of_length_le (by rw [hn]; omega),
          decrypt_append symAEAD k _ _ hn]
        show verdictChar pt (symUnseal k nonce ((symSeal k nonce pt).take (n - nonce.length))) = 'r'
        rw [sym_box_take k nonce pt _ (by rw [hbox, hn]; omega)]; rfl
    · have hmc : modChanges (pt.length + nonceSize + 16) (.trunc n) = false := by
        simp [modChanges, hlt]
      rw [hmc]
      simp only [applyMod]
      rw [List.take_of_length_le (by rw [hlen]; omega), hdec, hsame]; rfl
  | extend e =>
    by_cases he : e = 0
    · subst he
      simp [applyMod, modChanges, hdec, hsame]
    · have hmc : modChanges (pt.length + nonceSize + 16) (.extend e) = true := by
        simp [modChanges, he]
      rw [hmc, if_pos rfl]
      simp only [applyMod]
      rw [hct, List.append_assoc, decrypt_append symAEAD k _ _ hn]
      show verdictChar pt (symUnseal k nonce (symSeal k nonce pt ++ List.replicate e (.byte 0))) = 'r'
      rw [sym_box_extend k nonce pt e he]; rfl

/-- `holds_model_partial`: for every group order, scalars, plaintext and 24-byte nonce the monitor's
    clauses are met by the model's run — key agreement, reference key, both decrypt directions,
    ciphertext length, all four key-matching answers **and the outsider's verdict** (accepted iff
    the shared x-coordinates coincide).  Gap: only the per-modification verdicts (a changed
    ciphertext is rejected by the symbolic instance) are not proved in general — that needs the
    digests to separate every single-cell change, which is what A-aead assumes of the real box;
    those verdicts are exercised by the differential run (every byte of short ciphertexts). -/
theorem holds_model_partial (N : Nat) (cs : Case) (mods : List Mod) (hn : cs.nonce.length = nonceSize) :
    let r := runCase (zmodGroup N) (K := Nat) id symAEAD cs mods
    r.agree = true ∧ r.ref = true ∧ r.dec = some cs.pt ∧ r.back = some cs.pt ∧
    r.ctLen = cs.pt.length + nonceSize + 16 ∧
    r.matchC = decide (cs.c % N = cs.a % N) ∧ r.matchA = true ∧
    r.matchBC = decide (cs.c % N = cs.b % N) ∧ r.matchCA = decide (cs.a % N = cs.c % N) ∧
    r.wrong = (if sharedX N cs.c cs.a = sharedX N cs.b cs.a then 'o' else 'r') := by
  intro r
  have hsym := ecdh_symmetric (zmodGroup N) (K := Nat) id cs.a cs.b
  have hprod := ecdh_eq_product (zmodGroup N) (K := Nat) id cs.a cs.b
  refine ⟨?_, ?_, ?_, ?_, ?_, ?_, ?_, ?_, ?_, ?_⟩
  · show decide (_ = _) = true
    rw [hsym]; simp
  · show decide (_ = _) = true
    rw [hprod]; simp
  · show decrypt symAEAD _ (encrypt symAEAD _ cs.nonce cs.pt) = some cs.pt
    rw [hsym]; exact decrypt_encrypt symAEAD _ _ _ hn
  · show decrypt symAEAD _ (encrypt symAEAD _ cs.nonce cs.pt) = some cs.pt
    rw [hsym]; exact decrypt_encrypt symAEAD _ _ _ hn
  · show (encrypt symAEAD _ cs.nonce cs.pt).length = _
    unfold encrypt
    rw [List.length_append, symAEAD.sealBox_length, hn]
    show nonceSize + (cs.pt.length + 16) = _
    omega
  · show isKeyMatching (zmodGroup N) (pubOf (zmodGroup N) cs.a) cs.c = _
    rw [Bool.eq_iff_iff, key_matching_mod]; simp
  · exact key_matching_self (zmodGroup N) cs.a
  · show isKeyMatching (zmodGroup N) (pubOf (zmodGroup N) cs.b) cs.c = _
    rw [Bool.eq_iff_iff, key_matching_mod]; simp
  · show isKeyMatching (zmodGroup N) (pubOf (zmodGroup N) cs.c) cs.a = _
    rw [Bool.eq_iff_iff, key_matching_mod]; simp
  · show verdictChar cs.pt (decrypt symAEAD (sharedX N cs.c cs.a)
        (encrypt symAEAD (ecdh (zmodGroup N) id cs.a (pubOf (zmodGroup N) cs.b)) cs.nonce cs.pt)) = _
    rw [hsym]
    show verdictChar cs.pt (decrypt symAEAD (sharedX N cs.c cs.a)
        (encrypt symAEAD (sharedX N cs.b cs.a) cs.nonce cs.pt)) = _
    by_cases hx : sharedX N cs.c cs.a = sharedX N cs.b cs.a
    · rw [hx, decrypt_encrypt symAEAD _ _ _ hn, if_pos rfl]
      simp [verdictChar]
    · rw [decrypt_encrypt_other symAEAD _ _ _ _ hn, sym_wrong_key _ _ _ _ hx, if_neg hx]
      rfl


private theorem zip_map_all (mods : List Mod) (f : Mod → Char) (P : Mod → Char → Bool)
    (h : ∀ m ∈ mods, P m (f m) = true) :
    ((mods.zip (mods.map f)).all fun x => P x.1 x.2) = true := by
  induction mods with
  | nil => rfl
  | cons m ms ih =>
    simp only [List.map_cons, List.zip_cons_cons, List.all_cons, Bool.and_eq_true]
    exact ⟨h m (by simp), ih (fun x hx => h x (by simp [hx]))⟩

/-- **`holds_model`**: the monitor accepts the model's observation of every case the driver can be
    given — every group order, all three scalars, every all-byte plaintext and 24-byte nonce, every
    list of modifications (xor positions inside the ciphertext, as the op-line parser guarantees). -/
theorem holds_model (N : Nat) (cs : Case) (mods : List Mod) (hn : cs.nonce.length = nonceSize)
    (hbn : ∀ c ∈ cs.nonce, c.isByte = true) (hbp : ∀ c ∈ cs.pt, c.isByte = true)
    (hok : ∀ pos mask, Mod.xor pos mask ∈ mods → pos < cs.pt.length + nonceSize + 16) :
    holds N cs mods ((runCase (zmodGroup N) (K := Nat) id symAEAD cs mods).toImpl cs.pt) = true := by
  obtain ⟨h1, h2, h3, h4, h5, h6, h7, h8, h9, h10⟩ := holds_model_partial N cs mods hn
  have hsym := ecdh_symmetric (zmodGroup N) (K := Nat) id cs.a cs.b
  have hmods : (runCase (zmodGroup N) (K := Nat) id symAEAD cs mods).mods
      = mods.map fun m => verdictChar cs.pt (decrypt symAEAD (ecdh (zmodGroup N) id cs.b (pubOf (zmodGroup N) cs.a))
          (applyMod (encrypt symAEAD (ecdh (zmodGroup N) id cs.b (pubOf (zmodGroup N) cs.a)) cs.nonce cs.pt) m)) := by
    show (mods.map fun m => verdictChar cs.pt (decrypt symAEAD _ (applyMod
      (encrypt symAEAD (ecdh (zmodGroup N) id cs.a (pubOf (zmodGroup N) cs.b)) cs.nonce cs.pt) m))) = _
    rw [hsym]
  simp only [holds, Result.toImpl, Bool.and_eq_true]
  refine ⟨⟨⟨⟨⟨⟨⟨⟨⟨⟨⟨h1, h2⟩, ?_⟩, ?_⟩, ?_⟩, ?_⟩, ?_⟩, ?_⟩, h7⟩, ?_⟩, ?_⟩, ?_⟩
  · rw [h3]; simp
  · rw [h5]; simp
  · rw [h10]; by_cases hx : sharedX N cs.c cs.a = sharedX N cs.b cs.a <;> simp [hx]
  · rw [hmods]; simp
  · rw [hmods]
    apply zip_map_all mods _ (fun m v => if modChanges (cs.pt.length + nonceSize + 16) m then v == 'r' else v == 'o')
    intro m hm
    rw [mod_verdict _ cs.nonce cs.pt hn hbn hbp m (fun pos mask he => hok pos mask (he ▸ hm))]
    split <;> rfl
  · rw [h6]; simp
  · rw [h4]; simp
  · rw [h8]; simp
  · rw [h9]; simp

/-! Non-vacuity on a small group (order 11) with the symbolic box. -/
example : (runCase (zmodGroup 11) (K := Nat) id symAEAD ⟨3, 5, 6, [.byte 7, .byte 8], List.replicate 24 (.byte 1)⟩
    [.xor 41 1, .xor 0 1, .trunc 10, .xor 3 0]).mods = ['r', 'r', 'r', 'o'] := by decide
example : (runCase (zmodGroup 11) (K := Nat) id symAEAD ⟨3, 5, 6, [.byte 7, .byte 8], List.replicate 24 (.byte 1)⟩ []).wrong
    = 'o' := by decide   -- 6 = 11 - 5: same shared x
example : (runCase (zmodGroup 11) (K := Nat) id symAEAD ⟨3, 5, 7, [.byte 7, .byte 8], List.replicate 24 (.byte 1)⟩ []).wrong
    = 'r' := by decide

end KeepVerif.C41
