import KeepVerif.Model.C41
/-!
# C41 — Ephemeral ECDH channels agree on keys and reject tampering

Proved for every curve model `D : DHGroup`, every key-derivation function `kdf` and every
`A : AEAD` (the laws of the curve library and of NaCl secretbox are the structure fields, i.e.
hypotheses — instances `zmodGroup`, `symAEAD` in the model file show they are satisfiable).
What is *proved* is the key-agreement algebra and the keep-core glue (`Ecdh`, `IsKeyMatching`,
nonce framing, short-input branch).  Unforgeability of secretbox is an assumption: it appears as
the explicit hypothesis of `tamper_rejected` / `wrong_key_rejected`.
-/
namespace KeepVerif.C41

variable (D : DHGroup) {K : Type} (kdf : D.X → K) (A : AEAD K)

/-- Both sides derive the same symmetric key, for all private scalars (any byte strings). -/
theorem ecdh_symmetric (a b : Nat) :
    ecdh D kdf a (pubOf D b) = ecdh D kdf b (pubOf D a) := by
  unfold ecdh pubOf
  rw [D.smul_smul, D.smul_smul, Nat.mul_comm]

/-- …namely the key derived from `(a*b)•G` (what the harness recomputes independently). -/
theorem ecdh_eq_product (a b : Nat) :
    ecdh D kdf a (pubOf D b) = kdf (D.xcoord (D.smul (a * b) D.G)) := by
  unfold ecdh pubOf
  rw [D.smul_smul]

/-- Private keys whose shared points have the same x-coordinate yield the same symmetric key
    (e.g. `b` and `N - b`): "a different key is rejected" is about *symmetric* keys. -/
theorem same_x_same_key (b c : Nat) (pub : D.Pt)
    (h : D.xcoord (D.smul c pub) = D.xcoord (D.smul b pub)) :
    ecdh D kdf c pub = ecdh D kdf b pub := by
  unfold ecdh; rw [h]

/-- `Decrypt(Encrypt(m)) = m` for every key, plaintext (also empty) and 24-byte nonce. -/
theorem decrypt_encrypt (k : K) (nonce m : Bytes) (hn : nonce.length = nonceSize) :
    decrypt A k (encrypt A k nonce m) = some m := by
  unfold decrypt encrypt
  have h1 : ¬ (nonce ++ A.sealBox k nonce m).length < nonceSize := by
    rw [List.length_append, hn]; omega
  rw [if_neg h1, ← hn, List.take_left, List.drop_left]
  exact A.openBox_sealBox k nonce m

/-- The channel: what `a` encrypts for `b` is decrypted by `b` (and vice versa by symmetry). -/
theorem channel_roundtrip (a b : Nat) (nonce m : Bytes) (hn : nonce.length = nonceSize) :
    decrypt A (ecdh D kdf b (pubOf D a)) (encrypt A (ecdh D kdf a (pubOf D b)) nonce m) = some m := by
  rw [ecdh_symmetric D kdf a b]
  exact decrypt_encrypt A _ nonce m hn

/-- Glue: input shorter than the nonce is an error (the `recover` branch), never a panic. -/
theorem decrypt_short (k : K) (ct : Bytes) (h : ct.length < nonceSize) : decrypt A k ct = none := by
  unfold decrypt; rw [if_pos h]

/-- Whatever `Decrypt` accepts is exactly the honest encryption of its output under the key and
    the nonce it carries.  (No assumption beyond the functional laws.) -/
theorem accepted_is_honest_encryption (k : K) (ct m : Bytes) (h : decrypt A k ct = some m) :
    nonceSize ≤ ct.length ∧ ct = encrypt A k (ct.take nonceSize) m := by
  unfold decrypt at h
  split at h
  · cases h
  · rename_i hl
    refine ⟨Nat.le_of_not_lt hl, ?_⟩
    have := A.openBox_sound _ _ _ _ h
    unfold encrypt
    rw [← this, List.take_append_drop]

/-- Input shorter than nonce + authenticator is rejected. -/
theorem decrypt_shorter_than_overhead (k : K) (ct : Bytes) (h : ct.length < nonceSize + A.overhead) :
    decrypt A k ct = none := by
  cases hd : decrypt A k ct with
  | none => rfl
  | some m =>
    exfalso
    obtain ⟨h1, h2⟩ := accepted_is_honest_encryption A k ct m hd
    have hl := congrArg List.length h2
    unfold encrypt at hl
    rw [List.length_append, A.sealBox_length, List.length_take] at hl
    omega

/-- A modification that keeps the nonce is never accepted as the original plaintext: if the
    result is the original `m`, the ciphertext is the original one.  Unconditional. -/
theorem modified_never_yields_original (k : K) (nonce m ct' : Bytes)
    (hn : ct'.take nonceSize = nonce) (h : decrypt A k ct' = some m) :
    ct' = encrypt A k nonce m := by
  rw [← hn]; exact (accepted_is_honest_encryption A k ct' m h).2

/-- A-aead (assumption, not a result): a byte string that is not an honest encryption under `k`
    — what an adversary without `k` can produce, by unforgeability — is rejected. -/
theorem tamper_rejected (k : K) (ct : Bytes)
    (hforge : ∀ m, ct ≠ encrypt A k (ct.take nonceSize) m) : decrypt A k ct = none := by
  cases hd : decrypt A k ct with
  | none => rfl
  | some m => exact absurd (accepted_is_honest_encryption A k ct m hd).2 (hforge m)

/-- A-aead (assumption): under key separation of the sealed boxes a different key is rejected. -/
theorem wrong_key_rejected (k k' : K) (nonce m : Bytes) (hn : nonce.length = nonceSize)
    (hsep : ∀ m', A.sealBox k' nonce m' ≠ A.sealBox k nonce m) :
    decrypt A k' (encrypt A k nonce m) = none := by
  apply tamper_rejected
  intro m' h
  unfold encrypt at h
  rw [← hn, List.take_left] at h
  exact hsep m' (List.append_cancel_left h).symm

/-- `IsKeyMatching(pub(a), c)` holds exactly when `c` generates the public key. -/
theorem key_matching_iff (a c : Nat) :
    isKeyMatching D (pubOf D a) c = true ↔ D.smul c D.G = D.smul a D.G := by
  unfold isKeyMatching pubOf
  simp

theorem key_matching_self (a : Nat) : isKeyMatching D (pubOf D a) a = true :=
  (key_matching_iff D a a).2 rfl

/-- In the exponent model of a cyclic group of order `N`: matching ⇔ the same scalar modulo `N`
    (so unreduced encodings `a + N` match, `N - a` — same x, other y — does not). -/
theorem key_matching_mod (N a c : Nat) :
    isKeyMatching (zmodGroup N) (pubOf (zmodGroup N) a) c = true ↔ c % N = a % N := by
  rw [key_matching_iff]
  show c * (1 % N) % N = a * (1 % N) % N ↔ c % N = a % N
  by_cases h1 : N = 1
  · subst h1; simp [Nat.mod_one]
  · have : 1 % N = 1 := by
      rcases Nat.eq_zero_or_pos N with h0 | h0
      · subst h0; rfl
      · exact Nat.mod_eq_of_lt (by omega)
    rw [this, Nat.mul_one, Nat.mul_one]

/-- T1 tie: the nonce framing constants of keep-common / secretbox used by the model. -/
theorem framing_facts : nonceSize = 24 ∧ symAEAD.overhead = Gen.C41.overhead := by decide

/-! ## Monitor accepts the model (partial) -/

def Result.toImpl (r : Result) (pt : Bytes) : ImplObs :=
  ⟨r.agree, r.ref, r.ctLen, r.dec == some pt, r.wrong, r.mods, r.matchC, r.matchA,
   r.back == some pt, r.matchBC, r.matchCA⟩

/-- framing: decrypting an honest encryption with any key opens the sealed box with that key -/
theorem decrypt_encrypt_other (k k' : K) (nonce m : Bytes) (hn : nonce.length = nonceSize) :
    decrypt A k' (encrypt A k nonce m) = A.openBox k' nonce (A.sealBox k nonce m) := by
  unfold decrypt encrypt
  have h1 : ¬ (nonce ++ A.sealBox k nonce m).length < nonceSize := by
    rw [List.length_append, hn]; omega
  rw [if_neg h1, ← hn, List.take_left, List.drop_left]

/-- the symbolic box is key-separated: the tag's first cell is the key -/
theorem sym_wrong_key (k k' : Nat) (n m : Bytes) (h : k' ≠ k) :
    symAEAD.openBox k' n (symAEAD.sealBox k n m) = none := by
  show symUnseal k' n (symSeal k n m) = none
  unfold symUnseal
  split
  · rename_i hc
    exfalso
    have := congrArg List.head? hc
    simp [symSeal, symTag] at this
    exact h this.symm
  · rfl

/-- `holds_model_partial`: for every group order, scalars, plaintext and 24-byte nonce the monitor's
    clauses are met by the model's run — key agreement, reference key, both decrypt directions,
    ciphertext length, all four key-matching answers **and the outsider's verdict** (accepted iff
    the shared x-coordinates coincide).  Gap: only the per-modification verdicts (a changed
    ciphertext is rejected by the symbolic instance) are not proved in general — that needs the
    digests to separate every single-cell change, which is what A-aead assumes of the real box;
    those verdicts are exercised by the differential run (every byte of short ciphertexts). -/
theorem holds_model_partial (N : Nat) (cs : Case) (hn : cs.nonce.length = nonceSize) :
    let r := runCase (zmodGroup N) (K := Nat) id symAEAD cs []
    r.agree = true ∧ r.ref = true ∧ r.dec = some cs.pt ∧ r.back = some cs.pt ∧
    r.ctLen = cs.pt.length + nonceSize + 16 ∧
    r.matchC = decide (cs.c % N = cs.a % N) ∧ r.matchA = true ∧
    r.matchBC = decide (cs.c % N = cs.b % N) ∧ r.matchCA = decide (cs.a % N = cs.c % N) ∧
    r.wrong = (if sharedX N cs.c cs.a = sharedX N cs.b cs.a then 'o' else 'r') := by
  intro r
  have hsym := ecdh_symmetric (zmodGroup N) (K := Nat) id cs.a cs.b
  have hprod := ecdh_eq_product (zmodGroup N) (K := Nat) id cs.a cs.b
  refine ⟨?_, ?_, ?_, ?_, ?_, ?_, ?_, ?_, ?_, ?_⟩
  · show decide (_ = _) = true
    rw [hsym]; simp
  · show decide (_ = _) = true
    rw [hprod]; simp
  · show decrypt symAEAD _ (encrypt symAEAD _ cs.nonce cs.pt) = some cs.pt
    rw [hsym]; exact decrypt_encrypt symAEAD _ _ _ hn
  · show decrypt symAEAD _ (encrypt symAEAD _ cs.nonce cs.pt) = some cs.pt
    rw [hsym]; exact decrypt_encrypt symAEAD _ _ _ hn
  · show (encrypt symAEAD _ cs.nonce cs.pt).length = _
    unfold encrypt
    rw [List.length_append, symAEAD.sealBox_length, hn]
    show nonceSize + (cs.pt.length + 16) = _
    omega
  · show isKeyMatching (zmodGroup N) (pubOf (zmodGroup N) cs.a) cs.c = _
    rw [Bool.eq_iff_iff, key_matching_mod]; simp
  · exact key_matching_self (zmodGroup N) cs.a
  · show isKeyMatching (zmodGroup N) (pubOf (zmodGroup N) cs.b) cs.c = _
    rw [Bool.eq_iff_iff, key_matching_mod]; simp
  · show isKeyMatching (zmodGroup N) (pubOf (zmodGroup N) cs.c) cs.a = _
    rw [Bool.eq_iff_iff, key_matching_mod]; simp
  · show verdictChar cs.pt (decrypt symAEAD (sharedX N cs.c cs.a)
        (encrypt symAEAD (ecdh (zmodGroup N) id cs.a (pubOf (zmodGroup N) cs.b)) cs.nonce cs.pt)) = _
    rw [hsym]
    show verdictChar cs.pt (decrypt symAEAD (sharedX N cs.c cs.a)
        (encrypt symAEAD (sharedX N cs.b cs.a) cs.nonce cs.pt)) = _
    by_cases hx : sharedX N cs.c cs.a = sharedX N cs.b cs.a
    · rw [hx, decrypt_encrypt symAEAD _ _ _ hn, if_pos rfl]
      simp [verdictChar]
    · rw [decrypt_encrypt_other symAEAD _ _ _ _ hn, sym_wrong_key _ _ _ _ hx, if_neg hx]
      rfl

/-! Non-vacuity on a small group (order 11) with the symbolic box. -/
example : (runCase (zmodGroup 11) (K := Nat) id symAEAD ⟨3, 5, 6, [7, 8], List.replicate 24 1⟩
    [.xor 41 1, .xor 0 1, .trunc 10, .xor 3 0]).mods = ['r', 'r', 'r', 'o'] := by decide
example : (runCase (zmodGroup 11) (K := Nat) id symAEAD ⟨3, 5, 6, [7, 8], List.replicate 24 1⟩ []).wrong
    = 'o' := by decide   -- 6 = 11 - 5: same shared x
example : (runCase (zmodGroup 11) (K := Nat) id symAEAD ⟨3, 5, 7, [7, 8], List.replicate 24 1⟩ []).wrong
    = 'r' := by decide

end KeepVerif.C41
