import KeepVerif.Model.C04
namespace KeepVerif.C04
end KeepVerif.C04
