import KeepVerif.Proofs.C04Sqrt
import KeepVerif.Proofs.C04Field
import KeepVerif.Proofs.C04D2
import KeepVerif.Proofs.C04G2
import KeepVerif.Proofs.Primes
/-!
# C04 — BN254 point encoding round-trips and decoding always terminates

Property theorems over `Model/C04.lean` (the functions the driver runs); constants come from
`Gen/C04.lean` (regenerated from the source on every run).  Library lemmas are in
`Proofs/C04Sqrt.lean` (`hexRoot_order_16`, `sqrt_search_periodic`, `sqrt_diverges_iff`,
`sqrt_bound_complete`, `sqrtGfP2_none_iff_old_diverges`, `sqrtGfP2_sound`, `sqrtExp_eq`) and
`Proofs/C04Field.lean` (`modSqrt_sq`, `modSqrt_complete`).

* termination: the model functions are total; what is proved is that the bound of the fixed loop
  loses nothing (`sqrt_bound_complete`) and that the old loop diverged exactly where the fixed code
  returns the error (`sqrtGfP2_none_iff_old_diverges`, `decompressG2_diverges_witness`);
* soundness of decoding for all inputs: `holdsD1_model` (G1), `holdsD2_model` (G2, in
  `Proofs/C04D2.lean`, proved for an abstract square-root routine and instantiated);
* round trip: `g1_roundtrip` (all finite points, `P` prime as hypothesis), `identity_roundtrip`;
  `g2_roundtrip`: every point of G2 with reduced coordinates and non-zero `y` components
  round-trips (`P` prime as hypothesis; the field argument for F_p² — `Proofs/C04G2.lean`:
  `sqrtGfP2_complete`, `root_pm` — closes the gap the older `g2_roundtrip_partial` names; the side
  condition is shown necessary for the code as it is by `g2_roundtrip_fails_zero_component`);
* hashing: `hash_on_curve`, `hashLoop_mono` (termination is fuel-relative).
-/
namespace KeepVerif.C04


/-! ## The defects of the code before the fix, as theorems -/

/-- **Divergence witness** (F3): for the 64-byte input `00…00 ‖ 00…03` (x = 3) the value
    `x³ + twistB` is not a square, so the unbounded loop of the old `sqrtGfP2` never terminates
    (no fuel suffices), while the fixed code returns an error. -/
theorem decompressG2_diverges_witness :
    (∀ fuel, sqrtLoop fuel (Fp2.add (Fp2.pow ⟨3, 0⟩ 3) twistB)
        (Fp2.pow (Fp2.add (Fp2.pow ⟨3, 0⟩ 3) twistB) sqrtExp) = none) ∧
    (match decompressG2 0 3 with | .error .nosqrt => true | _ => false) = true := by
  have h : sqrtGfP2 (Fp2.add (Fp2.pow ⟨3, 0⟩ 3) twistB) = none := by decide +kernel
  exact ⟨(sqrtGfP2_none_iff_old_diverges _).mp h, by decide +kernel⟩

/-- the all-zero input also made the old loop diverge (`twistB` is not a square). -/
theorem decompressG2_zero_diverged_old :
    ∀ fuel, sqrtLoop fuel (Fp2.add (Fp2.pow ⟨0, 0⟩ 3) twistB)
        (Fp2.pow (Fp2.add (Fp2.pow ⟨0, 0⟩ 3) twistB) sqrtExp) = none :=
  (sqrtGfP2_none_iff_old_diverges _).mp (by decide +kernel)

/-- **Identity** (F3b): `Compress` of the point at infinity evaluated `yParity 0`, which indexed an
    empty byte slice (panic) before the fix. -/
theorem compress_identity_panicked_old : yParityOld 0 = none := rfl

/-- after the fix the point at infinity round-trips, in G1 and in G2. -/
theorem identity_roundtrip :
    (match decompressG1 (compressG1 0 0) with | .ok (0, 0) => true | _ => false) = true ∧
    (match decompressG2 (compressG2 Fp2.zero Fp2.zero).1 (compressG2 Fp2.zero Fp2.zero).2 with
      | .ok (⟨0, 0⟩, ⟨0, 0⟩) => true | _ => false) = true := by
  decide +kernel

/-- 3 is not a square modulo `P`: no curve point has `x = 0`, so the all-zero encoding is free
    to stand for the point at infinity. -/
theorem yFromX_zero : yFromX 0 = none := by decide +kernel


/-! ## Decoding of arbitrary bytes: the monitor accepts every model output -/

def obsOf1 : Except Err (Nat × Nat) → Obs
  | .ok (x, y) => .point1 x y
  | .error e => .err e.toString

/-- **Decoding is total and sound (G1)**: for every 32-byte input the fixed `DecompressToG1`
    terminates with an error or with a point that is on the curve, has reduced coordinates and
    compresses back to the input — i.e. the monitor accepts every model output. -/
theorem holdsD1_model (m : Nat) (hm : m < 2 ^ 256) : holdsD1 m (obsOf1 (decompressG1 m)) = true := by
  unfold decompressG1
  by_cases h0 : m = 0
  · subst h0
    decide +kernel
  · rw [if_neg h0]
    simp only
    cases hy : yFromX (m % two255) with
    | none => rfl
    | some r =>
      simp only
      have hr : r < P := modSqrt_lt _ _ hy
      generalize hy' : (if m / two255 % 2 ≠ yParity r then P - r else r) = y'
      unfold g1FromInts
      cases hf : firstErr [m % two255, y'] with
      | some e => rfl
      | none =>
        simp only
        have hb := firstErr_none _ hf
        have hx : m % two255 < P := hb _ (by simp)
        have hyl : y' < P := hb _ (by simp)
        by_cases hz : m % two255 = 0 ∧ y' = 0
        · exfalso
          rw [hz.1, yFromX_zero] at hy
          cases hy
        · rw [if_neg hz]
          by_cases hc : onCurveG1 (m % two255) y' = true
          · rw [if_pos hc]
            simp only [obsOf1, holdsD1]
            have hpar : y' % 2 = m / two255 % 2 := by
              rw [← hy']
              exact parity_select _ _ (Nat.mod_lt _ (by omega)) hr (by have := hy'; unfold yParity at this; rw [this]; exact hyl)
            have hcomp : compressG1 (m % two255) y' = m := by
              unfold compressG1 yParity
              rw [hpar]
              exact orTop_restore m hm hx
            simp [hx, hyl, hc, hcomp]
          · rw [if_neg hc]; rfl


/-! ## Hash to G1 -/

/-- **Hash to G1 lands on the curve**: whenever the try-and-increment loop returns, the result
    satisfies `y² = x³ + 3 (mod P)` with `y` reduced, `x` is the hash value plus the number of
    increments, and every smaller increment had no square root. (Termination is fuel-relative:
    that some `x' ≥ x` has `x'³+3` a residue is a number-theoretic fact that is not proved; the
    driver uses fuel 512 and reports `FUEL` otherwise.) -/
theorem hashLoop_spec : ∀ (f x k : Nat) (r : Nat × Nat × Nat), hashLoop f x k = some r →
    onCurveG1 r.1 r.2.1 = true ∧ r.2.1 < P ∧ ∃ j, j < f ∧ r.1 = x + j ∧ r.2.2 = k + j ∧
      ∀ i < j, yFromX (x + i) = none := by
  intro f
  induction f with
  | zero => intro x k r h; simp [hashLoop] at h
  | succ f ih =>
    intro x k r h
    rw [hashLoop.eq_2] at h
    cases hy : yFromX x with
    | some y =>
      rw [hy] at h
      have h := Option.some.inj h; subst h
      refine ⟨?_, modSqrt_lt _ _ hy, 0, by omega, rfl, rfl, fun i hi => absurd hi (by omega)⟩
      unfold onCurveG1
      rw [beq_iff_eq]
      exact modSqrt_sq _ _ hy
    | none =>
      rw [hy] at h
      obtain ⟨h1, h2, j, hj, h3, h4, h5⟩ := ih _ _ _ h
      refine ⟨h1, h2, j + 1, by omega, by omega, by omega, ?_⟩
      intro i hi
      cases i with
      | zero => simpa using hy
      | succ i =>
        have := h5 i (by omega)
        rwa [show x + 1 + i = x + (i + 1) by omega] at this

theorem hash_on_curve (h fuel x y k : Nat) (hh : hashToG1 h fuel = some (x, y, k)) :
    onCurveG1 x y = true ∧ y < P ∧ x = h % P + k ∧ k < fuel := by
  obtain ⟨h1, h2, j, hj, h3, h4, _⟩ := hashLoop_spec _ _ _ _ hh
  simp only at h1 h2 h3 h4
  refine ⟨h1, h2, by omega, by omega⟩

/-- more fuel never changes an answer (the result is a function of the hash alone). -/
theorem hashLoop_mono : ∀ (f g x k : Nat) (r : Nat × Nat × Nat), hashLoop f x k = some r →
    hashLoop (f + g) x k = some r := by
  intro f
  induction f with
  | zero => intro g x k r h; simp [hashLoop] at h
  | succ f ih =>
    intro g x k r h
    have : f + 1 + g = (f + g) + 1 := by omega
    rw [this, hashLoop.eq_2]
    rw [hashLoop.eq_2] at h
    cases hy : yFromX x with
    | some y => rw [hy] at h; exact h
    | none => rw [hy] at h; exact ih _ _ _ _ h


/-! ## Round trip -/



theorem orTop_split (x b : Nat) (hx : x < two255) (hb : b < 2) :
    orTop x b % two255 = x ∧ orTop x b / two255 % 2 = b ∧ (orTop x b = 0 → x = 0) := by
  unfold orTop
  unfold two255 at *
  have h0 : x / 2 ^ 255 = 0 := Nat.div_eq_of_lt hx
  rw [h0]
  split
  · rename_i h
    refine ⟨?_, ?_, ?_⟩ <;> omega
  · rename_i h
    refine ⟨?_, ?_, ?_⟩ <;> omega

theorem g1FromInts_ok (x y : Nat) (hx : x < P) (hy : y < P) (hc : onCurveG1 x y = true) :
    g1FromInts x y = .ok (x, y) := by
  have h00 : ¬ (x = 0 ∧ y = 0) := by
    rintro ⟨rfl, rfl⟩
    revert hc; decide
  unfold g1FromInts
  have hf : firstErr [x, y] = none := by
    simp [firstErr, coordCheck, hx, hy]
  rw [hf]
  simp only
  rw [if_neg h00, if_pos hc]

/-- **G1 round trip**: for every affine point of the curve with reduced coordinates (that is every
    finite point `bn256` can marshal — `k•G` for all `k ≢ 0`), decompressing the compressed
    point gives back the point.  `P` prime is the hypothesis A-field. -/
theorem g1_roundtrip [hp : Fact (Nat.Prime P)] (x y : Nat) (hx : x < P) (hy : y < P)
    (hc : onCurveG1 x y = true) : decompressG1 (compressG1 x y) = .ok (x, y) := by
  have hcurve : (y * y) % P = (x * x * x + 3) % P := by simpa [onCurveG1] using hc
  obtain ⟨r, hr, hrlt, hror⟩ := modSqrt_complete (x * x * x + 3) y hy hcurve
  have hx255 : x < two255 := lt_trans hx p_lt_two255
  obtain ⟨hm1, hm2, hm3⟩ := orTop_split x (y % 2) hx255 (Nat.mod_lt _ (by omega))
  have hxne : x ≠ 0 := by
    rintro rfl
    have : yFromX 0 = some r := hr
    rw [yFromX_zero] at this; cases this
  have hyx : yFromX x = some r := hr
  unfold decompressG1 compressG1 yParity
  rw [if_neg (fun h => hxne (hm3 h))]
  simp only
  rw [hm1, hm2, hyx]
  simp only
  have hy' : (if y % 2 ≠ r % 2 then P - r else r) = y := by
    have hp := p_odd
    rcases hror with rfl | hsum
    · simp
    · by_cases hpar : y % 2 ≠ r % 2
      · rw [if_pos hpar]; omega
      · exfalso; omega
  rw [hy']
  exact g1FromInts_ok x y hx hy hc

/-- the identity and every finite point: the monitor's round-trip predicate accepts the model. -/
theorem holdsRt1_model [hp : Fact (Nat.Prime P)] (x y : Nat)
    (h : (x = 0 ∧ y = 0) ∨ (x < P ∧ y < P ∧ onCurveG1 x y = true)) :
    holdsRt1 x y (match decompressG1 (compressG1 x y) with
      | .ok (x', y') => .point1 x' y' | .error e => .err e.toString) = true := by
  rcases h with ⟨rfl, rfl⟩ | ⟨hx, hy, hc⟩
  · decide +kernel
  · rw [g1_roundtrip x y hx hy hc]
    simp [holdsRt1]



/-! ## G2 round trip (partial) -/

theorem g2FromInts_ok (x y : Fp2) (hx : Reduced x) (hy : Reduced y) (hin : inG2 x y = true) :
    g2FromInts x y = .ok (x, y) := by
  unfold g2FromInts
  have hf : firstErr [x.y, x.x, y.y, y.x] = none := by
    simp [firstErr, coordCheck, hx.1, hx.2, hy.1, hy.2]
  rw [hf]
  simp only
  by_cases hz : (x.isZero && y.isZero) = true
  · rw [if_pos hz]
  · rw [if_neg hz, if_pos hin]

/-- round trip for any square-root routine whose result, after the parity selection of
    `DecompressToG2`, is `y`. -/
theorem g2_roundtrip_sel (sqrt : Fp2 → Option Fp2) (x y r : Fp2) (hx : Reduced x) (hy : Reduced y)
    (hin : inG2 x y = true) (hx0 : ¬ (x.x = 0 ∧ x.y = 0))
    (hs : sqrt (Fp2.add (Fp2.pow x 3) twistB) = some r)
    (hy' : (if y.y % 2 ≠ r.y % 2 then (⟨P - r.x, P - r.y⟩ : Fp2) else r) = y) :
    decompressG2With sqrt (compressG2 x y).1 (compressG2 x y).2 = .ok (x, y) := by
  obtain ⟨hm1, hm2, hm3⟩ := orTop_split x.y (y.y % 2) (lt_trans hx.2 p_lt_two255)
    (Nat.mod_lt _ (by omega))
  have heta : (⟨x.x, x.y⟩ : Fp2) = x := by cases x; rfl
  unfold decompressG2With compressG2 yParity
  simp only
  rw [if_neg (fun h => hx0 ⟨h.2, hm3 h.1⟩)]
  rw [hm1, hm2, heta, hs]
  simp only
  rw [hy']
  exact g2FromInts_ok x y hx hy hin

/-- round trip for any square-root routine that returns one of `±y`. -/
theorem g2_roundtrip_with (sqrt : Fp2 → Option Fp2) (x y r : Fp2) (hx : Reduced x) (hy : Reduced y)
    (hin : inG2 x y = true) (hx0 : ¬ (x.x = 0 ∧ x.y = 0))
    (hs : sqrt (Fp2.add (Fp2.pow x 3) twistB) = some r)
    (hr : r = y ∨ r = ⟨P - y.x, P - y.y⟩) :
    decompressG2With sqrt (compressG2 x y).1 (compressG2 x y).2 = .ok (x, y) := by
  have hy' : (if y.y % 2 ≠ r.y % 2 then (⟨P - r.x, P - r.y⟩ : Fp2) else r) = y := by
    have hp := p_odd
    have h1 := hy.1
    have h2 := hy.2
    rcases hr with rfl | rfl
    · simp
    · have hpar : y.y % 2 ≠ (P - y.y) % 2 := by omega
      simp only [hpar, ne_eq, not_false_eq_true, if_true]
      cases y with
      | mk yx yy =>
        simp only [Fp2.mk.injEq]
        simp only at h1 h2
        constructor <;> omega
  exact g2_roundtrip_sel sqrt x y r hx hy hin hx0 hs hy'

/-- **G2 round trip (partial)**: for every point of G2 with reduced coordinates,
    decompressing the compressed point gives back the point, *provided* the square-root search
    on `x³ + twistB` returns `y` or `−y`.  Gap: that the search does so for every point (F_p² is a
    field, so the roots are `±y`; the 16-step search is complete for squares) is not proved. -/
theorem g2_roundtrip_partial (x y r : Fp2) (hx : Reduced x) (hy : Reduced y)
    (hin : inG2 x y = true)
    (hs : sqrtGfP2 (Fp2.add (Fp2.pow x 3) twistB) = some r)
    (hr : r = y ∨ r = ⟨P - y.x, P - y.y⟩) :
    decompressG2 (compressG2 x y).1 (compressG2 x y).2 = .ok (x, y) := by
  have hx0 : ¬ (x.x = 0 ∧ x.y = 0) := by
    rintro ⟨h1, h2⟩
    have : x = ⟨0, 0⟩ := by cases x; simp only at h1 h2; subst h1; subst h2; rfl
    rw [this, sqrt_twistB_none] at hs
    cases hs
  unfold decompressG2
  exact g2_roundtrip_with sqrtGfP2 x y r hx hy hin hx0 hs hr

/-- `x³ + twistB` as the model computes it equals `y·y` for a point on the twist. -/
theorem twist_rhs_eq (x y : Fp2) (hon : onTwist x y = true) :
    Fp2.add (Fp2.pow x 3) twistB = Fp2.mul y y := by
  have h : Fp2.mul y y = Fp2.add (Fp2.mul (Fp2.mul x x) x) twistB := by simpa [onTwist] using hon
  rw [h]
  apply φ_inj ⟨Nat.mod_lt _ (by decide), Nat.mod_lt _ (by decide)⟩
    ⟨Nat.mod_lt _ (by decide), Nat.mod_lt _ (by decide)⟩
  rw [φ_add, φ_add, φ_pow, φ_mul, φ_mul]
  ring

/-- the parity selection of `DecompressToG2` recovers `y` from either root, when neither
    component of `y` is zero. -/
theorem parity_select2 (y r : Fp2) (hy : Reduced y) (hr : Reduced r)
    (hyx : y.x ≠ 0) (hyy : y.y ≠ 0) (h : φ r = φ y ∨ φ r = -φ y) :
    (if y.y % 2 ≠ r.y % 2 then (⟨P - r.x, P - r.y⟩ : Fp2) else r) = y := by
  have hp := p_odd
  have h1 := hy.1
  have h2 := hy.2
  rcases h with h | h
  · have : r = y := φ_inj hr hy h
    subst this; simp
  · have hrx : r.x = P - y.x := by
      apply nat_eq_of_cast hr.1 (by omega)
      have := congrArg QuadraticAlgebra.re h
      simp only [φ, QuadraticAlgebra.re_neg] at this
      rw [this, Nat.cast_sub (Nat.le_of_lt h1), ZMod.natCast_self]; ring
    have hry : r.y = P - y.y := by
      apply nat_eq_of_cast hr.2 (by omega)
      have := congrArg QuadraticAlgebra.im h
      simp only [φ, QuadraticAlgebra.im_neg] at this
      rw [this, Nat.cast_sub (Nat.le_of_lt h2), ZMod.natCast_self]; ring
    have hpar : y.y % 2 ≠ r.y % 2 := by omega
    rw [if_pos hpar]
    cases y with
    | mk yx yy =>
      simp only [Fp2.mk.injEq]
      simp only at h1 h2 hrx hry hyx hyy
      constructor <;> omega

/-- **G2 round trip**: for every point of G2 with reduced coordinates neither of whose
    `y`-components is zero, decompressing the compressed point gives back the point.  `P` prime
    is the hypothesis A-field (as for G1); everything else — F_p² = F_p[i] is a field because
    `P % 4 = 3`, the 16-step search is complete for squares, a returned root is `±y`, parity
    selection, range and subgroup checks — is proved.  The side condition is real: the compressed
    form stores the parity of `y.y` only, so for `y.y = 0` the two roots are indistinguishable, and
    for `y.x = 0` the negation `P − 0 = P` of the code is rejected as out of range by `G2FromInts`
    (`g2_roundtrip_fails_zero_component`); such points have density 2⁻²⁵³ and none is known. -/
theorem g2_roundtrip [hp : Fact (Nat.Prime P)] (x y : Fp2) (hx : Reduced x) (hy : Reduced y)
    (hin : inG2 x y = true) (hyx : y.x ≠ 0) (hyy : y.y ≠ 0) :
    decompressG2 (compressG2 x y).1 (compressG2 x y).2 = .ok (x, y) := by
  have hon : onTwist x y = true := by
    unfold inG2 at hin
    exact (Bool.and_eq_true _ _ ▸ hin).1
  have hrhs := twist_rhs_eq x y hon
  have hne : ¬ (y.x = 0 ∧ y.y = 0) := fun h => hyx h.1
  obtain ⟨r, hs⟩ := sqrtGfP2_complete _ y hy hne hrhs.symm
  have hrr : Reduced r := sqrtGfP2_reduced _ r hs
  have hpm := root_pm y r (by rw [sqrtGfP2_sound _ r hs, hrhs])
  have hx0 : ¬ (x.x = 0 ∧ x.y = 0) := by
    rintro ⟨h1, h2⟩
    have : x = ⟨0, 0⟩ := by cases x; simp only at h1 h2; subst h1; subst h2; rfl
    rw [this, sqrt_twistB_none] at hs
    cases hs
  unfold decompressG2
  exact g2_roundtrip_sel sqrtGfP2 x y r hx hy hin hx0 hs (parity_select2 y r hy hrr hyx hyy hpm)

/-- the side condition of `g2_roundtrip` is needed by the code as it is: when the search returns
    the root with `r.x = 0` and the other parity, the code's negation yields `P`, which
    `G2FromInts` rejects (`err:equals`) — stated on the selection step for any such root. -/
theorem g2_roundtrip_fails_zero_component (x r : Fp2) (hrx : r.x = 0) :
    ∃ e, g2FromInts x ⟨P - r.x, P - r.y⟩ = .error e := by
  unfold g2FromInts
  cases h : firstErr [x.y, x.x, P - r.y, P - r.x] with
  | some e => exact ⟨e, rfl⟩
  | none =>
    have := firstErr_none _ h (P - r.x) (by simp)
    omega

/-! ## Assumption A-field discharged: `bn256.P` (as extracted from the source) is prime -/

/-- the field modulus extracted from the source is prime (Pratt certificate checked by the kernel,
    `Proofs/Primes.lean`); if the constant in the source changes this stops checking. -/
theorem P_prime : Nat.Prime P := Primes.fieldP_prime

/-- the group order extracted from the source is prime. -/
theorem R_prime : Nat.Prime R := Primes.groupOrder_prime

/-- **G1 round trip, no hypothesis on `P`.** -/
theorem g1_roundtrip_unconditional (x y : Nat) (hx : x < P) (hy : y < P)
    (hc : onCurveG1 x y = true) : decompressG1 (compressG1 x y) = .ok (x, y) :=
  @g1_roundtrip ⟨P_prime⟩ x y hx hy hc

/-- **G2 round trip, no hypothesis on `P`.** -/
theorem g2_roundtrip_unconditional (x y : Fp2) (hx : Reduced x) (hy : Reduced y)
    (hin : inG2 x y = true) (hyx : y.x ≠ 0) (hyy : y.y ≠ 0) :
    decompressG2 (compressG2 x y).1 (compressG2 x y).2 = .ok (x, y) :=
  @g2_roundtrip ⟨P_prime⟩ x y hx hy hin hyx hyy

/-- coordinates of the G2 generator (`twistGen`): x = g2x + g2xi·i, y = g2y + g2yi·i. -/
def g2xi : Nat := 11559732032986387107991004021392285783925812861821192530917403151452391805634
def g2x : Nat := 10857046999023057135944570762232829481370756359578518086990519993285655852781
def g2yi : Nat := 4082367875863433681332203403145435568316851327593401208105741076214120093531
def g2y : Nat := 8495653923123431417604973247489272438418190587263600148770280649306958101930

/-- non-vacuity: the generator of G2 satisfies the hypotheses (its root is found by the search)
    and round-trips. -/
example : (match decompressG2 (compressG2 ⟨g2x, g2xi⟩ ⟨g2y, g2yi⟩).1 (compressG2 ⟨g2x, g2xi⟩ ⟨g2y, g2yi⟩).2 with
    | .ok (a, b) => a == ⟨g2x, g2xi⟩ && b == ⟨g2y, g2yi⟩ | _ => false) = true := by decide +kernel

end KeepVerif.C04
