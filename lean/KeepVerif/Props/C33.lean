import KeepVerif.Model.C33
/-!
# C33 — Proposal discovery selects exactly the eligible requests, oldest first

Theorems over `Model/C33.lean`, for all event histories, request states, times, limits, map
iteration orders and checklists. The required confirmation count comes from `Gen/C33.lean`.
-/
namespace KeepVerif.C33

/-- T1 tie: the constant extracted from the source. A zero would make the confirmation filter vacuous. -/
theorem requiredConf_pos : 0 < requiredConf := by decide

/-! ## the stable sort -/

theorem insertBy_perm {α} (k : α → Nat) (x : α) (l : List α) : (insertBy k x l).Perm (x :: l) := by
  induction l with
  | nil => exact List.Perm.refl _
  | cons y ys ih =>
    unfold insertBy
    split
    · exact List.Perm.refl _
    · exact (List.Perm.cons y ih).trans (List.Perm.swap x y ys)

/-- the sort only reorders -/
theorem sortBy_perm {α} (k : α → Nat) (l : List α) : (sortBy k l).Perm l := by
  induction l with
  | nil => exact List.Perm.refl _
  | cons x xs ih => exact (insertBy_perm k x _).trans (List.Perm.cons x ih)

theorem mem_sortBy {α} (k : α → Nat) (l : List α) (a : α) : a ∈ sortBy k l ↔ a ∈ l :=
  (sortBy_perm k l).mem_iff

theorem insertBy_sorted {α} (k : α → Nat) (x : α) (l : List α)
    (h : l.Pairwise (fun a b => k a ≤ k b)) : (insertBy k x l).Pairwise (fun a b => k a ≤ k b) := by
  induction l with
  | nil => simp [insertBy]
  | cons y ys ih =>
    unfold insertBy
    rw [List.pairwise_cons] at h
    split
    · rename_i hle
      rw [List.pairwise_cons]
      refine ⟨?_, List.pairwise_cons.2 h⟩
      intro b hb
      simp only [List.mem_cons] at hb
      rcases hb with rfl | hb
      · exact hle
      · exact Nat.le_trans hle (h.1 b hb)
    · rename_i hlt
      rw [List.pairwise_cons]
      refine ⟨?_, ih h.2⟩
      intro b hb
      have := (insertBy_perm k x ys).mem_iff.1 hb
      simp only [List.mem_cons] at this
      rcases this with rfl | hb
      · omega
      · exact h.1 b hb

/-- the sort output is ascending -/
theorem sortBy_sorted {α} (k : α → Nat) (l : List α) : (sortBy k l).Pairwise (fun a b => k a ≤ k b) := by
  induction l with
  | nil => simp [sortBy]
  | cons x xs ih => exact insertBy_sorted k x _ ih

theorem filter_insertBy_key {α} (k : α → Nat) (x : α) (l : List α) (b : Nat) :
    (insertBy k x l).filter (fun a => k a == b) = (x :: l).filter (fun a => k a == b) := by
  induction l with
  | nil => simp [insertBy]
  | cons y ys ih =>
    unfold insertBy
    split
    · rfl
    · rename_i hlt
      rw [List.filter_cons, ih]
      by_cases hx : k x = b
      · have hy : ¬ k y = b := by omega
        simp [List.filter_cons, hx, hy]
      · simp [List.filter_cons, hx]

/-- **stability**: elements with equal keys keep their original relative order -/
theorem sortBy_stable {α} (k : α → Nat) (l : List α) (b : Nat) :
    (sortBy k l).filter (fun a => k a == b) = l.filter (fun a => k a == b) := by
  induction l with
  | nil => rfl
  | cons x xs ih =>
    show (insertBy k x (sortBy k xs)).filter _ = _
    rw [filter_insertBy_key, List.filter_cons, List.filter_cons, ih]

/-! ## deposits -/

/-- closed form with an accumulator (generalisation used by the induction) -/
private def depSpecAcc (cfg : DepCfg) (cap : Nat) (evs : List DepEvent) (acc : List Deposit) :
    DepStatus × List Deposit :=
  let el := ((evs.takeWhile (depFound cfg)).filter (depEligibleEv cfg)).map (depOf cfg)
  match evs.dropWhile (depFound cfg) with
  | [] => (.ok, (acc ++ el).take cap)
  | bad :: _ =>
    if cap ≤ acc.length + el.length then (.ok, (acc ++ el).take cap)
    else ((depErrOf cfg bad).1, if (depErrOf cfg bad).2 then acc ++ el else [])

private theorem depLoop_eq (cfg : DepCfg) (cap : Nat) (evs : List DepEvent) (acc : List Deposit)
    (hacc : acc.length ≤ cap) : depLoop cfg cap evs acc = depSpecAcc cfg cap evs acc := by
  induction evs generalizing acc with
  | nil => simp [depLoop, depSpecAcc, List.take_of_length_le hacc]
  | cons e es ih =>
    unfold depLoop
    by_cases hfull : acc.length = cap
    · simp only [hfull, if_true]
      have htake : ∀ el : List Deposit, (acc ++ el).take cap = acc := by
        intro el; rw [← hfull]; simp
      unfold depSpecAcc
      simp only [htake]
      split
      · rfl
      · rw [if_pos (by omega)]
    · simp only [hfull, if_false]
      have hlt : acc.length < cap := by omega
      cases hreq : cfg.req e.tx e.idx with
      | err =>
        have hf : depFound cfg e = false := by simp [depFound, hreq]
        simp [depSpecAcc, hf, depErrOf, hreq, Nat.not_le.2 hlt]
      | notFound =>
        have hf : depFound cfg e = false := by simp [depFound, hreq]
        simp [depSpecAcc, hf, depErrOf, hreq, Nat.not_le.2 hlt]
      | found r =>
        have hf : depFound cfg e = true := by simp [depFound, hreq]
        simp only
        by_cases hel : depEligible cfg e r = true
        · have hel' : depEligibleEv cfg e = true := by simp [depEligibleEv, hreq, hel]
          have hd : depOf cfg e = mkDeposit cfg e r := by simp [depOf, hreq]
          rw [if_pos hel, ih (acc ++ [mkDeposit cfg e r]) (by simp; omega)]
          simp only [depSpecAcc, List.takeWhile_cons, List.dropWhile_cons, hf, if_true,
            List.filter_cons, hel', List.map_cons, hd, List.append_assoc, List.singleton_append,
            List.length_append, List.length_cons, List.length_nil]
          split
          · rfl
          · have : acc.length + (0 + 1) + (List.map (depOf cfg) (List.filter (depEligibleEv cfg) (List.takeWhile (depFound cfg) es))).length
                = acc.length + ((List.map (depOf cfg) (List.filter (depEligibleEv cfg) (List.takeWhile (depFound cfg) es))).length + 1) := by omega
            simp only [this]
        · have hel' : depEligibleEv cfg e = false := by simp [depEligibleEv, hreq, hel]
          rw [if_neg hel, ih acc hacc]
          simp only [depSpecAcc, List.takeWhile_cons, List.dropWhile_cons, hf, if_true,
            List.filter_cons, hel', Bool.false_eq_true, if_false]

/-- **C33 deposits, `deposits_spec`**: the loop returns exactly the closed form `depSpec` — the first
    `cap` eligible events (revealed for the wallet, old enough, not swept if requested, confirmed if
    requested) in stable reveal-block order; a failing lookup matters only if it is reached before
    the result is full. -/
theorem deposits_spec (cfg : DepCfg) (wallet : Nat) (events : List DepEvent) :
    findDeposits cfg wallet events = depSpec cfg wallet events := by
  unfold findDeposits depSpec
  simp only
  rw [depLoop_eq _ _ _ [] (Nat.zero_le _)]
  cases h : (sortBy (·.block) (chainDepEvents wallet events)).dropWhile (depFound cfg) with
  | nil => simp [depSpecAcc, depSpecOn, h]
  | cons b t => simp [depSpecAcc, depSpecOn, h]

private theorem takeWhile_all {α} (p : α → Bool) (l : List α) (h : ∀ a ∈ l, p a = true) :
    l.takeWhile p = l := by
  induction l with
  | nil => rfl
  | cons x xs ih => simp [h x (by simp), ih (fun a ha => h a (by simp [ha]))]

private theorem dropWhile_all {α} (p : α → Bool) (l : List α) (h : ∀ a ∈ l, p a = true) :
    l.dropWhile p = [] := by
  induction l with
  | nil => rfl
  | cons x xs ih => simp [h x (by simp), ih (fun a ha => h a (by simp [ha]))]

/-- with no failing lookups the result is literally `take max (filter eligible (stableSort events))` -/
theorem deposits_closed_form (cfg : DepCfg) (wallet : Nat) (events : List DepEvent)
    (hf : ∀ e ∈ events, depFound cfg e = true) :
    findDeposits cfg wallet events =
      (.ok, ((((sortBy (·.block) (chainDepEvents wallet events)).filter (depEligibleEv cfg)).map (depOf cfg)).take
        (capOf cfg.max (chainDepEvents wallet events).length))) := by
  rw [deposits_spec]
  have hall : ∀ e ∈ sortBy (·.block) (chainDepEvents wallet events), depFound cfg e = true := by
    intro e he
    have := (mem_sortBy _ _ e).1 he
    unfold chainDepEvents at this
    split at this
    · exact hf e this
    · exact hf e (List.mem_filter.1 this).1
  have h1 : (sortBy (·.block) (chainDepEvents wallet events)).takeWhile (depFound cfg) =
      sortBy (·.block) (chainDepEvents wallet events) := takeWhile_all _ _ hall
  have h2 : (sortBy (·.block) (chainDepEvents wallet events)).dropWhile (depFound cfg) = [] :=
    dropWhile_all _ _ hall
  have hlen : (sortBy (·.block) (chainDepEvents wallet events)).length = (chainDepEvents wallet events).length :=
    (sortBy_perm _ _).length_eq
  simp only [depSpec, depSpecOn, h1, h2, hlen]

private theorem depOf_ev (cfg : DepCfg) (e : DepEvent) : (depOf cfg e).ev = e := by
  unfold depOf; split <;> rfl

/-- every returned deposit stems from an eligible event of the requested wallet -/
private theorem depSpec_items (cfg : DepCfg) (wallet : Nat) (events : List DepEvent) :
    ∃ l : List DepEvent, (depSpec cfg wallet events).2 = l.map (depOf cfg) ∧
      l.Sublist (sortBy (·.block) (chainDepEvents wallet events)) ∧ ∀ e ∈ l, depEligibleEv cfg e = true := by
  let evs := sortBy (·.block) (chainDepEvents wallet events)
  let pre := (evs.takeWhile (depFound cfg)).filter (depEligibleEv cfg)
  have hsub : pre.Sublist evs := (List.filter_sublist).trans (List.takeWhile_sublist _)
  have hel : ∀ e ∈ pre, depEligibleEv cfg e = true := fun e he => (List.mem_filter.1 he).2
  have htake : ∀ n, ∃ l : List DepEvent, (pre.map (depOf cfg)).take n = l.map (depOf cfg) ∧ l.Sublist evs ∧
      ∀ e ∈ l, depEligibleEv cfg e = true := by
    intro n
    refine ⟨pre.take n, by simp [List.map_take], (List.take_sublist n pre).trans hsub, ?_⟩
    intro e he; exact hel e (List.mem_of_mem_take he)
  show ∃ l : List DepEvent, (depSpecOn cfg _ evs).2 = _ ∧ l.Sublist evs ∧ _
  unfold depSpecOn
  simp only
  split
  · exact htake _
  · split
    · exact htake _
    · split
      · exact ⟨pre, rfl, hsub, hel⟩
      · exact ⟨[], rfl, List.nil_sublist _, by simp⟩

/-- **C33 deposits, `deposits_in_reveal_order`**: the returned deposits are in non-decreasing reveal
    block order (oldest first). -/
theorem deposits_in_reveal_order (cfg : DepCfg) (wallet : Nat) (events : List DepEvent) :
    (findDeposits cfg wallet events).2.Pairwise (fun a b => a.ev.block ≤ b.ev.block) := by
  rw [deposits_spec]
  obtain ⟨l, h1, h2, _⟩ := depSpec_items cfg wallet events
  rw [h1, List.pairwise_map]
  have := (sortBy_sorted (fun e : DepEvent => e.block) (chainDepEvents wallet events)).sublist h2
  simpa [depOf_ev] using this

/-- **C33 deposits, `deposits_eligible`**: every returned deposit is a revealed event of the history,
    for the requested wallet (if one is given), with an existing request that is old enough, not
    swept (when `skipSwept`) and sufficiently confirmed (when `skipUnconfirmed`). -/
theorem deposits_eligible (cfg : DepCfg) (wallet : Nat) (events : List DepEvent) :
    ∀ d ∈ (findDeposits cfg wallet events).2,
      d.ev ∈ events ∧ (wallet ≠ 0 → d.ev.wallet = wallet) ∧
      ∃ r, cfg.req d.ev.tx d.ev.idx = .found r ∧ d = mkDeposit cfg d.ev r ∧
        r.revealedAt + cfg.minAge < cfg.now ∧
        (cfg.skipSwept = true → r.sweptAt = 0) ∧
        (cfg.skipUnconfirmed = true → requiredConf ≤ cfg.conf d.ev.tx) := by
  rw [deposits_spec]
  obtain ⟨l, h1, h2, h3⟩ := depSpec_items cfg wallet events
  rw [h1]
  intro d hd
  obtain ⟨e, he, rfl⟩ := List.mem_map.1 hd
  have hmem : e ∈ chainDepEvents wallet events := (mem_sortBy _ _ e).1 (h2.subset he)
  have hel := h3 e he
  rw [depOf_ev]
  refine ⟨?_, ?_, ?_⟩
  · unfold chainDepEvents at hmem
    split at hmem
    · exact hmem
    · exact (List.mem_filter.1 hmem).1
  · intro hw
    unfold chainDepEvents at hmem
    rw [if_neg hw] at hmem
    simpa using (List.mem_filter.1 hmem).2
  · unfold depEligibleEv at hel
    cases hreq : cfg.req e.tx e.idx with
    | err => simp [hreq] at hel
    | notFound => simp [hreq] at hel
    | found r =>
      simp only [hreq, depEligible, Bool.and_eq_true, decide_eq_true_eq, Bool.not_eq_true',
        Bool.and_eq_false_iff] at hel
      refine ⟨r, rfl, by simp [depOf, hreq], hel.1.1, ?_, ?_⟩
      · intro hs
        rcases hel.1.2 with h | h
        · simp [hs] at h
        · simpa using h
      · intro hu
        rcases hel.2 with h | h
        · simp [hu] at h
        · simpa [Nat.not_lt] using h

/-- **C33 `limit_respected` (deposits)**: a positive maximum is never exceeded. -/
theorem deposits_limit (cfg : DepCfg) (wallet : Nat) (events : List DepEvent) (hmax : cfg.max > 0) :
    ((findDeposits cfg wallet events).2.length : Int) ≤ cfg.max := by
  rw [deposits_spec]
  have hcap : ∀ n, capOf cfg.max n = cfg.max.toNat := by intro n; simp [capOf, hmax]
  have hle : (depSpec cfg wallet events).2.length ≤ cfg.max.toNat := by
    unfold depSpec depSpecOn
    simp only [hcap]
    split
    · simp [List.length_take]; omega
    · split
      · simp [List.length_take]; omega
      · rename_i hnot
        simp only [List.length_map] at hnot
        split
        · simp only [List.length_map]; omega
        · simp
  omega


/-! ## redemptions -/

private theorem collect_some (cfg : RedCfg) (ord : List Key) (ps : List Pending)
    (h : collect cfg ord = some ps) :
    ps = ord.filterMap (pendingOf cfg) ∧ ∀ k ∈ ord, cfg.pending k ≠ .err := by
  induction ord generalizing ps with
  | nil => simp [collect] at h; simp [h]
  | cons k ks ih =>
    unfold collect at h
    cases hp : cfg.pending k with
    | err => simp [hp] at h
    | notFound =>
      simp only [hp] at h
      obtain ⟨a, b⟩ := ih ps h
      refine ⟨by simp [List.filterMap_cons, pendingOf, hp, a], ?_⟩
      intro k' hk'
      simp only [List.mem_cons] at hk'
      rcases hk' with rfl | hk'
      · simp [hp]
      · exact b k' hk'
    | found t =>
      simp only [hp] at h
      cases hc : collect cfg ks with
      | none => simp [hc] at h
      | some r =>
        simp only [hc, Option.map_some, Option.some.injEq] at h
        obtain ⟨a, b⟩ := ih r hc
        refine ⟨by simp [List.filterMap_cons, pendingOf, hp, ← h, a], ?_⟩
        intro k' hk'
        simp only [List.mem_cons] at hk'
        rcases hk' with rfl | hk'
        · simp [hp]
        · exact b k' hk'

private theorem collect_none (cfg : RedCfg) (ord : List Key) (h : collect cfg ord = none) :
    ∃ k ∈ ord, cfg.pending k = .err := by
  induction ord with
  | nil => simp [collect] at h
  | cons k ks ih =>
    unfold collect at h
    cases hp : cfg.pending k with
    | err => exact ⟨k, by simp, hp⟩
    | notFound =>
      simp only [hp] at h
      obtain ⟨k', a, b⟩ := ih h
      exact ⟨k', by simp [a], b⟩
    | found t =>
      simp only [hp] at h
      cases hc : collect cfg ks with
      | none =>
        obtain ⟨k', a, b⟩ := ih hc
        exact ⟨k', by simp [a], b⟩
      | some r => simp [hc] at h

private theorem mem_filterMap_pendingOf (cfg : RedCfg) (ord : List Key) (p : Pending) :
    p ∈ ord.filterMap (pendingOf cfg) ↔ p.key ∈ ord ∧ cfg.pending p.key = .found p.requestedAt := by
  simp only [List.mem_filterMap, pendingOf]
  constructor
  · rintro ⟨k, hk, h⟩
    cases hp : cfg.pending k with
    | err => simp [hp] at h
    | notFound => simp [hp] at h
    | found t =>
      simp only [hp, Option.some.injEq] at h
      subst h
      exact ⟨hk, hp⟩
  · rintro ⟨hk, h⟩
    exact ⟨p.key, hk, by simp [h]⟩

private theorem keys_filterMap_sublist (cfg : RedCfg) (ord : List Key) :
    ((ord.filterMap (pendingOf cfg)).map (·.key)).Sublist ord := by
  induction ord with
  | nil => simp
  | cons k ks ih =>
    rw [List.filterMap_cons]
    cases hp : cfg.pending k with
    | err => simp only [pendingOf, hp]; exact ih.cons k
    | notFound => simp only [pendingOf, hp]; exact ih.cons k
    | found t => simp only [pendingOf, hp, List.map_cons]; exact ih.cons₂ k

private theorem inWindow_iff (cfg : RedCfg) (p : Pending) :
    inWindow cfg p = true ↔ ∃ d, cfg.delay p.key = some d ∧ timedOut cfg p = false ∧ tooYoung cfg p d = false := by
  unfold inWindow
  cases hd : cfg.delay p.key with
  | none => simp
  | some d => simp

/-- invariant of the selection loop for an `ok` outcome -/
private theorem selectLoop_ok (cfg : RedCfg) (cap : Nat) (ps acc r : List Pending)
    (hacc : acc.length ≤ cap) (h : selectLoop cfg cap ps acc = (.ok, r)) :
    ∃ sel, r = acc ++ sel ∧ sel.Sublist ps ∧ (∀ p ∈ sel, inWindow cfg p = true) ∧ r.length ≤ cap ∧
      ∀ e ∈ ps, inWindow cfg e = true → e ∉ sel →
        r.length = cap ∧
        (ps.Pairwise (fun a b => a.requestedAt ≤ b.requestedAt) → ∀ q ∈ sel, q.requestedAt ≤ e.requestedAt) := by
  induction ps generalizing acc with
  | nil =>
    simp only [selectLoop, Prod.mk.injEq, true_and] at h
    subst h
    exact ⟨[], by simp, List.Sublist.refl _, by simp, hacc, by simp⟩
  | cons p ps ih =>
    unfold selectLoop at h
    by_cases hfull : acc.length = cap
    · simp only [hfull, if_true, Prod.mk.injEq, true_and] at h
      subst h
      exact ⟨[], by simp, List.nil_sublist _, by simp, hacc, fun e _ _ _ => ⟨hfull, by simp⟩⟩
    · simp only [hfull, if_false] at h
      -- the two "skip" cases share this continuation
      have skip : inWindow cfg p = false → selectLoop cfg cap ps acc = (.ok, r) →
          ∃ sel, r = acc ++ sel ∧ sel.Sublist (p :: ps) ∧ (∀ q ∈ sel, inWindow cfg q = true) ∧ r.length ≤ cap ∧
            ∀ e ∈ p :: ps, inWindow cfg e = true → e ∉ sel →
              r.length = cap ∧
              ((p :: ps).Pairwise (fun a b => a.requestedAt ≤ b.requestedAt) →
                ∀ q ∈ sel, q.requestedAt ≤ e.requestedAt) := by
        intro hnw h
        obtain ⟨sel, a, b, c, d, e⟩ := ih acc hacc h
        refine ⟨sel, a, b.cons p, c, d, ?_⟩
        intro x hx hxw hxs
        simp only [List.mem_cons] at hx
        rcases hx with rfl | hx
        · rw [hnw] at hxw; cases hxw
        · obtain ⟨f, g⟩ := e x hx hxw hxs
          exact ⟨f, fun hp => g (List.pairwise_cons.1 hp).2⟩
      by_cases hto : timedOut cfg p = true
      · simp only [hto, if_true] at h
        refine skip ?_ h
        cases hw : inWindow cfg p with
        | false => rfl
        | true =>
          obtain ⟨d, _, h2, _⟩ := (inWindow_iff cfg p).1 hw
          rw [hto] at h2; cases h2
      · simp only [hto, Bool.false_eq_true, if_false] at h
        cases hd : cfg.delay p.key with
        | none => simp [hd] at h
        | some d =>
          simp only [hd] at h
          by_cases hty : tooYoung cfg p d = true
          · simp only [hty, if_true] at h
            refine skip ?_ h
            cases hw : inWindow cfg p with
            | false => rfl
            | true =>
              obtain ⟨d', h1, _, h3⟩ := (inWindow_iff cfg p).1 hw
              rw [hd] at h1; cases h1
              rw [hty] at h3; cases h3
          · simp only [hty, Bool.false_eq_true, if_false] at h
            obtain ⟨sel, a, b, c, dd, e⟩ := ih (acc ++ [p]) (by simp; omega) h
            have hpw : inWindow cfg p = true :=
              (inWindow_iff cfg p).2 ⟨d, hd, by simpa using hto, by simpa using hty⟩
            refine ⟨p :: sel, by simp [a], b.cons₂ p, ?_, dd, ?_⟩
            · intro q hq
              simp only [List.mem_cons] at hq
              rcases hq with rfl | hq
              · exact hpw
              · exact c q hq
            · intro x hx hxw hxs
              simp only [List.mem_cons, not_or] at hx hxs
              rcases hx with rfl | hx
              · exact absurd rfl hxs.1
              · obtain ⟨f, g⟩ := e x hx hxw hxs.2
                refine ⟨f, ?_⟩
                intro hp q hq
                rw [List.pairwise_cons] at hp
                simp only [List.mem_cons] at hq
                rcases hq with rfl | hq
                · exact hp.1 x hx
                · exact g hp.2 q hq

private theorem selectLoop_status (cfg : RedCfg) (cap : Nat) (ps acc : List Pending) :
    (∃ r, selectLoop cfg cap ps acc = (.ok, r)) ∨
    (selectLoop cfg cap ps acc = (.errDelay, []) ∧ ∃ p ∈ ps, cfg.delay p.key = none) := by
  induction ps generalizing acc with
  | nil => exact Or.inl ⟨acc, rfl⟩
  | cons p ps ih =>
    unfold selectLoop
    by_cases hfull : acc.length = cap
    · simp [hfull]
    · simp only [hfull, if_false]
      have lift : ∀ acc', ((∃ r, selectLoop cfg cap ps acc' = (.ok, r)) ∨
          (selectLoop cfg cap ps acc' = (.errDelay, []) ∧ ∃ p ∈ ps, cfg.delay p.key = none)) →
          ((∃ r, selectLoop cfg cap ps acc' = (.ok, r)) ∨
          (selectLoop cfg cap ps acc' = (.errDelay, []) ∧ ∃ q ∈ p :: ps, cfg.delay q.key = none)) := by
        intro acc' h
        rcases h with h | ⟨h, q, hq, hd⟩
        · exact Or.inl h
        · exact Or.inr ⟨h, q, by simp [hq], hd⟩
      by_cases hto : timedOut cfg p = true
      · simp only [hto, if_true]; exact lift acc (ih acc)
      · simp only [hto, Bool.false_eq_true, if_false]
        cases hd : cfg.delay p.key with
        | none => exact Or.inr ⟨rfl, p, by simp, hd⟩
        | some d =>
          simp only
          by_cases hty : tooYoung cfg p d = true
          · simp only [hty, if_true]; exact lift acc (ih acc)
          · simp only [hty, Bool.false_eq_true, if_false]; exact lift _ (ih _)

/-- what an `ok` result of `findPendingRedemptions` looks like, for every map order `ord` -/
private theorem red_ok (cfg : RedCfg) (ord : List Key) (r : List Pending)
    (h : findPendingRedemptions cfg ord = (.ok, r)) :
    (∀ k ∈ ord, cfg.pending k ≠ .err) ∧
    r.Sublist (sortBy (·.requestedAt) (ord.filterMap (pendingOf cfg))) ∧
    (∀ p ∈ r, inWindow cfg p = true) ∧
    (cfg.limit > 0 → r.length ≤ cfg.limit) ∧
    ∀ e ∈ ord.filterMap (pendingOf cfg), inWindow cfg e = true → e ∉ r →
      (cfg.limit > 0 ∧ r.length = cfg.limit ∧ ∀ q ∈ r, q.requestedAt ≤ e.requestedAt) := by
  unfold findPendingRedemptions at h
  cases hc : collect cfg ord with
  | none => simp [hc] at h
  | some ps =>
    simp only [hc] at h
    obtain ⟨hps, hne⟩ := collect_some cfg ord ps hc
    subst hps
    obtain ⟨sel, a, b, c, d, e⟩ := selectLoop_ok cfg _ _ [] r (Nat.zero_le _) h
    simp only [List.nil_append] at a
    subst a
    refine ⟨hne, b, c, ?_, ?_⟩
    · intro hl; simpa [hl] using d
    · intro x hx hxw hxs
      have hx' : x ∈ sortBy (·.requestedAt) (ord.filterMap (pendingOf cfg)) := (mem_sortBy _ _ x).2 hx
      obtain ⟨f, g⟩ := e x hx' hxw hxs
      have g' := g (sortBy_sorted _ _)
      by_cases hl : cfg.limit > 0
      · exact ⟨hl, by simpa [hl] using f, g'⟩
      · -- unlimited: the result has as many entries as there are pending requests, so nothing is left out
        exfalso
        simp only [hl, if_false] at f
        have hlen : r.length = (sortBy (·.requestedAt) (ord.filterMap (pendingOf cfg))).length := by
          rw [f, (sortBy_perm _ _).length_eq]
        have := b.eq_of_length hlen
        exact hxs (this ▸ hx')

/-- **C33 `redemptions_age_window`**: every proposed redemption is a *pending* request of a key of
    the wallet's event set, and its age lies in `[max(minAge, delay), timeout]`. For every map order. -/
theorem redemptions_age_window (cfg : RedCfg) (ord : List Key) (r : List Pending)
    (h : findPendingRedemptions cfg ord = (.ok, r)) :
    ∀ p ∈ r, p.key ∈ ord ∧ cfg.pending p.key = .found p.requestedAt ∧
      ∃ d, cfg.delay p.key = some d ∧ cfg.now ≤ p.requestedAt + cfg.timeout ∧
        p.requestedAt + (if d > cfg.minAge then d else cfg.minAge) ≤ cfg.now := by
  obtain ⟨_, hsub, hw, _, _⟩ := red_ok cfg ord r h
  intro p hp
  have hm := (mem_sortBy _ _ p).1 (hsub.subset hp)
  obtain ⟨hk, hpk⟩ := (mem_filterMap_pendingOf cfg ord p).1 hm
  obtain ⟨d, hd, hto, hty⟩ := (inWindow_iff cfg p).1 (hw p hp)
  refine ⟨hk, hpk, d, hd, ?_, ?_⟩
  · simpa [timedOut, Nat.not_lt] using hto
  · simpa [tooYoung, effMinAge, Nat.not_lt] using hty

/-- **C33 `redemptions_one_per_key`**: at most one proposed redemption per redemption key. -/
theorem redemptions_one_per_key (cfg : RedCfg) (ord : List Key) (hord : ord.Nodup) (r : List Pending)
    (h : findPendingRedemptions cfg ord = (.ok, r)) : (r.map (·.key)).Nodup := by
  obtain ⟨_, hsub, _, _, _⟩ := red_ok cfg ord r h
  have h1 : ((ord.filterMap (pendingOf cfg)).map (·.key)).Nodup := hord.sublist (keys_filterMap_sublist cfg ord)
  have h2 : ((sortBy (·.requestedAt) (ord.filterMap (pendingOf cfg))).map (·.key)).Nodup :=
    ((sortBy_perm _ _).map _).nodup_iff.2 h1
  exact h2.sublist (hsub.map _)

/-- **C33 `redemptions_oldest_first`**: the proposed redemptions are ordered oldest first, for every
    iteration order of the Go map (ties may come in any order). -/
theorem redemptions_oldest_first (cfg : RedCfg) (ord : List Key) (r : List Pending)
    (h : findPendingRedemptions cfg ord = (.ok, r)) :
    r.Pairwise (fun a b => a.requestedAt ≤ b.requestedAt) := by
  obtain ⟨_, hsub, _, _, _⟩ := red_ok cfg ord r h
  exact (sortBy_sorted (fun p : Pending => p.requestedAt) _).sublist hsub

/-- **C33 `limit_respected` (redemptions)** -/
theorem redemptions_limit (cfg : RedCfg) (ord : List Key) (r : List Pending)
    (h : findPendingRedemptions cfg ord = (.ok, r)) (hl : cfg.limit > 0) : r.length ≤ cfg.limit :=
  (red_ok cfg ord r h).2.2.2.1 hl

/-- **C33 redemptions, exactness**: an eligible pending request (key in the event set, pending, in
    the age window) is left out only if the limit is reached, and then every selected request is
    at least as old. So the selection is exactly "the oldest eligible ones, up to the limit". -/
theorem redemptions_complete (cfg : RedCfg) (ord : List Key) (r : List Pending)
    (h : findPendingRedemptions cfg ord = (.ok, r)) (k : Key) (t : Nat) (hk : k ∈ ord)
    (hp : cfg.pending k = .found t) (hw : inWindow cfg ⟨k, t⟩ = true) (hout : (⟨k, t⟩ : Pending) ∉ r) :
    cfg.limit > 0 ∧ r.length = cfg.limit ∧ ∀ q ∈ r, q.requestedAt ≤ t := by
  have hm : (⟨k, t⟩ : Pending) ∈ ord.filterMap (pendingOf cfg) :=
    (mem_filterMap_pendingOf cfg ord ⟨k, t⟩).2 ⟨hk, hp⟩
  exact (red_ok cfg ord r h).2.2.2.2 ⟨k, t⟩ hm hw hout

/-- errors are only reported when a lookup can really fail; the result is then empty -/
theorem redemptions_error_sound (cfg : RedCfg) (ord : List Key) :
    (∃ r, findPendingRedemptions cfg ord = (.ok, r)) ∨
    (findPendingRedemptions cfg ord = (.errPending, []) ∧ ∃ k ∈ ord, cfg.pending k = .err) ∨
    (findPendingRedemptions cfg ord = (.errDelay, []) ∧ (∀ k ∈ ord, cfg.pending k ≠ .err) ∧
      ∃ k ∈ ord, (pendingOf cfg k).isSome = true ∧ cfg.delay k = none) := by
  unfold findPendingRedemptions
  cases hc : collect cfg ord with
  | none => exact Or.inr (Or.inl ⟨rfl, collect_none cfg ord hc⟩)
  | some ps =>
    simp only
    obtain ⟨hps, hne⟩ := collect_some cfg ord ps hc
    rcases selectLoop_status cfg (if cfg.limit > 0 then cfg.limit else ps.length)
        (sortBy (·.requestedAt) ps) [] with h | ⟨h, p, hp, hd⟩
    · exact Or.inl h
    · refine Or.inr (Or.inr ⟨h, hne, p.key, ?_, ?_, hd⟩)
      · have := (mem_sortBy _ _ p).1 hp
        rw [hps] at this
        exact ((mem_filterMap_pendingOf cfg ord p).1 this).1
      · have := (mem_sortBy _ _ p).1 hp
        rw [hps] at this
        simp [pendingOf, ((mem_filterMap_pendingOf cfg ord p).1 this).2]

/-- The monitor `holdsRed` accepts the model's output for every iteration order `ord` of the
    event-set keys (`ord` duplicate-free, as map keys are). -/
theorem holdsRed_model (cfg : RedCfg) (ord : List Key) (hord : ord.Nodup) :
    holdsRed cfg ord (findPendingRedemptions cfg ord) = true := by
  rcases redemptions_error_sound cfg ord with ⟨r, h⟩ | ⟨h, k, hk, he⟩ | ⟨h, hne, k, hk, hs, hd⟩
  · obtain ⟨hne, hsub, hw, hl, hc⟩ := red_ok cfg ord r h
    have h1 := redemptions_one_per_key cfg ord hord r h
    have h2 := redemptions_oldest_first cfg ord r h
    have h3 := redemptions_age_window cfg ord r h
    rw [h]
    simp only [holdsRed, Bool.and_eq_true, Bool.not_eq_true', List.any_eq_false, beq_iff_eq,
      decide_eq_true_eq, List.all_eq_true, List.contains_iff_mem, Bool.or_eq_true, List.mem_filter,
      bne_iff_ne, ne_eq, and_imp]
    refine ⟨⟨⟨⟨⟨?_, h1⟩, ?_⟩, h2⟩, ?_⟩, ?_⟩
    · intro k hk; exact hne k hk
    · intro p hp
      exact ⟨⟨(h3 p hp).1, (h3 p hp).2.1⟩, hw p hp⟩
    · by_cases hz : cfg.limit = 0
      · exact Or.inl hz
      · exact Or.inr (hl (by omega))
    · intro e he hew
      by_cases hin : e ∈ r
      · exact Or.inl hin
      · obtain ⟨a, b, c⟩ := hc e he hew hin
        exact Or.inr ⟨⟨by omega, by omega⟩, c⟩
  · rw [h]
    simp only [holdsRed, Bool.and_eq_true, List.any_eq_true, beq_iff_eq, List.isEmpty_nil, and_true]
    exact ⟨k, hk, he⟩
  · rw [h]
    simp only [holdsRed, Bool.and_eq_true, Bool.not_eq_true', List.any_eq_false, beq_iff_eq,
      List.any_eq_true, List.isEmpty_nil, and_true]
    exact ⟨fun k hk => hne k hk, k, hk, hs, hd⟩

/-- `eraseDups` has no duplicates (not in core 4.33) -/
theorem nodup_eraseDups {α} [DecidableEq α] (l : List α) : l.eraseDups.Nodup := by
  suffices h : ∀ n (l : List α), l.length ≤ n → l.eraseDups.Nodup from h _ l (Nat.le_refl _)
  intro n
  induction n with
  | zero =>
    intro l h
    have : l = [] := List.eq_nil_of_length_eq_zero (by omega)
    subst this; simp
  | succ n ih =>
    intro l h
    cases l with
    | nil => simp
    | cons a as =>
      rw [List.eraseDups_cons, List.nodup_cons]
      refine ⟨?_, ih _ ?_⟩
      · intro hm
        have := List.mem_eraseDups.1 hm
        simp at this
      · have := List.length_filter_le (fun b => !b == a) as
        simp only [List.length_cons] at h
        omega

/-- the keys of the Go map `eventsSet` are pairwise distinct -/
theorem mapKeys_nodup (events : List RedEvent) : (mapKeys events).Nodup := nodup_eraseDups _

/-- the monitor does not depend on the order in which the event-set keys are listed -/
theorem holdsRed_perm (cfg : RedCfg) (keys keys' : List Key) (h : keys.Perm keys')
    (res : RedStatus × List Pending) : holdsRed cfg keys res = holdsRed cfg keys' res := by
  unfold holdsRed
  have h1 : ∀ p : Key → Bool, keys.any p = keys'.any p := fun p => h.any_eq
  have h2 : ∀ k : Key, keys.contains k = keys'.contains k := fun k => h.contains_eq
  have h3 : ∀ p : Pending → Bool,
      ((keys.filterMap (pendingOf cfg)).filter (inWindow cfg)).all p =
      ((keys'.filterMap (pendingOf cfg)).filter (inWindow cfg)).all p :=
    fun p => ((h.filterMap _).filter _).all_eq
  simp only [h1, h2, h3]

/-- **The monitor accepts the model for EVERY iteration order of the Go map**: whatever
    permutation `ord` of the event-set keys the real map iteration produces, the model's result for
    that order satisfies `holdsRed` as the driver evaluates it (on `mapKeys events`). No side
    hypothesis: `mapKeys` is duplicate-free. -/
theorem holdsRed_model_any_order (cfg : RedCfg) (events : List RedEvent) (ord : List Key)
    (h : ord.Perm (mapKeys events)) :
    holdsRed cfg (mapKeys events) (findPendingRedemptions cfg ord) = true := by
  rw [← holdsRed_perm cfg ord (mapKeys events) h]
  exact holdsRed_model cfg ord (h.nodup_iff.2 (mapKeys_nodup events))

/-! ## proposal generator -/

/-- **C33 `generate_spec`**: `Generate` computes exactly `genSpec` — result and run log. -/
theorem generate_spec (tasks : List Task) (checklist : List Nat) :
    generate tasks checklist = genSpec tasks checklist := by
  induction checklist with
  | nil => simp [generate, genSpec]
  | cons a as ih =>
    unfold generate
    cases hidx : indexOf a 0 tasks with
    | none =>
      simp only [ih]
      simp [genSpec, List.filterMap_cons, hidx]
    | some it =>
      obtain ⟨i, t⟩ := it
      simp only
      cases ho : t.outcome with
      | error => simp [genSpec, List.filterMap_cons, hidx, ho]
      | proposal => simp [genSpec, List.filterMap_cons, hidx, ho]
      | empty =>
        simp only [ih]
        simp only [genSpec, List.filterMap_cons, hidx, List.takeWhile_cons, List.dropWhile_cons, ho,
          beq_self_eq_true, if_true, List.map_cons]
        split <;> simp

/-- a checklist entry is *passed over* if no task has its action type or its task yields nothing -/
def PassedOver (tasks : List Task) (a : Nat) : Prop :=
  indexOf a 0 tasks = none ∨ ∃ i t, indexOf a 0 tasks = some (i, t) ∧ t.outcome = .empty

/-- **C33 `generate_first_success`**: the proposal returned is the one of the first checklist action
    whose task yields a proposal, when every earlier action is unsupported or yields nothing. -/
theorem generate_first_success (tasks : List Task) (pre post : List Nat) (a i : Nat) (t : Task)
    (hpre : ∀ b ∈ pre, PassedOver tasks b) (ha : indexOf a 0 tasks = some (i, t))
    (ht : t.outcome = .proposal) :
    (generate tasks (pre ++ a :: post)).1 = .proposal i := by
  induction pre with
  | nil => simp [generate, ha, ht]
  | cons b bs ih =>
    have hb := hpre b (by simp)
    have ih' := ih (fun c hc => hpre c (by simp [hc]))
    simp only [List.cons_append]
    unfold generate
    rcases hb with hb | ⟨j, u, hb, hu⟩
    · simp [hb, ih']
    · simp [hb, hu, ih']

/-- …an error of the first non-empty task aborts the generation (no later task is consulted) -/
theorem generate_first_error (tasks : List Task) (pre post : List Nat) (a i : Nat) (t : Task)
    (hpre : ∀ b ∈ pre, PassedOver tasks b) (ha : indexOf a 0 tasks = some (i, t))
    (ht : t.outcome = .error) :
    (generate tasks (pre ++ a :: post)).1 = .error i := by
  induction pre with
  | nil => simp [generate, ha, ht]
  | cons b bs ih =>
    have hb := hpre b (by simp)
    have ih' := ih (fun c hc => hpre c (by simp [hc]))
    simp only [List.cons_append]
    unfold generate
    rcases hb with hb | ⟨j, u, hb, hu⟩
    · simp [hb, ih']
    · simp [hb, hu, ih']

/-- …and no-op exactly when every checklist action is passed over -/
theorem generate_noop (tasks : List Task) (checklist : List Nat)
    (h : ∀ b ∈ checklist, PassedOver tasks b) : (generate tasks checklist).1 = .noop := by
  induction checklist with
  | nil => simp [generate]
  | cons b bs ih =>
    have hb := h b (by simp)
    have ih' := ih (fun c hc => h c (by simp [hc]))
    unfold generate
    rcases hb with hb | ⟨j, u, hb, hu⟩
    · simp [hb, ih']
    · simp [hb, hu, ih']

/-! ## the real tasks inside `Generate` -/

/-- the generator over the real discovery tasks is `genSpec` over their outcomes -/
theorem full_generate_spec (d : DepStatus × List Deposit) (r : RedStatus × List Pending) (cl : List Nat) :
    generate (fullTasks d r) cl = genSpec (fullTasks d r) cl := generate_spec _ _

/-- deposits to sweep win over redemptions when the sweep is first on the checklist -/
theorem full_sweep_first (d : DepStatus × List Deposit) (r : RedStatus × List Pending) (rest : List Nat)
    (hd : sweepOutcome d = .proposal) : (generate (fullTasks d r) (2 :: rest)).1 = .proposal 0 := by
  simp [generate, fullTasks, indexOf, hd]

/-- nothing to sweep: the redemption task decides -/
theorem full_redemption_fallthrough (d : DepStatus × List Deposit) (r : RedStatus × List Pending)
    (hd : sweepOutcome d = .empty) (hr : redOutcome r = .proposal) :
    (generate (fullTasks d r) [2, 3]).1 = .proposal 1 := by
  simp [generate, fullTasks, indexOf, hd, hr]

/-- a discovery error of the first consulted task is the generator's error -/
theorem full_sweep_error (d : DepStatus × List Deposit) (r : RedStatus × List Pending) (rest : List Nat)
    (hd : d.1 ≠ .ok) : (generate (fullTasks d r) (2 :: rest)).1 = .error 0 := by
  have : sweepOutcome d = .error := by simp [sweepOutcome, hd]
  simp [generate, fullTasks, indexOf, this]

/-! ## monitors accept the model -/

theorem holdsDep_model (cfg : DepCfg) (wallet : Nat) (events : List DepEvent) :
    holdsDep cfg wallet events (findDeposits cfg wallet events) = true := by
  simp [holdsDep, deposits_spec]

theorem holdsGen_model (tasks : List Task) (checklist : List Nat) :
    holdsGen tasks checklist (generate tasks checklist) = true := by
  simp [holdsGen, generate_spec]


/-! ## non-vacuity: concrete runs of the models and monitors -/

private def exDep : DepCfg :=
  { now := 100000, minAge := 3600, max := 2, skipSwept := true, skipUnconfirmed := true,
    req := fun t _ => match t with
      | 1 => .found ⟨90000, 0⟩      -- old enough
      | 2 => .found ⟨99000, 0⟩      -- too young
      | 3 => .found ⟨90000, 777⟩    -- swept
      | 4 => .found ⟨90000, 0⟩
      | 5 => .found ⟨90000, 0⟩
      | 6 => .err
      | _ => .notFound,
    conf := fun t => if t = 4 then 5 else 6 }

-- out-of-order blocks, a tie at block 7 (tx 5 before tx 1 in chain order), a foreign wallet event
example : findDeposits exDep 1 [⟨9, 1, 4, 0⟩, ⟨7, 1, 5, 0⟩, ⟨7, 1, 1, 0⟩, ⟨3, 1, 2, 0⟩, ⟨1, 2, 1, 1⟩, ⟨5, 1, 3, 0⟩, ⟨8, 1, 1, 1⟩]
    = (.ok, [⟨⟨7, 1, 5, 0⟩, false, 6⟩, ⟨⟨7, 1, 1, 0⟩, false, 6⟩]) := by decide
-- a failing lookup after the result is full is never reached; before it is
example : (findDeposits exDep 1 [⟨1, 1, 1, 0⟩, ⟨2, 1, 5, 0⟩, ⟨3, 1, 6, 0⟩]).1 = .ok := by decide
example : findDeposits exDep 1 [⟨1, 1, 1, 0⟩, ⟨2, 1, 6, 0⟩, ⟨3, 1, 5, 0⟩] = (.errRequest, [⟨⟨1, 1, 1, 0⟩, false, 6⟩]) := by
  decide
example : holdsDep exDep 1 [⟨9, 1, 5, 0⟩, ⟨7, 1, 1, 0⟩] (.ok, [⟨⟨9, 1, 5, 0⟩, false, 6⟩, ⟨⟨7, 1, 1, 0⟩, false, 6⟩]) = false := by
  decide

private def exRed : RedCfg :=
  { now := 1000000, timeout := 100000, minAge := 1000, limit := 2,
    pending := fun k => match k.script with
      | 1 => .found 950000 | 2 => .found 910000 | 3 => .found 899000   -- 3 timed out
      | 4 => .found 999500 | 5 => .found 990000 | 6 => .notFound | _ => .found 960000,
    delay := fun k => if k.script = 5 then some 20000 else some 0 }          -- 5 delayed: too young

example : findPendingRedemptions exRed [⟨1, 1⟩, ⟨1, 2⟩, ⟨1, 3⟩, ⟨1, 4⟩, ⟨1, 5⟩, ⟨1, 6⟩, ⟨1, 7⟩]
    = (.ok, [⟨⟨1, 2⟩, 910000⟩, ⟨⟨1, 1⟩, 950000⟩]) := by decide
example : findPendingRedemptions exRed [⟨1, 7⟩, ⟨1, 6⟩, ⟨1, 5⟩, ⟨1, 4⟩, ⟨1, 3⟩, ⟨1, 2⟩, ⟨1, 1⟩]
    = (.ok, [⟨⟨1, 2⟩, 910000⟩, ⟨⟨1, 1⟩, 950000⟩]) := by decide
-- the monitor rejects: a younger request instead of an older eligible one; a timed-out one; a duplicate
example : holdsRed exRed [⟨1, 1⟩, ⟨1, 2⟩, ⟨1, 7⟩] (.ok, [⟨⟨1, 1⟩, 950000⟩, ⟨⟨1, 7⟩, 960000⟩]) = false := by decide
example : holdsRed exRed [⟨1, 1⟩, ⟨1, 3⟩] (.ok, [⟨⟨1, 3⟩, 899000⟩, ⟨⟨1, 1⟩, 950000⟩]) = false := by decide
example : holdsRed exRed [⟨1, 1⟩] (.ok, [⟨⟨1, 1⟩, 950000⟩, ⟨⟨1, 1⟩, 950000⟩]) = false := by decide
example : holdsRed exRed [⟨1, 1⟩, ⟨1, 2⟩] (.ok, [⟨⟨1, 1⟩, 950000⟩, ⟨⟨1, 2⟩, 910000⟩]) = false := by decide

example : generate [⟨3, .empty⟩, ⟨2, .proposal⟩, ⟨2, .error⟩] [7, 3, 2, 3] = (.proposal 1, [0, 1]) := by decide
example : generate [⟨3, .empty⟩, ⟨2, .error⟩] [3, 2, 3] = (.error 1, [0, 1]) := by decide
example : generate [⟨3, .empty⟩] [3, 5] = (.noop, [0]) := by decide

end KeepVerif.C33
