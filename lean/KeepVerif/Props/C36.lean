import KeepVerif.Model.C36
/-!
# C36 — Heartbeat failures escalate to an inactivity claim only after repeated failures

Theorems over `Model/C36.lean`, for every history of heartbeat outcomes over any number of wallets.
-/
namespace KeepVerif.C36

/-- T1 tie: the property text says "at least three" and the tests assume 70 of 100. -/
theorem thresholds_tie : threshold = 3 ∧ minActive = 70 := by decide

def zero : Counters := fun _ => 0

theorem rev_induction {α} {P : List α → Prop} (nil : P [])
    (snoc : ∀ l a, P l → P (l ++ [a])) : ∀ l, P l := by
  intro l
  have : ∀ r : List α, P r.reverse := by
    intro r
    induction r with
    | nil => exact nil
    | cons a r ih => rw [List.reverse_cons]; exact snoc _ _ ih
  simpa using this l.reverse

theorem finalFrom_append (c : Counters) (h : List (Nat × Outcome)) (w : Nat) (o : Outcome) :
    finalFrom c (h ++ [(w, o)]) = (step (finalFrom c h) w o).counters := by
  induction h generalizing c with
  | nil => rfl
  | cons p rest ih => obtain ⟨w', o'⟩ := p; simp only [List.cons_append, finalFrom]; exact ih _

theorem lowRun_snoc (w : Nat) (h : List (Nat × Outcome)) (w' : Nat) (o : Outcome) :
    lowRun w (h ++ [(w', o)]) =
      if w' ≠ w then lowRun w h
      else if isLow o then lowRun w h + 1
      else if isSuccess o then 0 else lowRun w h := by
  simp [lowRun, lowRunRev]

/-- the counter of a wallet after a step, in terms of the counter before -/
theorem step_counter (c : Counters) (w' : Nat) (o : Outcome) (w : Nat) :
    (step c w' o).counters w =
      if w' ≠ w then c w
      else if isLow o then c w + 1
      else if isSuccess o then 0 else c w := by
  cases o with
  | signed a i f =>
    simp only [step, isLow, isSuccess]
    by_cases ha : a ≥ minActive
    · have : ¬ a < minActive := by omega
      by_cases hw : w' = w <;> simp [ha, this, hw, Counters.set]
      intro h; exact absurd h.symm hw
    · have hl : a < minActive := by omega
      simp only [ha, if_false]
      by_cases hw : w' = w
      · subst hw; (repeat' split) <;> simp_all [Counters.set]
      · have hw2 : ¬ w = w' := fun h => hw h.symm
        (repeat' split) <;> simp_all [Counters.set]
  | _ => simp [step, isLow, isSuccess]

/-- **counter_eq_lowRun**: after any history on a fresh counter, the counter of every wallet is
    the length of that wallet's current run of consecutive low heartbeats (a success resets it;
    errors, unstaking, invalid proposals and other wallets neither count nor reset). -/
theorem counter_eq_lowRun (h : List (Nat × Outcome)) (w : Nat) :
    finalFrom zero h w = lowRun w h := by
  induction h using rev_induction with
  | nil => simp [finalFrom, zero, lowRun, lowRunRev]
  | snoc h p ih =>
    obtain ⟨w', o⟩ := p
    rw [finalFrom_append, step_counter, lowRun_snoc, ih]

/-- **claim_iff**: the claim made (or not) by the heartbeat that follows history `h` is exactly
    the expected one: a claim iff this heartbeat is low, completes a run of at least `threshold`
    low heartbeats of this wallet, and the report names at least one inactive member; the claim
    carries exactly `activityReport.inactiveMembers` and `heartbeatFailed = true`. -/
theorem claim_iff (h : List (Nat × Outcome)) (w : Nat) (o : Outcome) :
    (step (finalFrom zero h) w o).claim = expectedClaim h w o := by
  have hc := counter_eq_lowRun h w
  have hs := lowRun_snoc w h w o
  cases o with
  | signed a i f =>
    simp only [expectedClaim, isLow, isSuccess, inactiveOf, step] at *
    by_cases ha : a ≥ minActive
    · have : ¬ a < minActive := by omega
      simp [ha, this]
    · have hl : a < minActive := by omega
      simp only [ha, hl, if_false, decide_true, Bool.true_and, ne_eq, not_true_eq_false,
        if_true] at hs ⊢
      rw [hs]
      simp only [Counters.set, if_true, hc]
      by_cases h3 : lowRun w h + 1 < threshold
      · have : ¬ lowRun w h + 1 ≥ threshold := by omega
        simp [h3, this]
      · have : lowRun w h + 1 ≥ threshold := by omega
        cases hi : i.isEmpty <;> simp [h3, this]
  | _ => simp [expectedClaim, isLow, step]

/-- **claim_only_on_low**: a claim is made only by a heartbeat whose signing succeeded with fewer
    active members than required, which completes a run of at least three such outcomes; it names
    exactly the members of the activity report's inactive list and is marked heartbeat-failed. -/
theorem claim_only_on_low (h : List (Nat × Outcome)) (w : Nat) (o : Outcome) (cl : Claim)
    (hcl : (step (finalFrom zero h) w o).claim = some cl) :
    isLow o = true ∧ lowRun w (h ++ [(w, o)]) ≥ 3 ∧ cl = (inactiveOf o, true) ∧
      inactiveOf o ≠ [] := by
  rw [claim_iff] at hcl
  unfold expectedClaim at hcl
  split at hcl
  · rename_i hh
    simp only [Bool.and_eq_true, decide_eq_true_eq, Bool.not_eq_true', List.isEmpty_eq_false_iff] at hh
    have := thresholds_tie.1
    refine ⟨hh.1.1, by omega, ?_, hh.2⟩
    cases hcl; rfl
  · cases hcl

/-- **no_claim_when_not_signed**: unstaking, a failed unstaking check, an invalid proposal, a bad
    expiry and a signing error never lead to a claim and never touch any counter. -/
theorem no_claim_when_not_signed (c : Counters) (w : Nat) (o : Outcome)
    (ho : ∀ a i f, o ≠ .signed a i f) :
    (step c w o).claim = none ∧ (step c w o).counters = c := by
  cases o with
  | signed a i f => exact absurd rfl (ho a i f)
  | _ => simp [step]

/-- **ok_resets**: a successful heartbeat ends the run of that wallet. -/
theorem ok_resets (h : List (Nat × Outcome)) (w : Nat) (o : Outcome) (ho : isSuccess o = true) :
    lowRun w (h ++ [(w, o)]) = 0 := by
  rw [lowRun_snoc]
  have : isLow o = false := by
    cases o <;> simp_all [isLow, isSuccess]
  simp [this, ho]

/-- Reading backwards: a run of length `n+1` means the most recent counting heartbeat of the
    wallet is low and before it there is a run of length `n`. -/
theorem lowRunRev_succ_decompose (w n : Nat) (l : List (Nat × Outcome))
    (h : lowRunRev w l ≥ n + 1) :
    ∃ pre o post, l = pre ++ (w, o) :: post ∧ isLow o = true ∧
      (∀ p ∈ pre, p.1 = w → isLow p.2 = false ∧ isSuccess p.2 = false) ∧
      lowRunRev w post ≥ n := by
  induction l with
  | nil => simp [lowRunRev] at h
  | cons p rest ih =>
    obtain ⟨w', o⟩ := p
    unfold lowRunRev at h
    by_cases hw : w' = w
    · subst hw
      simp only [ne_eq, not_true_eq_false, if_false] at h
      cases hl : isLow o
      · cases hs : isSuccess o
        · simp only [hl, hs, Bool.false_eq_true, if_false] at h
          obtain ⟨pre, o', post, e, a, b, c⟩ := ih h
          refine ⟨(w', o) :: pre, o', post, by simp [e], a, ?_, c⟩
          intro p hp hpw
          simp only [List.mem_cons] at hp
          rcases hp with rfl | hp
          · exact ⟨hl, hs⟩
          · exact b p hp hpw
        · simp [hl, hs] at h
      · simp only [hl, if_true] at h
        exact ⟨[], o, rest, rfl, hl, by simp, by omega⟩
    · simp only [ne_eq, hw, not_false_eq_true, if_true] at h
      obtain ⟨pre, o', post, e, a, b, c⟩ := ih h
      refine ⟨(w', o) :: pre, o', post, by simp [e], a, ?_, c⟩
      intro p hp hpw
      simp only [List.mem_cons] at hp
      rcases hp with rfl | hp
      · exact absurd hpw hw
      · exact b p hp hpw

/-- **claim_needs_three**: if the heartbeat after history `h` makes a claim then, reading the
    wallet's history backwards from this heartbeat, the three most recent *counting* heartbeats
    (signing succeeded) of this wallet are all low — the current one included — with no successful
    heartbeat of the wallet in between. -/
theorem claim_needs_three (h : List (Nat × Outcome)) (w : Nat) (o : Outcome) (cl : Claim)
    (hcl : (step (finalFrom zero h) w o).claim = some cl) :
    ∃ p2 o2 p3 o3 rest, h.reverse = p2 ++ (w, o2) :: (p3 ++ (w, o3) :: rest) ∧
      isLow o = true ∧ isLow o2 = true ∧ isLow o3 = true ∧
      (∀ p ∈ p2 ++ p3, p.1 = w → isLow p.2 = false ∧ isSuccess p.2 = false) := by
  obtain ⟨hlow, hrun, _, _⟩ := claim_only_on_low h w o cl hcl
  have h1 : lowRunRev w h.reverse ≥ 2 := by
    rw [lowRun_snoc] at hrun
    simp only [ne_eq, not_true_eq_false, if_false, hlow, if_true] at hrun
    unfold lowRun at hrun; omega
  obtain ⟨p2, o2, post, e2, l2, n2, r2⟩ := lowRunRev_succ_decompose w 1 _ h1
  obtain ⟨p3, o3, rest, e3, l3, n3, _⟩ := lowRunRev_succ_decompose w 0 _ r2
  refine ⟨p2, o2, p3, o3, rest, by rw [e2, e3], hlow, l2, l3, ?_⟩
  intro p hp
  simp only [List.mem_append] at hp
  rcases hp with hp | hp
  · exact n2 p hp
  · exact n3 p hp

theorem lowRunRev_filter (w : Nat) (l : List (Nat × Outcome)) :
    lowRunRev w (l.filter (fun p => p.1 == w)) = lowRunRev w l := by
  induction l with
  | nil => rfl
  | cons p rest ih =>
    obtain ⟨w', o⟩ := p
    by_cases hw : w' = w
    · subst hw; simp only [List.filter, beq_self_eq_true, lowRunRev, ih]
    · have hb : (w' == w) = false := by simp [hw]
      simp [hb, hw, lowRunRev, ih]

/-- **wallets_independent**: the run of a wallet, hence whether its next heartbeat claims,
    depends only on that wallet's own heartbeats. -/
theorem wallets_independent (h : List (Nat × Outcome)) (w : Nat) (o : Outcome) :
    lowRun w h = lowRun w (h.filter (fun p => p.1 == w)) ∧
    expectedClaim h w o = expectedClaim (h.filter (fun p => p.1 == w)) w o := by
  have e : lowRun w h = lowRun w (h.filter (fun p => p.1 == w)) := by
    unfold lowRun; rw [← List.filter_reverse, lowRunRev_filter]
  refine ⟨e, ?_⟩
  unfold expectedClaim
  rw [lowRun_snoc, lowRun_snoc, e]

/-! ## Monitor tie -/

theorem runFrom_holds (pre h : List (Nat × Outcome)) :
    holdsFrom pre h (runFrom (finalFrom zero pre) h) = true := by
  induction h generalizing pre with
  | nil => simp [runFrom, holdsFrom]
  | cons p rest ih =>
    obtain ⟨w, o⟩ := p
    simp only [runFrom, holdsFrom, Bool.and_eq_true, beq_iff_eq]
    refine ⟨⟨claim_iff pre w o, ?_⟩, ?_⟩
    · rw [← finalFrom_append, counter_eq_lowRun]
    · rw [← finalFrom_append]; exact ih _

/-- The monitor accepts every output of the model. -/
theorem holds_run (h : List (Nat × Outcome)) : holds h (run h) = true :=
  runFrom_holds [] h

/-! ## Non-vacuity -/

example : (run [(0, .signed 69 [71] false), (1, .signed 0 [5] false), (0, .signErr),
    (0, .signed 10 [11, 12] false), (0, .unstaking), (0, .signed 69 [70, 99] false)]).map (·.2.1)
    = [none, none, none, none, none, some ([70, 99], true)] := by decide
example : (run [(0, .signed 69 [71] false), (0, .signed 69 [71] false), (0, .signed 70 [71] false),
    (0, .signed 69 [71] false)]).map (·.2.1) = [none, none, none, none] := by decide
example : holds [(0, .signed 1 [2] false)] [(.ok, some ([2], true), 1)] = false := by decide

end KeepVerif.C36
