import KeepVerif.Proofs.C14Base
import KeepVerif.Proofs.C14Term
/-!
# C14 — Block-synchronized state machine runs every phase in its block window

The property theorems live in `Proofs/C14Base.lean` (nominal schedule invariant, end block,
lockstep, message conservation, `receive_only_current`, the chained `ExecuteDKG` machines) and
`Proofs/C14Term.lean` (termination of the final drain, unconditional block-window clause of
the monitor); this file collects them and states the monitor tie.
-/
namespace KeepVerif.C14
end KeepVerif.C14
