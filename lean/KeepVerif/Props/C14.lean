import KeepVerif.Model.C14
namespace KeepVerif.C14
end KeepVerif.C14
