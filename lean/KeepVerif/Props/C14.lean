import KeepVerif.Proofs.C14Base
import KeepVerif.Proofs.C14Term
import KeepVerif.Proofs.C14Recs
/-!
# C14 — Block-synchronized state machine runs every phase in its block window

The property theorems live in `Proofs/C14Base.lean` (nominal schedule invariant, end block,
lockstep, message conservation, `receive_only_current`, the chained `ExecuteDKG` machines) and
`Proofs/C14Term.lean` (termination of the final drain, unconditional block-window clause of
the monitor) and `Proofs/C14Recs.lean` (per-record invariant and `holds_model`, the unconditional
monitor tie); this file collects them.
-/
namespace KeepVerif.C14
end KeepVerif.C14
