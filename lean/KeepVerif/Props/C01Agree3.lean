import KeepVerif.Props.C01Agree2
/-!
# C01 — `agreement_partial`: a theorem about the model's `run`

The last two phases (11: reconstruction, 12: combination) exchange no messages, so the final state
of a member is a function of its state after the delivery of phase 10.  `agreement_partial` proves,
for ALL configurations, that two members whose states after phase 10 satisfy the named premises
`Sync10` (equal views, mutual conviction of revealers, same individual keys) end `run` with equal IA
sets, equal DQ sets and equal group key.  `Sync10` is what the step theorems of phases 2, 5 and 9
are for; it is not yet derived inside `run` — instead it is evaluated by the monitor on the model's
run of every generated case (`sync10B`).
-/
namespace KeepVerif.C01

/-- the states after the first `k` phases -/
def after (cfg : Cfg) (k : Nat) : List St :=
  (List.range k).foldl (fun sts i => runPhase cfg sts (i + 1)) ((members cfg.n).map (initSt cfg))

theorem run_eq_after (cfg : Cfg) : run cfg = after cfg 12 := rfl

theorem after_succ (cfg : Cfg) (k : Nat) : after cfg (k + 1) = runPhase cfg (after cfg k) (k + 1) := by
  simp [after, List.range_succ, List.foldl_append]

/-- a phase without messages only runs `Initiate` of every live member -/
def silentStep (ph : Nat) (st : St) : St := if alive st then (initiate ph st).1 else st

theorem runPhase_silent (cfg : Cfg) (sts : List St) (ph : Nat) (h : sendingPhase ph = false) :
    runPhase cfg sts ph = sts.map (silentStep ph) := by
  unfold runPhase
  simp only [h, Bool.not_false, if_true, List.map_map]
  apply List.map_congr_left
  intro st _
  simp only [Function.comp_apply, silentStep]
  split <;> rfl

/-- final state of a member as a function of its state after phase 10 -/
def finish (st : St) : St := silentStep 12 (silentStep 11 st)

theorem run_eq_finish (cfg : Cfg) : run cfg = (after cfg 10).map finish := by
  rw [run_eq_after, after_succ cfg 11, after_succ cfg 10,
    runPhase_silent cfg _ 11 (by decide), runPhase_silent cfg _ 12 (by decide), List.map_map]
  rfl

/-! ## phase 11 unfolded -/

theorem phase11_core (st : St) : core (phase11 st) = core (p11c st).1 := by
  unfold phase11
  simp only
  split <;> rfl

theorem phase11_status (st : St) : (phase11 st).status = (p11c st).1.status := by
  unfold phase11
  simp only
  split
  · rfl
  · rfl

/-- senders of the (first) reveal messages that are invalid against the state after the inactivity
    marking of phase 11 -/
def invalidRevealers (st : St) : List Nat :=
  ((dedup (·.1) (p11msgs st)).filter (fun p => !isValidReveal (p11a st) p.2)).map (·.1)

/-- revealers convicted by the recovery, decisions taken on the state after the validation -/
def convictedRevealers (st : St) : List Nat :=
  (revealEntries (p11msgs st)).flatMap (targets11 (pub11 (p11b st) (p11b st)) (p11b st).id)

/-- **The premises of `agreement_partial`** for two members' states after phase 10.  Every field is a
    statement about the model's `run` that the monitor evaluates on every generated case
    (`sync10B`); the step theorems for phases 2, 5 and 9 are the route to deriving `views`. -/
structure Sync10 (a b : St) : Prop where
  /-- both members are still running and run the repaired code -/
  alive : a.status = .ok ∧ b.status = .ok
  flagsA : (p11a a).fix11 = true ∧ (p11b a).status = .ok ∧ (p11b a).fixAbort = true ∧ (p11b a).fix11 = true
  flagsB : (p11a b).fix11 = true ∧ (p11b b).status = .ok ∧ (p11b b).fixAbort = true ∧ (p11b b).fix11 = true
  /-- equal views after the inactivity marking of phase 11 (consequence of agreement after phase 9
      and of consistent broadcast in phase 10) -/
  views : (p11a a).n = (p11a b).n ∧ (∀ k, k ∈ (p11a a).ia ↔ k ∈ (p11a b).ia) ∧
    (∀ k, k ∈ (p11a a).dq ↔ k ∈ (p11a b).dq)
  /-- DQ lists only name group members that are not inactive (before and after the validation) -/
  rangeA : (∀ k ∈ (p11a a).dq, 1 ≤ k ∧ k ≤ (p11a a).n ∧ k ∉ (p11a a).ia) ∧
    (∀ k ∈ (p11b a).dq, 1 ≤ k ∧ k ≤ (p11b a).n ∧ k ∉ (p11b a).ia)
  rangeB : (∀ k ∈ (p11a b).dq, 1 ≤ k ∧ k ≤ (p11a b).n ∧ k ∉ (p11a b).ia) ∧
    (∀ k ∈ (p11b b).dq, 1 ≤ k ∧ k ≤ (p11b b).n ∧ k ∉ (p11b b).ia)
  /-- a sender whose reveal message one member finds invalid is invalid for (or already
      disqualified by) the other: validation is against the common snapshot (fix fdc6bd5) -/
  validation : (∀ k ∈ invalidRevealers a, k ∈ (p11a b).dq ∨ k ∈ invalidRevealers b) ∧
    (∀ k ∈ invalidRevealers b, k ∈ (p11a a).dq ∨ k ∈ invalidRevealers a)
  /-- same for the revealers convicted during the recovery (decisions are functions of public data) -/
  recovery : (∀ k ∈ convictedRevealers a, k ∈ (p11b b).dq ∨ k ∈ convictedRevealers b) ∧
    (∀ k ∈ convictedRevealers b, k ∈ (p11b a).dq ∨ k ∈ convictedRevealers a)
  /-- both hold the same individual keys over the same positive modulus -/
  keys : (phase11 a).q = (phase11 b).q ∧ 0 < (phase11 a).q ∧
    (keyTerms (phase11 a)).Perm (keyTerms (phase11 b))

private theorem fold_markDQ_ia_n (l : List Nat) (s : St) :
    (l.foldl markDQ s).ia = s.ia ∧ (l.foldl markDQ s).n = s.n := by
  have h := foldl_markDQ_core l s s rfl
  induction l generalizing s with
  | nil => exact ⟨rfl, rfl⟩
  | cons j rest ih =>
    simp only [List.foldl_cons]
    have hj : (markDQ s j).ia = s.ia ∧ (markDQ s j).n = s.n := by unfold markDQ; split <;> exact ⟨rfl, rfl⟩
    obtain ⟨i1, i2⟩ := ih (markDQ s j) (foldl_markDQ_core rest _ _ rfl)
    exact ⟨i1.trans hj.1, i2.trans hj.2⟩

/-- views after phase 11 for two members satisfying the premises -/
theorem phase11_agree (a b : St) (h : Sync10 a b) :
    (∀ k, k ∈ (phase11 a).ia ↔ k ∈ (phase11 b).ia) ∧ (∀ k, k ∈ (phase11 a).dq ↔ k ∈ (phase11 b).dq) ∧
    (phase11 a).status = .ok ∧ (phase11 b).status = .ok := by
  obtain ⟨hn, hia, hdq⟩ := h.views
  -- validation stage
  have hvA : (p11b a) = (invalidRevealers a).foldl markDQ (p11a a) := by
    unfold p11b validate11 invalidRevealers; rw [if_pos h.flagsA.1]
  have hvB : (p11b b) = (invalidRevealers b).foldl markDQ (p11a b) := by
    unfold p11b validate11 invalidRevealers; rw [if_pos h.flagsB.1]
  have hdq2 : ∀ k, k ∈ (p11b a).dq ↔ k ∈ (p11b b).dq := by
    intro k
    rw [hvA, hvB]
    have := dq_agree_generic' (p11a a) (p11a b) (invalidRevealers a) (invalidRevealers b)
      (fun k => [k]) (fun k => [k]) hn hia h.rangeA.1 h.rangeB.1
      (fun x hx k hk => by
        simp only [List.mem_singleton] at hk; subst hk
        rcases h.validation.1 k hx with h1 | h1
        · exact Or.inl h1
        · exact Or.inr ⟨k, h1, by simp⟩)
      (fun x hx k hk => by
        simp only [List.mem_singleton] at hk; subst hk
        rcases h.validation.2 k hx with h1 | h1
        · exact Or.inl h1
        · exact Or.inr ⟨k, h1, by simp⟩)
      (fun k hk => Or.inl ((hdq k).1 hk)) (fun k hk => Or.inl ((hdq k).2 hk)) k
    simpa [List.flatMap_singleton'] using this
  have hia2A : (p11b a).ia = (p11a a).ia ∧ (p11b a).n = (p11a a).n := by rw [hvA]; exact fold_markDQ_ia_n _ _
  have hia2B : (p11b b).ia = (p11a b).ia ∧ (p11b b).n = (p11a b).n := by rw [hvB]; exact fold_markDQ_ia_n _ _
  have hia2 : ∀ k, k ∈ (p11b a).ia ↔ k ∈ (p11b b).ia := by
    intro k; rw [hia2A.1, hia2B.1]; exact hia k
  have hn2 : (p11b a).n = (p11b b).n := by rw [hia2A.2, hia2B.2]; exact hn
  -- recovery stage
  have rA := recover11_fold (p11b a) (revealEntries (p11msgs a)) (p11b a) [] h.flagsA.2.1 h.flagsA.2.2.1 h.flagsA.2.2.2
  have rB := recover11_fold (p11b b) (revealEntries (p11msgs b)) (p11b b) [] h.flagsB.2.1 h.flagsB.2.2.1 h.flagsB.2.2.2
  have cA := phase11_core a
  have cB := phase11_core b
  have eA : core (phase11 a) = core ((convictedRevealers a).foldl markDQ (p11b a)) := cA.trans rA.1
  have eB : core (phase11 b) = core ((convictedRevealers b).foldl markDQ (p11b b)) := cB.trans rB.1
  simp only [core, Prod.mk.injEq] at eA eB
  have i3A := fold_markDQ_ia_n (convictedRevealers a) (p11b a)
  have i3B := fold_markDQ_ia_n (convictedRevealers b) (p11b b)
  refine ⟨?_, ?_, ?_, ?_⟩
  · intro k; rw [eA.2.2.1, eB.2.2.1, i3A.1, i3B.1]; exact hia2 k
  · intro k
    rw [eA.2.2.2, eB.2.2.2]
    have := dq_agree_generic' (p11b a) (p11b b) (convictedRevealers a) (convictedRevealers b)
      (fun k => [k]) (fun k => [k]) hn2 hia2 h.rangeA.2 h.rangeB.2
      (fun x hx k hk => by
        simp only [List.mem_singleton] at hk; subst hk
        rcases h.recovery.1 k hx with h1 | h1
        · exact Or.inl h1
        · exact Or.inr ⟨k, h1, by simp⟩)
      (fun x hx k hk => by
        simp only [List.mem_singleton] at hk; subst hk
        rcases h.recovery.2 k hx with h1 | h1
        · exact Or.inl h1
        · exact Or.inr ⟨k, h1, by simp⟩)
      (fun k hk => Or.inl ((hdq2 k).1 hk)) (fun k hk => Or.inl ((hdq2 k).2 hk)) k
    simpa [List.flatMap_singleton'] using this
  · rw [phase11_status]; exact rA.2
  · rw [phase11_status]; exact rB.2

/-- **`agreement_partial`** — a theorem about the model's `run`, for ALL configurations (any n, t,
    corrupt set, behaviour script, delivery orders): the final states of `run` are `finish` of the
    states after phase 10, and any two of them whose phase 10 states satisfy the named premises
    `Sync10` finished (status ok) with the same IA set, the same DQ set and the same group key. -/
theorem agreement_partial (cfg : Cfg) :
    run cfg = (after cfg 10).map finish ∧
    ∀ a ∈ after cfg 10, ∀ b ∈ after cfg 10, Sync10 a b →
      (finish a).status = .ok ∧ (finish b).status = .ok ∧
      (∀ k, k ∈ (finish a).ia ↔ k ∈ (finish b).ia) ∧
      (∀ k, k ∈ (finish a).dq ↔ k ∈ (finish b).dq) ∧
      (finish a).gk = (finish b).gk := by
  refine ⟨run_eq_finish cfg, ?_⟩
  intro a _ b _ h
  obtain ⟨hia, hdq, sA, sB⟩ := phase11_agree a b h
  have fA : finish a = phase12 (phase11 a) := by
    simp [finish, silentStep, alive, initiate, h.alive.1, sA]
  have fB : finish b = phase12 (phase11 b) := by
    simp [finish, silentStep, alive, initiate, h.alive.2, sB]
  rw [fA, fB]
  have p12 : ∀ s : St, (phase12 s).status = s.status ∧ (phase12 s).ia = s.ia ∧ (phase12 s).dq = s.dq :=
    fun s => ⟨rfl, rfl, rfl⟩
  refine ⟨(p12 _).1.trans sA, (p12 _).1.trans sB, ?_, ?_, ?_⟩
  · intro k; rw [(p12 _).2.1, (p12 _).2.1]; exact hia k
  · intro k; rw [(p12 _).2.2, (p12 _).2.2]; exact hdq k
  · exact group_key_agree_step _ _ h.keys.1 h.keys.2.1 h.keys.2.2

/-! ## the premises as a decidable check (run by the monitor on the model's run of every case) -/

def sameSet (l₁ l₂ : List Nat) : Bool := l₁.all l₂.contains && l₂.all l₁.contains

def inRange (s : St) : Bool := s.dq.all (fun k => decide (1 ≤ k) && decide (k ≤ s.n) && !s.ia.contains k)

def sync10B (a b : St) : Bool :=
  decide (a.status = .ok) && decide (b.status = .ok) &&
  (p11a a).fix11 && decide ((p11b a).status = .ok) && (p11b a).fixAbort && (p11b a).fix11 &&
  (p11a b).fix11 && decide ((p11b b).status = .ok) && (p11b b).fixAbort && (p11b b).fix11 &&
  decide ((p11a a).n = (p11a b).n) && sameSet (p11a a).ia (p11a b).ia && sameSet (p11a a).dq (p11a b).dq &&
  inRange (p11a a) && inRange (p11b a) && inRange (p11a b) && inRange (p11b b) &&
  (invalidRevealers a).all (fun k => (p11a b).dq.contains k || (invalidRevealers b).contains k) &&
  (invalidRevealers b).all (fun k => (p11a a).dq.contains k || (invalidRevealers a).contains k) &&
  (convictedRevealers a).all (fun k => (p11b b).dq.contains k || (convictedRevealers b).contains k) &&
  (convictedRevealers b).all (fun k => (p11b a).dq.contains k || (convictedRevealers a).contains k) &&
  decide ((phase11 a).q = (phase11 b).q) && decide (0 < (phase11 a).q) &&
  (keyTerms (phase11 a)).isPerm (keyTerms (phase11 b))

theorem sameSet_iff (l₁ l₂ : List Nat) (h : sameSet l₁ l₂ = true) : ∀ k, k ∈ l₁ ↔ k ∈ l₂ := by
  simp only [sameSet, Bool.and_eq_true, List.all_eq_true, List.contains_eq_mem, decide_eq_true_eq] at h
  exact fun k => ⟨h.1 k, h.2 k⟩

theorem inRange_iff (s : St) (h : inRange s = true) : ∀ k ∈ s.dq, 1 ≤ k ∧ k ≤ s.n ∧ k ∉ s.ia := by
  simp only [inRange, List.all_eq_true, Bool.and_eq_true, decide_eq_true_eq, Bool.not_eq_true',
    List.contains_eq_mem, decide_eq_false_iff_not] at h
  exact fun k hk => ⟨(h k hk).1.1, (h k hk).1.2, (h k hk).2⟩

private theorem all_or (l d m : List Nat) (h : l.all (fun k => d.contains k || m.contains k) = true) :
    ∀ k ∈ l, k ∈ d ∨ k ∈ m := by
  simp only [List.all_eq_true, Bool.or_eq_true, List.contains_eq_mem, decide_eq_true_eq] at h
  exact h

/-- the check is sound: what the monitor evaluates implies the premises of `agreement_partial` -/
theorem sync10B_sound (a b : St) (h : sync10B a b = true) : Sync10 a b := by
  simp only [sync10B, Bool.and_eq_true, decide_eq_true_eq] at h
  obtain ⟨⟨⟨⟨⟨⟨⟨⟨⟨⟨⟨⟨⟨⟨⟨⟨⟨⟨⟨⟨⟨⟨⟨h1, h2⟩, h3⟩, h4⟩, h5⟩, h6⟩, h7⟩, h8⟩, h9⟩, h10⟩, h11⟩, h12⟩, h13⟩, h14⟩,
    h15⟩, h16⟩, h17⟩, h18⟩, h19⟩, h20⟩, h21⟩, h22⟩, h23⟩, h24⟩ := h
  exact {
    alive := ⟨h1, h2⟩
    flagsA := ⟨h3, h4, h5, h6⟩
    flagsB := ⟨h7, h8, h9, h10⟩
    views := ⟨h11, sameSet_iff _ _ h12, sameSet_iff _ _ h13⟩
    rangeA := ⟨inRange_iff _ h14, inRange_iff _ h15⟩
    rangeB := ⟨inRange_iff _ h16, inRange_iff _ h17⟩
    validation := ⟨all_or _ _ _ h18, all_or _ _ _ h19⟩
    recovery := ⟨all_or _ _ _ h20, all_or _ _ _ h21⟩
    keys := ⟨h22, h23, List.isPerm_iff.1 h24⟩ }

/-- all pairs of finished honest members of the model run satisfy the premises -/
def premisesHold (cfg : Cfg) : Bool :=
  let hs := (after cfg 10).filter (fun st => !(corrupt cfg).contains st.id && decide (st.status = .ok)
    && decide ((finish st).status = .ok))
  hs.all (fun a => hs.all (fun b => sync10B a b))

end KeepVerif.C01
