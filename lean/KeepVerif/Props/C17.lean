import KeepVerif.Model.C17
/-!
# C17 — Retransmission schedules are exact under any tick timing

Theorems over `Model/C17.lean`.  Constants (`init`) and the lock-set fact come from
`Gen/C17.lean`, regenerated from the source on every run.
-/
namespace KeepVerif.C17

/-- T1 tie: every access of `BackoffStrategy.Tick` to the schedule state is made while the
    strategy's mutex is held — this is what selects the atomic semantics `cstep` below.
    (Without the lock the semantics is `rstep`, for which the property fails: see
    `racy_double_retransmit`, `racy_lost_forever`.) -/
theorem tie : Gen.C17.backoffTickLocked = true := by decide

/-- T1 tie: `Ticker.start` (tick loop *and* the teardown after the ticks channel is closed) and
    `Ticker.onTick` touch the handler map only under `handlersMutex`, so `tickerStep` is an atomic
    step w.r.t. registrations.  (False on the unchanged tree: the teardown loop ran unlocked —
    second `fix:`; the harness op `teardown <n>` replays it under the race detector.) -/
theorem tie_ticker : Gen.C17.tickerHandlersLocked = true := by decide

/-- T1 tie: `WithBackoffStrategy()` starts at `(0, 1, 1)`. -/
theorem init_eq : init = ⟨0, 1, 1⟩ := by decide

/-- the retransmitting ticks: 1, 3, 6, 11, 20, 37, 70, … -/
def f (j : Nat) : Nat := 2 ^ j + j

theorem f_strictMono {a b : Nat} (h : a < b) : f a < f b := by
  unfold f
  have := Nat.pow_lt_pow_right (by decide : 1 < 2) h
  omega

theorem f_mono {a b : Nat} (h : a ≤ b) : f a ≤ f b := by
  rcases Nat.lt_or_eq_of_le h with h | h
  · exact Nat.le_of_lt (f_strictMono h)
  · subst h; exact Nat.le_refl _

/-- after `r` retransmissions: `delay = 2^r`, `retransmitTick = 2^r + r`, the counter is below the
    next retransmission tick and not below the previous one. -/
def Inv (s : BState) (r : Nat) : Prop :=
  s.delay = 2 ^ r ∧ s.rt = f r ∧ s.tc < s.rt ∧ (r = 0 ∨ f (r - 1) ≤ s.tc)

theorem tick_inv (s : BState) (r : Nat) (h : Inv s r) :
    Inv (tick s).1 (r + (tick s).2.toNat) ∧ (tick s).1.tc = s.tc + 1 ∧
    ((tick s).2 = true ↔ s.tc + 1 = f r) := by
  obtain ⟨hd, hr, hlt, hlo⟩ := h
  by_cases hc : s.tc + 1 = s.rt
  · have ht : tick s = (⟨s.tc + 1, s.delay * 2, s.rt + (s.delay + 1)⟩, true) := by
      unfold tick; rw [if_pos hc]
    rw [ht]
    refine ⟨⟨?_, ?_, ?_, ?_⟩, rfl, ?_⟩
    · show s.delay * 2 = 2 ^ (r + 1)
      rw [hd, Nat.pow_succ]
    · show s.rt + (s.delay + 1) = f (r + 1)
      unfold f at *
      rw [hd, hr, Nat.pow_succ]; omega
    · show s.tc + 1 < s.rt + (s.delay + 1)
      omega
    · right
      show f (r + 1 - 1) ≤ s.tc + 1
      simp only [Nat.add_sub_cancel]; omega
    · simp [← hr, hc]
  · have ht : tick s = (⟨s.tc + 1, s.delay, s.rt⟩, false) := by
      unfold tick; rw [if_neg hc]
    rw [ht]
    refine ⟨⟨hd, hr, ?_, ?_⟩, rfl, ?_⟩
    · show s.tc + 1 < s.rt
      omega
    · rcases hlo with h0 | h1
      · exact Or.inl h0
      · right; show f (r - 1) ≤ s.tc + 1; omega
    · simp [← hr, hc]

theorem runTicks_inv (k : Nat) : ∀ (s : BState) (r : Nat), Inv s r →
    Inv (runTicks k s).1 (r + (runTicks k s).2) ∧ (runTicks k s).1.tc = s.tc + k := by
  induction k with
  | zero => intro s r h; simpa [runTicks] using h
  | succ k ih =>
    intro s r h
    obtain ⟨h1, h2, _⟩ := tick_inv s r h
    obtain ⟨h3, h4⟩ := ih (tick s).1 _ h1
    simp only [runTicks]
    refine ⟨?_, ?_⟩
    · have e : r + ((runTicks k (tick s).1).2 + (tick s).2.toNat)
          = r + (tick s).2.toNat + (runTicks k (tick s).1).2 := by omega
      rw [e]; exact h3
    · rw [h4, h2]; omega

theorem inv_init : Inv init 0 := by
  rw [init_eq]; unfold Inv f; simp

/-- **Invariant of the backoff schedule** (sequential ticks): after `k` ticks that made `r`
    retransmissions the state is exactly `(k, 2^r, 2^r + r)` and `2^(r-1) + (r-1) ≤ k < 2^r + r`. -/
theorem backoff_invariant (k : Nat) :
    stateAfter k = ⟨k, 2 ^ retransAfter k, 2 ^ retransAfter k + retransAfter k⟩ ∧
    k < f (retransAfter k) ∧ (retransAfter k = 0 ∨ f (retransAfter k - 1) ≤ k) := by
  obtain ⟨⟨hd, hr, hlt, hlo⟩, htc⟩ := runTicks_inv k init 0 inv_init
  have h0 : init.tc = 0 := by rw [init_eq]
  simp only [Nat.zero_add, h0] at hd hr hlt hlo htc
  unfold stateAfter retransAfter
  refine ⟨?_, ?_, ?_⟩
  · cases hs : (runTicks k init).1 with
    | mk tc d rt =>
      rw [hs] at hd hr htc
      simp only at hd hr htc
      simp only [BState.mk.injEq]
      exact ⟨htc, hd, hr⟩
  · rw [hr, htc] at hlt; exact hlt
  · rw [htc] at hlo; exact hlo

/-- the count of retransmissions is pinned by the two bounds (used by the monitor). -/
theorem spec_unique (k c c' : Nat) (h : countSpec k c = true) (h' : countSpec k c' = true) :
    c = c' := by
  have key : ∀ a b, countSpec k a = true → countSpec k b = true → a ≤ b := by
    intro a b ha hb
    simp only [countSpec, Bool.and_eq_true, Bool.or_eq_true, beq_iff_eq, decide_eq_true_eq] at ha hb
    rcases ha.1 with ha0 | ha1
    · omega
    · apply Nat.le_of_not_lt
      intro hlt
      have : b ≤ a - 1 := by omega
      have := f_mono this
      unfold f at this
      omega
  exact Nat.le_antisymm (key c c' h h') (key c' c h' h)

theorem countSpec_retransAfter (k : Nat) : countSpec k (retransAfter k) = true := by
  obtain ⟨_, h1, h2⟩ := backoff_invariant k
  unfold f at h1 h2
  simp only [countSpec, Bool.and_eq_true, Bool.or_eq_true, beq_iff_eq, decide_eq_true_eq]
  exact ⟨h2, h1⟩

/-- **C17, backoff closed form**: with sequential (or atomic, see below) ticks, the `k`-th tick
    retransmits iff `k = 2^j + j` for some `j` — ticks 1, 3, 6, 11, 20, 37, … (gaps 2, 3, 5, 9, 17,
    i.e. 1, 2, 4, 8, 16 idle ticks in between).  For every `k ≥ 1`.  (`Nat` arithmetic; the
    `uint64` counters wrap only after 2⁶³ ticks.) -/
theorem backoff_closed_form (k : Nat) (hk : 1 ≤ k) :
    retransmitsAt k = true ↔ ∃ j, k = 2 ^ j + j := by
  obtain ⟨hst, hlt, hlo⟩ := backoff_invariant (k - 1)
  have hinv : Inv (stateAfter (k - 1)) (retransAfter (k - 1)) := by
    rw [hst]; exact ⟨rfl, rfl, hlt, hlo⟩
  obtain ⟨_, _, hiff⟩ := tick_inv _ _ hinv
  have htc : (stateAfter (k - 1)).tc = k - 1 := by rw [hst]
  unfold retransmitsAt
  rw [hiff, htc]
  constructor
  · intro h; exact ⟨retransAfter (k - 1), by unfold f at h; omega⟩
  · rintro ⟨j, hj⟩
    have hkj : k = f j := hj
    -- j = retransAfter (k-1) by monotonicity of f
    have h1 : j ≤ retransAfter (k - 1) := by
      apply Nat.le_of_not_lt; intro hlt'
      have := f_strictMono hlt'
      omega
    have h2 : retransAfter (k - 1) ≤ j := by
      rcases hlo with h0 | h1'
      · omega
      · apply Nat.le_of_not_lt; intro hlt'
        have : j ≤ retransAfter (k - 1) - 1 := by omega
        have := f_mono this
        omega
    have : j = retransAfter (k - 1) := Nat.le_antisymm h1 h2
    subst this; omega

/-- non-vacuity / the documented picture `R _ R _ _ R _ _ _ _ R …`. -/
example : (List.range' 1 40).filter retransmitsAt = [1, 3, 6, 11, 20, 37] := by decide

/-- **C17, standard strategy**: every `Tick` invocation retransmits (one per tick while live). -/
theorem standard_every_tick (s : Sys) (h : s.h = ⟨true, false⟩) (n : Nat) :
    sysRun .std s (List.replicate n Ev.tick) =
      { s with calls := s.calls + n, retransmits := s.retransmits + n } := by
  induction n generalizing s with
  | zero => simp [sysRun]
  | succ n ih =>
    have hs : sysStep .std s Ev.tick = { s with calls := s.calls + 1, retransmits := s.retransmits + 1 } := by
      simp [sysStep, tickerStep, h]
    simp only [sysRun, List.replicate_succ, List.foldl_cons] at ih ⊢
    rw [hs, ih _ (by simpa using h)]
    simp only [Sys.mk.injEq, true_and]
    omega

theorem runTicks_succ (k : Nat) (s : BState) :
    runTicks (k + 1) s =
      ((runTicks k (tick s).1).1, (runTicks k (tick s).1).2 + (tick s).2.toNat) := by
  simp only [runTicks]

theorem runTicks_succ_last (k : Nat) (s : BState) :
    runTicks (k + 1) s =
      ((tick (runTicks k s).1).1, (runTicks k s).2 + (tick (runTicks k s).1).2.toNat) := by
  induction k generalizing s with
  | zero => simp [runTicks]
  | succ k ih =>
    rw [runTicks_succ (k + 1) s, ih (tick s).1, runTicks_succ k s]
    simp only [Prod.mk.injEq, true_and]
    omega

theorem runTicks_add (a b : Nat) (s : BState) :
    runTicks (a + b) s =
      ((runTicks b (runTicks a s).1).1, (runTicks a s).2 + (runTicks b (runTicks a s).1).2) := by
  induction a generalizing s with
  | zero => simp [runTicks]
  | succ a ih =>
    have e : a + 1 + b = (a + b) + 1 := by omega
    rw [e]
    simp only [runTicks]
    rw [ih]
    simp only [Prod.mk.injEq, true_and]
    omega

theorem backoff_ticks (s : Sys) (h : s.h = ⟨true, false⟩) (n : Nat) :
    sysRun .backoff s (List.replicate n Ev.tick) =
      { h := s.h, b := (runTicks n s.b).1, calls := s.calls + n,
        retransmits := s.retransmits + (runTicks n s.b).2 } := by
  induction n generalizing s with
  | zero => simp [sysRun, runTicks]
  | succ n ih =>
    have hs : sysStep .backoff s Ev.tick =
        { h := s.h, b := (tick s.b).1, calls := s.calls + 1,
          retransmits := s.retransmits + (tick s.b).2.toNat } := by
      simp [sysStep, tickerStep, h]
    simp only [sysRun, List.replicate_succ, List.foldl_cons] at ih ⊢
    rw [hs, ih _ (by simpa using h)]
    simp only [runTicks, Sys.mk.injEq, true_and]
    omega

/-- **C17, cancellation**: once the context is cancelled, no further tick invokes the strategy
    (the ticker drops the handler at the first tick that sees `ctx.Err() != nil`). -/
theorem stops_after_cancel (h : HState) (hc : h.cancelled = true) (evs : List Ev) :
    ∀ b ∈ invocations h evs, b = false := by
  induction evs generalizing h with
  | nil => simp [invocations]
  | cons e es ih =>
    intro b hb
    cases e with
    | tick =>
      by_cases hr : h.registered = true
      · simp only [invocations, tickerStep, hr, hc, if_true, List.mem_cons] at hb
        rcases hb with rfl | hb
        · rfl
        · exact ih _ (by simp) b hb
      · simp only [invocations, tickerStep, hr, Bool.false_eq_true, if_false, List.mem_cons] at hb
        rcases hb with rfl | hb
        · rfl
        · exact ih _ hc b hb
    | cancel =>
      simp only [invocations, tickerStep, List.mem_cons] at hb
      rcases hb with rfl | hb
      · rfl
      · exact ih _ rfl b hb

/-- …for any event history: everything after the first `cancel` is silent. -/
theorem stops_after_cancel_history (h : HState) (pre post : List Ev) :
    ∃ h', invocations h (pre ++ Ev.cancel :: post) = invocations h pre ++ false :: invocations h' post
      ∧ ∀ b ∈ invocations h' post, b = false := by
  induction pre generalizing h with
  | nil =>
    refine ⟨{ h with cancelled := true }, by simp [invocations, tickerStep], ?_⟩
    exact stops_after_cancel _ rfl post
  | cons e pre ih =>
    obtain ⟨h', e1, e2⟩ := ih (tickerStep h e).1
    exact ⟨h', by simp [invocations, e1], e2⟩

/-- while the handler is registered and the context live, every tick invokes the strategy. -/
theorem invoked_while_live (n : Nat) :
    invocations ⟨true, false⟩ (List.replicate n Ev.tick) = List.replicate n true := by
  induction n with
  | zero => rfl
  | succ n ih => simp [invocations, tickerStep, List.replicate_succ, ih]

/-- **C17, one handler's lifetime on a long-lived ticker**: `n` ticks while live all invoke it, the
    cancellation and everything after it — further ticks, cancellations — never does.  (Handlers
    of one ticker do not interact: `modelReg` is this single-handler semantics per handler, so any
    interference between handlers in the implementation, e.g. a re-used handler id, shows up as a
    disagreement.) -/
theorem handler_invoked_until_cancel (n : Nat) (post : List Ev) :
    ∃ rest, invocations ⟨true, false⟩ (List.replicate n Ev.tick ++ Ev.cancel :: post)
        = List.replicate n true ++ false :: rest ∧ ∀ b ∈ rest, b = false := by
  have gen : ∀ n, invocations ⟨true, false⟩ (List.replicate n Ev.tick ++ Ev.cancel :: post)
      = List.replicate n true ++ false :: invocations ⟨true, true⟩ post := by
    intro n
    induction n with
    | zero => simp [invocations, tickerStep]
    | succ n ih => simp [invocations, tickerStep, List.replicate_succ, ih]
  exact ⟨_, gen n, stops_after_cancel _ rfl post⟩

/-- the directly computed lifetime window (the monitor) on an example with a removal in the
    middle and a later registration. -/
example : modelReg [.reg, .reg, .tick, .cancel 0, .tick, .reg, .tick] = [[1], [1, 2, 3], [3]] := by decide
example : holdsReg [.reg, .reg, .tick, .cancel 0, .tick, .reg, .tick] [[1], [1, 2, 3], [3]] false = true := by
  decide
/-- a live handler that silently stops being invoked (its id re-used by a later registration). -/
example : holdsReg [.reg, .reg, .tick, .cancel 0, .tick, .reg, .tick] [[1], [1, 2], [3]] false = false := by
  decide

theorem sysRun_cancelled (st : Strat) (s : Sys) (hc : s.h.cancelled = true) (m : Nat) :
    let s' := sysRun st s (List.replicate m Ev.tick)
    s'.b = s.b ∧ s'.calls = s.calls ∧ s'.retransmits = s.retransmits := by
  induction m generalizing s with
  | zero => simp [sysRun]
  | succ m ih =>
    have hs : (sysStep st s Ev.tick).h.cancelled = true ∧ (sysStep st s Ev.tick).b = s.b ∧
        (sysStep st s Ev.tick).calls = s.calls ∧ (sysStep st s Ev.tick).retransmits = s.retransmits := by
      by_cases hr : s.h.registered = true <;> simp [sysStep, tickerStep, hr, hc]
    obtain ⟨h1, h2, h3, h4⟩ := hs
    have := ih _ h1
    simp only [sysRun, List.replicate_succ, List.foldl_cons] at this ⊢
    rw [h2, h3, h4] at this
    exact this

/-! ## Overlapping tick goroutines -/

def weight (w : PC → Nat) (pcs : List PC) : Nat := (pcs.map w).sum

theorem weight_set (w : PC → Nat) (pcs : List PC) (t : Nat) (old x : PC)
    (h : pcs[t]? = some old) : weight w (pcs.set t x) + w old = weight w pcs + w x := by
  induction pcs generalizing t with
  | nil => simp at h
  | cons p ps ih =>
    cases t with
    | zero =>
      simp only [List.getElem?_cons_zero, Option.some.injEq] at h
      subst h
      simp only [weight, List.set_cons_zero, List.map_cons, List.sum_cons]; omega
    | succ t =>
      simp only [List.getElem?_cons_succ] at h
      have := ih t h
      simp only [weight, List.set_cons_succ, List.map_cons, List.sum_cons] at this ⊢; omega

/-- goroutines that have passed the critical section -/
def wStarted : PC → Nat
  | .start => 0
  | _ => 1

/-- goroutines that decided to retransmit and have not called `retransmitFn` yet -/
def wPending : PC → Nat
  | .decided true => 1
  | _ => 0

def wFinished : PC → Nat
  | .finished => 1
  | _ => 0

/-- **C17, schedule independence with atomic `Tick`**: for *every* interleaving `sched` of the steps
    of `n` overlapping tick goroutines (critical section; later, outside the lock, the call of
    `retransmitFn`), the shared state is the sequential state after as many ticks as goroutines
    have passed the critical section, and retransmissions made + retransmissions decided but not
    yet made = the sequential (closed form) count.  No increment is lost, none doubled. -/
theorem atomic_schedule_independent (n : Nat) (sched : List Nat) :
    let s := crun (cinit n) sched
    s.pcs.length = n ∧
    s.b = stateAfter (weight wStarted s.pcs) ∧
    s.retransmits + weight wPending s.pcs = retransAfter (weight wStarted s.pcs) := by
  have gen : ∀ (sched : List Nat) (s : CState),
      (s.b = stateAfter (weight wStarted s.pcs) ∧
        s.retransmits + weight wPending s.pcs = retransAfter (weight wStarted s.pcs)) →
      (crun s sched).pcs.length = s.pcs.length ∧
      (crun s sched).b = stateAfter (weight wStarted (crun s sched).pcs) ∧
      (crun s sched).retransmits + weight wPending (crun s sched).pcs
        = retransAfter (weight wStarted (crun s sched).pcs) := by
    intro sched
    induction sched with
    | nil => intro s h; exact ⟨rfl, h⟩
    | cons t ts ih =>
      intro s ⟨hb, hr⟩
      have step : (cstep s t).pcs.length = s.pcs.length ∧
          (cstep s t).b = stateAfter (weight wStarted (cstep s t).pcs) ∧
          (cstep s t).retransmits + weight wPending (cstep s t).pcs
            = retransAfter (weight wStarted (cstep s t).pcs) := by
        unfold cstep
        cases hpc : s.pcs[t]? with
        | none => exact ⟨rfl, hb, hr⟩
        | some pc =>
          cases pc with
          | start =>
            have w1 := weight_set wStarted s.pcs t .start (.decided (tick s.b).2) hpc
            have w2 := weight_set wPending s.pcs t .start (.decided (tick s.b).2) hpc
            have hsucc := runTicks_succ_last (weight wStarted s.pcs) init
            simp only [wStarted, wPending, Nat.add_zero] at w1 w2
            simp only [List.length_set, true_and]
            rw [w1]
            unfold stateAfter retransAfter at *
            rw [hsucc, ← hb]
            refine ⟨rfl, ?_⟩
            simp only
            cases hd : (tick s.b).2 <;> simp only [hd] at w2 ⊢ <;> simp at w2 ⊢ <;> omega
          | decided r =>
            have w1 := weight_set wStarted s.pcs t (.decided r) .finished hpc
            have w2 := weight_set wPending s.pcs t (.decided r) .finished hpc
            simp only [wStarted, Nat.add_right_cancel_iff] at w1
            simp only [List.length_set, true_and]
            rw [w1]
            refine ⟨hb, ?_⟩
            rw [← hr]
            cases r <;> simp [wPending] at w2 ⊢ <;> omega
          | finished => exact ⟨rfl, hb, hr⟩
      obtain ⟨hl, hrest⟩ := step
      obtain ⟨a, b⟩ := ih (cstep s t) hrest
      simp only [crun, List.foldl_cons] at a b ⊢
      exact ⟨by rw [a, hl], b⟩
  have h0 : weight wStarted (cinit n).pcs = 0 ∧ weight wPending (cinit n).pcs = 0 := by
    simp only [cinit]
    induction n with
    | zero => simp [weight]
    | succ n ih =>
      simp only [weight, List.replicate_succ, List.map_cons, List.sum_cons, wStarted, wPending] at ih ⊢
      omega
  have := gen sched (cinit n) (by
    rw [h0.1, h0.2]; simp [cinit, stateAfter, retransAfter, runTicks])
  simpa [cinit] using this

/-- **C17, the schedule does not depend on `retransmitFn`**: only the critical section changes the
    backoff state; the step in which a goroutine calls `retransmitFn` (whatever it returns, however
    long it takes — it is just scheduled later) leaves `(tickCounter, delay, retransmitTick)`
    untouched.  The harness injects publish errors and publishes that block across later ticks. -/
theorem retransmit_outcome_irrelevant (s : CState) (t : Nat) (h : s.pcs[t]? ≠ some PC.start) :
    (cstep s t).b = s.b := by
  unfold cstep
  cases hpc : s.pcs[t]? with
  | none => rfl
  | some pc =>
    cases pc with
    | start => exact absurd hpc h
    | decided r => rfl
    | finished => rfl

theorem weight_all_finished (pcs : List PC) (h : ∀ pc ∈ pcs, pc = PC.finished) :
    weight wStarted pcs = pcs.length ∧ weight wPending pcs = 0 := by
  induction pcs with
  | nil => simp [weight]
  | cons p ps ih =>
    have hp : p = PC.finished := h p (by simp)
    obtain ⟨a, b⟩ := ih (fun pc hpc => h pc (by simp [hpc]))
    subst hp
    simp only [weight, List.map_cons, List.sum_cons, wStarted, wPending, List.length_cons] at a b ⊢
    omega

/-- …so once all `n` goroutines have finished — whatever the interleaving was — the state and the
    number of retransmissions are those of `n` sequential ticks: `r` retransmissions with
    `2^(r-1) + (r-1) ≤ n < 2^r + r`. -/
theorem atomic_complete_schedule (n : Nat) (sched : List Nat)
    (hfin : ∀ pc ∈ (crun (cinit n) sched).pcs, pc = PC.finished) :
    (crun (cinit n) sched).b = stateAfter n ∧
    (crun (cinit n) sched).retransmits = retransAfter n ∧
    countSpec n (crun (cinit n) sched).retransmits = true := by
  obtain ⟨hl, hb, hr⟩ := atomic_schedule_independent n sched
  obtain ⟨w1, w2⟩ := weight_all_finished _ hfin
  rw [w1, hl] at hb hr
  rw [w2] at hr
  refine ⟨hb, by omega, ?_⟩
  rw [show (crun (cinit n) sched).retransmits = retransAfter n by omega]
  exact countSpec_retransAfter n

/-- non-vacuity: a complete, genuinely interleaved schedule of 3 goroutines. -/
example : (crun (cinit 3) [2, 0, 2, 1, 1, 0]).pcs = [.finished, .finished, .finished] := by decide

/-- **Counterexample for the unsynchronised code (the unchanged tree before the `fix:`)**: two
    overlapping tick goroutines; both load `tickCounter = 0`, both store 1 (a lost increment), both
    see `1 == retransmitTick` and both retransmit: two ticks produce *two* retransmissions at
    "tick 1", counter 1 instead of 2, `retransmitTick` 6 instead of 3, `delay` 4 instead of 2. -/
theorem racy_double_retransmit :
    let s := rrun (rinit 2) [0, 1, 0, 1, 0, 1, 0, 0, 1, 1]
    s.pcs = [.finished, .finished] ∧ s.retransmits = 2 ∧ s.b = ⟨1, 4, 6⟩ ∧
    retransAfter 2 = 1 ∧ stateAfter 2 = ⟨2, 2, 3⟩ := by decide

theorem no_retransmit_when_passed (s : BState) (h : s.rt ≤ s.tc) (n : Nat) :
    (runTicks n s).2 = 0 := by
  induction n generalizing s with
  | zero => rfl
  | succ n ih =>
    have hne : ¬ (s.tc + 1 = s.rt) := by omega
    have ht : tick s = (⟨s.tc + 1, s.delay, s.rt⟩, false) := by unfold tick; rw [if_neg hne]
    simp only [runTicks, ht]
    rw [ih ⟨s.tc + 1, s.delay, s.rt⟩ (by show s.rt ≤ s.tc + 1; omega)]
    rfl

/-- **Second counterexample for the unsynchronised code**: both goroutines increment before either
    compares; the counter jumps over `retransmitTick`, nobody retransmits, and from then on
    *no tick ever retransmits again* (the message's retransmission is dead). -/
theorem racy_lost_forever :
    let s := rrun (rinit 2) [0, 0, 1, 1, 0, 1]
    s.pcs = [.finished, .finished] ∧ s.retransmits = 0 ∧ s.b = ⟨2, 1, 1⟩ ∧
    ∀ n, (runTicks n s.b).2 = 0 := by
  refine ⟨by decide, by decide, by decide, ?_⟩
  intro n
  have : (rrun (rinit 2) [0, 0, 1, 1, 0, 1]).b = ⟨2, 1, 1⟩ := by decide
  rw [this]
  exact no_retransmit_when_passed _ (by decide) n

/-! ## The monitor accepts every model output -/

theorem burstCounts_std (bs : List Nat) : ∀ (s : Sys), s.h = ⟨true, false⟩ →
    (burstCounts .std s bs).2 = prefixSums s.retransmits bs ∧
    (burstCounts .std s bs).1 =
      { s with calls := s.calls + bs.sum, retransmits := s.retransmits + bs.sum } := by
  induction bs with
  | nil => intro s _; simp [burstCounts, prefixSums]
  | cons b bs ih =>
    intro s h
    have e := standard_every_tick s h b
    obtain ⟨i1, i2⟩ := ih _ (show (sysRun .std s (List.replicate b Ev.tick)).h = ⟨true, false⟩ by rw [e]; exact h)
    simp only [burstCounts, prefixSums, List.sum_cons]
    rw [i1, i2, e]
    simp only [true_and, Sys.mk.injEq]
    omega

theorem burstCounts_backoff (bs : List Nat) : ∀ (s : Sys) (a : Nat), s.h = ⟨true, false⟩ →
    s.b = stateAfter a → s.retransmits = retransAfter a →
    (burstCounts .backoff s bs).2 = (prefixSums a bs).map retransAfter ∧
    (burstCounts .backoff s bs).1 =
      { h := s.h, b := stateAfter (a + bs.sum), calls := s.calls + bs.sum,
        retransmits := retransAfter (a + bs.sum) } := by
  induction bs with
  | nil => intro s a h hb hr; simp [burstCounts, prefixSums, ← hb, ← hr]
  | cons b bs ih =>
    intro s a h hb hr
    have e := backoff_ticks s h b
    have hadd := runTicks_add a b init
    have hb' : (sysRun .backoff s (List.replicate b Ev.tick)).b = stateAfter (a + b) := by
      rw [e]; unfold stateAfter at *; rw [hadd, hb]
    have hr' : (sysRun .backoff s (List.replicate b Ev.tick)).retransmits = retransAfter (a + b) := by
      rw [e]; unfold retransAfter stateAfter at *; rw [hadd, hb, hr]
    obtain ⟨i1, i2⟩ := ih _ (a + b) (show (sysRun .backoff s (List.replicate b Ev.tick)).h = ⟨true, false⟩ by rw [e]; exact h) hb' hr'
    simp only [burstCounts, prefixSums, List.sum_cons, List.map_cons]
    rw [i1, i2, hr']
    rw [e]
    simp only [true_and, Sys.mk.injEq]
    refine ⟨?_, ?_, ?_⟩ <;> first | omega | (congr 1; omega)

theorem allSpec_map (ks : List Nat) : allSpec ks (ks.map retransAfter) = true := by
  induction ks with
  | nil => rfl
  | cons k ks ih => simp [allSpec, countSpec_retransAfter, ih]

theorem prefixSums_zero_length (a : Nat) (bs : List Nat) : (prefixSums a bs).length = bs.length := by
  induction bs generalizing a with
  | nil => rfl
  | cons b bs ih => simp [prefixSums, ih]

/-- **Soundness of the monitor w.r.t. the model**: `holds` accepts the model's observation for every
    strategy, burst structure and cancellation point.  Together with the correspondence run
    (implementation observation = model observation) and the theorems above this transfers the
    property to what the implementation did. -/
theorem holds_model (st : Strat) (bursts : List Nat) (post : Nat) :
    holds st bursts post (modelObs st bursts post) = true := by
  cases st with
  | std =>
    obtain ⟨h1, h2⟩ := burstCounts_std bursts sysInit rfl
    unfold modelObs holds
    cases hbc : burstCounts .std sysInit bursts with
    | mk s1 cum =>
      rw [hbc] at h1 h2
      simp only at h1 h2
      by_cases hp : post > 0
      · have hc := sysRun_cancelled .std (sysStep .std s1 Ev.cancel) (by simp [sysStep, tickerStep]) (post + 1)
        have hstep : (sysStep .std s1 Ev.cancel).calls = s1.calls ∧
            (sysStep .std s1 Ev.cancel).retransmits = s1.retransmits := by simp [sysStep, tickerStep]
        simp only [sysRun, List.foldl_cons] at hc ⊢
        simp only [hp, if_true, hc.2.1, hc.2.2, hstep.1, hstep.2, Nat.sub_self, h1]
        simp [sysInit]
      · simp only [hp, if_false, Nat.sub_self, h1]
        simp [sysInit]
  | backoff =>
    obtain ⟨h1, h2⟩ := burstCounts_backoff bursts sysInit 0 rfl
      (by simp [sysInit, stateAfter, runTicks]) (by simp [sysInit, retransAfter, runTicks])
    unfold modelObs holds
    cases hbc : burstCounts .backoff sysInit bursts with
    | mk s1 cum =>
      rw [hbc] at h1 h2
      simp only [Nat.zero_add] at h1 h2
      obtain ⟨hst, hlt, hlo⟩ := backoff_invariant bursts.sum
      have hfinal : ∀ b : BState, b = stateAfter bursts.sum →
          (countSpec bursts.sum (b.rt - b.delay) && b.tc == bursts.sum
            && b.delay == 2 ^ (b.rt - b.delay) && decide (b.delay ≤ b.rt)) = true := by
        intro b hb
        rw [hb, hst]
        simp only [Nat.add_sub_cancel_left, beq_self_eq_true, Bool.and_true, Bool.and_eq_true,
          decide_eq_true_eq]
        exact ⟨countSpec_retransAfter _, Nat.le_add_right _ _⟩
      have hs1b : s1.b = stateAfter bursts.sum := by rw [h2]
      by_cases hp : post > 0
      · have hc := sysRun_cancelled .backoff (sysStep .backoff s1 Ev.cancel) (by simp [sysStep, tickerStep]) (post + 1)
        have hstep : (sysStep .backoff s1 Ev.cancel).calls = s1.calls ∧
            (sysStep .backoff s1 Ev.cancel).retransmits = s1.retransmits ∧
            (sysStep .backoff s1 Ev.cancel).b = s1.b := by simp [sysStep, tickerStep]
        simp only [sysRun, List.foldl_cons] at hc ⊢
        simp only [hp, if_true, hc.1, hc.2.1, hc.2.2, hstep.1, hstep.2.1, hstep.2.2, Nat.sub_self, h1]
        simp [allSpec_map, hfinal _ hs1b]
      · simp only [hp, if_false, Nat.sub_self, h1]
        simp [allSpec_map, hfinal _ hs1b]

/-- the monitor rejects a doubled retransmission, a lost increment, a late tick and a race flag. -/
example : holds .backoff [2] 0 ⟨[2], 0, 0, some ⟨1, 4, 6⟩, []⟩ = false := by decide
example : holds .backoff [48] 0 ⟨[6], 0, 0, some ⟨44, 64, 70⟩, []⟩ = false := by decide
example : holds .backoff [3] 2 ⟨[2], 1, 0, some ⟨4, 4, 6⟩, []⟩ = false := by decide
example : holds .backoff [2, 2] 0 ⟨[1, 2], 0, 0, some ⟨4, 4, 6⟩, ["RACE"]⟩ = false := by decide
example : holds .backoff [2, 2] 0 ⟨[1, 2], 0, 0, some ⟨4, 4, 6⟩, []⟩ = true := by decide

end KeepVerif.C17
