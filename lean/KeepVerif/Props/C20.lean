import KeepVerif.Model.C20
/-!
# C20 — Connection handshake completes exactly for honest peers on the same protocol

All statements are for every nonce pair, every protocol pair, every challenge function `H` and every
network behaviour `net` (three arbitrary functions on the act messages).  Injectivity of `H`
(A-hash, SHA-256 idealised) is an explicit hypothesis where it is needed, never an axiom.
-/
namespace KeepVerif.C20

variable {C : Type} [DecidableEq C]

/-- A-hash: `hashToChallenge` is injective in the pair of nonces. -/
def HInjective (H : Nat → Nat → C) : Prop :=
  ∀ a b a' b', H a b = H a' b' → a = a' ∧ b = b'

/-- C20 main statement: for acts delivered possibly altered, all three steps succeed **iff**
    act 1 carries the responder's protocol, act 2 carries the initiator's protocol and the challenge
    derived from the initiator's nonce and the delivered `nonce2`, and act 3 carries the challenge
    the responder derived from the delivered `nonce1` and its own nonce. -/
theorem handshake_completes_iff (H : Nat → Nat → C) (n1 : Nat) (p1 : String) (n2 : Nat)
    (p2 : String) (net : Net C) :
    (run H n1 p1 n2 p2 net).completes = true ↔
      (net.f1 ⟨n1, p1⟩).proto = p2 ∧
      (net.f2 ⟨n2, H (net.f1 ⟨n1, p1⟩).nonce n2, p2⟩).proto = p1 ∧
      (net.f2 ⟨n2, H (net.f1 ⟨n1, p1⟩).nonce n2, p2⟩).challenge
        = H n1 (net.f2 ⟨n2, H (net.f1 ⟨n1, p1⟩).nonce n2, p2⟩).nonce ∧
      (net.f3 ⟨(net.f2 ⟨n2, H (net.f1 ⟨n1, p1⟩).nonce n2, p2⟩).challenge⟩).challenge
        = H (net.f1 ⟨n1, p1⟩).nonce n2 := by
  simp only [run, answer, initiatorNext, finalize, ne_eq, ite_not]
  generalize net.f1 ⟨n1, p1⟩ = m1
  by_cases h1 : m1.proto = p2
  · simp only [h1, if_true, true_and]
    generalize net.f2 ⟨n2, H m1.nonce n2, p2⟩ = m2
    by_cases h2 : m2.proto = p1
    · simp only [h2, if_true, true_and]
      by_cases h3 : H n1 m2.nonce = m2.challenge
      · have h3' : m2.challenge = H n1 m2.nonce := h3.symm
        simp only [h3, if_true]
        generalize net.f3 ⟨m2.challenge⟩ = m3
        by_cases h4 : H m1.nonce n2 = m3.challenge
        · simp [h4, h3', Outcome.completes]
        · have h4' : ¬ m3.challenge = H m1.nonce n2 := fun h => h4 h.symm
          simp [h4, h4', Outcome.completes]
      · have h3' : ¬ m2.challenge = H n1 m2.nonce := fun h => h3 h.symm
        simp [h3, h3', Outcome.completes]
    · simp [h2, Outcome.completes]
  · simp [h1, Outcome.completes]

/-- The closed formula the monitor evaluates is exactly "the model run completes". -/
theorem completes_eq_expected (H : Nat → Nat → C) (n1 : Nat) (p1 : String) (n2 : Nat)
    (p2 : String) (net : Net C) :
    (run H n1 p1 n2 p2 net).completes = expectedComplete H n1 p1 n2 p2 net := by
  rw [Bool.eq_iff_iff, handshake_completes_iff]
  simp only [expectedComplete, Bool.and_eq_true, decide_eq_true_eq]
  constructor
  · rintro ⟨a, b, c, d⟩; exact ⟨⟨⟨a, b⟩, c⟩, d⟩
  · rintro ⟨⟨⟨a, b⟩, c⟩, d⟩; exact ⟨a, b, c, d⟩

/-- The monitor accepts every model run (soundness of "correspondence + theorem ⇒ property"). -/
theorem holds_model (H : Nat → Nat → C) (n1 : Nat) (p1 : String) (n2 : Nat) (p2 : String)
    (net : Net C) : holds H n1 p1 n2 p2 net (run H n1 p1 n2 p2 net).completes = true := by
  simp [holds, completes_eq_expected]

/-- Honest delivery: the handshake completes iff both peers run the same protocol identifier
    (for every `H`, no assumption). -/
theorem honest_run_completes_iff_same_protocol (H : Nat → Nat → C) (n1 : Nat) (p1 : String)
    (n2 : Nat) (p2 : String) :
    (run H n1 p1 n2 p2 Net.honest).completes = true ↔ p1 = p2 := by
  rw [handshake_completes_iff]
  simp only [Net.honest, id]
  constructor
  · exact fun h => h.1
  · intro h; subst h; simp

/-- Act 1 altered in any field (others delivered honestly) ⇒ the handshake fails. -/
theorem tamper_act1_fails (H : Nat → Nat → C) (hH : HInjective H) (n1 : Nat) (p1 : String)
    (n2 : Nat) (p2 : String) (f1 : Act1 → Act1) (hne : f1 ⟨n1, p1⟩ ≠ ⟨n1, p1⟩) :
    (run H n1 p1 n2 p2 ⟨f1, id, id⟩).completes = false := by
  cases hc : (run H n1 p1 n2 p2 ⟨f1, id, id⟩).completes with
  | false => rfl
  | true =>
    exfalso
    obtain ⟨a, b, c, _⟩ := (handshake_completes_iff H n1 p1 n2 p2 ⟨f1, id, id⟩).1 hc
    simp only [id] at a b c
    have hn := (hH _ _ _ _ c).1
    apply hne
    cases hf : f1 ⟨n1, p1⟩ with
    | mk n p =>
      rw [hf] at a hn
      simp only at a hn
      rw [hn, a, b]

/-- Act 2 altered in any field (nonce, challenge or protocol; others honest) ⇒ failure. -/
theorem tamper_act2_fails (H : Nat → Nat → C) (hH : HInjective H) (n1 : Nat) (p1 : String)
    (n2 : Nat) (p2 : String) (f2 : Act2 C → Act2 C)
    (hne : f2 ⟨n2, H n1 n2, p2⟩ ≠ ⟨n2, H n1 n2, p2⟩) :
    (run H n1 p1 n2 p2 ⟨id, f2, id⟩).completes = false := by
  cases hc : (run H n1 p1 n2 p2 ⟨id, f2, id⟩).completes with
  | false => rfl
  | true =>
    exfalso
    obtain ⟨a, b, c, d⟩ := (handshake_completes_iff H n1 p1 n2 p2 ⟨id, f2, id⟩).1 hc
    simp only [id] at a b c d
    apply hne
    cases hf : f2 ⟨n2, H n1 n2, p2⟩ with
    | mk n ch p =>
      rw [hf] at b c d
      simp only at b c d
      have hn : n = n2 := by
        have := hH _ _ _ _ (c.symm.trans d)
        exact this.2
      subst hn
      rw [d, b, a]

/-- Act 3 altered (others honest) ⇒ failure.  No assumption on `H` needed. -/
theorem tamper_act3_fails (H : Nat → Nat → C) (n1 : Nat) (p1 : String)
    (n2 : Nat) (p2 : String) (f3 : Act3 C → Act3 C)
    (hne : f3 ⟨H n1 n2⟩ ≠ ⟨H n1 n2⟩) :
    (run H n1 p1 n2 p2 ⟨id, id, f3⟩).completes = false := by
  cases hc : (run H n1 p1 n2 p2 ⟨id, id, f3⟩).completes with
  | false => rfl
  | true =>
    exfalso
    obtain ⟨_, _, _, d⟩ := (handshake_completes_iff H n1 p1 n2 p2 ⟨id, id, f3⟩).1 hc
    simp only [id] at d
    apply hne
    cases hf : f3 ⟨H n1 n2⟩ with
    | mk ch => rw [hf] at d; simp only at d; rw [d]

/-- Replay: act 2 (resp. act 3) taken from another honest run with nonces `(n1', n2') ≠ (n1, n2)`
    is rejected; act 1 of a run with `n1' ≠ n1` makes the handshake fail. -/
theorem replay_fails (H : Nat → Nat → C) (hH : HInjective H) (n1 : Nat) (p1 : String)
    (n2 : Nat) (p2 : String) (n1' n2' : Nat) (hd : (n1', n2') ≠ (n1, n2)) :
    (run H n1 p1 n2 p2 ⟨id, fun _ => ⟨n2', H n1' n2', p2⟩, id⟩).completes = false ∧
    (run H n1 p1 n2 p2 ⟨id, id, fun _ => ⟨H n1' n2'⟩⟩).completes = false ∧
    (n1' ≠ n1 → (run H n1 p1 n2 p2 ⟨fun _ => ⟨n1', p1⟩, id, id⟩).completes = false) := by
  have hne : H n1' n2' ≠ H n1 n2 := by
    intro h
    obtain ⟨a, b⟩ := hH _ _ _ _ h
    exact hd (by rw [a, b])
  refine ⟨?_, ?_, ?_⟩
  · apply tamper_act2_fails H hH
    intro h
    injection h with _ hc _
    exact hne hc
  · apply tamper_act3_fails H
    intro h
    injection h with hc
    exact hne hc
  · intro hn
    apply tamper_act1_fails H hH
    intro h
    injection h with hc _
    exact hn hc

/-- Scope of the "any altered act fails" clause: it is about acts altered *individually*.  A network
    that alters act 1 **and** recomputes the challenges of acts 2 and 3 consistently passes every check
    of this package (`H` is public); only the signatures added by
    `pkg/net/libp2p/authenticated_connection.go` stop it.  Stated so the limit is explicit. -/
theorem coordinated_alteration_completes (H : Nat → Nat → C) (n1 n1' : Nat) (p : String) (n2 : Nat) :
    (run H n1 p n2 p ⟨fun _ => ⟨n1', p⟩, fun m => ⟨m.nonce, H n1 m.nonce, m.proto⟩,
      fun _ => ⟨H n1' n2⟩⟩).completes = true := by
  rw [handshake_completes_iff]; simp

/-- The initiator's side (`runHandshakeAsInitiator`) finishes iff act 1 carries the responder's
    protocol and act 2 carries the initiator's protocol and the challenge derived from the
    initiator's nonce and the delivered `nonce2`. -/
theorem initiator_done_iff (H : Nat → Nat → C) (n1 : Nat) (p1 : String) (n2 : Nat) (p2 : String)
    (net : Net C) :
    (run H n1 p1 n2 p2 net).initiatorDone = expectedInitiatorDone H n1 p1 n2 p2 net := by
  simp only [run, answer, initiatorNext, finalize, expectedInitiatorDone, ne_eq, ite_not]
  generalize net.f1 ⟨n1, p1⟩ = m1
  by_cases h1 : m1.proto = p2
  · simp only [h1, if_true, decide_true, Bool.true_and]
    generalize net.f2 ⟨n2, H m1.nonce n2, p2⟩ = m2
    by_cases h2 : m2.proto = p1
    · simp only [h2, if_true, decide_true, Bool.true_and]
      by_cases h3 : H n1 m2.nonce = m2.challenge
      · have h3' : m2.challenge = H n1 m2.nonce := h3.symm
        simp only [h3, if_true]
        generalize net.f3 ⟨m2.challenge⟩ = m3
        by_cases h4 : H m1.nonce n2 = m3.challenge
        · simp [h4, h3', Outcome.initiatorDone]
        · simp [h4, h3', Outcome.initiatorDone]
      · have h3' : ¬ m2.challenge = H n1 m2.nonce := fun h => h3 h.symm
        simp [h3, h3', Outcome.initiatorDone]
    · simp [h2, Outcome.initiatorDone]
  · simp [h1, Outcome.initiatorDone]

/-! ## Connection level (`conn` ops: the real `authenticated_connection.go` sides) -/

/-- Connection-level result, responder side: `runHandshakeAsResponder` completes **iff** the four
    conditions hold for the acts as delivered (restatement of `handshake_completes_iff` as the
    Boolean the monitor computes). -/
theorem conn_responder_completes_iff (H : Nat → Nat → C) (n1 : Nat) (p1 : String) (n2 : Nat)
    (p2 : String) (net : Net C) :
    (run H n1 p1 n2 p2 net).connObs.2 = true ↔
      (net.f1 ⟨n1, p1⟩).proto = p2 ∧
      (net.f2 ⟨n2, H (net.f1 ⟨n1, p1⟩).nonce n2, p2⟩).proto = p1 ∧
      (net.f2 ⟨n2, H (net.f1 ⟨n1, p1⟩).nonce n2, p2⟩).challenge
        = H n1 (net.f2 ⟨n2, H (net.f1 ⟨n1, p1⟩).nonce n2, p2⟩).nonce ∧
      (net.f3 ⟨(net.f2 ⟨n2, H (net.f1 ⟨n1, p1⟩).nonce n2, p2⟩).challenge⟩).challenge
        = H (net.f1 ⟨n1, p1⟩).nonce n2 :=
  handshake_completes_iff H n1 p1 n2 p2 net

/-- Connection-level result, initiator side: `runHandshakeAsInitiator` finishes **iff** the first
    three conditions hold (it never learns whether the responder accepts act 3). -/
theorem conn_initiator_done_iff (H : Nat → Nat → C) (n1 : Nat) (p1 : String) (n2 : Nat)
    (p2 : String) (net : Net C) :
    (run H n1 p1 n2 p2 net).connObs.1 = true ↔
      (net.f1 ⟨n1, p1⟩).proto = p2 ∧
      (net.f2 ⟨n2, H (net.f1 ⟨n1, p1⟩).nonce n2, p2⟩).proto = p1 ∧
      (net.f2 ⟨n2, H (net.f1 ⟨n1, p1⟩).nonce n2, p2⟩).challenge
        = H n1 (net.f2 ⟨n2, H (net.f1 ⟨n1, p1⟩).nonce n2, p2⟩).nonce := by
  show (run H n1 p1 n2 p2 net).initiatorDone = true ↔ _
  rw [initiator_done_iff]
  simp only [expectedInitiatorDone, Bool.and_eq_true, decide_eq_true_eq]
  constructor
  · rintro ⟨⟨a, b⟩, c⟩; exact ⟨a, b, c⟩
  · rintro ⟨a, b, c⟩; exact ⟨⟨a, b⟩, c⟩

/-- The responder never completes unless the initiator's side finished. -/
theorem conn_responder_implies_initiator (H : Nat → Nat → C) (n1 : Nat) (p1 : String) (n2 : Nat)
    (p2 : String) (net : Net C) (h : (run H n1 p1 n2 p2 net).connObs.2 = true) :
    (run H n1 p1 n2 p2 net).connObs.1 = true := by
  obtain ⟨a, b, c, _⟩ := (conn_responder_completes_iff H n1 p1 n2 p2 net).1 h
  exact (conn_initiator_done_iff H n1 p1 n2 p2 net).2 ⟨a, b, c⟩

/-- The `conn` monitor accepts the observation of every model run (every `H`, nonces, protocols,
    network). -/
theorem holds_model_conn (H : Nat → Nat → C) (n1 : Nat) (p1 : String) (n2 : Nat) (p2 : String)
    (net : Net C) :
    holdsConn H n1 p1 n2 p2 net (run H n1 p1 n2 p2 net).connObs.1 (run H n1 p1 n2 p2 net).connObs.2
      = true := by
  have h1 := completes_eq_expected H n1 p1 n2 p2 net
  have h2 := initiator_done_iff H n1 p1 n2 p2 net
  simp only [expectedComplete, expectedInitiatorDone] at h1 h2
  simp only [holdsConn, Outcome.connObs, h1, h2, beq_self_eq_true, Bool.and_self]

/-! ## Wire level (acts that do not unmarshal) -/

/-- When every delivered act unmarshals, the wire-level run is the message-level run: all theorems
    above apply to it unchanged. -/
theorem runWire_lift (H : Nat → Nat → C) (n1 : Nat) (p1 : String) (n2 : Nat) (p2 : String)
    (net : Net C) : runWire H n1 p1 n2 p2 net.toW = run H n1 p1 n2 p2 net := by
  rfl

/-- Wire-level characterisation: the handshake completes iff all three delivered acts unmarshal
    (to `m1 m2 m3`) and the four conditions of `handshake_completes_iff` hold for them. -/
theorem runWire_completes_iff (H : Nat → Nat → C) (n1 : Nat) (p1 : String) (n2 : Nat) (p2 : String)
    (w : WNet C) :
    (runWire H n1 p1 n2 p2 w).completes = true ↔
      ∃ m1 m2 m3, w.f1 ⟨n1, p1⟩ = some m1 ∧ w.f2 ⟨n2, H m1.nonce n2, p2⟩ = some m2 ∧
        w.f3 ⟨m2.challenge⟩ = some m3 ∧
        m1.proto = p2 ∧ m2.proto = p1 ∧ m2.challenge = H n1 m2.nonce ∧ m3.challenge = H m1.nonce n2 := by
  unfold runWire
  cases h1 : w.f1 ⟨n1, p1⟩ with
  | none => simp [Outcome.completes, h1]
  | some m1 =>
    simp only [answer, ne_eq, ite_not]
    by_cases hp1 : m1.proto = p2
    · simp only [hp1, if_true]
      cases h2 : w.f2 ⟨n2, H m1.nonce n2, p2⟩ with
      | none => simp [Outcome.completes, h1, h2]
      | some m2 =>
        simp only [initiatorNext, ne_eq, ite_not]
        by_cases hp2 : m2.proto = p1
        · simp only [hp2, if_true]
          by_cases hc2 : H n1 m2.nonce = m2.challenge
          · have hc2' : m2.challenge = H n1 m2.nonce := hc2.symm
            simp only [hc2, if_true]
            cases h3 : w.f3 ⟨m2.challenge⟩ with
            | none => simp [Outcome.completes, h1, h2, h3]
            | some m3 =>
              simp only [finalize, ne_eq, ite_not]
              by_cases hc3 : H m1.nonce n2 = m3.challenge
              · constructor
                · intro _
                  exact ⟨m1, m2, m3, rfl, h2, h3, hp1, hp2, hc2', hc3.symm⟩
                · intro _
                  simp [hc3, Outcome.completes]
              · have hc3' : ¬ m3.challenge = H m1.nonce n2 := fun h => hc3 h.symm
                simp [h1, h2, h3, hc3, hc3', Outcome.completes]
          · have hc2' : ¬ m2.challenge = H n1 m2.nonce := fun h => hc2 h.symm
            simp [h1, h2, hc2, hc2', Outcome.completes]
        · simp [h1, h2, hp2, Outcome.completes]
    · simp [h1, hp1, Outcome.completes]

/-- An act that is altered so that it does not unmarshal (e.g. a challenge field of 31 or 33 bytes,
    a nonce field of 7 bytes) makes the handshake fail, whichever act it is. -/
theorem undecodable_act_fails (H : Nat → Nat → C) (n1 : Nat) (p1 : String) (n2 : Nat) (p2 : String)
    (w : WNet C)
    (h : w.f1 ⟨n1, p1⟩ = none ∨ (∀ a2, w.f2 a2 = none) ∨ (∀ a3, w.f3 a3 = none)) :
    (runWire H n1 p1 n2 p2 w).completes = false := by
  cases hc : (runWire H n1 p1 n2 p2 w).completes with
  | false => rfl
  | true =>
    exfalso
    obtain ⟨m1, m2, m3, a, b, c, _⟩ := (runWire_completes_iff H n1 p1 n2 p2 w).1 hc
    rcases h with h | h | h
    · rw [h] at a; cases a
    · rw [h] at b; cases b
    · rw [h] at c; cases c

theorem completesW_eq_expected (H : Nat → Nat → C) (n1 : Nat) (p1 : String) (n2 : Nat) (p2 : String)
    (w : WNet C) : (runWire H n1 p1 n2 p2 w).completes = expectedCompleteW H n1 p1 n2 p2 w := by
  rw [Bool.eq_iff_iff, runWire_completes_iff]
  unfold expectedCompleteW
  constructor
  · rintro ⟨m1, m2, m3, e1, e2, e3, a, b, c, d⟩
    simp only [e1, e2, e3, Bool.and_eq_true, decide_eq_true_eq]
    exact ⟨⟨⟨a, b⟩, c⟩, d⟩
  · intro h
    split at h
    · cases h
    · rename_i m1 e1
      split at h
      · cases h
      · rename_i m2 e2
        split at h
        · cases h
        · rename_i m3 e3
          simp only [Bool.and_eq_true, decide_eq_true_eq] at h
          exact ⟨m1, m2, m3, e1, e2, e3, h.1.1.1, h.1.1.2, h.1.2, h.2⟩

/-- The wire-level monitor accepts every wire-level model run. -/
theorem holds_model_wire (H : Nat → Nat → C) (n1 : Nat) (p1 : String) (n2 : Nat) (p2 : String)
    (w : WNet C) : holdsW H n1 p1 n2 p2 w (runWire H n1 p1 n2 p2 w).completes = true := by
  simp [holdsW, completesW_eq_expected]

/-- T1 tie: the field lengths `Unmarshal` insists on (re-exported constants of marshaling.go). -/
theorem wire_lengths_fact : Gen.C20.nonceByteLength = 8 ∧ Gen.C20.challengeByteLength = 32 := by decide

/-! Non-vacuity: an injective `H` exists (pairs), and the hypotheses of the tamper theorems are
satisfiable; concrete runs evaluate as expected. -/
example : HInjective (fun a b : Nat => (a, b)) := by
  intro a b a' b' h; exact ⟨congrArg Prod.fst h, congrArg Prod.snd h⟩
example : (run (fun a b : Nat => (a, b)) 5 "keep" 7 "keep" Net.honest).completes = true := by decide
example : (run (fun a b : Nat => (a, b)) 5 "keep" 7 "tbtc" Net.honest).completes = false := by decide
example : run (fun a b : Nat => (a, b)) 5 "keep" 7 "keep" ⟨id, fun m => { m with nonce := 8 }, id⟩
    = .iFail ⟨5, "keep"⟩ ⟨7, (5, 7), "keep"⟩ .challenge := by decide
example : run (fun a b : Nat => (a, b)) 5 "keep" 7 "keep" ⟨fun m => { m with nonce := 6 }, id, id⟩
    = .iFail ⟨5, "keep"⟩ ⟨7, (6, 7), "keep"⟩ .challenge := by decide
example : holds (fun a b : Nat => (a, b)) 5 "keep" 7 "keep" Net.honest false = false := by decide

end KeepVerif.C20
