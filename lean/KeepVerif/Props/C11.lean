import KeepVerif.Model.C11
/-!
# C11 — Retry-loop attempts have identical, non-overlapping block windows

Theorems over `Model/C11.lean`.  `sgRun` / `dkRun` are the loops run against an arbitrary script of
collaborator behaviours (block observations, failures, skipped attempts, late starts).  The
central statement: whatever the script, every call the loop makes for attempt `n` carries the
closed-form blocks `annStart/annEnd/timeoutOf c s₀ n` — functions of the initial start block and
the attempt number only, hence the same on every member; and the signing loop enters an attempt
only while its announcement phase has not passed.
-/
namespace KeepVerif.C11

/-! ## T1 ties: the constants extracted from the source -/

/-- `signingAttemptMaximumBlocks()` is the sum of the four phase lengths (a dropped summand or a
    changed constant re-runs, and breaks, this). -/
theorem signing_max_is_sum :
    signingConsts.maxBlocks
      = signingConsts.delay + signingConsts.active + signingConsts.protocol + signingConsts.cooldown := by
  decide

theorem dkg_max_is_sum :
    dkgConsts.maxBlocks = dkgConsts.delay + dkgConsts.active + dkgConsts.protocol + dkgConsts.cooldown := by
  decide

theorem signing_phases_positive :
    0 < signingConsts.delay ∧ 0 < signingConsts.active ∧ 0 < signingConsts.protocol
      ∧ 0 < signingConsts.cooldown := by decide

theorem dkg_phases_positive :
    0 < dkgConsts.delay ∧ 0 < dkgConsts.active ∧ 0 < dkgConsts.protocol ∧ 0 < dkgConsts.cooldown := by
  decide

/-! ## the loop state is a function of the attempt counter -/

/-- loop invariant: before iteration `k+1` the start block is `s₀` (k = 0) or the start of attempt `k` -/
def Inv (c : Consts) (s0 k sb : Nat) : Prop := (k = 0 ∧ sb = s0) ∨ (1 ≤ k ∧ sb = startOf c s0 k)

theorem nextStart_eq {c : Consts} {s0 k sb : Nat} (h : Inv c s0 k sb) :
    nextStart c k sb = startOf c s0 (k + 1) := by
  unfold nextStart startOf
  rcases h with ⟨rfl, rfl⟩ | ⟨hk, rfl⟩
  · simp
  · unfold startOf
    rw [if_pos (by omega)]
    have : k + 1 - 1 = (k - 1) + 1 := by omega
    rw [this, Nat.succ_mul]
    omega

theorem inv_next {c : Consts} {s0 k sb : Nat} (h : Inv c s0 k sb) : Inv c s0 (k + 1) (nextStart c k sb) :=
  Or.inr ⟨by omega, nextStart_eq h⟩

/-- `attempt_start`: after any history the start block of attempt `n` is `s₀ + (n−1)·MaxBlocks`. -/
theorem attempt_start (c : Consts) (s0 : Nat) :
    ∀ n, Inv c s0 n (Nat.rec s0 (fun k sb => nextStart c k sb) n)
  | 0 => Or.inl ⟨rfl, rfl⟩
  | n + 1 => inv_next (attempt_start c s0 n)

/-! ## every event of every run carries the closed-form window of its attempt -/

theorem sgLoop_holds (c : Consts) (sel : Nat → List Nat → C10.Out) (g thr m s0 : Nat) :
    ∀ (script : List SStep) (k sb : Nat), Inv c s0 k sb → holds c s0 (sgLoop c sel g thr m k sb script) = true
  | [], k, sb, _ => by simp [sgLoop, holds, evOk, seenOk]
  | st :: rest, k, sb, h => by
    have hs := nextStart_eq h
    have ih := sgLoop_holds c sel g thr m s0 rest (k + 1) (nextStart c k sb) (inv_next h)
    unfold holds at ih ⊢
    unfold sgLoop
    simp only [hs] at ih ⊢
    repeat' split
    all_goals
      simp only [List.all_cons, List.all_append, List.all_nil, ih, Bool.and_true]
      simp only [evOk, seenOk, Bool.and_eq_true, decide_eq_true_eq, and_true, true_and, Bool.true_and,
        Bool.and_self, and_self]
      try simp only [annStart, annEnd, timeoutOf] at *
      try simp only [true_and, and_true, and_self]
      try omega

theorem dkLoop_holds (c : Consts) (shuf : Nat → List Nat) (ops : List C09.Addr) (q m s0 : Nat) :
    ∀ (script : List DStep) (k sb : Nat), Inv c s0 k sb →
      holds c s0 (dkLoop c shuf ops q m k sb script) = true
  | [], k, sb, _ => by simp [dkLoop, holds, evOk, seenOk]
  | st :: rest, k, sb, h => by
    have hs := nextStart_eq h
    have ih := dkLoop_holds c shuf ops q m s0 rest (k + 1) (nextStart c k sb) (inv_next h)
    unfold holds at ih ⊢
    unfold dkLoop
    simp only [hs] at ih ⊢
    repeat' split
    all_goals
      simp only [List.all_cons, List.all_append, List.all_nil, ih, Bool.and_true]
      simp only [evOk, seenOk, Bool.and_eq_true, decide_eq_true_eq, and_true, true_and, Bool.true_and,
        Bool.and_self, and_self]
      try simp only [annStart, annEnd, timeoutOf] at *
      try simp only [true_and, and_true, and_self]
      try omega

/-- C11 (signing loop): for every script — arbitrary block observations, failures of the block
    counter / waiter / announcer / attempt / done check, minority announcements, attempts this
    member is excluded from, late starts — every call of the loop carries the window blocks of
    its attempt, and the monitor accepts the run. -/
theorem signing_run_holds (c : Consts) (sel : Nat → List Nat → C10.Out) (g thr m s0 : Nat)
    (script : List SStep) : holds c s0 (sgRun c sel g thr m s0 script) = true :=
  sgLoop_holds c sel g thr m s0 script 0 s0 (Or.inl ⟨rfl, rfl⟩)

/-- C11 (DKG loop): same for every script, group layout, quorum and random source. -/
theorem dkg_run_holds (c : Consts) (shuf : Nat → List Nat) (ops : List C09.Addr) (q m s0 : Nat)
    (script : List DStep) : holds c s0 (dkRun c shuf ops q m s0 script) = true :=
  dkLoop_holds c shuf ops q m s0 script 0 s0 (Or.inl ⟨rfl, rfl⟩)

/-- the parameters handed to the attempt function are the window of attempt `n` -/
theorem signing_attempt_params {c : Consts} {sel : Nat → List Nat → C10.Out} {g thr m s0 : Nat} {script : List SStep}
    {n st to : Nat} {ex : List Nat} {seen : Option Nat}
    (h : Ev.attempt n st to ex seen ∈ sgRun c sel g thr m s0 script) :
    st = annEnd c s0 n ∧ to = timeoutOf c s0 n := by
  have := List.all_eq_true.1 (signing_run_holds c sel g thr m s0 script) _ h
  simp only [Bool.and_eq_true] at this
  have h' := this.1
  simp only [evOk, Bool.and_eq_true, decide_eq_true_eq] at h'
  exact h'.2

theorem dkg_attempt_params {c : Consts} {shuf : Nat → List Nat} {ops : List C09.Addr} {q m s0 : Nat}
    {script : List DStep} {n st to : Nat} {ex : List Nat} {r : Nat}
    (h : Ev.dattempt n st to ex r ∈ dkRun c shuf ops q m s0 script) :
    st = annEnd c s0 n ∧ to = timeoutOf c s0 n := by
  have := List.all_eq_true.1 (dkg_run_holds c shuf ops q m s0 script) _ h
  simp only [Bool.and_eq_true] at this
  have h' := this.1
  simp only [evOk, Bool.and_eq_true, decide_eq_true_eq] at h'
  exact h'.2

/-- `windows_equal_across_members`: two members (different member index, different histories,
    even different views of who is ready) that run the loop from the same start block hand the same
    blocks to attempt `n`. -/
theorem windows_equal_across_members {c : Consts} {sel₁ sel₂ : Nat → List Nat → C10.Out} {g thr s0 : Nat} {m₁ m₂ : Nat}
    {script₁ script₂ : List SStep} {n st₁ to₁ st₂ to₂ : Nat} {ex₁ ex₂ : List Nat} {seen₁ seen₂ : Option Nat}
    (h₁ : Ev.attempt n st₁ to₁ ex₁ seen₁ ∈ sgRun c sel₁ g thr m₁ s0 script₁)
    (h₂ : Ev.attempt n st₂ to₂ ex₂ seen₂ ∈ sgRun c sel₂ g thr m₂ s0 script₂) :
    st₁ = st₂ ∧ to₁ = to₂ := by
  obtain ⟨a, b⟩ := signing_attempt_params h₁
  obtain ⟨a', b'⟩ := signing_attempt_params h₂
  exact ⟨a.trans a'.symm, b.trans b'.symm⟩

theorem dkg_windows_equal_across_members {c : Consts} {shuf₁ shuf₂ : Nat → List Nat} {ops : List C09.Addr}
    {q s0 m₁ m₂ : Nat} {script₁ script₂ : List DStep} {n st₁ to₁ st₂ to₂ : Nat} {ex₁ ex₂ : List Nat}
    {r₁ r₂ : Nat}
    (h₁ : Ev.dattempt n st₁ to₁ ex₁ r₁ ∈ dkRun c shuf₁ ops q m₁ s0 script₁)
    (h₂ : Ev.dattempt n st₂ to₂ ex₂ r₂ ∈ dkRun c shuf₂ ops q m₂ s0 script₂) :
    st₁ = st₂ ∧ to₁ = to₂ := by
  obtain ⟨a, b⟩ := dkg_attempt_params h₁
  obtain ⟨a', b'⟩ := dkg_attempt_params h₂
  exact ⟨a.trans a'.symm, b.trans b'.symm⟩

/-- `participates_only_if_not_passed` (signing loop): the attempt function is called for attempt
    `n` only if the block the member observed is before the end of the announcement phase. -/
theorem participates_only_if_not_passed {c : Consts} {sel : Nat → List Nat → C10.Out} {g thr m s0 : Nat} {script : List SStep}
    {n st to cur : Nat} {ex : List Nat}
    (h : Ev.attempt n st to ex (some cur) ∈ sgRun c sel g thr m s0 script) : cur < annEnd c s0 n := by
  have := List.all_eq_true.1 (signing_run_holds c sel g thr m s0 script) _ h
  simp only [Bool.and_eq_true] at this
  simpa [seenOk] using this.2

/-- …and it announces readiness only then. -/
theorem announces_only_if_not_passed {c : Consts} {sel : Nat → List Nat → C10.Out} {g thr m s0 : Nat} {script : List SStep} {n cur : Nat}
    (h : Ev.announce n (some cur) ∈ sgRun c sel g thr m s0 script) : cur < annEnd c s0 n := by
  have := List.all_eq_true.1 (signing_run_holds c sel g thr m s0 script) _ h
  simp only [Bool.and_eq_true] at this
  simpa [seenOk] using this.2

/-! ## windows are ordered and do not overlap -/

theorem window_order (c : Consts) (hd : 0 < c.delay) (ha : 0 < c.active) (hp : 0 < c.protocol)
    (hc : 0 < c.cooldown) (hm : c.maxBlocks = c.delay + c.active + c.protocol + c.cooldown)
    (s0 n : Nat) (hn : 1 ≤ n) :
    startOf c s0 n < annStart c s0 n ∧ annStart c s0 n < annEnd c s0 n
      ∧ annEnd c s0 n < timeoutOf c s0 n ∧ timeoutOf c s0 n < startOf c s0 (n + 1) := by
  have hsucc : startOf c s0 (n + 1) = startOf c s0 n + c.maxBlocks := by
    unfold startOf
    have : n + 1 - 1 = (n - 1) + 1 := by omega
    rw [this, Nat.succ_mul]; omega
  unfold timeoutOf annEnd annStart
  rw [hsucc, hm]
  omega

/-- `announce_lt_timeout_lt_next` for the signing loop with the constants of the source:
    attempt `n+1` begins only after attempt `n` has timed out. -/
theorem signing_announce_lt_timeout_lt_next (s0 n : Nat) (hn : 1 ≤ n) :
    startOf signingConsts s0 n < annStart signingConsts s0 n
      ∧ annStart signingConsts s0 n < annEnd signingConsts s0 n
      ∧ annEnd signingConsts s0 n < timeoutOf signingConsts s0 n
      ∧ timeoutOf signingConsts s0 n < startOf signingConsts s0 (n + 1) :=
  window_order signingConsts signing_phases_positive.1 signing_phases_positive.2.1
    signing_phases_positive.2.2.1 signing_phases_positive.2.2.2 signing_max_is_sum s0 n hn

theorem dkg_announce_lt_timeout_lt_next (s0 n : Nat) (hn : 1 ≤ n) :
    startOf dkgConsts s0 n < annStart dkgConsts s0 n
      ∧ annStart dkgConsts s0 n < annEnd dkgConsts s0 n
      ∧ annEnd dkgConsts s0 n < timeoutOf dkgConsts s0 n
      ∧ timeoutOf dkgConsts s0 n < startOf dkgConsts s0 (n + 1) :=
  window_order dkgConsts dkg_phases_positive.1 dkg_phases_positive.2.1
    dkg_phases_positive.2.2.1 dkg_phases_positive.2.2.2 dkg_max_is_sum s0 n hn

/-- windows of different attempts are disjoint: `m < n → timeout m < start n` -/
theorem windows_disjoint (c : Consts) (hd : 0 < c.delay) (ha : 0 < c.active) (hp : 0 < c.protocol)
    (hc : 0 < c.cooldown) (hm : c.maxBlocks = c.delay + c.active + c.protocol + c.cooldown)
    (s0 a b : Nat) (ha1 : 1 ≤ a) (hab : a < b) : timeoutOf c s0 a < startOf c s0 b := by
  have h1 := (window_order c hd ha hp hc hm s0 a ha1).2.2.2
  have mono : startOf c s0 (a + 1) ≤ startOf c s0 b := by
    unfold startOf
    exact Nat.add_le_add_left (Nat.mul_le_mul_right _ (by omega)) _
  omega

/-! ## soundness of the observed non-overlap monitor -/

/-- `noOverlap` accepts every event list that `holds` accepts (given the T1 facts about the
    constants), hence every run of either loop. -/
theorem noOverlap_of_holds (c : Consts) (hd : 0 < c.delay) (ha : 0 < c.active) (hp : 0 < c.protocol)
    (hc : 0 < c.cooldown) (hm : c.maxBlocks = c.delay + c.active + c.protocol + c.cooldown)
    (s0 : Nat) (evs : List Ev) (h : holds c s0 evs = true) : noOverlap c evs = true := by
  unfold holds at h
  rw [List.all_eq_true] at h
  unfold noOverlap
  rw [List.all_eq_true]
  intro e he
  cases e with
  | wait n' b =>
    have hb := h _ he
    simp only [evOk, seenOk, Bool.and_true, decide_eq_true_eq] at hb
    rw [List.all_eq_true]
    intro p hp'
    obtain ⟨ev, hev, htp⟩ := List.mem_filterMap.1 hp'
    have hev' := h _ hev
    have key : 1 ≤ p.1 ∧ p.2 = timeoutOf c s0 p.1 := by
      cases ev <;> simp only [timeoutsOf] at htp <;> try cases htp
      all_goals
        simp only [evOk, Bool.and_eq_true, decide_eq_true_eq] at hev'
      · exact ⟨hev'.1.1, hev'.1.2⟩
      · exact ⟨hev'.1.1, hev'.1.2.2⟩
      · exact ⟨hev'.1.1, hev'.1.2.2⟩
    simp only [Bool.or_eq_true, decide_eq_true_eq]
    rcases Nat.lt_or_ge p.1 n' with hlt | hge
    · right
      have := windows_disjoint c hd ha hp hc hm s0 p.1 n' key.1 hlt
      rw [key.2, hb]
      unfold annStart
      omega
    · left; exact hge
  | _ => rfl

theorem signing_run_noOverlap (sel : Nat → List Nat → C10.Out) (g thr m s0 : Nat) (script : List SStep) :
    noOverlap signingConsts (sgRun signingConsts sel g thr m s0 script) = true :=
  noOverlap_of_holds signingConsts signing_phases_positive.1 signing_phases_positive.2.1
    signing_phases_positive.2.2.1 signing_phases_positive.2.2.2 signing_max_is_sum s0 _
    (signing_run_holds _ sel g thr m s0 script)

theorem dkg_run_noOverlap (shuf : Nat → List Nat) (ops : List C09.Addr) (q m s0 : Nat) (script : List DStep) :
    noOverlap dkgConsts (dkRun dkgConsts shuf ops q m s0 script) = true :=
  noOverlap_of_holds dkgConsts dkg_phases_positive.1 dkg_phases_positive.2.1
    dkg_phases_positive.2.2.1 dkg_phases_positive.2.2.2 dkg_max_is_sum s0 _
    (dkg_run_holds _ shuf ops q m s0 script)

/-! ## the DKG loop enters an attempt only with quorum in *that* iteration's announcement -/

theorem dkgEntryOk_shift (q k : Nat) (st : DStep) (rest : List DStep) (e : Ev)
    (h : dkgEntryOk q (k + 1) rest e = true) : dkgEntryOk q k (st :: rest) e = true := by
  cases e with
  | dattempt n s t ex r =>
    simp only [dkgEntryOk, Bool.and_eq_true, decide_eq_true_eq] at h ⊢
    obtain ⟨hk, hrest⟩ := h
    refine ⟨by omega, ?_⟩
    have : n - k - 1 = (n - (k + 1) - 1) + 1 := by omega
    rw [this, List.getElem?_cons_succ]
    exact hrest
  | _ => rfl

theorem dkLoop_entry (c : Consts) (shuf : Nat → List Nat) (ops : List C09.Addr) (q m : Nat) :
    ∀ (script : List DStep) (k sb : Nat),
      (dkLoop c shuf ops q m k sb script).all (dkgEntryOk q k script) = true
  | [], k, sb => by simp [dkLoop, dkgEntryOk]
  | st :: rest, k, sb => by
    have ih := dkLoop_entry c shuf ops q m rest (k + 1) (nextStart c k sb)
    have ih' : (dkLoop c shuf ops q m (k + 1) (nextStart c k sb) rest).all (dkgEntryOk q k (st :: rest)) = true := by
      rw [List.all_eq_true] at ih ⊢
      exact fun e he => dkgEntryOk_shift q k st rest e (ih e he)
    unfold dkLoop
    simp only []
    repeat' split
    all_goals
      simp only [List.all_cons, List.all_append, List.all_nil, ih', Bool.and_true]
      simp only [dkgEntryOk, Bool.and_eq_true, decide_eq_true_eq, and_true, true_and, Bool.true_and,
        Bool.and_self, and_self, Nat.add_sub_cancel_left, Nat.sub_self, List.getElem?_cons_zero,
        Nat.lt_add_one, decide_true, show k + 1 - k - 1 = 0 by omega]
      try omega

/-- every call of the DKG attempt function for attempt `n` was preceded, in iteration `n` itself,
    by an announcement that returned at least `quorum` ready members -/
theorem dkg_attempt_has_quorum {c : Consts} {shuf : Nat → List Nat} {ops : List C09.Addr} {q m s0 : Nat}
    {script : List DStep} {n st to r : Nat} {ex : List Nat}
    (h : Ev.dattempt n st to ex r ∈ dkRun c shuf ops q m s0 script) :
    ∃ s, script[n - 1]? = some s ∧ r = s.ready.length ∧ q ≤ s.ready.length := by
  have := List.all_eq_true.1 (dkLoop_entry c shuf ops q m script 0 s0) _ h
  simp only [dkgEntryOk, Bool.and_eq_true, decide_eq_true_eq, Nat.sub_zero] at this
  obtain ⟨_, h2⟩ := this
  split at h2
  · rename_i s hs
    simp only [Bool.and_eq_true, decide_eq_true_eq] at h2
    exact ⟨s, hs, h2.1, h2.1 ▸ h2.2⟩
  · cases h2

/-- The DKG loop never looks at the current block; whether a member that reaches attempt `n` late
    takes part is decided by the announcer alone.  The statement that holds unconditionally: if the
    announcement of iteration `n` returned fewer than `quorum` members, the attempt function is not
    called for `n`. -/
theorem dkg_no_attempt_below_quorum {c : Consts} {shuf : Nat → List Nat} {ops : List C09.Addr} {q m s0 : Nat}
    {script : List DStep} {n : Nat} {s : DStep} (hs : script[n - 1]? = some s)
    (hbelow : s.ready.length < q) :
    ∀ st to ex r, Ev.dattempt n st to ex r ∉ dkRun c shuf ops q m s0 script := by
  intro st to ex r h
  obtain ⟨s', hs', _, hq'⟩ := dkg_attempt_has_quorum h
  rw [hs] at hs'
  injection hs' with hs'
  subst hs'
  omega

/-- `dkg_participates_partial`: the instance for a passed announcement window under **A-ann**
    (`Announce` on a context that is already done returns only the caller) and `quorum > 1`.

    A-ann was checked against the real `pkg/protocol/announcer` (harness/c11/announcer.go, `ann`
    ops, hundreds of repetitions each):
    * with a broadcast channel that honours the contract of the real libp2p channel (the handler is
      never invoked once the context is done) a call on an already cancelled context returns exactly
      `[caller]` every time — A-ann holds, and the harness checks it on every run;
    * if announcements of the session already sit in the announcer's own buffer when the context is
      done, Go's `select` between the buffer and `ctx.Done()` does pick them (observed in every
      `eager` case with `k > 0`): the result is then the caller plus a random subset of the buffered
      senders.  The DKG loop cancels the announcement context from a separate goroutine, after
      `Announce` may already have registered its handler, so for a late member this window exists
      for as long as other members' announcements of that session are still in flight.
    Hence A-ann is a property of "context done before the handler is registered", not of the DKG
    loop as such; `dkg_no_attempt_below_quorum` is the unconditional statement. -/
theorem dkg_participates_partial {c : Consts} {shuf : Nat → List Nat} {ops : List C09.Addr} {q m s0 : Nat}
    {script : List DStep} {n : Nat} {s : DStep} (hq : 1 < q) (hs : script[n - 1]? = some s)
    (hpassed : s.ready.length ≤ 1) :
    ∀ st to ex r, Ev.dattempt n st to ex r ∉ dkRun c shuf ops q m s0 script :=
  dkg_no_attempt_below_quorum hs (by omega)

/-! ## non-vacuity -/

example : sgRun signingConsts (fun _ r => .ok ([1, 2, 3].filter (fun m => !r.contains m))) 3 2 1 100
    [⟨some 100, false, false, [1, 2], .attemptErr⟩, ⟨some 400, false, false, [1, 2], .success⟩,
     ⟨some 150, false, false, [1, 3], .success⟩]
    = [.cur 1, .wait 1 101, .asyncAnn 1 106, .announce 1 (some 100), .asyncTimeout 1 136, .listen 1 136 [1, 2],
       .attempt 1 106 136 [3] (some 100), .cur 2, .cur 3, .wait 3 183, .asyncAnn 3 188, .announce 3 (some 150),
       .asyncTimeout 3 218, .listen 3 218 [1, 3], .attempt 3 188 218 [2] (some 150), .signal 3, .waitDone 3,
       .retOk 3 218] := by decide
example : holds signingConsts 100 [.attempt 2 147 177 [] (some 140)] = true := by decide
example : holds signingConsts 100 [.attempt 2 146 177 [] (some 140)] = false := by decide
example : holds signingConsts 100 [.attempt 2 147 177 [] (some 147)] = false := by decide

example : noOverlap signingConsts [.attempt 1 106 136 [] none, .wait 2 142] = true := by decide
example : noOverlap signingConsts [.attempt 1 106 136 [] none, .wait 2 137] = false := by decide

end KeepVerif.C11
