import KeepVerif.Model.C39
/-!
# C39 — the pre-parameter pool never serves a parameter twice or an invalid one
-/
namespace KeepVerif.C39

/-- what is in the channel, oldest first, including the value a blocked generator holds. -/
def chan (s : St) : List (Option Nat) := s.pool ++ s.pending.toList

def ids (s : St) : List Nat := (chan s).filterMap id

structure Inv (s : St) : Prop where
  idsNodup : (ids s).Nodup
  idsOnDisk : ∀ x ∈ ids s, x ∈ s.disk
  diskNodup : s.disk.Nodup
  diskFresh : ∀ x ∈ s.disk, x < s.next
  servedFresh : ∀ x ∈ s.served, x < s.next
  servedGone : ∀ x ∈ s.served, x ∉ s.disk
  servedNodup : s.served.Nodup
  bounded : s.pool.length ≤ s.size
  pendFull : s.pending.isSome → s.size ≤ s.pool.length

theorem inv_init (size : Nat) : Inv (init size) := by
  constructor <;> simp [init, ids, chan]

theorem recv_spec {s s' : St} {e : Option Nat} (h : recv s = some (e, s')) :
    chan s = e :: chan s' ∧ s'.disk = s.disk ∧ s'.next = s.next ∧ s'.served = s.served ∧
    s'.size = s.size ∧ s'.dead = s.dead ∧ s'.pool.length ≤ s.pool.length ∧
    (s'.pending.isSome → False) := by
  unfold recv at h
  split at h <;> simp at h <;> obtain ⟨rfl, rfl⟩ := h <;> simp_all [chan]


theorem inv_dead {s : St} (h : Inv s) (b : Bool) : Inv { s with dead := b } := by
  obtain ⟨h1, h2, h3, h4, h5, h6, h7, h8, h9⟩ := h
  constructor <;> assumption

theorem inv_bump {s : St} (h : Inv s) : Inv { s with next := s.next + 1 } := by
  obtain ⟨h1, h2, h3, h4, h5, h6, h7, h8, h9⟩ := h
  constructor <;> simp_all [ids, chan] <;> grind

theorem inv_addDisk {s : St} (h : Inv s) :
    Inv { s with disk := s.disk ++ [s.next], next := s.next + 1 } := by
  obtain ⟨h1, h2, h3, h4, h5, h6, h7, h8, h9⟩ := h
  constructor <;> simp_all [ids, chan, List.nodup_append] <;> grind

theorem inv_push_some {s : St} (h : Inv s) (hp : s.pending = none) (x : Nat)
    (hx : x ∈ s.disk) (hn : x ∉ ids s) : Inv (push s (some x)).1 := by
  obtain ⟨h1, h2, h3, h4, h5, h6, h7, h8, h9⟩ := h
  unfold push
  split <;> constructor <;> simp_all [ids, chan, List.nodup_append, List.filterMap_append] <;> grind

theorem inv_push_none {s : St} (h : Inv s) (hp : s.pending = none) : Inv (push s none).1 := by
  obtain ⟨h1, h2, h3, h4, h5, h6, h7, h8, h9⟩ := h
  unfold push
  split <;> constructor <;> simp_all [ids, chan, List.nodup_append, List.filterMap_append] <;> grind

theorem filterMap_id_map_some (l : List Nat) : (l.map some).filterMap id = l := by
  induction l <;> simp_all

theorem ids_reload (s : St) (ok : Bool) :
    ids (reload s ok) = if ok then s.disk.take s.size else [] := by
  cases ok
  · simp [reload, ids, chan]
  · simp only [reload, ids, chan, if_true, Option.toList_none, List.append_nil]
    exact filterMap_id_map_some _

theorem inv_reload {s : St} (h : Inv s) (ok : Bool) : Inv (reload s ok) := by
  obtain ⟨h1, h2, h3, h4, h5, h6, h7, h8, h9⟩ := h
  constructor
  · rw [ids_reload]; split
    · exact h3.sublist (List.take_sublist _ _)
    · simp
  · rw [ids_reload]; split
    · intro x hx; exact List.mem_of_mem_take hx
    · simp
  all_goals (cases ok <;> simp_all [reload, List.length_take] <;> omega)

theorem inv_recv {s s' : St} {e : Option Nat} (h : Inv s) (hr : recv s = some (e, s')) :
    Inv s' ∧ ∀ x, e = some x → x ∈ s'.disk ∧ x ∉ ids s' := by
  obtain ⟨hc, hd, hn, hs, hz, _, hl, hp⟩ := recv_spec hr
  obtain ⟨h1, h2, h3, h4, h5, h6, h7, h8, h9⟩ := h
  have hids : ids s = (e.toList) ++ ids s' := by
    simp only [ids, hc]; cases e <;> simp
  refine ⟨?_, ?_⟩
  · constructor
    · rw [hids] at h1; exact (List.nodup_append.1 h1).2.1
    · intro x hx; rw [hd]; exact h2 x (by rw [hids]; simp [hx])
    · rw [hd]; exact h3
    · rw [hd, hn]; exact h4
    · rw [hs, hn]; exact h5
    · rw [hs, hd]; exact h6
    · rw [hs]; exact h7
    · rw [hz]; omega
    · intro hh; exact (hp hh).elim
  · intro x hx; subst hx
    rw [hids] at h1 h2
    refine ⟨by rw [hd]; exact h2 x (by simp), ?_⟩
    intro hmem
    have := (List.nodup_append.1 h1).2.2 x (by simp) x hmem
    exact this rfl

theorem inv_serve {s : St} (h : Inv s) (x : Nat) (hx : x ∈ s.disk) (hn : x ∉ ids s) :
    Inv { s with disk := s.disk.erase x, served := x :: s.served } := by
  obtain ⟨h1, h2, h3, h4, h5, h6, h7, h8, h9⟩ := h
  constructor <;> simp_all [ids, chan] <;> grind [List.Nodup.erase, List.Nodup.mem_erase_iff, List.mem_of_mem_erase]

theorem inv_erase {s : St} (h : Inv s) (x : Nat) (hn : x ∉ ids s) :
    Inv { s with disk := s.disk.erase x } := by
  obtain ⟨h1, h2, h3, h4, h5, h6, h7, h8, h9⟩ := h
  constructor <;> simp_all [ids, chan] <;> grind [List.Nodup.erase, List.Nodup.mem_erase_iff, List.mem_of_mem_erase]

theorem inv_dropPending {s : St} (h : Inv s) : Inv { s with pending := none } := by
  obtain ⟨h1, h2, h3, h4, h5, h6, h7, h8, h9⟩ := h
  have hsub : (ids { s with pending := none }).Sublist (ids s) := by
    simp only [ids, chan, Option.toList_none, List.append_nil]
    exact (List.sublist_append_left _ _).filterMap _
  constructor
  · exact h1.sublist hsub
  · intro x hx; exact h2 x (hsub.subset hx)
  · exact h3
  · exact h4
  · exact h5
  · exact h6
  · exact h7
  · exact h8
  · intro hh; simp at hh

theorem pending_none_of_not_isSome {s : St} (hp : ¬ s.pending.isSome = true) : s.pending = none := by
  cases hs : s.pending <;> simp_all

theorem next_not_in_ids {s : St} (h : Inv s) : s.next ∉ ids s := by
  intro hm
  have := h.diskFresh _ (h.idsOnDisk _ hm)
  omega

/-- every step preserves the invariant — for the code with and without the early return. -/
theorem inv_step (fixed : Bool) {s : St} (h : Inv s) (op : Op) : Inv (step fixed s op).1 := by
  cases op
  case gen =>
    simp only [step]
    split
    · exact h
    · rename_i hp
      have hp' := pending_none_of_not_isSome hp
      have h1 := inv_addDisk h
      have h2 := inv_push_some h1 hp' s.next (by simp) (next_not_in_ids h)
      generalize hq : push _ _ = q at h2 ⊢
      obtain ⟨s', b⟩ := q
      exact h2
  case genFail =>
    simp only [step]
    split
    · exact h
    · rename_i hp
      have hp' := pending_none_of_not_isSome hp
      have h1 := inv_bump h
      split
      · exact h1
      · have h2 := inv_push_none h1 hp'
        generalize hq : push _ _ = q at h2 ⊢
        obtain ⟨s', b⟩ := q
        exact h2
  case genFailWrote =>
    simp only [step]
    split
    · exact h
    · rename_i hp
      have hp' := pending_none_of_not_isSome hp
      have h1 := inv_addDisk h
      split
      · exact h1
      · have h2 := inv_push_none h1 hp'
        generalize hq : push _ _ = q at h2 ⊢
        obtain ⟨s', b⟩ := q
        exact h2
  case genNil => simp only [step]; split <;> exact h
  case genCrash =>
    simp only [step]
    split
    · exact h
    · exact inv_reload (inv_addDisk h) true
  case genTorn =>
    simp only [step]
    split
    · exact h
    · exact inv_reload (inv_bump h) true
  case take =>
    simp only [step]
    split
    · exact h
    · rename_i s' hr; exact inv_dead (inv_recv h hr).1 true
    · rename_i x s' hr
      obtain ⟨hi, hx⟩ := inv_recv h hr
      exact inv_serve hi x (hx x rfl).1 (hx x rfl).2
  case takeFail =>
    simp only [step]
    split
    · exact h
    · rename_i s' hr; exact inv_dead (inv_recv h hr).1 true
    · rename_i x s' hr; exact (inv_recv h hr).1
  case takeCrashBefore =>
    simp only [step]
    split
    · exact h
    · rename_i s' hr; exact inv_dead (inv_recv h hr).1 true
    · rename_i x s' hr; exact inv_reload (inv_recv h hr).1 true
  case takeCrashAfter =>
    simp only [step]
    split
    · exact h
    · rename_i s' hr; exact inv_dead (inv_recv h hr).1 true
    · rename_i x s' hr
      obtain ⟨hi, hx⟩ := inv_recv h hr
      exact inv_reload (inv_erase hi x (hx x rfl).2) true
  case restart => exact inv_reload h true
  case restartFail => exact inv_reload h false
  case pause => exact inv_dropPending h

theorem size_push (s : St) (e : Option Nat) : (push s e).1.size = s.size := by
  unfold push; split <;> rfl

theorem size_step (fixed : Bool) (s : St) (op : Op) : (step fixed s op).1.size = s.size := by
  cases op <;> simp only [step] <;> (repeat' split) <;>
    first
    | rfl
    | (rename_i hr; have := (recv_spec hr).2.2.2.2.1; simpa [reload] using this)
    | (simp [size_push, reload])

theorem served_push (s : St) (e : Option Nat) : (push s e).1.served = s.served := by
  unfold push; split <;> rfl

theorem served_step (fixed : Bool) (s : St) (op : Op) :
    (step fixed s op).1.served = servedOf [(step fixed s op).2] ++ s.served := by
  cases op <;> simp only [step] <;> (repeat' split) <;>
    first
    | rfl
    | (rename_i hr; have := (recv_spec hr).2.2.2.1; simpa [reload, servedOf] using this)
    | (simp [served_push, reload, servedOf])

/-- no nil pointer in the channel nor in the hands of the blocked generator. -/
def NoNil (s : St) : Prop := ∀ e ∈ chan s, e ≠ none

theorem nonil_push {s : St} (h : NoNil s) (hp : s.pending = none) (x : Nat) :
    NoNil (push s (some x)).1 := by
  unfold push NoNil chan at *
  split <;> simp_all <;> grind

theorem nonil_reload (s : St) (ok : Bool) : NoNil (reload s ok) := by
  cases ok <;> simp [NoNil, chan, reload] <;> grind [List.mem_of_mem_take]

theorem nonil_recv {s s' : St} {e : Option Nat} (h : NoNil s) (hr : recv s = some (e, s')) :
    NoNil s' ∧ e ≠ none := by
  have hc := (recv_spec hr).1
  unfold NoNil at *
  rw [hc] at h
  exact ⟨fun x hx => h x (by simp [hx]), h e (by simp)⟩

/-- the corrected generator loop never lets a nil into the pool, and `GetNow` never panics. -/
theorem nonil_step {s : St} (h : NoNil s) (op : Op) :
    NoNil (step true s op).1 ∧ (step true s op).2 ≠ .panic ∧ (step true s op).1.dead = s.dead := by
  cases op
  case gen =>
    simp only [step]
    split
    · exact ⟨h, by simp, rfl⟩
    · rename_i hp
      have h2 := nonil_push (s := { s with disk := s.disk ++ [s.next], next := s.next + 1 }) h
        (pending_none_of_not_isSome hp) s.next
      refine ⟨h2, by simp, ?_⟩
      simp [push]; split <;> rfl
  case genFail => simp only [step]; split <;> exact ⟨h, by simp, rfl⟩
  case genFailWrote => simp only [step]; split <;> exact ⟨h, by simp, rfl⟩
  case genNil => simp only [step]; split <;> exact ⟨h, by simp, rfl⟩
  case genCrash =>
    simp only [step]; split
    · exact ⟨h, by simp, rfl⟩
    · exact ⟨nonil_reload _ _, by simp, rfl⟩
  case genTorn =>
    simp only [step]; split
    · exact ⟨h, by simp, rfl⟩
    · exact ⟨nonil_reload _ _, by simp, rfl⟩
  case restart => exact ⟨nonil_reload _ _, by simp [step], rfl⟩
  case restartFail => exact ⟨nonil_reload _ _, by simp [step], rfl⟩
  case pause =>
    refine ⟨?_, by simp [step], rfl⟩
    intro e he
    apply h e
    simp only [step, chan, Option.toList_none, List.append_nil] at he
    simp [chan, he]
  all_goals
    simp only [step]
    split
    · exact ⟨h, by simp, rfl⟩
    · rename_i s' hr; exact absurd rfl (nonil_recv h hr).2
    · rename_i x s' hr
      have hd := (recv_spec hr).2.2.2.2.2.1
      first
      | exact ⟨(nonil_recv h hr).1, by simp, hd⟩
      | exact ⟨nonil_reload _ _, by simp, by simpa [reload] using hd⟩

/-- `Delete` removed the file before `GetNow` returned (the storage holds each id once). -/
theorem val_step (fixed : Bool) {s : St} (h : Inv s) (op : Op) (x : Nat) (d : Bool)
    (ho : (step fixed s op).2 = .val x d) : d = false := by
  cases op <;> simp only [step] at ho <;> (repeat' split at ho) <;> simp at ho
  rename_i y s' hr
  obtain ⟨hi, _⟩ := inv_recv h hr
  obtain ⟨rfl, rfl⟩ := ho
  have := hi.diskNodup
  simp [List.Nodup.mem_erase_iff this]

/-! ## Histories -/

/-- induction principle over a history: a step-invariant `Q` holds in the final state, every output
    is one a `Q`-state produces and every recorded count is the pool length of a `Q`-state. -/
theorem runFrom_ind (fixed : Bool) (Q : St → Prop) (P : Out → Prop)
    (hQ : ∀ s op, Q s → Q (step fixed s op).1)
    (hP : ∀ s op, Q s → P (step fixed s op).2) :
    ∀ (ops : List Op) (s : St), Q s →
      Q (runFrom fixed s ops).1 ∧ (∀ o ∈ (runFrom fixed s ops).2.1, P o) ∧
      (∀ c ∈ (runFrom fixed s ops).2.2, ∃ s', Q s' ∧ c = s'.pool.length) := by
  intro ops
  induction ops with
  | nil => intro s hs; simp [runFrom, hs]
  | cons op ops ih =>
    intro s hs
    simp only [runFrom]
    generalize hst : step fixed s op = r
    obtain ⟨s', o⟩ := r
    have hs' : Q s' := by have := hQ s op hs; rw [hst] at this; exact this
    have ho : P o := by have := hP s op hs; rw [hst] at this; exact this
    simp only
    split
    · simp [hs', ho]
    · obtain ⟨a, b, c⟩ := ih s' hs'
      refine ⟨a, ?_, ?_⟩
      · intro o' ho'
        simp only [List.mem_cons] at ho'
        rcases ho' with rfl | ho'
        · exact ho
        · exact b o' ho'
      · intro c' hc'
        simp only [List.mem_cons] at hc'
        rcases hc' with rfl | hc'
        · exact ⟨s', hs', rfl⟩
        · exact c c' hc'

theorem served_runFrom (fixed : Bool) (ops : List Op) (s : St) :
    (runFrom fixed s ops).1.served = (servedOf (runFrom fixed s ops).2.1).reverse ++ s.served := by
  induction ops generalizing s with
  | nil => simp [runFrom, servedOf]
  | cons op ops ih =>
    simp only [runFrom]
    have h1 := served_step fixed s op
    generalize hst : step fixed s op = r at h1
    obtain ⟨s', o⟩ := r
    simp only at h1 ⊢
    split
    · rw [h1]; cases o <;> simp [servedOf]
    · rw [ih s', h1]; cases o <;> simp [servedOf]

theorem inv_run (fixed : Bool) (size : Nat) (ops : List Op) : Inv (run fixed size ops).1 :=
  (runFrom_ind fixed Inv (fun _ => True) (fun s op h => inv_step fixed h op) (fun _ _ _ => trivial)
    ops (init size) (inv_init size)).1

/-- C39 never-twice: over any history of generation, consumption, storage failures, crashes and
    restarts — for the code with or without the early return — the parameters handed out by
    `GetNow` are pairwise distinct. -/
theorem never_twice (fixed : Bool) (size : Nat) (ops : List Op) :
    (servedOf (run fixed size ops).2.1).Nodup := by
  have h := (inv_run fixed size ops).servedNodup
  unfold run at *
  rw [served_runFrom] at h
  simp only [init, List.append_nil] at h
  unfold List.Nodup at h ⊢
  rw [List.pairwise_reverse] at h
  exact h.imp (fun hab => Ne.symm hab)

/-- C39 size bound: after every step the pool holds at most its configured size. -/
theorem size_bounded (fixed : Bool) (size : Nat) (ops : List Op) :
    ∀ c ∈ (run fixed size ops).2.2, c ≤ size := by
  intro c hc
  have := (runFrom_ind fixed (fun s => Inv s ∧ s.size = size) (fun _ => True)
    (fun s op h => ⟨inv_step fixed h.1 op, by rw [size_step]; exact h.2⟩) (fun _ _ _ => trivial)
    ops (init size) ⟨inv_init size, rfl⟩).2.2 c hc
  obtain ⟨s', ⟨hi, hz⟩, rfl⟩ := this
  rw [← hz]; exact hi.bounded

/-- C39 deleted-before-use: a parameter handed out is off the storage when `GetNow` returns, and is
    still (forever) off the storage at the end of the history. -/
theorem deleted_before_use (fixed : Bool) (size : Nat) (ops : List Op) (x : Nat) (d : Bool)
    (h : Out.val x d ∈ (run fixed size ops).2.1) :
    d = false ∧ x ∉ (run fixed size ops).1.disk := by
  constructor
  · exact (runFrom_ind fixed Inv (fun o => ∀ x d, o = .val x d → d = false)
      (fun s op h => inv_step fixed h op) (fun s op h x d ho => val_step fixed h op x d ho)
      ops (init size) (inv_init size)).2.1 _ h x d rfl
  · apply (inv_run fixed size ops).servedGone
    unfold run at *
    rw [served_runFrom]
    have : x ∈ servedOf (runFrom fixed (init size) ops).2.1 := by
      generalize (runFrom fixed (init size) ops).2.1 = outs at h
      induction outs with
      | nil => simp at h
      | cons o outs ih =>
        simp only [List.mem_cons] at h
        rcases h with rfl | h
        · simp [servedOf]
        · cases o <;> simp [servedOf, ih h]
    simp [this]

/-- C39 never-nil, for the code that returns after a failed `Save`: no history makes `GetNow`
    dereference a nil parameter. -/
theorem never_nil (size : Nat) (ops : List Op) : Out.panic ∉ (run true size ops).2.1 := by
  intro hmem
  exact (runFrom_ind true NoNil (fun o => o ≠ .panic)
    (fun s op h => (nonil_step h op).1) (fun s op h => (nonil_step h op).2.1)
    ops (init size) (by simp [NoNil, chan, init])).2.1 _ hmem rfl

/-- T1 tie: the tree's generator loop does return after a failed `Save` (extracted from
    pkg/generator/pool.go on every run), hence `never_nil` is about the code as it is. -/
theorem source_returns_on_save_error : Gen.C39.returnsOnSaveError = true := by decide

/-- T1 tie for the second repaired defect: `preParamsStorage.ReadAll` rejects files whose numbers
    are missing (an empty file left by a crash during `Save` used to pass the nil-only tss-lib
    validation and was served as an all-zero parameter; replay `ppool 1 9 gt,t,t`). The model's
    `genTorn` step relies on it. -/
theorem source_rejects_incomplete_files : Gen.C39.loadRejectsIncompleteFiles = true := by decide

theorem never_nil_current (size : Nat) (ops : List Op) :
    Out.panic ∉ (run Gen.C39.returnsOnSaveError size ops).2.1 := by
  rw [source_returns_on_save_error]; exact never_nil size ops

/-- The defect of the tree before the `fix:` commit: one failed `Save`, then `GetNow` ⇒ panic. -/
theorem failed_save_pushes_nil_counterexample :
    (run false 1 [.genFail, .take]).2.1 = [.failed false, .panic] := by decide

/-- what did hold of the uncorrected loop: without a failing `Save` no nil is ever served. -/
theorem never_nil_partial (fixed : Bool) (size : Nat) (ops : List Op)
    (hok : ∀ op ∈ ops, op ≠ .genFail ∧ op ≠ .genFailWrote) :
    Out.panic ∉ (run fixed size ops).2.1 := by
  cases fixed
  · have : ∀ s, runFrom false s ops = runFrom true s ops := by
      induction ops with
      | nil => intro s; rfl
      | cons op ops ih =>
        intro s
        have hop := hok op (by simp)
        have hs : step false s op = step true s op := by
          cases op <;> simp_all [step]
        simp only [runFrom, hs, ih (fun o ho => hok o (by simp [ho]))]
    unfold run; rw [this]; exact never_nil size ops
  · exact never_nil size ops

/-- a failing `Delete`: the parameter is not handed out (and stays on storage for a restart). -/
theorem delete_failure_not_served (fixed : Bool) (s : St) :
    (step fixed s .takeFail).1.served = s.served ∧ (step fixed s .takeFail).1.disk = s.disk ∧
    ∀ x d, (step fixed s .takeFail).2 ≠ .val x d := by
  simp only [step]
  split
  · simp
  · rename_i s' hr; have := recv_spec hr; simp [this]
  · rename_i x s' hr; have := recv_spec hr; simp [this]

/-! ## The monitor accepts every output of the model -/

theorem noDup_iff (l : List Nat) : noDup l = true ↔ l.Nodup := by
  induction l with
  | nil => simp [noDup]
  | cons a l ih => simp [noDup, ih, List.nodup_cons]

theorem mem_servedOf {x : Nat} {outs : List Out} (h : x ∈ servedOf outs) :
    ∃ d, Out.val x d ∈ outs := by
  induction outs with
  | nil => simp [servedOf] at h
  | cons o outs ih =>
    cases o <;> simp only [servedOf, List.mem_cons] at h
    case val y d =>
      rcases h with rfl | h
      · exact ⟨d, by simp⟩
      · obtain ⟨d', hd⟩ := ih h; exact ⟨d', by simp [hd]⟩
    all_goals (obtain ⟨d', hd⟩ := ih h; exact ⟨d', by simp [hd]⟩)

/-- the monitor `holds` accepts what the (corrected, = current) model does on every history: the
    four clauses of C39 hold together. With correspondence on the observation line this carries
    the theorems to the implementation's behaviour. -/
theorem holds_model (size : Nat) (ops : List Op) :
    holds size (run true size ops).2.1 (run true size ops).2.2 (run true size ops).1.disk = true := by
  simp only [holds, Bool.and_eq_true, List.all_eq_true, decide_eq_true_eq, Bool.not_eq_true']
  refine ⟨⟨⟨?_, ?_⟩, ?_⟩, ?_⟩
  · intro o ho
    cases o <;> simp only [outOk]
    case panic => exact absurd ho (never_nil size ops)
    case val x d =>
      have := (deleted_before_use true size ops x d ho).1
      subst this; rfl
  · exact (noDup_iff _).2 (never_twice true size ops)
  · exact size_bounded true size ops
  · intro x hx
    obtain ⟨d, hd⟩ := mem_servedOf hx
    have := (deleted_before_use true size ops x d hd).2
    simpa using this

/-! non-vacuity: a history with every kind of fault serves each parameter once -/
example : (run true 2 [.gen, .genFail, .gen, .gen, .takeFail, .restart, .take, .genCrash, .take,
    .takeCrashBefore, .take, .take]).2.1 =
    [.saved false, .failed false, .saved false, .saved true, .delErr, .restarted, .val 1 false,
     .crashed, .val 3 false, .crashed, .val 4 false, .val 5 false] := by decide
/-- the monitor rejects a double serve, a nil, an oversized pool, and use before deletion. -/
example : holds 2 [.val 1 false, .val 1 false] [1, 0] [] = false := by decide
example : holds 2 [.failed false, .panic] [1] [] = false := by decide
example : holds 2 [.saved false] [3] [1] = false := by decide
example : holds 2 [.val 1 true] [0] [1] = false := by decide
example : holds 2 [.val 1 false] [0] [1] = false := by decide

end KeepVerif.C39
