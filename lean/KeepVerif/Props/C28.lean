import KeepVerif.Model.C28
import KeepVerif.Proofs.C27Script
/-!
# C28 — Deposit scripts: wallet can sweep, refund key only after locktime

Theorems over `Model/C28.lean` + the shared txscript model.  `hash160`, `sha256`, signature
encoding/verification and the signature hash are parameters (`Ctx`); every theorem holds for all of
them.  Faithfulness of the interpreter model to btcd is validated differentially by the harness
(assumption A-btcd), not proved.
-/
namespace KeepVerif.C28
open KeepVerif.Script

/-- T1 tie: for every deposit whose depositor has 20 bytes, the source format strings (as
    regenerated into `Gen.C28`) instantiate to the byte template of the bridge specification. -/
theorem script_eq_template (d : Deposit) (h : d.depositor.length = 20) :
    script d = some (template d) := by
  unfold script template
  rw [if_neg (by simp [h])]
  cases d.extra <;>
    simp [instantiate, Gen.C28.depositScriptFormat, Gen.C28.depositWithExtraDataScriptFormat]

/-- `Script()` fails exactly when the depositor is not 20 bytes long. -/
theorem script_none_iff (d : Deposit) : script d = none ↔ d.depositor.length ≠ 20 := by
  constructor
  · intro h hl
    rw [script_eq_template d hl] at h
    cases h
  · intro h
    simp [script, h]

/-- C28 `script_parses`: for all field values (of the fixed lengths) the script bytes decode to the
    intended opcode sequence — no field value can shift the opcode boundaries. -/
theorem script_parses (d : Deposit) (wf : WellFormed d) : parse (template d) = some (ops d) := by
  unfold parse template ops
  have h1 := wf.depositor
  have h3 := wf.blinding
  have h4 := wf.wallet
  have h5 := wf.refund
  have h6 := wf.locktime
  cases he : d.extra with
  | none =>
    simp only [List.cons_append, List.nil_append, List.append_assoc, List.append_nil]
    rw [feed_direct _ 0x14 d.depositor _ (by decide) (by decide) (by simpa using h1),
        feed_op _ _ _ (by decide),
        feed_direct _ 0x08 d.blinding _ (by decide) (by decide) (by simpa using h3),
        feed_op _ _ _ (by decide), feed_op _ _ _ (by decide), feed_op _ _ _ (by decide),
        feed_direct _ 0x14 d.walletPKH _ (by decide) (by decide) (by simpa using h4),
        feed_op _ _ _ (by decide), feed_op _ _ _ (by decide), feed_op _ _ _ (by decide),
        feed_op _ _ _ (by decide), feed_op _ _ _ (by decide), feed_op _ _ _ (by decide),
        feed_direct _ 0x14 d.refundPKH _ (by decide) (by decide) (by simpa using h5),
        feed_op _ _ _ (by decide),
        feed_direct _ 0x04 d.refundLocktime _ (by decide) (by decide) (by simpa using h6),
        feed_op _ _ _ (by decide), feed_op _ _ _ (by decide), feed_op _ _ _ (by decide),
        feed_op _ _ _ (by decide)]
    simp only [decodeOp_75, decodeOp_76, decodeOp_a9, decodeOp_87, decodeOp_88, decodeOp_63,
      decodeOp_67, decodeOp_68, decodeOp_ac, decodeOp_b1, feed_nil, List.nil_append,
      List.cons_append, List.append_assoc]
  | some e =>
    have h2 := wf.extra e he
    simp only [List.cons_append, List.nil_append, List.append_assoc, List.append_nil]
    rw [feed_direct _ 0x14 d.depositor _ (by decide) (by decide) (by simpa using h1),
        feed_op _ _ _ (by decide),
        feed_direct _ 0x20 e _ (by decide) (by decide) (by simpa using h2),
        feed_op _ _ _ (by decide),
        feed_direct _ 0x08 d.blinding _ (by decide) (by decide) (by simpa using h3),
        feed_op _ _ _ (by decide), feed_op _ _ _ (by decide), feed_op _ _ _ (by decide),
        feed_direct _ 0x14 d.walletPKH _ (by decide) (by decide) (by simpa using h4),
        feed_op _ _ _ (by decide), feed_op _ _ _ (by decide), feed_op _ _ _ (by decide),
        feed_op _ _ _ (by decide), feed_op _ _ _ (by decide), feed_op _ _ _ (by decide),
        feed_direct _ 0x14 d.refundPKH _ (by decide) (by decide) (by simpa using h5),
        feed_op _ _ _ (by decide),
        feed_direct _ 0x04 d.refundLocktime _ (by decide) (by decide) (by simpa using h6),
        feed_op _ _ _ (by decide), feed_op _ _ _ (by decide), feed_op _ _ _ (by decide),
        feed_op _ _ _ (by decide)]
    simp only [decodeOp_75, decodeOp_76, decodeOp_a9, decodeOp_87, decodeOp_88, decodeOp_63,
      decodeOp_67, decodeOp_68, decodeOp_ac, decodeOp_b1, feed_nil, List.nil_append,
      List.cons_append, List.append_assoc]

set_option linter.unusedSimpArgs false

theorem minimalPush_direct (d : Bytes) (h2 : 2 ≤ d.length) (h75 : d.length ≤ 75) :
    minimalPush .direct d = true := by
  rw [minimalPush_long _ _ h2]; simp [h75]

/-- the deposit script run on stack `[pk, sig]` (top first) computes `spendSpec` -/
theorem deposit_run {D} (cx : Ctx D) (wit : Bool) (code : Bytes) (d : Deposit) (wf : WellFormed d)
    (pk sig : Bytes) :
    run cx wit code (ops d) { stack := [pk, sig], cond := [] } =
      (match spendSpec cx wit code d pk sig with
       | .error e => .error e
       | .ok s => .ok { stack := s, cond := [] }) := by
  have m1 := minimalPush_direct d.depositor (by rw [wf.depositor]; omega) (by rw [wf.depositor]; omega)
  have m3 := minimalPush_direct d.blinding (by rw [wf.blinding]; omega) (by rw [wf.blinding]; omega)
  have m4 := minimalPush_direct d.walletPKH (by rw [wf.wallet]; omega) (by rw [wf.wallet]; omega)
  have m5 := minimalPush_direct d.refundPKH (by rw [wf.refund]; omega) (by rw [wf.refund]; omega)
  have m6 := minimalPush_direct d.refundLocktime (by rw [wf.locktime]; omega) (by rw [wf.locktime]; omega)
  have b1 : ¬ d.depositor.length > 520 := by rw [wf.depositor]; omega
  have b3 : ¬ d.blinding.length > 520 := by rw [wf.blinding]; omega
  have b4 : ¬ d.walletPKH.length > 520 := by rw [wf.wallet]; omega
  have b5 : ¬ d.refundPKH.length > 520 := by rw [wf.refund]; omega
  have b6 : ¬ d.refundLocktime.length > 520 := by rw [wf.locktime]; omega
  -- the common tail, from any stack `pk :: sig :: []` after the data drops
  have tail : run cx wit code
      [.push .direct d.blinding, .drop, .dup, .hash160, .push .direct d.walletPKH, .equal, .opIf,
       .checkSig, .opElse, .dup, .hash160, .push .direct d.refundPKH, .equalVerify,
       .push .direct d.refundLocktime, .cltv, .drop, .checkSig, .opEndIf]
      { stack := [pk, sig], cond := [] } =
      (match spendSpec cx wit code d pk sig with
       | .error e => .error e
       | .ok s => .ok { stack := s, cond := [] }) := by
    unfold spendSpec
    by_cases hw : cx.hash160 pk = d.walletPKH
    · cases hcs : opCheckSig cx wit code [pk, sig] <;> cases wit <;>
        simp [run, execOp, pushTooBig, executing, isConditional, m3, m4, m5, m6, b3, b4, b5, b6, hw,
          fromBool, popIfBool, asBool, hcs]
    · have hw' : ¬ d.walletPKH = cx.hash160 pk := fun e => hw e.symm
      by_cases hr : cx.hash160 pk = d.refundPKH
      · have hw2 : ¬ d.refundPKH = d.walletPKH := fun e => hw (hr.trans e)
        have hw3 : ¬ d.walletPKH = d.refundPKH := fun e => hw2 e.symm
        cases hcl : cltvCheck d.refundLocktime cx.locktime cx.sequence <;>
          cases hcs : opCheckSig cx wit code [pk, sig] <;> cases wit <;>
          simp [run, execOp, pushTooBig, executing, isConditional, m3, m4, m5, m6, b3, b4, b5, b6,
            hw, hw', hw2, hw3, hr, fromBool, popIfBool, asBool, hcs, hcl]
      · have hr' : ¬ d.refundPKH = cx.hash160 pk := fun e => hr e.symm
        cases wit <;>
          simp [run, execOp, pushTooBig, executing, isConditional, m3, m4, m5, m6, b3, b4, b5, b6,
            hw, hw', hr, hr', fromBool, popIfBool, asBool]
  unfold ops
  cases he : d.extra with
  | none =>
    simp only [List.cons_append, List.nil_append, List.append_nil]
    rw [← tail]
    simp [run, execOp, pushTooBig, executing, isConditional, m1, b1]
  | some e =>
    have hl := wf.extra e he
    have m2 := minimalPush_direct e (by rw [hl]; omega) (by rw [hl]; omega)
    have b2 : ¬ e.length > 520 := by rw [hl]; omega
    simp only [List.cons_append, List.nil_append, List.append_nil]
    rw [← tail]
    simp [run, execOp, pushTooBig, executing, isConditional, m1, b1, m2, b2]

theorem template_length (d : Deposit) (wf : WellFormed d) :
    (template d).length = (match d.extra with | some _ => 126 | none => 92) := by
  unfold template
  cases he : d.extra with
  | none => simp [wf.depositor, wf.blinding, wf.wallet, wf.refund, wf.locktime]
  | some e => simp [wf.depositor, wf.blinding, wf.wallet, wf.refund, wf.locktime, wf.extra e he]

theorem template_length_bounds (d : Deposit) (wf : WellFormed d) :
    92 ≤ (template d).length ∧ (template d).length ≤ 126 := by
  rw [template_length d wf]; cases d.extra <;> simp

theorem pushData_length_le (x : Bytes) (h2 : 2 ≤ x.length) : (pushData x).length ≤ x.length + 3 := by
  rw [pushData_of_long x h2]
  by_cases h1 : x.length ≤ 75
  · simp [h1]
  · by_cases h2 : x.length ≤ 255 <;> simp [h1, h2]

/-- running the deposit script bytes on stack `[pk, sig]` -/
theorem deposit_runScript {D} (cx : Ctx D) (wit : Bool) (d : Deposit) (wf : WellFormed d)
    (pk sig : Bytes) :
    runScript cx wit (template d) [pk, sig] = spendSpec cx wit (template d) d pk sig := by
  unfold runScript
  rw [script_parses d wf]
  simp only [deposit_run cx wit (template d) d wf pk sig]
  cases spendSpec cx wit (template d) d pk sig <;> rfl

/-- side conditions on sizes: the pushed items fit the script element limits and the external hash
    functions return 20 / 32 bytes. -/
structure Sizes {D} (cx : Ctx D) (d : Deposit) (sig pk : Bytes) : Prop where
  sig : 2 ≤ sig.length ∧ sig.length ≤ 520
  pk : 2 ≤ pk.length ∧ pk.length ≤ 520
  h160 : (cx.hash160 (template d)).length = 20
  sha : (cx.sha256 (template d)).length = 32

def isWit : Kind → Bool
  | .p2wsh => true
  | .p2sh => false

/-- Spending the deposit output (P2SH or P2WSH) with `<sig> <pk> <script>` is decided by
    `spendSpec` followed by the final true/clean-stack check. -/
theorem spend_eq {D} (cx : Ctx D) (k : Kind) (d : Deposit) (wf : WellFormed d) (sig pk : Bytes)
    (sz : Sizes cx d sig pk) :
    spend cx k (template d) sig pk =
      (match spendSpec cx (isWit k) (template d) d pk sig with
       | .error e => .error e
       | .ok s => checkFinal (isWit k) s) := by
  have tl := template_length_bounds d wf
  cases k with
  | p2sh =>
    have hok : ItemsOk ([sig, pk] ++ [template d]) := by
      intro x hx
      simp at hx
      rcases hx with rfl | rfl | rfl
      · exact sz.sig
      · exact sz.pk
      · omega
    have e : pushData sig ++ pushData pk ++ pushData (template d) = pushAll ([sig, pk] ++ [template d]) := by
      simp [pushAll]
    have hlen : (pushAll ([sig, pk] ++ [template d])).length ≤ 10000 := by
      rw [← e]
      have a := pushData_length_le sig sz.sig.1
      have b := pushData_length_le pk sz.pk.1
      have c := pushData_length_le (template d) (by omega)
      have a2 := sz.sig.2
      have b2 := sz.pk.2
      simp only [List.length_append]
      omega
    unfold spend
    simp only [e]
    rw [p2sh_reduces cx [sig, pk] (template d) hok sz.h160 hlen]
    simp only [List.reverse_cons, List.reverse_nil, List.nil_append, List.cons_append, isWit]
    rw [deposit_runScript cx false d wf pk sig]
    cases spendSpec cx false (template d) d pk sig <;> rfl
  | p2wsh =>
    unfold spend
    have hp : (parse (template d)).isSome := by rw [script_parses d wf]; rfl
    have hsz : tooBigElement [sig, pk] = false := by
      have a := sz.sig.2
      have b := sz.pk.2
      simp [tooBigElement]; omega
    have := p2wsh_reduces cx [sig, pk] (template d) sz.sha (by omega) hp hsz
    simp only [List.cons_append, List.nil_append] at this
    rw [this]
    simp only [List.reverse_cons, List.reverse_nil, List.nil_append, List.cons_append, isWit]
    rw [deposit_runScript cx true d wf pk sig]
    cases spendSpec cx true (template d) d pk sig <;> rfl

/-- verdict for a well-encoded, valid signature of the key `pk` -/
theorem spend_good {D} (cx : Ctx D) (k : Kind) (d : Deposit) (wf : WellFormed d)
    (sigDER pk : Bytes) (ht : UInt8) (sz : Sizes cx d (sigDER ++ [ht]) pk)
    (g : GoodSig cx (isWit k) (template d) pk sigDER ht) :
    spend cx k (template d) (sigDER ++ [ht]) pk =
      (if cx.hash160 pk == d.walletPKH then .ok ()
       else if cx.hash160 pk == d.refundPKH then
         (match cltvCheck d.refundLocktime cx.locktime cx.sequence with
          | some e => .error e
          | none => .ok ())
       else .error .equalVerify) := by
  rw [spend_eq cx k d wf _ pk sz]
  unfold spendSpec
  rw [opCheckSig_good cx (isWit k) (template d) pk sigDER ht [] g]
  by_cases hw : cx.hash160 pk = d.walletPKH
  · simp [hw, checkFinal, asBool]
  · by_cases hr : cx.hash160 pk = d.refundPKH
    · have hw2 : ¬ d.refundPKH = d.walletPKH := fun e => hw (hr.trans e)
      cases hcl : cltvCheck d.refundLocktime cx.locktime cx.sequence <;>
        simp [hw, hr, hw2, checkFinal, asBool, hcl]
    · simp [hw, hr]

/-- C28 (1): the wallet key can spend at any time — any transaction locktime, any sequence. -/
theorem wallet_spends_anytime {D} (cx : Ctx D) (k : Kind) (d : Deposit) (wf : WellFormed d)
    (sigDER pk : Bytes) (ht : UInt8) (sz : Sizes cx d (sigDER ++ [ht]) pk)
    (g : GoodSig cx (isWit k) (template d) pk sigDER ht) (hw : cx.hash160 pk = d.walletPKH) :
    spend cx k (template d) (sigDER ++ [ht]) pk = .ok () := by
  rw [spend_good cx k d wf sigDER pk ht sz g]; simp [hw]

/-- C28 (2): the refund key spends iff the CLTV condition holds (script locktime minimally encoded,
    non-negative, of the same kind as and not above the transaction locktime, input not final). -/
theorem refund_spends_iff_locktime {D} (cx : Ctx D) (k : Kind) (d : Deposit) (wf : WellFormed d)
    (sigDER pk : Bytes) (ht : UInt8) (sz : Sizes cx d (sigDER ++ [ht]) pk)
    (g : GoodSig cx (isWit k) (template d) pk sigDER ht)
    (hr : cx.hash160 pk = d.refundPKH) (hne : d.refundPKH ≠ d.walletPKH) :
    spend cx k (template d) (sigDER ++ [ht]) pk = .ok () ↔
      cltvCheck d.refundLocktime cx.locktime cx.sequence = none := by
  rw [spend_good cx k d wf sigDER pk ht sz g]
  cases hcl : cltvCheck d.refundLocktime cx.locktime cx.sequence <;> simp [hr, hne]

/-- C28 (3): a key hashing to neither public key hash cannot spend, whatever the signature. -/
theorem no_other_key {D} (cx : Ctx D) (k : Kind) (d : Deposit) (wf : WellFormed d)
    (sig pk : Bytes) (sz : Sizes cx d sig pk)
    (hw : cx.hash160 pk ≠ d.walletPKH) (hr : cx.hash160 pk ≠ d.refundPKH) :
    spend cx k (template d) sig pk = .error .equalVerify := by
  rw [spend_eq cx k d wf sig pk sz]
  simp [spendSpec, hw, hr]

/-- CHECKSIG never pushes `true` for a signature that does not verify -/
theorem opCheckSig_invalid {D} (cx : Ctx D) (wit : Bool) (code pk der : Bytes) (ht : UInt8)
    (hv : cx.verify pk der (checkSigDigest cx wit code ht) = false) (r : List Bytes)
    (h : opCheckSig cx wit code [pk, der ++ [ht]] = .ok r) : r = [[]] := by
  simp only [opCheckSig, List.getLast?_append, List.getLast?_singleton, Option.some_or,
    List.dropLast_concat] at h
  simp only [hv] at h
  split at h
  · cases h
  · split at h
    · cases h
    · split at h
      · cases h
      · split at h
        · cases h
        · split at h
          · simp [fromBool] at h; exact h.symm
          · split at h
            · cases h
            · simp [fromBool] at h; exact h.symm

/-- C28 (2b)/(1b): whoever holds whichever key, a signature that does not verify never spends. -/
theorem invalid_signature_rejected {D} (cx : Ctx D) (k : Kind) (d : Deposit) (wf : WellFormed d)
    (der pk : Bytes) (ht : UInt8) (sz : Sizes cx d (der ++ [ht]) pk)
    (hv : cx.verify pk der (checkSigDigest cx (isWit k) (template d) ht) = false) :
    accepted (spend cx k (template d) (der ++ [ht]) pk) = false := by
  rw [spend_eq cx k d wf _ pk sz]
  unfold spendSpec
  have key : ∀ r, opCheckSig cx (isWit k) (template d) [pk, der ++ [ht]] = .ok r → r = [[]] :=
    opCheckSig_invalid cx _ _ pk der ht hv
  cases hcs : opCheckSig cx (isWit k) (template d) [pk, der ++ [ht]] with
  | error e =>
    by_cases hw : cx.hash160 pk = d.walletPKH
    · simp [hw, accepted]
    · by_cases hr : cx.hash160 pk = d.refundPKH
      · have hw2 : ¬ d.refundPKH = d.walletPKH := fun e => hw (hr.trans e)
        cases hcl : cltvCheck d.refundLocktime cx.locktime cx.sequence <;> simp [hw, hr, hw2, hcl, accepted]
      · simp [hw, hr, accepted]
  | ok r =>
    have := key r hcs
    subst this
    by_cases hw : cx.hash160 pk = d.walletPKH
    · cases k <;> simp [hw, accepted, checkFinal, asBool, isWit]
    · by_cases hr : cx.hash160 pk = d.refundPKH
      · have hw2 : ¬ d.refundPKH = d.walletPKH := fun e => hw (hr.trans e)
        cases hcl : cltvCheck d.refundLocktime cx.locktime cx.sequence <;>
          cases k <;> simp [hw, hr, hw2, hcl, accepted, checkFinal, asBool, isWit]
      · simp [hw, hr, accepted]

/-- C28 (4): depositor, blinding factor and extra data do not alter the spend conditions: two
    deposits that agree on wallet key hash, refund key hash and refund locktime give the same
    verdict to the same key (each spend signed for its own script). -/
theorem extra_data_irrelevant {D} (cx : Ctx D) (k : Kind) (d d' : Deposit)
    (wf : WellFormed d) (wf' : WellFormed d')
    (hw : d.walletPKH = d'.walletPKH) (hr : d.refundPKH = d'.refundPKH)
    (hl : d.refundLocktime = d'.refundLocktime)
    (pk der der' : Bytes) (ht ht' : UInt8)
    (sz : Sizes cx d (der ++ [ht]) pk) (sz' : Sizes cx d' (der' ++ [ht']) pk)
    (g : GoodSig cx (isWit k) (template d) pk der ht)
    (g' : GoodSig cx (isWit k) (template d') pk der' ht') :
    spend cx k (template d) (der ++ [ht]) pk = spend cx k (template d') (der' ++ [ht']) pk := by
  rw [spend_good cx k d wf der pk ht sz g, spend_good cx k d' wf' der' pk ht' sz' g', hw, hr, hl]

/-- Monitor tie (valid signature): the monitor accepts what the model does, for every deposit,
    key, transaction locktime and sequence. -/
theorem holds_model_good {D} (cx : Ctx D) (k : Kind) (d : Deposit) (wf : WellFormed d)
    (der pk : Bytes) (ht : UInt8) (sz : Sizes cx d (der ++ [ht]) pk)
    (g : GoodSig cx (isWit k) (template d) pk der ht) :
    holds d (cx.hash160 pk) true cx.locktime cx.sequence
      (accepted (spend cx k (template d) (der ++ [ht]) pk)) = true := by
  rw [spend_good cx k d wf der pk ht sz g]
  unfold holds role
  by_cases hw : cx.hash160 pk = d.walletPKH
  · simp [hw, accepted]
  · by_cases hr : cx.hash160 pk = d.refundPKH
    · have hw2 : ¬ d.refundPKH = d.walletPKH := fun e => hw (hr.trans e)
      cases hcl : cltvCheck d.refundLocktime cx.locktime cx.sequence <;> simp [hw, hr, hw2, hcl, accepted]
    · simp [hw, hr, accepted]

/-- Monitor tie (signature that does not verify). -/
theorem holds_model_bad {D} (cx : Ctx D) (k : Kind) (d : Deposit) (wf : WellFormed d)
    (der pk : Bytes) (ht : UInt8) (sz : Sizes cx d (der ++ [ht]) pk)
    (hv : cx.verify pk der (checkSigDigest cx (isWit k) (template d) ht) = false) :
    holds d (cx.hash160 pk) false cx.locktime cx.sequence
      (accepted (spend cx k (template d) (der ++ [ht]) pk)) = true := by
  rw [invalid_signature_rejected cx k d wf der pk ht sz hv]
  unfold holds
  cases role d (cx.hash160 pk) <;> simp

/-- For refund locktimes as real deposits have them (4 bytes, last byte 1..127, i.e. a minimally
    encoded positive number), the CLTV condition is the plain one: same kind of locktime, script
    locktime ≤ transaction locktime, input not final. -/
theorem cltvCheck_plain (a b c m : UInt8) (txLock seq : Nat) (hm : 1 ≤ m.toNat ∧ m.toNat ≤ 127) :
    cltvCheck [a, b, c, m] txLock seq = none ↔
      ((txLock < lockTimeThreshold ↔ leNat [a, b, c, m] < lockTimeThreshold) ∧
        leNat [a, b, c, m] ≤ txLock ∧ seq ≠ maxSequence) := by
  have h1 : minimalNum [a, b, c, m] = true := by
    simp [minimalNum]; left; omega
  have h2 : scriptNum [a, b, c, m] = (leNat [a, b, c, m] : Int) := by
    have : ¬ 128 ≤ m.toNat := by omega
    simp [scriptNum, this]
  unfold cltvCheck
  simp only [List.length_cons, List.length_nil, h1, h2]
  simp
  generalize leNat [a, b, c, m] = L
  have hL : ¬ ((L : Int) < 0) := by omega
  simp only [hL, if_false]
  by_cases hA : (lockTimeThreshold ≤ txLock ∨ lockTimeThreshold ≤ L) ∧
      (txLock < lockTimeThreshold ∨ L < lockTimeThreshold)
  · simp only [hA, if_true]
    simp
    omega
  · simp only [hA, if_false]
    by_cases hB : txLock < L
    · simp [hB]; omega
    · by_cases hC : seq = maxSequence
      · simp [hB, hC]
      · simp [hB, hC]; omega

/-- OP_CHECKSIG on `[pk, sig]` pushes `true` -/
def checkSigTrue {D} (cx : Ctx D) (wit : Bool) (code pk sig : Bytes) : Bool :=
  match opCheckSig cx wit code [pk, sig] with
  | .ok [x] => asBool x
  | _ => false

/-- what "a valid signature by the key `pk`" means to the interpreter (standard flags): the stack
    element is `der ++ [hashType]` with a defined hash type, `der` strictly DER encoded with low S,
    the key encoded compressed (or, outside segwit, uncompressed) and parseable, and ECDSA
    verification of `der` under `pk` succeeds for the digest of this spend. -/
def ValidSig {D} (cx : Ctx D) (wit : Bool) (code pk sig : Bytes) : Prop :=
  ∃ der ht, sig = der ++ [ht] ∧ (1 ≤ ht.toNat % 128 ∧ ht.toNat % 128 ≤ 3) ∧ cx.sigEnc der = none ∧
    (isCompressedPk pk = true ∨ (wit = false ∧ isUncompressedPk pk = true)) ∧ cx.parsePk pk = true ∧
    cx.verify pk der (checkSigDigest cx wit code ht) = true

theorem checkSigTrue_iff {D} (cx : Ctx D) (wit : Bool) (code pk sig : Bytes) :
    checkSigTrue cx wit code pk sig = true ↔ ValidSig cx wit code pk sig := by
  unfold checkSigTrue ValidSig
  rcases List.eq_nil_or_concat sig with rfl | ⟨der, ht, rfl⟩
  · simp [opCheckSig, fromBool, asBool]
  · simp only [List.concat_eq_append]
    constructor
    · intro h
      refine ⟨der, ht, rfl, ?_⟩
      simp only [opCheckSig, List.getLast?_append, List.getLast?_singleton, Option.some_or,
        List.dropLast_concat] at h
      by_cases h1 : ht.toNat % 128 < 1 ∨ ht.toNat % 128 > 3
      · have h1' : ht.toNat % 128 = 0 ∨ 3 < ht.toNat % 128 := by omega
        simp [h1'] at h
      · simp only [h1, if_false] at h
        cases he : cx.sigEnc der with
        | some e => simp [he] at h
        | none =>
          simp only [he] at h
          by_cases h2 : (wit && !isCompressedPk pk) = true
          · simp [h2] at h
          · simp only [h2, if_false] at h
            by_cases h3 : (!(isCompressedPk pk || isUncompressedPk pk)) = true
            · simp [h3] at h
            · simp only [h3, if_false] at h
              by_cases h4 : (!cx.parsePk pk) = true
              · simp [h4, fromBool, asBool] at h
              · simp only [h4, if_false] at h
                cases hv : cx.verify pk der (checkSigDigest cx wit code ht) with
                | false =>
                  simp only [hv] at h
                  by_cases h5 : der.isEmpty = true
                  · simp [h5, fromBool, asBool] at h
                  · simp [h5] at h
                | true =>
                  refine ⟨by omega, rfl, ?_, by simpa using h4, rfl⟩
                  cases wit <;> cases hcp : isCompressedPk pk <;> simp_all
    · rintro ⟨der', ht', e, hht, henc, hpk, hpp, hv⟩
      obtain ⟨rfl, rfl⟩ : der = der' ∧ ht = ht' := by
        have := List.append_inj' e (by simp)
        exact ⟨this.1, by simpa using this.2⟩
      have h1 : ¬ (ht.toNat % 128 < 1 ∨ ht.toNat % 128 > 3) := by omega
      simp only [opCheckSig, List.getLast?_append, List.getLast?_singleton, Option.some_or,
        List.dropLast_concat, h1, if_false, henc, hpp, hv]
      rcases hpk with hc | ⟨hw, hu⟩
      · simp [hc, fromBool, asBool]
      · subst hw; simp [hu, fromBool, asBool]

/-- **C28 `only_way_in`**: for ANY two stack elements `<sig> <pk>` offered with the deposit script
    (P2SH or P2WSH), the interpreter accepts **iff** the key is the wallet key and the signature is
    valid, or the key is the refund key (and not the wallet key), the signature is valid and the
    CLTV condition holds.  All transaction locktimes, sequences, deposits, hash/signature functions. -/
theorem only_way_in {D} (cx : Ctx D) (k : Kind) (d : Deposit) (wf : WellFormed d) (sig pk : Bytes)
    (sz : Sizes cx d sig pk) :
    spend cx k (template d) sig pk = .ok () ↔
      (cx.hash160 pk = d.walletPKH ∧ ValidSig cx (isWit k) (template d) pk sig) ∨
      (cx.hash160 pk ≠ d.walletPKH ∧ cx.hash160 pk = d.refundPKH ∧
        cltvCheck d.refundLocktime cx.locktime cx.sequence = none ∧
        ValidSig cx (isWit k) (template d) pk sig) := by
  rw [spend_eq cx k d wf sig pk sz, ← checkSigTrue_iff]
  unfold spendSpec checkSigTrue
  -- the shape of CHECKSIG's result on a two-element stack
  have shape : ∀ r, opCheckSig cx (isWit k) (template d) [pk, sig] = .ok r → ∃ x, r = [x] := by
    intro r h
    unfold opCheckSig at h
    simp only at h
    repeat' split at h
    all_goals first | (cases h; done) | (cases h; exact ⟨_, rfl⟩)
  by_cases hw : cx.hash160 pk = d.walletPKH
  · cases hcs : opCheckSig cx (isWit k) (template d) [pk, sig] with
    | error e => simp [hw]
    | ok r =>
      obtain ⟨x, rfl⟩ := shape r hcs
      cases hx : asBool x <;> cases k <;> simp [hw, checkFinal, hx, isWit]
  · by_cases hr : cx.hash160 pk = d.refundPKH
    · have hw2 : ¬ d.refundPKH = d.walletPKH := fun e => hw (hr.trans e)
      cases hcl : cltvCheck d.refundLocktime cx.locktime cx.sequence with
      | some e => simp [hw, hr, hw2]
      | none =>
        cases hcs : opCheckSig cx (isWit k) (template d) [pk, sig] with
        | error e => simp [hw, hr, hw2]
        | ok r =>
          obtain ⟨x, rfl⟩ := shape r hcs
          cases hx : asBool x <;> cases k <;> simp [hw, hr, hw2, checkFinal, hx, isWit]
    · simp [hw, hr]

/-! ## Non-vacuity: the hypotheses of the theorems above are satisfiable, and the model rejects -/

set_option maxRecDepth 20000

def exDeposit : Deposit :=
  { depositor := List.replicate 20 7, extra := none, blinding := List.replicate 8 1,
    walletPKH := List.replicate 20 0xaa, refundPKH := List.replicate 20 0xbb,
    refundLocktime := [0x00, 0x5e, 0xd0, 0x65] }

def exPk : Bytes := 0x02 :: List.replicate 32 5
def exRefundPk : Bytes := 0x03 :: List.replicate 32 6

/-- a context in which `exPk` hashes to the wallet PKH, `exRefundPk` to the refund PKH and
    every signature verifies -/
def exCtx (txLock seq : Nat) : Ctx Unit :=
  { hash160 := fun x => if x == exPk then exDeposit.walletPKH else if x == exRefundPk then
      exDeposit.refundPKH else List.replicate 20 0
    sha256 := fun _ => List.replicate 32 0, sigEnc := fun _ => none, parsePk := fun _ => true,
    sighash := fun _ _ _ _ => (), verify := fun _ _ _ => true,
    locktime := txLock, sequence := seq, amount := 10000 }

example : WellFormed exDeposit :=
  ⟨by decide, (by intro e h; cases h), by decide, by decide, by decide, by decide⟩

/-- the error of a verdict (`none` = accepted) -/
def errOf (r : Except Err Unit) : Option Err :=
  match r with
  | .ok _ => none
  | .error e => some e

example : errOf (spend (exCtx 0 maxSequence) .p2wsh (template exDeposit) [0x30, 0x01] exPk) = none := by decide
example : errOf (spend (exCtx 0 maxSequence) .p2sh (template exDeposit) [0x30, 0x01] exPk) = none := by decide
-- refund key: locktime 0x65d05e00 = 1708154368
example : errOf (spend (exCtx 1708154367 0) .p2wsh (template exDeposit) [0x30, 0x01] exRefundPk) = some .unsatisfiedLockTime := by decide
example : errOf (spend (exCtx 1708154368 0) .p2wsh (template exDeposit) [0x30, 0x01] exRefundPk) = none := by decide
example : errOf (spend (exCtx 1708154368 maxSequence) .p2sh (template exDeposit) [0x30, 0x01] exRefundPk) = some .unsatisfiedLockTime := by decide
example : errOf (spend (exCtx 1708154368 0) .p2sh (template exDeposit) [0x30, 0x01] (0x02 :: List.replicate 32 9)) = some .equalVerify := by decide
example : holds exDeposit exDeposit.refundPKH true 1708154367 0 true = false := by decide

end KeepVerif.C28
