import KeepVerif.Model.C34
/-!
# C34 — Main UTXO lookup and chain-sync check reflect the wallet's real state

All theorems are over `Model/C34.lean` and hold for **every** hash function `H`, history,
transaction table, UTXO lists and chain lookups.  Uniqueness (`main_unique`) is under injectivity
of `H` (A-hash), as a hypothesis.
-/
namespace KeepVerif.C34

/-- `u` is an output of a transaction listed in the wallet's history whose script is the wallet's
    P2PKH/P2WPKH script. -/
def IsWalletOutput (hist : List Nat) (txs : Nat → Option (List Out)) (u : Utxo) : Prop :=
  u.tid ∈ hist ∧ ∃ outs o, txs u.tid = some outs ∧ outs[u.idx]? = some o ∧
    o.isWallet = true ∧ o.value = u.value

/-! ### the two loops -/

private theorem scanOutputs_some (H : Utxo → Nat) (reg tid : Nat) (outs : List Out) (i : Nat) (u : Utxo)
    (h : scanOutputs H reg tid i outs = some u) :
    u.tid = tid ∧ i ≤ u.idx ∧ H u = reg ∧
      ∃ o, outs[u.idx - i]? = some o ∧ o.isWallet = true ∧ o.value = u.value := by
  induction outs generalizing i with
  | nil => simp [scanOutputs] at h
  | cons o os ih =>
    unfold scanOutputs at h
    split at h
    · rename_i hc
      simp only [Bool.and_eq_true, beq_iff_eq] at hc
      cases h
      exact ⟨rfl, Nat.le_refl _, hc.2, o, by simp, hc.1, rfl⟩
    · obtain ⟨a, b, c, o', d, e, f⟩ := ih (i + 1) h
      refine ⟨a, by omega, c, o', ?_, e, f⟩
      have : u.idx - i = (u.idx - (i + 1)) + 1 := by omega
      rw [this]; simpa using d

private theorem scanOutputs_none (H : Utxo → Nat) (reg tid : Nat) (outs : List Out) (i : Nat)
    (h : scanOutputs H reg tid i outs = none) :
    ∀ j o, outs[j]? = some o → o.isWallet = true → H ⟨tid, i + j, o.value⟩ ≠ reg := by
  induction outs generalizing i with
  | nil => intro j o hj; simp at hj
  | cons o os ih =>
    unfold scanOutputs at h
    split at h
    · cases h
    · rename_i hc
      intro j o' hj hw
      cases j with
      | zero =>
        simp at hj; subst hj
        intro he
        apply hc
        have he' : H ⟨tid, i, o.value⟩ = reg := by simpa using he
        simp [hw, he']
      | succ j =>
        simp at hj
        have := ih (i + 1) h j o' hj hw
        simpa [Nat.add_assoc, Nat.add_comm 1 j] using this

private theorem scanOutputs_isSome_of (H : Utxo → Nat) (reg tid : Nat) (outs : List Out) (i j : Nat) (o : Out)
    (hj : outs[j]? = some o) (hw : o.isWallet = true) (hh : H ⟨tid, i + j, o.value⟩ = reg) :
    ∃ u, scanOutputs H reg tid i outs = some u := by
  cases hs : scanOutputs H reg tid i outs with
  | some u => exact ⟨u, rfl⟩
  | none => exact absurd hh (scanOutputs_none H reg tid outs i hs j o hj hw)

private theorem scanHistory_utxo (H : Utxo → Nat) (reg : Nat) (txs : Nat → Option (List Out))
    (l : List Nat) (u : Utxo) (h : scanHistory H reg txs l = .utxo u) :
    IsWalletOutput l txs u ∧ H u = reg := by
  induction l with
  | nil => simp [scanHistory] at h
  | cons t ts ih =>
    unfold scanHistory at h
    split at h
    · cases h
    · rename_i outs htx
      split at h
      · rename_i u' hs
        cases h
        obtain ⟨a, _, c, o, d, e, f⟩ := scanOutputs_some H reg t outs 0 u hs
        refine ⟨⟨by simp [a], outs, o, by rw [a]; exact htx, by simpa using d, e, f⟩, c⟩
      · obtain ⟨⟨m, rest⟩, hh⟩ := ih h
        exact ⟨⟨by simp [m], rest⟩, hh⟩

private theorem scanHistory_cases (H : Utxo → Nat) (reg : Nat) (txs : Nat → Option (List Out))
    (l : List Nat) :
    (∃ u, scanHistory H reg txs l = .utxo u) ∨ scanHistory H reg txs l = .errNotFound ∨
      scanHistory H reg txs l = .errGetTx := by
  induction l with
  | nil => simp [scanHistory]
  | cons t ts ih =>
    unfold scanHistory
    split
    · simp
    · split
      · exact Or.inl ⟨_, rfl⟩
      · exact ih

private theorem scanHistory_getTx (H : Utxo → Nat) (reg : Nat) (txs : Nat → Option (List Out))
    (l : List Nat) (h : scanHistory H reg txs l = .errGetTx) : ∃ t ∈ l, txs t = none := by
  induction l with
  | nil => simp [scanHistory] at h
  | cons t ts ih =>
    unfold scanHistory at h
    split at h
    · rename_i htx; exact ⟨t, by simp, htx⟩
    · split at h
      · cases h
      · obtain ⟨t', m, e⟩ := ih h
        exact ⟨t', by simp [m], e⟩

private theorem scanHistory_notFound (H : Utxo → Nat) (reg : Nat) (txs : Nat → Option (List Out))
    (l : List Nat) (h : scanHistory H reg txs l = .errNotFound) :
    ∀ u, IsWalletOutput l txs u → H u ≠ reg := by
  induction l with
  | nil => intro u hu; simp [IsWalletOutput] at hu
  | cons t ts ih =>
    unfold scanHistory at h
    split at h
    · cases h
    · rename_i outs htx
      split at h
      · cases h
      · rename_i hs
        intro u ⟨hm, outs', o, h1, h2, h3, h4⟩
        simp only [List.mem_cons] at hm
        by_cases hut : u.tid = t
        · rw [hut, htx] at h1
          cases h1
          have := scanOutputs_none H reg t outs 0 hs u.idx o h2 h3
          have hu : (⟨t, 0 + u.idx, o.value⟩ : Utxo) = u := by
            cases u; simp_all
          rw [hu] at this; exact this
        · have hm' : u.tid ∈ ts := by
            rcases hm with hm | hm
            · exact absurd hm hut
            · exact hm
          exact ih h u ⟨hm', outs', o, h1, h2, h3, h4⟩

/-- if every transaction can be fetched and some wallet output hashes to `reg`, the scan finds one -/
private theorem scanHistory_complete (H : Utxo → Nat) (reg : Nat) (txs : Nat → Option (List Out))
    (l : List Nat) (hf : ∀ t ∈ l, (txs t).isSome) (r : Utxo) (hr : IsWalletOutput l txs r)
    (hh : H r = reg) : ∃ u, scanHistory H reg txs l = .utxo u := by
  rcases scanHistory_cases H reg txs l with h | h | h
  · exact h
  · exact absurd hh (scanHistory_notFound H reg txs l h r hr)
  · obtain ⟨t, m, e⟩ := scanHistory_getTx H reg txs l h
    have := hf t m
    simp [e] at this

private theorem isWalletOutput_reverse (hist : List Nat) (txs : Nat → Option (List Out)) (u : Utxo) :
    IsWalletOutput hist.reverse txs u ↔ IsWalletOutput hist txs u := by
  simp [IsWalletOutput]

/-! ### `DetermineWalletMainUtxo` -/

/-- C34 (main, soundness): a returned UTXO is an output of a transaction of the wallet's history
    that pays the wallet (P2PKH or P2WPKH), and its hash is the registered, non-zero hash. -/
theorem main_utxo_sound (H : Utxo → Nat) (wallet : Option Nat) (hist : Option (List Nat))
    (txs : Nat → Option (List Out)) (u : Utxo)
    (h : determineMainUtxo H wallet hist txs = .utxo u) :
    ∃ reg hs, wallet = some reg ∧ reg ≠ 0 ∧ hist = some hs ∧ IsWalletOutput hs txs u ∧ H u = reg := by
  unfold determineMainUtxo at h
  cases wallet with
  | none => simp at h
  | some reg =>
    simp only at h
    split at h
    · cases h
    · rename_i hz
      cases hist with
      | none => simp at h
      | some hs =>
        simp only at h
        obtain ⟨a, b⟩ := scanHistory_utxo H reg txs hs.reverse u h
        exact ⟨reg, hs, rfl, hz, rfl, (isWalletOutput_reverse hs txs u).1 a, b⟩

/-- C34 (main): "no main UTXO" is returned exactly when the Bridge lookup worked and nothing is
    registered (zero hash). -/
theorem main_none_iff (H : Utxo → Nat) (wallet : Option Nat) (hist : Option (List Nat))
    (txs : Nat → Option (List Out)) :
    determineMainUtxo H wallet hist txs = .none ↔ wallet = some 0 := by
  unfold determineMainUtxo
  cases wallet with
  | none => simp
  | some reg =>
    by_cases hz : reg = 0
    · simp [hz]
    · simp only [hz, if_false]
      cases hist with
      | none => simp [hz]
      | some hs =>
        simp only [Option.some.injEq, hz, iff_false]
        rcases scanHistory_cases H reg txs hs.reverse with ⟨u, h⟩ | h | h <;> simp [h]

/-- C34 (main): "main UTXO not found" implies that no wallet output of the history hashes to the
    registered hash (the whole history was searched). -/
theorem main_notfound_sound (H : Utxo → Nat) (reg : Nat) (hs : List Nat)
    (txs : Nat → Option (List Out))
    (h : determineMainUtxo H (some reg) (some hs) txs = .errNotFound) :
    ∀ u, IsWalletOutput hs txs u → H u ≠ reg := by
  unfold determineMainUtxo at h
  simp only at h
  split at h
  · cases h
  · intro u hu
    exact scanHistory_notFound H reg txs hs.reverse h u ((isWalletOutput_reverse hs txs u).2 hu)

/-- C34 (main, completeness): when the history can be read and some wallet output hashes to the
    registered hash, a UTXO with that hash is returned — never "not found", never `none`. -/
theorem main_complete (H : Utxo → Nat) (reg : Nat) (hreg : reg ≠ 0) (hs : List Nat)
    (txs : Nat → Option (List Out)) (hf : ∀ t ∈ hs, (txs t).isSome)
    (r : Utxo) (hr : IsWalletOutput hs txs r) (hh : H r = reg) :
    ∃ u, determineMainUtxo H (some reg) (some hs) txs = .utxo u ∧ H u = reg ∧
      IsWalletOutput hs txs u := by
  obtain ⟨u, hu⟩ := scanHistory_complete H reg txs hs.reverse (by simpa using hf) r
    ((isWalletOutput_reverse hs txs r).2 hr) hh
  refine ⟨u, ?_, ?_, ?_⟩
  · simp [determineMainUtxo, hreg, hu]
  · exact (scanHistory_utxo H reg txs hs.reverse u hu).2
  · exact (isWalletOutput_reverse hs txs u).1 (scanHistory_utxo H reg txs hs.reverse u hu).1

/-- C34 (main, with A-hash): if `H` is injective, the returned UTXO is *the* registered one. -/
theorem main_unique (H : Utxo → Nat) (hinj : ∀ a b, H a = H b → a = b) (hs : List Nat)
    (txs : Nat → Option (List Out)) (hf : ∀ t ∈ hs, (txs t).isSome)
    (r : Utxo) (hr : IsWalletOutput hs txs r) (hnz : H r ≠ 0) :
    determineMainUtxo H (some (H r)) (some hs) txs = .utxo r := by
  obtain ⟨u, hu, hh, _⟩ := main_complete H (H r) hnz hs txs hf r hr rfl
  rw [hu, hinj u r hh]

/-- C34 (main): a transaction fetch error is only reported if some transaction of the history
    really cannot be fetched. -/
theorem main_gettx_sound (H : Utxo → Nat) (wallet : Option Nat) (hist : Option (List Nat))
    (txs : Nat → Option (List Out)) (h : determineMainUtxo H wallet hist txs = .errGetTx) :
    ∃ hs t, hist = some hs ∧ t ∈ hs ∧ txs t = none := by
  unfold determineMainUtxo at h
  cases wallet with
  | none => simp at h
  | some reg =>
    simp only at h
    split at h
    · cases h
    · cases hist with
      | none => simp at h
      | some hs =>
        obtain ⟨t, m, e⟩ := scanHistory_getTx H reg txs hs.reverse h
        exact ⟨hs, t, rfl, by simpa using m, e⟩

/-! ### `EnsureWalletSyncedBetweenChains` -/

private theorem any_match_iff (m : Utxo) (cs : List Utxo) :
    cs.any (fun u => u.tid == m.tid && u.idx == m.idx && u.value == m.value) = true ↔ m ∈ cs := by
  simp only [List.any_eq_true, Bool.and_eq_true, beq_iff_eq]
  constructor
  · rintro ⟨u, hu, ⟨a, b⟩, c⟩
    have : u = m := by cases u; cases m; simp_all
    exact this ▸ hu
  · intro h; exact ⟨m, h, ⟨rfl, rfl⟩, rfl⟩

/-- C34 (sync, main UTXO case): the check passes exactly when the wallet's main UTXO (same
    transaction, output index and value) is among the confirmed unspent outputs. -/
theorem sync_main_iff_unspent (m : Utxo) (cs : List Utxo) (memp : Option (List Utxo)) (c : Chains) :
    ensureSynced (some m) (some cs) memp c = .ok ↔ m ∈ cs := by
  unfold ensureSynced
  simp only
  by_cases he : cs.isEmpty
  · have : cs = [] := by simpa using he
    subst this; simp
  · simp only [he]
    have := any_match_iff m cs.reverse
    by_cases hm : m ∈ cs
    · have h2 : m ∈ cs.reverse := by simpa using hm
      simp [this.2 h2, hm]
    · have h2 : ¬ m ∈ cs.reverse := by simpa using hm
      have h3 : (cs.reverse.any fun u => u.tid == m.tid && u.idx == m.idx && u.value == m.value) = false := by
        cases hx : (cs.reverse.any fun u => u.tid == m.tid && u.idx == m.idx && u.value == m.value) with
        | false => rfl
        | true => exact absurd (this.1 hx) h2
      simp [h3, hm]

/-- …and when it is spent the outcome is one of the two "not synced" errors (never another path). -/
theorem sync_main_spent (m : Utxo) (cs : List Utxo) (memp : Option (List Utxo)) (c : Chains)
    (h : m ∉ cs) :
    ensureSynced (some m) (some cs) memp c = .errSpent ∨
    ensureSynced (some m) (some cs) memp c = .errEmpty := by
  unfold ensureSynced
  simp only
  by_cases he : cs.isEmpty
  · simp [he]
  · have h2 : ¬ m ∈ cs.reverse := by simpa using h
    have h3 : (cs.reverse.any fun u => u.tid == m.tid && u.idx == m.idx && u.value == m.value) = false := by
      cases hx : (cs.reverse.any fun u => u.tid == m.tid && u.idx == m.idx && u.value == m.value) with
      | false => rfl
      | true => exact absurd ((any_match_iff m cs.reverse).1 hx) h2
    simp only [he, h3]
    simp

private theorem scanFresh_ok_iff (c : Chains) (us : List Utxo)
    (hl : ∀ u ∈ us, lookupFails c u = false) :
    scanFresh c us = .ok ↔ ∀ u ∈ us, ownSweep c u = false := by
  induction us with
  | nil => simp [scanFresh]
  | cons u us ih =>
    have hl' : ∀ v ∈ us, lookupFails c v = false := fun v hv => hl v (by simp [hv])
    have hu := hl u (by simp)
    unfold scanFresh
    by_cases hi : u.idx = 0
    · simp only [hi, ne_eq, not_true_eq_false, if_false]
      simp only [lookupFails, hi, beq_self_eq_true, Bool.true_and] at hu
      cases hfi : c.firstInput u.tid with
      | none => simp [hfi] at hu
      | some r =>
        simp only [hfi] at hu
        cases hd : c.isDeposit r with
        | none => simp [hd] at hu
        | some d =>
          cases d with
          | true =>
            simp only [List.mem_cons, forall_eq_or_imp]
            simp [ownSweep, hi, hfi, hd]
          | false =>
            cases hm : c.isMfs r with
            | none => simp [hd, hm] at hu
            | some f =>
              cases f with
              | true =>
                simp only [List.mem_cons, forall_eq_or_imp]
                simp [ownSweep, hi, hfi, hd, hm]
              | false =>
                simp only [List.mem_cons, forall_eq_or_imp, hd, hm]
                rw [ih hl']
                simp [ownSweep, hi, hfi, hd, hm]
    · simp only [ne_eq, hi, not_false_eq_true, if_true]
      rw [ih hl']
      simp only [List.mem_cons, forall_eq_or_imp]
      have : ownSweep c u = false := by simp [ownSweep, hi]
      simp [this]

private theorem scanFresh_ok_sound (c : Chains) (us : List Utxo) (h : scanFresh c us = .ok) :
    ∀ u ∈ us, ownSweep c u = false ∧ lookupFails c u = false := by
  induction us with
  | nil => simp
  | cons u us ih =>
    unfold scanFresh at h
    by_cases hi : u.idx = 0
    · simp only [hi, ne_eq, not_true_eq_false, if_false] at h
      cases hfi : c.firstInput u.tid with
      | none => simp [hfi] at h
      | some r =>
        simp only [hfi] at h
        cases hd : c.isDeposit r with
        | none => simp [hd] at h
        | some d =>
          cases d with
          | true => simp [hd] at h
          | false =>
            simp only [hd] at h
            cases hm : c.isMfs r with
            | none => simp [hm] at h
            | some f =>
              cases f with
              | true => simp [hm] at h
              | false =>
                simp only [hm] at h
                intro v hv
                simp only [List.mem_cons] at hv
                rcases hv with rfl | hv
                · simp [ownSweep, lookupFails, hi, hfi, hd, hm]
                · exact ih h v hv
    · simp only [ne_eq, hi, not_false_eq_true, if_true] at h
      intro v hv
      simp only [List.mem_cons] at hv
      rcases hv with rfl | hv
      · simp [ownSweep, lookupFails, hi]
      · exact ih h v hv

/-- C34 (sync, fresh wallet): when the chain lookups work, the check passes exactly when none of
    the wallet's confirmed **or mempool** unspent outputs comes from one of its own sweep
    transactions ("own sweep" = the code's criterion `ownSweep`: output index 0 and the first
    input of the transaction is a revealed deposit or a moved funds sweep request). -/
theorem sync_fresh_iff_no_own_sweep (cs ms : List Utxo) (c : Chains)
    (hl : ∀ u ∈ cs ++ ms, lookupFails c u = false) :
    ensureSynced none (some cs) (some ms) c = .ok ↔ ∀ u ∈ cs ++ ms, ownSweep c u = false := by
  simp only [ensureSynced]
  exact scanFresh_ok_iff c (cs ++ ms) hl

/-- C34 (sync, fresh wallet, unconditional): a passing check means no own sweep and no failed
    lookup among all confirmed and mempool outputs. -/
theorem sync_fresh_ok_sound (cs ms : List Utxo) (c : Chains)
    (h : ensureSynced none (some cs) (some ms) c = .ok) :
    ∀ u ∈ cs ++ ms, ownSweep c u = false ∧ lookupFails c u = false := by
  simp only [ensureSynced] at h
  exact scanFresh_ok_sound c (cs ++ ms) h

/-- A failing UTXO query never yields "synced". -/
theorem sync_query_failure (main : Option Utxo) (conf memp : Option (List Utxo)) (c : Chains)
    (h : ensureSynced main conf memp c = .ok) :
    conf ≠ none ∧ (main = none → memp ≠ none) := by
  unfold ensureSynced at h
  cases conf with
  | none => simp at h
  | some cs =>
    refine ⟨by simp, ?_⟩
    intro hm; subst hm
    cases memp with
    | none => simp at h
    | some ms => simp

/-! ### the monitors accept every model output -/

private theorem anyCandidate_iff (H : Utxo → Nat) (reg : Nat) (hs : List Nat)
    (txs : Nat → Option (List Out)) :
    anyCandidate H reg hs txs = true ↔ ∃ u, IsWalletOutput hs txs u ∧ H u = reg := by
  simp only [anyCandidate, List.any_eq_true, walletOutputs]
  constructor
  · rintro ⟨t, ht, h⟩
    cases htx : txs t with
    | none => simp [htx] at h
    | some outs =>
      simp only [htx, List.any_eq_true, List.mem_map, List.mem_filter, beq_iff_eq] at h
      obtain ⟨u, ⟨⟨o, i⟩, ⟨hm, hw⟩, rfl⟩, hh⟩ := h
      have := List.mem_zipIdx hm
      simp only [Nat.zero_add, Nat.sub_zero] at this
      refine ⟨⟨t, i, o.value⟩, ⟨ht, outs, o, htx, ?_, hw, rfl⟩, hh⟩
      simp only
      rw [List.getElem?_eq_getElem this.2.1]
      exact congrArg some this.2.2.symm
  · rintro ⟨u, ⟨hm, outs, o, h1, h2, h3, h4⟩, hh⟩
    refine ⟨u.tid, hm, ?_⟩
    simp only [h1, List.any_eq_true, List.mem_map, List.mem_filter, beq_iff_eq]
    refine ⟨u, ⟨(o, u.idx), ⟨?_, h3⟩, ?_⟩, hh⟩
    · rw [List.mem_zipIdx_iff_getElem?]; simpa using h2
    · cases u; simp_all

private theorem isCandidate_iff (H : Utxo → Nat) (reg : Nat) (hs : List Nat)
    (txs : Nat → Option (List Out)) (u : Utxo) :
    isCandidate H reg hs txs u = true ↔ IsWalletOutput hs txs u ∧ H u = reg := by
  simp only [isCandidate, IsWalletOutput, Bool.and_eq_true, List.contains_iff_mem, beq_iff_eq]
  constructor
  · rintro ⟨⟨hm, h⟩, hh⟩
    refine ⟨⟨hm, ?_⟩, hh⟩
    cases htx : txs u.tid with
    | none => simp [htx] at h
    | some outs =>
      cases ho : outs[u.idx]? with
      | none => simp [htx, ho] at h
      | some o =>
        simp only [htx, ho, Bool.and_eq_true, beq_iff_eq] at h
        exact ⟨outs, o, rfl, ho, h.1, h.2⟩
  · rintro ⟨⟨hm, outs, o, h1, h2, h3, h4⟩, hh⟩
    refine ⟨⟨hm, ?_⟩, hh⟩
    simp [h1, h2, h3, h4]

/-- The monitor `holdsMain` accepts the model's output on every input: correspondence on outputs
    plus the theorems above therefore transfer to what the implementation returned. -/
theorem holdsMain_model (H : Utxo → Nat) (wallet : Option Nat) (hist : Option (List Nat))
    (txs : Nat → Option (List Out)) :
    holdsMain H wallet hist txs (determineMainUtxo H wallet hist txs) = true := by
  cases wallet with
  | none => simp [determineMainUtxo, holdsMain]
  | some reg =>
    by_cases hz : reg = 0
    · simp [determineMainUtxo, holdsMain, hz]
    · cases hist with
      | none => simp [determineMainUtxo, holdsMain, hz]
      | some hs =>
        have hd : determineMainUtxo H (some reg) (some hs) txs = scanHistory H reg txs hs.reverse := by
          simp [determineMainUtxo, hz]
        rcases scanHistory_cases H reg txs hs.reverse with ⟨u, h⟩ | h | h
        · have hres := hd.trans h
          obtain ⟨r, hs', h1, h2, h3, h4, h5⟩ := main_utxo_sound H _ _ txs u hres
          cases h1; cases h3
          rw [hres]
          simp only [holdsMain, Bool.and_eq_true, bne_iff_ne, ne_eq]
          exact ⟨hz, (isCandidate_iff H reg hs txs u).2 ⟨h4, h5⟩⟩
        · have hres := hd.trans h
          have := main_notfound_sound H reg hs txs hres
          rw [hres]
          simp only [holdsMain, Bool.and_eq_true, bne_iff_ne, ne_eq, Bool.not_eq_true']
          refine ⟨hz, ?_⟩
          cases hc : anyCandidate H reg hs txs with
          | false => rfl
          | true =>
            obtain ⟨u, hu, hh⟩ := (anyCandidate_iff H reg hs txs).1 hc
            exact absurd hh (this u hu)
        · have hres := hd.trans h
          obtain ⟨hs', t, h1, h2, h3⟩ := main_gettx_sound H _ _ txs hres
          cases h1
          rw [hres]
          simp only [holdsMain, Bool.and_eq_true, bne_iff_ne, ne_eq, List.any_eq_true]
          exact ⟨hz, t, h2, by simp [h3]⟩

/-- The monitor `holdsSync` accepts the model's output on every input. -/
theorem holdsSync_model (main : Option Utxo) (conf memp : Option (List Utxo)) (c : Chains) :
    holdsSync main conf memp c (ensureSynced main conf memp c) = true := by
  cases conf with
  | none => simp [holdsSync, ensureSynced]
  | some cs =>
    cases main with
    | some m =>
      simp only [holdsSync]
      by_cases hm : m ∈ cs
      · have := (sync_main_iff_unspent m cs memp c).2 hm
        simp [hm, this]
      · have hc : cs.contains m = false := by simpa using hm
        rcases sync_main_spent m cs memp c hm with h | h <;> simp [hm, h]
    | none =>
      cases memp with
      | none => simp [holdsSync, ensureSynced]
      | some ms =>
        simp only [holdsSync]
        by_cases hl : ∀ u ∈ cs ++ ms, lookupFails c u = false
        · by_cases ho : ∀ u ∈ cs ++ ms, ownSweep c u = false
          · have h1 : (cs ++ ms).all (fun u => !ownSweep c u && !lookupFails c u) = true := by
              simp only [List.all_eq_true, Bool.and_eq_true, Bool.not_eq_true']
              exact fun u hu => ⟨ho u hu, hl u hu⟩
            have := (sync_fresh_iff_no_own_sweep cs ms c hl).2 ho
            simp [h1, this]
          · have h1 : (cs ++ ms).all (fun u => !ownSweep c u && !lookupFails c u) = false := by
              rw [Bool.eq_false_iff]
              intro h
              simp only [List.all_eq_true, Bool.and_eq_true, Bool.not_eq_true'] at h
              exact ho (fun u hu => (h u hu).1)
            have h2 : (cs ++ ms).all (fun u => !lookupFails c u) = true := by
              simp only [List.all_eq_true, Bool.not_eq_true']
              exact hl
            have hn := mt (sync_fresh_iff_no_own_sweep cs ms c hl).1 ho
            simp only [h1, h2, if_true, Bool.false_eq_true, if_false]
            -- with all lookups working, the only non-ok outcomes are the two sweep errors
            have : ∀ us : List Utxo, (∀ u ∈ us, lookupFails c u = false) →
                scanFresh c us = .ok ∨ scanFresh c us = .errDepositSweep ∨
                scanFresh c us = .errMovedFundsSweep := by
              intro us
              induction us with
              | nil => intro _; simp [scanFresh]
              | cons u us ih =>
                intro hl2
                have hl' : ∀ v ∈ us, lookupFails c v = false := fun v hv => hl2 v (by simp [hv])
                have hu := hl2 u (by simp)
                unfold scanFresh
                by_cases hi : u.idx = 0
                · simp only [hi, ne_eq, not_true_eq_false, if_false]
                  simp only [lookupFails, hi, beq_self_eq_true, Bool.true_and] at hu
                  cases hfi : c.firstInput u.tid with
                  | none => simp [hfi] at hu
                  | some r =>
                    simp only [hfi] at hu
                    cases hd : c.isDeposit r with
                    | none => simp [hd] at hu
                    | some d =>
                      cases d with
                      | true => simp [hd]
                      | false =>
                        cases hm : c.isMfs r with
                        | none => simp [hd, hm] at hu
                        | some f =>
                          cases f with
                          | true => simp [hd, hm]
                          | false => simp only [hd, hm]; exact ih hl'
                · simp only [ne_eq, hi, not_false_eq_true, if_true]
                  exact ih hl'
            simp only [ensureSynced] at hn ⊢
            rcases this (cs ++ ms) hl with h | h | h
            · exact absurd h hn
            · simp [h]
            · simp [h]
        · have h1 : (cs ++ ms).all (fun u => !ownSweep c u && !lookupFails c u) = false := by
            rw [Bool.eq_false_iff]
            intro h
            simp only [List.all_eq_true, Bool.and_eq_true, Bool.not_eq_true'] at h
            exact hl (fun u hu => (h u hu).2)
          have h2 : (cs ++ ms).all (fun u => !lookupFails c u) = false := by
            rw [Bool.eq_false_iff]
            intro h
            simp only [List.all_eq_true, Bool.not_eq_true'] at h
            exact hl h
          simp only [h1, h2, Bool.false_eq_true, if_false, bne_iff_ne, ne_eq]
          intro hok
          exact hl (fun u hu => (sync_fresh_ok_sound cs ms c hok u hu).2)

/-! ### non-vacuity: concrete histories -/

private def exH (u : Utxo) : Nat := (u.tid * 2 ^ 32 + u.idx) * 2 ^ 64 + u.value + 1
private def exTxs : Nat → Option (List Out)
  | 1 => some [⟨true, 1000⟩]
  | 2 => some [⟨false, 5⟩, ⟨true, 1000⟩, ⟨true, 700⟩]
  | 3 => some [⟨true, 1000⟩]
  | _ => none

/-- the registered UTXO sits in the *second newest* transaction; the newest has a same-valued
    wallet output that must not be returned -/
example : determineMainUtxo exH (some (exH ⟨2, 1, 1000⟩)) (some [1, 2, 3]) exTxs = .utxo ⟨2, 1, 1000⟩ := by
  decide
example : determineMainUtxo exH (some (exH ⟨2, 1, 999⟩)) (some [1, 2, 3]) exTxs = .errNotFound := by
  decide
example : determineMainUtxo exH (some 0) none exTxs = .none := by decide
example : holdsMain exH (some (exH ⟨2, 1, 1000⟩)) (some [1, 2, 3]) exTxs (.utxo ⟨3, 0, 1000⟩) = false := by
  decide
example : holdsMain exH (some (exH ⟨2, 1, 1000⟩)) (some [1, 2, 3]) exTxs .errNotFound = false := by
  decide

private def exChains : Chains :=
  { firstInput := fun t => if t ≤ 3 then some ⟨t, 0⟩ else none
    isDeposit := fun r => some (r.h == 2)
    isMfs := fun r => some (r.h == 3) }

example : ensureSynced none (some [⟨1, 0, 5⟩]) (some []) exChains = .ok := by decide
example : ensureSynced none (some [⟨1, 0, 5⟩]) (some [⟨2, 0, 9⟩]) exChains = .errDepositSweep := by decide
example : ensureSynced none (some [⟨1, 0, 5⟩, ⟨2, 1, 9⟩]) (some [⟨3, 0, 9⟩]) exChains = .errMovedFundsSweep := by
  decide
example : holdsSync none (some [⟨1, 0, 5⟩]) (some [⟨2, 0, 9⟩]) exChains .ok = false := by decide
example : holdsSync (some ⟨1, 0, 5⟩) (some [⟨1, 0, 6⟩]) none exChains .ok = false := by decide
example : ensureSynced (some ⟨1, 0, 5⟩) (some [⟨7, 0, 1⟩, ⟨1, 0, 5⟩]) none exChains = .ok := by decide

end KeepVerif.C34
