import KeepVerif.Model.C27
import KeepVerif.Proofs.C27Script
namespace KeepVerif.C27
end KeepVerif.C27
