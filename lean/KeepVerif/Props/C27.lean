import KeepVerif.Model.C27
import KeepVerif.Proofs.C27Script
import KeepVerif.Props.C28
/-!
# C27 — Signed wallet transactions pass Bitcoin script validation

Theorems over `Model/C27.lean` (the builder) and `Model/C27Script.lean` (the txscript model).
`hash160`, `sha256`, the signature hash, signature encoding and ECDSA verification are parameters
(`TxCtx`); all statements hold for every instance.  Faithfulness of the interpreter model to btcd
is validated differentially by the harness (A-btcd), not proved.
-/
namespace KeepVerif.C27
open KeepVerif.Script
set_option linter.unusedSimpArgs false

/-! ## classification of the four wallet locking scripts -/

theorem classify_p2pkh (h : Bytes) (hl : h.length = 20) : classify (p2pkh h) = .pkh := by
  simp [classify, parse_p2pkh h hl, classifyOps, isPubkeyHash, hl]

theorem classify_p2wpkh (h : Bytes) (hl : h.length = 20) : classify (p2wpkh h) = .wpkh := by
  simp [classify, parse_p2wpkh h hl, classifyOps, isPubkeyHash, isWitnessPubKeyHash, hl]

theorem classify_p2sh (h : Bytes) (hl : h.length = 20) : classify (p2sh h) = .sh := by
  simp [classify, parse_p2sh h hl, classifyOps, isPubkeyHash, isWitnessPubKeyHash, isScriptHash, hl]

theorem classify_p2wsh (h : Bytes) (hl : h.length = 32) : classify (p2wsh h) = .wsh := by
  simp [classify, parse_p2wsh h hl, classifyOps, isPubkeyHash, isWitnessPubKeyHash, isScriptHash,
    isWitnessScriptHash, hl]

theorem wit_p2pkh (h : Bytes) (hl : h.length = 20) : isWitnessProgramBytes (p2pkh h) = false := by
  simp [isWitnessProgramBytes, parse_p2pkh h hl, witnessProgram?]

theorem wit_p2sh (h : Bytes) (hl : h.length = 20) : isWitnessProgramBytes (p2sh h) = false := by
  simp [isWitnessProgramBytes, parse_p2sh h hl, witnessProgram?]

theorem wit_p2wpkh (h : Bytes) (hl : h.length = 20) : isWitnessProgramBytes (p2wpkh h) = true := by
  have hlen : (p2wpkh h).length = 22 := by simp [p2wpkh, hl]
  simp [isWitnessProgramBytes, hlen, parse_p2wpkh h hl, witnessProgram?, canonicalPush, hl]

theorem wit_p2wsh (h : Bytes) (hl : h.length = 32) : isWitnessProgramBytes (p2wsh h) = true := by
  have hlen : (p2wsh h).length = 34 := by simp [p2wsh, hl]
  simp [isWitnessProgramBytes, hlen, parse_p2wsh h hl, witnessProgram?, canonicalPush, hl]

theorem bip143Code_p2wpkh (h : Bytes) (hl : h.length = 20) : bip143Code (p2wpkh h) = p2pkh h := by
  simp [bip143Code, parse_p2wpkh h hl, hl]

theorem bip143Code_p2pkh (h : Bytes) (hl : h.length = 20) : bip143Code (p2pkh h) = p2pkh h := by
  simp [bip143Code, parse_p2pkh h hl]

/-! ## `digest_args_correct`: the digest the builder has signed is the digest CHECKSIG checks -/

/-- P2PKH: script code = the locking script, legacy sigversion. -/
theorem digest_args_p2pkh {D} (t : TxCtx D) (i : Nat) (h : Bytes) (v : Int) (hl : h.length = 20) :
    ∃ b, addInput i ⟨.pkh, p2pkh h, v, []⟩ = .ok b ∧
      builderDigest t i b = checkSigDigest (t.at i v) false (p2pkh h) sigHashAll := by
  refine ⟨_, by simp [addInput, classify_p2pkh h hl, wit_p2pkh h hl]; rfl, ?_⟩
  simp [builderDigest, checkSigDigest, TxCtx.at]

/-- P2WPKH: the builder passes the P2WPKH script, btcd's engine runs the synthesised P2PKH
    script; BIP-143 serialises the same script code for both, with the UTXO value. -/
theorem digest_args_p2wpkh {D} (t : TxCtx D) (i : Nat) (h : Bytes) (v : Int) (hl : h.length = 20) :
    ∃ b, addInput i ⟨.pkh, p2wpkh h, v, []⟩ = .ok b ∧
      builderDigest t i b = checkSigDigest (t.at i v) true (p2pkh h) sigHashAll := by
  refine ⟨_, by simp [addInput, classify_p2wpkh h hl, wit_p2wpkh h hl]; rfl, ?_⟩
  simp [builderDigest, checkSigDigest, TxCtx.at, bip143Code_p2wpkh h hl, bip143Code_p2pkh h hl]

/-- P2SH: script code = the redeem script (not the locking script), legacy sigversion. -/
theorem digest_args_p2sh {D} (t : TxCtx D) (i : Nat) (h redeem : Bytes) (v : Int)
    (hl : h.length = 20) :
    ∃ b, addInput i ⟨.sh, p2sh h, v, redeem⟩ = .ok b ∧
      builderDigest t i b = checkSigDigest (t.at i v) false redeem sigHashAll := by
  refine ⟨_, by simp [addInput, classify_p2sh h hl, wit_p2sh h hl]; rfl, ?_⟩
  simp [builderDigest, checkSigDigest, TxCtx.at]

/-- P2WSH: script code = the witness script, witness sigversion, the UTXO value. -/
theorem digest_args_p2wsh {D} (t : TxCtx D) (i : Nat) (h redeem : Bytes) (v : Int)
    (hl : h.length = 32) :
    ∃ b, addInput i ⟨.sh, p2wsh h, v, redeem⟩ = .ok b ∧
      builderDigest t i b = checkSigDigest (t.at i v) true redeem sigHashAll := by
  refine ⟨_, by simp [addInput, classify_p2wsh h hl, wit_p2wsh h hl]; rfl, ?_⟩
  simp [builderDigest, checkSigDigest, TxCtx.at]

/-- the unlocking data the builder produces for input `i` given the signature container -/
def signedInput (i : Nat) (s : InSpec) (sg : SigC) : Option Unlock :=
  match addInput i s with
  | .ok b => unlockFor b sg
  | .error _ => none

/-- what the wallet's signer delivers for input `i`: a canonically encoded (DER, low S — tss-lib and
    `btcec.Signature.Serialize` both normalise S) signature by the key with compressed public key
    `pk` that verifies for the digest the builder computed for that input. -/
structure WalletSig {D} (t : TxCtx D) (i : Nat) (s : InSpec) (pk der : Bytes) : Prop where
  enc : t.sigEnc der = none
  derLen : 1 ≤ der.length ∧ der.length ≤ 519
  compressed : isCompressedPk pk = true
  parses : t.parsePk pk = true
  valid : ∀ b, addInput i s = .ok b → t.verify pk der (builderDigest t i b) = true

theorem pk_len {pk : Bytes} (h : isCompressedPk pk = true) : pk.length = 33 := by
  simp [isCompressedPk] at h; exact h.1

theorem itemsOk_sig_pk {pk der : Bytes} (h1 : 1 ≤ der.length ∧ der.length ≤ 519)
    (h2 : isCompressedPk pk = true) : ItemsOk [der ++ [sigHashAll], pk] := by
  have := pk_len h2
  intro x hx
  simp at hx
  rcases hx with rfl | rfl
  · simp; omega
  · omega

/-- C27 `input_spends`, P2PKH wallet input. -/
theorem input_spends_p2pkh {D} (t : TxCtx D) (i : Nat) (pk der : Bytes) (v : Int)
    (hl : (t.hash160 pk).length = 20)
    (w : WalletSig t i ⟨.pkh, p2pkh (t.hash160 pk), v, []⟩ pk der) :
    ∃ u, signedInput i ⟨.pkh, p2pkh (t.hash160 pk), v, []⟩ ⟨pk, der⟩ = some u ∧
      validate t i ⟨.pkh, p2pkh (t.hash160 pk), v, []⟩ u = .ok () := by
  obtain ⟨b, hb, hd⟩ := digest_args_p2pkh t i (t.hash160 pk) v hl
  have hok := itemsOk_sig_pk w.derLen w.compressed
  have hpl := pk_len w.compressed
  have hbw : b.witness = false ∧ b.preScriptSig = [] := by
    simp [addInput, classify_p2pkh _ hl, wit_p2pkh _ hl] at hb
    subst hb; simp
  have g : GoodSig (t.at i v) false (p2pkh (t.hash160 pk)) pk der sigHashAll :=
    ⟨by decide, w.enc, w.compressed, w.parses, by rw [← hd]; exact w.valid b hb⟩
  have hs : ¬ (der.length + 1 > 520) := by have := w.derLen; omega
  have hp : ¬ (pk.length > 520) := by omega
  refine ⟨(pushAll [der ++ [sigHashAll], pk], []), ?_, ?_⟩
  · simp [signedInput, hb, unlockFor, hbw.1, hbw.2, pushAll, hs, hp]
  · unfold validate
    simp only []
    rw [p2pkh_reduces (t.at i v) _ pk _ hl hok, p2pkh_run _ _ _ _ _ hl]
    have : (t.at i v).hash160 pk = t.hash160 pk := rfl
    simp [this, opCheckSig_good _ _ _ _ _ _ [] g, checkFinal, asBool]

/-- C27 `input_spends`, P2WPKH wallet input. -/
theorem input_spends_p2wpkh {D} (t : TxCtx D) (i : Nat) (pk der : Bytes) (v : Int)
    (hl : (t.hash160 pk).length = 20)
    (w : WalletSig t i ⟨.pkh, p2wpkh (t.hash160 pk), v, []⟩ pk der) :
    ∃ u, signedInput i ⟨.pkh, p2wpkh (t.hash160 pk), v, []⟩ ⟨pk, der⟩ = some u ∧
      validate t i ⟨.pkh, p2wpkh (t.hash160 pk), v, []⟩ u = .ok () := by
  obtain ⟨b, hb, hd⟩ := digest_args_p2wpkh t i (t.hash160 pk) v hl
  have hpl := pk_len w.compressed
  have hbw : b.witness = true ∧ b.preWitness = [] := by
    simp [addInput, classify_p2wpkh _ hl, wit_p2wpkh _ hl] at hb
    subst hb; simp
  have g : GoodSig (t.at i v) true (p2pkh (t.hash160 pk)) pk der sigHashAll :=
    ⟨by decide, w.enc, w.compressed, w.parses, by rw [← hd]; exact w.valid b hb⟩
  refine ⟨([], [der ++ [sigHashAll], pk]), ?_, ?_⟩
  · simp [signedInput, hb, unlockFor, hbw.1, hbw.2]
  · unfold validate
    simp only []
    rw [p2wpkh_reduces (t.at i v) _ pk _ hl (by have := w.derLen; simp; omega) (by omega),
      p2pkh_run _ _ _ _ _ hl]
    have : (t.at i v).hash160 pk = t.hash160 pk := rfl
    simp [this, opCheckSig_good _ _ _ _ _ _ [] g, checkFinal, asBool]

/-- C27 `input_spends`, P2SH input: the builder's signature script makes the engine run exactly the
    redeem script on `[pk, sig]` (then the final true / clean-stack check). -/
theorem input_p2sh_reduces {D} (t : TxCtx D) (i : Nat) (pk der redeem : Bytes) (v : Int)
    (hl : (t.hash160 redeem).length = 20) (hr : 2 ≤ redeem.length ∧ redeem.length ≤ 520)
    (hd : 1 ≤ der.length ∧ der.length ≤ 519) (hc : isCompressedPk pk = true) :
    ∃ u, signedInput i ⟨.sh, p2sh (t.hash160 redeem), v, redeem⟩ ⟨pk, der⟩ = some u ∧
      validate t i ⟨.sh, p2sh (t.hash160 redeem), v, redeem⟩ u =
        (match runScript (t.at i v) false redeem [pk, der ++ [sigHashAll]] with
         | .error e => .error e
         | .ok st => checkFinal false st) := by
  have hpl := pk_len hc
  have hok2 := itemsOk_sig_pk hd hc
  have hok : ItemsOk ([der ++ [sigHashAll], pk] ++ [redeem]) := by
    intro x hx
    simp only [List.mem_append, List.mem_singleton] at hx
    rcases hx with hx | rfl
    · exact hok2 x hx
    · exact hr
  have hs : ¬ (der.length + 1 > 520) := by omega
  have hp : ¬ (pk.length > 520) := by omega
  have hrl : ¬ (redeem.length > 520) := by omega
  have hr0 : redeem.length > 0 := by omega
  have hlen : (pushAll ([der ++ [sigHashAll], pk] ++ [redeem])).length ≤ 10000 := by
    have a := C28.pushData_length_le (der ++ [sigHashAll]) (by simp; omega)
    have b := C28.pushData_length_le pk (by omega)
    have c := C28.pushData_length_le redeem hr.1
    simp only [pushAll, List.cons_append, List.nil_append, List.flatMap_cons, List.flatMap_nil,
      List.append_nil, List.length_append] at a b c ⊢
    simp at a
    omega
  refine ⟨(pushAll ([der ++ [sigHashAll], pk] ++ [redeem]), []), ?_, ?_⟩
  · simp [signedInput, addInput, classify_p2sh _ hl, wit_p2sh _ hl, unlockFor, pushAll, hs, hp, hrl, hr0]
  · unfold validate
    simp only []
    have := p2sh_reduces (t.at i v) [der ++ [sigHashAll], pk] redeem hok hl hlen
    simp only [List.reverse_cons, List.reverse_nil, List.nil_append, List.cons_append] at this
    exact this

/-- C27 `input_spends`, P2WSH input: the builder's witness makes the engine run exactly the
    witness script on `[pk, sig]` with the witness sigversion. -/
theorem input_p2wsh_reduces {D} (t : TxCtx D) (i : Nat) (pk der redeem : Bytes) (v : Int)
    (hl : (t.sha256 redeem).length = 32) (hr : redeem.length ≤ 10000) (hp : (parse redeem).isSome)
    (hd : 1 ≤ der.length ∧ der.length ≤ 519) (hc : isCompressedPk pk = true) :
    ∃ u, signedInput i ⟨.sh, p2wsh (t.sha256 redeem), v, redeem⟩ ⟨pk, der⟩ = some u ∧
      validate t i ⟨.sh, p2wsh (t.sha256 redeem), v, redeem⟩ u =
        (match runScript (t.at i v) true redeem [pk, der ++ [sigHashAll]] with
         | .error e => .error e
         | .ok st => checkFinal true st) := by
  have hpl := pk_len hc
  have hsz : tooBigElement [der ++ [sigHashAll], pk] = false := by
    simp [tooBigElement]; omega
  refine ⟨([], [der ++ [sigHashAll], pk, redeem]), ?_, ?_⟩
  · simp [signedInput, addInput, classify_p2wsh _ hl, wit_p2wsh _ hl, unlockFor]
  · unfold validate
    simp only []
    have := p2wsh_reduces (t.at i v) [der ++ [sigHashAll], pk] redeem hl hr hp hsz
    simp only [List.reverse_cons, List.reverse_nil, List.nil_append, List.cons_append] at this
    exact this

/-- C27 for deposit inputs (both P2SH and P2WSH): a deposit whose wallet public key hash is the
    hash of the signing key is swept by the builder's unlocking data. -/
theorem deposit_input_spends {D} (t : TxCtx D) (i : Nat) (k : C28.Kind) (d : C28.Deposit)
    (wf : C28.WellFormed d) (pk der : Bytes) (v : Int)
    (h160 : (t.hash160 (C28.template d)).length = 20) (hsha : (t.sha256 (C28.template d)).length = 32)
    (hw : t.hash160 pk = d.walletPKH)
    (w : WalletSig t i ⟨.sh, C28.lockingScript k (match k with
            | .p2sh => t.hash160 (C28.template d) | .p2wsh => t.sha256 (C28.template d)), v,
          C28.template d⟩ pk der) :
    ∃ u, signedInput i ⟨.sh, C28.lockingScript k (match k with
            | .p2sh => t.hash160 (C28.template d) | .p2wsh => t.sha256 (C28.template d)), v,
          C28.template d⟩ ⟨pk, der⟩ = some u ∧
      validate t i ⟨.sh, C28.lockingScript k (match k with
            | .p2sh => t.hash160 (C28.template d) | .p2wsh => t.sha256 (C28.template d)), v,
          C28.template d⟩ u = .ok () := by
  have tl := C28.template_length_bounds d wf
  cases k with
  | p2sh =>
    simp only [C28.lockingScript] at w ⊢
    obtain ⟨u, hu, hv⟩ := input_p2sh_reduces t i pk der (C28.template d) v h160 (by omega) w.derLen w.compressed
    obtain ⟨b, hb, hdg⟩ := digest_args_p2sh t i (t.hash160 (C28.template d)) (C28.template d) v h160
    have g : GoodSig (t.at i v) false (C28.template d) pk der sigHashAll :=
      ⟨by decide, w.enc, w.compressed, w.parses, by rw [← hdg]; exact w.valid b hb⟩
    refine ⟨u, hu, ?_⟩
    rw [hv, C28.deposit_runScript _ _ d wf]
    have : (t.at i v).hash160 pk = d.walletPKH := hw
    simp [C28.spendSpec, this, opCheckSig_good _ _ _ _ _ _ [] g, checkFinal, asBool]
  | p2wsh =>
    simp only [C28.lockingScript] at w ⊢
    have hp : (parse (C28.template d)).isSome := by rw [C28.script_parses d wf]; rfl
    obtain ⟨u, hu, hv⟩ := input_p2wsh_reduces t i pk der (C28.template d) v hsha (by omega) hp w.derLen w.compressed
    obtain ⟨b, hb, hdg⟩ := digest_args_p2wsh t i (t.sha256 (C28.template d)) (C28.template d) v hsha
    have g : GoodSig (t.at i v) true (C28.template d) pk der sigHashAll :=
      ⟨by decide, w.enc, w.compressed, w.parses, by rw [← hdg]; exact w.valid b hb⟩
    refine ⟨u, hu, ?_⟩
    rw [hv, C28.deposit_runScript _ _ d wf]
    have : (t.at i v).hash160 pk = d.walletPKH := hw
    simp [C28.spendSpec, this, opCheckSig_good _ _ _ _ _ _ [] g, checkFinal, asBool]

/-! ## `bad_signature_rejected_before_tx` -/

theorem addSigsFrom_invalid {D} (t : TxCtx D) : ∀ (bs : List BIn) (ds : List D) (ss : List SigC) (i j : Nat),
    bs.length = ss.length → ds.length = ss.length → j < ss.length →
    (∀ b d s, bs[j]? = some b → ds[j]? = some d → ss[j]? = some s → t.verify s.pk s.der d = false) →
    ∃ e, addSigsFrom t i bs ds ss = .error e := by
  intro bs
  induction bs with
  | nil => intro ds ss i j h1 h2 hj _; simp at h1; omega
  | cons b bs ih =>
    intro ds ss i j h1 h2 hj hbad
    cases ss with
    | nil => simp at hj
    | cons s ss =>
    cases ds with
    | nil => simp at h2
    | cons d ds =>
      simp only [addSigsFrom]
      by_cases hv : t.verify s.pk s.der d = true
      · simp only [hv, Bool.not_true, Bool.false_eq_true, if_false]
        cases hu : unlockFor b s with
        | none => exact ⟨_, rfl⟩
        | some u =>
          simp only []
          match j with
          | 0 =>
            have := hbad b d s rfl rfl rfl
            rw [this] at hv; cases hv
          | j + 1 =>
            obtain ⟨e, he⟩ := ih ds ss (i + 1) j (by simpa using h1) (by simpa using h2)
              (by simpa using hj) (by intro b' d' s' h1' h2' h3'; exact hbad b' d' s' (by simpa using h1') (by simpa using h2') (by simpa using h3'))
            rw [he]; exact ⟨e, rfl⟩
      · simp [hv]

/-- C27, second half: if the signature supplied for some input `j` does not verify against that
    input's signature hash, `AddSignatures` returns an error — no transaction is produced. -/
theorem bad_signature_rejected_before_tx {D} (t : TxCtx D) (bs : List BIn) (hashes : List D)
    (sigs : List SigC) (j : Nat) (hlen : hashes.length = bs.length) (hj : j < sigs.length)
    (hbad : ∀ d s, hashes[j]? = some d → sigs[j]? = some s → t.verify s.pk s.der d = false) :
    ∃ e, addSignatures t bs hashes sigs = .error e := by
  unfold addSignatures
  by_cases h0 : hashes.length = 0
  · exact ⟨.noHashes, by simp [h0]⟩
  · by_cases h1 : sigs.length ≠ bs.length
    · exact ⟨.sigCount, by simp [h0, h1]⟩
    · simp only [h0, h1, if_false]
      have h1' : sigs.length = bs.length := by omega
      exact addSigsFrom_invalid t bs hashes sigs 0 j (by omega) (by omega) hj
        (fun b d s _ hd hs => hbad d s hd hs)

/-! ## Monitor tie and non-vacuity -/

/-- the monitor accepts a transaction all of whose inputs were accepted … -/
theorem holds_all_accepted (n : Nat) :
    holds (List.replicate n true) true (List.replicate n true) = true := by
  simp [holds]

/-- … and rejects any produced transaction when some signature did not verify, whatever the
    verdicts (this is the branch `bad_signature_rejected_before_tx` discharges for the model). -/
theorem holds_bad_sig_needs_no_tx (sigOk : List Bool) (vs : List Bool) (h : sigOk.all id = false) :
    holds sigOk true vs = false := by
  simp [holds, h]

def exPk : Bytes := 0x02 :: List.replicate 32 5

/-- a context in which every signature verifies -/
def exCtx : TxCtx Unit :=
  { hash160 := fun _ => List.replicate 20 0xaa, sha256 := fun _ => List.replicate 32 0xbb,
    sigEnc := fun _ => none, parsePk := fun _ => true, sighash := fun _ _ _ _ _ => (),
    verify := fun _ _ _ => true }

/-- the hypotheses of `input_spends_p2wpkh` are satisfiable -/
example : WalletSig exCtx 0 ⟨.pkh, p2wpkh (exCtx.hash160 exPk), 5000, []⟩ exPk [0x30] :=
  ⟨rfl, by decide, by decide, rfl, fun _ _ => rfl⟩

/-- and with a verifier that rejects, `AddSignatures` yields no transaction -/
example : (match addSignatures { exCtx with verify := fun _ _ _ => false }
    [⟨true, [], 1, [], []⟩] [()] [⟨exPk, [0x30]⟩] with
    | .error (.invalidSig 0) => true
    | _ => false) = true := by decide

end KeepVerif.C27
