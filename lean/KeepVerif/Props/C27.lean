import KeepVerif.Model.C27
import KeepVerif.Proofs.C27Script
import KeepVerif.Props.C28
/-!
# C27 — Signed wallet transactions pass Bitcoin script validation

Theorems over `Model/C27.lean` (the builder) and `Model/C27Script.lean` (the txscript model).
`hash160`, `sha256`, the signature hash, signature encoding and ECDSA verification are parameters
(`TxCtx`); all statements hold for every instance.  Faithfulness of the interpreter model to btcd
is validated differentially by the harness (A-btcd), not proved.
-/
namespace KeepVerif.C27
open KeepVerif.Script
set_option linter.unusedSimpArgs false

/-! ## classification of the four wallet locking scripts -/

theorem classify_p2pkh (h : Bytes) (hl : h.length = 20) : classify (p2pkh h) = .pkh := by
  simp [classify, parse_p2pkh h hl, classifyOps, isPubkeyHash, hl]

theorem classify_p2wpkh (h : Bytes) (hl : h.length = 20) : classify (p2wpkh h) = .wpkh := by
  simp [classify, parse_p2wpkh h hl, classifyOps, isPubkeyHash, isWitnessPubKeyHash, hl]

theorem classify_p2sh (h : Bytes) (hl : h.length = 20) : classify (p2sh h) = .sh := by
  simp [classify, parse_p2sh h hl, classifyOps, isPubkeyHash, isWitnessPubKeyHash, isScriptHash, hl]

theorem classify_p2wsh (h : Bytes) (hl : h.length = 32) : classify (p2wsh h) = .wsh := by
  simp [classify, parse_p2wsh h hl, classifyOps, isPubkeyHash, isWitnessPubKeyHash, isScriptHash,
    isWitnessScriptHash, hl]

theorem wit_p2pkh (h : Bytes) (hl : h.length = 20) : isWitnessProgramBytes (p2pkh h) = false := by
  simp [isWitnessProgramBytes, parse_p2pkh h hl, witnessProgram?]

theorem wit_p2sh (h : Bytes) (hl : h.length = 20) : isWitnessProgramBytes (p2sh h) = false := by
  simp [isWitnessProgramBytes, parse_p2sh h hl, witnessProgram?]

theorem wit_p2wpkh (h : Bytes) (hl : h.length = 20) : isWitnessProgramBytes (p2wpkh h) = true := by
  have hlen : (p2wpkh h).length = 22 := by simp [p2wpkh, hl]
  simp [isWitnessProgramBytes, hlen, parse_p2wpkh h hl, witnessProgram?, canonicalPush, hl]

theorem wit_p2wsh (h : Bytes) (hl : h.length = 32) : isWitnessProgramBytes (p2wsh h) = true := by
  have hlen : (p2wsh h).length = 34 := by simp [p2wsh, hl]
  simp [isWitnessProgramBytes, hlen, parse_p2wsh h hl, witnessProgram?, canonicalPush, hl]

theorem bip143Code_p2wpkh (h : Bytes) (hl : h.length = 20) : bip143Code (p2wpkh h) = p2pkh h := by
  simp [bip143Code, parse_p2wpkh h hl, hl]

theorem bip143Code_p2pkh (h : Bytes) (hl : h.length = 20) : bip143Code (p2pkh h) = p2pkh h := by
  simp [bip143Code, parse_p2pkh h hl]

/-! ## `digest_args_correct`: the digest the builder has signed is the digest CHECKSIG checks -/

/-- P2PKH: script code = the locking script, legacy sigversion. -/
theorem digest_args_p2pkh {D} (t : TxCtx D) (i : Nat) (h : Bytes) (v : Int) (hl : h.length = 20) :
    ∃ b, addInput i ⟨.pkh, p2pkh h, v, []⟩ = .ok b ∧
      builderDigest t i b = checkSigDigest (t.at i v) false (p2pkh h) sigHashAll := by
  refine ⟨_, by simp [addInput, classify_p2pkh h hl, wit_p2pkh h hl]; rfl, ?_⟩
  simp [builderDigest, checkSigDigest, TxCtx.at]

/-- P2WPKH: the builder passes the P2WPKH script, btcd's engine runs the synthesised P2PKH
    script; BIP-143 serialises the same script code for both, with the UTXO value. -/
theorem digest_args_p2wpkh {D} (t : TxCtx D) (i : Nat) (h : Bytes) (v : Int) (hl : h.length = 20) :
    ∃ b, addInput i ⟨.pkh, p2wpkh h, v, []⟩ = .ok b ∧
      builderDigest t i b = checkSigDigest (t.at i v) true (p2pkh h) sigHashAll := by
  refine ⟨_, by simp [addInput, classify_p2wpkh h hl, wit_p2wpkh h hl]; rfl, ?_⟩
  simp [builderDigest, checkSigDigest, TxCtx.at, bip143Code_p2wpkh h hl, bip143Code_p2pkh h hl]

/-- P2SH: script code = the redeem script (not the locking script), legacy sigversion. -/
theorem digest_args_p2sh {D} (t : TxCtx D) (i : Nat) (h redeem : Bytes) (v : Int)
    (hl : h.length = 20) :
    ∃ b, addInput i ⟨.sh, p2sh h, v, redeem⟩ = .ok b ∧
      builderDigest t i b = checkSigDigest (t.at i v) false redeem sigHashAll := by
  refine ⟨_, by simp [addInput, classify_p2sh h hl, wit_p2sh h hl]; rfl, ?_⟩
  simp [builderDigest, checkSigDigest, TxCtx.at]

/-- P2WSH: script code = the witness script, witness sigversion, the UTXO value. -/
theorem digest_args_p2wsh {D} (t : TxCtx D) (i : Nat) (h redeem : Bytes) (v : Int)
    (hl : h.length = 32) :
    ∃ b, addInput i ⟨.sh, p2wsh h, v, redeem⟩ = .ok b ∧
      builderDigest t i b = checkSigDigest (t.at i v) true redeem sigHashAll := by
  refine ⟨_, by simp [addInput, classify_p2wsh h hl, wit_p2wsh h hl]; rfl, ?_⟩
  simp [builderDigest, checkSigDigest, TxCtx.at]

/-- the unlocking data the builder produces for input `i` given the signature container -/
def signedInput (i : Nat) (s : InSpec) (sg : SigC) : Option Unlock :=
  match addInput i s with
  | .ok b => unlockFor b sg
  | .error _ => none

/-- what the wallet's signer delivers for input `i`: a canonically encoded (DER, low S — tss-lib and
    `btcec.Signature.Serialize` both normalise S) signature by the key with compressed public key
    `pk` that verifies for the digest the builder computed for that input. -/
structure WalletSig {D} (t : TxCtx D) (i : Nat) (s : InSpec) (pk der : Bytes) : Prop where
  enc : t.sigEnc der = none
  derLen : 1 ≤ der.length ∧ der.length ≤ 519
  compressed : isCompressedPk pk = true
  parses : t.parsePk pk = true
  valid : ∀ b, addInput i s = .ok b → t.verify pk der (builderDigest t i b) = true

theorem pk_len {pk : Bytes} (h : isCompressedPk pk = true) : pk.length = 33 := by
  simp [isCompressedPk] at h; exact h.1

theorem itemsOk_sig_pk {pk der : Bytes} (h1 : 1 ≤ der.length ∧ der.length ≤ 519)
    (h2 : isCompressedPk pk = true) : ItemsOk [der ++ [sigHashAll], pk] := by
  have := pk_len h2
  intro x hx
  simp at hx
  rcases hx with rfl | rfl
  · simp; omega
  · omega

/-- C27 `input_spends`, P2PKH wallet input. -/
theorem input_spends_p2pkh {D} (t : TxCtx D) (i : Nat) (pk der : Bytes) (v : Int)
    (hl : (t.hash160 pk).length = 20)
    (w : WalletSig t i ⟨.pkh, p2pkh (t.hash160 pk), v, []⟩ pk der) :
    ∃ u, signedInput i ⟨.pkh, p2pkh (t.hash160 pk), v, []⟩ ⟨pk, der⟩ = some u ∧
      validate t i ⟨.pkh, p2pkh (t.hash160 pk), v, []⟩ u = .ok () := by
  obtain ⟨b, hb, hd⟩ := digest_args_p2pkh t i (t.hash160 pk) v hl
  have hok := itemsOk_sig_pk w.derLen w.compressed
  have hpl := pk_len w.compressed
  have hbw : b.witness = false ∧ b.preScriptSig = [] := by
    simp [addInput, classify_p2pkh _ hl, wit_p2pkh _ hl] at hb
    subst hb; simp
  have g : GoodSig (t.at i v) false (p2pkh (t.hash160 pk)) pk der sigHashAll :=
    ⟨by decide, w.enc, w.compressed, w.parses, by rw [← hd]; exact w.valid b hb⟩
  have hs : ¬ (der.length + 1 > 520) := by have := w.derLen; omega
  have hp : ¬ (pk.length > 520) := by omega
  refine ⟨(pushAll [der ++ [sigHashAll], pk], []), ?_, ?_⟩
  · simp [signedInput, hb, unlockFor, hbw.1, hbw.2, pushAll, hs, hp]
  · unfold validate
    simp only []
    rw [p2pkh_reduces (t.at i v) _ pk _ hl hok, p2pkh_run _ _ _ _ _ hl]
    have : (t.at i v).hash160 pk = t.hash160 pk := rfl
    simp [this, opCheckSig_good _ _ _ _ _ _ [] g, checkFinal, asBool]

/-- C27 `input_spends`, P2WPKH wallet input. -/
theorem input_spends_p2wpkh {D} (t : TxCtx D) (i : Nat) (pk der : Bytes) (v : Int)
    (hl : (t.hash160 pk).length = 20)
    (w : WalletSig t i ⟨.pkh, p2wpkh (t.hash160 pk), v, []⟩ pk der) :
    ∃ u, signedInput i ⟨.pkh, p2wpkh (t.hash160 pk), v, []⟩ ⟨pk, der⟩ = some u ∧
      validate t i ⟨.pkh, p2wpkh (t.hash160 pk), v, []⟩ u = .ok () := by
  obtain ⟨b, hb, hd⟩ := digest_args_p2wpkh t i (t.hash160 pk) v hl
  have hpl := pk_len w.compressed
  have hbw : b.witness = true ∧ b.preWitness = [] := by
    simp [addInput, classify_p2wpkh _ hl, wit_p2wpkh _ hl] at hb
    subst hb; simp
  have g : GoodSig (t.at i v) true (p2pkh (t.hash160 pk)) pk der sigHashAll :=
    ⟨by decide, w.enc, w.compressed, w.parses, by rw [← hd]; exact w.valid b hb⟩
  refine ⟨([], [der ++ [sigHashAll], pk]), ?_, ?_⟩
  · simp [signedInput, hb, unlockFor, hbw.1, hbw.2]
  · unfold validate
    simp only []
    rw [p2wpkh_reduces (t.at i v) _ pk _ hl (by have := w.derLen; simp; omega) (by omega),
      p2pkh_run _ _ _ _ _ hl]
    have : (t.at i v).hash160 pk = t.hash160 pk := rfl
    simp [this, opCheckSig_good _ _ _ _ _ _ [] g, checkFinal, asBool]

/-- C27 `input_spends`, P2SH input: the builder's signature script makes the engine run exactly the
    redeem script on `[pk, sig]` (then the final true / clean-stack check). -/
theorem input_p2sh_reduces {D} (t : TxCtx D) (i : Nat) (pk der redeem : Bytes) (v : Int)
    (hl : (t.hash160 redeem).length = 20) (hr : 2 ≤ redeem.length ∧ redeem.length ≤ 520)
    (hd : 1 ≤ der.length ∧ der.length ≤ 519) (hc : isCompressedPk pk = true) :
    ∃ u, signedInput i ⟨.sh, p2sh (t.hash160 redeem), v, redeem⟩ ⟨pk, der⟩ = some u ∧
      validate t i ⟨.sh, p2sh (t.hash160 redeem), v, redeem⟩ u =
        (match runScript (t.at i v) false redeem [pk, der ++ [sigHashAll]] with
         | .error e => .error e
         | .ok st => checkFinal false st) := by
  have hpl := pk_len hc
  have hok2 := itemsOk_sig_pk hd hc
  have hok : ItemsOk ([der ++ [sigHashAll], pk] ++ [redeem]) := by
    intro x hx
    simp only [List.mem_append, List.mem_singleton] at hx
    rcases hx with hx | rfl
    · exact hok2 x hx
    · exact hr
  have hs : ¬ (der.length + 1 > 520) := by omega
  have hp : ¬ (pk.length > 520) := by omega
  have hrl : ¬ (redeem.length > 520) := by omega
  have hr0 : redeem.length > 0 := by omega
  have hlen : (pushAll ([der ++ [sigHashAll], pk] ++ [redeem])).length ≤ 10000 := by
    have a := C28.pushData_length_le (der ++ [sigHashAll]) (by simp; omega)
    have b := C28.pushData_length_le pk (by omega)
    have c := C28.pushData_length_le redeem hr.1
    simp only [pushAll, List.cons_append, List.nil_append, List.flatMap_cons, List.flatMap_nil,
      List.append_nil, List.length_append] at a b c ⊢
    simp at a
    omega
  refine ⟨(pushAll ([der ++ [sigHashAll], pk] ++ [redeem]), []), ?_, ?_⟩
  · simp [signedInput, addInput, classify_p2sh _ hl, wit_p2sh _ hl, unlockFor, pushAll, hs, hp, hrl, hr0]
  · unfold validate
    simp only []
    have := p2sh_reduces (t.at i v) [der ++ [sigHashAll], pk] redeem hok hl hlen
    simp only [List.reverse_cons, List.reverse_nil, List.nil_append, List.cons_append] at this
    exact this

/-- C27 `input_spends`, P2WSH input: the builder's witness makes the engine run exactly the
    witness script on `[pk, sig]` with the witness sigversion. -/
theorem input_p2wsh_reduces {D} (t : TxCtx D) (i : Nat) (pk der redeem : Bytes) (v : Int)
    (hl : (t.sha256 redeem).length = 32) (hr : redeem.length ≤ 10000) (hp : (parse redeem).isSome)
    (hd : 1 ≤ der.length ∧ der.length ≤ 519) (hc : isCompressedPk pk = true) :
    ∃ u, signedInput i ⟨.sh, p2wsh (t.sha256 redeem), v, redeem⟩ ⟨pk, der⟩ = some u ∧
      validate t i ⟨.sh, p2wsh (t.sha256 redeem), v, redeem⟩ u =
        (match runScript (t.at i v) true redeem [pk, der ++ [sigHashAll]] with
         | .error e => .error e
         | .ok st => checkFinal true st) := by
  have hpl := pk_len hc
  have hsz : tooBigElement [der ++ [sigHashAll], pk] = false := by
    simp [tooBigElement]; omega
  refine ⟨([], [der ++ [sigHashAll], pk, redeem]), ?_, ?_⟩
  · simp [signedInput, addInput, classify_p2wsh _ hl, wit_p2wsh _ hl, unlockFor]
  · unfold validate
    simp only []
    have := p2wsh_reduces (t.at i v) [der ++ [sigHashAll], pk] redeem hl hr hp hsz
    simp only [List.reverse_cons, List.reverse_nil, List.nil_append, List.cons_append] at this
    exact this

/-- C27 for deposit inputs (both P2SH and P2WSH): a deposit whose wallet public key hash is the
    hash of the signing key is swept by the builder's unlocking data. -/
theorem deposit_input_spends {D} (t : TxCtx D) (i : Nat) (k : C28.Kind) (d : C28.Deposit)
    (wf : C28.WellFormed d) (pk der : Bytes) (v : Int)
    (h160 : (t.hash160 (C28.template d)).length = 20) (hsha : (t.sha256 (C28.template d)).length = 32)
    (hw : t.hash160 pk = d.walletPKH)
    (w : WalletSig t i ⟨.sh, C28.lockingScript k (match k with
            | .p2sh => t.hash160 (C28.template d) | .p2wsh => t.sha256 (C28.template d)), v,
          C28.template d⟩ pk der) :
    ∃ u, signedInput i ⟨.sh, C28.lockingScript k (match k with
            | .p2sh => t.hash160 (C28.template d) | .p2wsh => t.sha256 (C28.template d)), v,
          C28.template d⟩ ⟨pk, der⟩ = some u ∧
      validate t i ⟨.sh, C28.lockingScript k (match k with
            | .p2sh => t.hash160 (C28.template d) | .p2wsh => t.sha256 (C28.template d)), v,
          C28.template d⟩ u = .ok () := by
  have tl := C28.template_length_bounds d wf
  cases k with
  | p2sh =>
    simp only [C28.lockingScript] at w ⊢
    obtain ⟨u, hu, hv⟩ := input_p2sh_reduces t i pk der (C28.template d) v h160 (by omega) w.derLen w.compressed
    obtain ⟨b, hb, hdg⟩ := digest_args_p2sh t i (t.hash160 (C28.template d)) (C28.template d) v h160
    have g : GoodSig (t.at i v) false (C28.template d) pk der sigHashAll :=
      ⟨by decide, w.enc, w.compressed, w.parses, by rw [← hdg]; exact w.valid b hb⟩
    refine ⟨u, hu, ?_⟩
    rw [hv, C28.deposit_runScript _ _ d wf]
    have : (t.at i v).hash160 pk = d.walletPKH := hw
    simp [C28.spendSpec, this, opCheckSig_good _ _ _ _ _ _ [] g, checkFinal, asBool]
  | p2wsh =>
    simp only [C28.lockingScript] at w ⊢
    have hp : (parse (C28.template d)).isSome := by rw [C28.script_parses d wf]; rfl
    obtain ⟨u, hu, hv⟩ := input_p2wsh_reduces t i pk der (C28.template d) v hsha (by omega) hp w.derLen w.compressed
    obtain ⟨b, hb, hdg⟩ := digest_args_p2wsh t i (t.sha256 (C28.template d)) (C28.template d) v hsha
    have g : GoodSig (t.at i v) true (C28.template d) pk der sigHashAll :=
      ⟨by decide, w.enc, w.compressed, w.parses, by rw [← hdg]; exact w.valid b hb⟩
    refine ⟨u, hu, ?_⟩
    rw [hv, C28.deposit_runScript _ _ d wf]
    have : (t.at i v).hash160 pk = d.walletPKH := hw
    simp [C28.spendSpec, this, opCheckSig_good _ _ _ _ _ _ [] g, checkFinal, asBool]

/-! ## `bad_signature_rejected_before_tx` -/

theorem addSigsFrom_invalid {D} (t : TxCtx D) : ∀ (bs : List BIn) (ds : List D) (ss : List SigC) (i j : Nat),
    bs.length = ss.length → ds.length = ss.length → j < ss.length →
    (∀ b d s, bs[j]? = some b → ds[j]? = some d → ss[j]? = some s → t.verify s.pk s.der d = false) →
    ∃ e, addSigsFrom t i bs ds ss = .error e := by
  intro bs
  induction bs with
  | nil => intro ds ss i j h1 h2 hj _; simp at h1; omega
  | cons b bs ih =>
    intro ds ss i j h1 h2 hj hbad
    cases ss with
    | nil => simp at hj
    | cons s ss =>
    cases ds with
    | nil => simp at h2
    | cons d ds =>
      simp only [addSigsFrom]
      by_cases hv : t.verify s.pk s.der d = true
      · simp only [hv, Bool.not_true, Bool.false_eq_true, if_false]
        cases hu : unlockFor b s with
        | none => exact ⟨_, rfl⟩
        | some u =>
          simp only []
          match j with
          | 0 =>
            have := hbad b d s rfl rfl rfl
            rw [this] at hv; cases hv
          | j + 1 =>
            obtain ⟨e, he⟩ := ih ds ss (i + 1) j (by simpa using h1) (by simpa using h2)
              (by simpa using hj) (by intro b' d' s' h1' h2' h3'; exact hbad b' d' s' (by simpa using h1') (by simpa using h2') (by simpa using h3'))
            rw [he]; exact ⟨e, rfl⟩
      · simp [hv]

/-- C27, second half: if the signature supplied for some input `j` does not verify against that
    input's signature hash, `AddSignatures` returns an error — no transaction is produced. -/
theorem bad_signature_rejected_before_tx {D} (t : TxCtx D) (bs : List BIn) (hashes : List D)
    (sigs : List SigC) (j : Nat) (hlen : hashes.length = bs.length) (hj : j < sigs.length)
    (hbad : ∀ d s, hashes[j]? = some d → sigs[j]? = some s → t.verify s.pk s.der d = false) :
    ∃ e, addSignatures t bs hashes sigs = .error e := by
  unfold addSignatures
  by_cases h0 : hashes.length = 0
  · exact ⟨.noHashes, by simp [h0]⟩
  · by_cases h1 : sigs.length ≠ bs.length
    · exact ⟨.sigCount, by simp [h0, h1]⟩
    · simp only [h0, h1, if_false]
      have h1' : sigs.length = bs.length := by omega
      exact addSigsFrom_invalid t bs hashes sigs 0 j (by omega) (by omega) hj
        (fun b d s _ hd hs => hbad d s hd hs)

/-! ## Composition over the whole input list -/

/-- verdict of running a redeem / witness script on `[pk, sig]` followed by the final check -/
def redeemVerdict {D} (cx : Ctx D) (wit : Bool) (redeem pk sigFull : Bytes) : Except Err Unit :=
  match runScript cx wit redeem [pk, sigFull] with
  | .error e => .error e
  | .ok st => checkFinal wit st

/-- An input of one of the four classes the wallet signs, for the key with public key `pk` and
    the signature `der` supplied for it: P2PKH / P2WPKH of `hash160 pk`, or P2SH / P2WSH of a redeem
    script that accepts `<sig> <pk>` (deposit scripts with `walletPKH = hash160 pk` do:
    `walletInput_deposit`). -/
inductive WalletInput {D} (t : TxCtx D) (pk : Bytes) : Nat → InSpec → Bytes → Prop
  | p2pkh (i : Nat) (v : Int) (der : Bytes) (hl : (t.hash160 pk).length = 20) :
      WalletInput t pk i ⟨.pkh, p2pkh (t.hash160 pk), v, []⟩ der
  | p2wpkh (i : Nat) (v : Int) (der : Bytes) (hl : (t.hash160 pk).length = 20) :
      WalletInput t pk i ⟨.pkh, p2wpkh (t.hash160 pk), v, []⟩ der
  | p2sh (i : Nat) (v : Int) (der redeem : Bytes) (hl : (t.hash160 redeem).length = 20)
      (hr : 2 ≤ redeem.length ∧ redeem.length ≤ 520)
      (hacc : redeemVerdict (t.at i v) false redeem pk (der ++ [sigHashAll]) = .ok ()) :
      WalletInput t pk i ⟨.sh, p2sh (t.hash160 redeem), v, redeem⟩ der
  | p2wsh (i : Nat) (v : Int) (der redeem : Bytes) (hl : (t.sha256 redeem).length = 32)
      (hr : redeem.length ≤ 10000)
      (hacc : redeemVerdict (t.at i v) true redeem pk (der ++ [sigHashAll]) = .ok ()) :
      WalletInput t pk i ⟨.sh, p2wsh (t.sha256 redeem), v, redeem⟩ der

theorem parse_isSome_of_accepts {D} (cx : Ctx D) (wit : Bool) (redeem pk s : Bytes)
    (h : redeemVerdict cx wit redeem pk s = .ok ()) : (parse redeem).isSome := by
  unfold redeemVerdict runScript at h
  cases hp : parse redeem with
  | none => simp [hp] at h
  | some ops => rfl

/-- per-input step of the builder for a wallet input: the input is added, its script code parses,
    the unlocking data is built, and the interpreter accepts it -/
theorem walletInput_ok {D} (t : TxCtx D) (pk : Bytes) (i : Nat) (s : InSpec) (der : Bytes)
    (hw : WalletInput t pk i s der) (hs : WalletSig t i s pk der) :
    ∃ b u, addInput i s = .ok b ∧ (parse b.scriptCode).isSome ∧
      unlockFor b ⟨pk, der⟩ = some u ∧ validate t i s u = .ok () := by
  cases hw with
  | p2pkh v _ hl =>
    obtain ⟨u, hu, hv⟩ := input_spends_p2pkh t i pk der v hl hs
    unfold signedInput at hu
    cases hb : addInput i ⟨.pkh, p2pkh (t.hash160 pk), v, []⟩ with
    | error e => simp [hb] at hu
    | ok b =>
      simp only [hb] at hu
      have hb' := hb
      refine ⟨b, u, rfl, ?_, hu, hv⟩
      simp [addInput, classify_p2pkh _ hl] at hb
      subst hb
      simp [parse_p2pkh _ hl]
  | p2wpkh v _ hl =>
    obtain ⟨u, hu, hv⟩ := input_spends_p2wpkh t i pk der v hl hs
    unfold signedInput at hu
    cases hb : addInput i ⟨.pkh, p2wpkh (t.hash160 pk), v, []⟩ with
    | error e => simp [hb] at hu
    | ok b =>
      simp only [hb] at hu
      have hb' := hb
      refine ⟨b, u, rfl, ?_, hu, hv⟩
      simp [addInput, classify_p2wpkh _ hl] at hb
      subst hb
      simp [parse_p2wpkh _ hl]
  | p2sh v _ redeem hl hr hacc =>
    obtain ⟨u, hu, hv⟩ := input_p2sh_reduces t i pk der redeem v hl hr hs.derLen hs.compressed
    unfold signedInput at hu
    cases hb : addInput i ⟨.sh, p2sh (t.hash160 redeem), v, redeem⟩ with
    | error e => simp [hb] at hu
    | ok b =>
      simp only [hb] at hu
      have hb' := hb
      refine ⟨b, u, rfl, ?_, hu, ?_⟩
      · simp [addInput, classify_p2sh _ hl] at hb
        subst hb
        exact parse_isSome_of_accepts _ _ _ _ _ hacc
      · rw [hv]; exact hacc
  | p2wsh v _ redeem hl hr hacc =>
    have hp := parse_isSome_of_accepts _ _ _ _ _ hacc
    obtain ⟨u, hu, hv⟩ := input_p2wsh_reduces t i pk der redeem v hl hr hp hs.derLen hs.compressed
    unfold signedInput at hu
    cases hb : addInput i ⟨.sh, p2wsh (t.sha256 redeem), v, redeem⟩ with
    | error e => simp [hb] at hu
    | ok b =>
      simp only [hb] at hu
      have hb' := hb
      refine ⟨b, u, rfl, ?_, hu, ?_⟩
      · simp [addInput, classify_p2wsh _ hl] at hb
        subst hb
        exact hp
      · rw [hv]; exact hacc

/-- the signature containers the wallet hands to `AddSignatures`: one per input, all with the
    wallet public key -/
def containers (pk : Bytes) (ders : List Bytes) : List SigC := ders.map (fun der => ⟨pk, der⟩)

/-- the builder pipeline from input number `k` on, for wallet inputs with verifying signatures -/
theorem pipeline_ok {D} (t : TxCtx D) (pk : Bytes) : ∀ (ins : List InSpec) (ders : List Bytes) (k : Nat),
    ders.length = ins.length →
    (∀ j s der, ins[j]? = some s → ders[j]? = some der →
      WalletInput t pk (k + j) s der ∧ WalletSig t (k + j) s pk der) →
    ∃ bs hs us, addInputs k ins = .ok bs ∧ computeHashes t k bs = .ok hs ∧
      addSigsFrom t k bs hs (containers pk ders) = .ok us ∧
      bs.length = ins.length ∧ hs.length = ins.length ∧ us.length = ins.length ∧
      ∀ j s u, ins[j]? = some s → us[j]? = some u → validate t (k + j) s u = .ok () := by
  intro ins
  induction ins with
  | nil =>
    intro ders k hl _
    have : ders = [] := List.eq_nil_of_length_eq_zero (by simpa using hl)
    subst this
    exact ⟨[], [], [], rfl, rfl, rfl, rfl, rfl, rfl, by intro j s u h; simp at h⟩
  | cons s ins ih =>
    intro ders k hl hall
    cases ders with
    | nil => simp at hl
    | cons der ders =>
      have h0 := hall 0 s der rfl rfl
      simp only [Nat.add_zero] at h0
      obtain ⟨b, u, hb, hp, hu, hv⟩ := walletInput_ok t pk k s der h0.1 h0.2
      obtain ⟨bs, hs, us, e1, e2, e3, l1, l2, l3, hval⟩ := ih ders (k + 1) (by simpa using hl)
        (by
          intro j s' der' h1 h2
          have := hall (j + 1) s' der' (by simpa using h1) (by simpa using h2)
          have e : k + (j + 1) = k + 1 + j := by omega
          rw [e] at this
          exact this)
      obtain ⟨ops, hops⟩ := Option.isSome_iff_exists.1 hp
      have hver : t.verify pk der (builderDigest t k b) = true := h0.2.valid b hb
      refine ⟨b :: bs, builderDigest t k b :: hs, u :: us, ?_, ?_, ?_, by simp [l1], by simp [l2],
        by simp [l3], ?_⟩
      · simp [addInputs, hb, e1]
      · simp [computeHashes, hops, e2]
      · have e3' : addSigsFrom t (k + 1) bs hs (List.map (fun der => (⟨pk, der⟩ : SigC)) ders) = .ok us := by
          simpa [containers] using e3
        simp [containers, addSigsFrom, hver, hu, e3']
      · intro j s' u' h1 h2
        cases j with
        | zero =>
          simp at h1 h2
          subst h1; subst h2
          simpa using hv
        | succ j =>
          have := hval j s' u' (by simpa using h1) (by simpa using h2)
          have e : k + (j + 1) = k + 1 + j := by omega
          rw [e]
          exact this

/-- **C27, first half (`all_inputs_spend`)**: for every non-empty list of inputs of the four
    classes (any mix, any count, any values) and every list of signatures each of which verifies
    for the digest the builder computed for its input, the whole flow — add the inputs, compute the
    signature hashes, `AddSignatures` — returns a transaction, with one unlocking datum per input,
    and EVERY input is accepted by the script interpreter against its UTXO's locking script. -/
theorem all_inputs_spend {D} (t : TxCtx D) (pk : Bytes) (ins : List InSpec) (ders : List Bytes)
    (hne : ins ≠ []) (hl : ders.length = ins.length)
    (hall : ∀ j s der, ins[j]? = some s → ders[j]? = some der →
      WalletInput t pk j s der ∧ WalletSig t j s pk der) :
    ∃ bs us, buildAndSign t ins (fun _ => containers pk ders) = .ok (bs, us) ∧
      us.length = ins.length ∧
      ∀ j s u, ins[j]? = some s → us[j]? = some u → validate t j s u = .ok () := by
  obtain ⟨bs, hs, us, e1, e2, e3, l1, l2, l3, hval⟩ := pipeline_ok t pk ins ders 0 hl
    (by intro j s der h1 h2; simpa using hall j s der h1 h2)
  have hn : ins.length ≠ 0 := by
    intro h; exact hne (List.eq_nil_of_length_eq_zero h)
  refine ⟨bs, us, ?_, l3, by intro j s u h1 h2; simpa using hval j s u h1 h2⟩
  unfold buildAndSign addSignatures
  have hc : (containers pk ders).length = bs.length := by simp [containers, hl, l1]
  have hh : ¬ hs.length = 0 := by omega
  simp [e1, e2, hh, hc, e3]

/-! ## No cross-input mixing: each digest is computed from its own input's data only -/

/-- what `Add…Input` records for the signature hash is the input's own value and its own script -/
theorem addInput_args (i : Nat) (s : InSpec) (b : BIn) (h : addInput i s = .ok b) :
    b.value = s.value ∧ b.witness = isWitnessProgramBytes s.utxoScript ∧
      b.scriptCode = (match s.add with | .pkh => s.utxoScript | .sh => s.redeem) := by
  unfold addInput at h
  cases hadd : s.add <;> simp only [hadd] at h <;> split at h <;> cases h <;> simp

theorem addInputs_get : ∀ (ins : List InSpec) (k : Nat) (bs : List BIn), addInputs k ins = .ok bs →
    ∀ j s, ins[j]? = some s → ∃ b, bs[j]? = some b ∧ addInput (k + j) s = .ok b := by
  intro ins
  induction ins with
  | nil => intro k bs _ j s h; simp at h
  | cons s0 ins ih =>
    intro k bs h j s hj
    simp only [addInputs] at h
    cases hb : addInput k s0 with
    | error e => simp [hb] at h
    | ok b0 =>
      simp only [hb] at h
      cases hr : addInputs (k + 1) ins with
      | error e => simp [hr] at h
      | ok bs' =>
        simp only [hr] at h
        cases h
        cases j with
        | zero => simp at hj; subst hj; exact ⟨b0, rfl, by simpa using hb⟩
        | succ j =>
          obtain ⟨b, h1, h2⟩ := ih (k + 1) bs' hr j s (by simpa using hj)
          refine ⟨b, by simpa using h1, ?_⟩
          have e : k + (j + 1) = k + 1 + j := by omega
          rw [e]; exact h2

theorem computeHashes_get {D} (t : TxCtx D) : ∀ (bs : List BIn) (k : Nat) (hs : List D),
    computeHashes t k bs = .ok hs →
    ∀ j b, bs[j]? = some b → hs[j]? = some (builderDigest t (k + j) b) := by
  intro bs
  induction bs with
  | nil => intro k hs _ j b h; simp at h
  | cons b0 bs ih =>
    intro k hs h j b hj
    simp only [computeHashes] at h
    cases hp : parse b0.scriptCode with
    | none => simp [hp] at h
    | some ops =>
      simp only [hp] at h
      cases hr : computeHashes t (k + 1) bs with
      | error e => simp [hr] at h
      | ok hs' =>
        simp only [hr] at h
        cases h
        cases j with
        | zero => simp at hj; subst hj; simp
        | succ j =>
          have := ih (k + 1) hs' hr j b (by simpa using hj)
          have e : k + (j + 1) = k + 1 + j := by omega
          rw [e]; simpa using this

/-- **C27 `digests_per_input`**: the `j`-th signature hash `ComputeSignatureHashes` returns is the
    digest of input `j`'s own index, own script code (locking script for P2(W)PKH, redeem script
    for P2(W)SH), own sigversion and own UTXO value — nothing of any other input enters it. -/
theorem digests_per_input {D} (t : TxCtx D) (ins : List InSpec) (bs : List BIn) (hs : List D)
    (h1 : addInputs 0 ins = .ok bs) (h2 : computeHashes t 0 bs = .ok hs)
    (j : Nat) (s : InSpec) (hj : ins[j]? = some s) :
    hs[j]? = some
      (let code := (match s.add with | .pkh => s.utxoScript | .sh => s.redeem)
       if isWitnessProgramBytes s.utxoScript then t.sighash j (bip143Code code) sigHashAll true s.value
       else t.sighash j code sigHashAll false 0) := by
  obtain ⟨b, hb, hadd⟩ := addInputs_get ins 0 bs h1 j s hj
  have := computeHashes_get t bs 0 hs h2 j b hb
  simp only [Nat.zero_add] at this hadd
  obtain ⟨a1, a2, a3⟩ := addInput_args j s b hadd
  rw [this]
  simp [builderDigest, a1, a2, a3]

/-! ## Deposit inputs are wallet inputs -/

/-- A deposit output (P2SH or P2WSH) whose wallet public key hash is the hash of the signing key is
    an input of the kind `all_inputs_spend` covers (via C28: the wallet branch accepts). -/
theorem walletInput_deposit {D} (t : TxCtx D) (i : Nat) (k : C28.Kind) (d : C28.Deposit)
    (wf : C28.WellFormed d) (pk der : Bytes) (v : Int)
    (h160 : (t.hash160 (C28.template d)).length = 20) (hsha : (t.sha256 (C28.template d)).length = 32)
    (hw : t.hash160 pk = d.walletPKH)
    (enc : t.sigEnc der = none) (hc : isCompressedPk pk = true) (hp : t.parsePk pk = true)
    (hv : t.verify pk der (checkSigDigest (t.at i v) (C28.isWit k) (C28.template d) sigHashAll) = true) :
    WalletInput t pk i
      (match k with
       | .p2sh => ⟨.sh, p2sh (t.hash160 (C28.template d)), v, C28.template d⟩
       | .p2wsh => ⟨.sh, p2wsh (t.sha256 (C28.template d)), v, C28.template d⟩) der := by
  have tl := C28.template_length_bounds d wf
  have this : (t.at i v).hash160 pk = d.walletPKH := hw
  cases k with
  | p2sh =>
    have g : GoodSig (t.at i v) false (C28.template d) pk der sigHashAll := ⟨by decide, enc, hc, hp, hv⟩
    refine WalletInput.p2sh i v der _ h160 (by omega) ?_
    unfold redeemVerdict
    rw [C28.deposit_runScript _ _ d wf]
    simp [C28.spendSpec, this, opCheckSig_good _ _ _ _ _ _ [] g, checkFinal, asBool]
  | p2wsh =>
    have g : GoodSig (t.at i v) true (C28.template d) pk der sigHashAll := ⟨by decide, enc, hc, hp, hv⟩
    refine WalletInput.p2wsh i v der _ hsha (by omega) ?_
    unfold redeemVerdict
    rw [C28.deposit_runScript _ _ d wf]
    simp [C28.spendSpec, this, opCheckSig_good _ _ _ _ _ _ [] g, checkFinal, asBool]

/-! ## Monitor tie: the monitor accepts every model output -/

/-- valid signatures on wallet inputs: the model produces a transaction whose inputs are all
    accepted, and the monitor says `ok` -/
theorem holds_model_valid {D} (t : TxCtx D) (pk : Bytes) (ins : List InSpec) (ders : List Bytes)
    (hne : ins ≠ []) (hl : ders.length = ins.length)
    (hall : ∀ j s der, ins[j]? = some s → ders[j]? = some der →
      WalletInput t pk j s der ∧ WalletSig t j s pk der) :
    holds (List.replicate ins.length true)
      (modelOutcome t ins (fun _ => containers pk ders)).1
      (modelOutcome t ins (fun _ => containers pk ders)).2 = true := by
  obtain ⟨bs, us, hb, hlen, hval⟩ := all_inputs_spend t pk ins ders hne hl hall
  simp only [modelOutcome, hb]
  simp only [holds, List.all_replicate, List.length_map, List.length_range, List.length_replicate]
  have hn : ins.length ≠ 0 := fun h => hne (List.eq_nil_of_length_eq_zero h)
  simp [hn, hlen]
  intro x hx
  have e1 : ins[x]? = some ins[x] := by simp [hx]
  have e2 : us[x]? = some (us[x]'(by omega)) := by simp [hlen, hx]
  rw [e1, e2]
  simp only []
  rw [hval x _ _ e1 e2]
  rfl

/-- some signature does not verify for its input's digest: the model produces no transaction,
    and the monitor (which then demands exactly that) says `ok` -/
theorem holds_model_invalid {D} (t : TxCtx D) (ins : List InSpec) (sign : List D → List SigC)
    (sigOk : List Bool) (hso : sigOk.all id = false)
    (hbad : ∀ bs hs, addInputs 0 ins = .ok bs → computeHashes t 0 bs = .ok hs →
      ∃ j, j < (sign hs).length ∧
        ∀ d s, hs[j]? = some d → (sign hs)[j]? = some s → t.verify s.pk s.der d = false) :
    holds sigOk (modelOutcome t ins sign).1 (modelOutcome t ins sign).2 = true := by
  have herr : ∃ e, buildAndSign t ins sign = .error e := by
    unfold buildAndSign
    cases h1 : addInputs 0 ins with
    | error e => exact ⟨e, rfl⟩
    | ok bs =>
      cases h2 : computeHashes t 0 bs with
      | error e => exact ⟨e, by simp [h2]⟩
      | ok hs =>
        obtain ⟨j, hj, hv⟩ := hbad bs hs h1 h2
        have hlen : hs.length = bs.length := by
          clear hv hj
          have : ∀ (bs : List BIn) (k : Nat) (hs : List D), computeHashes t k bs = .ok hs → hs.length = bs.length := by
            intro bs
            induction bs with
            | nil => intro k hs h; simp [computeHashes] at h; subst h; rfl
            | cons b bs ih =>
              intro k hs h
              simp only [computeHashes] at h
              cases hp : parse b.scriptCode with
              | none => simp [hp] at h
              | some ops =>
                simp only [hp] at h
                cases hr : computeHashes t (k + 1) bs with
                | error e => simp [hr] at h
                | ok hs' => simp only [hr] at h; cases h; simp [ih (k + 1) hs' hr]
          exact this bs 0 hs h2
        obtain ⟨e, he⟩ := bad_signature_rejected_before_tx t bs hs (sign hs) j hlen hj hv
        exact ⟨e, by simp [h2, he]⟩
  obtain ⟨e, he⟩ := herr
  simp [modelOutcome, he, holds, hso]

/-! ## Monitor tie and non-vacuity -/

/-- the monitor accepts a transaction all of whose inputs were accepted … -/
theorem holds_all_accepted (n : Nat) :
    holds (List.replicate n true) true (List.replicate n true) = true := by
  simp [holds]

/-- … and rejects any produced transaction when some signature did not verify, whatever the
    verdicts (this is the branch `bad_signature_rejected_before_tx` discharges for the model). -/
theorem holds_bad_sig_needs_no_tx (sigOk : List Bool) (vs : List Bool) (h : sigOk.all id = false) :
    holds sigOk true vs = false := by
  simp [holds, h]

def exPk : Bytes := 0x02 :: List.replicate 32 5

/-- a context in which every signature verifies -/
def exCtx : TxCtx Unit :=
  { hash160 := fun _ => List.replicate 20 0xaa, sha256 := fun _ => List.replicate 32 0xbb,
    sigEnc := fun _ => none, parsePk := fun _ => true, sighash := fun _ _ _ _ _ => (),
    verify := fun _ _ _ => true }

/-- the hypotheses of `input_spends_p2wpkh` are satisfiable -/
example : WalletSig exCtx 0 ⟨.pkh, p2wpkh (exCtx.hash160 exPk), 5000, []⟩ exPk [0x30] :=
  ⟨rfl, by decide, by decide, rfl, fun _ _ => rfl⟩

/-- and with a verifier that rejects, `AddSignatures` yields no transaction -/
example : (match addSignatures { exCtx with verify := fun _ _ _ => false }
    [⟨true, [], 1, [], []⟩] [()] [⟨exPk, [0x30]⟩] with
    | .error (.invalidSig 0) => true
    | _ => false) = true := by decide

end KeepVerif.C27
