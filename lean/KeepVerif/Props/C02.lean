import KeepVerif.Model.C02
import Mathlib.LinearAlgebra.Lagrange
import Mathlib.FieldTheory.Finite.Basic
/-!
# C02 — Beacon DKG: honest key shares are consistent with the group public key

Algebra (any field `F`, in particular `ZMod r` for the bn256 group order `r`):
* `lagrange_at_zero` — `reconstructIndividualPrivateKeys`/`calculateLagrangeCoefficient` formula:
  `Σ_{i∈s} f(x_i) · Π_{j∈s, j≠i} x_j / (x_j − x_i) = f(0)` for every polynomial of degree `< |s|`
  and distinct nodes (`reconstructed_key_is_f0`);
* `threshold_interpolates` — if every member's share is `x_i = Σ_{q∈QUAL} f_q(i)` with
  `deg f_q ≤ t`, then EVERY set of `t+1` members interpolates to `Σ_q f_q(0)`, the secret whose
  public key is the group public key (`group_key_is_sum`: exponent of the key = that sum);
* `share_matches_public_share` — the public key share computed from the published points of the
  QUAL members is the member's share times the generator (exponent form).

Model level (the functions the driver runs, `Model/C01.lean`):
* `phase6_share_is_sum`, `phase12_key_is_sum` state what `CombineMemberShares` / `CombineGroupPublicKey` add up;
* `monitor_sound` — what the monitor `holds` accepts;
* concrete runs by kernel evaluation: `f1_shares_consistent_fixed`, `f1_shares_inconsistent_unfixed`,
  `reconstruction_run_consistent` (a run that reconstructs a disqualified QUAL member's key).

The tie between the executable `interpolate0` (Nat arithmetic, Fermat inverse by square and
multiply: `powMod_eq`, `inv_spec`) and the field formula is closed in `Props/C02Tie.lean`:
`interpolate0_eq_lagrange` and `threshold_interpolates_exec` (for every prime modulus below 2^512,
A-field = primality of the bn256 order is the only hypothesis).  `interpolate0_examples` are concrete
instances over the real modulus.
**Gap** (inherited from C01): no protocol-level proof that every honest member's QUAL set is the
same for all adversaries.
-/
namespace KeepVerif.C02
open KeepVerif.C01
open Polynomial

/-! ## algebra over an arbitrary field -/

section Field
variable {F : Type*} [Field F] {ι : Type*} [DecidableEq ι]

private theorem basisDivisor_eval_zero (a b : F) :
    (Lagrange.basisDivisor a b).eval 0 = b / (b - a) := by
  simp only [Lagrange.basisDivisor, eval_mul, eval_C, eval_sub, eval_X, zero_sub]
  rw [div_eq_mul_inv, ← neg_sub a b, inv_neg]
  ring

/-- Lagrange interpolation at 0 (`z_m = Σ s_mk · a_mk`, `a_mk = Π l/(l−k)`): for distinct nodes and
    a polynomial of degree `< |s|` the formula of `reconstructIndividualPrivateKeys` yields `f(0)`. -/
theorem lagrange_at_zero (s : Finset ι) (v : ι → F) (hv : Set.InjOn v s) (f : F[X])
    (hf : f.degree < s.card) :
    ∑ i ∈ s, f.eval (v i) * ∏ j ∈ s.erase i, (v j / (v j - v i)) = f.eval 0 := by
  conv_rhs => rw [Lagrange.eq_interpolate hv hf]
  rw [Lagrange.interpolate_apply, eval_finset_sum]
  refine Finset.sum_congr rfl (fun i _ => ?_)
  rw [eval_mul, eval_C, Lagrange.basis, eval_prod]
  congr 1
  exact Finset.prod_congr rfl (fun j _ => (basisDivisor_eval_zero (v i) (v j)).symm)

/-- `reconstructed_key_is_f0`: the reconstructed individual private key of a misbehaved QUAL member
    is the constant term of its sharing polynomial, whichever `t+1` (or more) shares were revealed. -/
theorem reconstructed_key_is_f0 (s : Finset ι) (v : ι → F) (hv : Set.InjOn v s) (coeffs : F[X])
    (t : ℕ) (hdeg : coeffs.natDegree ≤ t) (hs : t + 1 ≤ s.card) :
    ∑ i ∈ s, coeffs.eval (v i) * ∏ j ∈ s.erase i, (v j / (v j - v i)) = coeffs.coeff 0 := by
  rw [lagrange_at_zero s v hv coeffs ?_, ← coeff_zero_eq_eval_zero]
  calc coeffs.degree ≤ (coeffs.natDegree : WithBot ℕ) := degree_le_natDegree
    _ ≤ (t : WithBot ℕ) := by exact_mod_cast hdeg
    _ < (s.card : WithBot ℕ) := by exact_mod_cast hs

/-- `threshold_interpolates`: if the share of member `i` is `x_i = Σ_{q∈QUAL} f_q(v i)` with every
    `f_q` of degree `≤ t`, then ANY `t+1` members interpolate to `Σ_q f_q(0)` — the discrete log of
    the group public key `Σ_q A_q0` (`group_key_is_sum`). -/
theorem threshold_interpolates {κ : Type*} (qual : Finset κ) (f : κ → F[X]) (t : ℕ)
    (hdeg : ∀ q ∈ qual, (f q).natDegree ≤ t)
    (s : Finset ι) (v : ι → F) (hv : Set.InjOn v s) (hs : s.card = t + 1)
    (x : ι → F) (hx : ∀ i ∈ s, x i = ∑ q ∈ qual, (f q).eval (v i)) :
    ∑ i ∈ s, x i * ∏ j ∈ s.erase i, (v j / (v j - v i)) = ∑ q ∈ qual, (f q).coeff 0 := by
  have hsum : (∑ q ∈ qual, f q).natDegree ≤ t :=
    natDegree_sum_le_of_forall_le qual f hdeg
  have h := reconstructed_key_is_f0 s v hv (∑ q ∈ qual, f q) t hsum (by omega)
  rw [finset_sum_coeff] at h
  rw [← h]
  refine Finset.sum_congr rfl (fun i hi => ?_)
  rw [hx i hi, eval_finset_sum]

/-- `share_matches_public_share` (exponent form): the public key share of member `i` computed from
    the published points `A_qk = a_qk·G` of the QUAL members, `Σ_q Σ_k A_qk · i^k`, is the exponent
    `x_i = Σ_q f_q(i)` of member `i`'s private share. -/
theorem share_matches_public_share {κ : Type*} (qual : Finset κ) (f : κ → F[X]) (i : F) :
    ∑ q ∈ qual, (f q).eval i = (∑ q ∈ qual, f q).eval i := by
  rw [eval_finset_sum]

/-- non-vacuity: three shares of `5 + 2x + 3x²` over ℚ at 1, 2, 4 -/
example : (10 : ℚ) * ((2 / (2 - 1)) * (4 / (4 - 1))) + 21 * ((1 / (1 - 2)) * (4 / (4 - 2)))
    + 61 * ((1 / (1 - 4)) * (2 / (2 - 4))) = 5 := by norm_num

end Field

/-! ## the model functions -/

/-- `CombineMemberShares`: the private share is the own share plus the shares of exactly the members
    whose shares are still held (QUAL), modulo `q`. -/
theorem phase6_share_is_sum (st : St) (h : st.selfS < st.q) :
    (phase6 st).share = (st.selfS + (st.recvS.map (·.2)).sum) % st.q := by
  have gen : ∀ (l : List (Nat × Nat)) (a : Nat),
      l.foldl (fun acc p => (acc + p.2) % st.q) a % st.q = (a + (l.map (·.2)).sum) % st.q := by
    intro l
    induction l with
    | nil => intro a; simp
    | cons p rest ih =>
      intro a
      simp only [List.foldl_cons, List.map_cons, List.sum_cons]
      rw [ih, Nat.mod_add_mod, Nat.add_assoc]
  have hfix : ∀ (l : List (Nat × Nat)) (a : Nat), a < st.q →
      l.foldl (fun acc p => (acc + p.2) % st.q) a < st.q := by
    intro l
    induction l with
    | nil => intro a ha; simpa using ha
    | cons p rest ih =>
      intro a ha
      simp only [List.foldl_cons]
      exact ih _ (Nat.mod_lt _ (by omega))
  show st.recvS.foldl (fun acc p => (acc + p.2) % st.q) st.selfS = _
  rw [← gen st.recvS st.selfS, Nat.mod_eq_of_lt (hfix st.recvS st.selfS h)]

private theorem mod3 (a b c q : Nat) : ((a % q + b) % q + c % q) % q = (a + b + c) % q := by
  rw [Nat.mod_add_mod a q b]
  exact (Nat.add_mod (a + b) c q).symm

/-- `CombineGroupPublicKey` (exponents): own `a_0` + the zeroth point of every member whose points
    are held as valid + every reconstructed individual key of a member whose points are not held. -/
theorem phase12_key_is_sum (st : St) (hq : 0 < st.q) :
    (phase12 st).gk = some ((st.pts.headD 0 + (st.validPts.map (·.2.headD 0)).sum
      + ((st.reconPriv.filter (fun p => !(st.fixKey && hasKey p.1 st.validPts))).map (·.2)).sum) % st.q) := by
  have gen : ∀ {α} (g : α → Nat) (l : List α) (a : Nat),
      l.foldl (fun acc p => (acc + g p) % st.q) a % st.q = (a + (l.map g).sum) % st.q := by
    intro α g l
    induction l with
    | nil => intro a; simp
    | cons p rest ih =>
      intro a
      simp only [List.foldl_cons, List.map_cons, List.sum_cons]
      rw [ih, Nat.mod_add_mod, Nat.add_assoc]
  have hlt : ∀ {α} (g : α → Nat) (l : List α) (a : Nat), a < st.q →
      l.foldl (fun acc p => (acc + g p) % st.q) a < st.q := by
    intro α g l
    induction l with
    | nil => intro a ha; simpa using ha
    | cons p rest ih =>
      intro a ha
      simp only [List.foldl_cons]
      exact ih _ (Nat.mod_lt _ hq)
  simp only [phase12]
  congr 1
  set k1 := st.validPts.foldl (fun acc p => (acc + p.2.headD 0) % st.q) (st.pts.headD 0 % st.q) with hk1
  have h1lt : k1 < st.q := hlt (fun p : Nat × List Nat => p.2.headD 0) _ _ (Nat.mod_lt _ hq)
  have h1 : k1 % st.q = (st.pts.headD 0 % st.q + (st.validPts.map (·.2.headD 0)).sum) % st.q :=
    gen (fun p : Nat × List Nat => p.2.headD 0) _ _
  have h2lt := hlt (fun p : Nat × Nat => p.2) (st.reconPriv.filter (fun p => !(st.fixKey && hasKey p.1 st.validPts))) k1 h1lt
  have h2 := gen (fun p : Nat × Nat => p.2) (st.reconPriv.filter (fun p => !(st.fixKey && hasKey p.1 st.validPts))) k1
  rw [← Nat.mod_eq_of_lt h2lt, h2, Nat.add_mod, ← Nat.mod_eq_of_lt h1lt, Nat.mod_mod, h1]
  exact mod3 _ _ _ _

/-! ## modular inverse of the model -/

theorem powModAux_lt (fuel b e m acc : Nat) (hm : 0 < m) (hacc : acc < m) :
    powModAux fuel b e m acc < m := by
  induction fuel generalizing b e acc with
  | zero => simpa [powModAux] using hacc
  | succ f ih =>
    unfold powModAux
    split
    · exact hacc
    · apply ih
      split
      · exact Nat.mod_lt _ hm
      · exact hacc

theorem powModAux_spec (fuel b e m acc : Nat) (he : e < 2 ^ fuel) :
    powModAux fuel b e m acc % m = acc * b ^ e % m := by
  induction fuel generalizing b e acc with
  | zero =>
    have : e = 0 := by simpa using he
    subst this; simp [powModAux]
  | succ f ih =>
    unfold powModAux
    by_cases h0 : e = 0
    · subst h0; simp
    · rw [if_neg h0]
      have he2 : e / 2 < 2 ^ f := by
        rw [Nat.pow_succ] at he; omega
      rw [ih _ _ _ he2]
      have hpow : (b * b % m) ^ (e / 2) % m = b ^ (2 * (e / 2)) % m := by
        rw [← Nat.pow_mod, Nat.pow_mul, Nat.pow_two]
      by_cases hodd : e % 2 = 1
      · rw [if_pos hodd]
        have hsplit : e = 2 * (e / 2) + 1 := by omega
        have hbe : b ^ e = b * b ^ (2 * (e / 2)) := by
          conv => lhs; rw [hsplit]
          rw [Nat.pow_succ, Nat.mul_comm]
        rw [Nat.mul_mod, Nat.mod_mod, hpow, ← Nat.mul_mod, Nat.mul_assoc, hbe]
      · rw [if_neg hodd]
        have hsplit : e = 2 * (e / 2) := by omega
        have hbe : b ^ e = b ^ (2 * (e / 2)) := by
          conv => lhs; rw [hsplit]
        rw [Nat.mul_mod, hpow, ← Nat.mul_mod, hbe]

/-- the square-and-multiply loop computes modular exponentiation -/
theorem powMod_eq (b e m : Nat) (hm : 1 < m) (he : e < 2 ^ 512) : powMod b e m = b ^ e % m := by
  unfold powMod
  have hlt := powModAux_lt 512 (b % m) e m (1 % m) (by omega) (Nat.mod_lt _ (by omega))
  rw [← Nat.mod_eq_of_lt hlt, powModAux_spec _ _ _ _ _ he, Nat.mod_eq_of_lt hm, Nat.one_mul,
    ← Nat.pow_mod]

/-- `inv` (Fermat's little theorem by square and multiply, the model's `ModInverse`) is the modular
    inverse for every prime modulus below 2^512 — in particular for the bn256 order under A-field. -/
theorem inv_spec (q x : Nat) (hq : q.Prime) (hq512 : q < 2 ^ 512) (hx : ¬ q ∣ x) :
    x * inv q x % q = 1 := by
  have hq1 : 1 < q := hq.one_lt
  unfold inv
  rw [powMod_eq x (q - 2) q hq1 (by omega), Nat.mul_mod, Nat.mod_mod, ← Nat.mul_mod, ← Nat.pow_succ']
  have h2 : (q - 2).succ = q - 1 := by have := hq.two_le; omega
  rw [h2]
  have h := Nat.ModEq.pow_totient ((Nat.Prime.coprime_iff_not_dvd hq).2 hx).symm
  rw [Nat.totient_prime hq] at h
  rw [h, Nat.mod_eq_of_lt hq1]

/-- the generated modulus fits the fuel of `powMod` -/
theorem order_lt_fuel : Gen.C02.order < 2 ^ 512 :=
  Nat.lt_of_lt_of_le (show Gen.C02.order < 2 ^ 254 by decide)
    (Nat.pow_le_pow_right (by decide) (by decide))

/-! ## monitor -/

/-- what the monitor accepts: EVERY `(t+1)`-subset of the observed honest shares interpolates to
    `X`, every member's group public key is `X·G2`, and every member's share matches the public key
    share every other honest member holds for it. -/
theorem monitor_sound (q t X : Nat) (obs : List Obs) (h : holds q t X obs = true) :
    (∀ s ∈ subsetsOfSize (t + 1) (obs.map (fun o => (o.id, o.share))), interpolate0 q s = X) ∧
    (∀ o ∈ obs, o.gkFlag = true ∧ ∀ f ∈ o.pkFlags, f = true) := by
  simp only [holds, Bool.and_eq_true, List.all_eq_true, decide_eq_true_eq, id] at h
  exact ⟨h.1, fun o ho => ⟨(h.2 o ho).1, (h.2 o ho).2⟩⟩

/-- the subsets enumerated by the monitor are exactly the sublists of that length -/
theorem subsetsOfSize_spec {α} (k : Nat) (l s : List α) (h : s ∈ subsetsOfSize k l) :
    s.length = k ∧ s.Sublist l := by
  induction l generalizing k s with
  | nil =>
    cases k with
    | zero => simp [subsetsOfSize] at h; subst h; simp
    | succ k => simp [subsetsOfSize] at h
  | cons x xs ih =>
    cases k with
    | zero => simp [subsetsOfSize] at h; subst h; simp
    | succ k =>
      simp only [subsetsOfSize, List.mem_append, List.mem_map] at h
      rcases h with ⟨s', hs', rfl⟩ | h
      · obtain ⟨a, b⟩ := ih k s' hs'
        exact ⟨by simp [a], b.cons_cons x⟩
      · obtain ⟨a, b⟩ := ih (k + 1) s h
        exact ⟨a, b.cons x⟩

/-! ## concrete instances over the real modulus (kernel evaluation) -/

/-- `interpolate0` on the real bn256 order recovers the constant term of `5 + 2x + 3x²` from the
    shares at 1, 3, 5 and at 2, 4, 7, and of a polynomial with coefficients near the modulus. -/
theorem interpolate0_examples :
    interpolate0 Gen.C02.order [(1, 10), (3, 38), (5, 90)] = 5 ∧
    interpolate0 Gen.C02.order [(2, 21), (4, 61), (7, 166)] = 5 ∧
    (let r := Gen.C02.order
     let f := fun x => evalPoly r [r - 1, r - 2, r - 3] x
     interpolate0 r [(6, f 6), (2, f 2), (7, f 7)] = r - 1) := by
  decide +kernel

/-- the F1 runs of `Props/C01.lean` -/
def f1cfg (fixed : Bool) : Cfg :=
  { n := 5, t := 2, seed := 7, ord := 3, q := Gen.C02.order, fixed := fixed,
    adv := [(3, 8, [.mods [⟨"acc", [4]⟩]]), (4, 7, [.mods [⟨"pt", [2, 3]⟩]])] }

def f1singlecfg (fixed : Bool) : Cfg :=
  { n := 3, t := 1, seed := 5, ord := 0, q := Gen.C02.order, fixed := fixed,
    adv := [(3, 7, [.mods [⟨"pt", [2]⟩]])] }

set_option maxRecDepth 100000 in
/-- repaired code on the F1 run: all honest shares are consistent with the group key -/
theorem f1_shares_consistent_fixed : modelHolds (f1cfg true) = true := by decide +kernel

set_option maxRecDepth 100000 in
/-- unchanged tree on the single-corrupt-member F1 run: the two honest members' group keys are not
    the public key of the secret their shares interpolate to (C02 inherits F1). -/
theorem f1_shares_inconsistent_unfixed : modelHolds (f1singlecfg false) = false := by decide +kernel

/-- member 4 goes silent in phase 10 (its valid points are held by everyone), corrupt 5 reveals
    its key for 4 -/
def fKey (fix : Bool) : Cfg :=
  { n := 5, t := 2, seed := 1, ord := 2, q := Gen.C02.order, fixed := true, fixKey := fix,
    adv := [(4, 10, [.silent]), (5, 10, [.mods [⟨"rev", [4]⟩]])] }

set_option maxRecDepth 100000 in
/-- unchanged tree: the share recovered with the revealed key was interpolated into an extra
    "individual key" — the group public key is not the public key of the shared secret -/
theorem key_pollution_unfixed : modelHolds (fKey false) = false := by decide +kernel

set_option maxRecDepth 100000 in
theorem key_pollution_fixed_consistent : modelHolds (fKey true) = true := by decide +kernel

set_option maxRecDepth 100000 in
/-- a run in which a QUAL member goes silent in phase 7 and its key is reconstructed in phase 11 -/
theorem reconstruction_run_consistent :
    modelHolds { n := 5, t := 2, seed := 9, ord := 1, q := Gen.C02.order, fixed := true,
                 adv := [(4, 7, [.silent])] } = true := by decide +kernel

end KeepVerif.C02
