import KeepVerif.Model.C22
/-!
# C22 — Coordination leader and action checklist are the same on every member

Theorems over `Model/C22.lean` (the functions the driver runs); constants from `Gen/C22.lean`.
`rng` (swap sequences of `math/rand.Shuffle` per length, for the seed) and the `Float64` draw are
universally quantified parameters (A-rng).  Core Lean only.
-/
namespace KeepVerif.C22
open Gen.C22

/-! ## unique + sorted operator list -/

theorem mem_insertU (a x : Nat) (l : List Nat) : x ∈ insertU a l ↔ x = a ∨ x ∈ l := by
  induction l with
  | nil => simp [insertU]
  | cons b bs ih =>
    unfold insertU
    split
    · simp
    · split
      · rename_i h; subst h; simp
      · simp only [List.mem_cons, ih]
        constructor
        · rintro (h | h | h)
          · exact Or.inr (Or.inl h)
          · exact Or.inl h
          · exact Or.inr (Or.inr h)
        · rintro (h | h | h)
          · exact Or.inr (Or.inl h)
          · exact Or.inl h
          · exact Or.inr (Or.inr h)

theorem insertU_sorted (a : Nat) (l : List Nat) (h : l.Pairwise (· < ·)) :
    (insertU a l).Pairwise (· < ·) := by
  induction l with
  | nil => simp [insertU]
  | cons b bs ih =>
    have hb : ∀ y ∈ bs, b < y := (List.pairwise_cons.1 h).1
    have hbs : bs.Pairwise (· < ·) := (List.pairwise_cons.1 h).2
    unfold insertU
    split
    · rename_i hab
      refine List.pairwise_cons.2 ⟨?_, h⟩
      intro y hy
      rcases List.mem_cons.1 hy with rfl | hy
      · exact hab
      · exact Nat.lt_trans hab (hb y hy)
    · split
      · exact h
      · rename_i h1 h2
        refine List.pairwise_cons.2 ⟨?_, ih hbs⟩
        intro y hy
        rcases (mem_insertU a y bs).1 hy with rfl | hy
        · omega
        · exact hb y hy

/-- The list the leader is drawn from is strictly ascending (so duplicate free)… -/
theorem sortDedup_sorted (ops : List Nat) : (sortDedup ops).Pairwise (· < ·) := by
  induction ops with
  | nil => simp [sortDedup]
  | cons a as ih => exact insertU_sorted a _ ih

/-- …and has exactly the operators of the wallet as members. -/
theorem mem_sortDedup (ops : List Nat) (x : Nat) : x ∈ sortDedup ops ↔ x ∈ ops := by
  induction ops with
  | nil => simp [sortDedup]
  | cons a as ih =>
    show x ∈ insertU a (sortDedup as) ↔ _
    rw [mem_insertU, ih, List.mem_cons]

/-- Two strictly ascending lists with the same members are equal. -/
theorem asc_ext (l₁ l₂ : List Nat) (h₁ : l₁.Pairwise (· < ·)) (h₂ : l₂.Pairwise (· < ·))
    (h : ∀ a, a ∈ l₁ ↔ a ∈ l₂) : l₁ = l₂ := by
  induction l₁ generalizing l₂ with
  | nil =>
    cases l₂ with
    | nil => rfl
    | cons b bs => exact absurd ((h b).2 (by simp)) (by simp)
  | cons a as ih =>
    cases l₂ with
    | nil => exact absurd ((h a).1 (by simp)) (by simp)
    | cons b bs =>
      have ha := (List.pairwise_cons.1 h₁).1
      have hb := (List.pairwise_cons.1 h₂).1
      have hab : a = b := by
        have h1 := (h a).1 (by simp)
        have h2 := (h b).2 (by simp)
        rcases List.mem_cons.1 h1 with e | h1
        · exact e
        · rcases List.mem_cons.1 h2 with e | h2
          · exact e.symm
          · have := hb a h1; have := ha b h2; omega
      subst hab
      congr 1
      apply ih bs (List.pairwise_cons.1 h₁).2 (List.pairwise_cons.1 h₂).2
      intro x
      constructor
      · intro hx
        rcases List.mem_cons.1 ((h x).1 (List.mem_cons_of_mem _ hx)) with e | hx'
        · have := ha x hx; omega
        · exact hx'
      · intro hx
        rcases List.mem_cons.1 ((h x).2 (List.mem_cons_of_mem _ hx)) with e | hx'
        · have := hb x hx; omega
        · exact hx'

/-- The unique-sorted operator list depends only on the operator *set*: not on the order of the
    seats, not on repeated seats, not on Go's map iteration order (any listing of the set). -/
theorem sortDedup_eq_of_same_set (ops₁ ops₂ : List Nat) (h : ∀ a, a ∈ ops₁ ↔ a ∈ ops₂) :
    sortDedup ops₁ = sortDedup ops₂ :=
  asc_ext _ _ (sortDedup_sorted _) (sortDedup_sorted _)
    (fun a => by rw [mem_sortDedup, mem_sortDedup]; exact h a)

/-! ## shuffle -/

private theorem foldl_swaps_perm (sw : List (Nat × Nat)) (a : Array Nat) :
    (sw.foldl (fun a p => a.swapIfInBounds p.1 p.2) a).Perm a := by
  induction sw generalizing a with
  | nil => exact Array.Perm.refl _
  | cons p ps ih =>
    refine Array.Perm.trans (ih _) ?_
    show (a.swapIfInBounds p.1 p.2).Perm a
    rw [Array.swapIfInBounds_def]
    split
    · split
      · exact Array.swap_perm _ _
      · exact Array.Perm.refl _
    · exact Array.Perm.refl _

/-- Whatever swap sequence `math/rand` produces, the shuffled list is a permutation. -/
theorem applySwaps_perm (sw : List (Nat × Nat)) (l : List Nat) : (applySwaps sw l).Perm l := by
  have := foldl_swaps_perm sw l.toArray
  rw [Array.perm_iff_toList_perm] at this
  simpa [applySwaps] using this

/-! ## leader -/

/-- C22: members whose local views list the same operator set — in any order, with any
    repetition of seats — compute the same leader, for every behaviour of the seeded RNG. -/
theorem leader_perm_invariant (rng : Nat → List (Nat × Nat)) (ops₁ ops₂ : List Nat)
    (h : ∀ a, a ∈ ops₁ ↔ a ∈ ops₂) : getLeader rng ops₁ = getLeader rng ops₂ := by
  unfold getLeader
  rw [sortDedup_eq_of_same_set ops₁ ops₂ h]

/-- special case: a permutation of the seats -/
theorem leader_perm (rng : Nat → List (Nat × Nat)) (ops₁ ops₂ : List Nat) (h : ops₁.Perm ops₂) :
    getLeader rng ops₁ = getLeader rng ops₂ :=
  leader_perm_invariant rng _ _ (fun _ => h.mem_iff)

/-- C22: the leader is one of the wallet's operators (for a non-empty group). -/
theorem leader_mem (rng : Nat → List (Nat × Nat)) (ops : List Nat) (h : ops ≠ []) :
    ∃ a, getLeader rng ops = some a ∧ a ∈ ops := by
  unfold getLeader
  have hp := applySwaps_perm (rng (sortDedup ops).length) (sortDedup ops)
  cases hs : applySwaps (rng (sortDedup ops).length) (sortDedup ops) with
  | nil =>
    rw [hs] at hp
    have : sortDedup ops = [] := List.Perm.eq_nil (hp.symm)
    cases ops with
    | nil => exact absurd rfl h
    | cons a as =>
      have : a ∈ sortDedup (a :: as) := (mem_sortDedup _ a).2 (by simp)
      simp_all
  | cons a as =>
    refine ⟨a, by show (applySwaps _ _).head? = _; rw [hs]; rfl, ?_⟩
    have : a ∈ applySwaps (rng (sortDedup ops).length) (sortDedup ops) := by rw [hs]; simp
    exact (mem_sortDedup ops a).1 (hp.mem_iff.1 this)

/-- The only failing input is the empty group (Go: index out of range). -/
theorem leader_none_iff (rng : Nat → List (Nat × Nat)) (ops : List Nat) :
    getLeader rng ops = none ↔ ops = [] := by
  constructor
  · intro h
    cases ops with
    | nil => rfl
    | cons a as =>
      obtain ⟨x, hx, _⟩ := leader_mem rng (a :: as) (by simp)
      rw [h] at hx; cases hx
  · rintro rfl
    have hp := applySwaps_perm (rng (sortDedup []).length) (sortDedup [])
    have : applySwaps (rng (sortDedup []).length) (sortDedup []) = [] := List.Perm.eq_nil hp
    simp [getLeader, this]

/-! ## checklist -/

/-- T1 tie: the action type constants extracted from the source are pairwise distinct and the
    probability denominator / the window frequency are positive. -/
theorem action_constants_distinct :
    [actionNoop, actionHeartbeat, actionDepositSweep, actionRedemption, actionMovingFunds,
      actionMovedFundsSweep].Nodup ∧ 0 < frequencyWindows ∧ 0 < heartbeatProbDen := by decide

/-- incorrect windows (index 0) get no checklist -/
theorem checklist_zero (hb : Bool) : checklist 0 hb = [] := rfl

/-- C22: the exact shape of the checklist: redemption first; deposit sweep, moved funds sweep,
    moving funds (in this order) exactly every `frequencyWindows`-th window; heartbeat last,
    exactly when the seeded draw says so. -/
theorem checklist_spec (idx : Nat) (hb : Bool) (h : idx ≠ 0) :
    checklist idx hb =
      [actionRedemption]
        ++ (if idx % frequencyWindows = 0
            then [actionDepositSweep, actionMovedFundsSweep, actionMovingFunds] else [])
        ++ (if hb then [actionHeartbeat] else []) := by
  unfold checklist
  rw [if_neg h]
  by_cases h4 : idx % frequencyWindows = 0 <;> simp [h4]

theorem checklist_head (idx : Nat) (hb : Bool) (h : idx ≠ 0) :
    (checklist idx hb).head? = some actionRedemption := by
  rw [checklist_spec idx hb h]; rfl

/-- sweeps and moving funds are on the list ⇔ every fourth window -/
theorem checklist_sweeps_iff (idx : Nat) (hb : Bool) (h : idx ≠ 0) :
    (actionDepositSweep ∈ checklist idx hb ↔ idx % frequencyWindows = 0) ∧
    (actionMovedFundsSweep ∈ checklist idx hb ↔ idx % frequencyWindows = 0) ∧
    (actionMovingFunds ∈ checklist idx hb ↔ idx % frequencyWindows = 0) := by
  rw [checklist_spec idx hb h]
  by_cases h4 : idx % frequencyWindows = 0 <;> cases hb <;>
    simp [h4, actionDepositSweep, actionMovedFundsSweep, actionMovingFunds, actionRedemption,
      actionHeartbeat]

/-- heartbeat is on the list (as its last element) ⇔ the draw is below the probability -/
theorem checklist_heartbeat_iff (idx : Nat) (hb : Bool) (h : idx ≠ 0) :
    (actionHeartbeat ∈ checklist idx hb ↔ hb = true) ∧
    ((checklist idx hb).getLast? = some actionHeartbeat ↔ hb = true) := by
  rw [checklist_spec idx hb h]
  by_cases h4 : idx % frequencyWindows = 0 <;> cases hb <;>
    simp [h4, actionDepositSweep, actionMovedFundsSweep, actionMovingFunds, actionRedemption,
      actionHeartbeat]

/-- noop is never on the checklist -/
theorem checklist_no_noop (idx : Nat) (hb : Bool) : actionNoop ∉ checklist idx hb := by
  by_cases h : idx = 0
  · subst h; simp [checklist]
  · rw [checklist_spec idx hb h]
    by_cases h4 : idx % frequencyWindows = 0 <;> cases hb <;>
      simp [h4, actionDepositSweep, actionMovedFundsSweep, actionMovingFunds, actionRedemption,
        actionHeartbeat, actionNoop]

/-- the draw is `k / 2^53 < num / den` for the extracted probability -/
theorem draw_spec (k : Nat) :
    draw k = true ↔ k * heartbeatProbDen < heartbeatProbNum * 2 ^ 53 := by
  simp [draw]

/-! ## monitor ties: the monitor accepts every model output -/

private theorem sameSet_iff (a b : List Nat) (h : sameSet a b = true) : ∀ x, x ∈ a ↔ x ∈ b := by
  simp only [sameSet, Bool.and_eq_true, List.all_eq_true, List.contains_iff_mem] at h
  exact fun x => ⟨h.1 x, h.2 x⟩

theorem holdsLeader_model (rng : Nat → List (Nat × Nat)) (views : List (List Nat))
    (hne : ∀ v ∈ views, v ≠ []) :
    holdsLeader (views.map fun v => (v, (getLeader rng v).getD 0)) = true := by
  simp only [holdsLeader, Bool.and_eq_true, List.all_eq_true, List.mem_map,
    forall_exists_index, and_imp, forall_apply_eq_imp_iff₂, Bool.or_eq_true,
    Bool.not_eq_true', decide_eq_true_eq, List.contains_iff_mem]
  constructor
  · intro v hv
    obtain ⟨a, ha, hm⟩ := leader_mem rng v (hne v hv)
    simpa [ha] using hm
  · intro v _ w _
    cases hs : sameSet v w with
    | false => exact Or.inl rfl
    | true =>
      right
      rw [leader_perm_invariant rng v w (sameSet_iff v w hs)]

private theorem mem_zip_self (l : List Nat) (q : Nat × Nat) (hq : q ∈ l.zip l) : q.1 = q.2 := by
  induction l with
  | nil => simp at hq
  | cons x xs ih =>
    simp only [List.zip_cons_cons, List.mem_cons] at hq
    rcases hq with rfl | hq
    · rfl
    · exact ih hq

/-- C22 (histories): a member's answer in a window does not depend on the windows it
    coordinated before: the k-th election of a long-lived executor equals the election of a
    member without any history, whatever was elected earlier. -/
theorem leaderSeq_history_independent (pre post : List (Nat → List (Nat × Nat)))
    (rng : Nat → List (Nat × Nat)) (ops : List Nat) :
    (leaderSeq (pre ++ rng :: post) ops)[pre.length]? = some (getLeader rng ops) := by
  simp [leaderSeq]

/-- the seed of an election is only used through `rng` (A-rng): the seed is given separately
    to the monitor to recognise repeated seeds; `rngOf` maps a seed to its swap table. -/
theorem holdsLeaderSeq_model (rngOf : Nat → Nat → List (Nat × Nat)) (view : List Nat)
    (seeds : List Nat) (hne : view ≠ []) :
    let ls := seeds.map fun s => (getLeader (rngOf s) view).getD 0
    holdsLeaderSeq view seeds ls ls = true := by
  intro ls
  simp only [holdsLeaderSeq, Bool.and_eq_true, beq_self_eq_true, true_and, List.all_eq_true,
    Bool.or_eq_true, bne_iff_ne, ne_eq, beq_iff_eq, List.contains_iff_mem]
  constructor
  · intro l hl
    simp only [ls, List.mem_map] at hl
    obtain ⟨s, _, rfl⟩ := hl
    obtain ⟨a, ha, hm⟩ := leader_mem (rngOf s) view hne
    simpa [ha] using hm
  · intro a ha b hb
    have key : ∀ p ∈ seeds.zip ls, p.2 = (getLeader (rngOf p.1) view).getD 0 := by
      intro p hp
      simp only [ls, List.zip_map_right, List.mem_map] at hp
      obtain ⟨q, hq, rfl⟩ := hp
      have := List.of_mem_zip hq
      simp only [Prod.map]
      have hqq : q.1 = q.2 := mem_zip_self seeds q hq
      simp [hqq]
    by_cases e : a.1 = b.1
    · right; rw [key a ha, key b hb, e]
    · left; exact e

theorem holdsChecklist_model (idx : Nat) (hb : Bool) :
    holdsChecklist idx hb (checklist idx hb) = true := by
  by_cases h : idx = 0
  · subst h; simp [holdsChecklist, checklist]
  · unfold holdsChecklist
    rw [if_neg h, checklist_spec idx hb h]
    by_cases h4 : idx % frequencyWindows = 0 <;> cases hb <;> simp [h4] <;> decide

/-! non-vacuity / the monitor rejects wrong outputs -/
example : getLeader (fun _ => [(2, 0), (1, 1)]) [7, 3, 7, 5] = some 7 := by decide
example : getLeader (fun _ => [(2, 0), (1, 1)]) [5, 5, 3, 7, 3] = some 7 := by decide
example : holdsLeader [([1, 2], 1), ([2, 1, 1], 2)] = false := by decide
example : holdsLeader [([1, 2], 3)] = false := by decide
example : holdsLeaderSeq [1, 2, 3] [7, 8] [2, 3] [2, 1] = false := by decide
example : holdsLeaderSeq [1, 2, 3] [7, 7] [2, 3] [2, 3] = false := by decide
example : holdsLeaderSeq [1, 2, 3] [7, 8, 7] [2, 3, 2] [2, 3, 2] = true := by decide
example : checklist 8 true = [3, 2, 5, 4, 1] := by decide
example : holdsChecklist 8 false [3, 2, 5, 4, 1] = false := by decide
example : holdsChecklist 7 false [3, 2, 5, 4] = false := by decide
example : holdsChecklist 8 true [3, 2, 4, 5, 1] = false := by decide
example : holdsChecklist 0 true [3] = false := by decide

end KeepVerif.C22
