import KeepVerif.Props.C02
/-!
# C02 — the executable `interpolate0` is Lagrange interpolation at 0 in `ZMod p`
-/
namespace KeepVerif.C02
open KeepVerif.C01

variable (p : ℕ) [hp : Fact p.Prime]

theorem cast_subMod (a b : ℕ) : ((subMod p a b : ℕ) : ZMod p) = (a : ZMod p) - (b : ZMod p) := by
  have hb : b % p ≤ p := (Nat.mod_lt _ hp.out.pos).le
  unfold subMod
  rw [ZMod.natCast_mod, Nat.cast_add, ZMod.natCast_mod, Nat.cast_sub hb, ZMod.natCast_mod,
    ZMod.natCast_self]
  ring

theorem cast_inv (hlt : p < 2 ^ 512) (x : ℕ) (hx : (x : ZMod p) ≠ 0) :
    ((inv p x : ℕ) : ZMod p) = (x : ZMod p)⁻¹ := by
  have hdvd : ¬ p ∣ x := by
    intro h; exact hx ((ZMod.natCast_eq_zero_iff x p).2 h)
  have h := inv_spec p x hp.out hlt hdvd
  have hc : ((x * inv p x % p : ℕ) : ZMod p) = ((1 : ℕ) : ZMod p) := by rw [h]
  rw [ZMod.natCast_mod, Nat.cast_mul, Nat.cast_one] at hc
  exact eq_inv_of_mul_eq_one_right hc

theorem cast_lagrange (hlt : p < 2 ^ 512) (k : ℕ) (ids : List ℕ)
    (hne : ∀ l : ℕ, l ∈ ids → l ≠ k → (l : ZMod p) ≠ (k : ZMod p)) :
    ((lagrange p k ids : ℕ) : ZMod p) =
      ((ids.filter (· ≠ k)).map (fun (l : ℕ) => (l : ZMod p) / ((l : ZMod p) - (k : ZMod p)))).prod := by
  unfold lagrange
  suffices h : ∀ (l : List ℕ) (acc : ℕ), (∀ x : ℕ, x ∈ l → x ≠ k → (x : ZMod p) ≠ (k : ZMod p)) →
      ((l.foldl (fun acc l => if l = k then acc else acc * ((l % p) * inv p (subMod p l k) % p) % p) acc : ℕ) : ZMod p)
        = (acc : ZMod p) * ((l.filter (· ≠ k)).map (fun (l : ℕ) => (l : ZMod p) / ((l : ZMod p) - (k : ZMod p)))).prod by
    rw [h ids (1 % p) hne, ZMod.natCast_mod, Nat.cast_one, one_mul]
  intro l
  induction l with
  | nil => intro acc _; simp
  | cons x xs ih =>
    intro acc hx
    have hxs : ∀ y : ℕ, y ∈ xs → y ≠ k → (y : ZMod p) ≠ (k : ZMod p) := fun y hy => hx y (List.mem_cons_of_mem _ hy)
    simp only [List.foldl_cons]
    by_cases hxk : x = k
    · subst hxk
      simp only [if_true, List.filter_cons, ne_eq, not_true_eq_false, decide_false]
      exact ih acc hxs
    · have hne' : (x : ZMod p) - (k : ZMod p) ≠ 0 := sub_ne_zero.2 (hx x (by simp) hxk)
      rw [if_neg hxk, ih _ hxs]
      rw [ZMod.natCast_mod, Nat.cast_mul, ZMod.natCast_mod, Nat.cast_mul, ZMod.natCast_mod,
        cast_inv p hlt _ (by rw [cast_subMod]; exact hne'), cast_subMod]
      simp only [List.filter_cons, ne_eq, hxk, not_false_eq_true, decide_true, if_true,
        List.map_cons, List.prod_cons, div_eq_mul_inv]
      ring

theorem cast_interpolate0 (hlt : p < 2 ^ 512) (pts : List (ℕ × ℕ))
    (hne : ∀ a : ℕ, a ∈ pts.map (fun x => x.1) → ∀ b : ℕ, b ∈ pts.map (fun x => x.1) → a ≠ b →
      (a : ZMod p) ≠ (b : ZMod p)) :
    ((interpolate0 p pts : ℕ) : ZMod p) =
      (pts.map (fun pt => (pt.2 : ZMod p) *
        (((pts.map (fun x => x.1)).filter (· ≠ pt.1)).map
          (fun (l : ℕ) => (l : ZMod p) / ((l : ZMod p) - (pt.1 : ZMod p)))).prod)).sum := by
  unfold interpolate0
  simp only
  generalize hids : pts.map (fun x => x.1) = ids at hne
  suffices h : ∀ (l : List (ℕ × ℕ)) (acc : ℕ), (∀ pt ∈ l, pt.1 ∈ ids) →
      ((l.foldl (fun acc pt => (acc + pt.2 * lagrange p pt.1 ids) % p) acc : ℕ) : ZMod p)
        = (acc : ZMod p) + (l.map (fun pt => (pt.2 : ZMod p) *
            ((ids.filter (· ≠ pt.1)).map (fun (l : ℕ) => (l : ZMod p) / ((l : ZMod p) - (pt.1 : ZMod p)))).prod)).sum by
    rw [h pts 0 (fun pt hpt => hids ▸ List.mem_map.2 ⟨pt, hpt, rfl⟩), Nat.cast_zero, zero_add]
  intro l
  induction l with
  | nil => intro acc _; simp
  | cons x xs ih =>
    intro acc hx
    simp only [List.foldl_cons, List.map_cons, List.sum_cons]
    rw [ih _ (fun pt hpt => hx pt (List.mem_cons_of_mem _ hpt)), ZMod.natCast_mod, Nat.cast_add,
      Nat.cast_mul, cast_lagrange p hlt x.1 ids (fun l hl hlk => hne l hl x.1 (hx x (by simp)) hlk)]
    ring

open Polynomial in
/-- **The executable `interpolate0` (the function the driver and the monitor run, Nat arithmetic
    modulo `p` with the Fermat inverse) IS Lagrange interpolation at 0 in `ZMod p`**, for every
    prime `p < 2^512` and distinct nodes. -/
theorem interpolate0_eq_lagrange (hlt : p < 2 ^ 512) (ids : List ℕ) (y : ℕ → ℕ) (hnd : ids.Nodup)
    (hinj : ∀ a : ℕ, a ∈ ids → ∀ b : ℕ, b ∈ ids → a ≠ b → (a : ZMod p) ≠ (b : ZMod p)) :
    ((interpolate0 p (ids.map (fun i => (i, y i))) : ℕ) : ZMod p) =
      ∑ i ∈ ids.toFinset, (y i : ZMod p) *
        ∏ j ∈ ids.toFinset.erase i, ((j : ZMod p) / ((j : ZMod p) - (i : ZMod p))) := by
  have hfst : (ids.map (fun i => (i, y i))).map (fun x => x.1) = ids := by
    simp [List.map_map, Function.comp_def]
  rw [cast_interpolate0 p hlt _ (by rw [hfst]; exact hinj), hfst, List.map_map,
    ← List.sum_toFinset _ hnd]
  refine Finset.sum_congr rfl (fun i _ => ?_)
  simp only [Function.comp_apply]
  congr 1
  rw [← List.prod_toFinset _ (hnd.filter _), List.toFinset_filter]
  congr 1
  ext j
  simp [Finset.mem_erase, and_comm]

open Polynomial in
/-- `threshold_interpolates` for the executable function: if the share of member `i` is
    `y i ≡ Σ_{q∈QUAL} f_q(i)` with `deg f_q ≤ t`, then `interpolate0` of ANY `t+1` members' shares
    is `Σ_q f_q(0)` — the discrete log of the group public key. -/
theorem threshold_interpolates_exec (hlt : p < 2 ^ 512) {κ : Type*} (qual : Finset κ)
    (f : κ → (ZMod p)[X]) (t : ℕ) (hdeg : ∀ q ∈ qual, (f q).natDegree ≤ t)
    (ids : List ℕ) (hnd : ids.Nodup)
    (hinj : ∀ a : ℕ, a ∈ ids → ∀ b : ℕ, b ∈ ids → a ≠ b → (a : ZMod p) ≠ (b : ZMod p))
    (hlen : ids.length = t + 1) (y : ℕ → ℕ)
    (hy : ∀ i : ℕ, i ∈ ids → (y i : ZMod p) = ∑ q ∈ qual, (f q).eval (i : ZMod p)) :
    ((interpolate0 p (ids.map (fun i => (i, y i))) : ℕ) : ZMod p) = ∑ q ∈ qual, (f q).coeff 0 := by
  rw [interpolate0_eq_lagrange p hlt ids y hnd hinj]
  refine threshold_interpolates qual f t hdeg ids.toFinset (fun i : ℕ => (i : ZMod p)) ?_ ?_
    (fun i : ℕ => (y i : ZMod p)) ?_
  · intro a ha b hb hab
    by_contra hne
    exact hinj a (List.mem_toFinset.1 ha) b (List.mem_toFinset.1 hb) hne hab
  · rw [List.toFinset_card_of_nodup hnd, hlen]
  · intro i hi; exact hy i (List.mem_toFinset.1 hi)

/-- member indexes (1..255) are distinct in `ZMod p` for the real modulus -/
theorem small_ids_injective (hbig : 255 < p) (a b : ℕ) (ha : a ≤ 255) (hb : b ≤ 255) (hab : a ≠ b) :
    (a : ZMod p) ≠ (b : ZMod p) := by
  intro h
  rw [ZMod.natCast_eq_natCast_iff'] at h
  rw [Nat.mod_eq_of_lt (by omega), Nat.mod_eq_of_lt (by omega)] at h
  exact hab h

end KeepVerif.C02
