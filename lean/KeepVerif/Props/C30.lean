import KeepVerif.Model.C30
/-!
# C30 — Transaction size estimates never undershoot the real size

Theorems over `Model/C30.lean`; the placeholder lengths, script template lengths and the curve
order are the constants extracted from the source (`Gen/C30.lean`), so a changed placeholder
re-runs (and, if too small, breaks) `derSigLen_le_placeholder` / `estimate_ge_real`.
-/
namespace KeepVerif.C30

/-! ### T1 ties on the extracted constants -/

/-- a compressed key fits its placeholder. -/
theorem pk_fits : pkLen ≤ pkPh := by decide
/-- placeholders are not one byte long (a one-byte zero placeholder would shrink to `OP_0`). -/
theorem sigPh_ne_one : sigPh ≠ 1 := by decide
theorem pkPh_ne_one : pkPh ≠ 1 := by decide
theorem pkLen_ne_one : pkLen ≠ 1 := by decide

/-! ### monotonicity of the size functions -/

theorem varIntSize_mono {a b : Nat} (h : a ≤ b) : varIntSize a ≤ varIntSize b := by
  unfold varIntSize
  repeat' split
  all_goals omega

/-- `canonicalDataSize` is monotone in the length, except that a one-byte non-small datum (2
    bytes) is larger than a one-byte small one (1 byte). -/
theorem pushSize_mono {l l' : Nat} {b b' : Bool} (h : l ≤ l')
    (hs : l' = 1 → b' = true → b = true) : pushSize l b ≤ pushSize l' b' := by
  unfold pushSize
  cases b <;> cases b' <;> simp at hs ⊢ <;> repeat' split
  all_goals omega

/-- pointwise `≤` on lists of lengths (same number of items). -/
def leList : List Nat → List Nat → Prop
  | [], [] => True
  | a :: as, b :: bs => a ≤ b ∧ leList as bs
  | _, _ => False

def InLe (a b : TxIn) : Prop := a.sigScript ≤ b.sigScript ∧ leList a.witness b.witness

def insLe : List TxIn → List TxIn → Prop
  | [], [] => True
  | a :: as, b :: bs => InLe a b ∧ insLe as bs
  | _, _ => False

theorem leList_refl (a : List Nat) : leList a a := by
  induction a with
  | nil => trivial
  | cons x xs ih => exact ⟨Nat.le_refl _, ih⟩

theorem leList_length {a b : List Nat} (h : leList a b) : a.length = b.length := by
  induction a generalizing b with
  | nil => cases b with
    | nil => rfl
    | cons _ _ => exact absurd h (by simp [leList])
  | cons x xs ih => cases b with
    | nil => exact absurd h (by simp [leList])
    | cons y ys => simp [ih h.2]

theorem itemsSize_mono {a b : List Nat} (h : leList a b) : itemsSize a ≤ itemsSize b := by
  induction a generalizing b with
  | nil => cases b with
    | nil => exact Nat.le_refl _
    | cons _ _ => exact absurd h (by simp [leList])
  | cons x xs ih => cases b with
    | nil => exact absurd h (by simp [leList])
    | cons y ys =>
      have h1 := varIntSize_mono h.1
      have h2 := ih h.2
      have h3 := h.1
      simp only [itemsSize]; omega

theorem outsSize_mono {a b : List Nat} (h : leList a b) : outsSize a ≤ outsSize b := by
  induction a generalizing b with
  | nil => cases b with
    | nil => exact Nat.le_refl _
    | cons _ _ => exact absurd h (by simp [leList])
  | cons x xs ih => cases b with
    | nil => exact absurd h (by simp [leList])
    | cons y ys =>
      have h1 := varIntSize_mono h.1
      have h2 := ih h.2
      have h3 := h.1
      simp only [outsSize]; omega

theorem witnessSize_mono {a b : List Nat} (h : leList a b) : witnessSize a ≤ witnessSize b := by
  unfold witnessSize
  rw [leList_length h]
  have := itemsSize_mono h
  omega

theorem leList_isEmpty {a b : List Nat} (h : leList a b) : a.isEmpty = b.isEmpty := by
  cases a <;> cases b <;> simp_all [leList]

theorem insLe_spec {a b : List TxIn} (h : insLe a b) :
    a.length = b.length ∧ insBase a ≤ insBase b ∧ insWit a ≤ insWit b ∧ anyWit a = anyWit b := by
  induction a generalizing b with
  | nil => cases b with
    | nil => simp
    | cons _ _ => exact absurd h (by simp [insLe])
  | cons x xs ih => cases b with
    | nil => exact absurd h (by simp [insLe])
    | cons y ys =>
      obtain ⟨⟨hs, hw⟩, ht⟩ := h
      obtain ⟨i1, i2, i3, i4⟩ := ih ht
      have h1 := varIntSize_mono hs
      have h2 := witnessSize_mono hw
      refine ⟨by simp [i1], ?_, ?_, ?_⟩
      · simp only [insBase]; omega
      · simp only [insWit]; omega
      · simp only [anyWit, leList_isEmpty hw, i4]

/-- `vsize_monotone`: the virtual size is monotone in every signature-script length, every
    witness item length and every output script length (same numbers of inputs, witness items
    and outputs). -/
theorem vsize_monotone (s t : Shape) (hi : insLe s.ins t.ins) (ho : leList s.outs t.outs) :
    vsize s ≤ vsize t := by
  obtain ⟨i1, i2, i3, i4⟩ := insLe_spec hi
  have o1 := leList_length ho
  have o2 := outsSize_mono ho
  have hb : baseSize s ≤ baseSize t := by
    unfold baseSize; rw [i1, o1]; omega
  have ht : totalSize s ≤ totalSize t := by
    unfold totalSize; rw [i4]
    split <;> omega
  unfold vsize
  apply Nat.div_le_div_right
  omega

/-! ### the estimator dominates the builder -/

/-- per input: what the estimator adds is at least what `AddSignatures` produces, for every
    signature not longer than the placeholder. -/
theorem realIn_le_estIn (k : InKind) (sigLen : Nat) (hsig : sigLen ≤ sigPh) (hk : inScope k = true) :
    InLe (realIn k sigLen) (estIn k) := by
  have hp : pushSize sigLen false ≤ pushSize sigPh true :=
    pushSize_mono hsig (fun h => absurd h sigPh_ne_one)
  have hq : pushSize pkLen false ≤ pushSize pkPh true :=
    pushSize_mono pk_fits (fun h => absurd h pkPh_ne_one)
  cases k with
  | pkh => exact ⟨by simp only [realIn, estIn]; omega, trivial⟩
  | wpkh => exact ⟨Nat.le_refl _, hsig, pk_fits, trivial⟩
  | wsh rlen small => exact ⟨Nat.le_refl _, hsig, pk_fits, Nat.le_refl _, trivial⟩
  | sh rlen small =>
    refine ⟨?_, trivial⟩
    simp only [realIn, estIn]
    have hr : (if rlen = 0 then 0 else pushSize rlen small) ≤ pushSize rlen true := by
      split
      · omega
      · apply pushSize_mono (Nat.le_refl _)
        intro h1 _
        simpa [inScope, h1] using hk
    omega

theorem realIns_le_estIns (ins : List (InKind × Nat))
    (h : ∀ p ∈ ins, p.2 ≤ sigPh ∧ inScope p.1 = true) :
    insLe (ins.map (fun p => realIn p.1 p.2)) ((ins.map (·.1)).map estIn) := by
  induction ins with
  | nil => trivial
  | cons p ps ih =>
    refine ⟨realIn_le_estIn p.1 p.2 (h p (by simp)).1 (h p (by simp)).2, ?_⟩
    exact ih (fun q hq => h q (by simp [hq]))

/-- `estimate_ge_real` (lengths form): for every list of inputs (any mix of P2PKH, P2WPKH, P2SH,
    P2WSH with any redeem script lengths) and outputs, if every signature (DER + sighash byte) is
    at most the placeholder length, the estimated virtual size is at least the real one. -/
theorem estimate_ge_real (ins : List (InKind × Nat)) (outs : List OutKind)
    (h : ∀ p ∈ ins, p.2 ≤ sigPh ∧ inScope p.1 = true) :
    vsize (realShape ins outs) ≤ vsize (estShape (ins.map (·.1)) outs) :=
  vsize_monotone _ _ (realIns_le_estIns ins h) (leList_refl _)

/-- the estimator fails exactly when the builder fails (oversized P2SH redeem script push). -/
theorem estimate_none_iff (ins : List (InKind × Nat)) (outs : List OutKind) :
    estimate (ins.map (·.1)) outs = none ↔ realSize ins outs = none := by
  unfold estimate realSize
  simp only [List.any_map]
  have : (ins.any ((pushFails ∘ fun x => x.1))) = ins.any (fun p => pushFails p.1) := rfl
  rw [this]
  split <;> simp

/-! ### signature lengths: `btcec.Signature.Serialize` never exceeds the placeholder -/

theorem canonLen_le {x k : Nat} (hk : 0 < k) (hx : x < 2 ^ k) : canonLen x ≤ (k + 8) / 8 := by
  unfold canonLen
  apply Nat.div_le_div_right
  by_cases h0 : x = 0
  · subst h0
    have : Nat.log2 0 = 0 := by decide
    omega
  · have := (Nat.log2_lt h0).2 hx
    omega

theorem curveN_lt : curveN < 2 ^ 256 := by decide
theorem halfN_lt : curveN / 2 < 2 ^ 255 := by decide

/-- `derSigLen_le_placeholder`: for every `r, s` below the group order, the serialised signature
    (low-S normalised, canonical integers, DER header, sighash byte) is at most the placeholder
    length extracted from the estimator. This discharges the signature-length part of A-ecdsa. -/
theorem derSigLen_le_placeholder (r s : Nat) (hr : r < curveN) (hs : s < curveN) :
    derSigLen r s ≤ sigPh := by
  unfold derSigLen
  have h1 : canonLen r ≤ 33 := canonLen_le (k := 256) (by decide) (Nat.lt_trans hr curveN_lt)
  have hs' : (if s > curveN / 2 then curveN - s else s) < 2 ^ 255 := by
    have hh := halfN_lt
    split
    · have : curveN - s ≤ curveN / 2 := by omega
      omega
    · omega
  have h2 : canonLen (if s > curveN / 2 then curveN - s else s) ≤ 32 := canonLen_le (k := 255) (by decide) hs'
  show 6 + canonLen r + canonLen _ + 1 ≤ sigPh
  have : sigPh = 72 ∨ 72 ≤ sigPh := Or.inr (by decide)
  omega

/-- the bound is attained: a maximal signature exists (so a smaller placeholder undershoots). -/
theorem derSigLen_max_attained : derSigLen (2 ^ 255) (2 ^ 254) = 72 := by decide

/-- `estimate_ge_real` (signature form): for all inputs whose signatures have `r, s` below the
    group order — whatever the key, nonce or S-parity — the estimate is at least the real size. -/
theorem estimate_ge_real_sigs (ins : List (InKind × Nat × Nat)) (outs : List OutKind)
    (h : ∀ p ∈ ins, p.2.1 < curveN ∧ p.2.2 < curveN ∧ inScope p.1 = true) :
    vsize (realShape (ins.map (fun p => (p.1, derSigLen p.2.1 p.2.2))) outs)
      ≤ vsize (estShape (ins.map (·.1)) outs) := by
  have := estimate_ge_real (ins.map (fun p => (p.1, derSigLen p.2.1 p.2.2))) outs (by
    intro q hq
    simp only [List.mem_map] at hq
    obtain ⟨p, hp, rfl⟩ := hq
    obtain ⟨a, b, c⟩ := h p hp
    exact ⟨derSigLen_le_placeholder _ _ a b, c⟩)
  simpa [List.map_map, Function.comp_def] using this

/-- `estimate_exact_when_maximal`: with maximal signatures and non-empty redeem scripts the
    estimate is exact. -/
theorem estimate_exact_when_maximal (ins : List (InKind × Nat)) (outs : List OutKind)
    (h : ∀ p ∈ ins, p.2 = sigPh ∧ inScope p.1 = true ∧ (∀ r b, p.1 = .sh r b → r ≠ 0)) :
    vsize (realShape ins outs) = vsize (estShape (ins.map (·.1)) outs) := by
  have : realShape ins outs = estShape (ins.map (·.1)) outs := by
    unfold realShape estShape
    congr 1
    rw [List.map_map]
    apply List.map_congr_left
    intro p hp
    obtain ⟨h1, h2, h3⟩ := h p hp
    have e1 : pushSize sigPh false = pushSize sigPh true := by decide
    have e2 : pushSize pkLen false = pushSize pkPh true := by decide
    have e3 : pkLen = pkPh := by decide
    obtain ⟨k, sl⟩ := p
    simp only at h1 h2 h3
    subst h1
    cases k with
    | pkh => simp [realIn, estIn, e1, e2]
    | wpkh => simp [realIn, estIn, e3]
    | wsh r b => simp [realIn, estIn, e3]
    | sh r b =>
      have hr := h3 r b rfl
      simp only [Function.comp, realIn, estIn, e1, e2, hr, if_false]
      congr 2
      by_cases h1 : r = 1
      · subst h1
        have : b = true := by simpa [inScope] using h2
        rw [this]
      · unfold pushSize; simp [h1]
  rw [this]

/-- Out of scope edge, stated for the record: a P2SH input whose redeem script is ONE byte that
    is not a small integer is pushed in 2 bytes by the builder but its zero placeholder in
    1 byte (`OP_0`) — the estimate is one vbyte short when the signature is maximal. No tBTC
    script has one byte (deposit scripts: 92 or 126 bytes). -/
theorem one_byte_redeem_script_edge :
    vsize (estShape [.sh 1 false] [.wpkh]) + 1 = vsize (realShape [(.sh 1 false, 72)] [.wpkh]) := by
  decide

/-! ### monitor ties -/

/-- the monitor accepts what the model computes, for every in-bound signature length. -/
theorem holds_model (ins : List (InKind × Nat)) (outs : List OutKind)
    (h : ∀ p ∈ ins, p.2 ≤ sigPh) :
    holds ins (estimate (ins.map (·.1)) outs) (realSize ins outs) = true := by
  by_cases hf : ins.any (fun p => pushFails p.1) = true
  · have h1 : realSize ins outs = none := by simp [realSize, hf]
    have h2 := (estimate_none_iff ins outs).2 h1
    rw [h1, h2]; rfl
  · have h1 : realSize ins outs = some (vsize (realShape ins outs)) := by simp [realSize, hf]
    have h2 : estimate (ins.map (·.1)) outs = some (vsize (estShape (ins.map (·.1)) outs)) := by
      cases he : estimate (ins.map (·.1)) outs with
      | none => rw [(estimate_none_iff ins outs).1 he] at h1; cases h1
      | some v =>
        unfold estimate at he
        split at he
        · cases he
        · cases he; rfl
    rw [h1, h2]
    unfold holds
    by_cases hsc : ins.all (fun p => inScope p.1) = true
    · have := estimate_ge_real ins outs (fun p hp =>
        ⟨h p hp, by simpa using (List.all_eq_true.mp hsc) p hp⟩)
      simp [this]
    · simp [hsc]

/-- non-vacuity: a deposit sweep shape (main UTXO + 2 P2WSH deposits + 1 P2SH deposit). -/
example : estimate [.wpkh, .wsh 92 false, .wsh 126 false, .sh 92 false] [.wpkh] = some 543 := by decide
example : realSize [(.wpkh, 72), (.wsh 92 false, 71), (.wsh 126 false, 72), (.sh 92 false, 71)] [.wpkh]
    = some 542 := by decide
/-- the monitor rejects an undershoot and a lone estimator failure. -/
example : holds [(.wpkh, 72)] (some 109) (some 110) = false := by decide
example : holds [(.wpkh, 72)] none (some 110) = false := by decide

/-! ### whole-flow shapes (pkg/tbtcpg estimators vs pkg/tbtc assemblers) -/

theorem anyWit_cons_le (i : TxIn) (is : List TxIn) :
    (if anyWit is then 2 + insWit is else 0) ≤ (if anyWit (i :: is) then 2 + insWit (i :: is) else 0) := by
  simp only [anyWit, insWit]
  by_cases h1 : anyWit is = true
  · simp only [h1, Bool.or_true, if_true]; omega
  · simp only [h1]; exact Nat.zero_le _

/-- an extra input never makes the transaction smaller. -/
theorem vsize_cons_in_le (i : TxIn) (is : List TxIn) (o : List Nat) :
    vsize ⟨is, o⟩ ≤ vsize ⟨i :: is, o⟩ := by
  have hv : varIntSize is.length ≤ varIntSize (i :: is).length := varIntSize_mono (by simp)
  have hw := anyWit_cons_le i is
  unfold vsize
  apply Nat.div_le_div_right
  simp only [totalSize, baseSize, insBase] at *
  omega

/-- an extra output never makes the transaction smaller. -/
theorem vsize_cons_out_le (is : List TxIn) (l : Nat) (o : List Nat) :
    vsize ⟨is, o⟩ ≤ vsize ⟨is, l :: o⟩ := by
  have hv : varIntSize o.length ≤ varIntSize (l :: o).length := varIntSize_mono (by simp)
  unfold vsize
  apply Nat.div_le_div_right
  simp only [totalSize, baseSize, outsSize] at *
  split <;> omega

theorem dep_fits : depScriptLen ≤ depScriptMax ∧ depScriptExtraLen ≤ depScriptMax := by decide

theorem depIns_le (deps : List (Bool × Nat)) (h : ∀ d ∈ deps, d.2 ≤ sigPh) :
    insLe ((deps.map depIn).map (fun p => realIn p.1 p.2))
      ((List.replicate deps.length (InKind.wsh depScriptMax false)).map estIn) := by
  induction deps with
  | nil => trivial
  | cons d ds ih =>
    refine ⟨?_, ih (fun q hq => h q (by simp [hq]))⟩
    have hd := h d (by simp)
    refine ⟨Nat.le_refl _, hd, pk_fits, ?_, trivial⟩
    cases d.1
    · exact dep_fits.1
    · exact dep_fits.2

/-- deposit sweep: the fee estimate's size (main UTXO + n worst-case P2WSH deposits) covers every
    real sweep of n P2WSH deposits (plain or extra-data scripts), with or without a main UTXO,
    for all signature lengths up to the placeholder. -/
theorem sweep_estimate_covers (main : Option Nat) (deps : List (Bool × Nat))
    (hm : ∀ s, main = some s → s ≤ sigPh) (hd : ∀ d ∈ deps, d.2 ≤ sigPh) :
    sweepReal main deps ≤ sweepEst deps.length := by
  unfold sweepReal sweepEst realShape estShape
  have hdeps := depIns_le deps hd
  cases main with
  | none =>
    simp only [optSig, List.nil_append, List.map_cons]
    refine Nat.le_trans (vsize_monotone _ ⟨_, _⟩ hdeps (leList_refl _)) ?_
    exact vsize_cons_in_le _ _ _
  | some s =>
    simp only [optSig, List.cons_append, List.nil_append, List.map_cons]
    apply vsize_monotone
    · exact ⟨⟨Nat.le_refl _, hm s rfl, pk_fits, trivial⟩, hdeps⟩
    · exact leList_refl _

/-- redemption: the estimate always counts the change output; the real transaction has it only
    when the change is positive. -/
theorem redeem_estimate_covers (sig : Nat) (change : Bool) (outs : List OutKind) (hs : sig ≤ sigPh) :
    redeemReal sig change outs ≤ redeemEst outs := by
  unfold redeemReal redeemEst realShape estShape
  have hin : insLe ([(InKind.wpkh, sig)].map (fun p => realIn p.1 p.2)) ([InKind.wpkh].map estIn) :=
    ⟨⟨Nat.le_refl _, hs, pk_fits, trivial⟩, trivial⟩
  cases change with
  | true => exact vsize_monotone _ _ hin (leList_refl _)
  | false =>
    simp only [Bool.false_eq_true, if_false, List.map_cons]
    refine Nat.le_trans (vsize_monotone _ ⟨_, _⟩ hin (leList_refl _)) ?_
    exact vsize_cons_out_le _ _ _

theorem move_estimate_covers (sig n : Nat) (hs : sig ≤ sigPh) : moveReal sig n ≤ moveEst n := by
  unfold moveReal moveEst realShape estShape
  exact vsize_monotone _ _ ⟨⟨Nat.le_refl _, hs, pk_fits, trivial⟩, trivial⟩ (leList_refl _)

theorem msweep_estimate_covers (moved : Nat) (main : Option Nat) (h1 : moved ≤ sigPh)
    (h2 : ∀ s, main = some s → s ≤ sigPh) : msweepReal moved main ≤ msweepEst main.isSome := by
  unfold msweepReal msweepEst realShape estShape
  cases main with
  | none =>
    exact vsize_monotone _ _ ⟨⟨Nat.le_refl _, h1, pk_fits, trivial⟩, trivial⟩ (leList_refl _)
  | some s =>
    exact vsize_monotone _ _
      ⟨⟨Nat.le_refl _, h1, pk_fits, trivial⟩, ⟨Nat.le_refl _, h2 s rfl, pk_fits, trivial⟩, trivial⟩
      (leList_refl _)

example : sweepEst 3 = 409 ∧ sweepReal (some 72) [(true, 72), (true, 72), (true, 72)] = 409
    ∧ sweepReal none [(false, 71), (true, 72), (false, 70)] = 323 := by decide

end KeepVerif.C30
