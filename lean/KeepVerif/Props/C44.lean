import KeepVerif.Model.C44
/-!
# C44 — Explicit configuration is never overridden by network defaults

Theorems over `Model/C44.lean`; the network tables and the presence of embedded defaults come
from `Gen/C44.lean` (regenerated from the code).  Quantification: every flag combination, every
way each value can be configured (unset / file / flag / both / empty / invalid) and every list
of contract sources.
-/
namespace KeepVerif.C44
open KeepVerif.Gen.C44

/-! ### T1: the network tables -/

/-- `network.Type` → names, Ethereum and Bitcoin networks: mainnet ↦ (mainnet, mainnet),
testnet ↦ (sepolia, testnet), developer ↦ (developer, regtest), unknown ↦ (unknown, unknown). -/
theorem network_tables :
    networkNames = ["unknown", "mainnet", "testnet", "developer"] ∧
    ethereumNameOf = ["unknown", "mainnet", "sepolia", "developer"] ∧
    bitcoinNameOf = ["unknown", "mainnet", "testnet", "regtest"] := by decide

/-- no two client networks share an Ethereum or a Bitcoin network. -/
theorem network_tables_injective : ethereumOf.Nodup ∧ bitcoinOf.Nodup ∧
    ethereumOf.length = 4 ∧ bitcoinOf.length = 4 := by decide

/-- embedded defaults exist exactly for mainnet and testnet. -/
theorem embedded_defaults : peersDefaultPresent = [0, 1, 1, 0] ∧ electrumDefaultPresent = [0, 1, 1, 0] := by
  decide

/-! ### network selection -/

/-- C44 (c): for every accepted flag combination the Ethereum and the Bitcoin network are those
of one and the same `network.Type` — the selected one (no flag set at all: both stay unknown). -/
theorem networks_consistent (f : Flags) (p e : Src) (cs ts : List Src) (h : f.accepted = true) :
    (readConfig f p e cs ts).eth = ethOf (chainNetwork f) ∧
    (readConfig f p e cs ts).btc = btcOf (chainNetwork f) := by
  simp [readConfig, h]

/-- the selection itself: `--testnet` ⇒ testnet, `--developer` ⇒ developer, otherwise mainnet;
more than one network flag is rejected before the configuration is read. -/
theorem selection (f : Flags) (h : f.nilFlags = false) :
    (f.accepted = true ↔ f.mainnet.toNat + f.testnet.toNat + f.developer.toNat ≤ 1) ∧
    (f.accepted = true → f.testnet = true → clientNetwork f = 2) ∧
    (f.accepted = true → f.developer = true → clientNetwork f = 3) ∧
    (f.testnet = false → f.developer = false → clientNetwork f = 1) := by
  obtain ⟨n, m, t, d⟩ := f
  simp only at h; subst h
  cases m <;> cases t <;> cases d <;> simp [Flags.accepted, clientNetwork]

theorem rejected_reads_nothing (f : Flags) (p e : Src) (cs ts : List Src) (h : f.accepted = false) :
    readConfig f p e cs ts = ⟨.flags, 0, 0, .none, .none, [], []⟩ := by
  simp [readConfig, h]

/-! ### explicit values -/

/-- the generic rule: an explicit value is kept whatever the default is. -/
theorem resolve_explicit (v d : Val) : resolve (some v) d = v := rfl
theorem resolve_unset (d : Val) : resolve none d = d := rfl

private theorem resolveAll_get (cs : List Src) (k i : Nat) (hi : i < cs.length) :
    (resolveAll cs k)[i]? = some (resolve (explicit cs[i]) (contractDefault (k + i))) := by
  induction cs generalizing k i with
  | nil => simp at hi
  | cons s ss ih =>
    cases i with
    | zero => simp [resolveAll]
    | succ j =>
      simp only [resolveAll, List.getElem?_cons_succ, List.getElem_cons_succ]
      rw [ih (k + 1) j (by simpa using hi)]
      congr 3; omega

/-- C44 (a): explicitly configured peers, Electrum URL and contract addresses are kept, under
every accepted network selection (a flag overrides the file; an invalid address is kept, not
replaced). -/
theorem explicit_kept (f : Flags) (p e : Src) (cs ts : List Src) (h : f.accepted = true) :
    (∀ v, explicit p = some v → (readConfig f p e cs ts).peers = v) ∧
    (∀ v, explicit e = some v → (readConfig f p e cs ts).electrum = v) ∧
    (∀ i (hi : i < cs.length) v, explicit cs[i] = some v → (readConfig f p e cs ts).contracts[i]? = some v) := by
  refine ⟨?_, ?_, ?_⟩
  · intro v hv; simp [readConfig, h, hv, resolve]
  · intro v hv; simp [readConfig, h, hv, resolve]
  · intro i hi v hv
    simp only [readConfig, h, Bool.not_true, Bool.false_eq_true, if_false]
    rw [resolveAll_get cs 0 i hi, hv]; rfl

/-- C44 (b): a default is filled in **iff** the value was left unset (and then it is the default
of the selected network, if one is embedded). -/
theorem default_iff_unset (f : Flags) (p e : Src) (cs ts : List Src) (h : f.accepted = true) :
    ((∃ n, (readConfig f p e cs ts).peers = .dflt n) ↔
        explicit p = none ∧ ∃ n, peersDefault (clientNetwork f) = .dflt n) ∧
    ((∃ n, (readConfig f p e cs ts).electrum = .dflt n) ↔
        explicit e = none ∧ ∃ n, electrumDefault (btcOf (chainNetwork f)) = .dflt n) := by
  constructor
  · simp only [readConfig, h, Bool.not_true, Bool.false_eq_true, if_false]
    cases p <;> simp [explicit, resolve]
  · simp only [readConfig, h, Bool.not_true, Bool.false_eq_true, if_false]
    cases e <;> simp [explicit, resolve]

/-- the default taken is the one of the selected network, never of another one. -/
theorem default_of_selected_network (f : Flags) (p e : Src) (cs ts : List Src) (h : f.accepted = true) (n : Nat) :
    ((readConfig f p e cs ts).peers = .dflt n → n = clientNetwork f) ∧
    ((readConfig f p e cs ts).electrum = .dflt n → n = btcOf (chainNetwork f)) := by
  simp only [readConfig, h, Bool.not_true, Bool.false_eq_true, if_false]
  constructor
  · cases p <;> simp [explicit, resolve, peersDefault] <;> (intro h1; split at h1 <;> simp_all)
  · cases e <;> simp [explicit, resolve, electrumDefault] <;> (intro h1; split at h1 <;> simp_all)

/-- the developer network has no embedded peers / Electrum defaults: unset stays unset. -/
theorem developer_no_defaults (f : Flags) (p e : Src) (cs ts : List Src)
    (hf : f = ⟨false, false, false, true⟩) (hp : explicit p = none) (he : explicit e = none) :
    (readConfig f p e cs ts).peers = .none ∧ (readConfig f p e cs ts).electrum = .none ∧
    (readConfig f p e cs ts).rc = .validation := by
  subst hf
  simp [readConfig, Flags.accepted, hp, he, resolve, clientNetwork, chainNetwork, peersDefault]
  decide

/-- a contract address default is used only for a contract that is not configured. -/
theorem contract_default_only_if_not_configured (f : Flags) (p e : Src) (cs ts : List Src)
    (h : f.accepted = true) (i : Nat) (hi : i < cs.length) (n : Nat)
    (hd : (readConfig f p e cs ts).contracts[i]? = some (.dflt n)) :
    explicit cs[i] = none ∧ n = i := by
  simp only [readConfig, h, Bool.not_true, Bool.false_eq_true, if_false] at hd
  rw [resolveAll_get cs 0 i hi] at hd
  cases hs : cs[i] <;> simp [hs, explicit, resolve, contractDefault] at hd ⊢
  all_goals (split at hd <;> simp_all)

/-- C44 (a) for the other Electrum settings: an explicitly configured connect / request timeout or
keep-alive interval is kept under every network selection and whether or not the URL is
defaulted — default resolution touches only the URL. -/
theorem electrum_settings_kept (f : Flags) (p e : Src) (cs ts : List Src) (h : f.accepted = true)
    (i : Nat) (hi : i < ts.length) :
    (ts[i] = .file → (readConfig f p e cs ts).timeouts[i]? = some .file) ∧
    ((ts[i] = .flag ∨ ts[i] = .both) → (readConfig f p e cs ts).timeouts[i]? = some .flag) := by
  simp only [readConfig, h, Bool.not_true, Bool.false_eq_true, if_false, List.getElem?_map,
    List.getElem?_eq_getElem hi, Option.map_some]
  constructor
  · intro hs; simp [hs, resolveTimeout]
  · rintro (hs | hs) <;> simp [hs, resolveTimeout]

/-! ### the monitor accepts every model output -/

private theorem holdsTimeouts_map (n : Bool) (ts : List Src) :
    holdsTimeouts ts (ts.map (resolveTimeout n)) = true := by
  induction ts with
  | nil => rfl
  | cons s ss ih =>
    simp only [List.map_cons, holdsTimeouts, ih, Bool.and_true]
    cases s <;> cases n <;> simp [holdsTimeout, resolveTimeout]


private theorem holdsVal_resolve (s : Src) (d : Val) : holdsVal s d (resolve (explicit s) d) = true := by
  cases s <;> simp [holdsVal, explicit, resolve]

private theorem holdsVals_resolveAll (cs : List Src) (k : Nat) : holdsVals cs (resolveAll cs k) k = true := by
  induction cs generalizing k with
  | nil => rfl
  | cons s ss ih => simp [holdsVals, resolveAll, holdsVal_resolve, ih]

/-- Soundness link: the monitor accepts the model's output for every input. -/
theorem holds_model (f : Flags) (p e : Src) (cs ts : List Src) :
    holds f p e cs ts (readConfig f p e cs ts) = true := by
  by_cases h : f.accepted = true
  · simp [holds, readConfig, h, holdsVal_resolve, holdsVals_resolveAll, holdsTimeouts_map]
    split <;> simp
  · simp only [Bool.not_eq_true] at h
    simp [holds, readConfig, h]

/-- not vacuous: an overridden explicit peer list, a default of the wrong network, and a
testnet selection with a mainnet Bitcoin network are rejected. -/
example : holds ⟨false, false, true, false⟩ .file .unset [] [] ⟨.ok, 2, 2, .dflt 2, .dflt 2, [], []⟩ = false := by decide
example : holds ⟨false, false, true, false⟩ .unset .unset [] [] ⟨.ok, 2, 2, .dflt 1, .dflt 2, [], []⟩ = false := by decide
example : holds ⟨false, false, true, false⟩ .unset .unset [] [] ⟨.ok, 2, 1, .dflt 2, .dflt 1, [], []⟩ = false := by decide
example : holds ⟨false, false, true, false⟩ .unset .unset [] [] ⟨.ok, 2, 2, .dflt 2, .dflt 2, [], []⟩ = true := by decide
example : holds ⟨false, false, false, false⟩ .unset .flag [.file] [] ⟨.ok, 1, 1, .dflt 1, .flag, [.none], []⟩ = false := by decide
-- an explicit timeout zeroed while the URL is defaulted (seeded C44-b)
example : holds ⟨false, false, true, false⟩ .unset .unset [] [.file] ⟨.ok, 2, 2, .dflt 2, .dflt 2, [], [.zero]⟩ = false := by decide
example : holds ⟨false, false, true, false⟩ .unset .unset [] [.file] ⟨.ok, 2, 2, .dflt 2, .dflt 2, [], [.file]⟩ = true := by decide

end KeepVerif.C44
