/-
Shared runtime of the model drivers (core Lean only, no Mathlib).

Line protocol: `drvCxx model`   : every stdin line is an op line, output = the model's
                                  canonical observation for that op;
               `drvCxx monitor` : every stdin line is `<op>\t<observation of the implementation>`,
                                  output = `ok` or `FAIL <reason>` (the property predicate `holds`
                                  evaluated on what the real code did).
-/
namespace KeepVerif

def splitWs (s : String) : List String :=
  (s.splitOn " ").filter (· ≠ "")

/-- `-` is the empty list, otherwise comma separated. -/
def splitList (s : String) : List String :=
  if s = "-" || s = "" then [] else s.splitOn ","

def parseNats (s : String) : Option (List Nat) :=
  (splitList s).mapM String.toNat?

def parseInts (s : String) : Option (List Int) :=
  (splitList s).mapM String.toInt?

def showList {α} [ToString α] (xs : List α) : String :=
  if xs.isEmpty then "-" else ",".intercalate (xs.map toString)

def hexDigit? (c : Char) : Option Nat :=
  if '0' ≤ c ∧ c ≤ '9' then some (c.toNat - '0'.toNat)
  else if 'a' ≤ c ∧ c ≤ 'f' then some (c.toNat - 'a'.toNat + 10)
  else if 'A' ≤ c ∧ c ≤ 'F' then some (c.toNat - 'A'.toNat + 10)
  else none

/-- hex string (even length, no prefix; `-` = empty) to bytes. -/
def parseHex (s : String) : Option (List UInt8) :=
  if s = "-" then some [] else
  let rec go : List Char → Option (List UInt8)
    | [] => some []
    | [_] => none
    | a :: b :: rest => do
      let x ← hexDigit? a
      let y ← hexDigit? b
      let r ← go rest
      pure (UInt8.ofNat (x * 16 + y) :: r)
  go s.toList

def hexNibble (n : Nat) : Char :=
  if n < 10 then Char.ofNat (n + '0'.toNat) else Char.ofNat (n - 10 + 'a'.toNat)

def showHex (bs : List UInt8) : String :=
  if bs.isEmpty then "-" else
  String.ofList (bs.flatMap fun b => [hexNibble (b.toNat / 16), hexNibble (b.toNat % 16)])

/-- hex string to a natural number (big endian). -/
def parseHexNat (s : String) : Option Nat :=
  s.toList.foldlM (fun acc c => do let d ← hexDigit? c; pure (acc * 16 + d)) 0

partial def lineLoop (inp : IO.FS.Stream) (out : IO.FS.Stream) (f : String → String) : IO Unit := do
  let line ← inp.getLine
  if line.isEmpty then
    out.flush
    return ()
  let l := (line.dropEndWhile (fun c => c = '\n' || c = '\r')).toString
  out.putStrLn (f l)
  lineLoop inp out f

/-- Entry point shared by every driver. -/
def driverMain (model : String → String) (monitor : String → String → String)
    (args : List String) : IO UInt32 := do
  let inp ← IO.getStdin
  let out ← IO.getStdout
  match args with
  | ["model"] => lineLoop inp out model; return 0
  | ["monitor"] =>
    lineLoop inp out (fun l =>
      match l.splitOn "\t" with
      | [op, obs] => monitor op obs
      | _ => "FAIL malformed-monitor-line")
    return 0
  | _ => IO.eprintln "usage: drv (model|monitor)"; return 2

end KeepVerif
