import KeepVerif.Model.C01
/-!
# C01: the model's network is a consistent broadcast

`deliveryOrder` permutes the authors per (receiver, phase) but keeps every author's messages in
the author's own order; a member's inbox is the delivered list filtered by its admission rule.
Hence two members whose admission rules agree on the messages of an author hold exactly the same
sequence of messages of that author (`inbox_author_eq`).
-/
namespace KeepVerif.C01

theorem insertByKey_perm (x : Nat × Nat) (l : List (Nat × Nat)) : (insertByKey x l).Perm (x :: l) := by
  induction l with
  | nil => exact List.Perm.refl _
  | cons y ys ih =>
    unfold insertByKey
    split
    · exact List.Perm.refl _
    · exact ((List.Perm.cons y ih).trans (List.Perm.swap x y ys))

theorem sort_perm (l : List (Nat × Nat)) : (l.foldr insertByKey []).Perm l := by
  induction l with
  | nil => exact List.Perm.refl _
  | cons x xs ih => exact (insertByKey_perm x _).trans (List.Perm.cons x ih)

theorem members_nodup (n : Nat) : (members n).Nodup := by
  unfold members
  exact List.Pairwise.map _ (fun a b (h : a ≠ b) => by omega) List.nodup_range

theorem mem_members (n k : Nat) : k ∈ members n ↔ 1 ≤ k ∧ k ≤ n := by
  simp only [members, List.mem_map, List.mem_range]
  constructor
  · rintro ⟨a, ha, rfl⟩; omega
  · intro h; exact ⟨k - 1, by omega, by omega⟩

/-- the delivery order visits every member exactly once -/
theorem authors_perm (cfg : Cfg) (rcv ph : Nat) :
    ((((members cfg.n).map (fun a => (authorKey cfg rcv ph a, a))).foldr insertByKey []).map (·.2)).Perm
      (members cfg.n) := by
  have h := (sort_perm ((members cfg.n).map (fun a => (authorKey cfg rcv ph a, a)))).map (·.2)
  simpa [List.map_map, Function.comp_def] using h

private theorem flat_filter_none (wires : List Msg) (a : Nat) (L : List (Nat × Nat))
    (h : a ∉ L.map (·.2)) :
    (L.flatMap (fun p => wires.filter (fun m => m.hdr.author = p.2))).filter (fun m => m.hdr.author = a) = [] := by
  induction L with
  | nil => rfl
  | cons p rest ih =>
    simp only [List.map_cons, List.mem_cons, not_or] at h
    simp only [List.flatMap_cons, List.filter_append, ih h.2, List.append_nil, List.filter_filter]
    rw [List.filter_eq_nil_iff]
    intro m _
    simp only [Bool.and_eq_true, decide_eq_true_eq, not_and]
    intro h1 h2
    exact h.1 (h1.symm.trans h2 ▸ rfl)

private theorem flat_filter_one (wires : List Msg) (a : Nat) (L : List (Nat × Nat))
    (hn : (L.map (·.2)).Nodup) (h : a ∈ L.map (·.2)) :
    (L.flatMap (fun p => wires.filter (fun m => m.hdr.author = p.2))).filter (fun m => m.hdr.author = a)
      = wires.filter (fun m => m.hdr.author = a) := by
  induction L with
  | nil => simp at h
  | cons p rest ih =>
    simp only [List.map_cons, List.nodup_cons] at hn
    simp only [List.map_cons, List.mem_cons] at h
    simp only [List.flatMap_cons, List.filter_append, List.filter_filter]
    by_cases hp : p.2 = a
    · subst hp
      rw [flat_filter_none wires p.2 rest hn.1, List.append_nil]
      congr 1
      funext m
      simp
    · have ha : a ∈ rest.map (·.2) := by
        rcases h with h | h
        · exact absurd h.symm hp
        · exact h
      rw [ih hn.2 ha]
      have : wires.filter (fun m => decide (m.hdr.author = a) && decide (m.hdr.author = p.2)) = [] := by
        rw [List.filter_eq_nil_iff]
        intro m _
        simp only [Bool.and_eq_true, decide_eq_true_eq, not_and]
        intro h1 h2
        exact hp (h2.symm.trans h1)
      rw [this, List.nil_append]

/-- Consistent broadcast: in every receiver's delivery order the messages of an author appear
    exactly as sent (same messages, same order). -/
theorem deliveryOrder_author (cfg : Cfg) (rcv ph : Nat) (wires : List Msg) (a : Nat)
    (ha : a ∈ members cfg.n) :
    (deliveryOrder cfg rcv ph wires).filter (fun m => m.hdr.author = a)
      = wires.filter (fun m => m.hdr.author = a) := by
  unfold deliveryOrder
  have hp := authors_perm cfg rcv ph
  exact flat_filter_one wires a _ (hp.nodup_iff.2 (members_nodup cfg.n)) (hp.mem_iff.2 ha)

/-- the admission rule does not look at the inbox -/
theorem admits_receive (ph ph' : Nat) (st : St) (m m' : Msg) :
    admits ph (receive ph' st m') m = admits ph st m := by
  unfold receive; split <;> rfl

theorem foldl_receive (ph : Nat) (l : List Msg) (st : St) :
    (l.foldl (receive ph) st).inbox = st.inbox ++ l.filter (admits ph st) ∧
    (∀ m, admits ph (l.foldl (receive ph) st) m = admits ph st m) ∧
    (l.foldl (receive ph) st).ia = st.ia ∧ (l.foldl (receive ph) st).dq = st.dq ∧
    (l.foldl (receive ph) st).id = st.id ∧ (l.foldl (receive ph) st).n = st.n := by
  induction l generalizing st with
  | nil => simp
  | cons x xs ih =>
    simp only [List.foldl_cons]
    obtain ⟨h1, h2, h3, h4, h5, h6⟩ := ih (receive ph st x)
    have hadm : ∀ m, admits ph (receive ph st x) m = admits ph st m := fun m => admits_receive ph ph st m x
    have hf : xs.filter (admits ph (receive ph st x)) = xs.filter (admits ph st) := by
      congr 1; funext m; exact hadm m
    refine ⟨?_, fun m => (h2 m).trans (hadm m), ?_, ?_, ?_, ?_⟩
    · rw [h1, hf]
      unfold receive
      by_cases hx : admits ph st x = true
      · simp [hx, List.filter_cons]
      · simp [hx, List.filter_cons]
    · rw [h3]; unfold receive; split <;> rfl
    · rw [h4]; unfold receive; split <;> rfl
    · rw [h5]; unfold receive; split <;> rfl
    · rw [h6]; unfold receive; split <;> rfl

/-- what a member holds of author `a` after the delivery of a phase: the author's messages, in the
    author's order, that pass the member's admission rule -/
theorem inbox_author (cfg : Cfg) (ph : Nat) (wires : List Msg) (st : St) (a : Nat)
    (ha : a ∈ members cfg.n) (hin : st.inbox = []) :
    ((deliveryOrder cfg st.id ph wires).foldl (receive ph) st).inbox.filter (fun m => m.hdr.author = a)
      = (wires.filter (fun m => m.hdr.author = a)).filter (admits ph st) := by
  rw [(foldl_receive ph _ st).1, hin, List.nil_append, List.filter_filter]
  rw [← deliveryOrder_author cfg st.id ph wires a ha, List.filter_filter]
  congr 1; funext m; exact Bool.and_comm _ _

/-- Two members whose admission rules agree on the messages of author `a` hold the same messages
    of `a` in the same order, whatever their delivery orders are. -/
theorem inbox_author_eq (cfg : Cfg) (ph : Nat) (wires : List Msg) (s1 s2 : St) (a : Nat)
    (ha : a ∈ members cfg.n) (h1 : s1.inbox = []) (h2 : s2.inbox = [])
    (hadm : ∀ m ∈ wires, m.hdr.author = a → admits ph s1 m = admits ph s2 m) :
    ((deliveryOrder cfg s1.id ph wires).foldl (receive ph) s1).inbox.filter (fun m => m.hdr.author = a)
      = ((deliveryOrder cfg s2.id ph wires).foldl (receive ph) s2).inbox.filter (fun m => m.hdr.author = a) := by
  rw [inbox_author cfg ph wires s1 a ha h1, inbox_author cfg ph wires s2 a ha h2]
  apply List.filter_congr
  intro m hm
  simp only [List.mem_filter, decide_eq_true_eq] at hm
  exact hadm m hm.1 hm.2

end KeepVerif.C01
