import KeepVerif.Model.C27Script
/-!
Lemmas about the script parser (`feed`/`parse`) used by the C27 and C28 theorems.
-/
namespace KeepVerif.Script

theorem feed_nil (s : PState × List Op) : feed s [] = s := rfl

theorem feed_cons (s : PState × List Op) (b : UInt8) (bs : Bytes) :
    feed s (b :: bs) = feed (stepByte s b) bs := rfl

theorem feed_append (s : PState × List Op) (a b : Bytes) :
    feed s (a ++ b) = feed (feed s a) b := by
  simp [feed, List.foldl_append]

/-- feeding exactly the announced number of data bytes emits one push -/
theorem feed_data (enc : PushEnc) (d : Bytes) : ∀ (acc : Bytes) (out : List Op) (n : Nat),
    d.length = n → 0 < n →
    feed (.data enc n acc, out) d = (.idle, out ++ [.push enc (acc ++ d)]) := by
  induction d with
  | nil => intro acc out n h hn; simp at h; omega
  | cons b d ih =>
    intro acc out n h hn
    rw [feed_cons]
    simp only [List.length_cons] at h
    by_cases h1 : n ≤ 1
    · have hd : d = [] := by
        apply List.eq_nil_of_length_eq_zero; omega
      subst hd
      simp [stepByte, h1, feed_nil]
    · have := ih (acc ++ [b]) out (n - 1) (by omega) (by omega)
      simp only [stepByte, h1, if_false]
      rw [this]
      simp

theorem feed_data_append (enc : PushEnc) (d rest : Bytes) (acc : Bytes) (out : List Op) (n : Nat)
    (h : d.length = n) (hn : 0 < n) :
    feed (.data enc n acc, out) (d ++ rest) = feed (.idle, out ++ [.push enc (acc ++ d)]) rest := by
  rw [feed_append, feed_data enc d acc out n h hn]

/-- a direct push opcode followed by its data -/
theorem feed_direct (out : List Op) (b : UInt8) (d rest : Bytes)
    (hb0 : b.toNat ≠ 0) (hb : b.toNat ≤ 75) (hd : d.length = b.toNat) :
    feed (.idle, out) (b :: (d ++ rest)) = feed (.idle, out ++ [.push .direct d]) rest := by
  rw [feed_cons]
  have : stepByte (.idle, out) b = (.data .direct b.toNat [], out) := by
    simp [stepByte, hb0, hb]
  rw [this, feed_data_append .direct d rest [] out b.toNat hd (by omega)]
  simp

theorem feed_op (out : List Op) (b : UInt8) (rest : Bytes) (h : 78 < b.toNat) :
    feed (.idle, out) (b :: rest) = feed (.idle, out ++ [decodeOp b]) rest := by
  rw [feed_cons]
  have : stepByte (.idle, out) b = (.idle, out ++ [decodeOp b]) := by
    simp only [stepByte]
    rw [if_neg (by omega), if_neg (by omega), if_neg (by omega), if_neg (by omega), if_neg (by omega)]
  rw [this]

theorem feed_zero (out : List Op) (rest : Bytes) :
    feed (.idle, out) (0x00 :: rest) = feed (.idle, out ++ [.zero]) rest := by
  rw [feed_cons]; rfl

theorem decodeOp_75 : decodeOp 0x75 = .drop := by decide
theorem decodeOp_76 : decodeOp 0x76 = .dup := by decide
theorem decodeOp_a9 : decodeOp 0xa9 = .hash160 := by decide
theorem decodeOp_87 : decodeOp 0x87 = .equal := by decide
theorem decodeOp_88 : decodeOp 0x88 = .equalVerify := by decide
theorem decodeOp_63 : decodeOp 0x63 = .opIf := by decide
theorem decodeOp_67 : decodeOp 0x67 = .opElse := by decide
theorem decodeOp_68 : decodeOp 0x68 = .opEndIf := by decide
theorem decodeOp_ac : decodeOp 0xac = .checkSig := by decide
theorem decodeOp_b1 : decodeOp 0xb1 = .cltv := by decide

/-! ### the four standard locking scripts parse to the intended opcodes -/

theorem parse_p2pkh (h : Bytes) (hl : h.length = 20) :
    parse (p2pkh h) = some [.dup, .hash160, .push .direct h, .equalVerify, .checkSig] := by
  unfold parse p2pkh
  simp only [List.cons_append, List.nil_append, List.append_assoc]
  rw [feed_op _ _ _ (by decide), feed_op _ _ _ (by decide),
      feed_direct _ 0x14 h _ (by decide) (by decide) (by simpa using hl),
      feed_op _ _ _ (by decide), feed_op _ _ _ (by decide)]
  rfl

theorem parse_p2sh (h : Bytes) (hl : h.length = 20) :
    parse (p2sh h) = some [.hash160, .push .direct h, .equal] := by
  unfold parse p2sh
  simp only [List.cons_append, List.nil_append, List.append_assoc]
  rw [feed_op _ _ _ (by decide),
      feed_direct _ 0x14 h _ (by decide) (by decide) (by simpa using hl),
      feed_op _ _ _ (by decide)]
  rfl

theorem parse_p2wpkh (h : Bytes) (hl : h.length = 20) :
    parse (p2wpkh h) = some [.zero, .push .direct h] := by
  unfold parse p2wpkh
  simp only [List.cons_append, List.nil_append]
  have := feed_direct [.zero] 0x14 h [] (by decide) (by decide) (by simpa using hl)
  rw [feed_zero]
  simp only [List.append_nil, List.nil_append] at this ⊢
  rw [this]
  rfl

theorem parse_p2wsh (h : Bytes) (hl : h.length = 32) :
    parse (p2wsh h) = some [.zero, .push .direct h] := by
  unfold parse p2wsh
  simp only [List.cons_append, List.nil_append]
  have := feed_direct [.zero] 0x20 h [] (by decide) (by decide) (by simpa using hl)
  rw [feed_zero]
  simp only [List.append_nil, List.nil_append] at this ⊢
  rw [this]
  rfl


theorem u8_toNat (n : Nat) (h : n < 256) : (u8 n).toNat = n := by
  simp [u8]; omega

/-- the opcode `ScriptBuilder.AddData` chooses for data of 2..520 bytes -/
def pushOpFor (d : Bytes) : Op :=
  .push (if d.length ≤ 75 then .direct else if d.length ≤ 255 then .pd1 else .pd2) d

theorem exists_cons_cons (d : Bytes) (h2 : 2 ≤ d.length) : ∃ a b t, d = a :: b :: t := by
  match d, h2 with
  | a :: b :: t, _ => exact ⟨a, b, t, rfl⟩

theorem pushData_of_long (d : Bytes) (h2 : 2 ≤ d.length) :
    pushData d =
      (if d.length ≤ 75 then u8 d.length :: d
       else if d.length ≤ 255 then 0x4c :: u8 d.length :: d
       else 0x4d :: u8 (d.length % 256) :: u8 (d.length / 256) :: d) := by
  obtain ⟨a, b, t, rfl⟩ := exists_cons_cons d h2
  rfl

/-- `parseScript` inverts `AddData` (2..520 bytes of data) -/
theorem feed_pushData (out : List Op) (d rest : Bytes) (h2 : 2 ≤ d.length) (h520 : d.length ≤ 520) :
    feed (.idle, out) (pushData d ++ rest) = feed (.idle, out ++ [pushOpFor d]) rest := by
  rw [pushData_of_long d h2]
  unfold pushOpFor
  by_cases h75 : d.length ≤ 75
  · simp only [h75, if_true, List.cons_append]
    exact feed_direct out (u8 d.length) d rest (by rw [u8_toNat _ (by omega)]; omega)
      (by rw [u8_toNat _ (by omega)]; exact h75) (by rw [u8_toNat _ (by omega)])
  · by_cases h255 : d.length ≤ 255
    · simp only [h75, h255, if_true, if_false, List.cons_append]
      rw [feed_cons, feed_cons]
      have e1 : stepByte (.idle, out) 0x4c = (.len .pd1 1 1 0, out) := rfl
      have e2 : stepByte (.len .pd1 1 1 0, out) (u8 d.length) = (.data .pd1 d.length [], out) := by
        simp only [stepByte, startData, u8_toNat _ (show d.length < 256 by omega)]
        have : ¬ d.length = 0 := by omega
        simp [this]
      rw [e1, e2, feed_data_append .pd1 d rest [] out d.length rfl (by omega)]
      simp
    · simp only [h75, h255, if_false, List.cons_append]
      rw [feed_cons, feed_cons, feed_cons]
      have e1 : stepByte (.idle, out) 0x4d = (.len .pd2 2 1 0, out) := rfl
      have e2 : stepByte (.len .pd2 2 1 0, out) (u8 (d.length % 256)) =
          (.len .pd2 1 256 (d.length % 256), out) := by
        simp [stepByte, u8_toNat _ (show d.length % 256 < 256 by omega)]
      have e3 : stepByte (.len .pd2 1 256 (d.length % 256), out) (u8 (d.length / 256)) =
          (.data .pd2 d.length [], out) := by
        simp only [stepByte, startData, u8_toNat _ (show d.length / 256 < 256 by omega)]
        have h1 : d.length % 256 + 256 * (d.length / 256) = d.length := by omega
        have h0 : ¬ d.length = 0 := by omega
        simp [h1, h0]
      rw [e1, e2, e3, feed_data_append .pd2 d rest [] out d.length rfl (by omega)]
      simp

theorem minimalPush_long (enc : PushEnc) (d : Bytes) (h2 : 2 ≤ d.length) :
    minimalPush enc d =
      (if d.length ≤ 75 then enc == .direct
       else if d.length ≤ 255 then enc == .pd1
       else if d.length ≤ 65535 then enc == .pd2 else true) := by
  obtain ⟨a, b, t, rfl⟩ := exists_cons_cons d h2
  rfl

theorem minimalPush_pushOpFor (d : Bytes) (h2 : 2 ≤ d.length) (h520 : d.length ≤ 520) :
    minimalPush (if d.length ≤ 75 then .direct else if d.length ≤ 255 then .pd1 else .pd2) d = true := by
  rw [minimalPush_long _ d h2]
  by_cases h75 : d.length ≤ 75
  · simp [h75]
  · by_cases h255 : d.length ≤ 255
    · simp [h75, h255]
    · have : d.length ≤ 65535 := by omega
      simp [h75, h255, this]

/-- script of canonical pushes of `items` (bottom of the resulting stack first) -/
def pushAll (items : List Bytes) : Bytes := items.flatMap pushData

def ItemsOk (items : List Bytes) : Prop := ∀ d ∈ items, 2 ≤ d.length ∧ d.length ≤ 520

theorem feed_pushAll (items : List Bytes) (hok : ItemsOk items) : ∀ (out : List Op) (rest : Bytes),
    feed (.idle, out) (pushAll items ++ rest) = feed (.idle, out ++ items.map pushOpFor) rest := by
  induction items with
  | nil => intro out rest; simp [pushAll]
  | cons d ds ih =>
    intro out rest
    have hd := hok d (by simp)
    have hds : ItemsOk ds := fun x hx => hok x (by simp [hx])
    simp only [pushAll, List.flatMap_cons, List.append_assoc] at ih ⊢
    rw [feed_pushData out d _ hd.1 hd.2, ih hds]
    simp

theorem parse_pushAll (items : List Bytes) (hok : ItemsOk items) :
    parse (pushAll items) = some (items.map pushOpFor) := by
  have := feed_pushAll items hok [] []
  simp only [List.append_nil, List.nil_append] at this
  unfold parse
  rw [this]
  rfl

theorem isPushOnly_map (items : List Bytes) : isPushOnly (items.map pushOpFor) = true := by
  simp [isPushOnly, pushOpFor, isPushOp]

/-- running canonical pushes pushes the items (no conditional open) -/
theorem run_pushes {D} (cx : Ctx D) (wit : Bool) (code : Bytes) (items : List Bytes)
    (hok : ItemsOk items) : ∀ (stack : List Bytes),
    run cx wit code (items.map pushOpFor) { stack := stack, cond := [] } =
      .ok { stack := items.reverse ++ stack, cond := [] } := by
  induction items with
  | nil => intro stack; simp [run]
  | cons d ds ih =>
    intro stack
    have hd := hok d (by simp)
    have hds : ItemsOk ds := fun x hx => hok x (by simp [hx])
    simp only [List.map_cons, run]
    have : execOp cx wit code (pushOpFor d) { stack := stack, cond := [] } =
        .ok { stack := d :: stack, cond := [] } := by
      have hnb : ¬ d.length > 520 := by omega
      simp [execOp, pushOpFor, pushTooBig, executing, hnb, minimalPush_pushOpFor d hd.1 hd.2]
    rw [this]
    simp only []
    rw [ih hds]
    simp

theorem pushAll_ne_nil (items : List Bytes) (script : Bytes) (hok : ItemsOk (items ++ [script])) :
    (pushAll (items ++ [script])).isEmpty = false := by
  have h := hok script (by simp)
  simp only [pushAll, List.flatMap_append, List.flatMap_cons, List.flatMap_nil, List.append_nil]
  rw [pushData_of_long script h.1]
  by_cases h1 : script.length ≤ 75
  · simp [h1]
  · by_cases h2 : script.length ≤ 255 <;> simp [h1, h2]

/-- BIP16: spending a P2SH output with canonical pushes of `items` and the redeem script is
    exactly running the redeem script on `items` followed by the clean-stack/true check. -/
theorem p2sh_reduces {D} (cx : Ctx D) (items : List Bytes) (script : Bytes)
    (hok : ItemsOk (items ++ [script])) (hh : (cx.hash160 script).length = 20)
    (hlen : (pushAll (items ++ [script])).length ≤ 10000) :
    verifyInput cx (pushAll (items ++ [script])) [] (p2sh (cx.hash160 script)) =
      (match runScript cx false script items.reverse with
       | .error e => .error e
       | .ok s => checkFinal false s) := by
  unfold verifyInput
  have hne := pushAll_ne_nil items script hok
  have hl2 : (p2sh (cx.hash160 script)).length = 23 := by simp [p2sh, hh]
  have hnb : ¬ ((pushAll (items ++ [script])).length > 10000 ∨ (p2sh (cx.hash160 script)).length > 10000) := by
    omega
  rw [hne]
  simp only [Bool.false_and, if_neg hnb, Bool.false_eq_true, if_false]
  rw [parse_pushAll _ hok, parse_p2sh _ hh]
  have hsh : isScriptHash [Op.hash160, Op.push PushEnc.direct (cx.hash160 script), Op.equal] = true := by
    simp [isScriptHash, hh]
  simp only [hsh, isPushOnly_map, witnessProgram?]
  simp only [Bool.not_true, Bool.and_false, Bool.false_eq_true, if_false, List.isEmpty_nil, Bool.not_true, Bool.false_and]
  rw [run_pushes cx false _ _ hok]
  simp only [List.append_nil, List.reverse_append, List.reverse_cons, List.reverse_nil, List.nil_append, List.cons_append]
  have hmin : minimalPush .direct (cx.hash160 script) = true := by
    rw [minimalPush_long _ _ (by omega)]; simp [hh]
  have hnb2 : ¬ (cx.hash160 script).length > 520 := by omega
  simp [run, execOp, pushTooBig, executing, hmin, hnb2, fromBool, asBool]
  cases runScript cx false script items.reverse <;> rfl


/-- BIP141: spending a native P2WSH output with witness `items ++ [ws]` is exactly running the
    witness script on `items` (witness sigversion) followed by the clean-stack/true check. -/
theorem p2wsh_reduces {D} (cx : Ctx D) (items : List Bytes) (ws : Bytes)
    (hh : (cx.sha256 ws).length = 32) (hws : ws.length ≤ 10000) (hp : (parse ws).isSome)
    (hsz : tooBigElement items = false) :
    verifyInput cx [] (items ++ [ws]) (p2wsh (cx.sha256 ws)) =
      (match runScript cx true ws items.reverse with
       | .error e => .error e
       | .ok s => checkFinal true s) := by
  unfold verifyInput
  have hl2 : (p2wsh (cx.sha256 ws)).length = 34 := by simp [p2wsh, hh]
  have hne : (p2wsh (cx.sha256 ws)).isEmpty = false := by simp [p2wsh]
  have hnb : ¬ (([] : Bytes).length > 10000 ∨ (p2wsh (cx.sha256 ws)).length > 10000) := by
    simp; omega
  rw [hne]
  simp only [Bool.and_false, if_neg hnb, Bool.false_eq_true, if_false]
  rw [parse_p2wsh _ hh]
  have hp0 : parse ([] : Bytes) = some [] := rfl
  rw [hp0]
  have hmin : minimalPush .direct (cx.sha256 ws) = true := by
    rw [minimalPush_long _ _ (by omega)]; simp [hh]
  have hnb2 : ¬ (cx.sha256 ws).length > 520 := by omega
  have hwp : witnessProgram? [Op.zero, Op.push PushEnc.direct (cx.sha256 ws)] = some (0, cx.sha256 ws) := by
    simp [witnessProgram?, canonicalPush, hh]
  obtain ⟨ops, hops⟩ := Option.isSome_iff_exists.1 hp
  have hws' : ¬ ws.length > 10000 := by omega
  simp [isScriptHash, hwp, run, execOp, pushTooBig, executing, hmin, hh, hops, hsz, hws', verifyWitness]
  cases runScript cx true ws items.reverse <;> rfl

/-- BIP141/143: spending a native P2WPKH output with witness `[sig, pk]` is running the P2PKH
    script for the program on stack `[pk, sig]` with the witness sigversion. -/
theorem p2wpkh_reduces {D} (cx : Ctx D) (sig pk prog : Bytes) (hh : prog.length = 20)
    (hs : sig.length ≤ 520) (hk : pk.length ≤ 520) :
    verifyInput cx [] [sig, pk] (p2wpkh prog) =
      (match runScript cx true (p2pkh prog) [pk, sig] with
       | .error e => .error e
       | .ok s => checkFinal true s) := by
  unfold verifyInput
  have hl2 : (p2wpkh prog).length = 22 := by simp [p2wpkh, hh]
  have hne : (p2wpkh prog).isEmpty = false := by simp [p2wpkh]
  have hnb : ¬ (([] : Bytes).length > 10000 ∨ (p2wpkh prog).length > 10000) := by
    simp; omega
  rw [hne]
  simp only [Bool.and_false, if_neg hnb, Bool.false_eq_true, if_false]
  rw [parse_p2wpkh _ hh]
  have hp0 : parse ([] : Bytes) = some [] := rfl
  rw [hp0]
  have hmin : minimalPush .direct prog = true := by
    rw [minimalPush_long _ _ (by omega)]; simp [hh]
  have hnb2 : ¬ prog.length > 520 := by omega
  have hwp : witnessProgram? [Op.zero, Op.push PushEnc.direct prog] = some (0, prog) := by
    simp [witnessProgram?, canonicalPush, hh]
  have hs' : ¬ sig.length > 520 := by omega
  have hk' : ¬ pk.length > 520 := by omega
  simp [isScriptHash, hwp, run, execOp, pushTooBig, executing, hmin, hh, tooBigElement, hs', hk', verifyWitness]
  cases runScript cx true (p2pkh prog) [pk, sig] <;> rfl

/-- closed form of running a P2PKH script on stack `[pk, sig]` -/
theorem p2pkh_run {D} (cx : Ctx D) (wit : Bool) (h pk sig : Bytes) (hh : h.length = 20) :
    runScript cx wit (p2pkh h) [pk, sig] =
      (if cx.hash160 pk == h then opCheckSig cx wit (p2pkh h) [pk, sig] else .error .equalVerify) := by
  unfold runScript
  rw [parse_p2pkh h hh]
  have hmin : minimalPush .direct h = true := by
    rw [minimalPush_long _ _ (by omega)]; simp [hh]
  have hnb2 : ¬ h.length > 520 := by omega
  by_cases he : cx.hash160 pk = h
  · simp [run, execOp, pushTooBig, executing, hmin, hh, he]
    cases opCheckSig cx wit (p2pkh h) [pk, sig] <;> simp
  · have he' : ¬ h = cx.hash160 pk := fun e => he e.symm
    simp [run, execOp, pushTooBig, executing, hmin, hh, he, he']

/-- legacy P2PKH spend with scriptSig `<sig> <pk>` -/
theorem p2pkh_reduces {D} (cx : Ctx D) (sig pk h : Bytes) (hh : h.length = 20)
    (hok : ItemsOk [sig, pk]) :
    verifyInput cx (pushAll [sig, pk]) [] (p2pkh h) =
      (match runScript cx false (p2pkh h) [pk, sig] with
       | .error e => .error e
       | .ok s => checkFinal false s) := by
  unfold verifyInput
  have hne : (p2pkh h).isEmpty = false := by simp [p2pkh]
  have hl2 : (p2pkh h).length = 25 := by simp [p2pkh, hh]
  have hs := hok sig (by simp)
  have hk := hok pk (by simp)
  have hl1 : (pushAll [sig, pk]).length ≤ 10000 := by
    simp only [pushAll, List.flatMap_cons, List.flatMap_nil, List.append_nil, List.length_append]
    rw [pushData_of_long sig hs.1, pushData_of_long pk hk.1]
    have : ∀ d : Bytes, d.length ≤ 520 → (if d.length ≤ 75 then u8 d.length :: d
       else if d.length ≤ 255 then 0x4c :: u8 d.length :: d
       else 0x4d :: u8 (d.length % 256) :: u8 (d.length / 256) :: d).length ≤ 523 := by
      intro d hd
      by_cases h1 : d.length ≤ 75
      · simp [h1]; omega
      · by_cases h2 : d.length ≤ 255 <;> simp [h1, h2] <;> omega
    have a := this sig hs.2
    have b := this pk hk.2
    omega
  have hnb : ¬ ((pushAll [sig, pk]).length > 10000 ∨ (p2pkh h).length > 10000) := by omega
  rw [hne]
  simp only [Bool.and_false, if_neg hnb, Bool.false_eq_true, if_false]
  rw [parse_pushAll _ hok, parse_p2pkh _ hh]
  have hr := run_pushes cx false (pushAll [sig, pk]) [sig, pk] hok []
  simp only [List.map_cons, List.map_nil] at hr
  simp only [isScriptHash, witnessProgram?, List.map_cons, List.map_nil]
  simp only [Bool.false_and, Bool.false_eq_true, if_false, List.isEmpty_nil, Bool.not_true]
  rw [hr]
  simp only [List.reverse_cons, List.reverse_nil, List.nil_append, List.cons_append, List.append_nil]
  unfold runScript
  rw [parse_p2pkh _ hh]
  dsimp only
  cases run cx false (p2pkh h) [Op.dup, Op.hash160, Op.push PushEnc.direct h, Op.equalVerify, Op.checkSig]
      { stack := [pk, sig], cond := [] } <;> rfl

/-- everything CHECKSIG needs in order to push `true` for signature `sigDER ++ [ht]` -/
structure GoodSig {D} (cx : Ctx D) (wit : Bool) (code pk sigDER : Bytes) (ht : UInt8) : Prop where
  hashType : 1 ≤ ht.toNat % 128 ∧ ht.toNat % 128 ≤ 3
  enc : cx.sigEnc sigDER = none
  compressed : isCompressedPk pk = true
  parses : cx.parsePk pk = true
  valid : cx.verify pk sigDER (checkSigDigest cx wit code ht) = true

theorem opCheckSig_good {D} (cx : Ctx D) (wit : Bool) (code pk sigDER : Bytes) (ht : UInt8)
    (rest : List Bytes) (g : GoodSig cx wit code pk sigDER ht) :
    opCheckSig cx wit code (pk :: (sigDER ++ [ht]) :: rest) = .ok ([1] :: rest) := by
  have h1 : ¬ (ht.toNat % 128 < 1 ∨ ht.toNat % 128 > 3) := by have := g.hashType; omega
  simp [opCheckSig, g.enc, g.compressed, g.parses, g.valid, fromBool]
  omega

set_option linter.unusedSimpArgs false

/-- native witness programs of version 0 are decided by `verifyWitness` -/
theorem native_witness_eq {D} (cx : Ctx D) (prog : Bytes) (witness : List Bytes)
    (hl : prog.length = 20 ∨ prog.length = 32) :
    verifyInput cx [] witness ([0x00, u8 prog.length] ++ prog) = verifyWitness cx 0 prog witness := by
  have hlt : prog.length ≤ 75 ∧ prog.length ≠ 0 ∧ 2 ≤ prog.length ∧ prog.length ≤ 40 := by omega
  have hparse : parse ([0x00, u8 prog.length] ++ prog) = some [.zero, .push .direct prog] := by
    unfold parse
    simp only [List.cons_append, List.nil_append]
    rw [feed_zero]
    have := feed_direct ([] ++ [Op.zero]) (u8 prog.length) prog []
      (by rw [u8_toNat _ (by omega)]; omega) (by rw [u8_toNat _ (by omega)]; omega)
      (by rw [u8_toNat _ (by omega)])
    simp only [List.append_nil, List.nil_append] at this ⊢
    rw [this]; rfl
  unfold verifyInput
  have hne : (([0x00, u8 prog.length] : Bytes) ++ prog).isEmpty = false := by simp
  have hnb : ¬ (([] : Bytes).length > 10000 ∨ (([0x00, u8 prog.length] : Bytes) ++ prog).length > 10000) := by
    simp; omega
  rw [hne]
  simp only [Bool.and_false, if_neg hnb, Bool.false_eq_true, if_false]
  rw [hparse]
  have hp0 : parse ([] : Bytes) = some [] := rfl
  rw [hp0]
  have hmin : minimalPush .direct prog = true := by
    rw [minimalPush_long _ _ (by omega)]; simp [hlt.1]
  have hnb2 : ¬ prog.length > 520 := by omega
  have hcan : canonicalPush (.push .direct prog) = true := by
    simp [canonicalPush]; omega
  have hwp : witnessProgram? [Op.zero, Op.push PushEnc.direct prog] = some (0, prog) := by
    simp [witnessProgram?, hcan, hlt.2.2.1, hlt.2.2.2]
  simp [isScriptHash, hwp, run, execOp, pushTooBig, executing, hmin, hnb2]

/-- BIP141 P2SH-nested witness programs (scriptSig = exactly one canonical push of the version-0
    program) are decided by the same `verifyWitness` as native ones: nesting changes nothing. -/
theorem nested_witness_eq {D} (cx : Ctx D) (prog : Bytes) (witness : List Bytes)
    (hl : prog.length = 20 ∨ prog.length = 32) (hw : witness ≠ [])
    (hh : (cx.hash160 ([0x00, u8 prog.length] ++ prog)).length = 20) :
    verifyInput cx (pushData ([0x00, u8 prog.length] ++ prog)) witness
        (p2sh (cx.hash160 ([0x00, u8 prog.length] ++ prog))) =
      verifyWitness cx 0 prog witness := by
  have hlt : prog.length ≤ 75 ∧ prog.length ≠ 0 ∧ 2 ≤ prog.length ∧ prog.length ≤ 40 := by omega
  generalize hP : ([0x00, u8 prog.length] : Bytes) ++ prog = P at *
  have hPl : P.length = prog.length + 2 := by rw [← hP]; simp
  have hparseP : parse P = some [.zero, .push .direct prog] := by
    rw [← hP]
    unfold parse
    simp only [List.cons_append, List.nil_append]
    rw [feed_zero]
    have := feed_direct ([] ++ [Op.zero]) (u8 prog.length) prog []
      (by rw [u8_toNat _ (by omega)]; omega) (by rw [u8_toNat _ (by omega)]; omega)
      (by rw [u8_toNat _ (by omega)])
    simp only [List.append_nil, List.nil_append] at this ⊢
    rw [this]; rfl
  have hok : ItemsOk [P] := by intro x hx; simp at hx; subst hx; omega
  have hpa : pushAll [P] = pushData P := by simp [pushAll]
  have hparseS : parse (pushData P) = some [pushOpFor P] := by
    have := parse_pushAll [P] hok
    rw [hpa] at this; simpa using this
  have hpo : pushOpFor P = .push .direct P := by
    simp [pushOpFor]; omega
  unfold verifyInput
  have hne : (pushData P).isEmpty = false := by
    rw [pushData_of_long P (by omega)]; have : P.length ≤ 75 := by omega
    simp [this]
  have hl2 : (p2sh (cx.hash160 P)).length = 23 := by simp [p2sh, hh]
  have hl1 : (pushData P).length ≤ 10000 := by
    rw [pushData_of_long P (by omega)]
    have : P.length ≤ 75 := by omega
    simp [this]; omega
  have hnb : ¬ ((pushData P).length > 10000 ∨ (p2sh (cx.hash160 P)).length > 10000) := by omega
  rw [hne]
  simp only [Bool.false_and, if_neg hnb, Bool.false_eq_true, if_false]
  rw [hparseS, parse_p2sh _ hh, hpo]
  have hsh : isScriptHash [Op.hash160, Op.push PushEnc.direct (cx.hash160 P), Op.equal] = true := by
    simp [isScriptHash, hh]
  have hcanP : canonicalPush (.push .direct P) = true := by simp [canonicalPush]; omega
  have hcan : canonicalPush (.push .direct prog) = true := by simp [canonicalPush]; omega
  have hwpP : witnessProgram? [Op.zero, Op.push PushEnc.direct prog] = some (0, prog) := by
    simp [witnessProgram?, hcan, hlt.2.2.1, hlt.2.2.2]
  have hiw : isWitnessProgramBytes P = true := by
    simp [isWitnessProgramBytes, hparseP, hwpP, hPl]; omega
  have hwe : witness.isEmpty = false := by cases witness <;> simp_all
  have hminP : minimalPush .direct P = true := by
    rw [minimalPush_long _ _ (by omega)]; have : P.length ≤ 75 := by omega
    simp [this]
  have hmin : minimalPush .direct prog = true := by
    rw [minimalPush_long _ _ (by omega)]; simp [hlt.1]
  have hminH : minimalPush .direct (cx.hash160 P) = true := by
    rw [minimalPush_long _ _ (by omega)]; simp [hh]
  have b1 : ¬ P.length > 520 := by omega
  have b2 : ¬ prog.length > 520 := by omega
  have b3 : ¬ (cx.hash160 P).length > 520 := by omega
  have hwp3 : witnessProgram? [Op.hash160, Op.push PushEnc.direct (cx.hash160 P), Op.equal] = none := rfl
  simp [hsh, isPushOnly, isPushOp, hwp3, hwe, hcanP, hiw, hparseP, hwpP, run, execOp,
    pushTooBig, executing, hminP, hmin, hminH, b1, b2, b3, fromBool, asBool, runScript]

end KeepVerif.Script

