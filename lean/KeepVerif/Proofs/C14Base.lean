import KeepVerif.Model.C14
/-!
# C14 — Block-synchronized state machine runs every phase in its block window

Theorems over `Model/C14.lean` for every event list (block timings, message deliveries,
`Initiate` durations) and every chain of `(delay, active)` states, and over the GJKR /
result-publication chains extracted from the source (`Gen/C14.lean`, regenerated on every run).
-/
namespace KeepVerif.C14

/-! ## T1 tie: the real chains -/

/-- The sum over the real GJKR state chain (walked through `Next()`) is `gjkr.ProtocolBlocks()`. -/
theorem gjkr_total_eq_ProtocolBlocks : total gjkrChain = Gen.C14.gjkrProtocolBlocks := by decide

/-- The sum over the real result-publication chain is `result.PrePublicationBlocks()`. -/
theorem result_total_eq_PrePublicationBlocks :
    total resultChain = Gen.C14.resultPrePublicationBlocks := by decide

/-- every state of both chains has a delay and an active length (lists are aligned) -/
theorem chains_aligned :
    Gen.C14.gjkrDelays.length = Gen.C14.gjkrActives.length ∧
    Gen.C14.gjkrStates.length = Gen.C14.gjkrDelays.length ∧
    Gen.C14.resultDelays.length = Gen.C14.resultActives.length ∧
    Gen.C14.resultStates.length = Gen.C14.resultDelays.length ∧
    Gen.C14.silentStateDelayBlocks = 0 ∧ Gen.C14.silentStateActiveBlocks = 0 := by decide

/-! ## nominal schedule arithmetic -/

theorem endOf_eq (e : Nat) (l : List Spec) : endOf e l = e + total l := by
  unfold total
  induction l generalizing e with
  | nil => simp [endOf]
  | cons s r ih => simp only [endOf]; rw [ih, ih (0 + s.delay + s.active)]; omega

theorem endOf_append (e : Nat) (a b : List Spec) : endOf e (a ++ b) = endOf (endOf e a) b := by
  induction a generalizing e with
  | nil => rfl
  | cons s r ih => simp [endOf, ih]

theorem sched_append (e : Nat) (a b : List Spec) :
    sched e (a ++ b) = sched e a ++ sched (endOf e a) b := by
  induction a generalizing e with
  | nil => rfl
  | cons s r ih => simp [sched, endOf, ih]

/-! ## the invariant: the machine follows the nominal schedule -/

/-- block-counter calls made so far when the current state (after the states `pre`) is in
    `phase`; `none` for an impossible combination. -/
def callsAt (start : Nat) (pre : List Spec) (cur : Spec) : Phase → Option (List Call)
  | .waitStart s => if s = start ∧ pre = [] then some [.wait start] else none
  | .waitDelay t | .initiating t =>
    if t = endOf start pre + cur.delay then some (.wait start :: sched start pre ++ [.wait t]) else none
  | .loop w =>
    if w = endOf start pre + cur.delay + cur.active then some (.wait start :: sched start (pre ++ [cur])) else none
  | .finished => none

def Inv (start : Nat) (all : List Spec) (c : Cfg) : Prop :=
  ∃ pre, all = pre ++ c.cur :: c.rest ∧ pre.length = c.k ∧
    if c.phase = .finished then
      (∃ l, Call.wait start :: sched start all = c.calls ++ l) ∧
      (∀ k e, c.res = .final k e →
        e = endOf start all ∧ k + 1 = all.length ∧ c.calls = .wait start :: sched start all)
    else c.res = .running ∧ callsAt start pre c.cur c.phase = some c.calls

def OutInv (start : Nat) (all : List Spec) : Out → Prop
  | .quiet c => Inv start all c
  | .fired c w => Inv start all c ∧ c.phase = .loop w

theorem loopStage_inv {start all} (c : Cfg) (w : Nat) (h : Inv start all { c with phase := .loop w }) :
    OutInv start all (loopStage c w) := by
  unfold loopStage
  simp only
  split
  · exact ⟨by simpa [Inv, callsAt] using h, rfl⟩
  · simpa [OutInv, Inv, callsAt] using h

theorem afterInit_inv {start all} (c : Cfg) (t : Nat) (pre : List Spec)
    (hall : all = pre ++ c.cur :: c.rest) (hk : pre.length = c.k) (hres : c.res = .running)
    (ht : t = endOf start pre + c.cur.delay)
    (hcalls : c.calls = .wait start :: sched start pre ++ [.wait t]) :
    OutInv start all (afterInit c t) := by
  unfold afterInit
  split
  · refine ⟨pre, hall, hk, ?_⟩
    simp only [if_true]
    refine ⟨⟨.arm (t + c.cur.active) :: sched (t + c.cur.active) c.rest, ?_⟩, by simp⟩
    rw [hall, sched_append, hcalls]
    simp [sched, ht]
  · apply loopStage_inv
    refine ⟨pre, hall, hk, ?_⟩
    simp [callsAt, hres, ht, hcalls, sched_append, sched, endOf]

theorem initStage_inv {start all} (c : Cfg) (t : Nat) (pre : List Spec)
    (hall : all = pre ++ c.cur :: c.rest) (hk : pre.length = c.k) (hres : c.res = .running)
    (ht : t = endOf start pre + c.cur.delay)
    (hcalls : c.calls = .wait start :: sched start pre ++ [.wait t]) :
    OutInv start all (initStage c t) := by
  unfold initStage
  simp only
  split
  · exact ⟨pre, hall, hk, by simp [callsAt, hres, ht, hcalls]⟩
  · exact afterInit_inv _ t pre hall hk hres ht hcalls

theorem delayStage_inv {start all} (c : Cfg) (e : Nat) (pre : List Spec)
    (hall : all = pre ++ c.cur :: c.rest) (hk : pre.length = c.k) (hres : c.res = .running)
    (he : e = endOf start pre)
    (hcalls : c.calls = .wait start :: sched start pre) :
    OutInv start all (delayStage c e) := by
  unfold delayStage
  simp only
  split
  · exact initStage_inv _ _ pre hall hk hres (by simp [he]) (by simp [hcalls])
  · exact ⟨pre, hall, hk, by simp [callsAt, hres, he, hcalls]⟩

def Out.cfg : Out → Cfg
  | .quiet c => c
  | .fired c _ => c

theorem delayStage_rest (c : Cfg) (e : Nat) : (delayStage c e).cfg.rest = c.rest := by
  unfold delayStage initStage afterInit loopStage
  simp only
  repeat' split
  all_goals rfl

theorem initStage_rest (c : Cfg) (e : Nat) : (initStage c e).cfg.rest = c.rest := by
  unfold initStage afterInit loopStage
  simp only
  repeat' split
  all_goals rfl

theorem afterInit_rest (c : Cfg) (e : Nat) : (afterInit c e).cfg.rest = c.rest := by
  unfold afterInit loopStage
  simp only
  repeat' split
  all_goals rfl

theorem loopStage_rest (c : Cfg) (e : Nat) : (loopStage c e).cfg.rest = c.rest := by
  unfold loopStage
  simp only
  repeat' split
  all_goals rfl

theorem chain_inv {start all} (rest : List Spec) (o : Out) (h : OutInv start all o)
    (hrest : o.cfg.rest = rest) :
    Inv start all (chain rest o) := by
  induction rest generalizing o with
  | nil =>
    cases o with
    | quiet c => simpa [chain, OutInv] using h
    | fired c w =>
      obtain ⟨⟨pre, hall, hk, hinv⟩, hph⟩ := h
      simp only [Out.cfg] at hrest
      simp only [hph, reduceCtorEq, if_false, callsAt] at hinv
      split at hinv
      · rename_i hw
        obtain ⟨hres, hcalls⟩ := hinv
        simp only [Option.some.injEq] at hcalls
        simp only [chain]
        split
        · refine ⟨pre, hall, hk, ?_⟩
          simp only [if_true]
          exact ⟨⟨[], by simp [hall, hrest, ← hcalls]⟩, by simp⟩
        · refine ⟨pre, hall, hk, ?_⟩
          simp only [if_true]
          refine ⟨⟨[], by simp [hall, hrest, ← hcalls]⟩, ?_⟩
          intro k e hke
          simp only [Res.final.injEq] at hke
          refine ⟨?_, ?_, ?_⟩
          · rw [← hke.2, hw, hall, hrest, endOf_append]; simp [endOf]
          · rw [← hke.1, hall, hrest]; simp [hk]
          · simp [hall, hrest, ← hcalls]
      · exact absurd hinv.2 (by simp)
  | cons s rest' ih =>
    cases o with
    | quiet c => simpa [chain, OutInv] using h
    | fired c w =>
      obtain ⟨⟨pre, hall, hk, hinv⟩, hph⟩ := h
      simp only [Out.cfg] at hrest
      simp only [hph, reduceCtorEq, if_false, callsAt] at hinv
      split at hinv
      · rename_i hw
        obtain ⟨hres, hcalls⟩ := hinv
        simp only [Option.some.injEq] at hcalls
        simp only [chain]
        split
        · refine ⟨pre, hall, hk, ?_⟩
          simp only [if_true]
          refine ⟨⟨sched w (s :: rest'), ?_⟩, by simp⟩
          rw [hall, hrest, ← hcalls]
          have : pre ++ c.cur :: s :: rest' = (pre ++ [c.cur]) ++ (s :: rest') := by simp
          rw [this, sched_append, endOf_append]
          simp [endOf, hw]
        · apply ih
          · apply delayStage_inv _ w (pre ++ [c.cur])
            · simp [hall, hrest]
            · simp [hk]
            · exact hres
            · rw [hw, endOf_append]; simp [endOf]
            · simp [← hcalls]
          · rw [delayStage_rest]
      · exact absurd hinv.2 (by simp)

theorem settle_inv {start all} (c : Cfg) (h : Inv start all c) : Inv start all (settle c) := by
  obtain ⟨pre, hall, hk, hinv⟩ := h
  unfold settle
  split
  · rename_i s hph
    split
    · simp only [hph, reduceCtorEq, if_false, callsAt] at hinv
      obtain ⟨hres, hc⟩ := hinv
      split at hc
      · rename_i hs
        simp only [Option.some.injEq] at hc
        apply chain_inv _ _ _ (delayStage_rest _ _)
        exact delayStage_inv c s pre hall hk hres (by simp [hs.1, hs.2, endOf]) (by simp [← hc, hs.1, hs.2, sched])
      · exact absurd hc (by simp)
    · exact ⟨pre, hall, hk, hinv⟩
  · rename_i t hph
    split
    · simp only [hph, reduceCtorEq, if_false, callsAt] at hinv
      obtain ⟨hres, hc⟩ := hinv
      split at hc
      · rename_i ht
        simp only [Option.some.injEq] at hc
        apply chain_inv _ _ _ (initStage_rest _ _)
        exact initStage_inv c t pre hall hk hres ht hc.symm
      · exact absurd hc (by simp)
    · exact ⟨pre, hall, hk, hinv⟩
  · exact ⟨pre, hall, hk, hinv⟩
  · rename_i w hph
    apply chain_inv _ _ _ (loopStage_rest _ _)
    apply loopStage_inv
    refine ⟨pre, hall, hk, ?_⟩
    simpa [hph] using hinv
  · exact ⟨pre, hall, hk, hinv⟩

/-- fields the invariant does not mention may change freely -/
theorem inv_congr {start all} (c c' : Cfg) (h : Inv start all c)
    (h1 : c'.phase = c.phase) (h2 : c'.cur = c.cur) (h3 : c'.rest = c.rest) (h4 : c'.k = c.k)
    (h5 : c'.calls = c.calls) (h6 : c'.res = c.res) : Inv start all c' := by
  unfold Inv at *
  rw [h1, h2, h3, h4, h5, h6]
  exact h

theorem step_inv {start all} (c : Cfg) (e : Ev) (h : Inv start all c) : Inv start all (step c e) := by
  cases e with
  | block hb => exact settle_inv _ (inv_congr c _ h rfl rfl rfl rfl rfl rfl)
  | msg id =>
    simp only [step]
    split
    · exact inv_congr c _ h rfl rfl rfl rfl rfl rfl
    · exact settle_inv _ (inv_congr c _ h rfl rfl rfl rfl rfl rfl)
  | release =>
    simp only [step]
    split
    · rename_i t hph
      obtain ⟨pre, hall, hk, hinv⟩ := h
      simp only [hph, reduceCtorEq, if_false, callsAt] at hinv
      obtain ⟨hres, hc⟩ := hinv
      split at hc
      · rename_i ht
        simp only [Option.some.injEq] at hc
        apply chain_inv _ _ _ (afterInit_rest _ _)
        exact afterInit_inv c t pre hall hk hres ht hc.symm
      · exact absurd hc (by simp)
    · exact h

theorem init_inv (h0 start : Nat) (s : Spec) (rest : List Spec) :
    Inv start (s :: rest) (init h0 start s rest) := by
  apply settle_inv
  exact ⟨[], rfl, rfl, by simp [callsAt]⟩

theorem exec_inv (h0 start : Nat) (s : Spec) (rest : List Spec) (evs : List Ev) :
    Inv start (s :: rest) (exec h0 start s rest evs) := by
  unfold exec
  generalize hc : init h0 start s rest = c
  have h : Inv start (s :: rest) c := hc ▸ init_inv h0 start s rest
  clear hc
  induction evs generalizing c with
  | nil => exact h
  | cons e r ih => exact ih _ (step_inv c e h)

theorem drain_inv {start all} (n : Nat) (c : Cfg) (h : Inv start all c) : Inv start all (drain n c) := by
  induction n generalizing c with
  | zero => exact h
  | succ n ih =>
    apply ih
    unfold drainStep
    split <;> first | exact h | exact step_inv _ _ h

theorem run_inv (h0 start : Nat) (s : Spec) (rest : List Spec) (evs : List Ev) :
    Inv start (s :: rest) (run h0 start s rest evs) :=
  drain_inv _ _ (exec_inv h0 start s rest evs)

/-! ## the property -/

theorem inv_calls_prefix {start all} (c : Cfg) (h : Inv start all c) :
    ∃ l, Call.wait start :: sched start all = c.calls ++ l := by
  obtain ⟨pre, hall, hk, hinv⟩ := h
  split at hinv
  · exact hinv.1
  · obtain ⟨_, hc⟩ := hinv
    generalize c.phase = ph at hc
    generalize c.calls = calls at hc
    generalize hcur : c.cur = cur at hc hall
    generalize hrest : c.rest = rst at hall
    rw [hall]
    cases ph with
    | waitStart x =>
      simp only [callsAt] at hc
      split at hc
      · simp only [Option.some.injEq] at hc; exact ⟨sched start (pre ++ cur :: rst), by simp [← hc]⟩
      · exact absurd hc (by simp)
    | waitDelay t =>
      simp only [callsAt] at hc
      split at hc
      · rename_i ht
        simp only [Option.some.injEq] at hc
        refine ⟨.arm (t + cur.active) :: sched (t + cur.active) rst, ?_⟩
        rw [sched_append, ← hc]; simp [sched, ht]
      · exact absurd hc (by simp)
    | initiating t =>
      simp only [callsAt] at hc
      split at hc
      · rename_i ht
        simp only [Option.some.injEq] at hc
        refine ⟨.arm (t + cur.active) :: sched (t + cur.active) rst, ?_⟩
        rw [sched_append, ← hc]; simp [sched, ht]
      · exact absurd hc (by simp)
    | loop w =>
      simp only [callsAt] at hc
      split at hc
      · rename_i hw
        simp only [Option.some.injEq] at hc
        refine ⟨sched w rst, ?_⟩
        have : pre ++ cur :: rst = (pre ++ [cur]) ++ rst := by simp
        rw [this, sched_append, endOf_append, ← hc]; simp [endOf, hw]
      · exact absurd hc (by simp)
    | finished => simp [callsAt] at hc

/-- **calls_follow_nominal_schedule**: for every block/message/initiation timing, at every
    moment of the execution (after any event list) the block-counter calls made so far are a
    prefix of the nominal schedule
    `Wait start, Wait (e₀+d₀), Arm (e₀+d₀+a₀), Wait (e₁+d₁), …` with `e₀ = start`,
    `e_{k+1} = e_k + d_k + a_k`: state `k` is entered at `e_k = start + Σ_{j<k}(d_j+a_j)`, its
    `Initiate` is gated by `e_k + d_k`, its end by `e_k + d_k + a_k` — never by the actual,
    possibly late, block heights. -/
theorem calls_follow_nominal_schedule (h0 start : Nat) (s : Spec) (rest : List Spec) (evs : List Ev) :
    ∃ l, Call.wait start :: sched start (s :: rest) = (exec h0 start s rest evs).calls ++ l :=
  inv_calls_prefix _ (exec_inv h0 start s rest evs)

/-- **end_block_eq**: whenever `Execute` returns normally it returns the last state of the chain
    and exactly `start + Σ (delay + active)`, after having made every nominal call — for every
    timing of blocks, messages and `Initiate` durations. -/
theorem end_block_eq (h0 start : Nat) (s : Spec) (rest : List Spec) (evs : List Ev) (k e : Nat)
    (h : (run h0 start s rest evs).res = .final k e) :
    e = start + total (s :: rest) ∧ k + 1 = (s :: rest).length ∧
    (run h0 start s rest evs).calls = .wait start :: sched start (s :: rest) := by
  obtain ⟨pre, hall, hk, hinv⟩ := run_inv h0 start s rest evs
  split at hinv
  · have := hinv.2 k e h
    rw [endOf_eq] at this
    exact this
  · rw [hinv.1] at h; exact absurd h (by simp)

/-- **members_in_lockstep**: two members started at the same block on the same chain end at the
    same block and issue the same block-counter calls, whatever blocks/messages each of them saw
    and however long their `Initiate` calls took. -/
theorem members_in_lockstep (start : Nat) (s : Spec) (rest : List Spec)
    (h0 h0' : Nat) (evs evs' : List Ev) (k e k' e' : Nat)
    (h : (run h0 start s rest evs).res = .final k e)
    (h' : (run h0' start s rest evs').res = .final k' e') :
    e = e' ∧ k = k' ∧ (run h0 start s rest evs).calls = (run h0' start s rest evs').calls := by
  obtain ⟨a, b, c⟩ := end_block_eq h0 start s rest evs k e h
  obtain ⟨a', b', c'⟩ := end_block_eq h0' start s rest evs' k' e' h'
  exact ⟨by omega, by omega, by rw [c, c']⟩

/-- GJKR members started at block `start` finish at `start + ProtocolBlocks()`. -/
theorem gjkr_end_block (h0 start : Nat) (evs : List Ev) (s : Spec) (rest : List Spec)
    (hc : gjkrChain = s :: rest) (k e : Nat) (h : (run h0 start s rest evs).res = .final k e) :
    e = start + Gen.C14.gjkrProtocolBlocks := by
  rw [← gjkr_total_eq_ProtocolBlocks, hc]
  exact (end_block_eq h0 start s rest evs k e h).1

theorem isPrefix_of_append [DecidableEq α] (a l : List α) : isPrefix a (a ++ l) = true := by
  induction a with
  | nil => rfl
  | cons x r ih => simp [isPrefix, ih]

theorem sched_length (e : Nat) (l : List Spec) : (sched e l).length = 2 * l.length := by
  induction l generalizing e with
  | nil => rfl
  | cons s r ih => simp [sched, ih]; omega

/-- **holdsSched_model_partial** (monitor tie, block-window part): the schedule part of the
    monitor accepts every run of the model, for all inputs.  Gap: the remaining conjuncts of
    `holds` (entry/initiate heights of each record, context flags, message conservation) are
    not proved to accept the model; they are compared with the model on every case instead. -/
theorem holdsSched_model_partial (h0 start : Nat) (s : Spec) (rest : List Spec) (evs : List Ev)
    (hfin : (run h0 start s rest evs).res ≠ .running) :
    holdsSched start (s :: rest) (run h0 start s rest evs).calls (run h0 start s rest evs).res = true := by
  have hinv := run_inv h0 start s rest evs
  obtain ⟨l, hl⟩ := inv_calls_prefix _ hinv
  unfold holdsSched
  rw [hl, isPrefix_of_append]
  cases hres : (run h0 start s rest evs).res with
  | running => exact absurd hres hfin
  | final k e =>
    obtain ⟨a, b, c⟩ := end_block_eq h0 start s rest evs k e hres
    simp [a, b, c, sched_length]; omega
  | errInitiate => simp
  | errNext => simp

/-! ## messages: who is handed what -/

/-- messages handed to `Receive`, in state order -/
def handed (c : Cfg) : List Nat := ((c.done ++ [c.crec]).map (·.msgs)).flatten

/-- what the stage functions keep: ended records, dropped, and handed ++ buffered -/
def Keeps (c c' : Cfg) : Prop :=
  c'.done = c.done ∧ c'.dropped = c.dropped ∧ handed c' ++ c'.buf = handed c ++ c.buf ∧
  c'.k = c.k ∧ c'.height = c.height

theorem loopStage_keeps (c : Cfg) (w : Nat) : Keeps c (loopStage c w).cfg := by
  unfold loopStage Keeps handed
  simp only
  split <;> simp [Out.cfg]

theorem afterInit_keeps (c : Cfg) (t : Nat) : Keeps c (afterInit c t).cfg := by
  unfold afterInit
  split
  · simp [Keeps, Out.cfg, handed]
  · exact loopStage_keeps _ _

theorem initStage_keeps (c : Cfg) (t : Nat) : Keeps c (initStage c t).cfg := by
  unfold initStage
  simp only
  split
  · simp [Keeps, Out.cfg, handed]
  · have := afterInit_keeps { c with crec := { c.crec with initH := some c.height } } t
    simpa [Keeps, handed] using this

theorem delayStage_keeps (c : Cfg) (e : Nat) : Keeps c (delayStage c e).cfg := by
  unfold delayStage
  simp only
  split
  · have := initStage_keeps { c with calls := c.calls ++ [.wait (e + c.cur.delay)],
                                      crec := { c.crec with thr := some (e + c.cur.delay) } } (e + c.cur.delay)
    simpa [Keeps, handed] using this
  · simp [Keeps, Out.cfg, handed]

/-- what a whole settle keeps: ended records only grow, dropped and handed ++ buffered stay -/
def Grows (c c' : Cfg) : Prop :=
  c.done <+: c'.done ∧ c'.dropped = c.dropped ∧ handed c' ++ c'.buf = handed c ++ c.buf

theorem Keeps.grows {c c' : Cfg} (h : Keeps c c') : Grows c c' :=
  ⟨by rw [h.1]; exact List.prefix_refl _, h.2.1, h.2.2.1⟩

theorem Grows.trans {a b c : Cfg} (h1 : Grows a b) (h2 : Grows b c) : Grows a c :=
  ⟨h1.1.trans h2.1, by rw [h2.2.1, h1.2.1], by rw [h2.2.2, h1.2.2]⟩

theorem chain_grows (rest : List Spec) (o : Out) : Grows o.cfg (chain rest o) := by
  induction rest generalizing o with
  | nil =>
    cases o with
    | quiet c => simp [chain, Out.cfg, Grows]
    | fired c w => simp only [chain, Out.cfg]; split <;> simp [Grows, handed]
  | cons s rest' ih =>
    cases o with
    | quiet c => simp [chain, Out.cfg, Grows]
    | fired c w =>
      simp only [chain, Out.cfg]
      split
      · simp [Grows, handed]
      · refine Grows.trans ?_ (ih _)
        refine Grows.trans ?_ (delayStage_keeps _ _).grows
        simp [Grows, handed]

theorem settle_grows (c : Cfg) : Grows c (settle c) := by
  unfold settle
  split
  · split
    · exact (delayStage_keeps c _).grows.trans (chain_grows _ _)
    · simp [Grows]
  · split
    · exact (initStage_keeps c _).grows.trans (chain_grows _ _)
    · simp [Grows]
  · simp [Grows]
  · exact (loopStage_keeps c _).grows.trans (chain_grows _ _)
  · simp [Grows]


theorem step_done_prefix (c : Cfg) (e : Ev) : c.done <+: (step c e).done := by
  cases e with
  | block h => exact (settle_grows { c with height := max c.height h }).1
  | msg id =>
    simp only [step]
    split
    · exact List.prefix_refl _
    · exact (settle_grows { c with buf := c.buf ++ [id] }).1
  | release =>
    simp only [step]
    split
    · exact ((afterInit_keeps c _).grows.trans (chain_grows _ _)).1
    · exact List.prefix_refl _

/-- **receive_only_current**: `Receive` is invoked on a state only while it is the current one.
    Once a state has ended (its record has moved to `done`), no later event — block, message or
    `Initiate` return — hands it another message or changes what it was handed: the records of
    ended states after any event list are a prefix of those after any continuation. (Messages
    are appended to the current record only, in `loopStage`, i.e. after its `Initiate` returned
    and before its end-block waiter was taken.) -/
theorem receive_only_current (h0 start : Nat) (s : Spec) (rest : List Spec) (evs more : List Ev) :
    (exec h0 start s rest evs).done <+: (exec h0 start s rest (evs ++ more)).done := by
  unfold exec
  rw [List.foldl_append]
  generalize List.foldl step (init h0 start s rest) evs = c
  induction more generalizing c with
  | nil => exact List.prefix_refl _
  | cons e r ih => exact (step_done_prefix c e).trans (ih _)

/-- a message delivered while state k sits in its `select` loop before its end block is handed
    to state k, immediately. -/
theorem msg_to_current (c : Cfg) (w id : Nat) (hp : c.phase = .loop w) (hw : c.height < w)
    (hb : c.buf = []) :
    (step c (.msg id)).crec.msgs = c.crec.msgs ++ [id] ∧ (step c (.msg id)).k = c.k ∧
    (step c (.msg id)).done = c.done ∧ (step c (.msg id)).buf = [] := by
  have hnw : ¬ (c.height ≥ w) := by omega
  simp [step, hp, settle, loopStage, hnw, chain, hb]

theorem delivered_append (a b : List Ev) : delivered (a ++ b) = delivered a ++ delivered b := by
  induction a with
  | nil => rfl
  | cons x r ih => cases x <;> simp [delivered, ih]

/-- receive-path invariant of the sync machine -/
def Conserved (c : Cfg) (d : List Nat) : Prop :=
  d = handed c ++ c.buf ++ c.dropped ∧ (c.phase ≠ .finished → c.dropped = [])

theorem grows_conserved {c c' : Cfg} {d : List Nat} (g : Grows c c')
    (h : d = handed c ++ c.buf ++ c.dropped) (hd : c.dropped = []) :
    Conserved c' d := by
  refine ⟨?_, fun _ => by rw [g.2.1, hd]⟩
  rw [g.2.2, g.2.1]; exact h

theorem step_conserved (c : Cfg) (e : Ev) (d : List Nat) (h : Conserved c d) :
    Conserved (step c e) (d ++ delivered [e]) := by
  obtain ⟨hd, hf⟩ := h
  by_cases hfin : c.phase = .finished
  · cases e with
    | block hb => simpa [step, settle, hfin, delivered, Conserved, handed] using hd
    | msg id => simp [step, hfin, delivered, Conserved, handed, hd]
    | release => simpa [step, hfin, delivered, Conserved, handed] using hd
  · have hdr := hf hfin
    cases e with
    | block hb =>
      simp only [delivered, List.append_nil]
      exact grows_conserved (settle_grows { c with height := max c.height hb })
        (by simpa [handed] using hd) hdr
    | msg id =>
      simp only [step, delivered]
      exact grows_conserved (settle_grows { c with buf := c.buf ++ [id] })
          (by simp [handed, hd, hdr] ) hdr
    | release =>
      simp only [step, delivered, List.append_nil]
      split
      · exact grows_conserved ((afterInit_keeps c _).grows.trans (chain_grows _ _)) hd hdr
      · exact ⟨hd, hf⟩

theorem init_conserved (h0 start : Nat) (s : Spec) (rest : List Spec) :
    Conserved (init h0 start s rest) [] := by
  unfold init
  exact grows_conserved (settle_grows _) (by simp [handed]) rfl

theorem exec_conserved (h0 start : Nat) (s : Spec) (rest : List Spec) (evs : List Ev) :
    Conserved (exec h0 start s rest evs) (delivered evs) := by
  unfold exec
  have h := init_conserved h0 start s rest
  generalize init h0 start s rest = c at h
  have key : ∀ (evs : List Ev) (c : Cfg) (d : List Nat), Conserved c d →
      Conserved (evs.foldl step c) (d ++ delivered evs) := by
    intro evs
    induction evs with
    | nil => intro c d h; simpa [delivered] using h
    | cons e r ih =>
      intro c d h
      have := ih _ _ (step_conserved c e d h)
      rw [show e :: r = [e] ++ r from rfl, delivered_append, ← List.append_assoc]
      exact this
  simpa using key evs c [] h

theorem drain_conserved (n : Nat) (c : Cfg) (d : List Nat) (h : Conserved c d) :
    Conserved (drain n c) d := by
  induction n generalizing c with
  | zero => exact h
  | succ n ih =>
    apply ih
    unfold drainStep
    split
    · exact h
    · simpa [delivered] using step_conserved c .release d h
    · rename_i x _; simpa [delivered] using step_conserved c (.block x) d h
    · rename_i x _; simpa [delivered] using step_conserved c (.block x) d h
    · rename_i x _; simpa [delivered] using step_conserved c (.block x) d h

/-- **messages_conserved**: for every event list, chain and timing, the sequence of messages
    delivered to the channel equals, in order: the messages handed to the states (in state
    order), then the messages still in `recvChan`, then the messages that arrived after the
    machine had returned. None is lost, duplicated, reordered or invented. -/
theorem messages_conserved (h0 start : Nat) (s : Spec) (rest : List Spec) (evs : List Ev) :
    delivered evs = handed (run h0 start s rest evs) ++ (run h0 start s rest evs).buf
      ++ (run h0 start s rest evs).dropped :=
  (drain_conserved _ _ _ (exec_conserved h0 start s rest evs)).1

/-- monitor tie, message part: `holdsMsgs` accepts every run of the model. -/
theorem holdsMsgs_model (h0 start : Nat) (s : Spec) (rest : List Spec) (evs : List Ev) :
    holdsMsgs (delivered evs) (handed (run h0 start s rest evs))
      (run h0 start s rest evs).buf.length (run h0 start s rest evs).dropped = true := by
  have h := messages_conserved h0 start s rest evs
  generalize handed (run h0 start s rest evs) = a at h
  generalize (run h0 start s rest evs).buf = b at h
  generalize (run h0 start s rest evs).dropped = c at h
  unfold holdsMsgs
  rw [h]
  simp [List.drop_append, List.take_append]
  omega


/-- **chained_machines_follow_one_schedule** (`ExecuteDKG`): when the publication machine is started
    at the block the GJKR machine returned, both machines ending normally, the block-counter calls
    of a member are the nominal ones of the concatenated chain anchored at the common DKG start
    block — whatever blocks, messages and `Initiate` durations either machine saw — and the
    publication machine ends at `start + ProtocolBlocks() + PrePublicationBlocks()`. -/
theorem chained_machines_follow_one_schedule (start h0 h0' : Nat) (evs evs' : List Ev)
    (g : Spec) (grest : List Spec) (hg : gjkrChain = g :: grest)
    (r : Spec) (rrest : List Spec) (hr : resultChain = r :: rrest)
    (k e k' e' : Nat)
    (h1 : (run h0 start g grest evs).res = .final k e)
    (h2 : (run h0' e r rrest evs').res = .final k' e') :
    e = start + Gen.C14.gjkrProtocolBlocks ∧
    e' = start + Gen.C14.gjkrProtocolBlocks + Gen.C14.resultPrePublicationBlocks ∧
    (run h0 start g grest evs).calls ++ (run h0' e r rrest evs').calls =
      .wait start :: sched start gjkrChain ++ .wait e :: sched e resultChain := by
  obtain ⟨a1, _, c1⟩ := end_block_eq h0 start g grest evs k e h1
  obtain ⟨a2, _, c2⟩ := end_block_eq h0' e r rrest evs' k' e' h2
  rw [← hg, gjkr_total_eq_ProtocolBlocks] at a1
  rw [← hr, result_total_eq_PrePublicationBlocks] at a2
  refine ⟨a1, by omega, ?_⟩
  rw [c1, c2, hg, hr]

/-- the nominal `ExecuteDKG` calls the driver prints are those of the theorem above at start 0 -/
theorem dkgNominal_eq :
    dkgNominal = .wait 0 :: sched 0 gjkrChain ++
      .wait Gen.C14.gjkrProtocolBlocks :: (sched Gen.C14.gjkrProtocolBlocks resultChain).dropLast := by
  have : endOf 0 gjkrChain = Gen.C14.gjkrProtocolBlocks := by
    rw [endOf_eq, gjkr_total_eq_ProtocolBlocks]; simp
  simp [dkgNominal, this]

/-- non-vacuity: a run with a late block jump and a silent state ends normally at `start + total`
    (by `simp` unfolding; no kernel evaluation of the run). -/
example : (run 0 2 { delay := 1, active := 2 } [{ delay := 0, active := 0 }] [.block 9]).res
    = .final 1 5 := by
  simp [run, exec, init, settle, delayStage, initStage, afterInit, loopStage, chain, drain,
    drainStep, step]

end KeepVerif.C14
