import KeepVerif.Proofs.C04Sqrt
import KeepVerif.Proofs.C04Field
import Mathlib.Algebra.QuadraticAlgebra.Basic
import Mathlib.NumberTheory.LegendreSymbol.Basic
import Mathlib.FieldTheory.Finite.Basic
import Mathlib.RingTheory.RootsOfUnity.PrimitiveRoots
/-!
# C04: the 16-step square-root search of `sqrtGfP2` is complete for squares of F_p²

The model's `Fp2` (pairs of naturals, arithmetic as `gfP2` does it with `mod`) is embedded into
Mathlib's `QuadraticAlgebra (ZMod P) (-1) 0` = F_p[i]/(i²+1), which is a field because
`P % 4 = 3` (−1 is not a square mod `P`; `P` prime is the hypothesis A-field, as for G1).
Then, for `X = Y²`, `Y ≠ 0`:  `y0 = X^((P²+15)/32)` satisfies `y0² = X·ζ` with
`ζ = Y^((P²−1)/8)`, `ζ⁸ = Y^(P²−1) = 1` (the field has `P²` elements), `hexRoot²` is a primitive
8th root of unity, so `ζ⁻¹ = hexRoot^(2i)` for some `i < 8` and the candidate `y0·hexRoot^i`
visited by the loop squares to `X`.  A returned root `r` has `r² = y²`, so `r = ±y` (field).
-/
namespace KeepVerif.C04

open QuadraticAlgebra

abbrev K2 := QuadraticAlgebra (ZMod P) (-1) 0

/-- the embedding of the model's pairs into F_p². -/
def φ (a : Fp2) : K2 := ⟨(a.x : ZMod P), (a.y : ZMod P)⟩

theorem φ_mul (a b : Fp2) : φ (Fp2.mul a b) = φ a * φ b := by
  ext
  · simp only [φ, re_mul, mul_x_cast]; ring
  · simp only [φ, im_mul, mul_y_cast]; ring

theorem φ_one : φ Fp2.one = 1 := by
  ext <;> simp [φ, Fp2.one]

theorem φ_add (a b : Fp2) : φ (Fp2.add a b) = φ a + φ b := by
  ext <;> simp [φ, Fp2.add, ZMod.natCast_mod]

theorem φ_inj {a b : Fp2} (ha : Reduced a) (hb : Reduced b) (h : φ a = φ b) : a = b := by
  apply fp2_ext ha hb
  · exact congrArg QuadraticAlgebra.re h
  · exact congrArg QuadraticAlgebra.im h

theorem φ_powAux : ∀ (f : Nat) (acc base : Fp2) (e : Nat), e ≤ f →
    φ (Fp2.powAux f acc base e) = φ acc * φ base ^ e := by
  intro f
  induction f with
  | zero =>
    intro acc base e he
    have : e = 0 := by omega
    subst this; simp [Fp2.powAux]
  | succ f ih =>
    intro acc base e he
    unfold Fp2.powAux
    by_cases h0 : e = 0
    · subst h0; simp
    · rw [if_neg h0, ih _ _ _ (by omega)]
      have hdm := Nat.div_add_mod e 2
      by_cases h1 : e % 2 = 1
      · rw [if_pos h1, φ_mul, φ_mul]
        conv_rhs => rw [← hdm, h1, pow_add, pow_mul, pow_one]
        ring
      · rw [if_neg h1, φ_mul]
        have h2 : e % 2 = 0 := by omega
        conv_rhs => rw [← hdm, h2, Nat.add_zero, pow_mul]
        ring

theorem φ_pow (b : Fp2) (e : Nat) : φ (Fp2.pow b e) = φ b ^ e := by
  unfold Fp2.pow
  rw [φ_powAux _ _ _ _ (le_refl _), φ_one, one_mul]


/-! ## F_p² is a field with `P²` elements (A-field: `P` prime) -/

section field
variable [hp : Fact (Nat.Prime P)]

instance nonsq : Fact (∀ r : ZMod P, r ^ 2 ≠ (-1 : ZMod P) + 0 * r) :=
  ⟨fun r h => ZMod.mod_four_ne_three_of_sq_eq_neg_one (p := P) (y := r) (by simpa using h) p_mod_4⟩

noncomputable instance : Fintype K2 := Fintype.ofEquiv _ (equivProd (-1 : ZMod P) 0).symm

theorem card_K2 : Fintype.card K2 = P * P := by
  rw [Fintype.card_congr (equivProd (-1 : ZMod P) 0), Fintype.card_prod, ZMod.card]

theorem pow_card_sub_one (Y : K2) (hY : Y ≠ 0) : Y ^ (P * P - 1) = 1 := by
  have := FiniteField.pow_card_sub_one_eq_one Y hY
  rwa [card_K2] at this


/-! ## `hexRoot²` is a primitive 8th root of unity -/

theorem h16 : φ hexRoot ^ 16 = 1 := by
  rw [← φ_pow, hexRoot_order_16.1, φ_one]

theorem h8 : φ hexRoot ^ 8 ≠ 1 := by
  intro h
  apply hexRoot_order_16.2
  apply φ_inj (pow_reduced _ _) one_reduced
  rw [φ_pow, h, φ_one]

theorem g_prim : IsPrimitiveRoot (φ hexRoot ^ 2) 8 := by
  have ho : orderOf (φ hexRoot ^ 2) = 2 ^ (2 + 1) := by
    apply orderOf_eq_prime_pow
    · rw [← pow_mul]; exact h8
    · rw [← pow_mul]; exact h16
  have := IsPrimitiveRoot.orderOf (φ hexRoot ^ 2)
  rwa [ho] at this

/-! ## Completeness of the candidates -/

omit hp in
theorem exp_two : 2 * sqrtExp = 1 + (P * P - 1) / 16 := by decide +kernel
omit hp in
theorem exp_eight : 2 * ((P * P - 1) / 16) * 8 = P * P - 1 := by decide +kernel

/-- for a non-zero square `Y²`, one of the first eight candidates squares to it. -/
theorem exists_cand_sq (Y : K2) (hY : Y ≠ 0) :
    ∃ i < 8, ((Y ^ 2) ^ sqrtExp * φ hexRoot ^ i) ^ 2 = Y ^ 2 := by
  have hζ8 : (Y ^ (2 * ((P * P - 1) / 16))) ^ 8 = 1 := by
    rw [← pow_mul, exp_eight]; exact pow_card_sub_one Y hY
  have hζ0 : Y ^ (2 * ((P * P - 1) / 16)) ≠ 0 := pow_ne_zero _ hY
  have hζinv : ((Y ^ (2 * ((P * P - 1) / 16)))⁻¹) ^ 8 = 1 := by rw [inv_pow, hζ8, inv_one]
  obtain ⟨i, hi, hgi⟩ := g_prim.eq_pow_of_pow_eq_one hζinv
  refine ⟨i, hi, ?_⟩
  calc ((Y ^ 2) ^ sqrtExp * φ hexRoot ^ i) ^ 2
      = (Y ^ 2) ^ (2 * sqrtExp) * (φ hexRoot ^ 2) ^ i := by ring
    _ = Y ^ 2 * (Y ^ 2) ^ ((P * P - 1) / 16) * (Y ^ (2 * ((P * P - 1) / 16)))⁻¹ := by
        rw [exp_two, pow_add, pow_one, hgi]
    _ = Y ^ 2 * Y ^ (2 * ((P * P - 1) / 16)) * (Y ^ (2 * ((P * P - 1) / 16)))⁻¹ := by
        rw [← pow_mul Y 2]
    _ = Y ^ 2 := by rw [mul_assoc, mul_inv_cancel₀ hζ0, mul_one]

theorem φ_cand (y : Fp2) (k : Nat) : φ (cand y k) = φ y * φ hexRoot ^ k := by
  induction k with
  | zero => simp [cand]
  | succ k ih => rw [cand, φ_mul, ih, pow_succ, mul_assoc]

theorem φ_ne_zero {y : Fp2} (hy : Reduced y) (hne : ¬(y.x = 0 ∧ y.y = 0)) : φ y ≠ 0 := by
  intro h
  apply hne
  have : y = ⟨0, 0⟩ := by
    apply φ_inj hy ⟨by decide, by decide⟩
    rw [h]; ext <;> simp [φ]
  rw [this]; exact ⟨rfl, rfl⟩

/-- **the 16-step search finds a root of every non-zero square of F_p²**. -/
theorem sqrtGfP2_complete (x y : Fp2) (hy : Reduced y) (hne : ¬(y.x = 0 ∧ y.y = 0))
    (hsq : Fp2.mul y y = x) : ∃ r, sqrtGfP2 x = some r := by
  have hx : Reduced x := hsq ▸ mul_reduced y y
  have hφx : φ x = φ y ^ 2 := by rw [← hsq, φ_mul, sq]
  obtain ⟨i, hi, hsqi⟩ := exists_cand_sq (φ y) (φ_ne_zero hy hne)
  cases h : sqrtGfP2 x with
  | some r => exact ⟨r, rfl⟩
  | none =>
    exfalso
    unfold sqrtGfP2 at h
    rw [sqrtLoop_none_iff] at h
    have hk := h i (by omega)
    have : Fp2.pow (cand (Fp2.pow x sqrtExp) i) 2 = x := by
      apply φ_inj (pow_reduced _ _) hx
      rw [φ_pow, φ_cand, φ_pow, hφx]
      exact hsqi
    simp [x2y, this] at hk

/-- a root returned for `y²` is `y` or `−y`. -/
theorem root_pm (y r : Fp2) (h : Fp2.pow r 2 = Fp2.mul y y) : φ r = φ y ∨ φ r = -φ y := by
  have : φ r ^ 2 = φ y ^ 2 := by rw [← φ_pow, h, φ_mul, sq]
  exact sq_eq_sq_iff_eq_or_eq_neg.mp this

end field

end KeepVerif.C04
