import KeepVerif.Proofs.C04Field
/-!
# C04: soundness of `DecompressToG2` on arbitrary input (`holdsD2_model`)

Proved for every square-root routine with the two properties shown of `sqrtGfP2` (its results are
reduced; `twistB` has no root), then instantiated: keeping `sqrtGfP2` abstract keeps the kernel
from unrolling the 503-bit exponentiation symbolically.
-/
namespace KeepVerif.C04

def obsOf2 : Except Err (Fp2 × Fp2) → Obs
  | .ok (x, y) => .point2 x y
  | .error e => .err e.toString

theorem sqrtLoop_reduced (x : Fp2) : ∀ (f : Nat) (y r : Fp2), Reduced y → sqrtLoop f x y = some r →
    Reduced r := by
  intro f
  induction f with
  | zero => intro y r _ h; simp [sqrtLoop] at h
  | succ f ih =>
    intro y r hy h
    rw [sqrtLoop.eq_2] at h
    split at h
    · have h := Option.some.inj h; subst h; exact hy
    · exact ih _ _ (mul_reduced _ _) h

theorem sqrtGfP2_reduced (x r : Fp2) (h : sqrtGfP2 x = some r) : Reduced r := by
  unfold sqrtGfP2 at h
  exact sqrtLoop_reduced _ _ _ _ (pow_reduced _ _) h

theorem sqrt_twistB_none : sqrtGfP2 (Fp2.add (Fp2.pow ⟨0, 0⟩ 3) twistB) = none := by decide +kernel

theorem g2FromInts_cases (x y : Fp2) :
    (∃ e, g2FromInts x y = .error e) ∨
    (g2FromInts x y = .ok (x, y) ∧ x.y < P ∧ x.x < P ∧ y.y < P ∧ y.x < P ∧
      ((x.isZero && y.isZero) = true ∨ inG2 x y = true)) := by
  unfold g2FromInts
  cases hf : firstErr [x.y, x.x, y.y, y.x] with
  | some e => exact Or.inl ⟨e, rfl⟩
  | none =>
    have hb := firstErr_none _ hf
    have h1 : x.y < P := hb _ (by simp)
    have h2 : x.x < P := hb _ (by simp)
    have h3 : y.y < P := hb _ (by simp)
    have h4 : y.x < P := hb _ (by simp)
    by_cases hz : (x.isZero && y.isZero) = true
    · right; simp only; rw [if_pos hz]; exact ⟨rfl, h1, h2, h3, h4, Or.inl hz⟩
    · by_cases hc : inG2 x y = true
      · right; simp only; rw [if_neg hz, if_pos hc]; exact ⟨rfl, h1, h2, h3, h4, Or.inr hc⟩
      · left; simp only; rw [if_neg hz, if_neg hc]; exact ⟨_, rfl⟩

theorem holdsD2_zero : holdsD2 0 0 (obsOf2 (g2FromInts Fp2.zero Fp2.zero)) = true := by
  decide +kernel

theorem holdsD2_with (sqrt : Fp2 → Option Fp2)
    (hred : ∀ x r, sqrt x = some r → Reduced r)
    (hzero : sqrt (Fp2.add (Fp2.pow ⟨0, 0⟩ 3) twistB) = none)
    (hi lo : Nat) (hhi : hi < 2 ^ 256) :
    holdsD2 hi lo (obsOf2 (decompressG2With sqrt hi lo)) = true := by
  unfold decompressG2With
  by_cases h0 : hi = 0 ∧ lo = 0
  · obtain ⟨rfl, rfl⟩ := h0
    rw [if_pos ⟨rfl, rfl⟩]
    exact holdsD2_zero
  · rw [if_neg h0]
    simp only
    cases hs : sqrt (Fp2.add (Fp2.pow ⟨lo, hi % two255⟩ 3) twistB) with
    | none => rfl
    | some r =>
      simp only
      have hr : Reduced r := hred _ _ hs
      generalize hy' : (if hi / two255 % 2 ≠ yParity r.y then (⟨P - r.x, P - r.y⟩ : Fp2) else r) = y'
      rcases g2FromInts_cases ⟨lo, hi % two255⟩ y' with ⟨e, he⟩ | ⟨hok, hxy, hxx, hyy, hyx, hin⟩
      · rw [he]; rfl
      · rw [hok]
        simp only at hxy hxx
        rcases hin with hz | hc
        · exfalso
          simp only [Fp2.isZero, Bool.and_eq_true, beq_iff_eq] at hz
          obtain ⟨⟨hlo, hhi0⟩, _⟩ := hz
          rw [hlo, hhi0, hzero] at hs
          cases hs
        · have hyy' : y'.y = if hi / two255 % 2 ≠ r.y % 2 then P - r.y else r.y := by
            rw [← hy']; unfold yParity; split <;> rfl
          have hpar : y'.y % 2 = hi / two255 % 2 := by
            rw [hyy']
            exact parity_select _ _ (Nat.mod_lt _ (by omega)) hr.2 (by rw [← hyy']; exact hyy)
          have hcomp : compressG2 ⟨lo, hi % two255⟩ y' = (hi, lo) := by
            unfold compressG2 yParity
            simp only
            rw [hpar, orTop_restore hi hhi hxy]
          show (_ || _) = true
          rw [Bool.or_eq_true]
          right
          simp only [Bool.and_eq_true, decide_eq_true_eq, beq_iff_eq]
          exact ⟨⟨⟨⟨⟨hxx, hxy⟩, hyx⟩, hyy⟩, hc⟩, hcomp⟩

theorem holdsD2_model (hi lo : Nat) (hhi : hi < 2 ^ 256) :
    holdsD2 hi lo (obsOf2 (decompressG2 hi lo)) = true := by
  unfold decompressG2
  exact holdsD2_with sqrtGfP2 sqrtGfP2_reduced sqrt_twistB_none hi lo hhi

end KeepVerif.C04
