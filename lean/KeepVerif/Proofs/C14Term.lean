import KeepVerif.Proofs.C14Base
namespace KeepVerif.C14

/-! ## termination of the final drain -/

def rank : Phase → Nat
  | .finished => 0
  | .loop _ => 1
  | .initiating _ => 2
  | .waitDelay _ => 3
  | .waitStart _ => 4

/-- measure: zero exactly when the machine has returned -/
def mu (c : Cfg) : Nat :=
  match c.phase with
  | .finished => 0
  | p => 3 * c.rest.length + rank p

def muO : Out → Nat
  | .quiet c => mu c
  | .fired c _ => 3 * c.rest.length

/-- a returned machine has a result -/
def FinRes (c : Cfg) : Prop := c.phase = .finished → c.res ≠ .running

theorem loopStage_mu (c : Cfg) (w : Nat) :
    muO (loopStage c w) ≤ 3 * c.rest.length + 1 ∧ (c.height ≥ w → muO (loopStage c w) ≤ 3 * c.rest.length) ∧
    (FinRes c → FinRes (loopStage c w).cfg) := by
  unfold loopStage
  simp only
  split <;> simp_all [muO, mu, rank, FinRes, Out.cfg] <;> (try (intros; omega))

theorem afterInit_mu (c : Cfg) (t : Nat) :
    muO (afterInit c t) ≤ 3 * c.rest.length + 1 ∧ (FinRes c → FinRes (afterInit c t).cfg) := by
  unfold afterInit
  split
  · simp [muO, mu, FinRes, Out.cfg]
  · have := loopStage_mu { c with calls := c.calls ++ [.arm (t + c.cur.active)] } (t + c.cur.active)
    exact ⟨this.1, fun h => this.2.2 (by simpa [FinRes] using h)⟩

theorem initStage_mu (c : Cfg) (t : Nat) :
    muO (initStage c t) ≤ 3 * c.rest.length + 2 ∧ (FinRes c → FinRes (initStage c t).cfg) := by
  unfold initStage
  simp only
  split
  · simp [muO, mu, rank, FinRes, Out.cfg]
  · have := afterInit_mu { c with crec := { c.crec with initH := some c.height } } t
    exact ⟨by have := this.1; simp only at this; omega, fun h => this.2 (by simpa [FinRes] using h)⟩

theorem delayStage_mu (c : Cfg) (e : Nat) :
    muO (delayStage c e) ≤ 3 * c.rest.length + 3 ∧ (FinRes c → FinRes (delayStage c e).cfg) := by
  unfold delayStage
  simp only
  split
  · have := initStage_mu { c with calls := c.calls ++ [.wait (e + c.cur.delay)],
                                   crec := { c.crec with thr := some (e + c.cur.delay) } } (e + c.cur.delay)
    exact ⟨by have := this.1; simp only at this; omega, fun h => this.2 (by simpa [FinRes] using h)⟩
  · simp [muO, mu, rank, FinRes, Out.cfg]

theorem chain_mu (rest : List Spec) (o : Out) (hrest : o.cfg.rest = rest) :
    mu (chain rest o) ≤ muO o ∧ (FinRes o.cfg → FinRes (chain rest o)) := by
  induction rest generalizing o with
  | nil =>
    cases o with
    | quiet c => simp [chain, muO, Out.cfg]
    | fired c w => simp only [chain]; split <;> simp [mu, FinRes]
  | cons s rest' ih =>
    cases o with
    | quiet c => simp [chain, muO, Out.cfg]
    | fired c w =>
      simp only [Out.cfg] at hrest
      simp only [chain]
      split
      · simp [mu, FinRes]
      · have hd := delayStage_mu ({ c with cur := s, rest := rest', k := c.k + 1, done := c.done ++ [c.crec], crec := ({ entryH := c.height } : Rec) } : Cfg) w
        have hi := ih (delayStage ({ c with cur := s, rest := rest', k := c.k + 1, done := c.done ++ [c.crec], crec := ({ entryH := c.height } : Rec) } : Cfg) w) (delayStage_rest _ _)
        refine ⟨?_, fun h => hi.2 (hd.2 (by simpa [FinRes, Out.cfg] using h))⟩
        have h1 := hi.1
        have h2 := hd.1
        simp only [muO, hrest, List.length_cons] at *
        omega

theorem mu_zero_iff (c : Cfg) : mu c = 0 ↔ c.phase = .finished := by
  unfold mu
  cases h : c.phase <;> simp [rank]

/-- every drain step of a machine that has not returned strictly decreases the measure -/
theorem settle_mu_waitStart (c : Cfg) (s : Nat) (hp : c.phase = .waitStart s) (hh : c.height ≥ s) :
    mu (settle c) ≤ 3 * c.rest.length + 3 := by
  simp only [settle, hp]
  rw [if_pos hh]
  exact Nat.le_trans (chain_mu c.rest _ (delayStage_rest _ _)).1 (delayStage_mu c s).1

theorem settle_mu_waitDelay (c : Cfg) (t : Nat) (hp : c.phase = .waitDelay t) (hh : c.height ≥ t) :
    mu (settle c) ≤ 3 * c.rest.length + 2 := by
  simp only [settle, hp]
  rw [if_pos hh]
  exact Nat.le_trans (chain_mu c.rest _ (initStage_rest _ _)).1 (initStage_mu c t).1

theorem settle_mu_loop (c : Cfg) (w : Nat) (hp : c.phase = .loop w) (hh : c.height ≥ w) :
    mu (settle c) ≤ 3 * c.rest.length := by
  simp only [settle, hp]
  exact Nat.le_trans (chain_mu c.rest _ (loopStage_rest _ _)).1 ((loopStage_mu c w).2.1 hh)

theorem drainStep_mu (c : Cfg) (h : c.phase ≠ .finished) : mu (drainStep c) < mu c := by
  unfold drainStep
  cases hp : c.phase with
  | finished => exact absurd hp h
  | initiating t =>
    simp only [step, hp]
    have h1 := (chain_mu c.rest (afterInit c t) (afterInit_rest _ _)).1
    have h2 := (afterInit_mu c t).1
    have hm : mu c = 3 * c.rest.length + 2 := by simp [mu, hp, rank]
    omega
  | waitStart s =>
    have hm : mu c = 3 * c.rest.length + 4 := by simp [mu, hp, rank]
    have := settle_mu_waitStart { c with height := max c.height s } s hp (Nat.le_max_right _ _)
    simp only [step]
    simp only at this
    omega
  | waitDelay t =>
    have hm : mu c = 3 * c.rest.length + 3 := by simp [mu, hp, rank]
    have := settle_mu_waitDelay { c with height := max c.height t } t hp (Nat.le_max_right _ _)
    simp only [step]
    simp only at this
    omega
  | loop w =>
    have hm : mu c = 3 * c.rest.length + 1 := by simp [mu, hp, rank]
    have := settle_mu_loop { c with height := max c.height w } w hp (Nat.le_max_right _ _)
    simp only [step]
    simp only at this
    omega

theorem drain_finishes (n : Nat) (c : Cfg) (h : mu c ≤ n) : (drain n c).phase = .finished := by
  induction n generalizing c with
  | zero => exact (mu_zero_iff c).1 (by omega)
  | succ n ih =>
    simp only [drain]
    by_cases hf : c.phase = .finished
    · apply ih
      have : drainStep c = c := by simp [drainStep, hf]
      rw [this, (mu_zero_iff c).2 hf]; omega
    · exact ih _ (by have := drainStep_mu c hf; omega)

theorem settle_finres (c : Cfg) (h : FinRes c) : FinRes (settle c) := by
  unfold settle
  split
  · split
    · exact (chain_mu _ _ (delayStage_rest _ _)).2 ((delayStage_mu c _).2 h)
    · exact h
  · split
    · exact (chain_mu _ _ (initStage_rest _ _)).2 ((initStage_mu c _).2 h)
    · exact h
  · exact h
  · exact (chain_mu _ _ (loopStage_rest _ _)).2 ((loopStage_mu c _).2.2 h)
  · exact h

theorem step_finres (c : Cfg) (e : Ev) (h : FinRes c) : FinRes (step c e) := by
  cases e with
  | block hb => exact settle_finres _ (by simpa [FinRes] using h)
  | msg id =>
    simp only [step]
    split
    · simpa [FinRes] using h
    · exact settle_finres _ (by simpa [FinRes] using h)
  | release =>
    simp only [step]
    split
    · exact (chain_mu _ _ (afterInit_rest _ _)).2 ((afterInit_mu c _).2 h)
    · exact h

theorem exec_finres (h0 start : Nat) (s : Spec) (rest : List Spec) (evs : List Ev) :
    FinRes (exec h0 start s rest evs) := by
  unfold exec
  have h : FinRes (init h0 start s rest) := settle_finres _ (by simp [FinRes])
  generalize init h0 start s rest = c at h
  induction evs generalizing c with
  | nil => exact h
  | cons e r ih => exact ih _ (step_finres c e h)

theorem drain_finres (n : Nat) (c : Cfg) (h : FinRes c) : FinRes (drain n c) := by
  induction n generalizing c with
  | zero => exact h
  | succ n ih =>
    apply ih
    unfold drainStep
    split <;> first | exact h | exact step_finres _ _ h

/-- **run_finishes**: the final drain always terminates — for every chain and every event list the
    machine has returned (`Execute` ended with a result) when `run` is done. -/
theorem run_finishes (h0 start : Nat) (s : Spec) (rest : List Spec) (evs : List Ev) :
    (run h0 start s rest evs).phase = .finished ∧ (run h0 start s rest evs).res ≠ .running := by
  have hph : (run h0 start s rest evs).phase = .finished := by
    apply drain_finishes
    obtain ⟨pre, hall, _, _⟩ := exec_inv h0 start s rest evs
    have hl : (exec h0 start s rest evs).rest.length ≤ rest.length := by
      have := congrArg List.length hall
      simp at this; omega
    have : mu (exec h0 start s rest evs) ≤ 3 * (exec h0 start s rest evs).rest.length + 4 := by
      unfold mu
      cases (exec h0 start s rest evs).phase <;> simp [rank] <;> omega
    omega
  exact ⟨hph, drain_finres _ _ (exec_finres h0 start s rest evs) hph⟩

/-- **holdsSched_model**: the block-window clause of the monitor accepts every run of the model —
    all chains, all event lists, no hypothesis. -/
theorem holdsSched_model (h0 start : Nat) (s : Spec) (rest : List Spec) (evs : List Ev) :
    holdsSched start (s :: rest) (run h0 start s rest evs).calls (run h0 start s rest evs).res = true :=
  holdsSched_model_partial h0 start s rest evs (run_finishes h0 start s rest evs).2

end KeepVerif.C14
