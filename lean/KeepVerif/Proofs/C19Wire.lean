import KeepVerif.Model.C19Wire
/-!
# C19 wire-layer lemmas: varint and field-list round trips (core Lean only)
-/
namespace KeepVerif.C19

theorem putVarintF_ne_nil (f n : Nat) : putVarintF f n ≠ [] := by
  cases f with
  | zero => simp [putVarintF]
  | succ f => unfold putVarintF; split <;> simp

theorem putVarint_ne_nil (n : Nat) : putVarint n ≠ [] := putVarintF_ne_nil 9 n

/-- fuel-indexed varint round trip: `f` continuation bytes are enough for `n < 2^(7f+1)` -/
theorem getVarint_putVarintF (f : Nat) : ∀ (n : Nat) (rest : Bytes), n < 2 ^ (7 * f + 1) →
    getVarint (f + 1) (putVarintF f n ++ rest) = some (n, rest) := by
  induction f with
  | zero =>
    intro n rest h
    have h2 : n < 2 := by simpa using h
    simp only [putVarintF, List.cons_append, List.nil_append, getVarint]
    have : n < 128 := by omega
    simp [this, h2]
  | succ f ih =>
    intro n rest h
    unfold putVarintF
    by_cases hn : n < 128
    · simp only [hn, if_true, List.cons_append, List.nil_append, getVarint]
      simp
    · have hb : ¬ (n % 128 + 128 < 128) := by omega
      have hdiv : n / 128 < 2 ^ (7 * f + 1) := by
        have e : 2 ^ (7 * (f + 1) + 1) = 128 * 2 ^ (7 * f + 1) := by
          rw [show 7 * (f + 1) + 1 = 7 + (7 * f + 1) by omega, Nat.pow_add]
        rw [e] at h
        exact Nat.div_lt_of_lt_mul h
      simp only [hn, if_false, List.cons_append, getVarint, hb]
      rw [ih (n / 128) rest hdiv]
      simp
      omega

/-- **varint round trip**: every `uint64` value encodes to bytes that decode to the same value,
    leaving the rest of the input untouched. -/
theorem varint_roundtrip (n : Nat) (rest : Bytes) (h : n < 2 ^ 64) :
    getVarint 10 (putVarint n ++ rest) = some (n, rest) :=
  getVarint_putVarintF 9 n rest (by simpa using h)

/-- what may appear in a field list that round-trips: a valid field number, values in range,
    fixed-width payloads of the right width (groups are never produced by Marshal). -/
def FieldOk : Field → Prop
  | (n, .varint v) => 1 ≤ n ∧ n ≤ 536870911 ∧ v < 2 ^ 64
  | (n, .i64 bs) => 1 ≤ n ∧ n ≤ 536870911 ∧ bs.length = 8
  | (n, .len bs) => 1 ≤ n ∧ n ≤ 536870911 ∧ bs.length < 2 ^ 64
  | (n, .i32 bs) => 1 ≤ n ∧ n ≤ 536870911 ∧ bs.length = 4
  | (_, .group) => False

theorem putField_ne_nil (f : Field) : putField f ≠ [] := by
  rcases f with ⟨n, v⟩
  cases v <;> simp [putField, putVarint_ne_nil]

private theorem tagLt (n k : Nat) (h : n ≤ 536870911) (hk : k < 8) : n * 8 + k < 2 ^ 64 := by
  have : (2:Nat) ^ 64 = 18446744073709551616 := by decide
  omega

/-- one loop iteration of the decoder on an encoded field -/
theorem parseFields_putField (fuel : Nat) (f : Field) (rest : Bytes) (hf : FieldOk f) :
    parseFields (fuel + 1) (putField f ++ rest) = (parseFields fuel rest).map (f :: ·) := by
  have hne : putField f ++ rest ≠ [] := by
    intro h; exact putField_ne_nil f (List.append_eq_nil_iff.1 h).1
  rcases f with ⟨n, v⟩
  cases v with
  | varint v =>
    obtain ⟨h1, h2, h3⟩ := hf
    have e : putField (n, .varint v) ++ rest = putVarint (n * 8) ++ (putVarint v ++ rest) := by
      simp [putField]
    rw [e] at hne ⊢
    conv => lhs; unfold parseFields
    rw [if_neg hne, varint_roundtrip (n * 8) _ (by simpa using tagLt n 0 h2 (by omega))]
    have hd : n * 8 / 8 = n := by omega
    have hm : n * 8 % 8 = 0 := by omega
    simp only [hd, hm]
    rw [if_neg (by omega), varint_roundtrip v rest h3]
  | i64 bs =>
    obtain ⟨h1, h2, h3⟩ := hf
    have e : putField (n, .i64 bs) ++ rest = putVarint (n * 8 + 1) ++ (bs ++ rest) := by
      simp [putField]
    rw [e] at hne ⊢
    conv => lhs; unfold parseFields
    rw [if_neg hne, varint_roundtrip (n * 8 + 1) _ (tagLt n 1 h2 (by omega))]
    have hd : (n * 8 + 1) / 8 = n := by omega
    have hm : (n * 8 + 1) % 8 = 1 := by omega
    simp only [hd, hm]
    rw [if_neg (by omega)]
    have : takeN 8 (bs ++ rest) = some (bs, rest) := by
      unfold takeN
      rw [if_neg (by simp; omega)]
      simp [← h3]
    simp [this]
  | len bs =>
    obtain ⟨h1, h2, h3⟩ := hf
    have e : putField (n, .len bs) ++ rest =
        putVarint (n * 8 + 2) ++ (putVarint bs.length ++ (bs ++ rest)) := by
      simp [putField]
    rw [e] at hne ⊢
    conv => lhs; unfold parseFields
    rw [if_neg hne, varint_roundtrip (n * 8 + 2) _ (tagLt n 2 h2 (by omega))]
    have hd : (n * 8 + 2) / 8 = n := by omega
    have hm : (n * 8 + 2) % 8 = 2 := by omega
    simp only [hd, hm]
    rw [if_neg (by omega), varint_roundtrip bs.length _ h3]
    simp only [List.length_append]
    rw [if_neg (by omega)]
    simp
  | i32 bs =>
    obtain ⟨h1, h2, h3⟩ := hf
    have e : putField (n, .i32 bs) ++ rest = putVarint (n * 8 + 5) ++ (bs ++ rest) := by
      simp [putField]
    rw [e] at hne ⊢
    conv => lhs; unfold parseFields
    rw [if_neg hne, varint_roundtrip (n * 8 + 5) _ (tagLt n 5 h2 (by omega))]
    have hd : (n * 8 + 5) / 8 = n := by omega
    have hm : (n * 8 + 5) % 8 = 5 := by omega
    simp only [hd, hm]
    rw [if_neg (by omega)]
    have : takeN 4 (bs ++ rest) = some (bs, rest) := by
      unfold takeN
      rw [if_neg (by simp; omega)]
      simp [← h3]
    simp [this]
  | group => exact absurd hf (by simp [FieldOk])

theorem parseFields_putFields (fs : List Field) : ∀ fuel, fs.length < fuel →
    (∀ f ∈ fs, FieldOk f) → parseFields fuel (putFields fs) = some fs := by
  induction fs with
  | nil =>
    intro fuel h _
    cases fuel with
    | zero => omega
    | succ k => simp [putFields, parseFields]
  | cons f fs ih =>
    intro fuel h hok
    cases fuel with
    | zero => omega
    | succ k =>
      simp only [putFields]
      rw [parseFields_putField k f _ (hok f (by simp))]
      rw [ih k (by simp at h; omega) (fun g hg => hok g (by simp [hg]))]
      rfl

theorem length_le_putFields (fs : List Field) : fs.length ≤ (putFields fs).length := by
  induction fs with
  | nil => simp [putFields]
  | cons f fs ih =>
    simp only [putFields, List.length_cons, List.length_append]
    have : 0 < (putField f).length := List.length_pos_iff.2 (putField_ne_nil f)
    omega

/-- **wire round trip**: decoding the encoding of any admissible field list gives the list back
    (generic: every message of every schema is such a list). -/
theorem wire_roundtrip (fs : List Field) (hok : ∀ f ∈ fs, FieldOk f) :
    parseMsg (putFields fs) = some fs :=
  parseFields_putFields fs _ (by have := length_le_putFields fs; omega) hok

end KeepVerif.C19
