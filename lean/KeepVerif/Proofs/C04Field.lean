import KeepVerif.Proofs.C04Sqrt
import Mathlib.FieldTheory.Finite.Basic
/-!
# C04 lemma library: F_p exponentiation, the modelled `ModSqrt`, parity bookkeeping
-/
namespace KeepVerif.C04

theorem p_odd : P % 2 = 1 := by decide

theorem powModAux_lt : ∀ (f acc base e : Nat), acc < P → powModAux f acc base e < P := by
  intro f
  induction f with
  | zero => intro acc base e h; simpa [powModAux] using h
  | succ f ih =>
    intro acc base e h
    unfold powModAux
    split
    · exact h
    · apply ih
      split
      · exact Nat.mod_lt _ (by decide)
      · exact h

theorem powMod_lt (a e : Nat) : powMod a e < P := powModAux_lt _ _ _ _ (Nat.mod_lt _ (by decide))

theorem modSqrt_lt (a r : Nat) (h : modSqrt a = some r) : r < P := by
  unfold modSqrt at h
  simp only at h
  split at h
  · injection h with h; subst h; decide
  · split at h
    · injection h with h; subst h; exact powMod_lt _ _
    · cases h

theorem firstErr_none : ∀ (l : List Nat), firstErr l = none → ∀ v ∈ l, v < P := by
  intro l
  induction l with
  | nil => intro _ v hv; cases hv
  | cons a l ih =>
    intro h v hv
    unfold firstErr at h
    cases hc : coordCheck a with
    | some e => rw [hc] at h; cases h
    | none =>
      rw [hc] at h
      rcases List.mem_cons.mp hv with rfl | hv
      · unfold coordCheck at hc
        split at hc
        · assumption
        · split at hc <;> cases hc
      · exact ih h v hv

/-- parity bookkeeping of the decompression: the chosen root has the requested parity. -/
theorem parity_select (b r : Nat) (hb : b < 2) (hr : r < P)
    (hy : (if b ≠ r % 2 then P - r else r) < P) :
    (if b ≠ r % 2 then P - r else r) % 2 = b := by
  have hp := p_odd
  split
  · rename_i h
    rw [if_pos h] at hy
    omega
  · rename_i h
    omega

theorem orTop_restore (m : Nat) (hm : m < 2 ^ 256) (hx : m % two255 < P) :
    orTop (m % two255) (m / two255 % 2) = m := by
  have h255 := p_lt_two255
  unfold orTop
  unfold two255 at *
  have h0 : (m % 2 ^ 255) / 2 ^ 255 = 0 := Nat.div_eq_of_lt (Nat.mod_lt _ (by positivity))
  rw [h0]
  have hd : m / 2 ^ 255 < 2 := by
    apply Nat.div_lt_of_lt_mul
    have : (2 : Nat) ^ 255 * 2 = 2 ^ 256 := by norm_num
    omega
  have hsplit := Nat.div_add_mod m (2 ^ 255)
  split
  · rename_i h
    omega
  · rename_i h
    have : m / 2 ^ 255 = 0 := by omega
    omega

theorem powModAux_cast : ∀ (f acc base e : Nat), e ≤ f →
    ((powModAux f acc base e : ℕ) : ZMod P) = (acc : ZMod P) * (base : ZMod P) ^ e := by
  intro f
  induction f with
  | zero =>
    intro acc base e he
    have : e = 0 := by omega
    subst this
    simp [powModAux]
  | succ f ih =>
    intro acc base e he
    unfold powModAux
    by_cases h0 : e = 0
    · subst h0; simp
    · rw [if_neg h0, ih _ _ _ (by omega)]
      have hsq : ((base * base % P : ℕ) : ZMod P) ^ (e / 2) = (base : ZMod P) ^ (2 * (e / 2)) := by
        rw [ZMod.natCast_mod, Nat.cast_mul, pow_mul, pow_two]
      rw [hsq]
      by_cases hodd : e % 2 = 1
      · rw [if_pos hodd, ZMod.natCast_mod, Nat.cast_mul]
        have : e = 2 * (e / 2) + 1 := by omega
        conv_rhs => rw [this]
        ring
      · rw [if_neg hodd]
        have : e = 2 * (e / 2) := by omega
        conv_rhs => rw [this]

theorem powMod_cast (a e : Nat) : ((powMod a e : ℕ) : ZMod P) = (a : ZMod P) ^ e := by
  unfold powMod
  rw [powModAux_cast e _ _ e (Nat.le_refl e), ZMod.natCast_mod, ZMod.natCast_mod]
  simp

theorem exp_rel : (P + 1) / 4 * 2 = (P - 1) / 2 + 1 := by decide +kernel

/-- `big.Int.ModSqrt` as modelled returns a square root whenever it returns (no primality
    needed: this is the Euler-criterion computation for `P ≡ 3 mod 4`). -/
theorem modSqrt_sq (a r : Nat) (h : modSqrt a = some r) : (r * r) % P = a % P := by
  unfold modSqrt at h
  simp only at h
  split at h
  · rename_i h0
    have h := Option.some.inj h; subst h; simp [h0]
  · split at h
    · rename_i h1
      have h := Option.some.inj h; subst h
      apply (ZMod.natCast_eq_natCast_iff' _ _ _).mp
      push_cast
      rw [powMod_cast, ← pow_two, ← pow_mul, exp_rel, pow_succ]
      have : ((a % P : ℕ) : ZMod P) ^ ((P - 1) / 2) = 1 := by
        rw [← powMod_cast, h1]; simp
      rw [this, one_mul, ZMod.natCast_mod]
    · cases h


theorem two_half : 2 * ((P - 1) / 2) = P - 1 := by decide +kernel

/-- with `P` prime the modelled `ModSqrt` finds a root of every square, and it is `±y`. -/
theorem modSqrt_complete [hp : Fact (Nat.Prime P)] (a y : Nat) (hy : y < P)
    (h : (y * y) % P = a % P) :
    ∃ r, modSqrt a = some r ∧ r < P ∧ (r = y ∨ r + y = P) := by
  have hcast : (y : ZMod P) ^ 2 = (a : ZMod P) := by
    have := (ZMod.natCast_eq_natCast_iff' (y * y) a P).mpr h
    rw [pow_two]; exact_mod_cast this
  unfold modSqrt
  simp only
  by_cases h0 : a % P = 0
  · rw [if_pos h0]
    have ha : (a : ZMod P) = 0 := by
      rw [← ZMod.natCast_mod, h0]; simp
    rw [ha] at hcast
    have hy0 : (y : ZMod P) = 0 := by simpa using hcast
    have : y = 0 := by
      have := (ZMod.natCast_eq_zero_iff y P).mp hy0
      exact Nat.eq_zero_of_dvd_of_lt this hy
    exact ⟨0, rfl, by decide, Or.inl this.symm⟩
  · rw [if_neg h0]
    have ha : (a : ZMod P) ≠ 0 := by
      intro h'
      apply h0
      have := (ZMod.natCast_eq_zero_iff a P).mp h'
      exact Nat.mod_eq_zero_of_dvd this
    have hy0 : (y : ZMod P) ≠ 0 := by
      intro h'; rw [h', zero_pow (by norm_num)] at hcast; exact ha hcast.symm
    have heuler : powMod (a % P) ((P - 1) / 2) = 1 := by
      apply nat_eq_of_cast (powMod_lt _ _) (by decide)
      rw [powMod_cast, ZMod.natCast_mod, ← hcast, ← pow_mul, two_half, Nat.cast_one]
      exact ZMod.pow_card_sub_one_eq_one hy0
    rw [if_pos heuler]
    refine ⟨_, rfl, powMod_lt _ _, ?_⟩
    have hr2 : ((powMod (a % P) ((P + 1) / 4) : ℕ) : ZMod P) ^ 2 = (y : ZMod P) ^ 2 := by
      rw [powMod_cast, ← pow_mul, exp_rel, pow_succ, ZMod.natCast_mod, hcast]
      have : (a : ZMod P) ^ ((P - 1) / 2) = 1 := by
        rw [← ZMod.natCast_mod a P, ← powMod_cast, heuler]; simp
      rw [this, one_mul]
    rcases sq_eq_sq_iff_eq_or_eq_neg.mp hr2 with h1 | h1
    · exact Or.inl (nat_eq_of_cast (powMod_lt _ _) hy h1)
    · right
      have hsum : ((powMod (a % P) ((P + 1) / 4) + y : ℕ) : ZMod P) = 0 := by
        push_cast; rw [h1]; ring
      have hdvd := (ZMod.natCast_eq_zero_iff _ P).mp hsum
      have hypos : 0 < y := by
        rcases Nat.eq_zero_or_pos y with h' | h'
        · exfalso; apply hy0; rw [h']; simp
        · exact h'
      have hlt := powMod_lt (a % P) ((P + 1) / 4)
      obtain ⟨c, hc⟩ := hdvd
      have hc1 : c = 1 := by
        rcases Nat.lt_or_ge c 1 with h' | h'
        · have : c = 0 := by omega
          subst this; omega
        · rcases Nat.lt_or_ge c 2 with h'' | h''
          · omega
          · have : P * 2 ≤ P * c := Nat.mul_le_mul_left _ h''
            omega
      rw [hc1, Nat.mul_one] at hc
      exact hc

end KeepVerif.C04
