import KeepVerif.Model.C04
import Mathlib.Data.ZMod.Basic
import Mathlib.Tactic.Ring
import Mathlib.Tactic.Linarith
/-!
# C04 lemma library: constants, F_p² ring laws on reduced elements, the square-root search loop

`ZMod P` is only used as a commutative ring here (no primality needed): the cycle argument for
the search loop works for any modulus.
-/
namespace KeepVerif.C04

/-! ## T1 facts about the extracted constants -/

theorem p_pos : 1 < P := by decide
theorem p_mod_4 : P % 4 = 3 := by decide
theorem p_sq_mod_32 : (P * P) % 32 = 17 := by decide
theorem p_lt_two255 : P < two255 := by decide
/-- the exponent used by `sqrtGfP2` is `(p² + 15) / 32` as its comment says. -/
theorem sqrtExp_eq : sqrtExp = (P * P + 15) / 32 := by decide
/-- `hexRoot` is a primitive 16th root of unity of F_p². -/
theorem hexRoot_order_16 : Fp2.pow hexRoot 16 = Fp2.one ∧ Fp2.pow hexRoot 8 ≠ Fp2.one := by
  decide +kernel

/-! ## F_p² is associative on reduced elements (through `ZMod P`) -/

def Reduced (a : Fp2) : Prop := a.x < P ∧ a.y < P

theorem mul_reduced (a b : Fp2) : Reduced (Fp2.mul a b) :=
  ⟨Nat.mod_lt _ (by decide), Nat.mod_lt _ (by decide)⟩

theorem one_reduced : Reduced Fp2.one := ⟨by decide, by decide⟩
theorem hexRoot_reduced : Reduced hexRoot := ⟨by decide, by decide⟩

theorem cast_sub_mod (t : Nat) : (((P - t % P : ℕ)) : ZMod P) = -(t : ZMod P) := by
  rw [Nat.cast_sub (Nat.le_of_lt (Nat.mod_lt _ (by decide))), ZMod.natCast_self, ZMod.natCast_mod]
  ring

theorem mul_x_cast (a b : Fp2) :
    ((Fp2.mul a b).x : ZMod P) = (a.x : ZMod P) * b.x - (a.y : ZMod P) * b.y := by
  simp only [Fp2.mul]
  rw [ZMod.natCast_mod, Nat.cast_add, ZMod.natCast_mod, cast_sub_mod]
  push_cast; ring

theorem mul_y_cast (a b : Fp2) :
    ((Fp2.mul a b).y : ZMod P) = (a.x : ZMod P) * b.y + (a.y : ZMod P) * b.x := by
  simp only [Fp2.mul]
  rw [ZMod.natCast_mod, Nat.cast_add, ZMod.natCast_mod, ZMod.natCast_mod]
  push_cast; ring

theorem nat_eq_of_cast {a b : Nat} (ha : a < P) (hb : b < P) (h : (a : ZMod P) = (b : ZMod P)) :
    a = b := by
  have := (ZMod.natCast_eq_natCast_iff' a b P).mp h
  rwa [Nat.mod_eq_of_lt ha, Nat.mod_eq_of_lt hb] at this

theorem fp2_ext {a b : Fp2} (ha : Reduced a) (hb : Reduced b)
    (hx : (a.x : ZMod P) = b.x) (hy : (a.y : ZMod P) = b.y) : a = b := by
  cases a; cases b
  simp only [Fp2.mk.injEq]
  exact ⟨nat_eq_of_cast ha.1 hb.1 hx, nat_eq_of_cast ha.2 hb.2 hy⟩

theorem mul_assoc' (a b c : Fp2) : Fp2.mul (Fp2.mul a b) c = Fp2.mul a (Fp2.mul b c) := by
  apply fp2_ext (mul_reduced _ _) (mul_reduced _ _)
  · simp only [mul_x_cast, mul_y_cast]; ring
  · simp only [mul_x_cast, mul_y_cast]; ring

theorem mul_one' (a : Fp2) (ha : Reduced a) : Fp2.mul a Fp2.one = a := by
  apply fp2_ext (mul_reduced _ _) ha
  · rw [mul_x_cast]; simp [Fp2.one]
  · rw [mul_y_cast]; simp [Fp2.one]

/-! ## The candidates visited by the square-root search -/

/-- the `k`-th candidate: `y · hexRoot^k`, computed as the loop does. -/
def cand (y : Fp2) : Nat → Fp2
  | 0 => y
  | k+1 => Fp2.mul (cand y k) hexRoot

theorem cand_succ (y : Fp2) (k : Nat) : cand (Fp2.mul y hexRoot) k = cand y (k + 1) := by
  induction k with
  | zero => rfl
  | succ k ih => show Fp2.mul (cand (Fp2.mul y hexRoot) k) hexRoot = _; rw [ih]; rfl

theorem cand_add (y : Fp2) (a b : Nat) : cand y (a + b) = cand (cand y b) a := by
  induction a with
  | zero => rw [Nat.zero_add]; rfl
  | succ a ih =>
    have : a + 1 + b = (a + b) + 1 := by omega
    rw [this]
    show Fp2.mul (cand y (a + b)) hexRoot = Fp2.mul (cand (cand y b) a) hexRoot
    rw [ih]

theorem cand_eq_mul (y : Fp2) (hy : Reduced y) (k : Nat) : cand y k = Fp2.mul y (cand Fp2.one k) := by
  induction k with
  | zero => exact (mul_one' y hy).symm
  | succ k ih =>
    show Fp2.mul (cand y k) hexRoot = Fp2.mul y (Fp2.mul (cand Fp2.one k) hexRoot)
    rw [ih, mul_assoc']

theorem cand_one_16 : cand Fp2.one 16 = Fp2.one := by decide +kernel

/-- **Periodicity**: the search revisits its candidates after 16 steps. -/
theorem sqrt_search_periodic (y : Fp2) (hy : Reduced y) : cand y 16 = y := by
  rw [cand_eq_mul y hy, cand_one_16, mul_one' y hy]

theorem cand_reduced (y : Fp2) (hy : Reduced y) (k : Nat) : Reduced (cand y k) := by
  cases k with
  | zero => exact hy
  | succ k => exact mul_reduced _ _

theorem cand_mod (y : Fp2) (hy : Reduced y) (k : Nat) : cand y k = cand y (k % 16) := by
  induction k using Nat.strong_induction_on with
  | _ k ih =>
    by_cases hk : k < 16
    · rw [Nat.mod_eq_of_lt hk]
    · have : k = (k - 16) + 16 := by omega
      rw [this, cand_add, sqrt_search_periodic y hy, ih (k - 16) (by omega)]
      congr 1
      omega

/-! ## The loop: bounded = unbounded -/

theorem sqrtLoop_none_iff (x : Fp2) : ∀ (f : Nat) (y : Fp2),
    sqrtLoop f x y = none ↔ ∀ k < f, x2y x (cand y k) = false := by
  intro f
  induction f with
  | zero => intro y; simp [sqrtLoop]
  | succ f ih =>
    intro y
    unfold sqrtLoop
    by_cases h : x2y x y = true
    · rw [if_pos h]
      constructor
      · intro h'; cases h'
      · intro h'
        have := h' 0 (by omega)
        rw [show cand y 0 = y from rfl, h] at this
        cases this
    · rw [if_neg h, ih]
      constructor
      · intro h' k hk
        cases k with
        | zero => show x2y x y = false; simpa using h
        | succ k => rw [← cand_succ]; exact h' k (by omega)
      · intro h' k hk
        rw [cand_succ]; exact h' (k + 1) (by omega)

theorem sqrtLoop_add (x : Fp2) : ∀ (f g : Nat) (y : Fp2),
    sqrtLoop (f + g) x y =
      match sqrtLoop f x y with
      | some r => some r
      | none => sqrtLoop g x (cand y f) := by
  intro f
  induction f with
  | zero => intro g y; simp only [Nat.zero_add, sqrtLoop]; rfl
  | succ f ih =>
    intro g y
    have : f + 1 + g = (f + g) + 1 := by omega
    rw [this, sqrtLoop.eq_2, sqrtLoop.eq_2]
    by_cases h : x2y x y = true
    · simp [h]
    · simp only [h, if_false, Bool.false_eq_true]
      rw [ih, cand_succ]

/-- **The unbounded loop of the code before the fix diverges exactly when the 16-step search
    fails**: no amount of fuel finds a root that 16 steps do not find. -/
theorem sqrt_diverges_iff (x y : Fp2) (hy : Reduced y) :
    (∀ fuel, sqrtLoop fuel x y = none) ↔ sqrtLoop 16 x y = none := by
  constructor
  · intro h; exact h 16
  · intro h fuel
    rw [sqrtLoop_none_iff] at h ⊢
    intro k _
    rw [cand_mod y hy k]
    exact h (k % 16) (Nat.mod_lt _ (by omega))

/-- **Bounding the loop to 16 steps loses nothing**: with any larger bound the result is the same. -/
theorem sqrt_bound_complete (x y : Fp2) (hy : Reduced y) (n : Nat) :
    sqrtLoop (16 + n) x y = sqrtLoop 16 x y := by
  rw [sqrtLoop_add]
  cases h : sqrtLoop 16 x y with
  | some r => rfl
  | none =>
    simp only
    rw [sqrt_search_periodic y hy]
    exact (sqrt_diverges_iff x y hy).mpr h n

theorem powAux_reduced : ∀ (f : Nat) (acc base : Fp2) (e : Nat), Reduced acc →
    Reduced (Fp2.powAux f acc base e) := by
  intro f
  induction f with
  | zero => intro acc base e h; simpa [Fp2.powAux] using h
  | succ f ih =>
    intro acc base e h
    unfold Fp2.powAux
    split
    · exact h
    · apply ih
      split
      · exact mul_reduced _ _
      · exact h

theorem pow_reduced (b : Fp2) (e : Nat) : Reduced (Fp2.pow b e) := powAux_reduced _ _ _ _ one_reduced

/-- `sqrtGfP2` (fixed) returns "no root" exactly on the inputs on which the old loop never ends. -/
theorem sqrtGfP2_none_iff_old_diverges (x : Fp2) :
    sqrtGfP2 x = none ↔ ∀ fuel, sqrtLoop fuel x (Fp2.pow x sqrtExp) = none :=
  (sqrt_diverges_iff x _ (pow_reduced x sqrtExp)).symm

/-- a returned root is a root. -/
theorem sqrtGfP2_sound (x r : Fp2) (h : sqrtGfP2 x = some r) : Fp2.pow r 2 = x := by
  unfold sqrtGfP2 at h
  generalize Fp2.pow x sqrtExp = y at h
  generalize (16 : Nat) = f at h
  induction f generalizing y with
  | zero => simp [sqrtLoop] at h
  | succ f ih =>
    unfold sqrtLoop at h
    by_cases hx : x2y x y = true
    · rw [if_pos hx] at h
      injection h with h; subst h
      simpa [x2y] using hx
    · rw [if_neg hx] at h
      exact ih _ h

end KeepVerif.C04
