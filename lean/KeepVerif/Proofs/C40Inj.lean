import KeepVerif.Proofs.C40Lists
/-!
# C40: `abi.encode` is injective on well-typed tuples of the types used

So a signed hash pre-image determines the field tuple: equal pre-images ⇔ equal fields.
-/
namespace KeepVerif.C40

theorem beBytes_inj : ∀ (n a b : Nat), a < 256 ^ n → b < 256 ^ n → beBytes n a = beBytes n b → a = b
  | 0, a, b, ha, hb, _ => by simp at ha hb; omega
  | n + 1, a, b, ha, hb, h => by
    simp only [beBytes] at h
    have hl : (beBytes n (a / 256)).length = (beBytes n (b / 256)).length := by
      rw [beBytes_length, beBytes_length]
    obtain ⟨h1, h2⟩ := List.append_inj h hl
    have hq : a / 256 = b / 256 := by
      apply beBytes_inj n _ _ _ _ h1
      · rw [Nat.pow_succ] at ha; exact Nat.div_lt_of_lt_mul (by omega)
      · rw [Nat.pow_succ] at hb; exact Nat.div_lt_of_lt_mul (by omega)
    have hr : a % 256 = b % 256 := by
      have h3 : UInt8.ofNat (a % 256) = UInt8.ofNat (b % 256) := by simpa using h2
      have h4 := congrArg UInt8.toNat h3
      simp only [UInt8.toNat_ofNat'] at h4
      omega
    have := Nat.div_add_mod a 256
    have := Nat.div_add_mod b 256
    omega

theorem word_inj (a b : Nat) (ha : a < 2 ^ 256) (hb : b < 2 ^ 256) (h : word a = word b) : a = b := by
  have e : (256 : Nat) ^ 32 = 2 ^ 256 := by decide
  exact beBytes_inj 32 a b (by rw [e]; exact ha) (by rw [e]; exact hb) h

-- from here on `word` stays folded
attribute [local irreducible] beBytes word

/-- words are self-delimiting: a word followed by anything -/
theorem word_prefix_inj (a b : Nat) (x y : Bytes) (ha : a < 2 ^ 256) (hb : b < 2 ^ 256)
    (h : word a ++ x = word b ++ y) : a = b ∧ x = y := by
  obtain ⟨h1, h2⟩ := List.append_inj h (by rw [word_length, word_length])
  exact ⟨word_inj a b ha hb h1, h2⟩

theorem flatMap_word_prefix_inj : ∀ (xs ys : List Nat) (x y : Bytes), xs.length = ys.length →
    (∀ a ∈ xs, a < 2 ^ 256) → (∀ a ∈ ys, a < 2 ^ 256) →
    xs.flatMap word ++ x = ys.flatMap word ++ y → xs = ys ∧ x = y
  | [], [], x, y, _, _, _, h => by simpa using h
  | [], _ :: _, _, _, hl, _, _, _ => by simp at hl
  | _ :: _, [], _, _, hl, _, _, _ => by simp at hl
  | a :: xs, b :: ys, x, y, hl, hx, hy, h => by
    simp only [List.flatMap_cons, List.append_assoc] at h
    obtain ⟨hab, hrest⟩ := word_prefix_inj a b _ _ (hx a (by simp)) (hy b (by simp)) h
    obtain ⟨hxs, hxy⟩ := flatMap_word_prefix_inj xs ys x y (by simpa using hl)
      (fun c hc => hx c (by simp [hc])) (fun c hc => hy c (by simp [hc])) hrest
    exact ⟨by rw [hab, hxs], hxy⟩

theorem padRight32_prefix_inj (b1 b2 x y : Bytes) (hl : b1.length = b2.length)
    (h : padRight32 b1 ++ x = padRight32 b2 ++ y) : b1 = b2 ∧ x = y := by
  unfold padRight32 at h
  rw [hl] at h
  simp only [List.append_assoc] at h
  obtain ⟨h1, h2⟩ := List.append_inj h hl
  obtain ⟨_, h3⟩ := List.append_inj h2 rfl
  exact ⟨h1, h3⟩

/-- the values the injectivity theorem speaks about: lengths fit a word, integer types ≤ 256 bits -/
def Ty.ok : Ty → Prop
  | .uint b => b ≤ 256
  | .uintArr b => b ≤ 256
  | _ => True

def Val.lenOk : Val → Prop
  | .bytes bs => bs.length < 2 ^ 256
  | .arr xs => xs.length < 2 ^ 256
  | _ => True

theorem pow_le_256 {b : Nat} (h : b ≤ 256) : 2 ^ b ≤ 2 ^ 256 := Nat.pow_le_pow_right (by omega) h

theorem encVal_uint_inv {b : Nat} {v : Val} {e : Bytes} (h : encVal (.uint b) v = some e) :
    ∃ n, v = .num n ∧ n < 2 ^ b ∧ e = word n := by
  cases v with
  | num n =>
    simp only [encVal] at h
    split at h
    · rename_i hn; cases h; exact ⟨n, rfl, hn, rfl⟩
    · cases h
  | bool _ => simp [encVal] at h
  | bytes _ => simp [encVal] at h
  | arr _ => simp [encVal] at h

theorem encVal_address_inv {v : Val} {e : Bytes} (h : encVal .address v = some e) :
    ∃ n, v = .num n ∧ n < 2 ^ 160 ∧ e = word n := by
  cases v with
  | num n =>
    simp only [encVal] at h
    split at h
    · rename_i hn; cases h; exact ⟨n, rfl, hn, rfl⟩
    · cases h
  | bool _ => simp [encVal] at h
  | bytes _ => simp [encVal] at h
  | arr _ => simp [encVal] at h

theorem encVal_bool_inv {v : Val} {e : Bytes} (h : encVal .bool v = some e) :
    ∃ b, v = .bool b ∧ e = word (if b then 1 else 0) := by
  cases v with
  | bool b => simp only [encVal] at h; cases h; exact ⟨b, rfl, rfl⟩
  | num _ => simp [encVal] at h
  | bytes _ => simp [encVal] at h
  | arr _ => simp [encVal] at h

theorem encVal_bytes32_inv {v : Val} {e : Bytes} (h : encVal .bytes32 v = some e) :
    ∃ bs, v = .bytes bs ∧ bs.length = 32 ∧ e = bs := by
  cases v with
  | bytes bs =>
    simp only [encVal] at h
    split at h
    · rename_i hn; injection h with h; exact ⟨bs, rfl, hn, h.symm⟩
    · cases h
  | num _ => simp [encVal] at h
  | bool _ => simp [encVal] at h
  | arr _ => simp [encVal] at h

theorem encVal_bytes_inv {v : Val} {e : Bytes} (h : encVal .bytes v = some e) :
    ∃ bs, v = .bytes bs ∧ e = word bs.length ++ padRight32 bs := by
  cases v with
  | bytes bs => simp only [encVal] at h; cases h; exact ⟨bs, rfl, rfl⟩
  | num _ => simp [encVal] at h
  | bool _ => simp [encVal] at h
  | arr _ => simp [encVal] at h

theorem encVal_arr_inv {b : Nat} {v : Val} {e : Bytes} (h : encVal (.uintArr b) v = some e) :
    ∃ xs, v = .arr xs ∧ (∀ a ∈ xs, a < 2 ^ b) ∧ e = word xs.length ++ xs.flatMap word := by
  cases v with
  | arr xs =>
    simp only [encVal] at h
    split at h
    · rename_i hn
      cases h
      simp only [List.all_eq_true, decide_eq_true_eq] at hn
      exact ⟨xs, rfl, hn, rfl⟩
    · cases h
  | num _ => simp [encVal] at h
  | bool _ => simp [encVal] at h
  | bytes _ => simp [encVal] at h

/-- one value: every encoding is self-delimiting — the encoding followed by anything determines
    the value and the rest -/
theorem encVal_prefix_inj (t : Ty) (v v' : Val) (e e' x y : Bytes) (ht : t.ok)
    (hv : v.lenOk) (hv' : v'.lenOk)
    (he : encVal t v = some e) (he' : encVal t v' = some e') (h : e ++ x = e' ++ y) :
    v = v' ∧ x = y := by
  cases t with
  | uint b =>
    obtain ⟨n, rfl, hn, rfl⟩ := encVal_uint_inv he
    obtain ⟨n', rfl, hn', rfl⟩ := encVal_uint_inv he'
    have hp := pow_le_256 ht
    obtain ⟨hnn, hxy⟩ := word_prefix_inj n n' x y (by omega) (by omega) h
    exact ⟨by rw [hnn], hxy⟩
  | address =>
    obtain ⟨n, rfl, hn, rfl⟩ := encVal_address_inv he
    obtain ⟨n', rfl, hn', rfl⟩ := encVal_address_inv he'
    have hp : (2 : Nat) ^ 160 ≤ 2 ^ 256 := Nat.pow_le_pow_right (by omega) (by omega)
    obtain ⟨hnn, hxy⟩ := word_prefix_inj n n' x y (by omega) (by omega) h
    exact ⟨by rw [hnn], hxy⟩
  | bool =>
    obtain ⟨b, rfl, rfl⟩ := encVal_bool_inv he
    obtain ⟨b', rfl, rfl⟩ := encVal_bool_inv he'
    have h1 : (1 : Nat) < 2 ^ 256 := Nat.one_lt_two_pow (by omega)
    obtain ⟨hnn, hxy⟩ := word_prefix_inj _ _ x y
      (by cases b <;> simp <;> omega) (by cases b' <;> simp <;> omega) h
    refine ⟨?_, hxy⟩
    cases b <;> cases b' <;> simp at hnn ⊢
  | bytes32 =>
    obtain ⟨bs, rfl, hl, rfl⟩ := encVal_bytes32_inv he
    obtain ⟨bs', rfl, hl', rfl⟩ := encVal_bytes32_inv he'
    obtain ⟨hb, hxy⟩ := List.append_inj h (by rw [hl, hl'])
    exact ⟨by rw [hb], hxy⟩
  | bytes =>
    obtain ⟨bs, rfl, rfl⟩ := encVal_bytes_inv he
    obtain ⟨bs', rfl, rfl⟩ := encVal_bytes_inv he'
    simp only [List.append_assoc] at h
    obtain ⟨hl, hrest⟩ := word_prefix_inj _ _ _ _ hv hv' h
    obtain ⟨hb, hxy⟩ := padRight32_prefix_inj bs bs' x y hl hrest
    exact ⟨by rw [hb], hxy⟩
  | uintArr b =>
    obtain ⟨xs, rfl, h1, rfl⟩ := encVal_arr_inv he
    obtain ⟨xs', rfl, h2, rfl⟩ := encVal_arr_inv he'
    have hp := pow_le_256 ht
    simp only [List.append_assoc] at h
    obtain ⟨hl, hrest⟩ := word_prefix_inj _ _ _ _ hv hv' h
    obtain ⟨hxs, hxy⟩ := flatMap_word_prefix_inj xs xs' x y hl
      (fun a ha => by have := h1 a ha; omega) (fun a ha => by have := h2 a ha; omega) hrest
    exact ⟨by rw [hxs], hxy⟩

theorem encVal_static_length {t : Ty} {v : Val} {e : Bytes} (ht : t.isDynamic = false)
    (h : encVal t v = some e) : e.length = 32 := by
  cases t with
  | uint b => obtain ⟨n, _, _, rfl⟩ := encVal_uint_inv h; exact word_length n
  | address => obtain ⟨n, _, _, rfl⟩ := encVal_address_inv h; exact word_length n
  | bool => obtain ⟨b, _, rfl⟩ := encVal_bool_inv h; exact word_length _
  | bytes32 => obtain ⟨bs, _, hl, rfl⟩ := encVal_bytes32_inv h; exact hl
  | bytes => simp [Ty.isDynamic] at ht
  | uintArr b => simp [Ty.isDynamic] at ht

theorem encodeGo_head_length (hs : Nat) : ∀ (args : List (Ty × Val)) (off : Nat) (h t : Bytes),
    encodeGo hs args off = some (h, t) → h.length = 32 * args.length
  | [], _, h, t, he => by simp only [encodeGo] at he; cases he; simp
  | (ty, v) :: rest, off, h, t, he => by
    simp only [encodeGo] at he
    split at he
    · cases he
    · rename_i e hev
      split at he
      · split at he
        · cases he
        · rename_i h1 t1 hr
          cases he
          have := encodeGo_head_length hs rest _ _ _ hr
          simp only [List.length_append, word_length, this, List.length_cons]; omega
      · rename_i hdyn
        split at he
        · cases he
        · rename_i h1 t1 hr
          cases he
          have := encodeGo_head_length hs rest _ _ _ hr
          have hl := encVal_static_length (by simpa using hdyn) hev
          simp only [List.length_append, hl, this, List.length_cons]; omega

/-- heads and tails determine the values -/
theorem encodeGo_inj (hs : Nat) : ∀ (ts : List Ty) (vs vs' : List Val) (off : Nat)
    (h t h' t' x y : Bytes),
    (∀ ty ∈ ts, ty.ok) → (∀ v ∈ vs, v.lenOk) → (∀ v ∈ vs', v.lenOk) →
    vs.length = ts.length → vs'.length = ts.length →
    encodeGo hs (ts.zip vs) off = some (h, t) → encodeGo hs (ts.zip vs') off = some (h', t') →
    h = h' → t ++ x = t' ++ y → vs = vs' ∧ x = y
  | [], [], [], _, _, _, _, _, _, _, _, _, _, _, _, he, he', _, htl => by
    simp only [List.zip_nil_left, encodeGo] at he he'
    cases he; cases he'
    exact ⟨rfl, by simpa using htl⟩
  | [], _ :: _, _, _, _, _, _, _, _, _, _, _, _, hl, _, _, _, _, _ => by simp at hl
  | [], [], _ :: _, _, _, _, _, _, _, _, _, _, _, _, hl, _, _, _, _ => by simp at hl
  | _ :: _, [], _, _, _, _, _, _, _, _, _, _, _, hl, _, _, _, _, _ => by simp at hl
  | _ :: _, _ :: _, [], _, _, _, _, _, _, _, _, _, _, _, hl, _, _, _, _ => by simp at hl
  | ty :: ts, v :: vs, v' :: vs', off, h, t, h', t', x, y, hts, hvs, hvs', hl, hl', he, he', hh, htl => by
    simp only [List.zip_cons_cons, encodeGo] at he he'
    split at he
    · cases he
    · rename_i e hev
      split at he'
      · cases he'
      · rename_i e' hev'
        have hty := hts ty (by simp)
        have hv := hvs v (by simp)
        have hv' := hvs' v' (by simp)
        by_cases hdyn : ty.isDynamic = true
        · simp only [hdyn, if_true] at he he'
          cases hr : encodeGo hs (ts.zip vs) (off + e.length) with
          | none => simp [hr] at he
          | some p =>
            cases hr' : encodeGo hs (ts.zip vs') (off + e'.length) with
            | none => simp [hr'] at he'
            | some p' =>
              obtain ⟨h1, t1⟩ := p
              obtain ⟨h1', t1'⟩ := p'
              simp only [hr, hr', Option.some.injEq, Prod.mk.injEq] at he he'
              obtain ⟨e1, e2⟩ := he
              obtain ⟨e1', e2'⟩ := he'
              subst e1 e2 e1' e2'
              have hh1 : h1 = h1' := List.append_cancel_left hh
              simp only [List.append_assoc] at htl
              obtain ⟨hvv, hrest⟩ := encVal_prefix_inj ty v v' e e' _ _ hty hv hv' hev hev' htl
              subst hvv
              rw [hev] at hev'
              cases hev'
              obtain ⟨hvs2, hxy⟩ := encodeGo_inj hs ts vs vs' _ _ _ _ _ x y
                (fun a ha => hts a (by simp [ha])) (fun a ha => hvs a (by simp [ha]))
                (fun a ha => hvs' a (by simp [ha])) (by simpa using hl) (by simpa using hl')
                hr hr' hh1 hrest
              exact ⟨by rw [hvs2], hxy⟩
        · simp only [hdyn] at he he'
          cases hr : encodeGo hs (ts.zip vs) off with
          | none => simp [hr] at he
          | some p =>
            cases hr' : encodeGo hs (ts.zip vs') off with
            | none => simp [hr'] at he'
            | some p' =>
              obtain ⟨h1, t1⟩ := p
              obtain ⟨h1', t1'⟩ := p'
              simp only [hr, hr'] at he he'
              obtain ⟨e1, e2⟩ := he
              obtain ⟨e1', e2'⟩ := he'
              obtain ⟨hvv, hh1⟩ := encVal_prefix_inj ty v v' e e' _ _ hty hv hv' hev hev' hh
              subst hvv
              obtain ⟨hvs2, hxy⟩ := encodeGo_inj hs ts vs vs' _ _ _ _ _ x y
                (fun a ha => hts a (by simp [ha])) (fun a ha => hvs a (by simp [ha]))
                (fun a ha => hvs' a (by simp [ha])) (by simpa using hl) (by simpa using hl')
                hr hr' hh1 htl
              exact ⟨by rw [hvs2], hxy⟩

/-- **`abi.encode` is injective** on value tuples of one type list (integer types up to 256
    bits, byte strings and arrays shorter than `2^256`): equal encodings ⇒ equal tuples. -/
theorem encode_inj (ts : List Ty) (vs vs' : List Val) (b : Bytes)
    (hts : ∀ ty ∈ ts, ty.ok) (hvs : ∀ v ∈ vs, v.lenOk) (hvs' : ∀ v ∈ vs', v.lenOk)
    (hl : vs.length = ts.length) (hl' : vs'.length = ts.length)
    (he : encode (ts.zip vs) = some b) (he' : encode (ts.zip vs') = some b) : vs = vs' := by
  unfold encode at he he'
  have hzl : (ts.zip vs).length = (ts.zip vs').length := by simp [hl, hl']
  rw [← hzl] at he'
  cases h1 : encodeGo (32 * (ts.zip vs).length) (ts.zip vs) 0 with
  | none => rw [h1] at he; cases he
  | some p =>
    cases h2 : encodeGo (32 * (ts.zip vs).length) (ts.zip vs') 0 with
    | none => rw [h2] at he'; cases he'
    | some p' =>
      obtain ⟨h, t⟩ := p
      obtain ⟨h', t'⟩ := p'
      rw [h1] at he; rw [h2] at he'
      simp only [Option.map_some, Option.some.injEq] at he he'
      have hlen : h.length = h'.length := by
        rw [encodeGo_head_length _ _ _ _ _ h1, encodeGo_head_length _ _ _ _ _ h2, hzl]
      obtain ⟨hh, ht⟩ := List.append_inj (he.trans he'.symm) hlen
      exact (encodeGo_inj _ ts vs vs' 0 h t h' t' [] [] hts hvs hvs' hl hl' h1 h2 hh (by simpa using ht)).1

end KeepVerif.C40
