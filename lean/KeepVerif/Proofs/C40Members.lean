import KeepVerif.Proofs.C40Lists
/-!
# C40: the client's operating-members list equals the contract's `groupMembers`
-/
namespace KeepVerif.C40

theorem strict_nodup {l : List Nat} (h : l.Pairwise (· < ·)) : l.Nodup :=
  h.imp (fun hab => Nat.ne_of_lt hab)

/-- `operating` and `mis` (in any order) split the member indexes `1..n` -/
def IsPartition (n : Nat) (operating mis : List Nat) : Prop :=
  (operating ++ mis).Perm (List.range' 1 n)

theorem IsPartition.mem_operating {n : Nat} {operating mis : List Nat} (h : IsPartition n operating mis)
    (a : Nat) : a ∈ operating ↔ (1 ≤ a ∧ a ≤ n) ∧ a ∉ mis := by
  have hmem : ∀ b, b ∈ operating ++ mis ↔ b ∈ List.range' 1 n := fun b => h.mem_iff
  have hnd : (operating ++ mis).Nodup := h.nodup_iff.2 (strict_nodup (range'_strict 1 n))
  have hdis := (List.nodup_append.1 hnd).2.2
  constructor
  · intro ha
    have := (hmem a).1 (by simp [ha])
    rw [List.mem_range'_1] at this
    exact ⟨by omega, fun hm => hdis a ha a hm rfl⟩
  · rintro ⟨hr, hn⟩
    have := (hmem a).2 (by rw [List.mem_range'_1]; omega)
    simp only [List.mem_append] at this
    rcases this with h | h
    · exact h
    · exact absurd h hn

theorem IsPartition.mem_mis {n : Nat} {operating mis : List Nat} (h : IsPartition n operating mis)
    (a : Nat) (ha : a ∈ mis) : 1 ≤ a ∧ a ≤ n := by
  have := (h.mem_iff (a := a)).1 (by simp [ha])
  rw [List.mem_range'_1] at this
  omega

theorem IsPartition.nodup_operating {n : Nat} {operating mis : List Nat} (h : IsPartition n operating mis) :
    operating.Nodup :=
  (List.nodup_append.1 (h.nodup_iff.2 (strict_nodup (range'_strict 1 n)))).1

theorem IsPartition.nodup_mis {n : Nat} {operating mis : List Nat} (h : IsPartition n operating mis) :
    mis.Nodup :=
  (List.nodup_append.1 (h.nodup_iff.2 (strict_nodup (range'_strict 1 n)))).2.1

theorem IsPartition.length {n : Nat} {operating mis : List Nat} (h : IsPartition n operating mis) :
    operating.length + mis.length = n := by
  have := h.length_eq
  simpa using this

/-- the sorted operating indexes are the positions that are not misbehaved -/
theorem sorted_operating_eq {n : Nat} {operating mis : List Nat} (h : IsPartition n operating mis) :
    sortNat operating = (List.range' 1 n).filter (fun j => !((sortNat mis).contains j)) := by
  apply strict_unique (sortNat_strict h.nodup_operating) ((range'_strict 1 n).filter _)
  intro a
  rw [mem_sortNat, h.mem_operating, List.mem_filter, List.mem_range'_1]
  have hc : (!(sortNat mis).contains a) = true ↔ a ∉ mis := by
    simp [mem_sortNat]
  rw [hc]
  constructor
  · rintro ⟨h1, h2⟩; exact ⟨by omega, h2⟩
  · rintro ⟨h1, h2⟩; exact ⟨by omega, h2⟩

theorem operatingIDs_ok (ids : List Nat) (hN : ids.length ≤ 255) :
    ∀ (l : List Nat), (∀ j ∈ l, 1 ≤ j ∧ j ≤ ids.length) →
      operatingIDs ids l = .ok (l.map (fun j => ids.getD (j - 1) 0))
  | [], _ => rfl
  | j :: l, h => by
    have hj := h j (by simp)
    have hk : (j + 255) % 256 = j - 1 := by omega
    have hlt : j - 1 < ids.length := by omega
    simp only [operatingIDs, operatorAt, hk]
    rw [List.getElem?_eq_getElem hlt]
    simp only [operatingIDs_ok ids hN l (fun a ha => h a (by simp [ha])), List.map_cons]
    congr 2
    simp [List.getD, List.getElem?_eq_getElem hlt]

/-- **Core of `members_hash_matches`.** For every partition of `1..N` (lists in any order) the
    list the client hashes (`OperatorsIDs[i-1]` over the sorted operating indexes) is exactly the
    array `groupMembers` the contract builds by skipping the sorted misbehaved positions. -/
theorem contract_members_eq_client (ids operating mis : List Nat) (hN : ids.length ≤ 255)
    (hp : IsPartition ids.length operating mis) :
    ∃ opIds, operatingIDs ids (sortNat operating) = .ok opIds ∧
      contractGroupMembers ids (sortNat mis) = some opIds ∧ opIds.length = operating.length := by
  have hop : ∀ j ∈ sortNat operating, 1 ≤ j ∧ j ≤ ids.length := by
    intro j hj
    rw [mem_sortNat, hp.mem_operating] at hj
    exact hj.1
  refine ⟨_, operatingIDs_ok ids hN _ hop, ?_, by simp [sortNat_length]⟩
  have hkeep : keepFrom 0 ids (sortNat mis) = (sortNat operating).map (fun j => ids.getD (j - 1) 0) := by
    rw [keepFrom_eq_map, sorted_operating_eq hp]
  have hstrict := sortNat_strict hp.nodup_mis
  cases hm : sortNat mis with
  | nil =>
    rw [hm] at hkeep
    rw [← hkeep, keepFrom_none 0 ids [] (by simp)]
    rfl
  | cons c rest =>
    rw [hm] at hkeep hstrict
    have hc : 1 ≤ c := (hp.mem_mis c (mem_sortNat.1 (by rw [hm]; simp))).1
    have hlen : (c :: rest).length = mis.length := by rw [← hm, sortNat_length]
    have hsum := hp.length
    simp only [List.length_cons] at hlen
    have hout : ((sortNat operating).map (fun j => ids.getD (j - 1) 0)).length = ids.length - (c :: rest).length := by
      simp only [List.length_map, sortNat_length, List.length_cons]; omega
    simp only [contractGroupMembers]
    rw [removeLoop_spec 0 ids c rest hstrict hc, hkeep]
    have h1 : ¬ ids.length < (c :: rest).length := by simp only [List.length_cons]; omega
    simp only [h1, if_false, hout, Nat.lt_irrefl, Nat.sub_self, List.replicate_zero, List.append_nil]

end KeepVerif.C40
