import KeepVerif.Model.C40
/-!
# C40 helper lemmas: sorting, strictly increasing lists, the `validateMembersHash` loop
-/
namespace KeepVerif.C40

theorem beBytes_length (n v : Nat) : (beBytes n v).length = n := by
  induction n generalizing v with
  | zero => simp [beBytes]
  | succ n ih => simp [beBytes, ih]

theorem word_length (v : Nat) : (word v).length = 32 := beBytes_length 32 v

theorem marshalCropped_length (x y : Nat) : (marshalCropped x y).length = 64 := by
  simp [marshalCropped, beBytes_length]

-- from here on the byte-level definitions are opaque to unification (the only property the
-- proofs use is the length)
attribute [local irreducible] beBytes word

/-! ### sorting -/

theorem sortNat_perm (xs : List Nat) : (sortNat xs).Perm xs := List.mergeSort_perm _ _

theorem mem_sortNat {a : Nat} {xs : List Nat} : a ∈ sortNat xs ↔ a ∈ xs := (sortNat_perm xs).mem_iff

theorem sortNat_length (xs : List Nat) : (sortNat xs).length = xs.length := (sortNat_perm xs).length_eq

theorem sortNat_sorted (xs : List Nat) : (sortNat xs).Pairwise (· ≤ ·) := by
  have h := List.pairwise_mergeSort (le := fun a b : Nat => decide (a ≤ b))
    (by intro a b c; simp only [decide_eq_true_eq]; omega)
    (by intro a b; simp only [Bool.or_eq_true, decide_eq_true_eq]; omega) xs
  exact h.imp (by intro a b hab; simpa using hab)

theorem sortNat_strict {xs : List Nat} (h : xs.Nodup) : (sortNat xs).Pairwise (· < ·) := by
  have h1 := sortNat_sorted xs
  have h2 : (sortNat xs).Nodup := (sortNat_perm xs).nodup_iff.2 h
  have := h1.and h2
  exact this.imp (by intro a b hab; omega)

/-- a strictly increasing list is determined by its elements -/
theorem strict_unique : ∀ {l₁ l₂ : List Nat}, l₁.Pairwise (· < ·) → l₂.Pairwise (· < ·) →
    (∀ a, a ∈ l₁ ↔ a ∈ l₂) → l₁ = l₂
  | [], [], _, _, _ => rfl
  | [], b :: _, _, _, h => by have := (h b).2 (by simp); simp at this
  | a :: _, [], _, _, h => by have := (h a).1 (by simp); simp at this
  | a :: l₁, b :: l₂, h₁, h₂, h => by
    rw [List.pairwise_cons] at h₁ h₂
    have hab : a = b := by
      have ha := (h a).1 (by simp)
      have hb := (h b).2 (by simp)
      simp only [List.mem_cons] at ha hb
      rcases ha with ha | ha
      · exact ha
      · rcases hb with hb | hb
        · exact hb.symm
        · have := h₂.1 a ha; have := h₁.1 b hb; omega
    subst hab
    congr 1
    apply strict_unique h₁.2 h₂.2
    intro c
    constructor
    · intro hc
      have := (h c).1 (by simp [hc])
      simp only [List.mem_cons] at this
      rcases this with rfl | this
      · have := h₁.1 c hc; omega
      · exact this
    · intro hc
      have := (h c).2 (by simp [hc])
      simp only [List.mem_cons] at this
      rcases this with rfl | this
      · have := h₂.1 c hc; omega
      · exact this

theorem chainLt_of_strict : ∀ {l : List Nat}, l.Pairwise (· < ·) → chainLt l = true
  | [], _ => rfl
  | [_], _ => rfl
  | a :: b :: rest, h => by
    rw [List.pairwise_cons] at h
    simp only [chainLt, Bool.and_eq_true, decide_eq_true_eq]
    exact ⟨h.1 b (by simp), chainLt_of_strict h.2⟩

theorem strict_of_chainLt : ∀ {l : List Nat}, chainLt l = true → l.Pairwise (· < ·)
  | [], _ => List.Pairwise.nil
  | [_], _ => by simp
  | a :: b :: rest, h => by
    simp only [chainLt, Bool.and_eq_true, decide_eq_true_eq] at h
    have ih := strict_of_chainLt h.2
    rw [List.pairwise_cons]
    refine ⟨?_, ih⟩
    intro c hc
    simp only [List.mem_cons] at hc
    rcases hc with rfl | hc
    · exact h.1
    · rw [List.pairwise_cons] at ih
      have := ih.1 c hc; omega

theorem range'_strict (s n : Nat) : (List.range' s n).Pairwise (· < ·) := by
  induction n generalizing s with
  | zero => simp
  | succ n ih =>
    rw [List.range'_succ, List.pairwise_cons]
    refine ⟨?_, ih (s + 1)⟩
    intro a ha
    rw [List.mem_range'_1] at ha
    omega

/-! ### the loop of `validateMembersHash` -/

/-- specification: the members whose (1-based) position is not listed -/
def keepFrom : Nat → List Nat → List Nat → List Nat
  | _, [], _ => []
  | i, m :: ms, bad => if (i + 1) ∈ bad then keepFrom (i + 1) ms bad else m :: keepFrom (i + 1) ms bad

theorem keepFrom_none (i : Nat) (ms bad : List Nat) (h : ∀ b ∈ bad, b < i + 1) :
    keepFrom i ms bad = ms := by
  induction ms generalizing i with
  | nil => rfl
  | cons m ms ih =>
    have hn : ¬ (i + 1) ∈ bad := fun hm => by have := h _ hm; omega
    simp only [keepFrom, hn, if_false]
    rw [ih (i + 1) (fun b hb => by have := h b hb; omega)]

theorem keepFrom_drop_small (i : Nat) (ms : List Nat) (c : Nat) (bad : List Nat) (h : c < i + 1) :
    keepFrom i ms (c :: bad) = keepFrom i ms bad := by
  induction ms generalizing i with
  | nil => rfl
  | cons m ms ih =>
    have hne : i + 1 ≠ c := by omega
    simp only [keepFrom, List.mem_cons, hne, false_or]
    rw [ih (i + 1) (by omega)]

/-- once the pointer is stuck on the last (already passed) index nothing is removed any more -/
theorem removeLoop_exhausted (i : Nat) (ms : List Nat) (cur : Nat) (h0 : 0 < cur) (h : cur < i + 1) :
    removeLoop i ms cur [] = some ms := by
  induction ms generalizing i with
  | nil => simp [removeLoop]
  | cons m ms ih =>
    have hc0 : cur ≠ 0 := by omega
    have hne : i ≠ cur - 1 := by omega
    simp only [removeLoop, hc0, if_false, ne_eq, hne, not_false_eq_true, if_true]
    rw [ih (i + 1) (by omega)]
    rfl

/-- the contract loop computes `keepFrom` as long as the index under the pointer is ahead -/
theorem removeLoop_spec (i : Nat) (ms : List Nat) (cur : Nat) (rest : List Nat)
    (hs : (cur :: rest).Pairwise (· < ·)) (hcur : i + 1 ≤ cur) :
    removeLoop i ms cur rest = some (keepFrom i ms (cur :: rest)) := by
  induction ms generalizing i cur rest with
  | nil => simp [removeLoop, keepFrom]
  | cons m ms ih =>
    have hc0 : cur ≠ 0 := by omega
    have hs' := hs
    rw [List.pairwise_cons] at hs'
    by_cases heq : i = cur - 1
    · -- the misbehaved position: skipped, the pointer advances if it can
      have hcur' : i + 1 = cur := by omega
      have hmem : (i + 1) ∈ cur :: rest := by simp [hcur']
      simp only [keepFrom, hmem, if_true]
      cases rest with
      | nil =>
        simp only [removeLoop, hc0, if_false, heq, ne_eq, not_true_eq_false]
        rw [removeLoop_exhausted _ _ _ (by omega) (by omega)]
        rw [keepFrom_none _ _ _ (by intro b hb; simp at hb; omega)]
      | cons c r =>
        simp only [removeLoop, hc0, if_false, heq, ne_eq, not_true_eq_false]
        have hc : cur < c := hs'.1 c (by simp)
        rw [ih (cur - 1 + 1) c r hs'.2 (by omega)]
        rw [keepFrom_drop_small _ _ cur _ (by omega)]
    · have hlt : i + 1 < cur := by omega
      have hmem : ¬ (i + 1) ∈ cur :: rest := by
        intro hm
        simp only [List.mem_cons] at hm
        rcases hm with hm | hm
        · omega
        · have := hs'.1 _ hm; omega
      simp only [keepFrom, hmem, if_false]
      simp only [removeLoop, hc0, if_false, ne_eq, heq, not_false_eq_true, if_true]
      rw [ih (i + 1) cur rest hs (by omega)]
      rfl

/-- `keepFrom` as filter-and-index over the positions -/
theorem keepFrom_eq_map (i : Nat) (ms bad : List Nat) :
    keepFrom i ms bad =
      ((List.range' (i + 1) ms.length).filter (fun j => !(bad.contains j))).map
        (fun j => ms.getD (j - (i + 1)) 0) := by
  induction ms generalizing i with
  | nil => simp [keepFrom]
  | cons m ms ih =>
    have htail : (List.filter (fun j => !(bad.contains j)) (List.range' (i + 1 + 1) ms.length)).map
          (fun j => (m :: ms).getD (j - (i + 1)) 0) =
        (List.filter (fun j => !(bad.contains j)) (List.range' (i + 1 + 1) ms.length)).map
          (fun j => ms.getD (j - (i + 1 + 1)) 0) := by
      apply List.map_congr_left
      intro j hj
      have hj' := (List.mem_filter.1 hj).1
      rw [List.mem_range'_1] at hj'
      have : j - (i + 1) = (j - (i + 1 + 1)) + 1 := by omega
      rw [this]
      simp
    simp only [keepFrom, List.length_cons, List.range'_succ]
    by_cases hb : (i + 1) ∈ bad
    · have hc : bad.contains (i + 1) = true := by simpa using hb
      simp only [hb, if_true, List.filter_cons, hc, Bool.not_true, Bool.false_eq_true, if_false]
      rw [ih (i + 1), htail]
    · have hc : bad.contains (i + 1) = false := by simpa using hb
      simp only [hb, if_false, List.filter_cons, hc, Bool.not_false, if_true, List.map_cons]
      rw [ih (i + 1), htail]
      simp

end KeepVerif.C40
