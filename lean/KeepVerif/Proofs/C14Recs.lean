import KeepVerif.Proofs.C14Term
namespace KeepVerif.C14

/-- record `r` respects nominal entry `e` and threshold `t` -/
def recGood (r : Rec) (e t : Nat) : Prop :=
  e ≤ r.entryH ∧ ∃ h, r.initH = some h ∧ t ≤ h ∧ r.entryH ≤ h

/-- ended records against the states they belong to; `first` = the chain's first state (its
    handler is registered before the start block: no lower bound on its entry height) -/
def zipOk : Nat → Bool → List Spec → List Rec → Prop
  | _, _, _, [] => True
  | _, _, [], _ :: _ => False
  | e, first, s :: ps, r :: rs =>
    recGood r (if first then 0 else e) (e + s.delay) ∧ zipOk (e + s.delay + s.active) false ps rs

theorem zipOk_snoc (e : Nat) (first : Bool) (pre : List Spec) (done : List Rec) (cur : Spec)
    (rest : List Spec) (r : Rec) (hl : done.length = pre.length) (h : zipOk e first pre done)
    (hr : recGood r (if first && pre.isEmpty then 0 else endOf e pre) (endOf e pre + cur.delay)) :
    zipOk e first (pre ++ cur :: rest) (done ++ [r]) := by
  induction pre generalizing e first done with
  | nil =>
    cases done with
    | nil => simpa [zipOk, endOf] using hr
    | cons _ _ => simp at hl
  | cons p ps ih =>
    cases done with
    | nil => simp at hl
    | cons d ds =>
      simp only [zipOk, List.cons_append] at h ⊢
      refine ⟨h.1, ih _ false ds (by simpa using hl) h.2 ?_⟩
      simpa [endOf] using hr

theorem recOk_of_good (r : Rec) (e t : Nat) (h : recGood r e t) : recOk (obsRecOf r) e t = true := by
  obtain ⟨h1, hh, h2, h3, h4⟩ := h
  simp [recOk, obsRecOf, h1, h2, h3, h4]

theorem allZip3_of_zipOk (e : Nat) (specs : List Spec) (recs : List Rec) (h : zipOk e false specs recs) :
    allZip3 recOk (recs.map obsRecOf) (entries e specs) (thresholds e specs) = true := by
  induction specs generalizing e recs with
  | nil => cases recs <;> simp_all [zipOk, allZip3]
  | cons s ps ih =>
    cases recs with
    | nil => simp [allZip3]
    | cons r rs =>
      simp only [zipOk] at h
      simp only [List.map_cons, entries, thresholds, allZip3, Bool.and_eq_true]
      exact ⟨recOk_of_good _ _ _ (by simpa using h.1), ih _ _ h.2⟩

theorem holdsRecs_of_zipOk (start : Nat) (specs : List Spec) (recs : List Rec)
    (h : zipOk start true specs recs) : holdsRecs start specs (recs.map obsRecOf) = true := by
  unfold holdsRecs
  cases specs with
  | nil => cases recs <;> simp_all [zipOk, allZip3]
  | cons s ps =>
    cases recs with
    | nil => simp [allZip3]
    | cons r rs =>
      simp only [zipOk] at h
      simp only [List.map_cons, entries, thresholds, List.tail_cons, allZip3, Bool.and_eq_true]
      exact ⟨recOk_of_good _ _ _ (by simpa using h.1), allZip3_of_zipOk _ _ _ h.2⟩

def curEntry (start : Nat) (pre : List Spec) : Nat := if pre.isEmpty then 0 else endOf start pre

/-- the current record has been initiated, on time -/
def curInit (start : Nat) (pre : List Spec) (c : Cfg) : Prop :=
  ∃ h, c.crec.initH = some h ∧ endOf start pre + c.cur.delay ≤ h ∧ c.crec.entryH ≤ h

def needsInit : Phase → Bool
  | .waitStart _ => false
  | .waitDelay _ => false
  | _ => true

def RCore (start : Nat) (all pre : List Spec) (c : Cfg) : Prop :=
  all = pre ++ c.cur :: c.rest ∧ pre.length = c.k ∧ c.done.length = pre.length ∧
  zipOk start true pre c.done ∧ curEntry start pre ≤ c.crec.entryH ∧ c.crec.entryH ≤ c.height

def RInv (start : Nat) (all : List Spec) (c : Cfg) : Prop :=
  ∃ pre, RCore start all pre c ∧ (needsInit c.phase = true → curInit start pre c)

def ROut (start : Nat) (all pre : List Spec) (o : Out) : Prop :=
  RCore start all pre o.cfg ∧ (needsInit o.cfg.phase = true → curInit start pre o.cfg) ∧
  (∀ c w, o = .fired c w → c.height ≥ w ∧ w = endOf start pre + c.cur.delay + c.cur.active ∧
    curInit start pre c)

theorem loopStage_R {start all pre} (c : Cfg) (w : Nat) (h : RCore start all pre c)
    (hi : curInit start pre c) (hw : w = endOf start pre + c.cur.delay + c.cur.active) :
    ROut start all pre (loopStage c w) := by
  unfold loopStage
  simp only
  split
  · refine ⟨by simpa [RCore, Out.cfg] using h, fun _ => by simpa [curInit, Out.cfg] using hi, ?_⟩
    intro c' w' he
    cases he
    exact ⟨by assumption, hw, by simpa [curInit] using hi⟩
  · exact ⟨by simpa [RCore, Out.cfg] using h, fun _ => by simpa [curInit, Out.cfg] using hi, by intro _ _ he; cases he⟩

theorem afterInit_R {start all pre} (c : Cfg) (t : Nat) (h : RCore start all pre c)
    (hi : curInit start pre c) (ht : t = endOf start pre + c.cur.delay) :
    ROut start all pre (afterInit c t) := by
  unfold afterInit
  split
  · exact ⟨by simpa [RCore, Out.cfg] using h, fun _ => by simpa [curInit, Out.cfg] using hi, by intro _ _ he; cases he⟩
  · exact loopStage_R _ _ (by simpa [RCore] using h) (by simpa [curInit] using hi) (by simp [ht])

theorem initStage_R {start all pre} (c : Cfg) (t : Nat) (h : RCore start all pre c)
    (ht : t = endOf start pre + c.cur.delay) (hh : c.height ≥ t) : ROut start all pre (initStage c t) := by
  have hi : curInit start pre { c with crec := { c.crec with initH := some c.height } } :=
    ⟨c.height, rfl, by simp only; omega, h.2.2.2.2.2⟩
  unfold initStage
  simp only
  split
  · exact ⟨by simpa [RCore, Out.cfg] using h, fun _ => by simpa [curInit, Out.cfg] using hi, by intro _ _ he; cases he⟩
  · exact afterInit_R _ _ (by simpa [RCore] using h) hi ht

theorem delayStage_R {start all pre} (c : Cfg) (e : Nat) (h : RCore start all pre c)
    (he : e = endOf start pre) : ROut start all pre (delayStage c e) := by
  unfold delayStage
  simp only
  split
  · rename_i hh
    exact initStage_R _ _ (by simpa [RCore] using h) (by simp [he]) hh
  · exact ⟨by simpa [RCore, Out.cfg] using h, by simp [needsInit, Out.cfg], by intro _ _ h'; cases h'⟩

theorem pre_unique {all pre pre' : List Spec} {cur : Spec} {rest : List Spec}
    (h1 : all = pre ++ cur :: rest) (h2 : all = pre' ++ cur :: rest) : pre = pre' := by
  have := h1.symm.trans h2
  exact List.append_cancel_right this

theorem curInit_congr {start pre} (c c' : Cfg) (h : curInit start pre c)
    (h1 : c'.crec = c.crec) (h2 : c'.cur = c.cur) : curInit start pre c' := by
  unfold curInit at *
  rw [h1, h2]; exact h

theorem chain_R {start all} (rest : List Spec) (o : Out) (pre : List Spec)
    (hR : ROut start all pre o) (hrest : o.cfg.rest = rest) : RInv start all (chain rest o) := by
  induction rest generalizing o pre with
  | nil =>
    cases o with
    | quiet c => exact ⟨pre, hR.1, hR.2.1⟩
    | fired c w =>
      obtain ⟨hh, hw, hi⟩ := hR.2.2 c w rfl
      have hc : RCore start all pre c := hR.1
      simp only [chain]
      split
      · exact ⟨pre, by simpa [RCore] using hc, fun _ => curInit_congr c _ hi rfl rfl⟩
      · exact ⟨pre, by simpa [RCore] using hc, fun _ => curInit_congr c _ hi rfl rfl⟩
  | cons s rest' ih =>
    cases o with
    | quiet c => exact ⟨pre, hR.1, hR.2.1⟩
    | fired c w =>
      obtain ⟨hh, hw, hi⟩ := hR.2.2 c w rfl
      have hc : RCore start all pre c := hR.1
      simp only [Out.cfg] at hrest
      simp only [chain]
      split
      · exact ⟨pre, by simpa [RCore] using hc, fun _ => curInit_congr c _ hi rfl rfl⟩
      · obtain ⟨hall, hk, hdl, hz, hce, hch⟩ := hc
        obtain ⟨h, hih, hit, hie⟩ := hi
        have hend : endOf start (pre ++ [c.cur]) = w := by rw [endOf_append]; simp [endOf, hw]
        apply ih _ (pre ++ [c.cur]) _ (delayStage_rest _ _)
        apply delayStage_R _ _ _ hend.symm
        refine ⟨by simp [hall, hrest], by simp [hk], by simp [hdl], ?_, ?_, by simp⟩
        · have := zipOk_snoc start true pre c.done c.cur [] c.crec hdl hz
            ⟨by simpa [curEntry] using hce, h, hih, hit, hie⟩
          simpa using this
        · simp only [curEntry]
          rw [if_neg (by simp), hend]; exact hh

/-- nominal facts that `Inv` knows about the current phase, for the `pre` of `RCore` -/
theorem inv_phase {start all pre} (c : Cfg) (hI : Inv start all c) (hc : RCore start all pre c) :
    (∀ s, c.phase = .waitStart s → s = start ∧ pre = []) ∧
    (∀ t, c.phase = .waitDelay t → t = endOf start pre + c.cur.delay) ∧
    (∀ t, c.phase = .initiating t → t = endOf start pre + c.cur.delay) ∧
    (∀ w, c.phase = .loop w → w = endOf start pre + c.cur.delay + c.cur.active) := by
  obtain ⟨pre', hall', hk', hinv⟩ := hI
  have hp : pre' = pre := pre_unique hall' hc.1
  subst hp
  refine ⟨?_, ?_, ?_, ?_⟩ <;> intro x hx <;> simp only [hx, reduceCtorEq, if_false, callsAt] at hinv
  · obtain ⟨_, h⟩ := hinv; split at h
    · rename_i hs; exact hs
    · exact absurd h (by simp)
  · obtain ⟨_, h⟩ := hinv; split at h
    · assumption
    · exact absurd h (by simp)
  · obtain ⟨_, h⟩ := hinv; split at h
    · assumption
    · exact absurd h (by simp)
  · obtain ⟨_, h⟩ := hinv; split at h
    · assumption
    · exact absurd h (by simp)

theorem settle_R {start all} (c : Cfg) (hI : Inv start all c) (hR : RInv start all c) :
    RInv start all (settle c) := by
  obtain ⟨pre, hc, hi⟩ := hR
  obtain ⟨p1, p2, p3, p4⟩ := inv_phase c hI hc
  unfold settle
  split
  · rename_i s hph
    split
    · obtain ⟨hs, hpre⟩ := p1 s hph
      exact chain_R _ _ pre (delayStage_R c s hc (by simp [hs, hpre, endOf])) (delayStage_rest _ _)
    · exact ⟨pre, hc, hi⟩
  · rename_i t hph
    split
    · rename_i hh
      exact chain_R _ _ pre (initStage_R c t hc (p2 t hph) hh) (initStage_rest _ _)
    · exact ⟨pre, hc, hi⟩
  · exact ⟨pre, hc, hi⟩
  · rename_i w hph
    exact chain_R _ _ pre (loopStage_R c w hc (hi (by simp [hph, needsInit])) (p4 w hph)) (loopStage_rest _ _)
  · exact ⟨pre, hc, hi⟩

theorem rinv_congr {start all} (c c' : Cfg) (h : RInv start all c)
    (h1 : c'.phase = c.phase) (h2 : c'.cur = c.cur) (h3 : c'.rest = c.rest) (h4 : c'.k = c.k)
    (h5 : c'.done = c.done) (h6 : c'.crec = c.crec) (h7 : c.height ≤ c'.height) : RInv start all c' := by
  obtain ⟨pre, ⟨a, b, d, e, f, g⟩, hi⟩ := h
  refine ⟨pre, ⟨by rw [h2, h3]; exact a, by rw [h4]; exact b, by rw [h5]; exact d, by rw [h5]; exact e,
    by rw [h6]; exact f, by rw [h6]; omega⟩, ?_⟩
  intro hn
  rw [h1] at hn
  exact curInit_congr c c' (hi hn) h6 h2

theorem step_R {start all} (c : Cfg) (e : Ev) (hI : Inv start all c) (hR : RInv start all c) :
    RInv start all (step c e) := by
  cases e with
  | block hb =>
    exact settle_R _ (inv_congr c _ hI rfl rfl rfl rfl rfl rfl)
      (rinv_congr c _ hR rfl rfl rfl rfl rfl rfl (Nat.le_max_left _ _))
  | msg id =>
    simp only [step]
    split
    · exact rinv_congr c _ hR rfl rfl rfl rfl rfl rfl (Nat.le_refl _)
    · exact settle_R _ (inv_congr c _ hI rfl rfl rfl rfl rfl rfl)
        (rinv_congr c _ hR rfl rfl rfl rfl rfl rfl (Nat.le_refl _))
  | release =>
    simp only [step]
    split
    · rename_i t hph
      obtain ⟨pre, hc, hi⟩ := hR
      obtain ⟨_, _, p3, _⟩ := inv_phase c hI hc
      exact chain_R _ _ pre (afterInit_R c t hc (hi (by simp [hph, needsInit])) (p3 t hph)) (afterInit_rest _ _)
    · exact hR

theorem init_R (h0 start : Nat) (s : Spec) (rest : List Spec) :
    RInv start (s :: rest) (init h0 start s rest) := by
  unfold init
  apply settle_R
  · exact ⟨[], rfl, rfl, by simp [callsAt]⟩
  · exact ⟨[], ⟨rfl, rfl, rfl, by simp [zipOk], by simp [curEntry], by simp⟩, by simp [needsInit]⟩

theorem exec_R (h0 start : Nat) (s : Spec) (rest : List Spec) (evs : List Ev) :
    RInv start (s :: rest) (exec h0 start s rest evs) := by
  have key : ∀ (evs : List Ev) (c : Cfg), Inv start (s :: rest) c → RInv start (s :: rest) c →
      Inv start (s :: rest) (evs.foldl step c) ∧ RInv start (s :: rest) (evs.foldl step c) := by
    intro evs
    induction evs with
    | nil => intro c a b; exact ⟨a, b⟩
    | cons e r ih => intro c a b; exact ih _ (step_inv c e a) (step_R c e a b)
  exact (key evs _ (init_inv h0 start s rest) (init_R h0 start s rest)).2

theorem drain_R {start all} (n : Nat) (c : Cfg) (hI : Inv start all c) (hR : RInv start all c) :
    RInv start all (drain n c) := by
  induction n generalizing c with
  | zero => exact hR
  | succ n ih =>
    simp only [drain]
    have hb : Inv start all (drainStep c) ∧ RInv start all (drainStep c) := by
      unfold drainStep
      split
      · exact ⟨hI, hR⟩
      all_goals exact ⟨step_inv _ _ hI, step_R _ _ hI hR⟩
    exact ih _ hb.1 hb.2

theorem run_R (h0 start : Nat) (s : Spec) (rest : List Spec) (evs : List Ev) :
    RInv start (s :: rest) (run h0 start s rest evs) :=
  drain_R _ _ (exec_inv h0 start s rest evs) (exec_R h0 start s rest evs)

/-- a normal end is reached in the last state of the chain only -/
def FinalLast (c : Cfg) : Prop := ∀ k e, c.res = .final k e → c.rest = []

theorem stages_finalLast (c : Cfg) (x : Nat) (h : FinalLast c) :
    FinalLast (delayStage c x).cfg ∧ FinalLast (initStage c x).cfg ∧ FinalLast (afterInit c x).cfg ∧
    FinalLast (loopStage c x).cfg := by
  unfold delayStage initStage afterInit loopStage FinalLast at *
  simp only
  refine ⟨?_, ?_, ?_, ?_⟩ <;> (repeat' split) <;> simp_all [Out.cfg] <;> (try (intro k e hke; exact h k e hke))

theorem chain_finalLast (rest : List Spec) (o : Out) (h : FinalLast o.cfg) (hrest : o.cfg.rest = rest) :
    FinalLast (chain rest o) := by
  induction rest generalizing o with
  | nil =>
    cases o with
    | quiet c => simpa [chain, Out.cfg] using h
    | fired c w =>
      simp only [Out.cfg] at hrest
      simp only [chain]; split <;> simp_all [FinalLast]
  | cons s rest' ih =>
    cases o with
    | quiet c => simpa [chain, Out.cfg] using h
    | fired c w =>
      simp only [Out.cfg] at hrest h
      simp only [chain]
      split
      · simp [FinalLast]
      · apply ih _ _ (delayStage_rest _ _)
        apply (stages_finalLast _ w _).1
        intro k e hke
        have := h k e hke
        simp [hrest] at this

theorem settle_finalLast (c : Cfg) (h : FinalLast c) : FinalLast (settle c) := by
  unfold settle
  split
  · split
    · exact chain_finalLast _ _ (stages_finalLast c _ h).1 (delayStage_rest _ _)
    · exact h
  · split
    · exact chain_finalLast _ _ (stages_finalLast c _ h).2.1 (initStage_rest _ _)
    · exact h
  · exact h
  · exact chain_finalLast _ _ (stages_finalLast c _ h).2.2.2 (loopStage_rest _ _)
  · exact h

theorem step_finalLast (c : Cfg) (e : Ev) (h : FinalLast c) : FinalLast (step c e) := by
  cases e with
  | block hb => exact settle_finalLast _ (by simpa [FinalLast] using h)
  | msg id =>
    simp only [step]
    split
    · simpa [FinalLast] using h
    · exact settle_finalLast _ (by simpa [FinalLast] using h)
  | release =>
    simp only [step]
    split
    · exact chain_finalLast _ _ (stages_finalLast c _ h).2.2.1 (afterInit_rest _ _)
    · exact h

theorem run_finalLast (h0 start : Nat) (s : Spec) (rest : List Spec) (evs : List Ev) :
    FinalLast (run h0 start s rest evs) := by
  have h : FinalLast (init h0 start s rest) := settle_finalLast _ (by simp [FinalLast])
  have key : ∀ (evs : List Ev) (c : Cfg), FinalLast c → FinalLast (evs.foldl step c) := by
    intro evs; induction evs with
    | nil => intro c a; exact a
    | cons e r ih => intro c a; exact ih _ (step_finalLast c e a)
  have hd : ∀ (n : Nat) (c : Cfg), FinalLast c → FinalLast (drain n c) := by
    intro n; induction n with
    | zero => intro c a; exact a
    | succ n ih =>
      intro c a
      apply ih
      unfold drainStep
      split <;> first | exact a | exact step_finalLast _ _ a
  exact hd _ _ (key evs _ h)

theorem holdsFinal_obsOf (c : Cfg) (specs : List Spec)
    (h : ∀ k e, c.res = .final k e → (c.done ++ [c.crec]).length = specs.length) :
    holdsFinal specs (obsOf c) = true := by
  unfold holdsFinal obsOf
  simp only
  cases hr : c.res with
  | final k e => have := h k e hr; simp at this; simp [this]
  | running => rfl
  | errInitiate => rfl
  | errNext => rfl

/-- **holds_model**: the monitor the driver evaluates accepts every run of the model — for every
    chain, every initial height and start block, every event list (block timings, message
    deliveries, `Initiate` durations), without hypotheses.  Correspondence on the observation
    lines plus this theorem transfer the property from the model to the implementation. -/
theorem holds_model (h0 start : Nat) (s : Spec) (rest : List Spec) (evs : List Ev) :
    holds start (s :: rest) evs (obsOf (run h0 start s rest evs)) = true := by
  obtain ⟨hfin, hres⟩ := run_finishes h0 start s rest evs
  obtain ⟨pre, ⟨hall, hk, hdl, hz, hce, _⟩, hi⟩ := run_R h0 start s rest evs
  have hsched := holdsSched_model h0 start s rest evs
  have hmsgs := holdsMsgs_model h0 start s rest evs
  have hfinal := run_finalLast h0 start s rest evs
  generalize run h0 start s rest evs = c at *
  obtain ⟨h, hih, hit, hie⟩ := hi (by simp [hfin, needsInit])
  unfold holds
  simp only [Bool.and_eq_true]
  refine ⟨⟨⟨by simpa [obsOf] using hsched, ?_⟩, ?_⟩, ?_⟩
  · -- a normal end has executed every state
    have hlen : ∀ k e, c.res = .final k e → (c.done ++ [c.crec]).length = (s :: rest).length := by
      intro k e heq
      have hke := hfinal k e heq
      have hl := congrArg List.length hall
      rw [hke] at hl
      simp only [List.length_cons, List.length_append, List.length_nil] at hl ⊢
      omega
    exact holdsFinal_obsOf c (s :: rest) hlen
  · have hzz := zipOk_snoc start true pre c.done c.cur c.rest c.crec hdl hz
      ⟨by simpa [curEntry] using hce, h, hih, hit, hie⟩
    rw [← hall] at hzz
    simpa [obsOf] using holdsRecs_of_zipOk start (s :: rest) _ hzz
  · have : ((obsOf c).recs.map (·.msgs)).flatten = handed c := by
      simp [obsOf, handed, obsRecOf, List.map_map, Function.comp_def]
    rw [this]
    simpa [obsOf] using hmsgs

end KeepVerif.C14
