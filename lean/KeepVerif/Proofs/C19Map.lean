import KeepVerif.Model.C19
import KeepVerif.Proofs.C19Flat
/-!
# C19: map fields — the decoded map does not depend on the order of the entries on the wire

Go's `proto.Marshal` emits map entries in random order. `toMap` (the fold that builds the Go map,
kept sorted by key) applied to *any permutation* of a strictly key-sorted entry list returns that
list; hence `decode (encode_any_order v) = ok v`.
-/
namespace KeepVerif.C19

variable {α : Type}

theorem mapInsert_comm (k1 k2 : Nat) (v1 v2 : α) (h : k1 ≠ k2) (m : List (Nat × α)) :
    mapInsert k1 v1 (mapInsert k2 v2 m) = mapInsert k2 v2 (mapInsert k1 v1 m) := by
  induction m with
  | nil =>
    rcases Nat.lt_or_gt_of_ne h with c | c
    · have c' : ¬ k2 < k1 := by omega
      have e : ¬ k2 = k1 := by omega
      simp [mapInsert, c, c', h, e]
    · have c' : ¬ k1 < k2 := by omega
      have e : ¬ k2 = k1 := by omega
      simp [mapInsert, c, c', h, e]
  | cons x r ih =>
    rcases x with ⟨k, v⟩
    have e : ¬ k2 = k1 := fun e => h e.symm
    rcases Nat.lt_trichotomy k1 k with a | a | a <;> rcases Nat.lt_trichotomy k2 k with b | b | b <;>
      rcases Nat.lt_or_gt_of_ne h with c | c
    all_goals
      have c1 : (k1 < k2) = (k1 < k2) := rfl
      simp only [mapInsert]
      repeat' split
      all_goals first
        | omega
        | rfl
        | (simp only [mapInsert]; repeat' split)
      all_goals first
        | omega
        | rfl
        | (rw [ih])
        | skip

theorem foldl_mapInsert_perm {l1 l2 : List (Nat × α)} (p : l1.Perm l2) :
    (l1.map (·.1)).Nodup → ∀ acc : List (Nat × α),
      l1.foldl (fun m kv => mapInsert kv.1 kv.2 m) acc = l2.foldl (fun m kv => mapInsert kv.1 kv.2 m) acc := by
  induction p with
  | nil => intro _ _; rfl
  | cons x _ ih =>
    intro hnd acc
    simp only [List.map_cons, List.nodup_cons] at hnd
    simp only [List.foldl_cons]
    exact ih hnd.2 _
  | swap x y l =>
    intro hnd acc
    simp only [List.map_cons, List.nodup_cons, List.mem_cons, not_or] at hnd
    simp only [List.foldl_cons]
    rw [mapInsert_comm x.1 y.1 x.2 y.2 (fun e => hnd.1.1 e.symm)]
  | trans p1 _ ih1 ih2 =>
    intro hnd acc
    rw [ih1 hnd acc]
    exact ih2 (((p1.map (·.1)).nodup_iff).1 hnd) acc

/-- keys strictly increasing -/
def KeySorted (kvs : List (Nat × α)) : Prop := (kvs.map (·.1)).Pairwise (· < ·)

theorem foldr_mapInsert_sorted (s : List (Nat × α)) (hs : KeySorted s) :
    s.foldr (fun kv m => mapInsert kv.1 kv.2 m) [] = s := by
  induction s with
  | nil => rfl
  | cons x r ih =>
    have hr : KeySorted r := by
      simp only [KeySorted, List.map_cons, List.pairwise_cons] at hs; exact hs.2
    simp only [List.foldr_cons, ih hr]
    cases r with
    | nil => rfl
    | cons y r' =>
      have : x.1 < y.1 := by
        simp only [KeySorted, List.map_cons, List.pairwise_cons, List.mem_cons] at hs
        exact hs.1 y.1 (Or.inl rfl)
      simp [mapInsert, this]

theorem keySorted_nodup (s : List (Nat × α)) (hs : KeySorted s) : (s.map (·.1)).Nodup :=
  List.Pairwise.imp (fun h => Nat.ne_of_lt h) hs

/-- **the decoded map is independent of the wire order**: building the map from any permutation
    of a strictly key-sorted entry list returns that list -/
theorem toMap_perm_sorted (l s : List (Nat × α)) (p : l.Perm s) (hs : KeySorted s) : toMap l = s := by
  have hnd := keySorted_nodup s hs
  have hndl : (l.map (·.1)).Nodup := ((p.map (·.1)).nodup_iff).2 hnd
  unfold toMap
  rw [foldl_mapInsert_perm p hndl []]
  have hrev : (s.reverse.map (·.1)).Nodup := by
    rw [List.map_reverse]; exact ((List.reverse_perm (s.map (·.1))).nodup_iff).2 hnd
  rw [← foldl_mapInsert_perm (List.reverse_perm s) hrev [], List.foldl_reverse]
  exact foldr_mapInsert_sorted s hs

theorem kvOf_entryOf (kv : Nat × Bytes) (h : kv.1 < 4294967296) : kvOf (entryOf kv) = kv := by
  rcases kv with ⟨k, v⟩
  simp [kvOf, entryOf, lastVarint, varints, lastLen, lens, Nat.mod_eq_of_lt h]

theorem mapM_cv_id (cv : Bytes → Option Bytes) (kvs : List (Nat × Bytes))
    (h : ∀ kv ∈ kvs, cv kv.2 = some kv.2) :
    kvs.mapM (fun kv => (cv kv.2).map fun v' => (kv.1, v')) = some kvs := by
  induction kvs with
  | nil => rfl
  | cons x r ih =>
    simp [List.mapM_cons, h x (by simp), ih (fun kv hk => h kv (by simp [hk]))]

/-- map validation on the entries of a well-formed map, **in any order**: the result is the
    canonical (key-sorted) entry list -/
theorem mapPost_perm (cv : Bytes → Option Bytes) (kvs l : List (Nat × Bytes)) (p : l.Perm kvs)
    (hs : KeySorted kvs) (hk : ∀ kv ∈ kvs, kv.1 ≤ 255) (hcv : ∀ kv ∈ kvs, cv kv.2 = some kv.2) :
    mapPost cv (l.map entryOf) = some (kvs.map entryOf) := by
  have hl : (l.map entryOf).map kvOf = l := by
    rw [List.map_map]
    conv => rhs; rw [← List.map_id l]
    apply List.map_congr_left
    intro kv hkv
    have := hk kv (p.mem_iff.1 hkv)
    exact kvOf_entryOf kv (by omega)
  have hall : (kvs.all fun kv => idxOk kv.1) = true := by
    simp only [List.all_eq_true, idxOk, decide_eq_true_eq]; exact hk
  unfold mapPost
  rw [hl, toMap_perm_sorted l kvs p hs]
  simp [guard', hall, mapM_cv_id cv kvs hcv]

theorem putVarintF_length_le (f n : Nat) : (putVarintF f n).length ≤ f + 1 := by
  induction f generalizing n with
  | zero => simp [putVarintF]
  | succ f ih =>
    unfold putVarintF
    split
    · simp
    · simp only [List.length_cons]; have := ih (n / 128); omega

theorem entryOf_subOk (kv : Nat × Bytes) (hk : kv.1 ≤ 255) (hv : kv.2.length < 4294967296) :
    SubOk (entryOf kv) := by
  have p64 : (2:Nat) ^ 64 = 18446744073709551616 := by decide
  constructor
  · intro f hf
    simp only [entryOf, List.mem_cons, List.not_mem_nil, or_false] at hf
    rcases hf with rfl | rfl
    · exact ⟨by omega, by omega, by omega⟩
    · exact ⟨by omega, by omega, by omega⟩
  · have a := putVarintF_length_le 9 (1 * 8)
    have b := putVarintF_length_le 9 kv.1
    have c := putVarintF_length_le 9 (2 * 8 + 2)
    have d := putVarintF_length_le 9 kv.2.length
    simp only [entryOf, putFields, putField, putVarint, List.length_append, List.append_nil] at *
    omega

/-- **accusation / ephemeral-key / TSS peer-payload messages, entries in any wire order**:
    for a key-sorted map with member-index keys ≤ 255 whose values the validation accepts
    unchanged, the encoding with the entries in *any permutation* is decoded to the map, i.e.
    re-marshals to the canonical (sorted) encoding. -/
theorem mapSpec3_any_order (cv : Bytes → Option Bytes) (s : Nat) (sess : Bytes)
    (kvs l : List (Nat × Bytes)) (p : l.Perm kvs) (hs : KeySorted kvs)
    (hsn : s ≤ 255) (hk : ∀ kv ∈ kvs, kv.1 ≤ 255) (hv : ∀ kv ∈ kvs, kv.2.length < 4294967296)
    (hcv : ∀ kv ∈ kvs, cv kv.2 = some kv.2)
    (hl : sess.length < 2 ^ 64) (hu : isUtf8 sess = true) :
    (mapSpec3 cv).unmarshal ((mapSpec3 cv).marshal [.n s, .ms (l.map entryOf), .b sess]) =
      some ((mapSpec3 cv).marshal [.n s, .ms (kvs.map entryOf), .b sess]) := by
  have hS : SchemaOk (mapSpec3 cv).fields := by
    constructor
    · show ([1, 2, 3] : List Nat).Nodup
      decide
    · intro f hf
      simp only [mapSpec3, List.mem_cons, List.not_mem_nil, or_false] at hf
      rcases hf with rfl | rfl | rfl <;> simp
  have hc : Canon (mapSpec3 cv).fields [.n s, .ms (l.map entryOf), .b sess] := by
    refine ⟨?_, ?_, ⟨hl, hu⟩, trivial⟩
    · show s < 2 ^ 32
      exact Nat.lt_of_le_of_lt hsn (by decide)
    · intro sub hsub
      simp only [List.mem_map] at hsub
      obtain ⟨kv, hkv, rfl⟩ := hsub
      have hm := p.mem_iff.1 hkv
      exact entryOf_subOk kv (hk kv hm) (hv kv hm)
  apply unmarshal_marshal_post' (mapSpec3 cv) _ _ hS hc
  simp [mapSpec3, idxOk, hsn, mapPost_perm cv kvs l p hs hk hcv]

end KeepVerif.C19
