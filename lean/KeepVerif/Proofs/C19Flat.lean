import KeepVerif.Model.C19
import KeepVerif.Proofs.C19Wire
/-!
# C19: schema-directed round trip for message specs (core Lean only)

Generic over every schema (list of field number + kind; kinds: scalars, bytes, strings, repeated
bytes / strings, packed repeated scalars, embedded messages, repeated embedded messages = map
entries) and every value list admissible for it.  Embedded messages are values of kind
`List Field`; their own schemas are applied by the `post` functions of the specs, so the theorem
composes level by level (`unmarshalF_marshalF`).
-/
namespace KeepVerif.C19

theorem varints_append (a b : List Field) (num : Nat) :
    varints (a ++ b) num = varints a num ++ varints b num := by simp [varints]

theorem lens_append (a b : List Field) (num : Nat) :
    lens (a ++ b) num = lens a num ++ lens b num := by simp [lens]

theorem occs_append (a b : List Field) (num : Nat) :
    occs (a ++ b) num = occs a num ++ occs b num := by simp [occs]

theorem varints_of_ne (fs : List Field) (num : Nat) (h : ∀ f ∈ fs, f.1 ≠ num) :
    varints fs num = [] := by
  induction fs with
  | nil => rfl
  | cons f fs ih =>
    have hf : f.1 ≠ num := h f (by simp)
    have ih' := ih (fun g hg => h g (by simp [hg]))
    rcases f with ⟨n, v⟩
    simp only [varints, List.filterMap_cons] at ih' ⊢
    cases v <;> simp_all

theorem lens_of_ne (fs : List Field) (num : Nat) (h : ∀ f ∈ fs, f.1 ≠ num) :
    lens fs num = [] := by
  induction fs with
  | nil => rfl
  | cons f fs ih =>
    have hf : f.1 ≠ num := h f (by simp)
    have ih' := ih (fun g hg => h g (by simp [hg]))
    rcases f with ⟨n, v⟩
    simp only [lens, List.filterMap_cons] at ih' ⊢
    cases v <;> simp_all

theorem occs_of_ne (fs : List Field) (num : Nat) (h : ∀ f ∈ fs, f.1 ≠ num) :
    occs fs num = [] := by
  induction fs with
  | nil => rfl
  | cons f fs ih =>
    have hf : f.1 ≠ num := h f (by simp)
    have ih' := ih (fun g hg => h g (by simp [hg]))
    simp only [occs, List.filterMap_cons] at ih' ⊢
    simp [hf, ih']

/-- a declared field is decoded from its own occurrences only -/
theorem decField_congr (fs fs' : List Field) (s : FSpec)
    (hv : varints fs s.num = varints fs' s.num) (hl : lens fs s.num = lens fs' s.num)
    (ho : occs fs s.num = occs fs' s.num) :
    decField fs s = decField fs' s := by
  unfold decField lastVarint lastLen u64s subMsg
  rw [hv, hl, ho]

theorem decField_frame (pre mid suf : List Field) (s : FSpec)
    (hp : ∀ f ∈ pre, f.1 ≠ s.num) (hs : ∀ f ∈ suf, f.1 ≠ s.num) :
    decField (pre ++ (mid ++ suf)) s = decField mid s := by
  apply decField_congr
  · rw [varints_append, varints_append, varints_of_ne pre _ hp, varints_of_ne suf _ hs]; simp
  · rw [lens_append, lens_append, lens_of_ne pre _ hp, lens_of_ne suf _ hs]; simp
  · rw [occs_append, occs_append, occs_of_ne pre _ hp, occs_of_ne suf _ hs]; simp

theorem encField_nums (s : FSpec) (v : Val) : ∀ f ∈ encField s v, f.1 = s.num := by
  intro f hf
  cases v with
  | n v => unfold encField at hf; simp only at hf; split at hf <;> simp_all
  | b b => unfold encField at hf; simp only at hf; split at hf <;> simp_all
  | l xs =>
    unfold encField at hf
    simp only [List.mem_map] at hf
    obtain ⟨b, _, rfl⟩ := hf
    rfl
  | ns xs => unfold encField at hf; simp only at hf; split at hf <;> simp_all
  | m sub => cases sub <;> simp_all [encField]
  | ms subs =>
    unfold encField at hf
    simp only [List.mem_map] at hf
    obtain ⟨b, _, rfl⟩ := hf
    rfl

theorem encFlat_nums : ∀ (S : List FSpec) (vs : List Val), ∀ f ∈ encFlat S vs, f.1 ∈ S.map (·.num)
  | [], vs, f, hf => by simp [encFlat] at hf
  | s :: S, [], f, hf => by simp [encFlat] at hf
  | s :: S, v :: vs, f, hf => by
    simp only [encFlat, List.mem_append] at hf
    rcases hf with hf | hf
    · simp [encField_nums s v f hf]
    · have := encFlat_nums S vs f hf
      simp only [List.map_cons, List.mem_cons]
      exact Or.inr this

/-- an embedded message value that can be put on the wire -/
def SubOk (sub : List Field) : Prop := (∀ f ∈ sub, FieldOk f) ∧ (putFields sub).length < 2 ^ 64

def OptSubOk : Option (List Field) → Prop
  | none => True
  | some sub => SubOk sub

/-- value admissible for a declared field (what Go's typed struct can hold) -/
def ValOk (s : FSpec) (v : Val) : Prop :=
  match s.kind, v with
  | .u32, .n v => v < 2 ^ 32
  | .u64, .n v => v < 2 ^ 64
  | .i32, .n v => v < 2 ^ 64
  | .bytes, .b b => b.length < 2 ^ 64
  | .str, .b b => b.length < 2 ^ 64 ∧ isUtf8 b = true
  | .rbytes, .l xs => ∀ b ∈ xs, b.length < 2 ^ 64
  | .rstr, .l xs => (∀ b ∈ xs, b.length < 2 ^ 64) ∧ xs.all isUtf8 = true
  | .packed, .ns xs => (∀ x ∈ xs, x < 2 ^ 64) ∧ (xs.flatMap putVarint).length < 2 ^ 64
  | .msg, .m sub => OptSubOk sub
  | .rmsg _, .ms subs => ∀ sub ∈ subs, SubOk sub
  | _, _ => False

/-- a value list matching a schema -/
def Canon : List FSpec → List Val → Prop
  | [], [] => True
  | s :: S, v :: vs => ValOk s v ∧ Canon S vs
  | _, _ => False

/-- admissible schema: distinct valid field numbers -/
def SchemaOk (S : List FSpec) : Prop :=
  (S.map (·.num)).Nodup ∧ ∀ s ∈ S, 1 ≤ s.num ∧ s.num ≤ 536870911

theorem lens_map_len (num : Nat) (xs : List Bytes) :
    lens (xs.map fun b => ((num, WVal.len b) : Field)) num = xs := by
  induction xs with
  | nil => rfl
  | cons x xs ih =>
    simp only [lens, List.map_cons, List.filterMap_cons] at ih ⊢
    simp [ih]

theorem lens_map_sub (num : Nat) (subs : List (List Field)) :
    lens (subs.map fun sub => ((num, WVal.len (putFields sub)) : Field)) num = subs.map putFields := by
  have := lens_map_len num (subs.map putFields)
  simpa [List.map_map, Function.comp_def] using this

theorem mapM_parse_put (subs : List (List Field)) (h : ∀ sub ∈ subs, SubOk sub) :
    (subs.map putFields).mapM parseMsg = some subs := by
  induction subs with
  | nil => rfl
  | cons x xs ih =>
    have hx := wire_roundtrip x (h x (by simp)).1
    have ih' := ih (fun s hs => h s (by simp [hs]))
    simp [List.mapM_cons, hx, ih']

theorem putVarint_length_pos (n : Nat) : 0 < (putVarint n).length :=
  List.length_pos_iff.2 (putVarint_ne_nil n)

/-- a packed block decodes to the values it was built from -/
theorem unpack_flatMap (xs : List Nat) : ∀ fuel, xs.length < fuel → (∀ x ∈ xs, x < 2 ^ 64) →
    unpack fuel (xs.flatMap putVarint) = some xs := by
  induction xs with
  | nil =>
    intro fuel h _
    cases fuel with
    | zero => omega
    | succ k => simp [unpack]
  | cons x xs ih =>
    intro fuel h hx
    cases fuel with
    | zero => omega
    | succ k =>
      have hne : putVarint x ++ xs.flatMap putVarint ≠ [] := by
        intro e; exact putVarint_ne_nil x (List.append_eq_nil_iff.1 e).1
      simp only [List.flatMap_cons]
      unfold unpack
      rw [if_neg hne, varint_roundtrip x _ (hx x (by simp))]
      simp only []
      rw [ih k (by simp at h; omega) (fun y hy => hx y (by simp [hy]))]
      rfl

theorem length_le_flatMap_putVarint (xs : List Nat) : xs.length ≤ (xs.flatMap putVarint).length := by
  induction xs with
  | nil => simp
  | cons x xs ih =>
    have := putVarint_length_pos x
    simp only [List.flatMap_cons, List.length_cons, List.length_append]
    omega

theorem u64s_single (num : Nat) (p : Bytes) (xs : List Nat)
    (hu : unpack (p.length + 1) p = some xs) : u64s [(num, WVal.len p)] num = some xs := by
  simp [u64s, occs, hu]

theorem decField_encField (s : FSpec) (v : Val) (h : ValOk s v) :
    decField (encField s v) s = some v := by
  rcases s with ⟨num, k⟩
  cases k with
  | u32 =>
    cases v <;> simp only [ValOk] at h
    rename_i x
    by_cases hx : x = 0
    · subst hx; simp [decField, encField, lastVarint, varints]
    · have : x % 4294967296 = x := Nat.mod_eq_of_lt (by simpa using h)
      simp [decField, encField, lastVarint, varints, hx, this]
  | u64 =>
    cases v <;> simp only [ValOk] at h
    rename_i x
    by_cases hx : x = 0
    · subst hx; simp [decField, encField, lastVarint, varints]
    · simp [decField, encField, lastVarint, varints, hx]
  | i32 =>
    cases v <;> simp only [ValOk] at h
    rename_i x
    by_cases hx : x = 0
    · subst hx; simp [decField, encField, lastVarint, varints]
    · simp [decField, encField, lastVarint, varints, hx]
  | bytes =>
    cases v <;> simp only [ValOk] at h
    rename_i x
    by_cases hx : x = []
    · subst hx; simp [decField, encField, lastLen, lens]
    · simp [decField, encField, lastLen, lens, hx]
  | str =>
    cases v <;> simp only [ValOk] at h
    rename_i x
    by_cases hx : x = []
    · subst hx; simp [decField, encField, lastLen, lens]
    · simp [decField, encField, lastLen, lens, hx, h.2]
  | rbytes =>
    cases v <;> simp only [ValOk] at h
    simp only [decField, encField]
    rw [lens_map_len]
  | rstr =>
    cases v <;> simp only [ValOk] at h
    simp [decField, encField, lens_map_len, h.2]
  | packed =>
    cases v <;> simp only [ValOk] at h
    rename_i xs
    by_cases hx : xs = []
    · subst hx; simp [decField, encField, u64s, occs]
    · have hu := unpack_flatMap xs ((xs.flatMap putVarint).length + 1)
        (by have := length_le_flatMap_putVarint xs; omega) h.1
      simp only [decField, encField, if_neg hx]
      rw [u64s_single num _ xs hu]
      rfl
  | msg =>
    cases v <;> simp only [ValOk] at h
    rename_i sub
    cases sub with
    | none => simp [decField, encField, subMsg, lens]
    | some sub =>
      have hp := wire_roundtrip sub h.1
      simp [decField, encField, subMsg, lens, hp]
  | rmsg c =>
    cases v <;> simp only [ValOk] at h
    rename_i subs
    simp only [decField, encField]
    rw [lens_map_sub, mapM_parse_put subs h]
    rfl

theorem decFlat_encFlat_frame : ∀ (S : List FSpec) (vs : List Val) (pre : List Field),
    (S.map (·.num)).Nodup → Canon S vs → (∀ f ∈ pre, f.1 ∉ S.map (·.num)) →
    decFlat S (pre ++ encFlat S vs) = some vs
  | [], [], pre, _, _, _ => by simp [decFlat]
  | [], _ :: _, _, _, hc, _ => by simp [Canon] at hc
  | _ :: _, [], _, _, hc, _ => by simp [Canon] at hc
  | s :: S, v :: vs, pre, hnd, hc, hpre => by
    obtain ⟨hv, hc'⟩ := hc
    have hnd' : s.num ∉ S.map (·.num) ∧ (S.map (·.num)).Nodup := by simpa using hnd
    have h1 : decField (pre ++ (encField s v ++ encFlat S vs)) s = some v := by
      rw [decField_frame pre (encField s v) (encFlat S vs) s]
      · exact decField_encField s v hv
      · intro f hf he; exact hpre f hf (by simp [he])
      · intro f hf he; exact hnd'.1 (he ▸ encFlat_nums S vs f hf)
    have h2 : decFlat S ((pre ++ encField s v) ++ encFlat S vs) = some vs := by
      apply decFlat_encFlat_frame S vs _ hnd'.2 hc'
      intro f hf
      rcases List.mem_append.1 hf with hf | hf
      · intro hm; exact hpre f hf (by simp [hm])
      · rw [encField_nums s v f hf]; exact hnd'.1
    simp only [decFlat, encFlat, List.mapM_cons] at h2 ⊢
    rw [h1]
    rw [List.append_assoc] at h2
    simp [h2]

/-- **schema-directed round trip** (generic over every schema and every admissible value list):
    typed decoding of the proto3 encoding returns the values. -/
theorem flat_roundtrip (S : List FSpec) (vs : List Val) (hS : SchemaOk S) (hc : Canon S vs) :
    decFlat S (encFlat S vs) = some vs := by
  have := decFlat_encFlat_frame S vs [] hS.1 hc (by simp)
  simpa using this

theorem encField_fieldOk (s : FSpec) (v : Val) (hn : 1 ≤ s.num ∧ s.num ≤ 536870911)
    (hv : ValOk s v) : ∀ f ∈ encField s v, FieldOk f := by
  intro f hf
  rcases s with ⟨num, k⟩
  have p32 : (2:Nat) ^ 32 < 2 ^ 64 := by decide
  cases v with
  | l xs =>
    cases k <;> simp only [ValOk] at hv <;>
      (unfold encField at hf; simp only [List.mem_map] at hf; obtain ⟨b, hb, rfl⟩ := hf)
    · exact ⟨hn.1, hn.2, hv b hb⟩
    · exact ⟨hn.1, hn.2, hv.1 b hb⟩
  | n x =>
    cases k <;> simp only [ValOk] at hv <;>
      (unfold encField at hf; simp only at hf; split at hf) <;> simp_all [FieldOk] <;> omega
  | b x =>
    cases k <;> simp only [ValOk] at hv <;>
      (unfold encField at hf; simp only at hf; split at hf) <;> simp_all [FieldOk]
  | ns xs =>
    cases k <;> simp only [ValOk] at hv
    unfold encField at hf; simp only at hf; split at hf
    · simp at hf
    · simp only [List.mem_singleton] at hf; subst hf; exact ⟨hn.1, hn.2, hv.2⟩
  | m sub =>
    cases k <;> simp only [ValOk] at hv
    cases sub with
    | none => simp [encField] at hf
    | some sub =>
      simp only [encField, List.mem_singleton] at hf; subst hf; exact ⟨hn.1, hn.2, hv.2⟩
  | ms subs =>
    cases k <;> simp only [ValOk] at hv
    unfold encField at hf; simp only [List.mem_map] at hf; obtain ⟨sub, hs, rfl⟩ := hf
    exact ⟨hn.1, hn.2, (hv sub hs).2⟩

theorem encFlat_fieldOk : ∀ (S : List FSpec) (vs : List Val),
    (∀ s ∈ S, 1 ≤ s.num ∧ s.num ≤ 536870911) → Canon S vs → ∀ f ∈ encFlat S vs, FieldOk f
  | [], vs, _, _, f, hf => by simp [encFlat] at hf
  | _ :: _, [], _, _, f, hf => by simp [encFlat] at hf
  | s :: S, v :: vs, hn, hc, f, hf => by
    simp only [encFlat, List.mem_append] at hf
    rcases hf with hf | hf
    · exact encField_fieldOk s v (hn s (by simp)) hc.1 f hf
    · exact encFlat_fieldOk S vs (fun t ht => hn t (by simp [ht])) hc.2 f hf

/-- field-list level (embedded messages): a value list that matches the schema and that the
    validation accepts unchanged is reproduced from its own field list -/
theorem unmarshalF_marshalF (M : MsgSpec) (vs : List Val) (hS : SchemaOk M.fields)
    (hc : Canon M.fields vs) (hwf : M.post vs = some vs) :
    M.unmarshalF (encFlat M.fields vs) = some (encFlat M.fields vs) := by
  unfold MsgSpec.unmarshalF
  simp [flat_roundtrip M.fields vs hS hc, hwf]

/-- **Unmarshal ∘ Marshal** for every message type: a value list that matches the schema and
    that keep-core's validation accepts unchanged (`post vs = some vs`: well-formed and already
    normalised) is decoded from its own encoding, and re-marshals to the same bytes. -/
theorem unmarshal_marshal (M : MsgSpec) (vs : List Val) (hS : SchemaOk M.fields)
    (hc : Canon M.fields vs) (hwf : M.post vs = some vs) :
    M.unmarshal (M.marshal vs) = some (M.marshal vs) := by
  unfold MsgSpec.unmarshal MsgSpec.marshal
  rw [wire_roundtrip _ (encFlat_fieldOk M.fields vs hS.2 hc)]
  simp [unmarshalF_marshalF M vs hS hc hwf]

/-- normalising form of `unmarshal_marshal`: whatever the validation turns the values into is what
    comes back -/
theorem unmarshal_marshal_post' (M : MsgSpec) (vs vs' : List Val) (hS : SchemaOk M.fields)
    (hc : Canon M.fields vs) (hp : M.post vs = some vs') :
    M.unmarshal (M.marshal vs) = some (M.marshal vs') := by
  unfold MsgSpec.unmarshal MsgSpec.marshal MsgSpec.unmarshalF
  rw [wire_roundtrip _ (encFlat_fieldOk M.fields vs hS.2 hc)]
  simp [flat_roundtrip M.fields vs hS hc, hp]

/-- an accepted input is the marshalling of a value list the validation produced -/
theorem unmarshal_ok_post (M : MsgSpec) (bs out : Bytes) (h : M.unmarshal bs = some out) :
    ∃ fs vs vs', parseMsg bs = some fs ∧ decFlat M.fields fs = some vs ∧
      M.post vs = some vs' ∧ out = M.marshal vs' := by
  unfold MsgSpec.unmarshal MsgSpec.unmarshalF at h
  cases h1 : parseMsg bs with
  | none => simp [h1] at h
  | some fs =>
    cases h2 : decFlat M.fields fs with
    | none => simp [h1, h2] at h
    | some vs =>
      cases h3 : M.post vs with
      | none => simp [h1, h2, h3] at h
      | some vs' =>
        simp [h1, h2, h3] at h
        exact ⟨fs, vs, vs', rfl, h2, h3, h.symm⟩

end KeepVerif.C19
