/-!
# C35 model: `signingDoneCheck` (pkg/tbtc/signing_done.go)

* `receive` is one iteration of the listener goroutine (`isValidDoneMessage` + the locked map
  write); `check` is `checkAllDone` (one tick of `waitUntilAllDone`, under the same mutex).
* `Variant.fixed` is the code as it is now (keeps the attempt's member set, rejects other senders,
  expects one confirmation per distinct included member); `Variant.old` is the code before the
  repair (any group member counts, expected = length of the list) — kept for the counterexample.
* A history is a list of events `recv m | tick` in the order in which the two goroutines took the
  mutex; `runWait` returns what `waitUntilAllDone` returns (`timeout` when the history ends, i.e.
  the context is cancelled, before a tick finds the confirmations complete).
* `doneSigners` (a Go map) is the list of recorded messages in arrival order; `check` reads it in
  list order and `check_perm` (Props) shows the order does not matter.
-/
namespace KeepVerif.C35

structure Msg where
  sender : Nat      -- senderID
  op : Nat          -- operator whose key authenticated the message on the channel
  message : Nat
  attempt : Nat
  sig : Nat         -- 0 = nil signature
  endBlock : Nat
  deriving DecidableEq, Repr

structure Params where
  operators : List Nat    -- operator of seat i (member index i+1)
  included : List Nat     -- attemptMembersIndexes
  message : Nat
  attempt : Nat
  timeout : Nat

inductive Variant | fixed | old
  deriving DecidableEq

/-- `MembershipValidator.IsValidMembership` (member indexes are `uint8`, groups have < 256 seats) -/
def validMembership (ops : List Nat) (sender op : Nat) : Bool :=
  decide (sender ≥ 1) && ops[sender - 1]? == some op

/-- the checks of `isValidDoneMessage` that do not depend on the recorded confirmations -/
def wellFormed (p : Params) (m : Msg) : Bool :=
  validMembership p.operators m.sender m.op && m.message == p.message && m.attempt == p.attempt &&
  decide (m.endBlock ≤ p.timeout) && m.sig != 0

abbrev Done := List Msg

def isValid (v : Variant) (p : Params) (done : Done) (m : Msg) : Bool :=
  !(done.any (·.sender == m.sender)) &&
  (match v with | .fixed => p.included.contains m.sender | .old => true) &&
  wellFormed p m

def receive (v : Variant) (p : Params) (done : Done) (m : Msg) : Done :=
  if isValid v p done m then done ++ [m] else done

/-- number of distinct elements (size of the `attemptMembers` set) -/
def distinct : List Nat → List Nat
  | [] => []
  | x :: xs => if x ∈ xs then distinct xs else x :: distinct xs

def expectedCount (v : Variant) (p : Params) : Nat :=
  match v with
  | .fixed => (distinct p.included).length
  | .old => p.included.length

inductive Outcome
  | timeout | mismatch | success (sig endBlock : Nat)
  deriving DecidableEq, Repr

def maxEnd : Done → Nat
  | [] => 0
  | m :: rest => max m.endBlock (maxEnd rest)

/-- `checkAllDone`: `none` = not complete yet -/
def check (v : Variant) (p : Params) (done : Done) : Option Outcome :=
  if expectedCount v p != done.length then none
  else match done with
    | [] => some (.success 0 0)
    | m :: rest =>
      if rest.all (·.sig == m.sig) then some (.success m.sig (maxEnd done)) else some .mismatch

inductive Ev
  | recv (m : Msg) | tick
  deriving DecidableEq

def runWait (v : Variant) (p : Params) : Done → List Ev → Outcome × Done
  | done, [] => (.timeout, done)
  | done, .recv m :: rest => runWait v p (receive v p done m) rest
  | done, .tick :: rest =>
    match check v p done with
    | some o => (o, done)
    | none => runWait v p done rest

/-- the harness scenario: `A` processed, then `B`, then a tick (ticks in between do not matter for
    the fixed variant: `complete_stable`). Output: outcome and number of recorded confirmations. -/
def scenario (v : Variant) (p : Params) (A B : List Msg) : Outcome × Nat :=
  let r := runWait v p [] ((A ++ B).map .recv ++ [.tick])
  (r.1, r.2.length)

/-! ## Several attempts on one check

`listen` closes the receiver and the listener goroutine of the previous attempt before it resets the
per-attempt state, and a listener whose receiver was closed records nothing: attempts are
independent runs of `runWait` from an empty set of confirmations (this is what the driver computes
for a `dones` line).  Before the repair the listener of an attempt that never reached
`waitUntilAllDone` stayed alive: it validated with ITS message / attempt number / timeout but
against the CURRENT attempt's members and recorded into the current attempt's confirmations. -/

/-- one iteration of a stale listener (parameters `old`) while attempt `cur` is listening —
    the code before the repair -/
def receiveStale (old cur : Params) (done : Done) (m : Msg) : Done :=
  receive .fixed { cur with message := old.message, attempt := old.attempt, timeout := old.timeout } done m

/-! ## Monitor -/

/-- `m` is a confirmation the property accepts from included member `i` for signature `sig` -/
def goodFrom (p : Params) (i sig : Nat) (m : Msg) : Bool :=
  m.sender == i && wellFormed p m && m.sig == sig

/-- The property on what the implementation reported (`hist` = every message delivered, in any
    order): a signature is reported only if every included member sent a well-formed confirmation
    with that signature and an end block ≤ the reported one, the reported end block is one of
    theirs, and never more confirmations are recorded than there are included members. -/
def holds (p : Params) (hist : List Msg) (o : Outcome) (count : Nat) : Bool :=
  decide (count ≤ (distinct p.included).length) &&
  match o with
  | .success sig eb =>
    if p.included.isEmpty then sig == 0 && eb == 0 else
    sig != 0 &&
    p.included.all (fun i => hist.any (fun m => goodFrom p i sig m && decide (m.endBlock ≤ eb))) &&
    p.included.any (fun i => hist.any (fun m => goodFrom p i sig m && m.endBlock == eb))
  | _ => true

end KeepVerif.C35
