import KeepVerif.Gen.C47
/-!
# C47 model: submission slots and early exit of the five on-chain submitters

* `pkg/beacon/entry/submission.go`  `relayEntrySubmitter.submitRelayEntry`,
  `waitForSubmissionEligibility`, `calculateSubmissionQueueIndex`
* `pkg/beacon/dkg/result/submission.go`  `SubmittingMember.SubmitDKGResult`
* `pkg/tbtc/dkg_submit.go` `dkgResultSubmitter.SubmitResult`,
  `pkg/tbtc/inactivity.go` `inactivityClaimSubmitter.SubmitClaim`,
  `pkg/tbtc/dkg.go` approval scheduling (slot function only)

A history is a list of *occurrences* `(block, kind)` sorted by block; same-block occurrences
are ordered by the `tie` permutation (Go's `select` picks any ready case: every order is a
possible behaviour, the theorems hold for all of them).  `uint64` wrap-around is outside the
domain (`1 ≤ idx ≤ N ≤ 255`, block numbers far below `2^64`).
-/
namespace KeepVerif.C47

/-- `calculateSubmissionQueueIndex` -/
def queueIndex (m f n : Nat) : Nat := if m ≥ f then m - f else m + n - f

/-- relay entry: blocks to wait after the start block, as `waitForSubmissionEligibility`
    computes it (zero-based member position `idx - 1`, as the function's documentation says). -/
def relayOffset (idx n entry step : Nat) : Nat := queueIndex (idx - 1) (entry % n) n * step

/-- the same as the unchanged tree computed it: the 1-based member index was passed. -/
def relayOffsetUnfixed (idx n entry step : Nat) : Nat := queueIndex idx (entry % n) n * step

/-- beacon DKG, tBTC DKG, inactivity claim: `(idx - 1) * step` after the reference block. -/
def stepOffset (idx step : Nat) : Nat := (idx - 1) * step

/-- tBTC DKG result approval: the submitter at the start of the precedence period `p`,
    everyone else `(idx-1)*15` after the precedence period (`prec` blocks long) ended. -/
def approvalBlock (submitter p prec idx : Nat) : Nat :=
  if idx = submitter then p else p + prec + stepOffset idx Gen.C47.tbtcDkgApprovalStep

inductive Kind | slot | event | timeout
  deriving DecidableEq, Repr, BEq

inductive Ret | nil | timeout | suberr | errSigs | errReg | errState | errWait | hang
  deriving DecidableEq, Repr

/-- what one member did -/
structure Mem where
  idx : Nat
  await : Option Nat   -- block height it waited for (its slot)
  subs : List Nat      -- blocks at which it called the chain's submit function
  ret : Ret
  deriving DecidableEq, Repr

abbrev Occ := Nat × Kind

def tiePos (tie : List Kind) (k : Kind) : Nat := tie.idxOf k

/-- occurrence `a` is delivered before `b` -/
def before (tie : List Kind) (a b : Occ) : Bool :=
  decide (a.1 < b.1) || (decide (a.1 = b.1) && decide (tiePos tie a.2 < tiePos tie b.2))

def insertOcc (tie : List Kind) (a : Occ) : List Occ → List Occ
  | [] => [a]
  | b :: rest => if before tie a b then a :: b :: rest else b :: insertOcc tie a rest

def sortOccs (tie : List Kind) (os : List Occ) : List Occ := os.foldr (insertOcc tie) []

/-- the `for { select {…} }` loop of `submitRelayEntry`: the slot waiter fires once; a failed
    submission consults `IsEntryInProgress` (`none` = that call failed too). -/
def relayLoop (subFail : Bool) (inprog : Option Bool) : List Occ → List Nat → List Nat × Ret
  | [], subs => (subs, .hang)
  | (b, .slot) :: rest, subs =>
    if subFail then
      match inprog with
      | some false => (subs ++ [b], .nil)
      | _ => (subs ++ [b], .suberr)
    else relayLoop subFail inprog rest (subs ++ [b])
  | (_, .event) :: _, subs => (subs, .nil)
  | (_, .timeout) :: _, subs => (subs, .timeout)

def evOcc (ev : Option Nat) : List Occ := match ev with | some e => [(e, Kind.event)] | none => []

def relayOccs (slot timeout : Nat) (ev : Option Nat) (tie : List Kind) : List Occ :=
  sortOccs tie ([(slot, Kind.slot), (timeout, Kind.timeout)] ++ evOcc ev)

def relayMember (n step entry start : Nat) (ev : Option Nat) (tie : List Kind)
    (subFail : Bool) (inprog : Option Bool) (idx : Nat) : Mem :=
  let s := start + relayOffset idx n entry step
  let r := relayLoop subFail inprog (relayOccs s (start + n * step) ev tie) []
  ⟨idx, some s, r.1, r.2⟩

def members (n : Nat) : List Nat := List.range' 1 n

def relayGroup (n step entry start : Nat) (ev : Option Nat) (tie : List Kind)
    (subFail : Bool) (inprog : Option Bool) : List Mem :=
  (members n).map (relayMember n step entry start ev tie subFail inprog)

/-- beacon `SubmitDKGResult`: signature threshold, registration check (`none` = the call
    failed), then the first of slot / submission event decides. -/
def bdkgLoop : List Occ → List Nat × Ret
  | [] => ([], .hang)
  | (b, .slot) :: _ => ([b], .nil)
  | (_, .event) :: _ => ([], .nil)
  | (_, .timeout) :: rest => bdkgLoop rest

def bdkgMember (n honest step start nsigs : Nat) (reg : Option Bool) (ev : Option Nat)
    (tie : List Kind) (idx : Nat) : Mem :=
  if nsigs < honest + (n - honest) / 2 then ⟨idx, none, [], .errSigs⟩ else
  match reg with
  | none => ⟨idx, none, [], .errReg⟩
  | some true => ⟨idx, none, [], .nil⟩
  | some false =>
    let s := start + stepOffset idx step
    let r := bdkgLoop (sortOccs tie ([(s, Kind.slot)] ++ evOcc ev))
    ⟨idx, some s, r.1, r.2⟩

def bdkgGroup (n honest step start nsigs : Nat) (reg : Option Bool) (ev : Option Nat)
    (tie : List Kind) : List Mem :=
  (members n).map (bdkgMember n honest step start nsigs reg ev tie)

/-- how the scripted `waitForBlockFn` ended -/
inductive Wait | reached | cancelled | failed
  deriving DecidableEq, Repr

/-- tBTC `SubmitResult` / `SubmitClaim` after their pre-checks passed: wait for
    `cur + (idx-1)*stepBlocks`, then submit unless the context was cancelled meanwhile. -/
def tbtcTail (stepBlocks cur : Nat) (w : Wait) (idx : Nat) : Mem :=
  let s := cur + stepOffset idx stepBlocks
  match w with
  | .reached => ⟨idx, some s, [s], .nil⟩
  | .cancelled => ⟨idx, some s, [], .nil⟩
  | .failed => ⟨idx, some s, [], .errWait⟩

/-- `state = none`: `GetDKGState` failed -/
def tdkgMember (quorum cur nsigs : Nat) (state : Option Nat) (w : Wait) (idx : Nat) : Mem :=
  if nsigs < quorum then ⟨idx, none, [], .errSigs⟩ else
  match state with
  | none => ⟨idx, none, [], .errState⟩
  | some st =>
    if st ≠ Gen.C47.awaitingResultState then ⟨idx, none, [], .nil⟩
    else tbtcTail Gen.C47.tbtcDkgSubmissionStep cur w idx

def tdkgGroup (n quorum cur nsigs : Nat) (state : Option Nat) (w : Wait) : List Mem :=
  (members n).map (tdkgMember quorum cur nsigs state w)

def tinactMember (honest cur nsigs nonce chainNonce : Nat) (w : Wait) (idx : Nat) : Mem :=
  if nsigs < honest then ⟨idx, none, [], .errSigs⟩ else
  if chainNonce > nonce then ⟨idx, none, [], .nil⟩
  else tbtcTail Gen.C47.tbtcInactivityStep cur w idx

def tinactGroup (n honest cur nsigs nonce chainNonce : Nat) (w : Wait) : List Mem :=
  (members n).map (tinactMember honest cur nsigs nonce chainNonce w)

/-! ## Monitor -/

/-- what the property demands of one group run -/
structure Rule where
  ref : Nat                 -- reference block: no slot before it
  limit : Option Nat        -- slots must lie strictly before this block (relay entry timeout)
  mustNotWait : Bool        -- the result was already there before anyone waited
  slot : Nat → Nat          -- the slot member `idx` has to wait for (derived from index + reference)
  stopBefore : Nat → Bool   -- `stopBefore slot`: a stop signal was observed before that slot

def holds (r : Rule) (ms : List Mem) : Bool :=
  decide ((ms.filterMap (·.await)).Nodup) &&
  ms.all fun m =>
    match m.await with
    | none => m.subs.isEmpty
    | some a =>
      !r.mustNotWait && decide (a = r.slot m.idx) && decide (r.ref ≤ a) &&
      (match r.limit with | some t => decide (a < t) | none => true) &&
      m.subs.all (fun b => decide (a ≤ b)) && decide (m.subs.length ≤ 1) &&
      (if r.stopBefore a then m.subs.isEmpty else true)

/-- the competing-submission event (if any) was delivered before the slot `s` -/
def evStop (tie : List Kind) (s : Nat) (ev : Option Nat) : Bool :=
  match ev with | some e => before tie (e, .event) (s, .slot) | none => false

/-- the timeout `t` or the competing event was delivered before the slot `s` -/
def stopB (tie : List Kind) (s t : Nat) (ev : Option Nat) : Bool :=
  before tie (t, .timeout) (s, .slot) || evStop tie s ev

def relayRule (n step entry start : Nat) (ev : Option Nat) (tie : List Kind) : Rule :=
  { ref := start, limit := some (start + n * step), mustNotWait := false,
    slot := fun idx => start + relayOffset idx n entry step,
    stopBefore := fun a => stopB tie a (start + n * step) ev }

def bdkgRule (step start : Nat) (reg : Option Bool) (ev : Option Nat) (tie : List Kind) : Rule :=
  { ref := start, limit := none, mustNotWait := (reg == some true),
    slot := fun idx => start + stepOffset idx step,
    stopBefore := fun a => evStop tie a ev }

def tbtcRule (stepBlocks cur : Nat) (already : Bool) (w : Wait) : Rule :=
  { ref := cur, limit := none, mustNotWait := already,
    slot := fun idx => cur + stepOffset idx stepBlocks, stopBefore := fun _ => w != .reached }

/-- tBTC DKG result: the result is "already there" when the DKG left the awaiting-result state -/
def tdkgRule (cur : Nat) (state : Option Nat) (w : Wait) : Rule :=
  tbtcRule Gen.C47.tbtcDkgSubmissionStep cur (state != some Gen.C47.awaitingResultState && state != none) w

/-- inactivity claim: "already there" when the on-chain nonce moved past the claim's nonce -/
def tinactRule (cur nonce chainNonce : Nat) (w : Wait) : Rule :=
  tbtcRule Gen.C47.tbtcInactivityStep cur (decide (chainNonce > nonce)) w

/-! ## tBTC DKG result approval (`executeDkgValidation`): the seats one operator controls -/

def insertNat (a : Nat) : List Nat → List Nat
  | [] => [a]
  | b :: rest => if a ≤ b then a :: b :: rest else b :: insertNat a rest

def sortNat (l : List Nat) : List Nat := l.foldr insertNat []

/-- first block of the submitter's precedence period -/
def precedenceStart (submissionBlock challenge : Nat) : Nat := submissionBlock + challenge + 1

/-- blocks the operator's approval goroutines wait for (observed as a sorted list) -/
def apprAwaits (submitter p prec : Nat) (seats : List Nat) : List Nat :=
  sortNat (seats.map (approvalBlock submitter p prec))

/-- a goroutine approves iff nobody else's approval was observed before its block -/
def apprApprovals (tie : List Kind) (ev : Option Nat) (ws : List Nat) : List Nat :=
  ws.filter (fun w => !evStop tie w ev)

/-- monitor: distinct approval blocks, the submitter's precedence respected, approvals only at
    awaited blocks and never after an observed approval -/
def holdsAppr (submitter p prec : Nat) (seats : List Nat) (tie : List Kind) (ev : Option Nat)
    (ws as : List Nat) : Bool :=
  -- each seat waits for the block derived from its index (observed as a sorted list: the
  -- goroutines carry no member identity)
  decide (ws = sortNat (seats.map (approvalBlock submitter p prec))) &&
  decide ws.Nodup && decide (ws.length = seats.length) &&
  ws.all (fun w => decide (w = p) || decide (p + prec ≤ w)) &&
  decide as.Nodup && as.all (fun a => ws.contains a && !evStop tie a ev)

end KeepVerif.C47
