/-!
# SHA-256 (FIPS 180-4), executable, core Lean only.

Used by the C22 model to recompute `getSeed = sha256(walletPublicKeyHash ++ safeBlockHash)`
independently of Go's `crypto/sha256`; the correspondence run compares the two on every case.
No theorem depends on properties of the hash other than it being a function.
-/
namespace KeepVerif.C22.Sha256

def K : Array UInt32 := #[
  0x428a2f98, 0x71374491, 0xb5c0fbcf, 0xe9b5dba5, 0x3956c25b, 0x59f111f1, 0x923f82a4, 0xab1c5ed5,
  0xd807aa98, 0x12835b01, 0x243185be, 0x550c7dc3, 0x72be5d74, 0x80deb1fe, 0x9bdc06a7, 0xc19bf174,
  0xe49b69c1, 0xefbe4786, 0x0fc19dc6, 0x240ca1cc, 0x2de92c6f, 0x4a7484aa, 0x5cb0a9dc, 0x76f988da,
  0x983e5152, 0xa831c66d, 0xb00327c8, 0xbf597fc7, 0xc6e00bf3, 0xd5a79147, 0x06ca6351, 0x14292967,
  0x27b70a85, 0x2e1b2138, 0x4d2c6dfc, 0x53380d13, 0x650a7354, 0x766a0abb, 0x81c2c92e, 0x92722c85,
  0xa2bfe8a1, 0xa81a664b, 0xc24b8b70, 0xc76c51a3, 0xd192e819, 0xd6990624, 0xf40e3585, 0x106aa070,
  0x19a4c116, 0x1e376c08, 0x2748774c, 0x34b0bcb5, 0x391c0cb3, 0x4ed8aa4a, 0x5b9cca4f, 0x682e6ff3,
  0x748f82ee, 0x78a5636f, 0x84c87814, 0x8cc70208, 0x90befffa, 0xa4506ceb, 0xbef9a3f7, 0xc67178f2]

def H0 : Array UInt32 := #[
  0x6a09e667, 0xbb67ae85, 0x3c6ef372, 0xa54ff53a, 0x510e527f, 0x9b05688c, 0x1f83d9ab, 0x5be0cd19]

def rotr (x : UInt32) (n : UInt32) : UInt32 := (x >>> n) ||| (x <<< (32 - n))

def bsig0 (x : UInt32) : UInt32 := rotr x 2 ^^^ rotr x 13 ^^^ rotr x 22
def bsig1 (x : UInt32) : UInt32 := rotr x 6 ^^^ rotr x 11 ^^^ rotr x 25
def ssig0 (x : UInt32) : UInt32 := rotr x 7 ^^^ rotr x 18 ^^^ (x >>> 3)
def ssig1 (x : UInt32) : UInt32 := rotr x 17 ^^^ rotr x 19 ^^^ (x >>> 10)

def be64 (n : Nat) : List UInt8 :=
  (List.range 8).map fun i => UInt8.ofNat (n / 256 ^ (7 - i) % 256)

def pad (msg : List UInt8) : List UInt8 :=
  let l := msg.length
  let zeros := (55 + 64 - l % 64) % 64
  msg ++ [0x80] ++ List.replicate zeros 0 ++ be64 (l * 8)

def word (a b c d : UInt8) : UInt32 :=
  (a.toUInt32 <<< 24) ||| (b.toUInt32 <<< 16) ||| (c.toUInt32 <<< 8) ||| d.toUInt32

def words : List UInt8 → List UInt32
  | a :: b :: c :: d :: rest => word a b c d :: words rest
  | _ => []

def schedule (blk : Array UInt32) : Array UInt32 :=
  (List.range 48).foldl (fun w i =>
    let t := i + 16
    w.push (ssig1 w[t - 2]! + w[t - 7]! + ssig0 w[t - 15]! + w[t - 16]!)) blk

def compress (h : Array UInt32) (blk : Array UInt32) : Array UInt32 :=
  let w := schedule blk
  let init := (h[0]!, h[1]!, h[2]!, h[3]!, h[4]!, h[5]!, h[6]!, h[7]!)
  let (a, b, c, d, e, f, g, hh) := (List.range 64).foldl
    (fun (s : UInt32 × UInt32 × UInt32 × UInt32 × UInt32 × UInt32 × UInt32 × UInt32) i =>
      let (a, b, c, d, e, f, g, hh) := s
      let ch := (e &&& f) ^^^ ((~~~e) &&& g)
      let maj := (a &&& b) ^^^ (a &&& c) ^^^ (b &&& c)
      let t1 := hh + bsig1 e + ch + K[i]! + w[i]!
      let t2 := bsig0 a + maj
      (t1 + t2, a, b, c, d + t1, e, f, g)) init
  #[h[0]! + a, h[1]! + b, h[2]! + c, h[3]! + d, h[4]! + e, h[5]! + f, h[6]! + g, h[7]! + hh]

def chunks (ws : List UInt32) (fuel : Nat) : List (Array UInt32) :=
  match fuel with
  | 0 => []
  | fuel + 1 => if ws.isEmpty then [] else (ws.take 16).toArray :: chunks (ws.drop 16) fuel

def wordBytes (x : UInt32) : List UInt8 :=
  [(x >>> 24).toUInt8, (x >>> 16).toUInt8, (x >>> 8).toUInt8, x.toUInt8]

def sha256 (msg : List UInt8) : List UInt8 :=
  let ws := words (pad msg)
  let h := (chunks ws ws.length).foldl compress H0
  h.toList.flatMap wordBytes

end KeepVerif.C22.Sha256
