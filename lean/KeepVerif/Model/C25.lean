import KeepVerif.Gen.C25
/-!
# C25 model: `walletDispatcher` (pkg/tbtc/wallet.go)

Small-step model.  The sections protected by `actionsMutex` are atomic steps (A-mutex):

* `dispatch k` — the body of `dispatch` (check the map, insert, spawn the goroutine);
* `release k`  — the deferred `delete(wd.actions, key)` of the spawned goroutine.

Outside the lock the spawned goroutine makes two more visible transitions: `start k` (it enters
`action.execute()`) and `finish k` (`execute` returned, with or without an error — the outcome
does not influence the dispatcher).  The state counts, per wallet key, how many spawned
goroutines are in each phase, so "two actions of one wallet execute at the same time" is
expressible (`exec k = 2`); that it never happens is a theorem, not a typing artefact.
A schedule is an arbitrary list of steps; a step that is not enabled is a no-op.
-/
namespace KeepVerif.C25

structure St where
  inMap : Nat → Bool   -- key present in `wd.actions`
  pend : Nat → Nat     -- goroutines spawned, not yet inside execute()
  exec : Nat → Nat     -- goroutines inside execute()
  fin : Nat → Nat      -- execute() returned, deferred delete not yet run

def St.init : St := ⟨fun _ => false, fun _ => 0, fun _ => 0, fun _ => 0⟩

def upd {α} (f : Nat → α) (k : Nat) (v : α) : Nat → α := fun x => if x = k then v else f x

inductive Step
  | dispatch (k : Nat)
  | start (k : Nat)
  | finish (k : Nat)
  | release (k : Nat)
deriving DecidableEq, Repr

/-- result of a `dispatch` step: `some true` = accepted (nil), `some false` = `errWalletBusy` -/
def step (s : St) : Step → St × Option Bool
  | .dispatch k =>
    if s.inMap k then (s, some false)
    else ({ s with inMap := upd s.inMap k true, pend := upd s.pend k (s.pend k + 1) }, some true)
  | .start k =>
    if 0 < s.pend k then
      ({ s with pend := upd s.pend k (s.pend k - 1), exec := upd s.exec k (s.exec k + 1) }, none)
    else (s, none)
  | .finish k =>
    if 0 < s.exec k then
      ({ s with exec := upd s.exec k (s.exec k - 1), fin := upd s.fin k (s.fin k + 1) }, none)
    else (s, none)
  | .release k =>
    if 0 < s.fin k then
      ({ s with fin := upd s.fin k (s.fin k - 1), inMap := upd s.inMap k false }, none)
    else (s, none)

def run (s : St) (sched : List Step) : St := sched.foldl (fun s st => (step s st).1) s

/-- wallet `k` has an action that was accepted and not yet released -/
def St.active (s : St) (k : Nat) : Nat := s.pend k + s.exec k + s.fin k

/-! ## the scripted scenarios of the harness, expressed with the steps above -/

/-- harness `e<w>`: let the action of `k` run to completion (start if needed, finish, release) -/
def endAction (s : St) (k : Nat) : St × Bool :=
  if 0 < s.active k then (run s [.start k, .finish k, .release k], true) else (s, false)

/-- one round of `conc`: `n ≥ 1` concurrent dispatches for wallet `k` while every accepted action
    blocks: whatever the interleaving, they are `n` dispatch steps in some order. -/
def dispatchMany (s : St) (k : Nat) : Nat → St × Nat
  | 0 => (s, 0)
  | n + 1 =>
    match step s (.dispatch k) with
    | (s', some true) => ((dispatchMany s' k n).1, (dispatchMany s' k n).2 + 1)
    | (s', _) => dispatchMany s' k n

/-! ## Monitor for the unpredicted `storm` scenario -/

/-- `maxconc ≤ 1`, every accepted dispatch executed exactly once, every dispatch was answered,
    every wallet's first dispatch was accepted -/
def holdsStorm (maxconc ok execs busy total wallets : Nat) : Bool :=
  decide (maxconc ≤ 1) && decide (ok = execs) && decide (ok + busy = total) && decide (wallets ≤ ok)
    && decide (total = 0 ∨ maxconc = 1)

end KeepVerif.C25
