import KeepVerif.Model.C09
/-!
# C10 model: `performMembersSelection` of `signingRetryLoop` and `dkgRetryLoop` (pkg/tbtc)

On top of the retry model (`Model/C09.lean`).  A group is `ops : List Addr`: member `i+1` is
controlled by operator `ops[i]`.  `ready` is the list of member indexes the announcer returned, in
whatever order it returned them.

`shuf…` are the permutation families of the seeded `math/rand` sources (A-rng), one per source:
signing uses `attemptSeed + attemptCounter - 1` for the operator shuffle (inside the retry package)
and `attemptSeed + attemptCounter` for trimming the surplus; DKG uses `attemptSeed`.

`sort.Slice(excluded, <)` on a list of *distinct* member indexes is the ascending list of those
indexes, i.e. `members.filter (· ∈ excluded)` (`Props/C10.lean`, `sort_is_filter`).
-/
namespace KeepVerif.C10
open KeepVerif.C09

inductive Out where
  | ok (excluded : List Nat)
  | err
  | panic
  deriving DecidableEq, Repr

/-- member indexes `1..n` -/
def members (ops : List Addr) : List Nat := (List.range ops.length).map (· + 1)

/-- a member index for which `operators[memberIndex-1]` does not panic -/
def validMember (ops : List Addr) (m : Nat) : Bool := decide (1 ≤ m ∧ m ≤ ops.length)

/-- `operators[memberIndex-1]` (for a valid member index) -/
def opOf (ops : List Addr) (m : Nat) : Addr := ops.getD (m - 1) 0

/-- the `for _, memberIndex := range readyMembersIndexes { append(…, operators[memberIndex-1]) }`
    loop (it panics if some member index is 0 or > n, see `validMember`) -/
def readyOperators (ops : List Addr) (ready : List Nat) : List Addr := ready.map (opOf ops)

/-- `qualifiedOperatorsSet[operator] && slices.Contains(readyMembersIndexes, memberIndex)` -/
def isIncluded (ops : List Addr) (q : List Addr) (ready : List Nat) (m : Nat) : Bool :=
  q.contains (opOf ops m) && ready.contains m

/-- `signingRetryLoop.performMembersSelection` at attempt `attemptCounter` (the retry count
    `attemptCounter - 1` only selects the random source, i.e. `shufRetry`). -/
def signingSelection (shufRetry shufTrim : Nat → List Nat) (ops : List Addr) (threshold : Nat)
    (ready : List Nat) : Out :=
  if ready.all (validMember ops) = false then .panic else
  match signing shufRetry (readyOperators ops ready) threshold with
  | .ok q =>
    let included := (members ops).filter (isIncluded ops q ready)
    let excluded := (members ops).filter (fun m => !isIncluded ops q ready m)
    if threshold < included.length then
      -- included is ascending already; shuffle; the tail beyond `threshold` is the surplus
      let surplus := (applyPerm (shufTrim included.length) included).drop threshold
      .ok ((members ops).filter (fun m => excluded.contains m || surplus.contains m))
    else .ok excluded
  | .panic => .panic
  | _ => .err

/-- `qualifiedOperatorsSet` of the DKG loop before `.Set()`: the ready operators on the first
    attempt, the retry selection afterwards -/
def dkgQualified (shuf : Nat → List Nat) (ops : List Addr) (quorum attempt : Nat) (ready : List Nat) : Res :=
  if attempt = 1 then .ok (readyOperators ops ready)
  else keygen shuf (readyOperators ops ready) (attempt - 1) quorum

/-- `dkgRetryLoop.performMembersSelection` at attempt `attempt` (≥ 1) -/
def dkgSelection (shuf : Nat → List Nat) (ops : List Addr) (quorum attempt : Nat) (ready : List Nat) : Out :=
  if ready.all (validMember ops) = false then .panic else
  match dkgQualified shuf ops quorum attempt ready with
  | .ok q => .ok ((members ops).filter (fun m => !isIncluded ops q ready m))
  | .panic => .panic
  | _ => .err

/-! ## Monitor -/

def isStrictlyAscending : List Nat → Bool
  | a :: b :: rest => decide (a < b) && isStrictlyAscending (b :: rest)
  | _ => true

/-- members not excluded -/
def includedOf (ops : List Addr) (excluded : List Nat) : List Nat :=
  (members ops).filter (fun m => !excluded.contains m)

def wellFormedReady (ops : List Addr) (ready : List Nat) : Bool :=
  ready.all (validMember ops) && decide ready.Nodup

/-- common part: excluded is an ascending list of member indexes and every included member is ready -/
def holdsCommon (ops : List Addr) (ready excluded : List Nat) : Bool :=
  isStrictlyAscending excluded
  && excluded.all (validMember ops)
  && (includedOf ops excluded).all ready.contains

/-- signing: exactly `threshold` members are included (given a well-formed ready list) -/
def holdsSigning (ops : List Addr) (threshold : Nat) (ready : List Nat) : Out → Bool
  | .ok excluded =>
    !wellFormedReady ops ready ||
      (holdsCommon ops ready excluded && decide ((includedOf ops excluded).length = threshold))
  | .err => decide (ready.length < threshold)
  | .panic => !wellFormedReady ops ready

/-- all ready members of an operator are treated alike -/
def operatorsAtomic (ops : List Addr) (ready excluded : List Nat) : Bool :=
  ready.all fun m => ready.all fun m' =>
    opOf ops m != opOf ops m' || (excluded.contains m == excluded.contains m')

/-- key generation (called by the loop only when `quorum ≤ |ready|`): at least `quorum` members are
    included, operators are kept or dropped whole -/
def holdsDkg (ops : List Addr) (quorum : Nat) (ready : List Nat) : Out → Bool
  | .ok excluded =>
    !wellFormedReady ops ready || decide (ready.length < quorum) ||
      (holdsCommon ops ready excluded && decide (quorum ≤ (includedOf ops excluded).length)
        && operatorsAtomic ops ready excluded)
  | .err => true
  | .panic => !wellFormedReady ops ready

end KeepVerif.C10
