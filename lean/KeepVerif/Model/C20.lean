/-!
# C20 model: connection handshake (pkg/net/security/handshake/connection_handshake.go)

The three acts as total functions.  `H : Nat → Nat → C` is `hashToChallenge` (SHA-256 of the two
little-endian nonces) — a *parameter*; the driver instantiates it with a table of values obtained
from the real function.  The network between the two peers is a triple of arbitrary functions on
the act messages (alteration, substitution and replay are all instances).
-/
namespace KeepVerif.C20

inductive Err | protocol | challenge
  deriving DecidableEq, Repr

/-- `Act1Message{nonce1, protocol1}` -/
structure Act1 where
  nonce : Nat
  proto : String
  deriving DecidableEq, Repr

/-- `Act2Message{nonce2, challenge, protocol2}` (also the state `ResponderAct2`) -/
structure Act2 (C : Type) where
  nonce : Nat
  challenge : C
  proto : String
  deriving DecidableEq, Repr

/-- `Act3Message{challenge}` (also the states `InitiatorAct3`, `ResponderAct3`) -/
structure Act3 (C : Type) where
  challenge : C
  deriving DecidableEq, Repr

variable {C : Type} [DecidableEq C]

/-- `AnswerHandshake(message, protocol)` with the responder's nonce `n2` drawn. -/
def answer (H : Nat → Nat → C) (m1 : Act1) (n2 : Nat) (p2 : String) : Except Err (Act2 C) :=
  if m1.proto ≠ p2 then .error .protocol
  else .ok ⟨n2, H m1.nonce n2, p2⟩

/-- `(*InitiatorAct2).Next(message)` for the initiator state `(n1, p1)`. -/
def initiatorNext (H : Nat → Nat → C) (n1 : Nat) (p1 : String) (m2 : Act2 C) : Except Err (Act3 C) :=
  if m2.proto ≠ p1 then .error .protocol
  else if H n1 m2.nonce ≠ m2.challenge then .error .challenge
  else .ok ⟨m2.challenge⟩

/-- `(*ResponderAct3).FinalizeHandshake(message)`; `expected` is the challenge kept from act 2. -/
def finalize (expected : C) (m3 : Act3 C) : Except Err Unit :=
  if expected ≠ m3.challenge then .error .challenge else .ok ()

/-- What the network does to each act on its way (identity = honest delivery). -/
structure Net (C : Type) where
  f1 : Act1 → Act1
  f2 : Act2 C → Act2 C
  f3 : Act3 C → Act3 C

def Net.honest : Net C := ⟨id, id, id⟩

/-- Everything observable of one run: the messages *sent* and the first failing step. -/
inductive Outcome (C : Type)
  | rFail (a1 : Act1) (e : Err)
  | iFail (a1 : Act1) (a2 : Act2 C) (e : Err)
  | fFail (a1 : Act1) (a2 : Act2 C) (a3 : Act3 C) (e : Err)
  | done (a1 : Act1) (a2 : Act2 C) (a3 : Act3 C)
  deriving DecidableEq, Repr

/-- One full run: initiator `(n1, p1)`, responder `(n2, p2)`, network `net`. -/
def run (H : Nat → Nat → C) (n1 : Nat) (p1 : String) (n2 : Nat) (p2 : String) (net : Net C) :
    Outcome C :=
  let a1 : Act1 := ⟨n1, p1⟩
  match answer H (net.f1 a1) n2 p2 with
  | .error e => .rFail a1 e
  | .ok a2 =>
    match initiatorNext H n1 p1 (net.f2 a2) with
    | .error e => .iFail a1 a2 e
    | .ok a3 =>
      match finalize a2.challenge (net.f3 a3) with
      | .error e => .fFail a1 a2 a3 e
      | .ok () => .done a1 a2 a3

def Outcome.completes : Outcome C → Bool
  | .done .. => true
  | _ => false

/-- The property as a closed formula over the delivered messages (the monitor's side):
    the run completes iff both protocol checks and both challenge equations hold. -/
def expectedComplete (H : Nat → Nat → C) (n1 : Nat) (p1 : String) (n2 : Nat) (p2 : String)
    (net : Net C) : Bool :=
  let m1 := net.f1 ⟨n1, p1⟩
  let m2 := net.f2 ⟨n2, H m1.nonce n2, p2⟩
  let m3 := net.f3 ⟨m2.challenge⟩
  decide (m1.proto = p2) && decide (m2.proto = p1) && decide (m2.challenge = H n1 m2.nonce)
    && decide (m3.challenge = H m1.nonce n2)

/-- Monitor: what the implementation did (`implCompleted`) against the closed formula. -/
def holds (H : Nat → Nat → C) (n1 : Nat) (p1 : String) (n2 : Nat) (p2 : String) (net : Net C)
    (implCompleted : Bool) : Bool :=
  implCompleted == expectedComplete H n1 p1 n2 p2 net

/-- A-hash, tested on the values the real function produced: distinct pairs ↦ distinct values. -/
def tableInjective (tab : List ((Nat × Nat) × C)) : Bool :=
  tab.all fun e => tab.all fun e' => decide (e.1 = e'.1) || !decide (e.2 = e'.2)

end KeepVerif.C20
