import KeepVerif.Gen.C20
/-!
# C20 model: connection handshake (pkg/net/security/handshake/connection_handshake.go)

The three acts as total functions.  `H : Nat → Nat → C` is `hashToChallenge` (SHA-256 of the two
little-endian nonces) — a *parameter*; the driver instantiates it with a table of values obtained
from the real function.  The network between the two peers is a triple of arbitrary functions on
the act messages (alteration, substitution and replay are all instances).
-/
namespace KeepVerif.C20

inductive Err | protocol | challenge
  deriving DecidableEq, Repr

/-- `Act1Message{nonce1, protocol1}` -/
structure Act1 where
  nonce : Nat
  proto : String
  deriving DecidableEq, Repr

/-- `Act2Message{nonce2, challenge, protocol2}` (also the state `ResponderAct2`) -/
structure Act2 (C : Type) where
  nonce : Nat
  challenge : C
  proto : String
  deriving DecidableEq, Repr

/-- `Act3Message{challenge}` (also the states `InitiatorAct3`, `ResponderAct3`) -/
structure Act3 (C : Type) where
  challenge : C
  deriving DecidableEq, Repr

variable {C : Type} [DecidableEq C]

/-- `AnswerHandshake(message, protocol)` with the responder's nonce `n2` drawn. -/
def answer (H : Nat → Nat → C) (m1 : Act1) (n2 : Nat) (p2 : String) : Except Err (Act2 C) :=
  if m1.proto ≠ p2 then .error .protocol
  else .ok ⟨n2, H m1.nonce n2, p2⟩

/-- `(*InitiatorAct2).Next(message)` for the initiator state `(n1, p1)`. -/
def initiatorNext (H : Nat → Nat → C) (n1 : Nat) (p1 : String) (m2 : Act2 C) : Except Err (Act3 C) :=
  if m2.proto ≠ p1 then .error .protocol
  else if H n1 m2.nonce ≠ m2.challenge then .error .challenge
  else .ok ⟨m2.challenge⟩

/-- `(*ResponderAct3).FinalizeHandshake(message)`; `expected` is the challenge kept from act 2. -/
def finalize (expected : C) (m3 : Act3 C) : Except Err Unit :=
  if expected ≠ m3.challenge then .error .challenge else .ok ()

/-- What the network does to each act on its way (identity = honest delivery). -/
structure Net (C : Type) where
  f1 : Act1 → Act1
  f2 : Act2 C → Act2 C
  f3 : Act3 C → Act3 C

def Net.honest : Net C := ⟨id, id, id⟩

/-- Everything observable of one run: the messages *sent* and the first failing step. -/
inductive Outcome (C : Type)
  | rFail (a1 : Act1) (e : Err)
  | iFail (a1 : Act1) (a2 : Act2 C) (e : Err)
  | fFail (a1 : Act1) (a2 : Act2 C) (a3 : Act3 C) (e : Err)
  | done (a1 : Act1) (a2 : Act2 C) (a3 : Act3 C)
  /-- the delivered act 1 / 2 / 3 could not be unmarshalled (wire-level alteration) -/
  | u1Fail (a1 : Act1)
  | u2Fail (a1 : Act1) (a2 : Act2 C)
  | u3Fail (a1 : Act1) (a2 : Act2 C) (a3 : Act3 C)
  deriving DecidableEq, Repr

/-- One full run: initiator `(n1, p1)`, responder `(n2, p2)`, network `net`. -/
def run (H : Nat → Nat → C) (n1 : Nat) (p1 : String) (n2 : Nat) (p2 : String) (net : Net C) :
    Outcome C :=
  let a1 : Act1 := ⟨n1, p1⟩
  match answer H (net.f1 a1) n2 p2 with
  | .error e => .rFail a1 e
  | .ok a2 =>
    match initiatorNext H n1 p1 (net.f2 a2) with
    | .error e => .iFail a1 a2 e
    | .ok a3 =>
      match finalize a2.challenge (net.f3 a3) with
      | .error e => .fFail a1 a2 a3 e
      | .ok () => .done a1 a2 a3

def Outcome.completes : Outcome C → Bool
  | .done .. => true
  | _ => false

/-- The initiator's side is finished once it has sent act 3 (`runHandshakeAsInitiator` returns nil);
    it does not learn whether the responder accepts act 3. -/
def Outcome.initiatorDone : Outcome C → Bool
  | .done .. => true
  | .fFail .. => true
  | .u3Fail .. => true
  | _ => false

/-- closed formula for the initiator's side: the first three conditions -/
def expectedInitiatorDone (H : Nat → Nat → C) (n1 : Nat) (p1 : String) (n2 : Nat) (p2 : String)
    (net : Net C) : Bool :=
  let m1 := net.f1 ⟨n1, p1⟩
  let m2 := net.f2 ⟨n2, H m1.nonce n2, p2⟩
  decide (m1.proto = p2) && decide (m2.proto = p1) && decide (m2.challenge = H n1 m2.nonce)

/-- What a `conn` op observes of a run: (initiator's side finished, responder completed). -/
def Outcome.connObs (o : Outcome C) : Bool × Bool := (o.initiatorDone, o.completes)

/-- Monitor of the connection-level ops: the responder (`runHandshakeAsResponder`) completes iff all
    four conditions hold, the initiator (`runHandshakeAsInitiator`) finishes iff the first three do. -/
def holdsConn (H : Nat → Nat → C) (n1 : Nat) (p1 : String) (n2 : Nat) (p2 : String) (net : Net C)
    (initOk respOk : Bool) : Bool :=
  (respOk == (decide ((net.f1 ⟨n1, p1⟩).proto = p2)
      && decide ((net.f2 ⟨n2, H (net.f1 ⟨n1, p1⟩).nonce n2, p2⟩).proto = p1)
      && decide ((net.f2 ⟨n2, H (net.f1 ⟨n1, p1⟩).nonce n2, p2⟩).challenge
          = H n1 (net.f2 ⟨n2, H (net.f1 ⟨n1, p1⟩).nonce n2, p2⟩).nonce)
      && decide ((net.f3 ⟨(net.f2 ⟨n2, H (net.f1 ⟨n1, p1⟩).nonce n2, p2⟩).challenge⟩).challenge
          = H (net.f1 ⟨n1, p1⟩).nonce n2)))
  && (initOk == (decide ((net.f1 ⟨n1, p1⟩).proto = p2)
      && decide ((net.f2 ⟨n2, H (net.f1 ⟨n1, p1⟩).nonce n2, p2⟩).proto = p1)
      && decide ((net.f2 ⟨n2, H (net.f1 ⟨n1, p1⟩).nonce n2, p2⟩).challenge
          = H n1 (net.f2 ⟨n2, H (net.f1 ⟨n1, p1⟩).nonce n2, p2⟩).nonce)))

/-- The property as a closed formula over the delivered messages (the monitor's side):
    the run completes iff both protocol checks and both challenge equations hold. -/
def expectedComplete (H : Nat → Nat → C) (n1 : Nat) (p1 : String) (n2 : Nat) (p2 : String)
    (net : Net C) : Bool :=
  let m1 := net.f1 ⟨n1, p1⟩
  let m2 := net.f2 ⟨n2, H m1.nonce n2, p2⟩
  let m3 := net.f3 ⟨m2.challenge⟩
  decide (m1.proto = p2) && decide (m2.proto = p1) && decide (m2.challenge = H n1 m2.nonce)
    && decide (m3.challenge = H m1.nonce n2)

/-- Monitor: what the implementation did (`implCompleted`) against the closed formula. -/
def holds (H : Nat → Nat → C) (n1 : Nat) (p1 : String) (n2 : Nat) (p2 : String) (net : Net C)
    (implCompleted : Bool) : Bool :=
  implCompleted == expectedComplete H n1 p1 n2 p2 net

/-! ## Wire level: an altered act may not even unmarshal

`Act?Message.Unmarshal` (marshaling.go) rejects a nonce field that is not `nonceByteLength` bytes and
a challenge field that is not `challengeByteLength` bytes long.  The network is therefore a triple of
*partial* functions: `none` = the delivered bytes do not unmarshal. -/

/-- the length rules of `Unmarshal`; `none` = the field was not touched on the wire -/
def wireOk (nonceLen chalLen : Option Nat) : Bool :=
  nonceLen.all (· == Gen.C20.nonceByteLength) && chalLen.all (· == Gen.C20.challengeByteLength)

structure WNet (C : Type) where
  f1 : Act1 → Option Act1
  f2 : Act2 C → Option (Act2 C)
  f3 : Act3 C → Option (Act3 C)

/-- every act unmarshals: the wire network of a message-level network -/
def Net.toW (net : Net C) : WNet C := ⟨fun m => some (net.f1 m), fun m => some (net.f2 m), fun m => some (net.f3 m)⟩

/-- One full run through Marshal → network → Unmarshal (what `authenticated_connection.go` and the
    harness do). -/
def runWire (H : Nat → Nat → C) (n1 : Nat) (p1 : String) (n2 : Nat) (p2 : String) (w : WNet C) :
    Outcome C :=
  match w.f1 ⟨n1, p1⟩ with
  | none => .u1Fail ⟨n1, p1⟩
  | some m1 =>
    match answer H m1 n2 p2 with
    | .error e => .rFail ⟨n1, p1⟩ e
    | .ok a2 =>
      match w.f2 a2 with
      | none => .u2Fail ⟨n1, p1⟩ a2
      | some m2 =>
        match initiatorNext H n1 p1 m2 with
        | .error e => .iFail ⟨n1, p1⟩ a2 e
        | .ok a3 =>
          match w.f3 a3 with
          | none => .u3Fail ⟨n1, p1⟩ a2 a3
          | some m3 =>
            match finalize a2.challenge m3 with
            | .error e => .fFail ⟨n1, p1⟩ a2 a3 e
            | .ok () => .done ⟨n1, p1⟩ a2 a3

/-- closed formula for the wire level: all three acts unmarshal and the four conditions hold -/
def expectedCompleteW (H : Nat → Nat → C) (n1 : Nat) (p1 : String) (n2 : Nat) (p2 : String)
    (w : WNet C) : Bool :=
  match w.f1 ⟨n1, p1⟩ with
  | none => false
  | some m1 =>
    match w.f2 ⟨n2, H m1.nonce n2, p2⟩ with
    | none => false
    | some m2 =>
      match w.f3 ⟨m2.challenge⟩ with
      | none => false
      | some m3 =>
        decide (m1.proto = p2) && decide (m2.proto = p1) && decide (m2.challenge = H n1 m2.nonce)
          && decide (m3.challenge = H m1.nonce n2)

def holdsW (H : Nat → Nat → C) (n1 : Nat) (p1 : String) (n2 : Nat) (p2 : String) (w : WNet C)
    (implCompleted : Bool) : Bool :=
  implCompleted == expectedCompleteW H n1 p1 n2 p2 w

/-- A-hash, tested on the values the real function produced: distinct pairs ↦ distinct values. -/
def tableInjective (tab : List ((Nat × Nat) × C)) : Bool :=
  tab.all fun e => tab.all fun e' => decide (e.1 = e'.1) || !decide (e.2 = e'.2)

end KeepVerif.C20
