import KeepVerif.Model.C27Script
import KeepVerif.Gen.C28
/-!
# C28 model: `Deposit.Script()` (pkg/tbtc/deposit.go) and spending of deposit outputs

`Deposit.Script` fills one of two hex format strings (`depositScriptFormat`,
`depositWithExtraDataScriptFormat`) with the hex encodings of the deposit fields.  The harness
tokenises the *source constants* into `Gen.C28.*` (a byte value per hex pair, `256` for a `%v`
placeholder); `instantiate` is `fmt.Sprintf` + `hex.DecodeString` on that tokenised form.  The script
is then interpreted by the shared txscript model (`Model/C27Script.lean`) behind P2SH or P2WSH.
-/
namespace KeepVerif.C28
open KeepVerif.Script

structure Deposit where
  depositor : Bytes
  extra : Option Bytes
  blinding : Bytes
  walletPKH : Bytes
  refundPKH : Bytes
  refundLocktime : Bytes
  deriving DecidableEq, Repr

/-- `fmt.Sprintf(format, fields…)` followed by `hex.DecodeString`, on the tokenised format.
    A missing argument yields `none` (Go would print `%!v(MISSING)`, which is not hex). -/
def instantiate : List Nat → List Bytes → Option Bytes
  | [], _ => some []
  | t :: ts, fields =>
    if t = 256 then
      match fields with
      | [] => none
      | f :: fs => (instantiate ts fs).map (f ++ ·)
    else (instantiate ts fields).map (UInt8.ofNat t :: ·)

/-- `Deposit.Script()`; `none` = the function returns an error. -/
def script (d : Deposit) : Option Bytes :=
  if d.depositor.length ≠ 20 then none
  else match d.extra with
    | some e => instantiate Gen.C28.depositWithExtraDataScriptFormat
        [d.depositor, e, d.blinding, d.walletPKH, d.refundPKH, d.refundLocktime]
    | none => instantiate Gen.C28.depositScriptFormat
        [d.depositor, d.blinding, d.walletPKH, d.refundPKH, d.refundLocktime]

/-- the byte template the tBTC bridge specifies (Deposit.sol) -/
def template (d : Deposit) : Bytes :=
  [0x14] ++ d.depositor ++ [0x75] ++
  (match d.extra with
   | some e => [0x20] ++ e ++ [0x75]
   | none => []) ++
  [0x08] ++ d.blinding ++ [0x75, 0x76, 0xa9, 0x14] ++ d.walletPKH ++
  [0x87, 0x63, 0xac, 0x67, 0x76, 0xa9, 0x14] ++ d.refundPKH ++ [0x88, 0x04] ++ d.refundLocktime ++
  [0xb1, 0x75, 0xac, 0x68]

/-- the intended opcode sequence -/
def ops (d : Deposit) : List Op :=
  [.push .direct d.depositor, .drop] ++
  (match d.extra with
   | some e => [.push .direct e, .drop]
   | none => []) ++
  [.push .direct d.blinding, .drop, .dup, .hash160, .push .direct d.walletPKH, .equal, .opIf,
   .checkSig, .opElse, .dup, .hash160, .push .direct d.refundPKH, .equalVerify,
   .push .direct d.refundLocktime, .cltv, .drop, .checkSig, .opEndIf]

/-- field lengths of the Go struct (`[8]byte`, `[20]byte`, `[4]byte`, `*[32]byte`; the depositor
    length is checked by `Script()`). -/
structure WellFormed (d : Deposit) : Prop where
  depositor : d.depositor.length = 20
  extra : ∀ e, d.extra = some e → e.length = 32
  blinding : d.blinding.length = 8
  wallet : d.walletPKH.length = 20
  refund : d.refundPKH.length = 20
  locktime : d.refundLocktime.length = 4

def wellFormedB (d : Deposit) : Bool :=
  d.depositor.length == 20 && (match d.extra with | some e => e.length == 32 | none => true) &&
  d.blinding.length == 8 && d.walletPKH.length == 20 && d.refundPKH.length == 20 &&
  d.refundLocktime.length == 4

/-- outcome of the deposit script on stack `[pk, sig]`, in closed form -/
def spendSpec {D} (cx : Ctx D) (wit : Bool) (code : Bytes) (d : Deposit) (pk sig : Bytes) :
    Except Err (List Bytes) :=
  if cx.hash160 pk == d.walletPKH then opCheckSig cx wit code [pk, sig]
  else if cx.hash160 pk == d.refundPKH then
    match cltvCheck d.refundLocktime cx.locktime cx.sequence with
    | some e => .error e
    | none => opCheckSig cx wit code [pk, sig]
  else .error .equalVerify

inductive Kind | p2sh | p2wsh
  deriving DecidableEq, Repr

/-- locking script of the deposit output for a given script hash -/
def lockingScript (k : Kind) (h : Bytes) : Bytes :=
  match k with
  | .p2sh => p2sh h
  | .p2wsh => p2wsh h

/-- a spend of the deposit output with `<sig> <pk> <script>` -/
def spend {D} (cx : Ctx D) (k : Kind) (script sig pk : Bytes) : Except Err Unit :=
  match k with
  | .p2sh => verifyInput cx (pushData sig ++ pushData pk ++ pushData script) [] (p2sh (cx.hash160 script))
  | .p2wsh => verifyInput cx [] [sig, pk, script] (p2wsh (cx.sha256 script))

def accepted (r : Except Err Unit) : Bool :=
  match r with
  | .ok _ => true
  | .error _ => false

/-! ## Monitor: the property as a predicate on what the implementation did -/

inductive Role | wallet | refund | stranger
  deriving DecidableEq, Repr

/-- who the spending key is, from the hash of its public key -/
def role (d : Deposit) (pkh : Bytes) : Role :=
  if pkh == d.walletPKH then .wallet else if pkh == d.refundPKH then .refund else .stranger

/-- C28 as a predicate: `sigGood` = the signature is a valid, canonically encoded signature by the
    key `pk` for this spend; `accepted` = what the script engine said. -/
def holds (d : Deposit) (pkh : Bytes) (sigGood : Bool) (txLock seq : Nat) (accepted : Bool) : Bool :=
  match role d pkh with
  | .wallet => accepted == sigGood
  | .refund => accepted == (sigGood && (cltvCheck d.refundLocktime txLock seq).isNone)
  | .stranger => !accepted

end KeepVerif.C28
