/-!
# C26 model: wallet transaction assembly (pkg/tbtc) and redemption fee distribution

* `assembleDepositSweepTransaction`      (pkg/tbtc/deposit_sweep.go)      → `sweep`
* `withRedemptionTotalFee`               (pkg/tbtc/redemption.go)         → `feeShares`
* `assembleRedemptionTransaction`        (pkg/tbtc/redemption.go)         → `redeem`
* `assembleMovingFundsTransaction`       (pkg/tbtc/moving_funds.go)       → `move`
* `assembleMovedFundsSweepTransaction`   (pkg/tbtc/moved_funds_sweep.go)  → `msweep`
* `TransactionBuilder.AddPublicKeyHashInput / AddScriptHashInput / AddOutput / TotalInputsValue`
  (pkg/bitcoin/transaction_builder.go): an input is accepted iff the locking script the chain
  reports for the outpoint has the right class; the value summed is the value *of the UTXO
  struct* handed in.

Amounts are `Int` (Go `int64`; `/` and `%` are truncated, i.e. `Int.tdiv`/`Int.tmod`); overflow
is outside the model (values below 2^62, true for the Bitcoin supply).  Scripts are hex strings;
`hash160` of the wallet key is an input (external function).  Errors are a small enum in the
order the Go code checks them.
-/
namespace KeepVerif.C26

/-- class of the locking script the chain returns for an outpoint
    (`unknown`: transaction not found, or any other script class). -/
inductive Kind | wpkh | pkh | sh | wsh | unknown
  deriving DecidableEq, Repr

def Kind.isPkh : Kind → Bool
  | .wpkh | .pkh => true
  | _ => false

def Kind.isSh : Kind → Bool
  | .sh | .wsh => true
  | _ => false

structure Utxo where
  id : Nat
  idx : Nat
  value : Int
  kind : Kind
  deriving DecidableEq, Repr

/-- a deposit: its UTXO and whether `Deposit.Script()` succeeds. -/
structure Dep where
  utxo : Utxo
  scriptOk : Bool
  deriving DecidableEq, Repr

/-- a redemption request: redeemer output script, requested amount, treasury fee. -/
structure Req where
  script : String
  amount : Int
  treasury : Int
  deriving DecidableEq, Repr

structure Tx where
  ins : List (Nat × Nat)
  outs : List (String × Int)
  deriving DecidableEq, Repr

inductive Err
  | noDeposits | mainInput | depositScript | depositInput
  | mainRequired | noRequests | noTargets | movedRequired | movedInput
  deriving DecidableEq, Repr

def Err.toString : Err → String
  | .noDeposits => "err:no-deposits"
  | .mainInput => "err:main-input"
  | .depositScript => "err:deposit-script"
  | .depositInput => "err:deposit-input"
  | .mainRequired => "err:main-required"
  | .noRequests => "err:no-requests"
  | .noTargets => "err:no-targets"
  | .movedRequired => "err:moved-required"
  | .movedInput => "err:moved-input"

def outpoint (u : Utxo) : Nat × Nat := (u.id, u.idx)

/-- `List.sum` over `Int`, as a structural fold (`TotalInputsValue`, the `+=` loops). -/
def isum : List Int → Int
  | [] => 0
  | x :: xs => x + isum xs

def totalIn (us : List Utxo) : Int := isum (us.map (·.value))
def totalOut (outs : List (String × Int)) : Int := isum (outs.map (·.2))

/-- `bitcoin.PayToWitnessPublicKeyHash`: OP_0 PUSH20 <hash>. -/
def p2wpkh (h : String) : String := "0014" ++ h

/-- the loop `for i := range xs { v := per; if i == len-1 { v += r } }`: `k` = number of
    elements still to emit; the element is the last one iff `k = 1`. -/
def splitEven (per r : Int) : Nat → List Int
  | 0 => []
  | k + 1 => (if k = 0 then per + r else per) :: splitEven per r k

/-- the two lines `remainder := total % n; per := (total - remainder) / n`. -/
def perOf (total : Int) (n : Nat) : Int := (total - total.tmod n).tdiv n
def remOf (total : Int) (n : Nat) : Int := total.tmod n

/-- `withRedemptionTotalFee(totalFee)(requests)` with `n = len(requests)`. -/
def feeShares (totalFee : Int) (n : Nat) : List Int :=
  splitEven (perOf totalFee n) (remOf totalFee n) n

/-- first failing deposit in `assembleDepositSweepTransaction`'s loop. -/
def depErr : List Dep → Option Err
  | [] => none
  | d :: ds =>
    if !d.scriptOk then some .depositScript
    else if !d.utxo.kind.isSh then some .depositInput
    else depErr ds

def optList {α} : Option α → List α
  | none => []
  | some a => [a]

/-- `assembleDepositSweepTransaction` -/
def sweep (wallet : String) (main : Option Utxo) (deps : List Dep) (fee : Int) : Except Err Tx :=
  if deps.isEmpty then .error .noDeposits
  else if (optList main).any (fun m => !m.kind.isPkh) then .error .mainInput
  else match depErr deps with
    | some e => .error e
    | none =>
      let ins := optList main ++ deps.map (·.utxo)
      .ok { ins := ins.map outpoint, outs := [(p2wpkh wallet, totalIn ins - fee)] }

/-- redemption outputs before the change is placed: `script_i ↦ amount_i − treasury_i − share_i`. -/
def redemptionOuts : List Req → List Int → List (String × Int)
  | r :: rs, s :: ss => (r.script, r.amount - r.treasury - s) :: redemptionOuts rs ss
  | _, _ => []

/-- `assembleRedemptionTransaction` with `withRedemptionTotalFee fee`;
    `changeLast = false` is `RedemptionChangeFirst` (also the default). -/
def redeem (wallet : String) (main : Option Utxo) (reqs : List Req) (fee : Int)
    (changeLast : Bool) : Except Err Tx :=
  match main with
  | none => .error .mainRequired
  | some m =>
    if reqs.isEmpty then .error .noRequests
    else if !m.kind.isPkh then .error .mainInput
    else
      let shares := feeShares fee reqs.length
      let routs := redemptionOuts reqs shares
      let totalFee := isum shares
      let change := m.value - totalOut routs - totalFee
      let outs :=
        if change > 0 then
          if changeLast then routs ++ [(p2wpkh wallet, change)] else (p2wpkh wallet, change) :: routs
        else routs
      .ok { ins := [outpoint m], outs := outs }

def zipTargets : List String → List Int → List (String × Int)
  | t :: ts, v :: vs => (p2wpkh t, v) :: zipTargets ts vs
  | _, _ => []

/-- `assembleMovingFundsTransaction` -/
def move (main : Option Utxo) (targets : List String) (fee : Int) : Except Err Tx :=
  if targets.isEmpty then .error .noTargets
  else match main with
    | none => .error .mainRequired
    | some m =>
      if !m.kind.isPkh then .error .mainInput
      else
        let total := m.value - fee
        let n := targets.length
        .ok { ins := [outpoint m],
              outs := zipTargets targets (splitEven (perOf total n) (remOf total n) n) }

/-- `assembleMovedFundsSweepTransaction` -/
def msweep (wallet : String) (moved main : Option Utxo) (fee : Int) : Except Err Tx :=
  match moved with
  | none => .error .movedRequired
  | some mv =>
    if !mv.kind.isPkh then .error .movedInput
    else if (optList main).any (fun m => !m.kind.isPkh) then .error .mainInput
    else
      let ins := mv :: optList main
      .ok { ins := ins.map outpoint, outs := [(p2wpkh wallet, totalIn ins - fee)] }

/-! ## Monitor: the property as a predicate on (intended inputs, what the implementation built).
Written from the property statement, not from the model's code path: intended outpoints in order,
`Σin − Σout = fee`, only intended scripts with the stated amounts. A returned error is accepted
(the property constrains transactions that *are* assembled). -/

/-- even split of `total` over `n ≥ 1` payees with the remainder on the last one, stated
    declaratively: all but the last get `q`, the last gets `total − (n−1)·q`, where `q` is the
    truncated quotient. -/
def evenSplitOk (total : Int) (vals : List Int) : Bool :=
  let n := vals.length
  let q := total.tdiv n
  decide (0 < n) && (vals.take (n - 1)).all (· == q) && (vals.drop (n - 1) == [total - (n - 1 : Nat) * q])

def holdsSweep (wallet : String) (main : Option Utxo) (deps : List Dep) (fee : Int) (tx : Tx) : Bool :=
  let ins := optList main ++ deps.map (·.utxo)
  tx.ins == ins.map outpoint
  && decide (totalIn ins - totalOut tx.outs = fee)
  && tx.outs.map (·.1) == [p2wpkh wallet]

/-- strip the change output (if the transaction has one more output than requests). -/
def splitChange (n : Nat) (changeLast : Bool) (outs : List (String × Int)) :
    Option (Option (String × Int) × List (String × Int)) :=
  if outs.length = n then some (none, outs)
  else if outs.length = n + 1 then
    if changeLast then some (outs.getLast?, outs.take n) else some (outs.head?, outs.drop 1)
  else none

def holdsRedeem (wallet : String) (main : Option Utxo) (reqs : List Req) (fee : Int)
    (changeLast : Bool) (tx : Tx) : Bool :=
  match main with
  | none => false
  | some m =>
    match splitChange reqs.length changeLast tx.outs with
    | none => false
    | some (change, routs) =>
      let redeemable := reqs.map (fun r => r.amount - r.treasury)
      let sharesPaid := List.zipWith (fun a (o : String × Int) => a - o.2) redeemable routs
      tx.ins == [outpoint m]
      -- only the intended scripts, in request order
      && routs.map (·.1) == reqs.map (·.script)
      -- the shares actually deducted are the even split of the proposed fee
      && evenSplitOk fee sharesPaid
      && decide (isum sharesPaid = fee)
      -- change: to the wallet, positive, and then value is conserved exactly
      && (match change with
          | some c => c.1 == p2wpkh wallet && decide (0 < c.2)
                      && decide (m.value - totalOut tx.outs = fee)
          | none => decide (m.value - totalOut tx.outs ≤ fee))

def holdsMove (main : Option Utxo) (targets : List String) (fee : Int) (tx : Tx) : Bool :=
  match main with
  | none => false
  | some m =>
    tx.ins == [outpoint m]
    && tx.outs.map (·.1) == targets.map p2wpkh
    && decide (m.value - totalOut tx.outs = fee)
    && evenSplitOk (m.value - fee) (tx.outs.map (·.2))

def holdsMsweep (wallet : String) (moved main : Option Utxo) (fee : Int) (tx : Tx) : Bool :=
  match moved with
  | none => false
  | some mv =>
    let ins := mv :: optList main
    tx.ins == ins.map outpoint
    && decide (totalIn ins - totalOut tx.outs = fee)
    && tx.outs.map (·.1) == [p2wpkh wallet]

def holdsShares (fee : Int) (n : Nat) (shares : List Int) : Bool :=
  decide (shares.length = n) && decide (isum shares = fee) && evenSplitOk fee shares

end KeepVerif.C26
