import KeepVerif.Gen.C30
/-!
# C30 model: transaction size estimator vs the real transaction builder (pkg/bitcoin)

* `wire.MsgTx.SerializeSizeStripped / SerializeSize`, `mempool.GetTxVirtualSize` (btcd) → `vsize`
  over *lengths only* (a transaction is abstracted to the byte lengths of its signature scripts,
  witness items and output scripts — sizes depend on nothing else);
* `txscript.ScriptBuilder.AddData` / `canonicalDataSize` → `pushSize` (a one-byte datum that is a
  small integer is encoded as a single opcode);
* `TransactionSizeEstimator.Add…Inputs/Outputs` + `VirtualSize` (estimator.go) → `estShape`;
* `TransactionBuilder.Add…Input` + `AddSignatures` (transaction_builder.go) → `realShape`
  for given signature lengths (DER + sighash byte);
* `btcec.Signature.Serialize` (low-S normalisation, canonical integers) → `derSigLen`.

Placeholder lengths, script template lengths and the curve order come from `Gen/C30.lean`.
-/
namespace KeepVerif.C30

abbrev sigPh : Nat := Gen.C30.signaturePlaceholderLength
abbrev pkPh : Nat := Gen.C30.publicKeyPlaceholderLength
abbrev pkLen : Nat := Gen.C30.compressedKeyLength
abbrev maxElem : Nat := Gen.C30.maxScriptElementSize
abbrev curveN : Nat := Gen.C30.curveOrder

/-- `wire.VarIntSerializeSize` -/
def varIntSize (n : Nat) : Nat :=
  if n < 0xfd then 1 else if n ≤ 0xffff then 3 else if n ≤ 0xffffffff then 5 else 9

/-- `txscript.canonicalDataSize`; `small` = the datum is one byte that is `≤ 16` or `0x81`. -/
def pushSize (len : Nat) (small : Bool) : Nat :=
  if len = 0 then 1
  else if len = 1 ∧ small = true then 1
  else if len < 76 then 1 + len
  else if len ≤ 0xff then 2 + len
  else if len ≤ 0xffff then 3 + len
  else 5 + len

/-- a transaction input reduced to lengths: signature script, witness items. -/
structure TxIn where
  sigScript : Nat
  witness : List Nat
  deriving DecidableEq, Repr

structure Shape where
  ins : List TxIn
  outs : List Nat
  deriving DecidableEq, Repr

def insBase : List TxIn → Nat
  | [] => 0
  | i :: is => 40 + varIntSize i.sigScript + i.sigScript + insBase is

def outsSize : List Nat → Nat
  | [] => 0
  | l :: ls => 8 + varIntSize l + l + outsSize ls

def itemsSize : List Nat → Nat
  | [] => 0
  | l :: ls => varIntSize l + l + itemsSize ls

/-- `TxWitness.SerializeSize` -/
def witnessSize (w : List Nat) : Nat := varIntSize w.length + itemsSize w

def insWit : List TxIn → Nat
  | [] => 0
  | i :: is => witnessSize i.witness + insWit is

/-- `MsgTx.HasWitness` -/
def anyWit : List TxIn → Bool
  | [] => false
  | i :: is => !i.witness.isEmpty || anyWit is

/-- `MsgTx.baseSize` -/
def baseSize (t : Shape) : Nat :=
  8 + varIntSize t.ins.length + varIntSize t.outs.length + insBase t.ins + outsSize t.outs

/-- `MsgTx.SerializeSize` -/
def totalSize (t : Shape) : Nat :=
  baseSize t + (if anyWit t.ins then 2 + insWit t.ins else 0)

/-- `mempool.GetTxVirtualSize` = ⌈(3·base + total)/4⌉ -/
def vsize (t : Shape) : Nat := (baseSize t * 3 + totalSize t + 3) / 4

/-- the four input kinds the wallet spends; script-hash kinds carry the redeem script length
    and whether the script is a single small-integer byte. -/
inductive InKind
  | pkh | wpkh
  | sh (rlen : Nat) (small : Bool)
  | wsh (rlen : Nat) (small : Bool)
  deriving DecidableEq, Repr

inductive OutKind | pkh | wpkh | sh | wsh
  deriving DecidableEq, Repr

def outLen : OutKind → Nat
  | .pkh => Gen.C30.p2pkhLen
  | .wpkh => Gen.C30.p2wpkhLen
  | .sh => Gen.C30.p2shLen
  | .wsh => Gen.C30.p2wshLen

/-- the input the estimator adds for a kind: all placeholders are zero bytes, so a
    one-byte placeholder would be pushed as `OP_0` (`small = true`). -/
def estIn : InKind → TxIn
  | .pkh => ⟨pushSize sigPh true + pushSize pkPh true, []⟩
  | .wpkh => ⟨0, [sigPh, pkPh]⟩
  | .sh rlen _ => ⟨pushSize sigPh true + pushSize pkPh true + pushSize rlen true, []⟩
  | .wsh rlen _ => ⟨0, [sigPh, pkPh, rlen]⟩

/-- `ScriptBuilder.AddData` refuses elements above `MaxScriptElementSize`. -/
def pushFails : InKind → Bool
  | .sh rlen _ => decide (maxElem < rlen)
  | _ => false

/-- the input `AddSignatures` produces for a kind and a signature of `sigLen` bytes (DER plus
    sighash byte; never a small integer). A P2SH input with an empty redeem script gets no
    third push (`if len(input.SignatureScript) > 0`). -/
def realIn (k : InKind) (sigLen : Nat) : TxIn :=
  match k with
  | .pkh => ⟨pushSize sigLen false + pushSize pkLen false, []⟩
  | .wpkh => ⟨0, [sigLen, pkLen]⟩
  | .sh rlen small =>
    ⟨pushSize sigLen false + pushSize pkLen false + (if rlen = 0 then 0 else pushSize rlen small), []⟩
  | .wsh rlen _ => ⟨0, [sigLen, pkLen, rlen]⟩

def estShape (ins : List InKind) (outs : List OutKind) : Shape :=
  ⟨ins.map estIn, outs.map outLen⟩

def realShape (ins : List (InKind × Nat)) (outs : List OutKind) : Shape :=
  ⟨ins.map (fun p => realIn p.1 p.2), outs.map outLen⟩

/-- `TransactionSizeEstimator…VirtualSize()`: `none` = the estimator errored out. -/
def estimate (ins : List InKind) (outs : List OutKind) : Option Nat :=
  if ins.any pushFails then none else some (vsize (estShape ins outs))

/-- virtual size of the transaction returned by `AddSignatures` (`none` = it errored). -/
def realSize (ins : List (InKind × Nat)) (outs : List OutKind) : Option Nat :=
  if ins.any (fun p => pushFails p.1) then none else some (vsize (realShape ins outs))

/-- `canonicalizeInt`: big-endian bytes, one zero byte when empty, a leading zero byte when the
    top bit is set: `⌈(bits + 1) / 8⌉` with `bits 0 = 1`. -/
def canonLen (x : Nat) : Nat := (x.log2 + 9) / 8

/-- `btcec.Signature.Serialize` length plus the sighash byte appended by `AddSignatures`. -/
def derSigLen (r s : Nat) : Nat :=
  let s' := if s > curveN / 2 then curveN - s else s
  6 + canonLen r + canonLen s' + 1

/-- in scope of the property: not a one-byte redeem script that is not a small integer
    (no such script exists in tBTC: deposit scripts have 92 or 126 bytes). -/
def inScope : InKind → Bool
  | .sh rlen small => decide (rlen ≠ 1) || small
  | _ => true

/-- Monitor: the estimate is at least the real size (when both exist and the shape is in scope);
    an error on one side must be an error on the other. -/
def holds (ins : List (InKind × Nat)) (est real : Option Nat) : Bool :=
  match est, real with
  | some e, some r => decide (r ≤ e) || !(ins.all (fun p => inScope p.1))
  | none, none => true
  | none, some _ => false   -- estimator unusable for a buildable transaction
  | some _, none => true    -- nothing was built, nothing undershot

/-! ## Whole-flow shapes: the fee estimators of pkg/tbtcpg vs the transactions pkg/tbtc assembles

* `estimateDepositsSweepFee` (tbtcpg/deposit_sweep.go): 1 P2WPKH input + n P2WSH inputs with the
  worst-case deposit script + 1 P2WPKH output; the real sweep has an optional main UTXO and
  P2WSH deposits whose scripts have the plain or the extra-data length;
* `EstimateRedemptionFee` (tbtcpg/redemptions.go): 1 P2WPKH input, change + one output per
  redeemer script; the real transaction has the change only when it is positive;
* `EstimateMovingFundsFee`, `EstimateMovedFundsSweepFee`: same shape as the real transaction.
-/

abbrev depScriptMax : Nat := Gen.C30.depositScriptByteSize
abbrev depScriptLen : Nat := Gen.C30.depositScriptLen
abbrev depScriptExtraLen : Nat := Gen.C30.depositScriptExtraLen

def optSig : Option Nat → List (InKind × Nat)
  | none => []
  | some s => [(.wpkh, s)]

def depIn (d : Bool × Nat) : InKind × Nat :=
  (.wsh (if d.1 then depScriptExtraLen else depScriptLen) false, d.2)

def sweepEst (n : Nat) : Nat :=
  vsize (estShape (.wpkh :: List.replicate n (.wsh depScriptMax false)) [.wpkh])

/-- `main` = signature length of the main UTXO input if the wallet has one;
    `deps` = per deposit (has extra data, signature length). -/
def sweepReal (main : Option Nat) (deps : List (Bool × Nat)) : Nat :=
  vsize (realShape (optSig main ++ deps.map depIn) [.wpkh])

def redeemEst (outs : List OutKind) : Nat := vsize (estShape [.wpkh] (.wpkh :: outs))

def redeemReal (sig : Nat) (change : Bool) (outs : List OutKind) : Nat :=
  vsize (realShape [(.wpkh, sig)] (if change then .wpkh :: outs else outs))

def moveEst (n : Nat) : Nat := vsize (estShape [.wpkh] (List.replicate n .wpkh))
def moveReal (sig n : Nat) : Nat := vsize (realShape [(.wpkh, sig)] (List.replicate n .wpkh))

def msweepEst (hasMain : Bool) : Nat :=
  vsize (estShape (if hasMain then [.wpkh, .wpkh] else [.wpkh]) [.wpkh])

def msweepReal (moved : Nat) (main : Option Nat) : Nat :=
  vsize (realShape ((.wpkh, moved) :: optSig main) [.wpkh])

/-! ## One estimator used step by step (`Add…` calls interleaved with `VirtualSize()` queries)

The estimator is an accumulator: after any prefix of `Add…` calls `VirtualSize()` is the estimate
of the shape accumulated so far — it has no other state. -/

inductive Step
  | addIns (k : InKind) (n : Nat)
  | addOuts (k : OutKind) (n : Nat)
  | query
  deriving Repr

/-- the query results, in order, and the final accumulated shape. -/
def runSteps : List Step → List InKind → List OutKind → List (Option Nat) × List InKind × List OutKind
  | [], ins, outs => ([], ins, outs)
  | .addIns k n :: rest, ins, outs => runSteps rest (ins ++ List.replicate n k) outs
  | .addOuts k n :: rest, ins, outs => runSteps rest ins (outs ++ List.replicate n k)
  | .query :: rest, ins, outs =>
    let (qs, i, o) := runSteps rest ins outs
    (estimate ins outs :: qs, i, o)

end KeepVerif.C30
