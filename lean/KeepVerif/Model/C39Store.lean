/-! C39, second family: `preParamsStorage` (placeholder until the storage family is added). -/
namespace KeepVerif.C39Store
def modelLine (_ : List String) : String := "bad-op"
def monitorLine (_ : List String) (_ : String) : String := "FAIL bad-op"
end KeepVerif.C39Store
