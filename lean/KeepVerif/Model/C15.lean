import KeepVerif.Gen.C15
/-!
# C15 model: `AsyncMachine.Execute` / `asyncStateTransition` (pkg/protocol/state/async_machine.go)
and the message history of `BaseAsyncState` (pkg/protocol/state/state.go)

Small-step model.  Threads: the receive loop (`select` over `recvChan`, `onStateDone`,
`ctx.Done()`), the initiator goroutine of the current state (`Initiate`, then the ticker loop
polling `CanTransition`), and the environment (deliveries, cancellation, the duration of
`Initiate`).  One `Act` is one atomic step of one of them; an action that is not enabled is a
stutter step, so *every* list of actions is a schedule and theorems quantify over all lists.
-/
namespace KeepVerif.C15

structure Spec where
  need : Nat
  gated : Bool := false
  initErr : Bool := false
  nextErr : Bool := false
deriving Repr, DecidableEq

structure Msg where
  typ : Nat
  id : Nat
deriving Repr, DecidableEq

inductive LogEv
  | I (k : Nat) (h : Nat)  -- `Initiate` of state k called; h = size of the history visible to it
  | J (k : Nat) (h : Nat)  -- … returned
  | T (k : Nat) (h : Nat)  -- `CanTransition` of state k returned true, history size h
  | N (k : Nat)            -- `Next` of state k called
  | R (k : Nat) (t id : Nat) -- `Receive` of state k handed message (t, id)
  | X (k : Nat)            -- `CanTransition` of state k called before its `Initiate` returned
deriving Repr, DecidableEq

inductive Outcome
  | final (k : Nat)
  | errInitiate (k : Nat)
  | errNext (k : Nat)
  | ctx
deriving Repr, DecidableEq

inductive Act
  | deliver (m : Msg)  -- the channel calls the handler: `recvChan <- msg`
  | recv               -- receive loop takes `msg := <-recvChan` and calls `Receive`
  | initRet            -- `Initiate` of the current state returns
  | initAuto           -- … returns, if the state is not one whose `Initiate` blocks
  | tick               -- ticker fires: the initiator goroutine polls `CanTransition`
  | done               -- receive loop takes the `onStateDone` branch
  | cancel             -- the machine's context is cancelled
  | ctxDone            -- receive loop takes the `ctx.Done()` branch
deriving Repr, DecidableEq

structure St where
  cur : Nat := 0
  initRunning : Bool := true     -- `Initiate(cur)` was called and has not returned
  initOk : Bool := false         -- `Initiate(cur)` returned nil: the ticker loop runs
  sig : Option Bool := none      -- onDone: `some true` closed, `some false` error being sent
  chan : List Msg := []          -- recvChan
  hist : List Msg := []          -- BaseAsyncState: every admitted message, in order
  cancelled : Bool := false
  out : Option Outcome := none
  dropped : Nat := 0
  log : List LogEv := [.I 0 0]
deriving Repr

def distinctCount (k : Nat) (hist : List Msg) : Nat :=
  ((hist.filter (fun m => m.typ = k)).map (·.id)).eraseDups.length

/-- the toy states' `CanTransition`: enough distinct messages of the state's own type in the
    shared history (`ExtractMessagesPayloads` + `DeduplicateMessagesPayloads`). -/
def can (specs : List Spec) (k : Nat) (hist : List Msg) : Bool :=
  match specs[k]? with
  | some s => decide (s.need ≤ distinctCount k hist)
  | none => false

def specAt (specs : List Spec) (k : Nat) : Spec := (specs[k]?).getD { need := 0 }

def doInitRet (specs : List Spec) (s : St) : St :=
  if s.initRunning then
    let s := { s with initRunning := false, log := s.log ++ [LogEv.J s.cur s.hist.length] }
    if (specAt specs s.cur).initErr then { s with sig := some false } else { s with initOk := true }
  else s

def step (specs : List Spec) (s : St) (a : Act) : St :=
  if s.out.isSome then
    match a with
    | .deliver _ => { s with dropped := s.dropped + 1 }
    | _ => s
  else
    match a with
    | .deliver m => if s.cancelled then { s with dropped := s.dropped + 1 } else { s with chan := s.chan ++ [m] }
    | .recv =>
      match s.chan with
      | [] => s
      | m :: r => { s with chan := r, hist := s.hist ++ [m], log := s.log ++ [.R s.cur m.typ m.id] }
    | .initRet => doInitRet specs s
    | .initAuto => if (specAt specs s.cur).gated then s else doInitRet specs s
    | .tick =>
      if s.initOk && s.sig.isNone && can specs s.cur s.hist then
        { s with sig := some true, log := s.log ++ [.T s.cur s.hist.length] }
      else s
    | .done =>
      match s.sig with
      | none => s
      | some false => { s with out := some (.errInitiate s.cur) }
      | some true =>
        if (specAt specs s.cur).nextErr then
          { s with out := some (.errNext s.cur), log := s.log ++ [.N s.cur] }
        else if s.cur + 1 < specs.length then
          { s with cur := s.cur + 1, initRunning := true, initOk := false, sig := none,
                   log := s.log ++ [.N s.cur, .I (s.cur + 1) s.hist.length] }
        else { s with out := some (.final s.cur), log := s.log ++ [.N s.cur] }
    | .cancel => { s with cancelled := true }
    | .ctxDone => if s.cancelled then { s with out := some .ctx } else s

def run (specs : List Spec) (acts : List Act) : St := acts.foldl (step specs) {}

/-! ## harness scripts as schedules -/

inductive Ev
  | msg (wait : Bool) (m : Msg)
  | flood (m : Msg) (count : Nat)  -- `count` copies of m, each delivered to a quiescent machine
  | busy (m : Msg) (count : Nat)   -- ids m.id … m.id+count-1 delivered while the loop is inside `Receive`
  | release
  | hold
  | unhold
  | cancel
deriving Repr, DecidableEq

def nMsgs : List Ev → Nat
  | [] => 0
  | .msg _ _ :: r => nMsgs r + 1
  | .flood _ c :: r => nMsgs r + c
  | .busy _ c :: r => nMsgs r + c
  | _ :: r => nMsgs r

/-- actions that bring the machine to quiescence whatever its state (disabled ones stutter) -/
def settleActs (nStates nMsg : Nat) : List Act :=
  (List.replicate (nStates + 1) (List.replicate nMsg Act.recv ++ [.initAuto, .tick, .done])).flatten

/-- settling after one delivery to a quiescent machine (`recvChan` was empty) -/
def settleOne (nStates : Nat) : List Act :=
  (List.replicate (nStates + 1) [Act.recv, .initAuto, .tick, .done]).flatten

/-- messages of a busy flood -/
def busyMsgs (m : Msg) (count : Nat) : List Msg :=
  (List.range count).map fun i => ⟨m.typ, m.id + i⟩

def expand (nStates nMsg : Nat) : List Ev → List Act
  | [] => [.cancel, .ctxDone]
  | .busy m c :: r =>
    settleActs nStates nMsg ++ ((busyMsgs m c).map fun x => Act.deliver x :: settleOne nStates).flatten
      ++ expand nStates nMsg r
  | .flood m c :: r =>
    settleActs nStates nMsg ++ (List.replicate c (Act.deliver m :: settleOne nStates)).flatten
      ++ expand nStates nMsg r
  | .msg _ m :: r => .deliver m :: settleActs nStates nMsg ++ expand nStates nMsg r
  | .release :: r => .initRet :: settleActs nStates nMsg ++ expand nStates nMsg r
  | .cancel :: r => .cancel :: .ctxDone :: expand nStates nMsg r
  | _ :: r => expand nStates nMsg r

def runScript (specs : List Spec) (evs : List Ev) : St :=
  run specs (settleActs specs.length 0 ++ expand specs.length (nMsgs evs) evs)

/-- scripts with exactly one outcome: no bursts, no holds -/
def deterministic : List Ev → Bool
  | [] => true
  | .msg w _ :: r => w && deterministic r
  | .hold :: _ => false
  | .busy _ _ :: _ => false
  | .unhold :: r => deterministic r
  | _ :: r => deterministic r

def initiated : List LogEv → List Nat
  | [] => []
  | .I k _ :: r => k :: initiated r
  | _ :: r => initiated r

/-! ## monitor: the property as an automaton over the observed call log -/

structure Mon where
  k : Nat := 0           -- current state (= number of successful `Next`)
  iSeen : Bool := false
  jSeen : Bool := false
  tSeen : Bool := false
  over : Bool := false   -- a `Next` ended the run
  hist : List Msg := []
  ok : Bool := true
deriving Repr

def monStep (specs : List Spec) (m : Mon) (e : LogEv) : Mon :=
  if !m.ok then m else
  match e with
  | .I j h => if j = m.k && !m.iSeen && !m.over && h = m.hist.length then { m with iSeen := true } else { m with ok := false }
  | .J j h => if j = m.k && m.iSeen && !m.jSeen && !m.over && h = m.hist.length then { m with jSeen := true } else { m with ok := false }
  | .T j h =>
    if j = m.k && m.jSeen && !m.tSeen && !m.over && !(specAt specs j).initErr
        && h = m.hist.length && can specs j m.hist then { m with tSeen := true }
    else { m with ok := false }
  | .N j =>
    if j = m.k && m.tSeen && !m.over then
      if (specAt specs j).nextErr || !(decide (j + 1 < specs.length)) then { m with over := true }
      else { m with k := m.k + 1, iSeen := false, jSeen := false, tSeen := false }
    else { m with ok := false }
  | .R j t id => if j = m.k && !m.over then { m with hist := m.hist ++ [⟨t, id⟩] } else { m with ok := false }
  | .X _ => { m with ok := false }

def isPrefix [DecidableEq α] : List α → List α → Bool
  | [], _ => true
  | _ :: _, [] => false
  | a :: as, b :: bs => decide (a = b) && isPrefix as bs

/-- `delivered`: every message the environment handed to the channel, in order. -/
def holdsLog (specs : List Spec) (delivered : List Msg) (log : List LogEv) : Bool :=
  let m := log.foldl (monStep specs) {}
  m.ok && isPrefix m.hist delivered

def histOf (log : List LogEv) : List Msg :=
  log.filterMap fun | .R _ t id => some ⟨t, id⟩ | _ => none

def outcomeOk (specs : List Spec) (log : List LogEv) (o : Outcome) : Bool :=
  let m := log.foldl (monStep specs) {}
  match o with
  | .final k => m.over && k = m.k && decide (k + 1 = specs.length) && !(specAt specs k).nextErr
  | .errNext k => m.over && k = m.k && (specAt specs k).nextErr
  | .errInitiate k => !m.over && k = m.k && m.jSeen && (specAt specs k).initErr
  | .ctx => !m.over

def deliveredOf : List Ev → List Msg
  | [] => []
  | .msg _ m :: r => m :: deliveredOf r
  | .flood m c :: r => List.replicate c m ++ deliveredOf r
  | .busy m c :: r => busyMsgs m c ++ deliveredOf r
  | _ :: r => deliveredOf r

end KeepVerif.C15
