/-!
# C18 model: `channel.processContainerMessage` (pkg/net/libp2p/channel.go)

A decision function over one envelope.  Everything that is library behaviour is a field of `Lib`
(the theorems quantify over every `Lib`):

* `registered` / `decodePayload` : the unmarshaler registered for the envelope's type,
* `decodeIdentity`  : `identity.Unmarshal` = protobuf + `libp2pcrypto.UnmarshalPublicKey`,
* `peerIdOf`        : `peer.IDFromPublicKey` (total on decoded keys: an error of it is folded into
                      `decodeIdentity = none`, exactly as `identity.Unmarshal` returns the error),
* `toOperatorKey`   : `networkPublicKeyToOperatorPublicKey` followed by `MarshalUncompressed`.

The order of the checks is the order of the code: type, payload, identity, sender binding, key type.
The function has no state: the channel's only state read is the unmarshaler map.
-/
namespace KeepVerif.C18

structure Lib (Bytes PubKey PeerId OpKey Payload : Type) where
  registered : String → Bool
  decodePayload : String → Bytes → Option Payload
  decodeIdentity : Bytes → Option PubKey
  peerIdOf : PubKey → PeerId
  toOperatorKey : PubKey → Option OpKey

structure Envelope (Bytes PeerId : Type) where
  outer : PeerId      -- `pubsubMessage.GetFrom()`: the authenticated publisher
  typ : String
  payload : Bytes
  seq : Nat
  sender : Bytes      -- the identity inside the envelope
deriving DecidableEq, Repr

inductive Drop | type | payload | identity | mismatch | keytype
deriving DecidableEq, Repr

/-- the `net.Message` handed to `deliver`. -/
structure Delivered (PeerId OpKey Payload : Type) where
  sender : PeerId
  key : OpKey
  typ : String
  seq : Nat
  payload : Payload
deriving DecidableEq, Repr

variable {Bytes PubKey PeerId OpKey Payload : Type} [DecidableEq PeerId]

def process (L : Lib Bytes PubKey PeerId OpKey Payload) (e : Envelope Bytes PeerId) :
    Except Drop (Delivered PeerId OpKey Payload) :=
  if !L.registered e.typ then .error .type else
  match L.decodePayload e.typ e.payload with
  | none => .error .payload
  | some p =>
    match L.decodeIdentity e.sender with
    | none => .error .identity
    | some pk =>
      if L.peerIdOf pk ≠ e.outer then .error .mismatch else
      match L.toOperatorKey pk with
      | none => .error .keytype
      | some k => .ok ⟨L.peerIdOf pk, k, e.typ, e.seq, p⟩

/-- what reaches `deliver` for a sequence of envelopes processed by one channel. -/
def deliveries (L : Lib Bytes PubKey PeerId OpKey Payload) (es : List (Envelope Bytes PeerId)) :
    List (Delivered PeerId OpKey Payload) :=
  es.filterMap fun e => match process L e with | .ok d => some d | .error _ => none

/-! ## Monitor: the property stated directly on one (envelope, outcome) pair -/

/-- `d` is an authentic delivery of `e`: the type is registered, the payload is the decoded
    payload, the inner identity decodes to a key whose peer id is the authenticated publisher,
    and the delivered sender / key are that peer / that key. -/
def authentic [DecidableEq OpKey] [DecidableEq Payload]
    (L : Lib Bytes PubKey PeerId OpKey Payload) (e : Envelope Bytes PeerId)
    (d : Delivered PeerId OpKey Payload) : Bool :=
  L.registered e.typ &&
  L.decodePayload e.typ e.payload == some d.payload &&
  (match L.decodeIdentity e.sender with
   | none => false
   | some pk => L.peerIdOf pk == e.outer && L.toOperatorKey pk == some d.key) &&
  d.sender == e.outer && d.typ == e.typ && d.seq == e.seq

/-- could `e` be delivered at all? -/
def deliverable (L : Lib Bytes PubKey PeerId OpKey Payload) (e : Envelope Bytes PeerId) : Bool :=
  L.registered e.typ && (L.decodePayload e.typ e.payload).isSome &&
  (match L.decodeIdentity e.sender with
   | none => false
   | some pk => L.peerIdOf pk == e.outer && (L.toOperatorKey pk).isSome)

/-- outcome observed for one envelope: `some d` = exactly one message `d` reached `deliver`. -/
def holds1 [DecidableEq OpKey] [DecidableEq Payload]
    (L : Lib Bytes PubKey PeerId OpKey Payload) (e : Envelope Bytes PeerId)
    (o : Option (Delivered PeerId OpKey Payload)) : Bool :=
  match o with
  | some d => authentic L e d
  | none => !deliverable L e

def holds [DecidableEq OpKey] [DecidableEq Payload]
    (L : Lib Bytes PubKey PeerId OpKey Payload) :
    List (Envelope Bytes PeerId) → List (Option (Delivered PeerId OpKey Payload)) → Bool
  | [], [] => true
  | e :: es, o :: os => holds1 L e o && holds L es os
  | _, _ => false

end KeepVerif.C18
