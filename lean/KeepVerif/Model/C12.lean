/-!
# C12 model: sender admission of every protocol step

* `group.MembershipValidator.IsValidMembership` (pkg/protocol/group/membership_validator.go) with the
  `uint8` arithmetic of `int(memberID - 1)` (index 0 wraps to 255),
* `group.Group.IsOperating` (pkg/protocol/group/group.go; `NewGroup` fills `MemberIndex(i+1)`, which
  wraps for a size above 255),
* the admission condition of every step that consumes protocol messages:
  gjkr `memberCore.shouldAcceptMessage` + session (pkg/beacon/gjkr/states.go),
  beacon result signing (pkg/beacon/dkg/result/states.go), tecdsa dkg / signing states,
  tecdsa dkg result signing, inactivity claim signing, announcer loop, coordination follower
  routine, signing-done check.

Addresses, keys, session ids, protocol ids, wallet hashes are natural-number identifiers: the code only
compares them for equality.  `addr key` (chain `PublicKeyBytesToAddress`) is a parameter of the
validator model.
-/
namespace KeepVerif.C12

/-- `MembershipValidator.members[address]` : positions (0-based) of the operator in the group,
    in the order `NewMembershipValidator` appends them. -/
def positionsFrom (ops : List Nat) (a : Nat) (start : Nat) : List Nat :=
  match ops with
  | [] => []
  | o :: rest => if o = a then start :: positionsFrom rest a (start + 1) else positionsFrom rest a (start + 1)

def positions (ops : List Nat) (a : Nat) : List Nat := positionsFrom ops a 0

/-- `IsValidMembership(memberID, publicKey)` where `a` is the address of the public key.
    `index := int(memberID - 1)` is computed in `uint8`. -/
def isValidMembership (ops : List Nat) (idx : UInt8) (a : Nat) : Bool :=
  let ps := positions ops a
  if ps.isEmpty then false else ps.any (fun p => p == (idx - 1).toNat)

/-- `group.NewGroup(_, size).memberIndexes` -/
def memberIndexes (size : Nat) : List UInt8 :=
  (List.range size).map (fun i => UInt8.ofNat (i + 1))

structure Group where
  size : Nat
  ia : List UInt8
  dq : List UInt8

/-- `Group.IsOperating` -/
def Group.isOperating (g : Group) (idx : UInt8) : Bool :=
  (memberIndexes g.size).contains idx && !g.ia.contains idx && !g.dq.contains idx

/-- The protocol steps that consume messages. -/
inductive Step where
  | gjkr | beaconResult | tecdsaDkg | tecdsaSigning | tecdsaResult | inactivity
  | announcer | follower | done
  deriving DecidableEq, Repr

/-- Receiver side. Fields that a step does not use are ignored by it. -/
structure Ctx where
  ops : List Nat            -- operator address of every seat (validator input)
  group : Group             -- the step's group (state machine steps only)
  selfs : List UInt8        -- own member index (one element) / own indices (follower)
  session : Nat             -- session id; done: the message being signed
  aux1 : Nat                -- announcer: protocol id; follower: wallet public key hash; done: attempt number
  aux2 : Nat                -- follower: coordination block; done: attempt timeout block
  leaderID : UInt8          -- follower: first seat of the leader
  allowed : List Nat        -- follower: allowed action types; done: member indexes of the signing attempt
  doneSigners : List UInt8  -- done: senders already recorded

/-- One received message: claimed index, authenticated network key, and the bound fields. -/
structure Msg where
  idx : UInt8
  netKey : Nat              -- key the network layer authenticated
  msgKey : Nat              -- key carried inside signature messages
  session : Nat
  aux1 : Nat
  aux2 : Nat                -- follower: coordination block; done: end block
  action : Nat              -- follower: proposed action type
  hasSig : Bool             -- done: signature present

inductive Outcome where
  | stored        -- message kept / member marked ready / done recorded / proposal returned
  | dropped       -- ignored
  | faultImpersonation
  | faultMistake
  deriving DecidableEq, Repr

def selfIdx (c : Ctx) : UInt8 := c.selfs.headD 0

/-- the six textual copies of `shouldAcceptMessage`.  (gjkr's two accusation states use
    `shouldAcceptAccusationMessage`: same conjuncts, with "operating" evaluated on the snapshot
    `accusers = OperatingMemberIndexes()` taken by `Initiate` before the member's own verification;
    the group of the model is that snapshot.) -/
def shouldAccept (addr : Nat → Nat) (c : Ctx) (m : Msg) : Bool :=
  !(m.idx == selfIdx c) && isValidMembership c.ops m.idx (addr m.netKey) && c.group.isOperating m.idx

def ofBool (b : Bool) : Outcome := if b then .stored else .dropped

/-- what the step does with one message -/
def admitMsg (addr : Nat → Nat) (s : Step) (c : Ctx) (m : Msg) : Outcome :=
  match s with
  | .gjkr | .tecdsaDkg | .tecdsaSigning =>
    ofBool (shouldAccept addr c m && c.session == m.session)
  | .beaconResult | .tecdsaResult | .inactivity =>
    ofBool (shouldAccept addr c m && m.msgKey == m.netKey && c.session == m.session)
  | .announcer =>
    ofBool (!(m.idx == selfIdx c) && isValidMembership c.ops m.idx (addr m.netKey)
      && m.aux1 == c.aux1 && m.session == c.session)
  | .follower =>
    if c.selfs.contains m.idx then .dropped
    else if !isValidMembership c.ops m.idx (addr m.netKey) then .dropped
    else if c.aux2 != m.aux2 then .dropped
    else if c.aux1 != m.aux1 then .dropped
    else if c.leaderID != m.idx then .faultImpersonation
    else if !c.allowed.contains m.action then .faultMistake
    else .stored
  | .done =>
    ofBool (!c.doneSigners.contains m.idx && c.allowed.contains m.idx.toNat
      && isValidMembership c.ops m.idx (addr m.netKey)
      && m.session == c.session && m.aux1 == c.aux1 && decide (m.aux2 ≤ c.aux2) && m.hasSig)

/-- "the step acted on the message" : anything but ignoring it. (A leader-impersonation fault is an
    action too: it blames the authenticated sender.) -/
def acted (o : Outcome) : Bool := o != .dropped

/-- the sender controls the claimed seat -/
def controls (ops : List Nat) (idx : UInt8) (a : Nat) : Bool :=
  decide (1 ≤ idx.toNat) && decide (idx.toNat ≤ ops.length) && (ops[idx.toNat - 1]? == some a)

/-- the 0-based position looked up (the wrap-around made explicit) -/
def lookedUp (idx : UInt8) : Nat := (idx - 1).toNat

/-- the step's own-seat exclusion (the done-check counts the member's own done message, by design) -/
def notSelf (s : Step) (c : Ctx) (m : Msg) : Bool :=
  match s with
  | .follower => !c.selfs.contains m.idx
  | .done => true
  | _ => !(m.idx == selfIdx c)

/-- the step's documented bindings besides membership -/
def bindings (s : Step) (c : Ctx) (m : Msg) (o : Outcome) : Bool :=
  match s with
  | .gjkr | .tecdsaDkg | .tecdsaSigning => c.group.isOperating m.idx && c.session == m.session
  | .beaconResult | .tecdsaResult | .inactivity =>
      c.group.isOperating m.idx && c.session == m.session && m.msgKey == m.netKey
  | .announcer => m.aux1 == c.aux1 && m.session == c.session
  | .follower => c.aux1 == m.aux1 && c.aux2 == m.aux2 &&
      (o != .stored || (m.idx == c.leaderID && c.allowed.contains m.action))
  | .done => !c.doneSigners.contains m.idx && c.allowed.contains m.idx.toNat && m.session == c.session && m.aux1 == c.aux1
      && decide (m.aux2 ≤ c.aux2) && m.hasSig

/-- Monitor: the property on one observed case — whatever the implementation did with the message,
    if it acted then the sender controls the claimed seat (validator over at most 255 seats; above
    that `MemberIndex` cannot name every seat and only the validator's own verdict is required), it is
    not the receiver's own seat, and the step's documented bindings hold.  Fault outcomes exist only in
    the follower. -/
def holds (addr : Nat → Nat) (s : Step) (c : Ctx) (m : Msg) (o : Outcome) : Bool :=
  if !acted o then true
  else if (o == .faultImpersonation || o == .faultMistake) && s != .follower then false
  else
    (if c.ops.length > 255 then isValidMembership c.ops m.idx (addr m.netKey)
     else controls c.ops m.idx (addr m.netKey))
    && notSelf s c m && bindings s c m o

/-! ## Histories: a step receives a list of messages.  Only the done-check carries state between
messages that matters for admission (`doneSigners`: one done message per sender).  The state machine
steps append to a list, the announcer adds to a set; the follower routine returns at the first
accepted proposal (the harness starts a fresh routine per message). -/

/-- state after the implementation's observed outcome -/
def nextCtx (s : Step) (c : Ctx) (m : Msg) (o : Outcome) : Ctx :=
  if s = .done ∧ o = .stored then { c with doneSigners := m.idx :: c.doneSigners } else c

/-- outcomes of a message list, with the step's state threading -/
def run (addr : Nat → Nat) (s : Step) (c : Ctx) : List Msg → List Outcome
  | [] => []
  | m :: ms =>
    let o := admitMsg addr s c m
    o :: run addr s (nextCtx s c m o) ms

/-- monitor over a history: every observed outcome satisfies `holds` in the state reached by the
    *observed* outcomes before it. -/
def holdsRun (addr : Nat → Nat) (s : Step) (c : Ctx) : List Msg → List Outcome → Bool
  | [], [] => true
  | m :: ms, o :: os => holds addr s c m o && holdsRun addr s (nextCtx s c m o) ms os
  | _, _ => false

/-- monitor for the bare validator call -/
def holdsMv (ops : List Nat) (idx : UInt8) (a : Nat) (res : Bool) : Bool :=
  !res || (if ops.length > 255 then isValidMembership ops idx a else controls ops idx a)

/-- `wallet.membersByOperator(leader)[0]` : the leader's seats as `MemberIndex(i+1)` (which wraps above
    255 seats), sorted ascending by `slices.Sort`; the first element is the smallest *wrapped* index.
    For at most 255 seats this is the leader's first seat. -/
def firstSeat (ops : List Nat) (leader : Nat) : Option UInt8 :=
  match (positions ops leader).map (fun p => UInt8.ofNat (p + 1)) with
  | [] => none
  | x :: xs => some (xs.foldl (fun a b => if b.toNat < a.toNat then b else a) x)

/-! ## One announcement window / one follower routine over a whole history

Admission is a per-message predicate: neither loop keeps state that may influence admission of a later
message (the announcer only adds to its ready set, the follower only appends faults). -/

/-- insert into a strictly increasing list (by `toNat`), dropping duplicates -/
def insertSorted (x : UInt8) : List UInt8 → List UInt8
  | [] => [x]
  | y :: ys => if x.toNat < y.toNat then x :: y :: ys else if x = y then y :: ys else y :: insertSorted x ys

def sortDedup (xs : List UInt8) : List UInt8 := xs.foldr insertSorted []

/-- `Announce`: sorted ready list = own index and the claimed index of every admitted announcement -/
def readyList (addr : Nat → Nat) (c : Ctx) (ms : List Msg) : List UInt8 :=
  sortDedup (selfIdx c :: (ms.filter (fun m => admitMsg addr .announcer c m == .stored)).map (·.idx))

/-- monitor for an observed ready list: own index present, every other ready index was announced in
    this window by a key that controls it (with the right protocol and session). -/
def holdsReady (addr : Nat → Nat) (c : Ctx) (ms : List Msg) (ready : List UInt8) : Bool :=
  ready.contains (selfIdx c) &&
  ready.all (fun i => i == selfIdx c || ms.any (fun m => m.idx == i && holds addr .announcer c m .stored))

/-- `executeFollowerRoutine` over a history: the acted-on messages with their positions, up to and
    including the first accepted proposal -/
def followerTrace (addr : Nat → Nat) (c : Ctx) : List Msg → Nat → List (Outcome × Nat)
  | [], _ => []
  | m :: ms, pos =>
    match admitMsg addr .follower c m with
    | .dropped => followerTrace addr c ms (pos + 1)
    | .stored => [(.stored, pos)]
    | o => (o, pos) :: followerTrace addr c ms (pos + 1)

/-- monitor for an observed follower run: every recorded fault is justified by some message of the
    history whose sender controls the claimed seat in this window and wallet; a returned proposal is
    the one of message `pos`, sent by the leader's own seat with an allowed action. -/
def holdsTrace (addr : Nat → Nat) (c : Ctx) (ms : List Msg) (faults : List Outcome) (accepted : Option Nat) : Bool :=
  faults.all (fun o => (o == .faultImpersonation || o == .faultMistake) &&
      ms.any (fun m => holds addr .follower c m o)) &&
  (match accepted with
   | none => true
   | some pos => match ms[pos]? with
     | some m => holds addr .follower c m .stored
     | none => false)

def traceFaults (t : List (Outcome × Nat)) : List Outcome := (t.filter (fun e => e.1 != .stored)).map (·.1)

def traceAccepted (t : List (Outcome × Nat)) : Option Nat := (t.find? (fun e => e.1 == .stored)).map (·.2)

/-- gjkr accusation states run through their own `Initiate`: `MarkInactiveMembers` marks every operating
    member other than the receiver that sent no message in the previous phase (`active` = senders of
    the previous phase) as inactive, and only then the `accusers` snapshot is taken — a member that
    went silent in the previous phase is already excluded when its accusation arrives. -/
def markInactive (g : Group) (self : UInt8) (active : List Nat) : Group :=
  { g with ia := g.ia ++ (memberIndexes g.size).filter (fun i => !(i == self) && !active.contains i.toNat) }

/-! ## Session identifiers of the tbtc signing retry loop (`signingExecutor.sign`) -/

/-- little-endian digits of `n` in base `b` (fuel `n` suffices for `b ≥ 2`) -/
def digitsAux (b : Nat) : Nat → Nat → List Nat
  | 0, _ => []
  | fuel + 1, n => if n = 0 then [] else (n % b) :: digitsAux b fuel (n / b)

def digits (b n : Nat) : List Nat := digitsAux b n n

def ofDigits (b : Nat) : List Nat → Nat
  | [] => 0
  | d :: ds => d + b * ofDigits b ds

/-- lower-case hexadecimal / decimal digit characters (`big.Int.Text(16)`, `%v` of a uint) -/
def digitChar (d : Nat) : Char := if d < 10 then Char.ofNat (48 + d) else Char.ofNat (87 + d)

def digitVal (c : Char) : Nat := if c.toNat < 58 then c.toNat - 48 else c.toNat - 87

def showBase (b n : Nat) : List Char :=
  if n = 0 then ['0'] else ((digits b n).reverse).map digitChar

/-- `fmt.Sprintf("%v-%v", message.Text(16), attempt.number)` -/
def sessionChars (message attempt : Nat) : List Char :=
  showBase 16 message ++ '-' :: showBase 10 attempt

def sessionId (message attempt : Nat) : String := String.ofList (sessionChars message attempt)

end KeepVerif.C12
