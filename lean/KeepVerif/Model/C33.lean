import KeepVerif.Gen.C33
/-!
# C33 model: proposal discovery (pkg/tbtcpg)

* `findDeposits` (deposit_sweep.go), `findPendingRedemptions` (redemptions.go),
  `ProposalGenerator.Generate` (tbtcpg.go), modelled as the loops they are.
* Times are seconds (`Nat`); `now` is a parameter (the code calls `time.Now()`).
  `timeNow.After(revealedAt.Add(minAge))` is `revealedAt + minAge < now`;
  `requestedAt.Before(now.Add(-timeout))` is `requestedAt + timeout < now`;
  `requestedAt.After(now.Add(-minAge))` is `now < requestedAt + minAge`.
* `sort.SliceStable` is the (unique) stable sort: insertion sort `sortBy`.
* The Go map `eventsSet` is iterated in arbitrary order: the iteration order `ord` is a
  *parameter* of `findPendingRedemptions`; theorems hold for every order.
* A failing chain call is an explicit `Lookup.err` / `none`.
-/
namespace KeepVerif.C33

abbrev requiredConf : Nat := Gen.C33.depositSweepRequiredFundingTxConfirmations

/-! ## stable sort -/

def insertBy {α} (k : α → Nat) (x : α) : List α → List α
  | [] => [x]
  | y :: ys => if k x ≤ k y then x :: y :: ys else y :: insertBy k x ys

/-- stable sort by `k`, ascending -/
def sortBy {α} (k : α → Nat) : List α → List α
  | [] => []
  | x :: xs => insertBy k x (sortBy k xs)

inductive Lookup (α : Type) where
  | err
  | notFound
  | found (a : α)
deriving DecidableEq, Repr

/-! ## deposits -/

structure DepEvent where
  block : Nat
  wallet : Nat
  tx : Nat
  idx : Nat
deriving DecidableEq, Repr

structure DepReq where
  revealedAt : Nat
  sweptAt : Nat
deriving DecidableEq, Repr

structure DepCfg where
  now : Nat
  minAge : Nat
  /-- `maxNumberOfDeposits` (an `int`) -/
  max : Int
  skipSwept : Bool
  skipUnconfirmed : Bool
  /-- `chain.GetDepositRequest` -/
  req : Nat → Nat → Lookup DepReq
  /-- `btcChain.GetTransactionConfirmations`; an error is logged and counts as 0 -/
  conf : Nat → Nat

/-- an entry of the result: the event plus the looked-up details the code copies -/
structure Deposit where
  ev : DepEvent
  isSwept : Bool
  confirmations : Nat
deriving DecidableEq, Repr

inductive DepStatus where
  | ok | errRequest | errNotFound
deriving DecidableEq, Repr

/-- the chain's `PastDepositRevealedEvents(filter)`: the filter carries the wallet unless it is the
    zero hash (`wallet = 0`) -/
def chainDepEvents (wallet : Nat) (events : List DepEvent) : List DepEvent :=
  if wallet = 0 then events else events.filter (fun e => e.wallet == wallet)

def capOf (max : Int) (n : Nat) : Nat := if max > 0 then max.toNat else n

/-- the three `continue` conditions, negated -/
def depEligible (cfg : DepCfg) (e : DepEvent) (r : DepReq) : Bool :=
  decide (r.revealedAt + cfg.minAge < cfg.now) &&
  !(cfg.skipSwept && r.sweptAt != 0) &&
  !(cfg.skipUnconfirmed && decide (cfg.conf e.tx < requiredConf))

def mkDeposit (cfg : DepCfg) (e : DepEvent) (r : DepReq) : Deposit :=
  ⟨e, r.sweptAt != 0, cfg.conf e.tx⟩

/-- the `for _, event := range depositRevealedEvents` loop; `acc` is `result`, `cap` its capacity -/
def depLoop (cfg : DepCfg) (cap : Nat) : List DepEvent → List Deposit → DepStatus × List Deposit
  | [], acc => (.ok, acc)
  | e :: es, acc =>
    if acc.length = cap then (.ok, acc) else
    match cfg.req e.tx e.idx with
    | .err => (.errRequest, acc)
    | .notFound => (.errNotFound, [])
    | .found r =>
      if depEligible cfg e r then depLoop cfg cap es (acc ++ [mkDeposit cfg e r])
      else depLoop cfg cap es acc

/-- `findDeposits` after the minimum age and the events were read successfully -/
def findDeposits (cfg : DepCfg) (wallet : Nat) (events : List DepEvent) : DepStatus × List Deposit :=
  let evs := sortBy (·.block) (chainDepEvents wallet events)
  depLoop cfg (capOf cfg.max evs.length) evs []

/-! ### deposits: closed form (the property statement), used as the monitor -/

def depFound (cfg : DepCfg) (e : DepEvent) : Bool :=
  match cfg.req e.tx e.idx with
  | .found _ => true
  | _ => false

def depEligibleEv (cfg : DepCfg) (e : DepEvent) : Bool :=
  match cfg.req e.tx e.idx with
  | .found r => depEligible cfg e r
  | _ => false

def depOf (cfg : DepCfg) (e : DepEvent) : Deposit :=
  match cfg.req e.tx e.idx with
  | .found r => mkDeposit cfg e r
  | _ => ⟨e, false, 0⟩

def depErrOf (cfg : DepCfg) (e : DepEvent) : DepStatus × Bool :=
  match cfg.req e.tx e.idx with
  | .err => (.errRequest, true)
  | _ => (.errNotFound, false)

/-- closed form over an already ordered event list -/
def depSpecOn (cfg : DepCfg) (cap : Nat) (evs : List DepEvent) : DepStatus × List Deposit :=
  let pre := evs.takeWhile (depFound cfg)
  let el := (pre.filter (depEligibleEv cfg)).map (depOf cfg)
  match evs.dropWhile (depFound cfg) with
  | [] => (.ok, el.take cap)
  | bad :: _ =>
    if cap ≤ el.length then (.ok, el.take cap)
    else ((depErrOf cfg bad).1, if (depErrOf cfg bad).2 then el else [])

/-- **The property for deposits**: the first `cap` eligible events in (stable) reveal-block order;
    a failing lookup only matters if it is reached before the result is full. -/
def depSpec (cfg : DepCfg) (wallet : Nat) (events : List DepEvent) : DepStatus × List Deposit :=
  let evs := sortBy (·.block) (chainDepEvents wallet events)
  depSpecOn cfg (capOf cfg.max evs.length) evs

def holdsDep (cfg : DepCfg) (wallet : Nat) (events : List DepEvent) (res : DepStatus × List Deposit) : Bool :=
  res == depSpec cfg wallet events

/-! ## redemptions -/

structure Key where
  wallet : Nat
  script : Nat
deriving DecidableEq, Repr

structure RedEvent where
  block : Nat
  key : Key
deriving DecidableEq, Repr

structure RedCfg where
  now : Nat
  timeout : Nat
  minAge : Nat
  limit : Nat
  /-- `chain.GetPendingRedemptionRequest`: `RequestedAt` -/
  pending : Key → Lookup Nat
  /-- `chain.GetRedemptionDelay`, `none` = error -/
  delay : Key → Option Nat

structure Pending where
  key : Key
  requestedAt : Nat
deriving DecidableEq, Repr

inductive RedStatus where
  | ok | errPending | errDelay
deriving DecidableEq, Repr

/-- `filterStartBlock` -/
def filterStartBlock (current timeout avgBlockTime : Nat) : Nat :=
  let lookback := timeout / avgBlockTime + 1000
  if current > lookback then current - lookback else 0

/-- the chain's `PastRedemptionRequestedEvents(filter)` -/
def chainRedEvents (wallet start : Nat) (events : List RedEvent) : List RedEvent :=
  events.filter (fun e => decide (start ≤ e.block) && (wallet == 0 || e.key.wallet == wallet))

/-- the keys of `eventsSet` (one entry per redemption key; the stored event is determined by the
    key, so which duplicate "wins" is not observable) -/
def mapKeys (events : List RedEvent) : List Key := (events.map (·.key)).eraseDups

/-- the `for redemptionKey, event := range eventsSet` loop in iteration order `ord` -/
def collect (cfg : RedCfg) : List Key → Option (List Pending)
  | [] => some []
  | k :: ks =>
    match cfg.pending k with
    | .err => none
    | .notFound => collect cfg ks
    | .found t => (collect cfg ks).map (fun r => ⟨k, t⟩ :: r)

def timedOut (cfg : RedCfg) (p : Pending) : Bool := decide (p.requestedAt + cfg.timeout < cfg.now)

def effMinAge (cfg : RedCfg) (d : Nat) : Nat := if d > cfg.minAge then d else cfg.minAge

def tooYoung (cfg : RedCfg) (p : Pending) (d : Nat) : Bool :=
  decide (cfg.now < p.requestedAt + effMinAge cfg d)

/-- the final selection loop -/
def selectLoop (cfg : RedCfg) (cap : Nat) : List Pending → List Pending → RedStatus × List Pending
  | [], acc => (.ok, acc)
  | p :: ps, acc =>
    if acc.length = cap then (.ok, acc) else
    if timedOut cfg p then selectLoop cfg cap ps acc else
    match cfg.delay p.key with
    | none => (.errDelay, [])
    | some d =>
      if tooYoung cfg p d then selectLoop cfg cap ps acc
      else selectLoop cfg cap ps (acc ++ [p])

/-- `findPendingRedemptions` given the events the chain returned and the map iteration order -/
def findPendingRedemptions (cfg : RedCfg) (ord : List Key) : RedStatus × List Pending :=
  match collect cfg ord with
  | none => (.errPending, [])
  | some ps =>
    let sorted := sortBy (·.requestedAt) ps
    selectLoop cfg (if cfg.limit > 0 then cfg.limit else ps.length) sorted []

/-- in the age window `[now - timeout, now - max(minAge, delay)]` -/
def inWindow (cfg : RedCfg) (p : Pending) : Bool :=
  match cfg.delay p.key with
  | some d => !timedOut cfg p && !tooYoung cfg p d
  | none => false

/-- monitor for redemptions, declarative and independent of the map order: the result is
    duplicate-free, every entry is a pending request of a key in the event set with the looked-up
    time, inside the age window; ages are non-decreasing (oldest first); the limit is respected;
    and every eligible request that was left out is not older than any selected one, and is left
    out only if the limit was reached. Errors are only reported if some lookup can fail. -/
def pendingOf (cfg : RedCfg) (k : Key) : Option Pending :=
  match cfg.pending k with
  | .found t => some ⟨k, t⟩
  | _ => none

def holdsRed (cfg : RedCfg) (keys : List Key) (res : RedStatus × List Pending) : Bool :=
  match res.1 with
  | .errPending => keys.any (fun k => cfg.pending k == .err) && res.2.isEmpty
  | .errDelay =>
    !keys.any (fun k => cfg.pending k == .err) &&
    keys.any (fun k => (pendingOf cfg k).isSome && cfg.delay k == none) &&
    res.2.isEmpty
  | .ok =>
    let out := res.2
    !keys.any (fun k => cfg.pending k == .err) &&
    decide ((out.map (·.key)).Nodup) &&
    out.all (fun p => keys.contains p.key && cfg.pending p.key == .found p.requestedAt && inWindow cfg p) &&
    decide (out.Pairwise (fun a b => a.requestedAt ≤ b.requestedAt)) &&
    (cfg.limit == 0 || decide (out.length ≤ cfg.limit)) &&
    ((keys.filterMap (pendingOf cfg)).filter (inWindow cfg)).all (fun e => out.contains e ||
      (cfg.limit != 0 && decide (cfg.limit ≤ out.length) &&
        out.all (fun p => decide (p.requestedAt ≤ e.requestedAt))))

/-! ## proposal generator -/

inductive Outcome where
  | proposal | empty | error
deriving DecidableEq, Repr

structure Task where
  action : Nat
  outcome : Outcome
deriving DecidableEq, Repr

inductive GenRes where
  | proposal (task : Nat)   -- index of the task whose proposal is returned
  | error (task : Nat)
  | noop
deriving DecidableEq, Repr

/-- `slices.IndexFunc(pg.tasks, …)` from index `i` -/
def indexOf (action : Nat) : Nat → List Task → Option (Nat × Task)
  | _, [] => none
  | i, t :: ts => if t.action = action then some (i, t) else indexOf action (i + 1) ts

/-- `Generate`: result and the indices of the tasks that were run, in order -/
def generate (tasks : List Task) : List Nat → GenRes × List Nat
  | [] => (.noop, [])
  | a :: as =>
    match indexOf a 0 tasks with
    | none => generate tasks as
    | some (i, t) =>
      match t.outcome with
      | .error => (.error i, [i])
      | .proposal => (.proposal i, [i])
      | .empty => let r := generate tasks as; (r.1, i :: r.2)

/-- **The property for `Generate`**, declarative: the supported checklist entries are the ones with
    a task (the first task of that action type); the tasks run are exactly the prefix of them up to
    and including the first non-empty outcome, whose result is returned; otherwise no-op. -/
def genSpec (tasks : List Task) (checklist : List Nat) : GenRes × List Nat :=
  let supported := checklist.filterMap (fun a => indexOf a 0 tasks)
  let pre := supported.takeWhile (fun it => it.2.outcome == .empty)
  match supported.dropWhile (fun it => it.2.outcome == .empty) with
  | [] => (.noop, pre.map (·.1))
  | it :: _ =>
    ((if it.2.outcome == .proposal then .proposal it.1 else .error it.1), pre.map (·.1) ++ [it.1])

def holdsGen (tasks : List Task) (checklist : List Nat) (res : GenRes × List Nat) : Bool :=
  res == genSpec tasks checklist

/-! ## the real tasks inside `Generate` -/

/-- `DepositSweepTask.Run`: an error of the discovery is an error of the task, no deposits = no
    result, otherwise a proposal over exactly the discovered deposits (proposal validation is the
    chain's, assumed to accept) -/
def sweepOutcome (r : DepStatus × List Deposit) : Outcome :=
  if r.1 != .ok then .error else if r.2.isEmpty then .empty else .proposal

/-- `RedemptionTask.Run` -/
def redOutcome (r : RedStatus × List Pending) : Outcome :=
  if r.1 != .ok then .error else if r.2.isEmpty then .empty else .proposal

/-- the production task list restricted to the two discovery tasks of this property
    (`ActionDepositSweep = 2`, `ActionRedemption = 3`) -/
def fullTasks (d : DepStatus × List Deposit) (r : RedStatus × List Pending) : List Task :=
  [⟨2, sweepOutcome d⟩, ⟨3, redOutcome r⟩]

end KeepVerif.C33
