import KeepVerif.Gen.C23
/-!
# C23 model: `watchCoordinationWindows` (pkg/tbtc/coordination.go)

The watcher loop is a fold over the observed block stream with one piece of state,
`lastWindow : Option Nat` (`nil` pointer = `none`).  `go onWindowFn(window)` is an output.
Cancellation only ends the loop, i.e. truncates the stream: every theorem is over *all*
finite streams, hence over every prefix.
-/
namespace KeepVerif.C23

abbrev freq : Nat := Gen.C23.coordinationFrequencyBlocks

/-- `coordinationWindow.index` -/
def index (block : Nat) : Nat := if block % freq = 0 then block / freq else 0

/-- `coordinationWindow.isAfter` -/
def isAfter (block : Nat) (last : Option Nat) : Bool :=
  match last with
  | none => true
  | some l => decide (block > l)

/-- one iteration of the `select` loop on a received block:
    new `lastWindow` and the window handed to `onWindowFn`, if any. -/
def step (last : Option Nat) (block : Nat) : Option Nat × Option Nat :=
  if index block > 0 ∧ isAfter block last then (some block, some block) else (last, none)

/-- blocks for which `onWindowFn` is started, in order, from state `last`. -/
def watchFrom : Option Nat → List Nat → List Nat
  | _, [] => []
  | last, b :: bs =>
    match step last b with
    | (last', some w) => w :: watchFrom last' bs
    | (last', none) => watchFrom last' bs

def watch (blocks : List Nat) : List Nat := watchFrom none blocks

end KeepVerif.C23
