import KeepVerif.Gen.C11
import KeepVerif.Model.C10
/-!
# C11 model: the block arithmetic of `signingRetryLoop.start` and `dkgRetryLoop.start` (pkg/tbtc)

Both loops are recursions over a *script*: one entry per loop iteration saying what the
collaborators (block counter, announcer, attempt function, done check) do in that iteration.  The
loop state is `(attemptCounter, attemptStartBlock)`; every failure path is a `continue`, so the
script never influences the state — which is what the theorems of `Props/C11.lean` establish for
every script.  Events carry the attempt number (and, for the signing loop, the block the member
observed) so that the theorems can speak about them; the driver prints only what the real
collaborators see.

Constants come from `Gen/C11.lean` (extracted from the source on every run).
-/
namespace KeepVerif.C11
open KeepVerif.C09 KeepVerif.C10

structure Consts where
  delay : Nat
  active : Nat
  protocol : Nat
  cooldown : Nat
  /-- value returned by `signingAttemptMaximumBlocks()` / `dkgAttemptMaximumBlocks()` -/
  maxBlocks : Nat
  deriving Repr

def signingConsts : Consts :=
  ⟨Gen.C11.signingDelay, Gen.C11.signingActive, Gen.C11.signingProtocol, Gen.C11.signingCoolDown,
   Gen.C11.signingMaxBlocks⟩

def dkgConsts : Consts :=
  ⟨Gen.C11.dkgDelay, Gen.C11.dkgActive, Gen.C11.dkgProtocol, Gen.C11.dkgCoolDown, Gen.C11.dkgMaxBlocks⟩

/-! ## windows of attempt `n ≥ 1` as closed forms of `(s₀, n)` -/

def startOf (c : Consts) (s0 n : Nat) : Nat := s0 + (n - 1) * c.maxBlocks
def annStart (c : Consts) (s0 n : Nat) : Nat := startOf c s0 n + c.delay
def annEnd (c : Consts) (s0 n : Nat) : Nat := annStart c s0 n + c.active
def timeoutOf (c : Consts) (s0 n : Nat) : Nat := annEnd c s0 n + c.protocol

/-- `attemptCounter++; if attemptCounter > 1 { attemptStartBlock += MaximumBlocks() }` -/
def nextStart (c : Consts) (counter startBlock : Nat) : Nat :=
  if counter + 1 > 1 then startBlock + c.maxBlocks else startBlock

/-! ## events -/

inductive Ev where
  /-- `getCurrentBlockFn()` -/
  | cur (n : Nat)
  /-- `waitForBlockFn(ctx, announcementStartBlock)` on the loop's goroutine -/
  | wait (n block : Nat)
  /-- `waitForBlockFn(ctx, announcementEndBlock)` on the announcement-stop goroutine -/
  | asyncAnn (n block : Nat)
  /-- `waitForBlockFn(ctx, timeoutBlock)` on the done-check-timeout goroutine -/
  | asyncTimeout (n block : Nat)
  /-- `announcer.Announce(…, "<msg>-<n>")`; `seen` = the current block the member had observed -/
  | announce (n : Nat) (seen : Option Nat)
  | listen (n timeout : Nat) (included : List Nat)
  | attempt (n start timeout : Nat) (excluded : List Nat) (seen : Option Nat)
  /-- the DKG loop's call of the attempt function; `readyCount` = number of members the announcer
      had returned in that iteration -/
  | dattempt (n start timeout : Nat) (excluded : List Nat) (readyCount : Nat)
  | signal (n : Nat)
  | waitDone (n : Nat)
  | retOk (n timeout : Nat)
  | retCtx
  | retLimit
  | retWaitErr
  | retSelErr
  | retPanic
  deriving DecidableEq, Repr

/-- what the attempt function / done check do in an iteration -/
inductive Fn where
  | attemptErr | signalErr | waitDoneErr | success
  deriving DecidableEq, Repr

/-- one scripted iteration of the signing loop -/
structure SStep where
  /-- `getCurrentBlockFn` result (`none` = error) -/
  cur : Option Nat
  waitErr : Bool
  annErr : Bool
  ready : List Nat
  fn : Fn
  deriving Repr

/-- Signing loop.  `sel n ready` is `performMembersSelection` at attempt `n` (model C10, or any
    other function: the window theorems hold for every `sel`). -/
def sgLoop (c : Consts) (sel : Nat → List Nat → Out) (groupSize thr member : Nat) :
    Nat → Nat → List SStep → List Ev
  | k, _, [] => [.cur (k + 1), .retCtx]   -- script over: the block counter fails and the context ends
  | k, sb, st :: rest =>
    let n := k + 1
    let sb' := nextStart c k sb
    let as := sb' + c.delay
    let ae := as + c.active
    let next := sgLoop c sel groupSize thr member n sb' rest
    match st.cur with
    | none => .cur n :: next
    | some cur =>
      if ae ≤ cur then .cur n :: next
      else if st.waitErr then .cur n :: .wait n as :: next
      else if st.annErr then .cur n :: .wait n as :: .asyncAnn n ae :: .announce n (some cur) :: next
      else if st.ready.length < thr then
        .cur n :: .wait n as :: .asyncAnn n ae :: .announce n (some cur) :: next
      else
        match sel n st.ready with
        | .err => [.cur n, .wait n as, .asyncAnn n ae, .announce n (some cur), .retSelErr]
        | .panic => [.cur n, .wait n as, .asyncAnn n ae, .announce n (some cur), .retPanic]
        | .ok excluded =>
        let mem := (List.range groupSize).map (· + 1)
        let included := mem.filter (fun m => !excluded.contains m)
        let to := ae + c.protocol
        let pre := [.cur n, .wait n as, .asyncAnn n ae, .announce n (some cur), .asyncTimeout n to,
                    .listen n to included]
        if excluded.contains member then
          match st.fn with
          | .success => pre ++ [.waitDone n, .retOk n to]
          | _ => pre ++ .waitDone n :: next
        else
          match st.fn with
          | .attemptErr => pre ++ .attempt n ae to excluded (some cur) :: next
          | .signalErr => pre ++ .attempt n ae to excluded (some cur) :: .signal n :: next
          | .waitDoneErr => pre ++ .attempt n ae to excluded (some cur) :: .signal n :: .waitDone n :: next
          | .success => pre ++ [.attempt n ae to excluded (some cur), .signal n, .waitDone n, .retOk n to]

def sgRun (c : Consts) (sel : Nat → List Nat → Out) (groupSize thr member s0 : Nat)
    (script : List SStep) : List Ev :=
  sgLoop c sel groupSize thr member 0 s0 script

/-- one scripted iteration of the DKG loop -/
structure DStep where
  waitErr : Bool
  annErr : Bool
  ready : List Nat
  fnErr : Bool
  deriving Repr

/-- DKG loop; `attemptsLimit` = length of the script (> 0).  The selection is `C10.dkgSelection`
    with the permutation family of the loop's seeded source. -/
def dkLoop (c : Consts) (shuf : Nat → List Nat) (ops : List Addr) (quorum member : Nat) :
    Nat → Nat → List DStep → List Ev
  | _, _, [] => [.retLimit]
  | k, sb, st :: rest =>
    let n := k + 1
    let sb' := nextStart c k sb
    let as := sb' + c.delay
    let ae := as + c.active
    let next := dkLoop c shuf ops quorum member n sb' rest
    if st.waitErr then [.wait n as, .retWaitErr]
    else if st.annErr then .wait n as :: .asyncAnn n ae :: .announce n none :: next
    else if st.ready.length < quorum then .wait n as :: .asyncAnn n ae :: .announce n none :: next
    else
      match dkgSelection shuf ops quorum n st.ready with
      | .err => [.wait n as, .asyncAnn n ae, .announce n none, .retSelErr]
      | .panic => [.wait n as, .asyncAnn n ae, .announce n none, .retPanic]
      | .ok excluded =>
        let to := ae + c.protocol
        if excluded.contains member then .wait n as :: .asyncAnn n ae :: .announce n none :: next
        else if st.fnErr then
          .wait n as :: .asyncAnn n ae :: .announce n none :: .dattempt n ae to excluded st.ready.length :: next
        else [.wait n as, .asyncAnn n ae, .announce n none, .dattempt n ae to excluded st.ready.length, .retOk n to]

def dkRun (c : Consts) (shuf : Nat → List Nat) (ops : List Addr) (quorum member s0 : Nat)
    (script : List DStep) : List Ev :=
  dkLoop c shuf ops quorum member 0 s0 script

/-! ## Monitor: the window rule on one observed event -/

/-- every block an event carries is the closed-form block of its attempt -/
def evOk (c : Consts) (s0 : Nat) : Ev → Bool
  | .wait n b => decide (b = annStart c s0 n)
  | .asyncAnn n b => decide (b = annEnd c s0 n)
  | .asyncTimeout n b => decide (b = timeoutOf c s0 n)
  | .listen n to _ => decide (1 ≤ n) && decide (to = timeoutOf c s0 n)
  | .attempt n st to _ _ => decide (1 ≤ n) && (decide (st = annEnd c s0 n) && decide (to = timeoutOf c s0 n))
  | .dattempt n st to _ _ => decide (1 ≤ n) && (decide (st = annEnd c s0 n) && decide (to = timeoutOf c s0 n))
  | .retOk n to => decide (to = timeoutOf c s0 n)
  | _ => true

/-- an attempt is entered only while its announcement phase has not passed -/
def seenOk (c : Consts) (s0 : Nat) : Ev → Bool
  | .announce n (some cur) => decide (cur < annEnd c s0 n)
  | .attempt n _ _ _ (some cur) => decide (cur < annEnd c s0 n)
  | _ => true

def holds (c : Consts) (s0 : Nat) (evs : List Ev) : Bool :=
  evs.all (fun e => evOk c s0 e && seenOk c s0 e)

/-- The DKG loop enters attempt `n` only with the ready list the announcer returned in iteration `n`
    (iterations are numbered from `k + 1` on) and only if that list has quorum. -/
def dkgEntryOk (q k : Nat) (script : List DStep) : Ev → Bool
  | .dattempt n _ _ _ r =>
    decide (k < n) &&
      (match script[n - k - 1]? with
       | some st => decide (r = st.ready.length) && decide (q ≤ r)
       | none => false)
  | _ => true

/-- blocks at which an event says attempt `n` times out -/
def timeoutsOf : Ev → Option (Nat × Nat)
  | .listen n to _ => some (n, to)
  | .attempt n _ to _ _ => some (n, to)
  | .dattempt n _ to _ _ => some (n, to)
  | _ => none

/-- Non-overlap on the observed blocks alone: a later attempt `n'` starts (its announcement wait
    block minus the announcement delay) only after every earlier attempt's timeout block. -/
def noOverlap (c : Consts) (evs : List Ev) : Bool :=
  evs.all fun e =>
    match e with
    | .wait n' b => (evs.filterMap timeoutsOf).all fun p => decide (n' ≤ p.1) || decide (p.2 + c.delay < b)
    | _ => true

end KeepVerif.C11
