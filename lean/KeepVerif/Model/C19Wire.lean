/-!
# C19 wire layer: the proto3 wire format as `google.golang.org/protobuf` v1.31 decodes it

Bytes are `Nat`s (< 256 when they come from the driver).  The layer is schema-less: a message is
parsed into its list of `(field number, wire value)`; the typed layer (`Model/C19.lean`) selects
fields by number and wire type exactly as the table-driven Go decoder does (a known field with
the wrong wire type is *skipped as unknown*, scalars are last-wins, repeated fields append,
embedded messages merge).

Sources: `encoding/protowire` (`ConsumeVarint`, `ConsumeTag`, `ConsumeBytes`, `ConsumeFieldValue`)
and `internal/impl/decode.go` (`unmarshalPointer`).
-/
namespace KeepVerif.C19

abbrev Bytes := List Nat

/-- `protowire.ConsumeVarint`: at most ten bytes, the tenth must be 0 or 1.
    `k` = number of bytes that may still be read. -/
def getVarint : Nat → Bytes → Option (Nat × Bytes)
  | 0, _ => none
  | _, [] => none
  | k + 1, b :: bs =>
    if b < 128 then
      if k = 0 ∧ 2 ≤ b then none else some (b, bs)
    else if k = 0 then none
    else match getVarint k bs with
      | some (v, r) => some (b % 128 + 128 * v, r)
      | none => none

/-- `protowire.AppendVarint` on a `uint64`: at most ten bytes (`fuel` = continuation bytes left) -/
def putVarintF : Nat → Nat → Bytes
  | 0, n => [n]
  | fuel + 1, n => if n < 128 then [n] else (n % 128 + 128) :: putVarintF fuel (n / 128)

def putVarint (n : Nat) : Bytes := putVarintF 9 n

/-- wire value of one field; a (well nested) group is only ever skipped, its content is dropped -/
inductive WVal where
  | varint (v : Nat)
  | i64 (bs : Bytes)
  | len (bs : Bytes)
  | i32 (bs : Bytes)
  | group
  deriving DecidableEq, Repr

abbrev Field := Nat × WVal

def takeN (n : Nat) (bs : Bytes) : Option (Bytes × Bytes) :=
  if bs.length < n then none else some (bs.take n, bs.drop n)

/-- `protowire.ConsumeFieldValue` for `StartGroupType`: skip fields up to the matching end group
    (`ConsumeTag` inside a group admits field numbers up to `MaxInt32`). Returns the rest. -/
def skipGroup : Nat → Nat → Bytes → Option Bytes
  | 0, _, _ => none
  | fuel + 1, num, bs =>
    match getVarint 10 bs with
    | none => none
    | some (tag, r) =>
      let n := tag / 8
      if n > 2147483647 ∨ n < 1 then none
      else match tag % 8 with
        | 4 => if n = num then some r else none
        | 0 => match getVarint 10 r with
          | some (_, r') => skipGroup fuel num r'
          | none => none
        | 1 => match takeN 8 r with
          | some (_, r') => skipGroup fuel num r'
          | none => none
        | 2 => match getVarint 10 r with
          | some (l, r') => if l > r'.length then none else skipGroup fuel num (r'.drop l)
          | none => none
        | 5 => match takeN 4 r with
          | some (_, r') => skipGroup fuel num r'
          | none => none
        | 3 => match skipGroup fuel n r with
          | some r' => skipGroup fuel num r'
          | none => none
        | _ => none

/-- the field loop of `unmarshalPointer` (top level: `groupTag = 0`, so any end-group tag is an
    error; field numbers 1 … 2²⁹−1; wire types 6, 7 are errors). -/
def parseFields : Nat → Bytes → Option (List Field)
  | 0, bs => if bs = [] then some [] else none
  | fuel + 1, bs =>
    if bs = [] then some [] else
    match getVarint 10 bs with
    | none => none
    | some (tag, r) =>
      let n := tag / 8
      if n < 1 ∨ n > 536870911 then none
      else match tag % 8 with
        | 0 => match getVarint 10 r with
          | some (v, r') => (parseFields fuel r').map ((n, WVal.varint v) :: ·)
          | none => none
        | 1 => match takeN 8 r with
          | some (x, r') => (parseFields fuel r').map ((n, WVal.i64 x) :: ·)
          | none => none
        | 2 => match getVarint 10 r with
          | some (l, r') =>
            if l > r'.length then none
            else (parseFields fuel (r'.drop l)).map ((n, WVal.len (r'.take l)) :: ·)
          | none => none
        | 5 => match takeN 4 r with
          | some (x, r') => (parseFields fuel r').map ((n, WVal.i32 x) :: ·)
          | none => none
        | 3 => match skipGroup (r.length + 1) n r with
          | some r' => (parseFields fuel r').map ((n, WVal.group) :: ·)
          | none => none
        | _ => none

/-- wire-level decoding of one message -/
def parseMsg (bs : Bytes) : Option (List Field) := parseFields (bs.length + 1) bs

def putField : Field → Bytes
  | (n, .varint v) => putVarint (n * 8) ++ putVarint v
  | (n, .i64 bs) => putVarint (n * 8 + 1) ++ bs
  | (n, .len bs) => putVarint (n * 8 + 2) ++ (putVarint bs.length ++ bs)
  | (n, .i32 bs) => putVarint (n * 8 + 5) ++ bs
  | (n, .group) => putVarint (n * 8 + 3) ++ putVarint (n * 8 + 4)

/-- wire-level encoding of a field list (Go emits known fields in field-number order; the
    typed layer builds the list in that order). -/
def putFields : List Field → Bytes
  | [] => []
  | f :: fs => putField f ++ putFields fs

/-! ## selecting fields the way the typed Go decoder does -/

/-- all varint occurrences of field `num` (other wire types are unknown fields for a scalar) -/
def varints (fs : List Field) (num : Nat) : List Nat :=
  fs.filterMap fun f => match f with
    | (n, .varint v) => if n = num then some v else none
    | _ => none

/-- all length-delimited occurrences of field `num` -/
def lens (fs : List Field) (num : Nat) : List Bytes :=
  fs.filterMap fun f => match f with
    | (n, .len b) => if n = num then some b else none
    | _ => none

/-- all occurrences of field `num`, any wire type, in order -/
def occs (fs : List Field) (num : Nat) : List WVal :=
  fs.filterMap fun f => if f.1 = num then some f.2 else none

/-- a packed block: varints until the payload is consumed -/
def unpack : Nat → Bytes → Option (List Nat)
  | 0, _ => none
  | fuel + 1, bs =>
    if bs = [] then some [] else
    match getVarint 10 bs with
    | some (v, r) => (unpack fuel r).map (v :: ·)
    | none => none

/-- repeated uint64 field: unpacked occurrences and packed blocks, in order of appearance -/
def u64s (fs : List Field) (num : Nat) : Option (List Nat) :=
  ((occs fs num).mapM fun (v : WVal) => match v with
    | WVal.varint x => some [x]
    | WVal.len b => unpack (b.length + 1) b
    | _ => some []).map List.flatten

/-- scalar varint field: last occurrence wins, default 0 -/
def lastVarint (fs : List Field) (num : Nat) : Nat := ((varints fs num).getLast?).getD 0

/-- `bytes`/`string` field: last occurrence wins, default empty -/
def lastLen (fs : List Field) (num : Nat) : Bytes := ((lens fs num).getLast?).getD []

/-- Go's `utf8.Valid` -/
def validUtf8 : Nat → Bytes → Bool
  | 0, _ => false
  | _, [] => true
  | fuel + 1, b0 :: r =>
    let cont := fun (c : Nat) => decide (128 ≤ c ∧ c ≤ 191)
    if b0 < 128 then validUtf8 fuel r
    else if 194 ≤ b0 ∧ b0 ≤ 223 then
      match r with
      | c1 :: r => cont c1 && validUtf8 fuel r
      | _ => false
    else if 224 ≤ b0 ∧ b0 ≤ 239 then
      match r with
      | c1 :: c2 :: r =>
        let lo := if b0 = 224 then 160 else 128
        let hi := if b0 = 237 then 159 else 191
        decide (lo ≤ c1 ∧ c1 ≤ hi) && cont c2 && validUtf8 fuel r
      | _ => false
    else if 240 ≤ b0 ∧ b0 ≤ 244 then
      match r with
      | c1 :: c2 :: c3 :: r =>
        let lo := if b0 = 240 then 144 else 128
        let hi := if b0 = 244 then 143 else 191
        decide (lo ≤ c1 ∧ c1 ≤ hi) && cont c2 && cont c3 && validUtf8 fuel r
      | _ => false
    else false

def isUtf8 (bs : Bytes) : Bool := validUtf8 (bs.length + 1) bs

end KeepVerif.C19
