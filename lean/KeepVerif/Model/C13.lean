import KeepVerif.Model.C12
/-!
# C13 model: which signatures support a result / claim, and the submission gate

Pipeline of the three signature-collecting protocols, over a *history* of network messages:

1. admission by the signing state's `Receive` (C12: sender controls the seat, operating member, the key
   inside the message is the network key, session) — `C12.admitMsg` with the matching step;
2. beacon `SigningMember.VerifyDKGResultSignatures` (pkg/beacon/dkg/result/signing.go): messages of a
   sender that appears more than once are *all* dropped; tecdsa `verifyDKGResultSignatures` and
   inactivity `verifyInactivityClaimSignatures` run on `receivedMessages` = first message per sender;
   then: hash = preferred hash, signature verifies with the key in the message; finally the member's
   own signature is registered under its own index;
3. gates: beacon `SubmitDKGResult` `len < H + (N-H)/2`, tbtc `dkgResultSubmitter.SubmitResult`
   `len < GroupQuorum`, `inactivityClaimSubmitter.SubmitClaim` `len < HonestThreshold`.

A message is a `C12.Msg` with `aux1` = result/claim hash, `aux2` = signature (an identifier of the
signature bytes).  `verify hash sig key` is a parameter (A-ecdsa).
-/
namespace KeepVerif.C13
open KeepVerif.C12

inductive Proto where
  | beacon | tecdsa | inactivity
  deriving DecidableEq, Repr

def Proto.step : Proto → Step
  | .beacon => .beaconResult
  | .tecdsa => .tecdsaResult
  | .inactivity => .inactivity

abbrev Verify := Nat → Nat → Nat → Bool   -- hash, signature, public key

/-- messages the signing state keeps (`signatureMessages` / message history), in arrival order -/
def stored (addr : Nat → Nat) (p : Proto) (c : Ctx) (hist : List Msg) : List Msg :=
  hist.filter (fun m => admitMsg addr p.step c m == .stored)

/-- `duplicatedMessagesFromSender` -/
def duplicated (ms : List Msg) (i : UInt8) : Bool := decide (2 ≤ ms.countP (fun m => m.idx == i))

/-- `state.DeduplicateMessagesPayloads` keyed by sender: first message of every sender -/
def dedupFrom (seen : List UInt8) : List Msg → List Msg
  | [] => []
  | m :: ms => if seen.contains m.idx then dedupFrom seen ms else m :: dedupFrom (m.idx :: seen) ms

def dedup (ms : List Msg) : List Msg := dedupFrom [] ms

/-- Go map assignment `sigs[i] = s` on an association list -/
def setSig (sigs : List (UInt8 × Nat)) (i : UInt8) (s : Nat) : List (UInt8 × Nat) :=
  match sigs with
  | [] => [(i, s)]
  | (j, t) :: rest => if j = i then (i, s) :: rest else (j, t) :: setSig rest i s

/-- the per-message checks after admission/deduplication -/
def counts (verify : Verify) (pref : Nat) (m : Msg) : Bool :=
  m.aux1 == pref && verify m.aux1 m.aux2 m.msgKey

/-- the verification loop over the candidate messages -/
def collect (verify : Verify) (pref : Nat) (skip : Msg → Bool) (sigs : List (UInt8 × Nat)) :
    List Msg → List (UInt8 × Nat)
  | [] => sigs
  | m :: ms =>
    if skip m then collect verify pref skip sigs ms
    else if counts verify pref m then collect verify pref skip (setSig sigs m.idx m.aux2) ms
    else collect verify pref skip sigs ms

/-- candidates and skip rule per protocol -/
def candidates (p : Proto) (st : List Msg) : List Msg :=
  match p with
  | .beacon => st
  | _ => dedup st

def skipRule (p : Proto) (self : UInt8) (st : List Msg) (m : Msg) : Bool :=
  match p with
  | .beacon => m.idx == self || duplicated st m.idx
  | _ => false

/-- the signature map handed to the submitter: `validSignatures` -/
def support (verify : Verify) (p : Proto) (self : UInt8) (selfSig pref : Nat) (st : List Msg) :
    List (UInt8 × Nat) :=
  setSig (collect verify pref (skipRule p self st) [] (candidates p st)) self selfSig

structure Params where
  groupSize : Nat
  honestThreshold : Nat
  groupQuorum : Nat

def threshold (p : Proto) (g : Params) : Nat :=
  match p with
  | .beacon => g.honestThreshold + (g.groupSize - g.honestThreshold) / 2
  | .tecdsa => g.groupQuorum
  | .inactivity => g.honestThreshold

/-- the gate: submission proceeds iff `len(signatures) >= threshold` -/
def passesGate (p : Proto) (g : Params) (sigs : List (UInt8 × Nat)) : Bool :=
  !decide (sigs.length < threshold p g)

/-- whole pipeline on a history -/
def pipeline (addr : Nat → Nat) (verify : Verify) (p : Proto) (c : Ctx) (g : Params)
    (selfSig pref : Nat) (hist : List Msg) : List (UInt8 × Nat) × Bool :=
  let sigs := support verify p (selfIdx c) selfSig pref (stored addr p c hist)
  (sigs, passesGate p g sigs)

/-- Monitor: the property on an observed (support, submitted) pair. -/
def holds (addr : Nat → Nat) (verify : Verify) (p : Proto) (c : Ctx) (g : Params) (selfSig pref : Nat)
    (hist : List Msg) (sigs : List (UInt8 × Nat)) (submitted : Bool) : Bool :=
  -- own signature present
  sigs.contains (selfIdx c, selfSig)
  -- at most one entry per member
  && decide ((sigs.map (·.1)).Nodup)
  -- every other entry comes from an admitted message of that member on the preferred hash,
  -- signed with the network key, verifying
  && sigs.all (fun e => e.1 == selfIdx c ||
      hist.any (fun m => m.idx == e.1 && m.aux2 == e.2 && admitMsg addr p.step c m == .stored
        && m.aux1 == pref && m.msgKey == m.netKey && verify m.aux1 m.aux2 m.msgKey))
  -- submission only at the threshold
  && (!submitted || decide (threshold p g ≤ sigs.length))

end KeepVerif.C13
