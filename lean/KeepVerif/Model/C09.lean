/-!
# C09 model: `pkg/tecdsa/retry/retry.go`

Operators (`chain.Address`, compared as strings by `byAddress`) are natural numbers; the harness uses
fixed-width addresses so that the string order is the numeric order.  `groupMembers` is the seat list
`List Addr` (an operator appears once per seat it holds).

`math/rand` is a *parameter*: `shuf n` is the index permutation that
`rand.New(rand.NewSource(s)).Shuffle(n, swap)` applies to a slice of length `n` (position `i` of the
shuffled slice holds the element that was at `(shuf n)[i]`).  Every function of the model calls the
generator exactly once (as the code does), so one function `shuf : Nat → List Nat` per seed is all
that is needed (assumption A-rng).  Theorems quantify over every `shuf`.

The seat-count map `operatorToSeatCount` is `List.count`; the map iteration that collects the keys
is followed by `sort.Sort(byAddress …)`, so the collected slice is `sortedOps` for every iteration
order (`Props/C09.lean`, `map_order_irrelevant`).
-/
namespace KeepVerif.C09

abbrev Addr := Nat

/-- result of a selection: seats, or one of the two errors; `panic` = index out of range, reachable
    only if `shuf n` is not a permutation of `0..n-1` (never for the real generator). -/
inductive Res where
  | ok (seats : List Addr)
  | tooMany
  | retries (remaining : Nat)
  | panic
  deriving DecidableEq, Repr

/-- `operatorToSeatCount[operator]` -/
def seatCount (a : Addr) (seats : List Addr) : Nat := seats.count a

def bound (seats : List Addr) : Nat := seats.foldr (fun a m => max (a + 1) m) 0

/-- keys of `operatorToSeatCount` after `sort.Sort(byAddress(operators))`: distinct, ascending. -/
def sortedOps (seats : List Addr) : List Addr :=
  (List.range (bound seats)).filter (fun a => seats.contains a)

/-- `rng.Shuffle(len(xs), swap)` seen as an index permutation. -/
def applyPerm {α} (p : List Nat) (xs : List α) : List α := p.filterMap (fun i => xs[i]?)

/-! ## Signing -/

/-- `for j := 0; seatCount < retryParticipantsCount; j++ { … }`: the accepted operators.
    `none` = `operators[j]` out of range. -/
def accept (seats : List Addr) (k : Nat) : Nat → List Addr → Option (List Addr)
  | acc, [] => if k ≤ acc then some [] else none
  | acc, o :: rest =>
    if k ≤ acc then some [] else (accept seats k (acc + seatCount o seats) rest).map (o :: ·)

/-- `EvaluateRetryParticipantsForSigning`; `shuf` belongs to the source seeded `seed + retryCount`. -/
def signing (shuf : Nat → List Nat) (seats : List Addr) (k : Nat) : Res :=
  if seats.length < k then .tooMany else
  let ops := sortedOps seats
  match accept seats k 0 (applyPerm (shuf ops.length) ops) with
  | none => .panic
  | some acc => .ok (seats.filter (fun o => acc.contains o))

/-! ## Key generation -/

/-- operators whose exclusion leaves at least `k` seats, ascending. -/
def eligible (seats : List Addr) (k : Nat) : List Addr :=
  (sortedOps seats).filter (fun o => decide (k + seatCount o seats ≤ seats.length))

/-- `for i := 0; i < n-1; i++ { for j := i+1; j < n; j++ {…} }` -/
def pairIdx (n : Nat) : List (Nat × Nat) :=
  (List.range n).flatMap fun i => ((List.range n).filter (fun j => decide (i < j))).map fun j => (i, j)

/-- `for i < n-2 { for j := i+1; j < n-1 { for k := j+1; k < n {…} } }` -/
def tripIdx (n : Nat) : List (Nat × Nat × Nat) :=
  (List.range n).flatMap fun i => (List.range n).flatMap fun j =>
    if i < j then ((List.range n).filter (fun l => decide (j < l))).map fun l => (i, j, l) else []

/-- `operators[i]` -/
def opAt (ops : List Addr) (i : Nat) : Addr := ops.getD i 0

/-- `pairIndexes` of `excludeOperatorPairs`
    (`len - c₁ - c₂ >= k` over Go `int`s is `k + c₁ + c₂ ≤ len`). -/
def eligiblePairs (seats ops : List Addr) (k : Nat) : List (Nat × Nat) :=
  (pairIdx ops.length).filter fun p =>
    decide (k + seatCount (opAt ops p.1) seats + seatCount (opAt ops p.2) seats ≤ seats.length)

/-- `tripletIndexes` of `excludeOperatorTriplets`.  `asWas = true` is the code before the repair:
    `rightOperator := operators[j]` (the middle operator counted twice, the right one ignored). -/
def eligibleTriplets (asWas : Bool) (seats ops : List Addr) (k : Nat) : List (Nat × Nat × Nat) :=
  (tripIdx ops.length).filter fun t =>
    let r := if asWas then t.2.1 else t.2.2
    decide (k + seatCount (opAt ops t.1) seats + seatCount (opAt ops t.2.1) seats
              + seatCount (opAt ops r) seats ≤ seats.length)

/-- which operators a key-generation retry excludes -/
inductive Sel where
  | excl (ops : List Addr)
  | retries (remaining : Nat)
  | panic
  deriving DecidableEq, Repr

/-- `excludeSingleOperator`, then `excludeOperatorPairs`, then `excludeOperatorTriplets` with the
    `remainingTries` bookkeeping.  Only the stage that succeeds shuffles, so `shuf` (seeded `seed`)
    is used once. -/
def select (asWas : Bool) (shuf : Nat → List Nat) (seats : List Addr) (retry k : Nat) : Sel :=
  let ops := eligible seats k
  if retry < ops.length then
    match (applyPerm (shuf ops.length) ops)[retry]? with
    | some a => .excl [a]
    | none => .panic
  else
    let r2 := retry - ops.length
    let ps := eligiblePairs seats ops k
    if r2 < ps.length then
      match (applyPerm (shuf ps.length) ps)[r2]? with
      | some p => .excl [opAt ops p.1, opAt ops p.2]
      | none => .panic
    else
      let r3 := r2 - ps.length
      let ts := eligibleTriplets asWas seats ops k
      if r3 < ts.length then
        match (applyPerm (shuf ts.length) ts)[r3]? with
        | some t => .excl [opAt ops t.1, opAt ops t.2.1, opAt ops t.2.2]
        | none => .panic
      else .retries (r3 - ts.length)

/-- `EvaluateRetryParticipantsForKeyGeneration` -/
def keygenGen (asWas : Bool) (shuf : Nat → List Nat) (seats : List Addr) (retry k : Nat) : Res :=
  if seats.length < k then .tooMany else
  match select asWas shuf seats retry k with
  | .excl ex => .ok (seats.filter (fun o => !ex.contains o))
  | .retries n => .retries n
  | .panic => .panic

/-- the code as it is now (after `fix:` `rightOperator := operators[k]`) -/
abbrev keygen := keygenGen false
/-- the code as it was -/
abbrev keygenAsWas := keygenGen true

/-! ## Monitor -/

/-- The property on one observed result: the result is exactly the seats of the operators that
    appear in it (sub-list, every operator's seats kept or dropped together) and has at least the
    requested number of seats. -/
def holdsOk (seats : List Addr) (k : Nat) (res : List Addr) : Bool :=
  (res == seats.filter (fun o => res.contains o)) && decide (k ≤ res.length)

def holds (seats : List Addr) (k : Nat) : Res → Bool
  | .ok res => holdsOk seats k res
  | .tooMany => decide (seats.length < k)
  | .retries _ => decide (k ≤ seats.length)
  | .panic => false

/-- operators dropped by a result -/
def excludedOps (seats res : List Addr) : List Addr :=
  (sortedOps seats).filter (fun o => !res.contains o)

/-- Monitor of a whole enumeration `retry = 0, 1, 2, …`: every result satisfies `holds`, the
    excluded operator sets are pairwise different, their sizes never decrease and are 1, 2 or 3, and
    only the last entry may be an error. -/
def holdsAll (seats : List Addr) (k : Nat) (rs : List Res) : Bool :=
  let oks := rs.filterMap (fun r => match r with | .ok s => some (excludedOps seats s) | _ => none)
  rs.all (holds seats k)
  && (oks.length + 1 ≥ rs.length)
  && (rs.dropLast.all (fun r => match r with | .ok _ => true | _ => false))
  && oks.all (fun e => decide (1 ≤ e.length ∧ e.length ≤ 3))
  && (oks.zip oks.tail).all (fun p => decide (p.1.length ≤ p.2.length))
  && decide (oks.Nodup)

/-! ## Go's `(*Rand).Shuffle` over the raw `Uint32()` stream

Used by the drivers only, to turn the stream of raw generator outputs the harness read from the real
`math/rand` source into the permutation `shuf n` for whichever `n` the model asks for.  (It is the
transcription of `Shuffle`/`int31n` of Go's `math/rand`; the theorems do not depend on it — they
hold for every `shuf` — and the correspondence run checks it.) -/

def int31n (n : Nat) : List Nat → Nat × List Nat
  | [] => (0, [])
  | v :: rest =>
    if (v * n) % 4294967296 < (4294967296 - n) % n then int31n n rest
    else ((v * n) / 4294967296, rest)

def goShuffleLoop : Nat → Array Nat → List Nat → Array Nat
  | 0, arr, _ => arr
  | i + 1, arr, s =>
    let r := int31n (i + 2) s
    goShuffleLoop i (arr.swapIfInBounds (i + 1) r.1) r.2

def goShuffle (stream : List Nat) (n : Nat) : List Nat :=
  (goShuffleLoop (n - 1) (Array.range n) stream).toList

end KeepVerif.C09
