import KeepVerif.Gen.C39
/-!
# C39 model: `generator.ParameterPool` (pkg/generator/pool.go) over a faulty `Persistence`

* the pool channel is a bounded FIFO of `Option Nat` — `none` is a `nil *Persisted[T]`;
* the generator goroutine of `NewParameterPool` is one iteration per `g…` step
  (`generateFn → Save → push`); when the channel is full the goroutine blocks in the `select`
  holding its value (`pending`) until a `GetNow` frees a slot or the process ends;
* `GetNow` = receive, `Delete`, return `&generated.Data`;
* restart = `ReadAll` (storage order = creation order) truncated to the pool size;
* a parameter is its identifier (`Nat`), fresh for every generation (assumption: `generateFn`
  never produces the same parameter twice).

`fixed = true` is the code that returns after a failed `Save`; `fixed = false` is the code
that logs and still pushes the (nil) result.  Which one the tree has is extracted from the source
(`Gen.C39.returnsOnSaveError`) and the driver runs `run Gen.C39.returnsOnSaveError`.
-/
namespace KeepVerif.C39

inductive Op where
  | gen | genFail | genFailWrote | genNil | genCrash | genTorn
  | take | takeFail | takeCrashBefore | takeCrashAfter
  | restart | restartFail
  | pause
  deriving DecidableEq, Repr

inductive Out where
  | saved (blocked : Bool) | failed (blocked : Bool) | nil | busy | crashed
  | val (id : Nat) (stillOnDisk : Bool) | empty | delErr | restarted | panic
  deriving DecidableEq, Repr

structure St where
  size : Nat
  pool : List (Option Nat) := []
  pending : Option (Option Nat) := none
  disk : List Nat := []
  next : Nat := 1
  served : List Nat := []
  dead : Bool := false
  deriving Repr

def init (size : Nat) : St := { size := size }

/-- `pool <- persisted` (or block when the channel is full). -/
def push (s : St) (e : Option Nat) : St × Bool :=
  if s.pool.length < s.size then ({ s with pool := s.pool ++ [e] }, false)
  else ({ s with pending := some e }, true)

/-- process start: `ReadAll`, first `size` entries into the channel. -/
def reload (s : St) (readOk : Bool) : St :=
  { s with pool := if readOk then (s.disk.take s.size).map some else [], pending := none }

/-- receive from the channel; a blocked sender's value moves in. -/
def recv (s : St) : Option (Option Nat × St) :=
  match s.pool, s.pending with
  | e :: rest, some p => some (e, { s with pool := rest ++ [p], pending := none })
  | e :: rest, none => some (e, { s with pool := rest })
  | [], some p => some (p, { s with pending := none })   -- unbuffered channel (size 0)
  | [], none => none

def step (fixed : Bool) (s : St) : Op → St × Out
  | .gen =>
    if s.pending.isSome then (s, .busy) else
    let (s', b) := push { s with disk := s.disk ++ [s.next], next := s.next + 1 } (some s.next)
    (s', .saved b)
  | .genFail =>
    if s.pending.isSome then (s, .busy) else
    let s1 := { s with next := s.next + 1 }
    if fixed then (s1, .failed false) else
    let (s', b) := push s1 none
    (s', .failed b)
  | .genFailWrote =>
    if s.pending.isSome then (s, .busy) else
    let s1 := { s with disk := s.disk ++ [s.next], next := s.next + 1 }
    if fixed then (s1, .failed false) else
    let (s', b) := push s1 none
    (s', .failed b)
  | .genNil => if s.pending.isSome then (s, .busy) else (s, .nil)
  | .genCrash =>
    if s.pending.isSome then (s, .busy) else
    (reload { s with disk := s.disk ++ [s.next], next := s.next + 1 } true, .crashed)
  | .genTorn =>
    -- the process dies inside Save after the file was created and before its content was
    -- written: the empty file is not a parameter (preParamsStorage.ReadAll rejects files whose
    -- numbers are missing — fact `Gen.C39.loadRejectsIncompleteFiles`), then restart
    if s.pending.isSome then (s, .busy) else
    (reload { s with next := s.next + 1 } true, .crashed)
  | .take =>
    match recv s with
    | none => (s, .empty)
    | some (none, s') => ({ s' with dead := true }, .panic)
    | some (some id, s') =>
      let disk' := s'.disk.erase id
      ({ s' with disk := disk', served := id :: s'.served }, .val id (disk'.contains id))
  | .takeFail =>
    match recv s with
    | none => (s, .empty)
    | some (none, s') => ({ s' with dead := true }, .panic)
    | some (some _, s') => (s', .delErr)
  | .takeCrashBefore =>
    match recv s with
    | none => (s, .empty)
    | some (none, s') => ({ s' with dead := true }, .panic)
    | some (some _, s') => (reload s' true, .crashed)
  | .takeCrashAfter =>
    match recv s with
    | none => (s, .empty)
    | some (none, s') => ({ s' with dead := true }, .panic)
    | some (some id, s') => (reload { s' with disk := s'.disk.erase id } true, .crashed)
  | .restart => (reload s true, .restarted)
  | .restartFail => (reload s false, .restarted)
  -- the scheduler stops generation (a protocol started): a generator blocked on the full pool
  -- leaves through `ctx.Done()`; its parameter stays on storage but never enters this pool
  | .pause => ({ s with pending := none }, .restarted)

/-- a whole history; a panic ends it. Returns the final state, the per-step outputs and the
    pool length after every completed step. -/
def runFrom (fixed : Bool) : St → List Op → St × List Out × List Nat
  | s, [] => (s, [], [])
  | s, op :: ops =>
    let (s', o) := step fixed s op
    if s'.dead then (s', [o], []) else
    let (sf, outs, cnts) := runFrom fixed s' ops
    (sf, o :: outs, s'.pool.length :: cnts)

def run (fixed : Bool) (size : Nat) (ops : List Op) : St × List Out × List Nat :=
  runFrom fixed (init size) ops

/-! ## Monitor: the property on what an execution showed -/

def servedOf : List Out → List Nat
  | [] => []
  | .val id _ :: r => id :: servedOf r
  | _ :: r => servedOf r

def noDup : List Nat → Bool
  | [] => true
  | a :: r => !r.contains a && noDup r

def outOk : Out → Bool
  | .panic => false
  | .val _ true => false
  | _ => true

/-- never nil/invalid (no panic), never served while still stored, never twice, never more than
    `size` in the pool, nothing served is on storage at the end. -/
def holds (size : Nat) (outs : List Out) (counts : List Nat) (disk : List Nat) : Bool :=
  outs.all outOk && noDup (servedOf outs) && counts.all (· ≤ size)
    && (servedOf outs).all (fun v => !disk.contains v)

end KeepVerif.C39
