import KeepVerif.Gen.C41
/-!
# C41 model: ephemeral ECDH channel (pkg/crypto/ephemeral + keep-common `encryption.Box`)

* the curve is a parameter `DHGroup` (points, base point, scalar multiplication, x-coordinate) with
  the module law `a•(b•P) = (a*b)•P` as a field (assumption about the curve library);
* the AEAD (NaCl secretbox) is a parameter `AEAD` with its functional laws as fields;
* `kdf` (SHA-256 of the shared x-coordinate) is a function parameter;
* the keep-core glue is modelled literally: `Ecdh`, `IsKeyMatching`, `Encrypt` (nonce prepended),
  `Decrypt` (slice at `NonceSize`, the `recover` branch for short input).

Two concrete instances at the end are what the driver executes and show the assumptions are
satisfiable: exponents modulo the real group order, and a symbolic (tagging) AEAD.
-/
namespace KeepVerif.C41

/-- A cell of a byte string.  Real data are `byte`s.  The symbolic AEAD instance additionally uses a
    `tag` cell (the authenticator, carrying key, nonce and message symbolically) and `bad` (the value
    of a cell after it has been modified: "some other byte", distinct from everything honest). -/
inductive Cell
  | byte (n : Nat)
  | tag (k : Nat) (n m : List (Option Nat))
  | bad
  deriving DecidableEq, Repr

def Cell.val : Cell → Option Nat
  | .byte x => some x
  | _ => none

def Cell.isByte : Cell → Bool
  | .byte _ => true
  | _ => false

def Cell.toNat : Cell → Nat
  | .byte x => x
  | _ => 0

/-- byte strings -/
abbrev Bytes := List Cell

structure DHGroup where
  Pt : Type
  X : Type
  decPt : DecidableEq Pt
  G : Pt
  /-- `ScalarMult` / `ScalarBaseMult` (the scalar is the big-endian integer of the key bytes) -/
  smul : Nat → Pt → Pt
  /-- `GenerateSharedSecret` keeps the x-coordinate only -/
  xcoord : Pt → X
  smul_smul : ∀ a b P, smul a (smul b P) = smul (a * b) P

structure AEAD (K : Type) where
  overhead : Nat
  /-- `secretbox.Seal(nil, m, nonce, key)` -/
  sealBox : K → Bytes → Bytes → Bytes
  /-- `secretbox.Open(nil, box, nonce, key)` -/
  openBox : K → Bytes → Bytes → Option Bytes
  openBox_sealBox : ∀ k n m, openBox k n (sealBox k n m) = some m
  /-- opening is the inverse of sealing and nothing else (secretbox is deterministic) -/
  openBox_sound : ∀ k n c m, openBox k n c = some m → c = sealBox k n m
  sealBox_length : ∀ k n m, (sealBox k n m).length = m.length + overhead

def nonceSize : Nat := Gen.C41.nonceSize

section
variable (D : DHGroup) {K : Type} (kdf : D.X → K) (A : AEAD K)

/-- public key of the private scalar `a` (`PrivKeyFromBytes`) -/
def pubOf (a : Nat) : D.Pt := D.smul a D.G

/-- `(*PrivateKey).Ecdh(publicKey)`: the symmetric key `sha256(x(priv • pub))` -/
def ecdh (priv : Nat) (pub : D.Pt) : K := kdf (D.xcoord (D.smul priv pub))

/-- `(*PublicKey).IsKeyMatching(privateKey)`: compares both coordinates of `priv • G` -/
def isKeyMatching (pub : D.Pt) (priv : Nat) : Bool :=
  @decide (D.smul priv D.G = pub) (D.decPt _ _)

/-- `box.Encrypt` with the nonce that `rand.Reader` produced: nonce ‖ sealed box -/
def encrypt (k : K) (nonce m : Bytes) : Bytes := nonce ++ A.sealBox k nonce m

/-- `box.Decrypt`: `ciphertext[NonceSize:]` panics when the input is shorter than the nonce and
    the deferred `recover` turns that into the error; otherwise `secretbox.Open`. -/
def decrypt (k : K) (ct : Bytes) : Option Bytes :=
  if ct.length < nonceSize then none
  else A.openBox k (ct.take nonceSize) (ct.drop nonceSize)
end

/-! ## Instance 1: exponents modulo the group order `N` (`P = e•G` is represented by `e mod N`;
the x-coordinate identifies `P` and `-P`). -/

def zmodGroup (N : Nat) : DHGroup where
  Pt := Nat
  X := Nat
  decPt := inferInstance
  G := 1 % N
  smul := fun a p => a * p % N
  xcoord := fun e => min (e % N) ((N - e % N) % N)
  smul_smul := by
    intro a b p
    show a * (b * p % N) % N = a * b * p % N
    rw [Nat.mul_mod, Nat.mod_mod, ← Nat.mul_mod, Nat.mul_assoc]

/-! ## Instance 2: a symbolic AEAD.  The box is a 16-cell authenticator — one `tag` cell carrying
the key, the nonce and the message symbolically, then 15 zero bytes — followed by the message;
opening recomputes the authenticator.  A modified cell is `bad`. -/

def csMod : Nat := 2147483647

/-- Horner digest of the byte values (only used to print plaintexts compactly) -/
def digest (l : Bytes) : Nat := l.foldl (fun cs x => (cs * 257 + x.toNat + 1) % csMod) 0

def vals (l : Bytes) : List (Option Nat) := l.map Cell.val

def symTag (k : Nat) (n m : Bytes) : Bytes :=
  .tag k (vals n) (vals m) :: List.replicate 15 (.byte 0)

def symSeal (k : Nat) (n m : Bytes) : Bytes := symTag k n m ++ m

def symUnseal (k : Nat) (n c : Bytes) : Option Bytes :=
  if c = symSeal k n (c.drop 16) then some (c.drop 16) else none

theorem symTag_length (k : Nat) (n m : Bytes) : (symTag k n m).length = 16 := by
  simp [symTag]

def symAEAD : AEAD Nat where
  overhead := 16
  sealBox := symSeal
  openBox := symUnseal
  openBox_sealBox := by
    intro k n m
    have h : (symSeal k n m).drop 16 = m := by
      unfold symSeal
      rw [List.drop_append_of_le_length (by simp [symTag])]
      simp [symTag]
    simp [symUnseal, h]
  openBox_sound := by
    intro k n c m h
    unfold symUnseal at h
    split at h
    · rename_i hc
      injection h with hm
      rw [← hm]; exact hc
    · cases h
  sealBox_length := by
    intro k n m
    simp [symSeal, symTag]

/-! ## What the driver computes for one op line -/

structure Case where
  a : Nat
  b : Nat
  c : Nat
  pt : Bytes
  nonce : Bytes
  deriving Repr

inductive Mod
  | xor (pos mask : Nat)
  | trunc (n : Nat)
  | extend (n : Nat)
  deriving Repr

def applyMod (ct : Bytes) : Mod → Bytes
  | .xor pos mask => if mask = 0 then ct else ct.set pos .bad
  | .trunc n => ct.take n
  | .extend n => ct ++ List.replicate n (.byte 0)

/-- o = decrypts to the original, x = decrypts to something else, r = rejected -/
def verdictChar (orig : Bytes) : Option Bytes → Char
  | none => 'r'
  | some m => if m = orig then 'o' else 'x'

structure Result where
  agree : Bool
  ref : Bool
  ctLen : Nat
  ctHead : Bytes
  dec : Option Bytes
  wrong : Char
  mods : List Char
  matchC : Bool
  matchA : Bool
  back : Option Bytes
  matchBC : Bool
  matchCA : Bool

def runCase (D : DHGroup) {K : Type} [DecidableEq K] (kdf : D.X → K) (A : AEAD K)
    (cs : Case) (mods : List Mod) : Result :=
  let pubA := pubOf D cs.a
  let pubB := pubOf D cs.b
  let ka := ecdh D kdf cs.a pubB
  let kb := ecdh D kdf cs.b pubA
  let kc := ecdh D kdf cs.c pubA
  let kref := kdf (D.xcoord (D.smul (cs.a * cs.b) D.G))
  let ct := encrypt A ka cs.nonce cs.pt
  { agree := decide (ct = encrypt A kb cs.nonce cs.pt)
    ref := decide (ct = encrypt A kref cs.nonce cs.pt)
    ctLen := ct.length
    ctHead := ct.take 24
    dec := decrypt A kb ct
    wrong := verdictChar cs.pt (decrypt A kc ct)
    mods := mods.map fun m => verdictChar cs.pt (decrypt A kb (applyMod ct m))
    matchC := isKeyMatching D pubA cs.c
    matchA := isKeyMatching D pubA cs.a
    back := decrypt A ka (encrypt A kb cs.nonce cs.pt)
    matchBC := isKeyMatching D pubB cs.c
    matchCA := isKeyMatching D (pubOf D cs.c) cs.a }

/-! ## Monitor: the property on what the implementation did.
`sameX` says whether the outsider's shared x-coordinate equals the parties' (decided in the exponent
model; it is the only case in which a "different" private key yields the *same* symmetric key). -/

/-- shared x-coordinate `x(priv • pub(a))` in the exponent model, as a number -/
def sharedX (N priv a : Nat) : Nat :=
  (zmodGroup N).xcoord ((zmodGroup N).smul priv (pubOf (zmodGroup N) a))

structure ImplObs where
  agree : Bool
  ref : Bool
  ctLen : Nat
  decOk : Bool          -- decrypted, and length/digest equal the plaintext's
  wrong : Char
  mods : List Char
  matchC : Bool
  matchA : Bool
  backOk : Bool
  matchBC : Bool
  matchCA : Bool

def modChanges (ctLen : Nat) : Mod → Bool
  | .xor _ mask => mask != 0
  | .trunc n => n < ctLen
  | .extend n => n != 0

def holds (N : Nat) (cs : Case) (mods : List Mod) (o : ImplObs) : Bool :=
  let sameX := decide (sharedX N cs.c cs.a = sharedX N cs.b cs.a)
  o.agree && o.ref && o.decOk
  && o.ctLen == cs.pt.length + nonceSize + 16
  && (o.wrong == (if sameX then 'o' else 'r'))
  && (o.mods.length == mods.length)
  && ((mods.zip o.mods).all fun (m, v) =>
        if modChanges (cs.pt.length + nonceSize + 16) m then v == 'r' else v == 'o')
  && (o.matchC == decide (cs.c % N = cs.a % N))
  && o.matchA
  && o.backOk
  && (o.matchBC == decide (cs.c % N = cs.b % N))
  && (o.matchCA == decide (cs.a % N = cs.c % N))

end KeepVerif.C41
