/-!
# SHA-256 (FIPS 180-4), executable, core Lean only

Used by the C31 driver to instantiate the abstract hash of `Model/C31.lean`; no theorem depends on
it (the theorems are for every hash function).  Validated against Go's crypto/sha256 by the
correspondence run itself (every proof byte compared).
-/
namespace KeepVerif.C31Sha

def K : Array UInt32 := #[
  0x428a2f98, 0x71374491, 0xb5c0fbcf, 0xe9b5dba5, 0x3956c25b, 0x59f111f1, 0x923f82a4, 0xab1c5ed5,
  0xd807aa98, 0x12835b01, 0x243185be, 0x550c7dc3, 0x72be5d74, 0x80deb1fe, 0x9bdc06a7, 0xc19bf174,
  0xe49b69c1, 0xefbe4786, 0x0fc19dc6, 0x240ca1cc, 0x2de92c6f, 0x4a7484aa, 0x5cb0a9dc, 0x76f988da,
  0x983e5152, 0xa831c66d, 0xb00327c8, 0xbf597fc7, 0xc6e00bf3, 0xd5a79147, 0x06ca6351, 0x14292967,
  0x27b70a85, 0x2e1b2138, 0x4d2c6dfc, 0x53380d13, 0x650a7354, 0x766a0abb, 0x81c2c92e, 0x92722c85,
  0xa2bfe8a1, 0xa81a664b, 0xc24b8b70, 0xc76c51a3, 0xd192e819, 0xd6990624, 0xf40e3585, 0x106aa070,
  0x19a4c116, 0x1e376c08, 0x2748774c, 0x34b0bcb5, 0x391c0cb3, 0x4ed8aa4a, 0x5b9cca4f, 0x682e6ff3,
  0x748f82ee, 0x78a5636f, 0x84c87814, 0x8cc70208, 0x90befffa, 0xa4506ceb, 0xbef9a3f7, 0xc67178f2]

def H0 : Array UInt32 := #[
  0x6a09e667, 0xbb67ae85, 0x3c6ef372, 0xa54ff53a, 0x510e527f, 0x9b05688c, 0x1f83d9ab, 0x5be0cd19]

@[inline] def rotr (x : UInt32) (n : UInt32) : UInt32 := (x >>> n) ||| (x <<< (32 - n))

/-- padded message as bytes -/
def pad (msg : List Nat) : Array UInt8 :=
  let n := msg.length
  let a : Array UInt8 := (msg.map (fun b => UInt8.ofNat b)).toArray
  let a := a.push 0x80
  let zeros := (119 - n % 64) % 64   -- so that (n + 1 + zeros) % 64 = 56
  let a := (List.range zeros).foldl (fun acc _ => acc.push 0) a
  let bits := n * 8
  (List.range 8).foldl (fun acc i => acc.push (UInt8.ofNat ((bits >>> (8 * (7 - i))) % 256))) a

def word (a : Array UInt8) (off : Nat) : UInt32 :=
  ((a[off]!).toUInt32 <<< 24) ||| ((a[off + 1]!).toUInt32 <<< 16) |||
  ((a[off + 2]!).toUInt32 <<< 8) ||| (a[off + 3]!).toUInt32

def compress (h : Array UInt32) (a : Array UInt8) (blk : Nat) : Array UInt32 :=
  let w0 : Array UInt32 := (List.range 16).foldl (fun w i => w.push (word a (blk * 64 + 4 * i))) #[]
  let w : Array UInt32 := (List.range 48).foldl (fun w j =>
    let i := j + 16
    let x15 := w[i - 15]!
    let x2 := w[i - 2]!
    let s0 := rotr x15 7 ^^^ rotr x15 18 ^^^ (x15 >>> 3)
    let s1 := rotr x2 17 ^^^ rotr x2 19 ^^^ (x2 >>> 10)
    w.push (w[i - 16]! + s0 + w[i - 7]! + s1)) w0
  let init := (h[0]!, h[1]!, h[2]!, h[3]!, h[4]!, h[5]!, h[6]!, h[7]!)
  let (a', b', c', d', e', f', g', h') := (List.range 64).foldl (fun st i =>
    let (a, b, c, d, e, f, g, hh) := st
    let S1 := rotr e 6 ^^^ rotr e 11 ^^^ rotr e 25
    let ch := (e &&& f) ^^^ ((~~~ e) &&& g)
    let t1 := hh + S1 + ch + K[i]! + w[i]!
    let S0 := rotr a 2 ^^^ rotr a 13 ^^^ rotr a 22
    let mj := (a &&& b) ^^^ (a &&& c) ^^^ (b &&& c)
    let t2 := S0 + mj
    (t1 + t2, a, b, c, d + t1, e, f, g)) init
  #[h[0]! + a', h[1]! + b', h[2]! + c', h[3]! + d', h[4]! + e', h[5]! + f', h[6]! + g', h[7]! + h']

def sha256 (msg : List Nat) : List Nat :=
  let a := pad msg
  let h := (List.range (a.size / 64)).foldl (fun h blk => compress h a blk) H0
  h.toList.flatMap (fun (w : UInt32) =>
    let n := w.toNat
    [n / 16777216 % 256, n / 65536 % 256, n / 256 % 256, n % 256])

end KeepVerif.C31Sha
