import KeepVerif.Gen.C21
/-!
# C21 model: `anyApplicationPolicy.Validate` (pkg/firewall/firewall.go) over keep-common's
`cache.TimeCache` (pkg/cache/cache.go) with an explicit clock.

`TimeCache` = the `indexer` list (front = most recently added) — the `cache` map holds exactly the
same keys with their timestamps, so one list of `(key, t)` entries models both.  `time.Now()` is the
parameter `now`; `time.Since(t) > timespan` is `t + span < now`.
-/
namespace KeepVerif.C21

structure Entry where
  key : Nat
  t : Nat
  deriving DecidableEq, Repr

abbrev Cache := List Entry

/-- `time.Since(itemTime) > tc.timespan` -/
def expired (span now : Nat) (e : Entry) : Bool := decide (e.t + span < now)

/-- `TimeCache.sweep`: pops expired entries from the *back* of the indexer until the first
    entry that is not expired. -/
def sweep (span now : Nat) (c : Cache) : Cache :=
  (c.reverse.dropWhile (expired span now)).reverse

/-- `TimeCache.Has` -/
def has (c : Cache) (k : Nat) : Bool := c.any (fun e => e.key == k)

/-- `TimeCache.Add`: no-op when present, otherwise sweep and push to the front. -/
def add (span now : Nat) (c : Cache) (k : Nat) : Cache :=
  if has c k then c else ⟨k, now⟩ :: sweep span now c

/-- The pair `(bool, error)` an application returns when `IsRecognized` is called — all four
    combinations: `yes = (true, nil)`, `no = (false, nil)`, `err = (false, e)`, `yesErr = (true, e)`. -/
inductive Ans | yes | no | err | yesErr
  deriving DecidableEq, Repr

inductive Verdict | accept | reject | error
  deriving DecidableEq, Repr

/-- the application returned a non-nil error (checked first by the loop) -/
def Ans.hasErr : Ans → Bool
  | .err => true
  | .yesErr => true
  | _ => false

/-- The loop over `aap.applications`: verdict and number of `IsRecognized` calls made.
    `err != nil` is tested before `isRecognized`, so `(true, e)` is an error like `(false, e)`. -/
def ask : List Ans → Verdict × Nat
  | [] => (.reject, 0)
  | .yes :: _ => (.accept, 1)
  | .err :: _ => (.error, 1)
  | .yesErr :: _ => (.error, 1)
  | .no :: rest => ((ask rest).1, (ask rest).2 + 1)

structure Cfg where
  allow : List Nat
  posSpan : Nat
  negSpan : Nat

structure St where
  pos : Cache
  neg : Cache
  deriving DecidableEq, Repr

def St.empty : St := ⟨[], []⟩

/-- One call of `Validate(key)` at time `now` while the applications would answer `answers`. -/
def validate (cfg : Cfg) (st : St) (now key : Nat) (answers : List Ans) : Verdict × Nat × St :=
  if cfg.allow.contains key then (.accept, 0, st)
  else
    let pos := sweep cfg.posSpan now st.pos
    let neg := sweep cfg.negSpan now st.neg
    if has pos key then (.accept, 0, ⟨pos, neg⟩)
    else if has neg key then (.reject, 0, ⟨pos, neg⟩)
    else
      match ask answers with
      | (.error, n) => (.error, n, ⟨pos, neg⟩)
      | (.reject, n) => (.reject, n, ⟨pos, add cfg.negSpan now neg key⟩)
      | (.accept, n) => (.accept, n, ⟨add cfg.posSpan now pos key, neg⟩)

/-- A step of a history: the clock advances by `adv`, then `Validate(key)`. -/
structure Step where
  adv : Nat
  key : Nat
  answers : List Ans
  deriving Repr

/-- Observation of one step: verdict, calls, state after. -/
structure Obs where
  verdict : Verdict
  calls : Nat
  st : St
  deriving DecidableEq, Repr

/-- A whole history on one firewall instance, starting at time `now` in state `st`. -/
def runFrom (cfg : Cfg) : St → Nat → List Step → List Obs
  | _, _, [] => []
  | st, now, s :: rest =>
    let r := validate cfg st (now + s.adv) s.key s.answers
    ⟨r.1, r.2.1, r.2.2⟩ :: runFrom cfg r.2.2 (now + s.adv) rest

def run (cfg : Cfg) (steps : List Step) : List Obs := runFrom cfg St.empty 0 steps

/-- The configuration of the real constructor `AnyApplicationPolicy` (periods from the source). -/
def realCfg (allow : List Nat) : Cfg :=
  ⟨allow, Gen.C21.positivePeriodSeconds, Gen.C21.negativePeriodSeconds⟩

/-! ## Monitor: the property evaluated on what the implementation did.

The implementation reports, after every step, the keys of both caches with the age of their
timestamps.  Per step, with `prev` the report after the previous step and `adv` the time advanced:
* admitted ⇔ allowlisted ∨ positively cached and not older than the period ∨
  (not negatively cached within the period ∧ the first answer that is not `no` is `yes`);
* error ⇔ none of allowlist / live caches applies and the first non-`no` answer is an error;
* an error verdict leaves the key out of both caches (nothing is remembered);
* a verdict served from allowlist or cache makes no application call, otherwise the applications
  are asked in order up to the first decisive answer. -/

/-- first answer that is not `no` is `yes` -/
def firstDecisiveYes (answers : List Ans) : Bool := (ask answers).1 == .accept

/-- keys with the age of their entry -/
abbrev Report := List (Nat × Nat)

structure ImplStep where
  verdict : Verdict
  calls : Nat
  pos : Report
  neg : Report
  deriving Repr

/-- `k` is in the reported cache and still within the period after `adv` more seconds. -/
def live (span adv : Nat) (r : Report) (k : Nat) : Bool :=
  r.any fun e => e.1 == k && decide (e.2 + adv ≤ span)

def stepHolds (cfg : Cfg) (prevPos prevNeg : Report) (s : Step) (o : ImplStep) : Bool :=
  let allow := cfg.allow.contains s.key
  let posLive := live cfg.posSpan s.adv prevPos s.key
  let negLive := live cfg.negSpan s.adv prevNeg s.key
  let expectAdmit := allow || posLive || (!negLive && firstDecisiveYes s.answers)
  let expectError := !allow && !posLive && !negLive && ((ask s.answers).1 == .error)
  (decide (o.verdict = .accept) == expectAdmit)
  && (decide (o.verdict = .error) == expectError)
  && (if o.verdict = .error then !(o.pos.any (·.1 == s.key)) && !(o.neg.any (·.1 == s.key)) else true)
  && (if allow || posLive || negLive then o.calls == 0 else o.calls == (ask s.answers).2)

def holdsFrom (cfg : Cfg) : Report → Report → List Step → List ImplStep → Bool
  | _, _, [], [] => true
  | pp, pn, s :: ss, o :: os => stepHolds cfg pp pn s o && holdsFrom cfg o.pos o.neg ss os
  | _, _, _, _ => false

def holds (cfg : Cfg) (steps : List Step) (obs : List ImplStep) : Bool :=
  holdsFrom cfg [] [] steps obs

def report (now : Nat) (c : Cache) : Report := c.map fun e => (e.key, now - e.t)

/-- what the model run reports, in the implementation's observation format -/
def implOf (cfg : Cfg) : St → Nat → List Step → List ImplStep
  | _, _, [] => []
  | st, now, s :: rest =>
    let r := validate cfg st (now + s.adv) s.key s.answers
    ⟨r.1, r.2.1, report (now + s.adv) r.2.2.pos, report (now + s.adv) r.2.2.neg⟩
      :: implOf cfg r.2.2 (now + s.adv) rest

end KeepVerif.C21
