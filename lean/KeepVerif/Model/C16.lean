/-!
# C16 model: duplicate filter, handler loop, sequence numbers, and one broadcast channel

* `fstep`  : `retransmission.WithRetransmissionSupport` called from many goroutines; the mutex
             section (look up + insert) is one atomic step, the delegate call a later step.
* `sstep`  : the same with the look-up and the insert in two critical sections (a mutant; the
             property fails, see `Props`).
* `lstep`  : the receiver goroutine of `Recv` (local and libp2p channels): `select` on
             `ctx.Done()` / message queue with the `ctx.Err()` re-check.
* `nextSeqnos` : `atomic.AddUint64(&counter, 1)` from many goroutines.
* `Chan`   : one broadcast channel with receivers, sequentially, step by step (what the harness
             drives between quiescent points).
-/
namespace KeepVerif.C16

/-- (transport sender, sequence number); sender 0 = channel `a`, 1 = channel `b`. -/
abbrev Id := Nat × Nat

/-! ## 1. Duplicate filter under concurrency -/

inductive FPC
  | start
  | passed (deliver : Bool)   -- left the critical section; `deliver = !seen`
  | finished
deriving DecidableEq, Repr

structure FState where
  cache : List Id
  pcs : List FPC
  delivered : List Id     -- delegate invocations, in order
deriving DecidableEq, Repr

def finit (n : Nat) : FState := ⟨[], List.replicate n FPC.start, []⟩

/-- call number `t` (handling `msgs[t]`) makes its next step. -/
def fstep (msgs : List Id) (s : FState) (t : Nat) : FState :=
  match s.pcs[t]?, msgs[t]? with
  | some .start, some m =>
    if s.cache.contains m then { s with pcs := s.pcs.set t (.passed false) }
    else { s with cache := m :: s.cache, pcs := s.pcs.set t (.passed true) }
  | some (.passed d), some m =>
    { s with pcs := s.pcs.set t .finished,
             delivered := if d then s.delivered ++ [m] else s.delivered }
  | _, _ => s

def frun (msgs : List Id) (s : FState) (sched : List Nat) : FState := sched.foldl (fstep msgs) s

/-- mutant: look-up and insert in two separate critical sections. -/
inductive SPC
  | start
  | looked (seen : Bool)
  | inserted
  | finished
deriving DecidableEq, Repr

structure SState where
  cache : List Id
  pcs : List SPC
  delivered : List Id
deriving DecidableEq, Repr

def sinit (n : Nat) : SState := ⟨[], List.replicate n SPC.start, []⟩

def sstep (msgs : List Id) (s : SState) (t : Nat) : SState :=
  match s.pcs[t]?, msgs[t]? with
  | some .start, some m => { s with pcs := s.pcs.set t (.looked (s.cache.contains m)) }
  | some (.looked true), some _ => { s with pcs := s.pcs.set t .finished }
  | some (.looked false), some m => { s with cache := m :: s.cache, pcs := s.pcs.set t .inserted }
  | some .inserted, some m => { s with pcs := s.pcs.set t .finished, delivered := s.delivered ++ [m] }
  | _, _ => s

def srun (msgs : List Id) (s : SState) (sched : List Nat) : SState := sched.foldl (sstep msgs) s

/-! ## 2. Receiver loop and cancellation -/

inductive LEv
  | enqueue (m : Id)       -- `deliver` puts a message into the handler's channel
  | cancel                 -- the receiver's context is cancelled
  | iter (pickDone : Bool) -- one `select` of the loop; `pickDone` = the runtime's choice when both
                           -- `ctx.Done()` and a message are ready
deriving DecidableEq, Repr

inductive LLog
  | handled (m : Id)       -- `handleWithRetransmissions(msg)` called
  | cancelled
deriving DecidableEq, Repr

structure LState where
  queue : List Id
  cancelled : Bool
  exited : Bool
  log : List LLog
deriving DecidableEq, Repr

def linit : LState := ⟨[], false, false, []⟩

/-- `recheck = true` is the code (`if messageHandler.ctx.Err() != nil { continue }`). -/
def lstep (recheck : Bool) (s : LState) : LEv → LState
  | .enqueue m => { s with queue := s.queue ++ [m] }
  | .cancel => if s.cancelled then s else { s with cancelled := true, log := s.log ++ [.cancelled] }
  | .iter pickDone =>
    if s.exited then s else
    match s.queue with
    | [] => if s.cancelled then { s with exited := true } else s   -- blocks / returns
    | m :: q =>
      if s.cancelled && pickDone then { s with exited := true }
      else if recheck && s.cancelled then { s with queue := q }      -- `continue`
      else { s with queue := q, log := s.log ++ [.handled m] }

def lrun (recheck : Bool) (s : LState) (evs : List LEv) : LState := evs.foldl (lstep recheck) s

/-- nothing is handled after the `cancelled` entry of the log. -/
def noHandleAfterCancel : List LLog → Bool
  | [] => true
  | .cancelled :: rest => rest.all (fun e => match e with | .handled _ => false | _ => true)
  | _ :: rest => noHandleAfterCancel rest

/-! ## 3. Sequence numbers -/

/-- values returned by `n` atomic `AddUint64(&counter, 1)` calls, in execution order. -/
def nextSeqnos (counter : Nat) : Nat → List Nat
  | 0 => []
  | n + 1 => (counter + 1) :: nextSeqnos (counter + 1) n

/-- `channel.Send` called sequentially, one call per element of `mask` (`true` = the first publish
    of that Send fails): the sequence number is taken from the counter before the publish and is
    never returned to it.  Result: (sequence number, Send returned an error) per message. -/
def sendAll (counter : Nat) : List Bool → List (Nat × Bool)
  | [] => []
  | failed :: rest => (counter + 1, failed) :: sendAll (counter + 1) rest

/-! ## 4. One broadcast channel, sequentially -/

structure Recv where
  live : Bool
  seen : List Id      -- what the handler was called with (= the filter's cache), in order
deriving DecidableEq, Repr

structure Chan where
  recvs : List Recv
  sent : List Id      -- messages whose retransmission is scheduled
  ca : Nat            -- `counter` of channel a
  cb : Nat
deriving DecidableEq, Repr

def deliverTo (m : Id) (r : Recv) : Recv :=
  if r.live && !r.seen.contains m then { r with seen := r.seen ++ [m] } else r

def sendFrom (s : Nat) (c : Chan) : Chan :=
  let n := (if s = 0 then c.ca else c.cb) + 1
  { recvs := c.recvs.map (deliverTo (s, n)), sent := c.sent ++ [(s, n)],
    ca := if s = 0 then n else c.ca, cb := if s = 0 then c.cb else n }

def sendN (s : Nat) : Nat → Chan → Chan
  | 0, c => c
  | k + 1, c => sendN s k (sendFrom s c)

def retransmitAll (c : Chan) : Chan :=
  { c with recvs := c.sent.foldl (fun rs m => rs.map (deliverTo m)) c.recvs }

def kill (i : Nat) (c : Chan) : Chan :=
  { c with recvs := c.recvs.modify i (fun r => { r with live := false }) }

inductive Step
  | send (x y : Nat)
  | tick
  | cancel (i : Nat)
  | reg
  | xcancel (i k : Nat)
deriving DecidableEq, Repr

/-- every step is followed by one more send on `a` (the harness's quiescence marker). -/
def step (c : Chan) : Step → Chan
  | .send x y => sendFrom 0 (sendN 1 y (sendN 0 x c))
  | .tick => sendFrom 0 (retransmitAll c)
  | .cancel i => sendFrom 0 (kill i c)
  | .reg => sendFrom 0 { c with recvs := c.recvs ++ [⟨true, []⟩] }
  | .xcancel i k => sendFrom 0 (sendN 0 k (kill i (sendFrom 0 c)))

def chanInit (r : Nat) : Chan := ⟨List.replicate r ⟨true, []⟩, [], 0, 0⟩

def runChan (r : Nat) (steps : List Step) : Chan := steps.foldl step (chanInit r)

/-- the harness refuses histories that cancel a dead/unknown receiver or are too long. -/
def validSteps : List Bool → Nat → List Step → Bool
  | live, total, [] => live.length ≤ 8 && total ≤ 120
  | live, total, .send x y :: rest => validSteps live (total + x + y + 1) rest
  | live, total, .tick :: rest => validSteps live (total + 1) rest
  | live, total, .reg :: rest => validSteps (live ++ [true]) (total + 1) rest
  | live, total, .cancel i :: rest =>
    live.getD i false && validSteps (live.set i false) (total + 2) rest
  | live, total, .xcancel i k :: rest =>
    live.getD i false && validSteps (live.set i false) (total + k + 2) rest

/-! ## Monitors -/

def idLt (a b : Id) : Bool := a.1 < b.1 || (a.1 == b.1 && a.2 < b.2)

def insertId (x : Id) : List Id → List Id
  | [] => [x]
  | y :: ys => if idLt y x then y :: insertId x ys else x :: y :: ys

def sortIds (l : List Id) : List Id := l.foldr insertId []

def nodupB : List Id → Bool
  | [] => true
  | x :: xs => !xs.contains x && nodupB xs

/-- per receiver: (delivered ids, handler calls that started after its cancellation). -/
def holdsChan (c : Chan) (obs : List (List Id × Nat)) (stalled : Bool) : Bool :=
  !stalled && obs.length == c.recvs.length &&
  obs.all fun (ids, late) => nodupB ids && late == 0 && ids.all c.sent.contains

def holdsFilter (msgs : List Id) (obs : List Id) : Bool :=
  nodupB obs && obs.all msgs.contains && msgs.all obs.contains

end KeepVerif.C16
