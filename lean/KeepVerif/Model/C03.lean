import KeepVerif.Gen.C03
/-!
# C03 model: threshold BLS recovery (`pkg/bls/bls.go`) and share validation
(`pkg/beacon/entry/entry.go`)

Group elements are represented by their exponents modulo the generated constant `groupOrder`
(`bn256.Order`): a G1 value `v` is `v • G1gen`, a G2 value `v • G2gen` (A-field: both groups are
cyclic of prime order `R`, the pairing is bilinear and non-degenerate, so
`VerifyG1 (sk • G2gen) (m • G1gen) (s • G1gen) ⇔ s ≡ sk·m (mod R)`).  The driver turns an
exponent into the marshalled point with its own Jacobian arithmetic over `fieldP`, so the
correspondence check compares full marshalled outputs.

The model follows the code *after* the `fix:` commit (the Lagrange sum runs over the collected
valid shares).  `recoverSigOld` keeps the code as it was (share values read from the unfiltered
slice at the filtered positions) for the counterexample theorems.
-/
namespace KeepVerif.C03

abbrev R : Nat := Gen.C03.groupOrder
abbrev P : Nat := Gen.C03.fieldP

/-! ## scalars modulo R -/

/-- square-and-multiply modulo `m`; fuel = the exponent (halved every step). -/
def powModAux (m : Nat) : Nat → Nat → Nat → Nat → Nat
  | 0, acc, _, _ => acc
  | f+1, acc, base, e =>
    if e = 0 then acc
    else powModAux m f (if e % 2 = 1 then (acc * base) % m else acc) ((base * base) % m) (e / 2)

def powMod (m a e : Nat) : Nat := powModAux m e (1 % m) (a % m) e

/-- a share entry of the input slice: `nil`, a share with `V == nil`, or index + value. -/
inductive Entry
  | nil
  | noV (i : Int)
  | share (i : Int) (v : Nat)
deriving DecidableEq, Repr

/-- the documented skip rule: `s == nil || s.V == nil || s.I < 0`. -/
def Entry.valid? : Entry → Option (Int × Nat)
  | .share i v => if i < 0 then none else some (i, v)
  | _ => none

/-- selection loop of `RecoverSignature` (the length test comes first). -/
def collectSig (thr : Int) : List Entry → List (Int × Nat) → List (Int × Nat)
  | [], acc => acc
  | e :: es, acc =>
    if (acc.length : Int) = thr then acc
    else match e.valid? with
      | none => collectSig thr es acc
      | some s => collectSig thr es (acc ++ [s])

/-- selection loop of `RecoverPublicKey` (the length test comes after the append). -/
def collectPk (thr : Int) : List Entry → List (Int × Nat) → List (Int × Nat)
  | [], acc => acc
  | e :: es, acc =>
    match e.valid? with
    | none => collectPk thr es acc
    | some s =>
      if ((acc ++ [s]).length : Int) = thr then acc ++ [s] else collectPk thr es (acc ++ [s])

/-- running product with a reduction after every factor (`Mod(Mul(acc, x), Order)`). -/
def prodMod (l : List Int) : Int := l.foldl (fun a x => (a * x) % (R : Int)) 1

/-- positions `j ≠ i` of a list of length `n`. -/
def others (n i : Nat) : List Nat := (List.range n).filter (fun j => j != i)

/-- `lagrangeBasis(i, validParticipants)`; `none` = `ModInverse` returned nil (den ≡ 0, i.e. a
    duplicate index) and the following `Mul` dereferences it (panic). -/
def lagrangeBasis (i : Nat) (xs : List Int) : Option Nat :=
  let xi := xs.getD i 0
  let num := prodMod ((others xs.length i).map fun j => xs.getD j 0)
  let den := prodMod ((others xs.length i).map fun j => xs.getD j 0 - xi)
  if den % (R : Int) = 0 then none
  else some (((num % (R : Int)).toNat * powMod R (den % (R : Int)).toNat (R - 2)) % R)

/-- outcome of a recovery. -/
inductive Out
  | notEnough
  | panic
  | ok (e : Nat)
deriving DecidableEq, Repr

/-- `Σ basis_i • V_i` over the given (index, value) list, as an exponent. -/
def combineFrom (xs : List Int) (vals : List Nat) : List Nat → Nat → Out
  | [], acc => .ok acc
  | i :: is, acc =>
    match lagrangeBasis i xs with
    | none => .panic
    | some b => combineFrom xs vals is ((acc + b * vals.getD i 0) % R)

def combine (used : List (Int × Nat)) : Out :=
  combineFrom (used.map (·.1)) (used.map (·.2)) (List.range used.length) 0

/-- `RecoverSignature` (fixed). -/
def recoverSig (thr : Int) (es : List Entry) : Out :=
  let used := collectSig thr es []
  if (used.length : Int) < thr then .notEnough else combine used

/-- `RecoverPublicKey` (fixed). -/
def recoverPk (thr : Int) (es : List Entry) : Out :=
  let used := collectPk thr es []
  if (used.length : Int) < thr then .notEnough else combine used

/-! ### the code before the fix: `shares[i].V` with `i` a position in the filtered list -/

def combineOldFrom (xs : List Int) (es : List Entry) : List Nat → Nat → Out
  | [], acc => .ok acc
  | i :: is, acc =>
    match lagrangeBasis i xs with
    | none => .panic
    | some b =>
      match es.getD i .nil with
      | .share _ v => combineOldFrom xs es is ((acc + b * v) % R)
      | _ => .panic      -- nil pointer / nil V dereference

def recoverSigOld (thr : Int) (es : List Entry) : Out :=
  let used := collectSig thr es []
  if (used.length : Int) < thr then .notEnough
  else combineOldFrom (used.map (·.1)) es (List.range used.length) 0

/-! ## verification and share validation (entry.go) -/

/-- `bls.VerifyG1(pk•G2, m•G1, s•G1)` under A-field. -/
def verify (pk m s : Nat) : Bool := (pk * m) % R == s % R

/-- outcome of `extractAndValidateShare`. `sharePt = none`: bytes do not unmarshal;
    `some (x, y)`: the affine point (or (0,0) = infinity). -/
inductive ShareOut
  | unmarshal | nosender | invalid
  | accepted (x y : Nat)
deriving DecidableEq, Repr

/-! ## G1 arithmetic (Jacobian, over `P`) used to print exponents as marshalled points -/

structure J1 where
  x : Nat
  y : Nat
  z : Nat

namespace J1
def fsub (a b : Nat) : Nat := (a + (P - b % P)) % P
def fmul (a b : Nat) : Nat := (a * b) % P
def fadd (a b : Nat) : Nat := (a + b) % P
def inf : J1 := ⟨1, 1, 0⟩

def double (p : J1) : J1 :=
  if p.z = 0 then inf else
  let a := fmul p.x p.x
  let b := fmul p.y p.y
  let c := fmul b b
  let xb := fadd p.x b
  let d := fmul 2 (fsub (fsub (fmul xb xb) a) c)
  let e := fmul 3 a
  let f := fmul e e
  let x3 := fsub f (fmul 2 d)
  let y3 := fsub (fmul e (fsub d x3)) (fmul 8 c)
  let z3 := fmul 2 (fmul p.y p.z)
  ⟨x3, y3, z3⟩

def addJ (p q : J1) : J1 :=
  if p.z = 0 then q else if q.z = 0 then p else
  let z1z1 := fmul p.z p.z
  let z2z2 := fmul q.z q.z
  let u1 := fmul p.x z2z2
  let u2 := fmul q.x z1z1
  let s1 := fmul p.y (fmul q.z z2z2)
  let s2 := fmul q.y (fmul p.z z1z1)
  if u1 = u2 then (if s1 = s2 then double p else inf) else
  let h := fsub u2 u1
  let r := fsub s2 s1
  let h2 := fmul h h
  let h3 := fmul h h2
  let v := fmul u1 h2
  let x3 := fsub (fsub (fmul r r) h3) (fmul 2 v)
  let y3 := fsub (fmul r (fsub v x3)) (fmul s1 h3)
  let z3 := fmul h (fmul p.z q.z)
  ⟨x3, y3, z3⟩

def mulAux : Nat → J1 → J1 → Nat → J1
  | 0, acc, _, _ => acc
  | f+1, acc, base, k =>
    if k = 0 then acc
    else mulAux f (if k % 2 = 1 then addJ acc base else acc) (double base) (k / 2)

def smul (k : Nat) (p : J1) : J1 := mulAux k inf p k

/-- affine coordinates as `Marshal` prints them; infinity = (0,0). -/
def affine (p : J1) : Nat × Nat :=
  if p.z = 0 then (0, 0) else
  let zi := powMod P p.z (P - 2)
  let zi2 := fmul zi zi
  (fmul p.x zi2, fmul p.y (fmul zi2 zi))
end J1

/-- marshalled coordinates of `e • G1gen`, `G1gen = (1, 2)`. -/
def g1OfExp (e : Nat) : Nat × Nat := (J1.smul (e % R) ⟨1, 2, 1⟩).affine

/-- `G1.Unmarshal` of 64 bytes given as two numbers: range check, infinity, curve equation. -/
def g1Unmarshal (x y : Nat) : Option (Nat × Nat) :=
  if x ≥ P ∨ y ≥ P then none
  else if x = 0 ∧ y = 0 then some (0, 0)
  else if (y * y) % P = (x * x * x + 3) % P then some (x, y) else none

/-- `extractAndValidateShare`: `pks` = public key shares as (member, exponent), `prev` the
    previous entry's exponent, `share` the unmarshalled bytes (`none` = too short). G1 has prime
    order, so under A-field the pairing check holds iff the point equals `(pk·prev) • G1gen`. -/
def validateShare (sender : Nat) (pks : List (Nat × Nat)) (prev : Nat)
    (share : Option (Nat × Nat)) : ShareOut :=
  match share.bind (fun s => g1Unmarshal s.1 s.2) with
  | none => .unmarshal
  | some pt =>
    match pks.lookup sender with
    | none => .nosender
    | some pk => if g1OfExp (pk * prev) = pt then .accepted pt.1 pt.2 else .invalid


/-! ## G2 arithmetic (twist over F_p², Jacobian) used to print `RecoverPublicKey` results -/

structure Fp2 where
  x : Nat   -- real part
  y : Nat   -- imaginary part
deriving DecidableEq, Repr

namespace Fp2
def one : Fp2 := ⟨1, 0⟩
def zero : Fp2 := ⟨0, 0⟩
def mul (a b : Fp2) : Fp2 :=
  ⟨((a.x * b.x) % P + (P - (a.y * b.y) % P)) % P, ((a.x * b.y) % P + (a.y * b.x) % P) % P⟩
def add (a b : Fp2) : Fp2 := ⟨(a.x + b.x) % P, (a.y + b.y) % P⟩
def sub (a b : Fp2) : Fp2 := ⟨(a.x + (P - b.x % P)) % P, (a.y + (P - b.y % P)) % P⟩
def isZero (a : Fp2) : Bool := a.x == 0 && a.y == 0
/-- `(a + bi)⁻¹ = (a − bi)/(a² + b²)` -/
def inv (a : Fp2) : Fp2 :=
  let n := powMod P ((a.x * a.x + a.y * a.y) % P) (P - 2)
  ⟨(a.x * n) % P, ((P - a.y % P) * n) % P⟩
end Fp2

structure J2 where
  x : Fp2
  y : Fp2
  z : Fp2

namespace J2
open Fp2
def inf : J2 := ⟨one, one, zero⟩
def dbl2 (a : Fp2) : Fp2 := add a a

def double (p : J2) : J2 :=
  if p.z.isZero then inf else
  let a := mul p.x p.x
  let b := mul p.y p.y
  let c := mul b b
  let xb := add p.x b
  let d := dbl2 (sub (sub (mul xb xb) a) c)
  let e := add (dbl2 a) a
  let f := mul e e
  let x3 := sub f (dbl2 d)
  let y3 := sub (mul e (sub d x3)) (dbl2 (dbl2 (dbl2 c)))
  let z3 := dbl2 (mul p.y p.z)
  ⟨x3, y3, z3⟩

def addJ (p q : J2) : J2 :=
  if p.z.isZero then q else if q.z.isZero then p else
  let z1z1 := mul p.z p.z
  let z2z2 := mul q.z q.z
  let u1 := mul p.x z2z2
  let u2 := mul q.x z1z1
  let s1 := mul p.y (mul q.z z2z2)
  let s2 := mul q.y (mul p.z z1z1)
  if u1 = u2 then (if s1 = s2 then double p else inf) else
  let h := sub u2 u1
  let r := sub s2 s1
  let h2 := mul h h
  let h3 := mul h h2
  let v := mul u1 h2
  let x3 := sub (sub (mul r r) h3) (dbl2 v)
  let y3 := sub (mul r (sub v x3)) (mul s1 h3)
  let z3 := mul h (mul p.z q.z)
  ⟨x3, y3, z3⟩

def mulAux : Nat → J2 → J2 → Nat → J2
  | 0, acc, _, _ => acc
  | f+1, acc, base, k =>
    if k = 0 then acc
    else mulAux f (if k % 2 = 1 then addJ acc base else acc) (double base) (k / 2)

def smul (k : Nat) (p : J2) : J2 := mulAux k inf p k

def affine (p : J2) : Fp2 × Fp2 :=
  if p.z.isZero then (zero, zero) else
  let zi := inv p.z
  let zi2 := mul zi zi
  (mul p.x zi2, mul p.y (mul zi2 zi))
end J2

/-- `G2gen` from the generated facts (marshal order: x.imag, x.real, y.imag, y.real). -/
def g2Gen : J2 :=
  ⟨⟨Gen.C03.g2GenXr, Gen.C03.g2GenXi⟩, ⟨Gen.C03.g2GenYr, Gen.C03.g2GenYi⟩, Fp2.one⟩

/-- affine coordinates of `e • G2gen`. -/
def g2OfExp (e : Nat) : Fp2 × Fp2 := (J2.smul (e % R) g2Gen).affine

/-! ## Monitor -/

/-- Horner evaluation of the generator's polynomial modulo R. -/
def evalPoly (coefs : List Nat) (x : Int) : Int :=
  coefs.foldr (fun (c : Nat) (acc : Int) => (acc * x + (c : Int)) % (R : Int)) 0

/-- a valid entry carries the correct share of the polynomial for message exponent `m`. -/
def correctShare (coefs : List Nat) (m : Nat) (s : Int × Nat) : Bool :=
  ((evalPoly coefs s.1 * m) % (R : Int)).toNat == s.2 % R

def nodupInts : List Int → Bool
  | [] => true
  | x :: xs => !xs.contains x && nodupInts xs

/-- The property on one observed `RecoverSignature` call.  `obs = none`: error return,
    `some (e?, verified)`: a signature equal to `e • G` (as marshalled point `pt`) and the result
    of `VerifyG1` under the group key `a0 • G2`.
    If at least `thr ≥ 1` non-skipped entries exist, the first `thr` of them have distinct
    indices (below `R`, as every Go `int` is) and are correct shares of a polynomial of degree `< thr` with secret `a0`, then the
    call must return the group signature `(a0·m) • G`, and it must verify. Fewer than `thr`
    non-skipped entries must give the error. -/
def holdsRec (thr : Int) (es : List Entry) (coefs : List Nat) (m : Nat)
    (obs : Option ((Nat × Nat) × Bool)) : Bool :=
  let valid := es.filterMap Entry.valid?
  if thr < 1 then true
  else if (valid.length : Int) < thr then obs.isNone
  else
    let used := valid.take thr.toNat
    if nodupInts (used.map (·.1)) && used.all (fun s => decide (s.1 < (R : Int)))
        && used.all (correctShare coefs m) && decide ((coefs.length : Int) ≤ thr) then
      match obs with
      | some (pt, v) => v && pt == g1OfExp (coefs.headD 0 * m)
      | none => false
    else true

/-- A crash (nil dereference after `ModInverse` fails) is outside the property only when the
    shares that are used carry a duplicate index (or an index `≥ R`, impossible for a Go `int`). -/
def holdsRecCrashOk (thr : Int) (es : List Entry) : Bool :=
  let valid := es.filterMap Entry.valid?
  let used := if thr < 1 then valid else valid.take thr.toNat
  !nodupInts (used.map (·.1)) || used.any (fun s => decide ((R : Int) ≤ s.1))

/-- "A share that does not verify under its member's public key share is never used":
    an accepted share is the unmarshalled message content, the sender has a public key share,
    and the share equals `(pk_sender · prev) • G` (= passes the pairing check, A-field). -/
def holdsAccepted (sender : Nat) (pks : List (Nat × Nat)) (prev : Nat)
    (share : Option (Nat × Nat)) (accepted : Nat × Nat) : Bool :=
  match share.bind (fun s => g1Unmarshal s.1 s.2), pks.lookup sender with
  | some pt, some pk => pt == accepted && g1OfExp (pk * prev) == accepted
  | _, _ => false


/-! ## The relay entry message loop (`SignAndSubmit`) on a scripted history -/

/-- secret key share of member `i` for the generator's polynomial. -/
def skOf (coefs : List Nat) (i : Nat) : Nat := (evalPoly coefs (i : Int)).toNat

/-- Outcome of `SignAndSubmit` for member `self` of a group of `n` with key shares `f(i)`, given
    the messages `(sender, share bytes)` that the other members (re)send until it returns:
    the member collects its own share and every share that validates; with at least `thr`
    senders it completes the signature (`notEnough` = relay entry timeout).  Which `thr` of the
    validated shares are used depends on arrival order and Go map iteration; the model takes the
    lowest member indices (`recover_unique`: the result does not depend on the choice). -/
def entryModel (self n : Nat) (thr : Int) (coefs : List Nat) (prev : Nat)
    (msgs : List (Nat × Option (Nat × Nat))) : Out :=
  let pks := (List.range n).map fun i => (i + 1, skOf coefs (i + 1))
  let validSenders := ((List.range n).map (· + 1)).filter fun s =>
    s == self || msgs.any fun mb =>
      mb.1 == s && (match validateShare s pks prev mb.2 with | .accepted _ _ => true | _ => false)
  if (validSenders.length : Int) < thr then .notEnough
  else recoverSig thr
    (validSenders.map fun (s : Nat) => Entry.share (Int.ofNat s) ((skOf coefs s * prev) % R))

/-- monitor for one `RecoverPublicKey` step: correct shares at distinct indices must give the
    group public key `a0 • G2`. `obs = none`: error return. -/
def holdsPk (thr : Int) (es : List Entry) (coefs : List Nat) (obs : Option (Fp2 × Fp2)) : Bool :=
  let valid := es.filterMap Entry.valid?
  if thr < 1 then true
  else if (valid.length : Int) < thr then obs.isNone
  else
    let used := valid.take thr.toNat
    if nodupInts (used.map (·.1)) && used.all (fun s => decide (s.1 < (R : Int)))
        && used.all (correctShare coefs 1) && decide ((coefs.length : Int) ≤ thr) then
      match obs with
      | some pt => pt == g2OfExp (coefs.headD 0)
      | none => false
    else true

end KeepVerif.C03
