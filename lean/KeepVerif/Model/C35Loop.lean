import KeepVerif.DriverLib
import KeepVerif.Model.C35
/-!
# C35 / C36: the signing retry loop around the done check (`loop` op of harness/c35/looprun)

The harness runs the real `signingRetryLoop.start` with the real `signingDoneCheck`.  Member
selection inside the loop is pseudo-random (property C10), so there is no output prediction for
this op (the driver answers `SKIP`); the *monitor* below states what the properties require of what
the loop did, from the scripted inputs only:

* C35: `listen` is given the attempt's protocol timeout block; a reported signature was confirmed by
  every member included in the deciding attempt with a done message for THAT attempt, that
  signature and an end block within that timeout; the reported end block is one of theirs and not
  smaller than anyone's earliest valid one; the reported attempt timeout is that block.
* C36 (what the heartbeat claim is built from): the activity report names exactly the wallet
  members that announced readiness as active and exactly the other wallet members as inactive.
-/
namespace KeepVerif.C35Loop

structure Other where
  sender : Nat
  attempt : Nat
  endBlock : Nat
  sig : Nat

structure Attempt where
  ready : List Nat
  own : Option (Nat × Nat)   -- (end block, signature) if signingAttemptFn succeeds
  others : List Other

structure Case where
  n : Nat
  t : Nat
  gs : Nat
  self : Nat
  start : Nat
  attempts : List Attempt

structure Listen where
  k : Nat
  included : List Nat
  lt : Nat
  deriving DecidableEq

inductive Result
  | err
  | ok (sig endBlock tb : Nat) (act inact : List Nat)
  deriving DecidableEq

structure Consts where
  delay : Nat
  active : Nat
  protocol : Nat
  coolDown : Nat

def protoTimeout (cs : Consts) (c : Case) (k : Nat) : Nat :=
  c.start + (k - 1) * (cs.delay + cs.active + cs.protocol + cs.coolDown) + cs.delay + cs.active + cs.protocol

/-- end blocks of the valid confirmations of member `i` for attempt `k` and signature `sig` -/
def confirmations (cs : Consts) (c : Case) (k : Nat) (a : Attempt) (sig i : Nat) : List Nat :=
  let pt := protoTimeout cs c k
  (match a.own with
   | some (e, s) => if i == c.self && s == sig && e ≤ pt then [e] else []
   | none => []) ++
  a.others.filterMap fun o =>
    if o.sender == i && o.attempt == k && o.sig == sig && o.endBlock ≤ pt then some o.endBlock else none

def insertNat (x : Nat) : List Nat → List Nat
  | [] => [x]
  | y :: ys => if x ≤ y then x :: y :: ys else y :: insertNat x ys

def sortNats (l : List Nat) : List Nat := l.foldr insertNat []

/-- the wallet's member indexes -/
def wallet (c : Case) : List Nat := List.range' 1 c.n

/-- `announcer.UnreadyMembers(ready, wallet size)` -/
def unready (c : Case) (ready : List Nat) : List Nat :=
  (wallet c).filter (fun m => !ready.contains m)

def holds (cs : Consts) (c : Case) (ls : List Listen) (r : Result) : Bool :=
  ls.all (fun l => l.lt == protoTimeout cs c l.k && l.included.all (fun m => 1 ≤ m && m ≤ c.n)) &&
  match r with
  | .err => true
  | .ok sig e tb act inact =>
    match ls.getLast? with
    | none => false
    | some l =>
      match c.attempts[l.k - 1]? with
      | none => false
      | some a =>
        let conf := confirmations cs c l.k a sig
        sig != 0 && tb == protoTimeout cs c l.k &&
        l.included.all (fun i => (conf i).any (· ≤ e)) &&
        l.included.any (fun i => (conf i).contains e) &&
        sortNats act == sortNats a.ready &&
        sortNats inact == sortNats (unready c a.ready)

/-! ## Model of the loop's use of the done check

Member selection (`performMembersSelection`, pseudo-random, property C10) is a PARAMETER:
`sel k ready` = the members included in attempt `k` given the ready list.  Per attempt:
announcement (scripted ready list; fewer than `t` ready → next attempt, no `listen`) →
`listen(sel k ready, k, protocol timeout of attempt k)` which starts from an empty set of
confirmations (fixes 81ec0fd / 750971a: nothing of another attempt's listener survives) →
the scripted done messages arrive → if this member is included: `signingAttemptFn` fails (next
attempt, `waitUntilAllDone` not reached) or succeeds and `signalDone` delivers the own done message →
`waitUntilAllDone` = `C35.check` on the recorded confirmations: success ends the loop with the
report, mismatch / incomplete (timeout) → next attempt.  After the scripted attempts: `err`. -/

abbrev Selection := Nat → List Nat → List Nat

/-- the message being signed (any constant; the harness uses 4242) -/
def msgConst : Nat := 4242

def attemptParams (cs : Consts) (c : Case) (sel : Selection) (k : Nat) (a : Attempt) : C35.Params :=
  ⟨wallet c, sel k a.ready, msgConst, k, protoTimeout cs c k⟩

def otherMsg (o : Other) : C35.Msg := ⟨o.sender, o.sender, msgConst, o.attempt, o.sig, o.endBlock⟩

/-- done messages the listener of attempt `k` sees, in order; `none` = this member is included and
    its signing attempt failed (`waitUntilAllDone` is not reached) -/
def attemptMsgs (c : Case) (k : Nat) (a : Attempt) (included : List Nat) : Option (List C35.Msg) :=
  let others := a.others.map otherMsg
  if included.contains c.self then
    match a.own with
    | none => none
    | some (e, s) => some (others ++ [⟨c.self, c.self, msgConst, k, s, e⟩])
  else some others

def runFrom (cs : Consts) (c : Case) (sel : Selection) : Nat → List Attempt → List Listen × Result
  | _, [] => ([], .err)
  | k, a :: rest =>
    if a.ready.length < c.t then runFrom cs c sel (k + 1) rest
    else
      let l : Listen := ⟨k, sel k a.ready, protoTimeout cs c k⟩
      match attemptMsgs c k a (sel k a.ready) with
      | none => let r := runFrom cs c sel (k + 1) rest; (l :: r.1, r.2)
      | some msgs =>
        match (C35.scenario .fixed (attemptParams cs c sel k a) msgs []).1 with
        | .success sig eb => ([l], .ok sig eb (protoTimeout cs c k) a.ready (unready c a.ready))
        | _ => let r := runFrom cs c sel (k + 1) rest; (l :: r.1, r.2)

def run (cs : Consts) (c : Case) (sel : Selection) : List Listen × Result :=
  runFrom cs c sel 1 c.attempts

/-! ## Prediction under the observed selection

The op line does not determine the member selection (pseudo-random, C10), the observation does:
`selOf ls` is the selection function read off the observed `listen` calls.  The model run under that
selection must be exactly what was observed (all `listen` calls and the report). -/

def selOf (ls : List Listen) : Selection := fun k _ =>
  match ls.find? (fun l => l.k == k) with
  | some l => l.included
  | none => []

def normResult : Result → Result
  | .err => .err
  | .ok s e t act inact => .ok s e t (sortNats act) (sortNats inact)

def agreesWithModel (cs : Consts) (c : Case) (ls : List Listen) (r : Result) : Bool :=
  let m := run cs c (selOf ls)
  decide (m.1 = ls) && decide (normResult m.2 = normResult r)

/-! ## parsing of the op / observation lines -/

def dotList (s : String) : Option (List Nat) :=
  if s == "-" then some [] else (s.splitOn ".").mapM String.toNat?

def parseOther (s : String) : Option Other :=
  match s.splitOn ":" with
  | [a, b, c, d] => do pure ⟨← a.toNat?, ← b.toNat?, ← c.toNat?, ← d.toNat?⟩
  | _ => none

def parseAttempt (s : String) : Option Attempt :=
  match s.splitOn "/" with
  | [r, o, os] => do
    let ready ← dotList r
    let own ← if o == "f" then some none else
      match o.splitOn ":" with
      | [e, sg] => do pure (some (← e.toNat?, ← sg.toNat?))
      | _ => none
    let others ← if os == "-" then some [] else (os.splitOn "|").mapM parseOther
    pure ⟨ready, own, others⟩
  | _ => none

def parseCase (line : String) : Option Case :=
  match splitWs line with
  | ["loop", n, t, gs, self, start, atts] => do
    let as ← (splitList atts).mapM parseAttempt
    if as.isEmpty then none else
    pure ⟨← n.toNat?, ← t.toNat?, ← gs.toNat?, ← self.toNat?, ← start.toNat?, as⟩
  | _ => none

def parseListen (s : String) : Option Listen :=
  match s.splitOn "/" with
  | [k, inc, lt] => do pure ⟨← k.toNat?, ← dotList inc, ← lt.toNat?⟩
  | _ => none

def parseResult (s : String) : Option Result :=
  match s.splitOn "/" with
  | ["err"] => some .err
  | ["ok", sg, e, tb, act, inact] => do
    let sig ← if sg == "nil" then some 0 else sg.toNat?
    pure (.ok sig (← e.toNat?) (← tb.toNat?) (← dotList act) (← dotList inact))
  | _ => none

def isLoopOp (op : String) : Bool := (splitWs op).head? == some "loop"

def monitor (cs : Consts) (op obs : String) : String :=
  match parseCase op with
  | none => if obs == "bad-op" then "ok" else "FAIL bad-op-accepted"
  | some c =>
    if obs == "bad-op" then "ok" else   -- range checks of the harness (sizes) are not repeated here
    match splitWs obs with
    | [ls, r] =>
      match (if ls == "-" then some [] else (ls.splitOn ",").mapM parseListen), parseResult r with
      | some ls, some r =>
        if !holds cs c ls r then "FAIL signing-loop-done-check-glue-or-activity-report"
        else if !agreesWithModel cs c ls r then "FAIL loop-differs-from-model-under-observed-selection"
        else "ok"
      | _, _ => "FAIL unparsable-observation"
    | _ => "FAIL unparsable-observation"

example : holds ⟨1, 5, 30, 5⟩ ⟨3, 3, 4, 3, 63, [⟨[1, 2, 3], some (94, 3), [⟨1, 1, 99, 3⟩, ⟨2, 1, 89, 3⟩]⟩]⟩
    [⟨1, [1, 2, 3], 99⟩] (.ok 3 99 99 [1, 2, 3] []) = true := by decide
example : holds ⟨1, 5, 30, 5⟩ ⟨3, 3, 4, 3, 63, [⟨[1, 2, 3], some (94, 3), [⟨1, 1, 99, 3⟩, ⟨2, 1, 89, 3⟩]⟩]⟩
    [⟨1, [1, 2, 3], 99⟩] (.ok 3 99 99 [1, 2, 3] [4]) = false := by decide

end KeepVerif.C35Loop
