import KeepVerif.Gen.C29
/-!
# C29 model: Bitcoin wire codecs used by `pkg/bitcoin`

`transaction.go` (Serialize / Deserialize / SerializeVersion / SerializeInputs / SerializeOutputs /
SerializeLocktime, through btcd `wire.MsgTx` v0.22.3), `bitcoin.go` (compact size), `script.go`
(`NewScriptFromVarLenData` / `ToVarLenData`), `hash.go` (`NewHash`, `NewHashFromString`, `Hex`),
`block.go` (`BlockHeader.Serialize` / `Deserialize`).

Bytes are `Nat`s (< 256 for everything that comes from the wire; encoders only emit such).
Decoders are parsers `Bytes → Except Err (α × rest)`, exactly like btcd reading from an `io.Reader`
(trailing bytes are left unread, as `Transaction.Deserialize` does).
-/
namespace KeepVerif.C29

abbrev Bytes := List Nat

inductive Err where
  | eof        -- io.EOF / io.ErrUnexpectedEOF
  | noncanon   -- ReadVarInt: non-canonical varint
  | toomany    -- too many inputs / outputs / witness items
  | toobig     -- readScript: larger than the max allowed size
  | flag       -- witness tx but flag byte is not 0x01
  | size       -- wrong hash (string) size
  | hex        -- cannot decode hash string
  | malformed  -- malformed var len data
deriving Repr, DecidableEq

abbrev Dec (α : Type) := Bytes → Except Err (α × Bytes)

/-! ## integers -/

/-- `k` bytes little endian (`binary.LittleEndian.PutUintN`) -/
def le : Nat → Nat → Bytes
  | 0, _ => []
  | k + 1, n => n % 256 :: le k (n / 256)

def unle : Bytes → Nat
  | [] => 0
  | b :: bs => b + 256 * unle bs

/-- `io.ReadFull` of `k` bytes -/
def takeN : Nat → Dec Bytes
  | 0, bs => .ok ([], bs)
  | _ + 1, [] => .error .eof
  | k + 1, b :: bs =>
    match takeN k bs with
    | .ok (x, r) => .ok (b :: x, r)
    | .error e => .error e

def readLE (k : Nat) : Dec Nat := fun bs =>
  match takeN k bs with
  | .ok (x, r) => .ok (unle x, r)
  | .error e => .error e

/-! ## compact size (`wire.WriteVarInt` / `wire.ReadVarInt` / `VarIntSerializeSize`) -/

def csEnc (n : Nat) : Bytes :=
  if n < 0xfd then [n]
  else if n ≤ 0xffff then 0xfd :: le 2 n
  else if n ≤ 0xffffffff then 0xfe :: le 4 n
  else 0xff :: le 8 n

def csSize (n : Nat) : Nat :=
  if n < 0xfd then 1 else if n ≤ 0xffff then 3 else if n ≤ 0xffffffff then 5 else 9

def csDec : Dec Nat := fun bs =>
  match bs with
  | [] => .error .eof
  | d :: r =>
    if d = 0xff then
      match readLE 8 r with
      | .ok (v, r') => if v < 0x100000000 then .error .noncanon else .ok (v, r')
      | .error e => .error e
    else if d = 0xfe then
      match readLE 4 r with
      | .ok (v, r') => if v < 0x10000 then .error .noncanon else .ok (v, r')
      | .error e => .error e
    else if d = 0xfd then
      match readLE 2 r with
      | .ok (v, r') => if v < 0xfd then .error .noncanon else .ok (v, r')
      | .error e => .error e
    else .ok (d, r)

/-- `readCompactSizeUint`: value and byte length of the prefix -/
def readCompactSizeUint (bs : Bytes) : Except Err (Nat × Nat) :=
  match csDec bs with
  | .ok (v, _) => .ok (v, csSize v)
  | .error e => .error e

/-! ## var-len scripts (`script.go`) -/

/-- `Script.ToVarLenData` -/
def toVarLenData (s : Bytes) : Bytes := csEnc s.length ++ s

/-- `NewScriptFromVarLenData` (the sum is a `uint64` sum) -/
def newScriptFromVarLenData (d : Bytes) : Except Err Bytes :=
  match readCompactSizeUint d with
  | .error e => .error e
  | .ok (n, c) =>
    if (n + c) % 18446744073709551616 ≠ d.length then .error .malformed else .ok (d.drop c)

/-! ## hashes (`hash.go`) -/

def hexNib (n : Nat) : Char :=
  if n < 10 then Char.ofNat (n + 48) else Char.ofNat (n + 87)

def hexVal (c : Char) : Option Nat :=
  let n := c.toNat
  if 48 ≤ n ∧ n ≤ 57 then some (n - 48)
  else if 97 ≤ n ∧ n ≤ 102 then some (n - 87)
  else if 65 ≤ n ∧ n ≤ 70 then some (n - 55)
  else none

/-- `hex.EncodeToString` -/
def hexEnc : Bytes → List Char
  | [] => []
  | b :: bs => hexNib (b / 16) :: hexNib (b % 16) :: hexEnc bs

/-- `hex.DecodeString` -/
def hexDec : List Char → Option Bytes
  | [] => some []
  | [_] => none
  | a :: b :: rest =>
    match hexVal a, hexVal b, hexDec rest with
    | some x, some y, some r => some ((x * 16 + y) :: r)
    | _, _, _ => none

/-- `NewHash` (`reversed` = `ReversedByteOrder`) -/
def newHash (bs : Bytes) (reversed : Bool) : Except Err Bytes :=
  if bs.length ≠ 32 then .error .size else .ok (if reversed then bs.reverse else bs)

/-- `NewHashFromString` -/
def newHashFromString (s : List Char) (reversed : Bool) : Except Err Bytes :=
  if s.length ≠ 64 then .error .size else
  match hexDec s with
  | none => .error .hex
  | some bs => newHash bs reversed

/-- `Hash.Hex` -/
def hashHex (h : Bytes) (reversed : Bool) : List Char :=
  hexEnc (if reversed then h.reverse else h)

/-! ## block header (`block.go`) -/

structure Header where
  version : Nat
  prev : Bytes
  merkle : Bytes
  time : Nat
  bits : Nat
  nonce : Nat
deriving Repr, DecidableEq

def serializeHeader (h : Header) : Bytes :=
  le 4 h.version ++ h.prev ++ h.merkle ++ le 4 h.time ++ le 4 h.bits ++ le 4 h.nonce

/-- `BlockHeader.Deserialize` of an 80-byte array -/
def deserializeHeader (b : Bytes) : Header :=
  { version := unle (b.take 4)
    prev := (b.drop 4).take 32
    merkle := (b.drop 36).take 32
    time := unle ((b.drop 68).take 4)
    bits := unle ((b.drop 72).take 4)
    nonce := unle ((b.drop 76).take 4) }

/-! ## transactions -/

structure TxIn where
  hash : Bytes
  index : Nat
  script : Bytes
  witness : List Bytes
  sequence : Nat
deriving Repr, DecidableEq

structure TxOut where
  value : Nat
  script : Bytes
deriving Repr, DecidableEq

structure Tx where
  version : Nat
  ins : List TxIn
  outs : List TxOut
  locktime : Nat
deriving Repr, DecidableEq

/- btcd decode limits: measured on the real decoder by `harness/c29 -facts` (Gen/C29.lean) -/
abbrev maxPayload : Nat := Gen.C29.maxScriptSize      -- MaxMessagePayload
abbrev maxTxIn : Nat := Gen.C29.maxTxIn               -- MaxMessagePayload / 41 + 1
abbrev maxTxOut : Nat := Gen.C29.maxTxOut             -- MaxMessagePayload / 9 + 1
abbrev maxWitnessItems : Nat := Gen.C29.maxWitnessItems
abbrev maxWitnessItemSize : Nat := Gen.C29.maxWitnessItemSize

/-- `wire.WriteVarBytes` -/
def varBytesEnc (s : Bytes) : Bytes := csEnc s.length ++ s

/-- `wire.readScript` -/
def readScript (maxAllowed : Nat) : Dec Bytes := fun bs =>
  match csDec bs with
  | .error e => .error e
  | .ok (n, r) => if n > maxAllowed then .error .toobig else takeN n r

def decMany {α : Type} (dec : Dec α) : Nat → Dec (List α)
  | 0, bs => .ok ([], bs)
  | n + 1, bs =>
    match dec bs with
    | .error e => .error e
    | .ok (x, r) =>
      match decMany dec n r with
      | .error e => .error e
      | .ok (xs, r') => .ok (x :: xs, r')

def encTxIn (i : TxIn) : Bytes := i.hash ++ le 4 i.index ++ varBytesEnc i.script ++ le 4 i.sequence

def decTxIn : Dec TxIn := fun bs =>
  match takeN 32 bs with
  | .error e => .error e
  | .ok (h, r) =>
    match readLE 4 r with
    | .error e => .error e
    | .ok (idx, r) =>
      match readScript maxPayload r with
      | .error e => .error e
      | .ok (s, r) =>
        match readLE 4 r with
        | .error e => .error e
        | .ok (sq, r) => .ok ({ hash := h, index := idx, script := s, witness := [], sequence := sq }, r)

def encTxOut (o : TxOut) : Bytes := le 8 o.value ++ varBytesEnc o.script

def decTxOut : Dec TxOut := fun bs =>
  match readLE 8 bs with
  | .error e => .error e
  | .ok (v, r) =>
    match readScript maxPayload r with
    | .error e => .error e
    | .ok (s, r) => .ok ({ value := v, script := s }, r)

/-- `writeTxWitness` -/
def encWitness (w : List Bytes) : Bytes := csEnc w.length ++ w.flatMap varBytesEnc

def decWitness : Dec (List Bytes) := fun bs =>
  match csDec bs with
  | .error e => .error e
  | .ok (n, r) =>
    if n > maxWitnessItems then .error .toomany else decMany (readScript maxWitnessItemSize) n r

/-- `MsgTx.HasWitness` -/
def hasWitness (tx : Tx) : Bool := tx.ins.any (fun i => !i.witness.isEmpty)

/-- `Transaction.Serialize(format)`; `wfmt = true` is the `Witness` format. -/
def serialize (wfmt : Bool) (tx : Tx) : Bytes :=
  let w := wfmt && hasWitness tx
  le 4 tx.version ++ (if w then [0, 1] else []) ++
  csEnc tx.ins.length ++ tx.ins.flatMap encTxIn ++
  csEnc tx.outs.length ++ tx.outs.flatMap encTxOut ++
  (if w then tx.ins.flatMap (fun i => encWitness i.witness) else []) ++
  le 4 tx.locktime

def setWitnesses : List TxIn → List (List Bytes) → List TxIn
  | i :: is, w :: ws => { i with witness := w } :: setWitnesses is ws
  | is, _ => is

/-- marker / flag handling at the start of `BtcDecode`: `(flagged, input count, rest)` -/
def decCount (r : Bytes) : Except Err (Bool × Nat × Bytes) :=
  match csDec r with
  | .error e => .error e
  | .ok (count, r) =>
    if count = 0 then
      match r with
      | [] => .error .eof
      | f :: r' =>
        if f ≠ 1 then .error .flag else
        match csDec r' with
        | .error e => .error e
        | .ok (c, r'') => .ok (true, c, r'')
    else .ok (false, count, r)

def decWitnesses (flagged : Bool) (ins : List TxIn) : Dec (List TxIn) := fun r =>
  if flagged then
    match decMany decWitness ins.length r with
    | .error e => .error e
    | .ok (ws, r') => .ok (setWitnesses ins ws, r')
  else .ok (ins, r)

/-- `Transaction.Deserialize` = `MsgTx.BtcDecode(…, WitnessEncoding)` -/
def deserialize : Dec Tx := fun bs =>
  match readLE 4 bs with
  | .error e => .error e
  | .ok (version, r) =>
    match decCount r with
    | .error e => .error e
    | .ok (flagged, count, r) =>
      if count > maxTxIn then .error .toomany else
      match decMany decTxIn count r with
      | .error e => .error e
      | .ok (ins, r) =>
        match csDec r with
        | .error e => .error e
        | .ok (ocount, r) =>
          if ocount > maxTxOut then .error .toomany else
          match decMany decTxOut ocount r with
          | .error e => .error e
          | .ok (outs, r) =>
            match decWitnesses flagged ins r with
            | .error e => .error e
            | .ok (ins, r) =>
              match readLE 4 r with
              | .error e => .error e
              | .ok (lock, r) => .ok ({ version := version, ins := ins, outs := outs, locktime := lock }, r)

def stripWitness (tx : Tx) : Tx := { tx with ins := tx.ins.map (fun i => { i with witness := [] }) }

/-- `wire.TxIn.SerializeSize` -/
def txInSize (i : TxIn) : Nat := 40 + csSize i.script.length + i.script.length
/-- `wire.TxOut.SerializeSize` -/
def txOutSize (o : TxOut) : Nat := 8 + csSize o.script.length + o.script.length

def sumSizes {α : Type} (f : α → Nat) : List α → Nat
  | [] => 0
  | x :: xs => f x + sumSizes f xs

def serializeVersion (tx : Tx) : Bytes := le 4 tx.version
def serializeLocktime (tx : Tx) : Bytes := le 4 tx.locktime

/-- `SerializeInputs`: `t.Serialize(Standard)[4 : 4+inputsByteSize]` -/
def serializeInputs (tx : Tx) : Bytes :=
  let size := csSize tx.ins.length + sumSizes txInSize tx.ins
  ((serialize false tx).drop 4).take size

/-- `SerializeOutputs`: `s[len(s)-4-outputsByteSize : len(s)-4]` -/
def serializeOutputs (tx : Tx) : Bytes :=
  let size := csSize tx.outs.length + sumSizes txOutSize tx.outs
  let s := serialize false tx
  let stop := s.length - 4
  (s.take stop).drop (stop - size)

/-! ## well-formedness = what the Go types guarantee -/

def wfIn (i : TxIn) : Bool :=
  decide (i.hash.length = 32) && decide (i.index < 4294967296) && decide (i.sequence < 4294967296)

def wfOut (o : TxOut) : Bool := decide (o.value < 18446744073709551616)

def wfTx (tx : Tx) : Bool :=
  decide (tx.version < 4294967296) && decide (tx.locktime < 4294967296) &&
  tx.ins.all wfIn && tx.outs.all wfOut

/-- btcd's decode limits (a transaction beyond them serializes but is refused on decode) -/
def inLimits (tx : Tx) : Bool :=
  decide (tx.ins.length ≤ maxTxIn) && decide (tx.outs.length ≤ maxTxOut) &&
  tx.ins.all (fun i => decide (i.script.length ≤ maxPayload) &&
    decide (i.witness.length ≤ maxWitnessItems) &&
    i.witness.all (fun w => decide (w.length ≤ maxWitnessItemSize))) &&
  tx.outs.all (fun o => decide (o.script.length ≤ maxPayload))

/-! ## observation of one transaction case and the monitor -/

structure TxObs where
  std : Bytes
  wit : Bytes
  dstd : Except Err Tx
  dwit : Except Err Tx
  v : Bytes
  i : Bytes
  o : Bytes
  l : Bytes
  hashEq : Bool

def fstOf {α : Type} (r : Except Err (α × Bytes)) : Except Err α :=
  match r with
  | .ok (x, _) => .ok x
  | .error e => .error e

/-- what the harness does with one transaction -/
def txObs (tx : Tx) : TxObs :=
  { std := serialize false tx
    wit := serialize true tx
    dstd := fstOf (deserialize (serialize false tx))
    dwit := fstOf (deserialize (serialize true tx))
    v := serializeVersion tx
    i := serializeInputs tx
    o := serializeOutputs tx
    l := serializeLocktime tx
    -- Hash() = H(Serialize(Standard)); compared with the hash of the witness-stripped tx
    hashEq := decide (serialize false tx = serialize false (stripWitness tx)) }

def exceptEq (a : Except Err Tx) (b : Tx) : Bool :=
  match a with
  | .ok x => decide (x = b)
  | .error _ => false

/-- C29 on one transaction as a decidable predicate over what the implementation returned. -/
def holdsTx (tx : Tx) (o : TxObs) : Bool :=
  if !(wfTx tx && inLimits tx && !tx.ins.isEmpty) then true else
  exceptEq o.dwit tx && exceptEq o.dstd (stripWitness tx) && o.hashEq &&
  decide (o.v ++ o.i ++ o.o ++ o.l = o.std)

end KeepVerif.C29
