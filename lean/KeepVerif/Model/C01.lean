import KeepVerif.Gen.C01
/-!
# C01/C02 model: GJKR distributed key generation (pkg/beacon/gjkr)

A symbolic, executable model of the twelve phases as implemented in `protocol.go`,
`states.go`, `message_filter.go` and `pkg/protocol/group`.

* Field elements (shares, polynomial coefficients) are naturals modulo a modulus parameter `q`
  (the driver uses the real bn256 group order, `Gen.C01.order`).
* A G2 element is represented by its exponent, a G1 Pedersen commitment `a·G + b·H` by the
  exponent pair `(a, b)` (assumption A-dlog: nobody knows `log_G H`).
* An ephemeral ECDH key pair is a key id; `IsKeyMatching pub priv` is equality of ids, the ECDH
  symmetric key of two pairs is the unordered pair of ids; a ciphertext is `enc key s t` or
  `garbage`, decryption succeeds exactly with the same key (assumption A-aead).
* Go maps are association lists; the order in which the code ranges over them does not change
  any observed *set* (the observations are sorted).

The model follows the code **as it is after the fixes** and keeps the behaviour of the unchanged
tree under flags: `fixed = false` (finding F1: in phase 8 points that a member finds invalid for
itself were dropped, and a member convicted in phase 9 stayed in the valid-points map),
`fix11 = false` (phase 11 validated reveal messages and recovered shares against a group state that
changed while the messages were processed: delivery-order dependent), `fixKey = false` (a revealed
key of a member that is not in QUAL, or whose valid points are held, polluted the group key),
`fixDedup11 = false` (phase 11 recovered shares from every message, not only the first per sender),
`fixAbort = false` (an accusation/reveal whose sender published no public key for the named member
— e.g. naming itself — aborted the protocol of every member that accepted the message),
`fix4 = false` (phase 4 checked the completeness of a shares message against a group state that
changed while the messages were processed), `fixOrder = false` (phases 5/9 marked inactive members
before resolving the accusations: a convicted member that was also silent ended IA for the judges
but DQ for its accuser), `fixAccept = false` (a member ignored the accusations published by a member
it had just disqualified on its own in the same phase, while the others resolved them).
-/
namespace KeepVerif.C01

/-! ## association lists -/

def lookup {α} (k : Nat) : List (Nat × α) → Option α
  | [] => none
  | (k', v) :: rest => if k' = k then some v else lookup k rest

def hasKey {α} (k : Nat) (l : List (Nat × α)) : Bool := (lookup k l).isSome

def erase {α} (k : Nat) (l : List (Nat × α)) : List (Nat × α) := l.filter (fun p => p.1 ≠ k)

/-- Go `m[k] = v` -/
def put {α} (k : Nat) (v : α) : List (Nat × α) → List (Nat × α)
  | [] => [(k, v)]
  | (k', v') :: rest => if k' = k then (k, v) :: rest else (k', v') :: put k v rest

/-- `messageStorage.putMessage`: the first message per sender stays. -/
def putNew {α} (k : Nat) (v : α) (l : List (Nat × α)) : List (Nat × α) :=
  if hasKey k l then l else l ++ [(k, v)]

/-! ## field arithmetic modulo `q` -/

/-- Horner evaluation of `Σ c_k x^k mod q` (`evaluateMemberShare`, `publicKeyShare`). -/
def evalPoly (q : Nat) (cs : List Nat) (x : Nat) : Nat :=
  cs.foldr (fun c acc => (acc * x + c) % q) 0

def powModAux : Nat → Nat → Nat → Nat → Nat → Nat
  | 0, _, _, _, acc => acc
  | fuel + 1, b, e, m, acc =>
    if e = 0 then acc
    else powModAux fuel (b * b % m) (e / 2) m (if e % 2 = 1 then acc * b % m else acc)

/-- `b^e mod m` by square and multiply (fuel = number of bits is enough for 512-bit exponents). -/
def powMod (b e m : Nat) : Nat := powModAux 512 (b % m) e m (1 % m)

/-- `ModInverse` for a prime modulus. -/
def inv (q x : Nat) : Nat := powMod x (q - 2) q

/-- `(a - b) mod q` -/
def subMod (q a b : Nat) : Nat := (a % q + (q - b % q)) % q

/-- `calculateLagrangeCoefficient`: `Π_{l ∈ ids, l ≠ k} l / (l − k)`. -/
def lagrange (q : Nat) (k : Nat) (ids : List Nat) : Nat :=
  ids.foldl (fun acc l => if l = k then acc else acc * ((l % q) * inv q (subMod q l k) % q) % q) (1 % q)

/-- `reconstructIndividualPrivateKeys` for one member: `Σ s_k · λ_k`. -/
def interpolate0 (q : Nat) (pts : List (Nat × Nat)) : Nat :=
  let ids := pts.map (·.1)
  pts.foldl (fun acc p => (acc + p.2 * lagrange q p.1 ids) % q) 0

/-! ## messages -/

inductive Cipher where
  | enc (k1 k2 s t : Nat)
  | garbage
  deriving DecidableEq, Repr

structure Hdr where
  sender : Nat      -- senderID field of the payload
  author : Nat      -- member whose operator key authenticated the network message
  sessOk : Bool     -- payload session id equals the member's
  deriving DecidableEq, Repr

inductive Msg where
  | eph (h : Hdr) (keys : List (Nat × Nat))            -- receiver ↦ public key id
  | shares (h : Hdr) (sh : List (Nat × Cipher))        -- receiver ↦ encrypted (s, t)
  | comms (h : Hdr) (cs : List (Nat × Nat))            -- Pedersen commitments as exponent pairs
  | acc4 (h : Hdr) (ks : List (Nat × Nat))             -- accused ↦ revealed private key id
  | points (h : Hdr) (ps : List Nat)                   -- public key share points as exponents
  | acc8 (h : Hdr) (ks : List (Nat × Nat))
  | reveal (h : Hdr) (ks : List (Nat × Nat))
  deriving Repr

def Msg.hdr : Msg → Hdr
  | .eph h _ | .shares h _ | .comms h _ | .acc4 h _ | .points h _ | .acc8 h _ | .reveal h _ => h

def Msg.setHdr (h : Hdr) : Msg → Msg
  | .eph _ x => .eph h x | .shares _ x => .shares h x | .comms _ x => .comms h x
  | .acc4 _ x => .acc4 h x | .points _ x => .points h x | .acc8 _ x => .acc8 h x
  | .reveal _ x => .reveal h x

/-- `deduplicateBySender`: the first item of every sender, in arrival order. -/
def dedupAux {α} (f : α → Nat) : List Nat → List α → List α
  | _, [] => []
  | seen, m :: rest =>
    if seen.contains (f m) then dedupAux f seen rest else m :: dedupAux f (f m :: seen) rest

def dedup {α} (f : α → Nat) (l : List α) : List α := dedupAux f [] l

/-! ## key ids -/

def ownKey (i j : Nat) : Nat := 1000 * i + j
def freshKey (i j : Nat) : Nat := 100000 + 10000 * i + j
def symKey (a b : Nat) : Nat × Nat := (min a b, max a b)

def decrypt (c : Option Cipher) (k : Nat × Nat) : Option (Nat × Nat) :=
  match c with
  | some (.enc k1 k2 s t) => if (k1, k2) = k then some (s, t) else none
  | _ => none

/-! ## member state -/

inductive Status where
  | ok | errNoPubKey | errNoSymKey | panic
  deriving DecidableEq, Repr

structure St where
  id : Nat
  n : Nat
  t : Nat
  q : Nat
  fixed : Bool
  fix11 : Bool := true     -- phase 11 validates/recover against one snapshot of the group state
  fixKey : Bool := true    -- only QUAL members are reconstructed; no individual key is added twice
  fixDedup11 : Bool := true -- phase 11 recovers shares from the first message of every sender only
  fixAbort : Bool := true  -- a missing public key of the accuser/revealer disqualifies it instead of aborting
  fix4 : Bool := true      -- phase 4 validates shares messages against the members operating at its beginning
  fixOrder : Bool := true  -- phases 5 and 9 resolve the accusations before marking inactive members
  fixAccept : Bool := true -- accusations are accepted from every member operating before the own verification
  accusers : List Nat := []  -- snapshot taken in phases 4 and 8 between inactivity marking and verification
  status : Status := .ok
  ia : List Nat := []
  dq : List Nat := []
  evEph : List (Nat × List (Nat × Nat)) := []
  evShares : List (Nat × List (Nat × Cipher)) := []
  sym : List (Nat × (Nat × Nat)) := []
  coefA : List Nat := []
  coefB : List Nat := []
  selfS : Nat := 0
  recvS : List (Nat × Nat) := []
  recvC : List (Nat × List (Nat × Nat)) := []
  share : Nat := 0
  pts : List Nat := []
  validPts : List (Nat × List Nat) := []
  rejPts : List (Nat × List Nat) := []
  expected : List Nat := []
  revealed : List (Nat × List (Nat × Nat)) := []
  reconPriv : List (Nat × Nat) := []
  gk : Option Nat := none
  inbox : List Msg := []
  prev : List Msg := []

/-- `group.IsOperating` -/
def isOperating (st : St) (j : Nat) : Bool :=
  decide (1 ≤ j) && decide (j ≤ st.n) && !st.ia.contains j && !st.dq.contains j

/-- `group.MarkMemberAsDisqualified` -/
def markDQ (st : St) (j : Nat) : St := if isOperating st j then { st with dq := st.dq ++ [j] } else st

/-- `group.MarkMemberAsInactive` -/
def markIA (st : St) (j : Nat) : St := if isOperating st j then { st with ia := st.ia ++ [j] } else st

def members (n : Nat) : List Nat := (List.range n).map (· + 1)

/-- `shouldAcceptMessage` + the session check of every `Receive`. -/
def accept (st : St) (m : Msg) : Bool :=
  let h := m.hdr
  decide (h.sender ≠ st.id) && decide (h.author = h.sender) && isOperating st h.sender && h.sessOk

/-- `shouldAcceptAccusationMessage`: in the accusation phases 4 and 8 the sender must have been
    operating before the member's own verification (`accusers` snapshot). -/
def acceptAccusation (st : St) (m : Msg) : Bool :=
  let h := m.hdr
  decide (h.sender ≠ st.id) && decide (h.author = h.sender) && st.accusers.contains h.sender && h.sessOk

/-- admission rule of the state of phase `ph` -/
def admits (ph : Nat) (st : St) (m : Msg) : Bool :=
  if st.fixAccept && (ph = 4 || ph = 8) then acceptAccusation st m else accept st m

/-- `Receive` of the active state. -/
def receive (ph : Nat) (st : St) (m : Msg) : St :=
  if admits ph st m then { st with inbox := st.inbox ++ [m] } else st

/-- `InactiveMemberFilter.FlushInactiveMembers` with the given active senders. -/
def markInactive (st : St) (active : List Nat) : St :=
  (members st.n).foldl (fun s j => if j = s.id || active.contains j then s else markIA s j) st

/-! ## validity checks -/

/-- `areSharesValidAgainstCommitments` (Pedersen, component-wise under A-dlog). -/
def validComms (q s t : Nat) (cs : List (Nat × Nat)) (i : Nat) : Bool :=
  !cs.isEmpty && decide (s % q = evalPoly q (cs.map (·.1)) i) && decide (t % q = evalPoly q (cs.map (·.2)) i)

/-- `isShareValidAgainstPublicKeySharePoints` -/
def validPoints (q i s : Nat) (ps : List Nat) : Bool :=
  !ps.isEmpty && decide (s % q = evalPoly q ps i)

def pubKeyOf (ev : List (Nat × List (Nat × Nat))) (sender receiver : Nat) : Option Nat :=
  match lookup sender ev with
  | some keys => lookup receiver keys
  | none => none

/-! ## phase 2: symmetric keys -/

def isValidEph (st : St) (sender : Nat) (keys : List (Nat × Nat)) : Bool :=
  (members st.n).all (fun j => j = sender || hasKey j keys)

/-- the phase 1 messages of a member's inbox as (sender, keys) -/
def ephMsgs (st : St) : List (Nat × List (Nat × Nat)) :=
  st.prev.filterMap (fun m => match m with | .eph h k => some (h.sender, k) | _ => none)

/-- `GenerateSymmetricKeys`, one (deduplicated) message -/
def phase2Step (s : St) (p : Nat × List (Nat × Nat)) : St :=
  if !isValidEph s p.1 p.2 then markDQ s p.1 else
  let s := { s with evEph := putNew p.1 p.2 s.evEph }
  match lookup s.id p.2 with
  | some pk => { s with sym := put p.1 (symKey (ownKey s.id p.1) pk) s.sym }
  | none => s

def phase2 (st : St) : St :=
  let msgs := ephMsgs st
  let st := markInactive st (msgs.map (·.1))
  (dedup (·.1) msgs).foldl phase2Step st

/-! ## phase 3: shares and commitments -/

def phase3 (st : St) : St × List Msg :=
  let h : Hdr := ⟨st.id, st.id, true⟩
  let sh := (members st.n).filterMap (fun j =>
    if j = st.id then none else
    match lookup j st.sym with
    | some k => some (j, Cipher.enc k.1 k.2 (evalPoly st.q st.coefA j) (evalPoly st.q st.coefB j))
    | none => none)
  ({ st with selfS := evalPoly st.q st.coefA st.id },
   [.shares h sh, .comms h (st.coefA.zip st.coefB)])

/-! ## phase 4: verification of shares and commitments -/

def isValidShares (st : St) (sender : Nat) (sh : List (Nat × Cipher)) : Bool :=
  (members st.n).all (fun j => !isOperating st j || j = sender || hasKey j sh)

def phase4 (st : St) : St × List Msg :=
  let shs := st.prev.filterMap (fun m => match m with | .shares h x => some (h.sender, x) | _ => none)
  let cms := st.prev.filterMap (fun m => match m with | .comms h x => some (h.sender, x) | _ => none)
  let st := markInactive st ((shs.map (·.1)).filter (fun s => (cms.map (·.1)).contains s))
  let st := { st with accusers := (members st.n).filter (isOperating st) }
  let dsh := dedup (·.1) shs
  let st := dsh.foldl (fun s (sender, x) => { s with evShares := putNew sender x s.evShares }) st
  let snap := st
  let (st, acc) := (dedup (·.1) cms).foldl (fun (sa : St × List (Nat × Nat)) (sender, cs) =>
    let (s, acc) := sa
    if s.status ≠ .ok then sa else
    if cs.length ≠ s.t + 1 then (markDQ s sender, acc) else
    let s := { s with recvC := put sender cs s.recvC }
    match lookup sender dsh with
    | none => (s, acc)
    | some sh =>
      if !isValidShares (if s.fix4 then snap else s) sender sh then (markDQ s sender, acc) else
      match lookup sender s.sym with
      | none => ({ s with status := .errNoSymKey }, acc)
      | some k =>
        match decrypt (lookup s.id sh) k with
        | none => (markDQ s sender, put sender (ownKey s.id sender) acc)
        | some (sv, tv) =>
          if !validComms s.q sv tv cs s.id then (markDQ s sender, put sender (ownKey s.id sender) acc)
          else ({ s with recvS := put sender sv s.recvS }, acc)) (st, [])
  (st, [.acc4 ⟨st.id, st.id, true⟩ acc])

/-! ## phases 5 and 9: accusation resolution -/

/-- Public data an accusation is judged on. -/
structure Evidence where
  evEph : List (Nat × List (Nat × Nat))
  evShares : List (Nat × List (Nat × Cipher))

/-- Verdict of one accusation. -/
inductive Verdict where
  | fatal                 -- `could not find public key` (protocol aborts for this member)
  | accuser               -- disqualify the accuser
  | accused               -- disqualify the accused
  | both                  -- phase 9: undecryptable shares
  deriving DecidableEq, Repr

/-- Common part of both resolutions up to the decrypted share: `Sum.inl verdict` or the share. -/
def openAccusation (ev : Evidence) (self n accuser accused key : Nat) : Sum Verdict (Option (Nat × Nat)) :=
  if self = accused || !(decide (0 < accused) && decide (accused ≤ n)) then .inl .accuser else
  match pubKeyOf ev.evEph accuser accused with
  | none => .inl .fatal
  | some apk =>
    if apk ≠ key then .inl .accuser else
    match pubKeyOf ev.evEph accused accuser with
    | none => .inl .accuser
    | some dpk =>
      match lookup accused ev.evShares with
      | none => .inl .accuser
      | some sh => .inr (decrypt (lookup accuser sh) (symKey key dpk))

/-- `ResolveSecretSharesAccusationsMessages`, one accusation. -/
def verdict5 (ev : Evidence) (q self n : Nat) (comms : List (Nat × Nat)) (accuser accused key : Nat) : Verdict :=
  match openAccusation ev self n accuser accused key with
  | .inl v => v
  | .inr none => .accused
  | .inr (some (s, t)) => if validComms q s t comms accuser then .accuser else .accused

/-- `ResolvePublicKeySharePointsAccusationsMessages`, one accusation. -/
def verdict9 (ev : Evidence) (q self n : Nat) (points : List Nat) (accuser accused key : Nat) : Verdict :=
  match openAccusation ev self n accuser accused key with
  | .inl v => v
  | .inr none => .both
  | .inr (some (s, _)) => if validPoints q accuser s points then .accuser else .accused

def discardShares (st : St) (j : Nat) : St := { st with recvS := erase j st.recvS }

def evidence (st : St) : Evidence := ⟨st.evEph, st.evShares⟩

def accusations (msgs : List (Nat × List (Nat × Nat))) : List (Nat × Nat × Nat) :=
  (dedup (·.1) msgs).flatMap (fun (accuser, ks) => ks.map (fun (accused, key) => (accuser, accused, key)))

/-- the phase 4 accusation messages of a member's inbox as (sender, accused ↦ key) -/
def acc4Msgs (st : St) : List (Nat × List (Nat × Nat)) :=
  st.prev.filterMap (fun m => match m with | .acc4 h x => some (h.sender, x) | _ => none)

/-- `ResolveSecretSharesAccusationsMessages`, one accusation -/
def resolve5Step (s : St) (a : Nat × Nat × Nat) : St :=
  if s.status ≠ .ok then s else
  match verdict5 (evidence s) s.q s.id s.n ((lookup a.2.1 s.recvC).getD []) a.1 a.2.1 a.2.2 with
  | .fatal => if s.fixAbort then discardShares (markDQ s a.1) a.1 else { s with status := .errNoPubKey }
  | .accuser => discardShares (markDQ s a.1) a.1
  | _ => discardShares (markDQ s a.2.1) a.2.1

def phase5 (st : St) : St :=
  let msgs := acc4Msgs st
  let st := if st.fixOrder then st else markInactive st (msgs.map (·.1))
  let st := (accusations msgs).foldl resolve5Step st
  if st.fixOrder && st.status = .ok then markInactive st (msgs.map (·.1)) else st

/-- points of the accused a phase-9 accusation is judged against -/
def pointsOf (st : St) (j : Nat) : List Nat :=
  match lookup j st.validPts with
  | some ps => ps
  | none => if st.fixed then (lookup j st.rejPts).getD [] else []

/-- `discardReceivedPublicKeySharePoints` (only in the fixed code) -/
def discardPoints (st : St) (j : Nat) : St :=
  if !st.fixed then st else
  match lookup j st.validPts with
  | some ps => { st with rejPts := put j ps st.rejPts, validPts := erase j st.validPts }
  | none => st

/-- the phase 8 accusation messages of a member's inbox -/
def acc8Msgs (st : St) : List (Nat × List (Nat × Nat)) :=
  st.prev.filterMap (fun m => match m with | .acc8 h x => some (h.sender, x) | _ => none)

/-- `ResolvePublicKeySharePointsAccusationsMessages`, one accusation -/
def resolve9Step (s : St) (a : Nat × Nat × Nat) : St :=
  if s.status ≠ .ok then s else
  match verdict9 (evidence s) s.q s.id s.n (pointsOf s a.2.1) a.1 a.2.1 a.2.2 with
  | .fatal => if s.fixAbort then markDQ s a.1 else { s with status := .errNoPubKey }
  | .accuser => markDQ s a.1
  | .accused => discardPoints (markDQ s a.2.1) a.2.1
  | .both => discardPoints (markDQ (markDQ s a.1) a.2.1) a.2.1

def phase9 (st : St) : St :=
  let msgs := acc8Msgs st
  let st := if st.fixOrder then st else markInactive st (msgs.map (·.1))
  let st := (accusations msgs).foldl resolve9Step st
  if st.fixOrder && st.status = .ok then markInactive st (msgs.map (·.1)) else st

/-! ## phases 6–8 -/

def phase6 (st : St) : St :=
  { st with share := st.recvS.foldl (fun acc p => (acc + p.2) % st.q) st.selfS }

def phase7 (st : St) : St × List Msg :=
  ({ st with pts := st.coefA }, [.points ⟨st.id, st.id, true⟩ st.coefA])

def phase8 (st : St) : St × List Msg :=
  let msgs := st.prev.filterMap (fun m => match m with | .points h x => some (h.sender, x) | _ => none)
  let st := markInactive st (msgs.map (·.1))
  let st := { st with accusers := (members st.n).filter (isOperating st) }
  let (st, acc) := (dedup (·.1) msgs).foldl (fun (sa : St × List (Nat × Nat)) (sender, ps) =>
    let (s, acc) := sa
    if s.status ≠ .ok then sa else
    if ps.length ≠ s.t + 1 then (markDQ s sender, acc) else
    match lookup sender s.recvS with
    | none => ({ s with status := .panic }, acc)
    | some sv =>
      if !validPoints s.q s.id sv ps then
        let s := markDQ s sender
        ((if s.fixed then { s with rejPts := put sender ps s.rejPts } else s), put sender (ownKey s.id sender) acc)
      else ({ s with validPts := put sender ps s.validPts }, acc)) (st, [])
  (st, [.acc8 ⟨st.id, st.id, true⟩ acc])

/-! ## phases 10–12 -/

def needsReconstruction (st : St) (m : Nat) : Bool := hasKey m st.recvS && !hasKey m st.validPts

def phase10 (st : St) : St × List Msg :=
  let exp := st.dq.filter (needsReconstruction st) ++ st.ia.filter (needsReconstruction st)
  ({ st with expected := exp }, [.reveal ⟨st.id, st.id, true⟩ (exp.map (fun m => (m, ownKey st.id m)))])

def isValidReveal (st : St) (ks : List (Nat × Nat)) : Bool :=
  st.expected.all (fun e => hasKey e ks) && ks.all (fun p => !isOperating st p.1)

def addShare (rev : List (Nat × List (Nat × Nat))) (mis revealer s : Nat) : List (Nat × List (Nat × Nat)) :=
  match lookup mis rev with
  | some sh => put mis (put revealer s sh) rev
  | none => rev ++ [(mis, [(revealer, s)])]

/-- the phase 10 reveal messages of a member's inbox -/
def revealMsgs (st : St) : List (Nat × List (Nat × Nat)) :=
  st.prev.filterMap (fun m => match m with | .reveal h x => some (h.sender, x) | _ => none)

abbrev Revealed := List (Nat × List (Nat × Nat))

/-- what `recoverMisbehavedShares` reads of the member state -/
structure Pub11 where
  fix11 : Bool
  fixKey : Bool
  fixAbort : Bool
  snapOp : Nat → Bool     -- operating at the start of the recovery (snapshot)
  curOp : Nat → Bool      -- operating now (used by the unchanged code only)
  qual : Nat → Bool       -- a share of that member is held (QUAL)
  evEph : List (Nat × List (Nat × Nat))
  evShares : List (Nat × List (Nat × Cipher))
  recvC : List (Nat × List (Nat × Nat))
  q : Nat

def pub11 (snap s : St) : Pub11 :=
  ⟨s.fix11, s.fixKey, s.fixAbort, isOperating snap, isOperating s, fun m => hasKey m s.recvS,
   s.evEph, s.evShares, s.recvC, s.q⟩

inductive Rec where
  | skip | dq | add (sv : Nat) | fatal

/-- decision of `recoverMisbehavedShares` for one revealed key `e = (revealer, misbehaved, key)` -/
def recoverDecision (P : Pub11) (self : Nat) (e : Nat × Nat × Nat) : Rec :=
  if self = e.2.1 then .dq else
  if (if P.fix11 then P.snapOp e.2.1 else P.curOp e.2.1) then .skip else
  if P.fixKey && !P.qual e.2.1 then .dq else
  match pubKeyOf P.evEph e.1 e.2.1 with
  | none => if P.fixAbort then .dq else .fatal
  | some rpk =>
    if rpk ≠ e.2.2 then .dq else
    match pubKeyOf P.evEph e.2.1 e.1 with
    | none => .dq
    | some mpk =>
      match lookup e.2.1 P.evShares with
      | none => .dq
      | some sh =>
        match decrypt (lookup e.1 sh) (symKey e.2.2 mpk) with
        | none => .dq
        | some (sv, tv) =>
          if validComms P.q sv tv ((lookup e.2.1 P.recvC).getD []) e.1 then .add sv else .dq

/-- `recoverMisbehavedShares`, one revealed key (`snap` = group state at the start of the recovery) -/
def recover11Step (snap : St) (sr : St × Revealed) (e : Nat × Nat × Nat) : St × Revealed :=
  if sr.1.status ≠ .ok then sr else
  match recoverDecision (pub11 snap sr.1) sr.1.id e with
  | .skip => sr
  | .dq => (markDQ sr.1 e.1, sr.2)
  | .add sv => (sr.1, addShare sr.2 e.2.1 e.1 sv)
  | .fatal => ({ sr.1 with status := .errNoPubKey }, sr.2)

/-- validation of the (deduplicated) reveal messages -/
def validate11 (st : St) (msgs : List (Nat × List (Nat × Nat))) : St :=
  if st.fix11 then
    -- all messages are validated against the state before any disqualification of this phase
    (((dedup (·.1) msgs).filter (fun p => !isValidReveal st p.2)).map (·.1)).foldl markDQ st
  else
    (dedup (·.1) msgs).foldl (fun s (sender, ks) =>
      if !isValidReveal s ks then markDQ s sender else s) st

def revealEntries (msgs : List (Nat × List (Nat × Nat))) : List (Nat × Nat × Nat) :=
  msgs.flatMap (fun (revealer, ks) => ks.map (fun (mis, key) => (revealer, mis, key)))

/-- phase 11, step 1: inactivity marking -/
def p11a (st : St) : St := markInactive st ((revealMsgs st).map (·.1))

/-- the reveal messages phase 11 works on (in the unchanged tree `recoverMisbehavedShares` ranged
    over ALL messages, not the deduplicated ones) -/
def p11msgs (st : St) : List (Nat × List (Nat × Nat)) :=
  if (p11a st).fixDedup11 then dedup (·.1) (revealMsgs st) else revealMsgs st

/-- phase 11, step 2: validation of the messages -/
def p11b (st : St) : St := validate11 (p11a st) (p11msgs st)

/-- phase 11, step 3: recovery of the revealed shares -/
def p11c (st : St) : St × Revealed :=
  (revealEntries (p11msgs st)).foldl (recover11Step (p11b st)) (p11b st, [])

def phase11 (st : St) : St :=
  let r := p11c st
  if r.1.status ≠ .ok then r.1 else
  let rev := r.1.expected.foldl (fun rv e =>
    match lookup e rv, lookup e r.1.recvS with
    | some sh, some own => put e (put r.1.id own sh) rv
    | _, _ => rv) r.2
  { r.1 with revealed := rev, reconPriv := rev.map (fun (m, sh) => (m, interpolate0 r.1.q sh)) }

def phase12 (st : St) : St :=
  let k := st.validPts.foldl (fun acc p => (acc + p.2.headD 0) % st.q) (st.pts.headD 0 % st.q)
  let k := (st.reconPriv.filter (fun p => !(st.fixKey && hasKey p.1 st.validPts))).foldl
    (fun acc p => (acc + p.2) % st.q) k
  { st with gk := some k }

/-- `ComputeGroupPublicKeyShares` (exponents), for every other operating member. -/
def publicKeyShares (st : St) : List (Nat × Nat) :=
  ((members st.n).filter (fun j => isOperating st j && j ≠ st.id)).map (fun j =>
    (j, st.recvS.foldl (fun acc (qm, _) =>
      match lookup qm st.validPts with
      | some ps => (acc + evalPoly st.q ps j) % st.q
      | none =>
        match lookup qm st.revealed with
        | some sh => (acc + (lookup j sh).getD 0) % st.q
        | none => acc) (evalPoly st.q st.pts j)))

/-! ## adversary: behaviour script -/

structure Mod where
  name : String
  args : List Nat
  deriving Repr

inductive Variant where
  | silent
  | mods (ms : List Mod)
  deriving Repr

structure Cfg where
  n : Nat
  t : Nat
  seed : Nat
  ord : Nat
  q : Nat
  fixed : Bool
  adv : List (Nat × Nat × List Variant)     -- (member, phase, variants)
  fix11 : Bool := true
  fixKey : Bool := true
  fixDedup11 : Bool := true
  fixAbort : Bool := true
  fix4 : Bool := true
  fixOrder : Bool := true
  fixAccept : Bool := true

/-- coefficient injected by the harness for member `i`, slot `j` (see `gjk.Coef`) -/
def coef (q seed i j : Nat) : Nat :=
  (((seed + 1) * 1000003 + i * 7919 + j * 104729 + 12345) ^ 7) % (q - 1) + 1

def ownKeyOrFresh (st : St) (j : Nat) : Nat :=
  if decide (1 ≤ j) && decide (j ≤ st.n) && decide (j ≠ st.id) then ownKey st.id j else freshKey st.id j

def keyMods (st : St) (ms : List Mod) (ks : List (Nat × Nat)) : List (Nat × Nat) :=
  ms.foldl (fun ks m =>
    let j := m.args.headD 0
    if j > 255 then ks else
    if m.name = "acc" || m.name = "rev" then put j (ownKeyOrFresh st j) ks
    else if m.name = "accw" || m.name = "revw" then put j (freshKey st.id (1000 + j)) ks
    else if m.name = "drop" then erase j ks
    else ks) ks

def hdrMods (ms : List Mod) (h : Hdr) : Hdr :=
  ms.foldl (fun h m =>
    if m.name = "as" then (if m.args.headD 0 ≤ 255 then { h with sender := m.args.headD 0 } else h)
    else if m.name = "sess" then { h with sessOk := false }
    else h) h

/-- `p(x)·(x − s)` -/
def polyMulLinear (q : Nat) (p : List Nat) (s : Nat) : List Nat :=
  let shifted := 0 :: p
  let scaled := p.map (fun c => c * s % q) ++ [0]
  (shifted.zip scaled).map (fun (a, b) => subMod q a b)

def hasMod (ms : List Mod) (nm : String) : Bool := ms.any (·.name = nm)

def applyMods (cfg : Cfg) (st : St) (ms : List Mod) (m : Msg) : Option Msg :=
  let h := hdrMods ms m.hdr
  match m with
  | .eph _ keys =>
    some (.eph h (ms.foldl (fun ks md =>
      if md.name = "rm" && md.args.headD 0 ≤ 255 then erase (md.args.headD 0) ks else ks) keys))
  | .shares _ sh =>
    if hasMod ms "noS" then none else
    some (.shares h (ms.foldl (fun sh md =>
      let j := md.args.headD 0
      if j > 255 then sh else
      if md.name = "rs" then erase j sh
      else if md.name = "garb" then put j Cipher.garbage sh
      else if md.name = "bad" then
        match lookup j st.sym with
        | some k => put j (Cipher.enc k.1 k.2 ((evalPoly st.q st.coefA j + 1) % st.q) (evalPoly st.q st.coefB j)) sh
        | none => sh
      else sh) sh))
  | .comms _ cs =>
    if hasMod ms "noC" then none else
    some (.comms h (ms.foldl (fun cs md =>
      if md.name = "cm" then cs.dropLast
      else if md.name = "cp" then cs ++ [(5, 0)]
      else cs) cs))
  -- `ox`: a raw wire map key above 255 makes the real Unmarshal reject the whole message
  | .acc4 _ ks => if hasMod ms "ox" then none else some (.acc4 h (keyMods st ms ks))
  | .acc8 _ ks => if hasMod ms "ox" then none else some (.acc8 h (keyMods st ms ks))
  | .reveal _ ks => if hasMod ms "ox" then none else some (.reveal h (keyMods st ms ks))
  | .points _ ps =>
    some (.points h (ms.foldl (fun ps md =>
      if md.name = "pm" then ps.dropLast
      else if md.name = "pp" then ps ++ [5]
      else if md.name = "px" then
        let delta := md.args.foldl (polyMulLinear st.q) [coef st.q cfg.seed st.id 50]
        (List.range (max (cfg.t + 1) delta.length)).map (fun k =>
          ((if k ≤ cfg.t then coef st.q cfg.seed st.id k else 0) + delta.getD k 0) % st.q)
      else if md.name = "pt" then
        let delta := (md.args.take cfg.t).foldl (polyMulLinear st.q) [coef st.q cfg.seed st.id 50]
        (List.range (cfg.t + 1)).map (fun k => (coef st.q cfg.seed st.id k + delta.getD k 0) % st.q)
      else ps) ps))

def applyScript (cfg : Cfg) (st : St) (ph : Nat) (out : List Msg) : List Msg :=
  match cfg.adv.find? (fun d => d.1 = st.id && d.2.1 = ph) with
  | none => out
  | some (_, _, vs) =>
    vs.flatMap (fun v =>
      match v with
      | .silent => []
      | .mods ms => out.filterMap (applyMods cfg st ms))

/-! ## the run -/

def initSt (cfg : Cfg) (i : Nat) : St :=
  { id := i, n := cfg.n, t := cfg.t, q := cfg.q, fixed := cfg.fixed, fix11 := cfg.fix11, fixKey := cfg.fixKey,
    fixDedup11 := cfg.fixDedup11, fixAbort := cfg.fixAbort, fix4 := cfg.fix4, fixOrder := cfg.fixOrder, fixAccept := cfg.fixAccept,
    coefA := (List.range (cfg.t + 1)).map (fun k => coef cfg.q cfg.seed i k),
    coefB := (List.range (cfg.t + 1)).map (fun k => coef cfg.q cfg.seed i (cfg.t + 1 + k)) }

/-- `Initiate` of the state of phase `ph`: new member state and the messages it broadcasts. -/
def initiate (ph : Nat) (st : St) : St × List Msg :=
  match ph with
  | 1 => (st, [.eph ⟨st.id, st.id, true⟩ (((members st.n).filter (· ≠ st.id)).map (fun j => (j, ownKey st.id j)))])
  | 2 => (phase2 st, [])
  | 3 => phase3 st
  | 4 => phase4 st
  | 5 => (phase5 st, [])
  | 6 => (phase6 st, [])
  | 7 => phase7 st
  | 8 => phase8 st
  | 9 => (phase9 st, [])
  | 10 => phase10 st
  | 11 => (phase11 st, [])
  | 12 => (phase12 st, [])
  | _ => (st, [])

def sendingPhase (ph : Nat) : Bool := ph = 1 || ph = 3 || ph = 4 || ph = 7 || ph = 8 || ph = 10

/-- position key of author `a` in the delivery order of receiver `rcv` in phase `ph`:
    `ord < 1000` = rotation of the authors, otherwise a pseudo-random permutation per (receiver, phase) -/
def authorKey (cfg : Cfg) (rcv ph a : Nat) : Nat :=
  if cfg.ord < 1000 then (a + (cfg.ord + 3 * rcv + 5 * ph) % cfg.n) % cfg.n
  else ((cfg.ord + 1) * (a + 7 * rcv + 13 * ph + 1) * 2654435761) % 1000003

def insertByKey (x : Nat × Nat) : List (Nat × Nat) → List (Nat × Nat)
  | [] => [x]
  | y :: ys => if x.1 < y.1 || (x.1 = y.1 && x.2 < y.2) then x :: y :: ys else y :: insertByKey x ys

/-- delivery order of receiver `rcv` in phase `ph`: the authors permuted, every author's own
    order kept (consistent broadcast) -/
def deliveryOrder (cfg : Cfg) (rcv ph : Nat) (wires : List Msg) : List Msg :=
  let authors := ((members cfg.n).map (fun a => (authorKey cfg rcv ph a, a))).foldr insertByKey []
  authors.flatMap (fun p => wires.filter (fun m => m.hdr.author = p.2))

def alive (st : St) : Bool := st.status = .ok

def runPhase (cfg : Cfg) (sts : List St) (ph : Nat) : List St :=
  let res := sts.map (fun st => if alive st then initiate ph st else (st, []))
  let sts := res.map (·.1)
  if !sendingPhase ph then sts else
  let wires := res.flatMap (fun (st, out) => if alive st then applyScript cfg st ph out else [])
  sts.map (fun st =>
    if !alive st then st else
    let st := (deliveryOrder cfg st.id ph wires).foldl (receive ph) { st with inbox := [] }
    { st with prev := st.inbox, inbox := [] })

def run (cfg : Cfg) : List St :=
  (List.range 12).foldl (fun sts k => runPhase cfg sts (k + 1)) ((members cfg.n).map (initSt cfg))

def corrupt (cfg : Cfg) : List Nat := cfg.adv.map (·.1)

def honestStates (cfg : Cfg) : List St := (run cfg).filter (fun st => !(corrupt cfg).contains st.id)

/-! ## observation and monitor -/

/-- what one honest member ended with -/
structure Out where
  id : Nat
  ok : Bool
  ia : List Nat
  dq : List Nat
  key : Option Nat       -- key class / exponent
  deriving DecidableEq, Repr

/-- C01 as a decidable predicate on the outputs of the honest members: the members that finished
    have equal IA sets, equal DQ sets, equal keys, and marked no honest member. -/
def holds (honest : List Nat) (outs : List Out) : Bool :=
  let fin := outs.filter (·.ok)
  fin.all (fun a => fin.all (fun b =>
    a.ia.all b.ia.contains && a.dq.all b.dq.contains && decide (a.key = b.key)))
  && fin.all (fun a => honest.all (fun h => !a.ia.contains h && !a.dq.contains h))

/-- key class: index of the key's first appearance among the finished honest members -/
def outsOf (sts : List St) : List Out :=
  sts.map (fun st => ⟨st.id, st.status = .ok, st.ia, st.dq, if st.status = .ok then st.gk else none⟩)

def honestOf (cfg : Cfg) : List Nat := (members cfg.n).filter (fun i => !(corrupt cfg).contains i)

/-- the model's verdict on its own run -/
def modelHolds (cfg : Cfg) : Bool := holds (honestOf cfg) (outsOf (honestStates cfg))

end KeepVerif.C01
