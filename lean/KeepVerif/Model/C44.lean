import KeepVerif.Gen.C44
/-!
# C44 model: `config.ReadConfig` default resolution (`config/config.go`, `peers.go`,
`electrum.go`, `contracts.go`, `config/network/network.go`, flags of `cmd/flags.go`)

Network selection from the three boolean flags (`resolveNetworks`: testnet first, then developer,
else mainnet; cobra rejects more than one flag), the `Type.Ethereum()/Bitcoin()` tables (generated
from the code), and per value class `resolve explicit default`.  viper/mapstructure decoding is
not modelled: a value is "explicit" when it is in the config file or given by a flag (the flag
wins).  Which embedded defaults exist is generated from the code.
-/
namespace KeepVerif.C44
open KeepVerif.Gen.C44

/-- where a value was configured. -/
inductive Src | unset | file | flag | both | emptyFile | invalid
  deriving DecidableEq, Repr

/-- a resolved value. -/
inductive Val | none | file | flag | invalid | dflt (net : Nat)
  deriving DecidableEq, Repr

/-- network flags; `nilFlags` = `ReadConfig` called without a flag set. -/
structure Flags where
  nilFlags : Bool
  mainnet : Bool
  testnet : Bool
  developer : Bool
  deriving DecidableEq, Repr

/-- cobra `MarkFlagsMutuallyExclusive(mainnet, testnet, developer)`. -/
def Flags.accepted (f : Flags) : Bool :=
  f.nilFlags || decide ((f.mainnet.toNat + f.testnet.toNat + f.developer.toNat) ≤ 1)

/-- client network (`network.Type` value): `resolveNetworks`; without flags the default is
`network.Mainnet`. -/
def clientNetwork (f : Flags) : Nat :=
  if f.nilFlags then 1 else if f.testnet then 2 else if f.developer then 3 else 1

/-- the network whose `Ethereum()`/`Bitcoin()` are stored in the config: without a flag set
`resolveNetworks` does not run and both stay `Unknown` (0). -/
def chainNetwork (f : Flags) : Nat := if f.nilFlags then 0 else clientNetwork f

def ethOf (n : Nat) : Nat := ethereumOf.getD n 0
def btcOf (n : Nat) : Nat := bitcoinOf.getD n 0

/-- explicitly configured value, if any (a flag overrides the file). -/
def explicit : Src → Option Val
  | .unset | .emptyFile => none
  | .file => some .file
  | .flag | .both => some .flag
  | .invalid => some .invalid

/-- the generic rule of `resolvePeers` / `resolveElectrum` / `resolveContractAddress`. -/
def resolve (e : Option Val) (d : Val) : Val :=
  match e with
  | some v => v
  | none => d

def peersDefault (client : Nat) : Val :=
  if peersDefaultPresent.getD client 0 = 1 ∧ client ≠ 3 ∧ client ≠ 0 then .dflt client else .none

/-- `resolveElectrum` looks at the configured *Bitcoin* network. -/
def electrumDefault (btc : Nat) : Val :=
  if electrumDefaultPresent.getD btc 0 = 1 ∧ btc ≠ 3 ∧ btc ≠ 0 then .dflt btc else .none

def contractDefault (i : Nat) : Val :=
  if contractDefaultPresent.getD i 0 = 1 then .dflt i else .none

/-- `resolveContractsAddresses` over the contract list (index = position in the code's order). -/
def resolveAll : List Src → Nat → List Val
  | [], _ => []
  | s :: ss, i => resolve (explicit s) (contractDefault i) :: resolveAll ss (i + 1)

/-- value of one of the other `bitcoin.electrum.*` settings (timeouts, keep-alive). -/
inductive TVal | file | flag | flagDefault | zero
  deriving DecidableEq, Repr

/-- the other Electrum settings are never touched by default resolution: an explicit value is
kept; an unset one is the flag's default, or the zero value when there is no flag set. -/
def resolveTimeout (nilFlags : Bool) : Src → TVal
  | .file => .file
  | .flag | .both => .flag
  | _ => if nilFlags then .zero else .flagDefault

inductive Rc | ok | validation | flags
  deriving DecidableEq, Repr

structure Out where
  rc : Rc
  eth : Nat
  btc : Nat
  peers : Val
  electrum : Val
  contracts : List Val
  timeouts : List TVal
  deriving DecidableEq, Repr

def readConfig (f : Flags) (peers electrum : Src) (cs ts : List Src) : Out :=
  if !f.accepted then ⟨.flags, 0, 0, .none, .none, [], []⟩ else
  let cn := chainNetwork f
  let e := resolve (explicit electrum) (electrumDefault (btcOf cn))
  { rc := if e = .none then .validation else .ok
    eth := ethOf cn, btc := btcOf cn
    peers := resolve (explicit peers) (peersDefault (clientNetwork f))
    electrum := e
    contracts := resolveAll cs 0
    timeouts := ts.map (resolveTimeout f.nilFlags) }

/-! ## Monitor -/

/-- one resolved value against how it was configured: explicit values are kept; a default is
taken only when nothing was configured, and only the default `d` of the selected network. -/
def holdsVal (s : Src) (d : Val) (v : Val) : Bool :=
  match explicit s with
  | some e => decide (v = e)
  | none => decide (v = d) || decide (v = .none)

def holdsVals : List Src → List Val → Nat → Bool
  | [], [], _ => true
  | s :: ss, v :: vs, i => holdsVal s (contractDefault i) v && holdsVals ss vs (i + 1)
  | _, _, _ => false

/-- an explicitly configured Electrum setting must be kept whatever happens to the URL. -/
def holdsTimeout (s : Src) (v : TVal) : Bool :=
  match s with
  | .file => decide (v = .file)
  | .flag | .both => decide (v = .flag)
  | _ => decide (v = .flagDefault) || decide (v = .zero)

def holdsTimeouts : List Src → List TVal → Bool
  | [], [] => true
  | s :: ss, v :: vs => holdsTimeout s v && holdsTimeouts ss vs
  | _, _ => false

def holds (f : Flags) (peers electrum : Src) (cs ts : List Src) (o : Out) : Bool :=
  if o.rc = .flags then !f.accepted else
  f.accepted &&
  -- both chains belong to one network, the selected one
  decide (o.eth = ethOf (chainNetwork f)) && decide (o.btc = btcOf (chainNetwork f)) &&
  holdsVal peers (peersDefault (clientNetwork f)) o.peers &&
  holdsVal electrum (electrumDefault o.btc) o.electrum &&
  holdsVals cs o.contracts 0 &&
  holdsTimeouts ts o.timeouts

end KeepVerif.C44
