import KeepVerif.Gen.C32
/-!
# C32 model: `getProofInfo` (pkg/maintainer/spv/spv.go)

The function is pure arithmetic over five chain answers.  The model follows the Go code
statement by statement, *including* the `uint`/`uint64` wrap-around of the subtractions
(`latest - confirmations + 1`, `start + factor - 1`, `currentEpoch - 1`) and the division
panic for a zero current difficulty; `big.Int` values are `Nat`.
-/
namespace KeepVerif.C32

abbrev epochLen : Nat := Gen.C32.difficultyEpochLength

/-- 2^64: `uint` and `uint64` arithmetic wraps modulo this. -/
abbrev W : Nat := 18446744073709551616

/-- The answers of the three chains, and which call fails
    (`0` none, `1` GetLatestBlockHeight, `2` GetTransactionConfirmations,
     `3` TxProofDifficultyFactor, `4` CurrentEpoch, `5` GetCurrentAndPrevEpochDifficulty). -/
structure Input where
  latest : Nat
  conf : Nat
  f : Nat
  cur : Nat
  dCur : Nat
  dPrev : Nat
  fail : Nat
deriving Repr, DecidableEq

inductive Out where
  | err (which : Nat)
  | panicDivZero
  | info (within : Bool) (acc req : Nat)
deriving Repr, DecidableEq

/-- `uint64(latestBlockHeight - accumulatedConfirmations + 1)` -/
def startBlock (i : Input) : Nat := ((i.latest % W + W - i.conf % W) % W + 1) % W

/-- `proofStartBlock + txProofDifficultyFactor.Uint64() - 1` -/
def endBlock (i : Input) : Nat := ((startBlock i + i.f % W) % W + W - 1) % W

/-- `currentEpoch - 1` -/
def prevEpoch (i : Input) : Nat := (i.cur % W + W - 1) % W

/-- The four outcomes of the three `if`s. -/
inductive Range where
  | curCur | prevPrev | prevCur | unsupported
deriving Repr, DecidableEq

def classify (i : Input) : Range :=
  let se := startBlock i / epochLen
  let ee := endBlock i / epochLen
  if se = i.cur % W ∧ ee = i.cur % W then .curCur
  else if se = prevEpoch i ∧ ee = prevEpoch i then .prevPrev
  else if se = prevEpoch i ∧ ee = i.cur % W then .prevCur
  else .unsupported

/-- `numberOfBlocksPreviousEpoch` -/
def nPrev (i : Input) : Nat := epochLen - startBlock i % epochLen

/-- `numberOfBlocksCurrentEpoch`: DivMod and the `+1` on a positive remainder. -/
def nCur (i : Input) : Nat :=
  let total := i.dPrev * i.f
  let fromPrev := nPrev i * i.dPrev
  let need := total - fromPrev   -- never truncates, see `Props.crossing_nPrev_lt_f`
  let q := need / i.dCur
  if need % i.dCur > 0 then q + 1 else q

def crossingRequired (i : Input) : Nat := (nPrev i + nCur i % W) % W

def proofInfo (i : Input) : Out :=
  if i.fail = 1 then .err 1
  else if i.fail = 2 then .err 2
  else if i.fail = 3 then .err 3
  else if i.fail = 4 then .err 4
  else match classify i with
    | .curCur => .info true (i.conf % W) (i.f % W)
    | .prevPrev => .info true (i.conf % W) (i.f % W)
    | .prevCur =>
      if i.fail = 5 then .err 5
      else if i.dCur = 0 then .panicDivZero
      else .info true (i.conf % W) (crossingRequired i)
    | .unsupported => .info false 0 0

/-! ## Specification vocabulary (used by the theorems and by the monitor) -/

/-- Difficulty of block `b` as the relay sees it: previous epoch's before the current epoch
    starts, the current one from there on. -/
def diffOf (cur dPrev dCur b : Nat) : Nat := if b / epochLen < cur then dPrev else dCur

/-- Accumulated difficulty of the `m` headers starting at `start`. -/
def sumDiff (cur dPrev dCur start : Nat) : Nat → Nat
  | 0 => 0
  | m + 1 => sumDiff cur dPrev dCur start m + diffOf cur dPrev dCur (start + m)

/-- Inputs on which no unsigned arithmetic wraps and difficulties are positive:
    the situation the property talks about. -/
def pre (i : Input) : Bool :=
  decide (i.fail = 0) && decide (i.conf ≤ i.latest + 1) && decide (1 ≤ i.f) &&
  decide (i.latest + 1 - i.conf + i.f < W) && decide (i.latest + 1 < W) && decide (i.cur < W) &&
  decide (0 < i.dCur) && decide (0 < i.dPrev) &&
  -- the required count fits a machine word (difficulty ratio below ~2^64 / factor)
  decide (i.f * i.dPrev / i.dCur + epochLen + 1 < W)

/-- closed form of `sumDiff` for a range that starts in the previous epoch with `np` blocks
    left in it (used by the monitor so that it stays cheap on big factors). -/
def accCrossing (np dPrev dCur m : Nat) : Nat :=
  if m ≤ np then m * dPrev else np * dPrev + (m - np) * dCur

/-- The property as a predicate on an observed result.  Independent formulation:
    the range class is recomputed from true block numbers, the required count is
    checked to be sufficient and that one fewer is not. -/
def holds (i : Input) (o : Out) : Bool :=
  if !pre i then true else
  let start := i.latest + 1 - i.conf
  let stop := start + i.f - 1
  let se := start / epochLen
  let ee := stop / epochLen
  let inWin (e : Nat) : Bool := decide (e = i.cur) || decide (e + 1 = i.cur)
  match o with
  | .err _ => false
  | .panicDivZero => false
  | .info within acc req =>
    if inWin se && inWin ee then
      within && decide (acc = i.conf) &&
      (if se = ee then decide (req = i.f)
       else
        let np := epochLen - start % epochLen
        decide (accCrossing np i.dPrev i.dCur req ≥ i.f * i.dPrev) &&
        decide (0 < req) && decide (accCrossing np i.dPrev i.dCur (req - 1) < i.f * i.dPrev))
    else !within && decide (acc = 0) && decide (req = 0)

end KeepVerif.C32
