/-!
# Bitcoin Script model shared by C27 and C28

A model of btcd `txscript` v0.22.3 (`Engine` created by `NewEngine` with `StandardVerifyFlags`,
then `Execute`) for the opcode subset used by wallet inputs and the tBTC deposit script:

* parsing (`parseScript`): OP_0, direct pushes, OP_PUSHDATA1/2/4, OP_1NEGATE, OP_1..OP_16, OP_IF, OP_ELSE,
  OP_ENDIF, OP_VERIFY, OP_DROP, OP_DUP, OP_EQUAL, OP_EQUALVERIFY, OP_HASH160, OP_CHECKSIG,
  OP_CHECKLOCKTIMEVERIFY; every other opcode is `other` and makes the model decline (`unsupported`);
* execution (`executeOpcode` + the `opcode*` functions) with the standard-flag rules: minimal pushes,
  minimal script numbers, MINIMALIF (witness v0 only), strict signature / public-key encoding,
  NULLFAIL, CLTV, clean stack;
* the script sequencing of `Engine.Step` / `verifyWitnessProgram` / `CheckErrorCondition`:
  plain, P2SH (BIP16), native and P2SH-nested P2WPKH / P2WSH (BIP141/143).

External functions are *parameters* (`Ctx`): `hash160`, `sha256`, the signature-encoding check
(DER + low S), public key parsing, the signature hash as a function of exactly the arguments btcd
passes to `calcSignatureHash` / `calcWitnessSignatureHash` (script code, hash type, sig version,
amount) for the fixed transaction and input index, and ECDSA verification of a digest.

Not modelled (documented simplifications): the 201-operation and 1000-element stack limits,
`removeOpcodeByData` (FindAndDelete of the signature in the legacy script code — identity unless the
script contains its own signature), OP_CODESEPARATOR, `ParseDERSignature` failures beyond the strict
encoding check.
-/
namespace KeepVerif.Script

abbrev Bytes := List UInt8

/-- btcd `ErrorCode`s that can occur in the modelled subset (+ `unsupported`: model declines). -/
inductive Err
  | malformedPush | minimalData | elementTooBig | invalidStackOperation | equalVerify | verify
  | unbalancedConditional | evalFalse | cleanStack | emptyStack | nullFail | invalidSigHashType
  | sigDER | sigHighS | pubKeyType | witnessPubKeyType | negativeLockTime | unsatisfiedLockTime
  | numberTooBig | minimalIf | notPushOnly | witnessMalleated | witnessMalleatedP2SH
  | witnessUnexpected | witnessProgramMismatch | witnessProgramEmpty | witnessProgramWrongLength
  | discourageUpgradableWitnessProgram | scriptTooBig | unsupported
  deriving DecidableEq, Repr

def Err.name : Err → String
  | .malformedPush => "ErrMalformedPush" | .minimalData => "ErrMinimalData"
  | .elementTooBig => "ErrElementTooBig" | .invalidStackOperation => "ErrInvalidStackOperation"
  | .equalVerify => "ErrEqualVerify" | .verify => "ErrVerify"
  | .unbalancedConditional => "ErrUnbalancedConditional" | .evalFalse => "ErrEvalFalse"
  | .cleanStack => "ErrCleanStack" | .emptyStack => "ErrEmptyStack" | .nullFail => "ErrNullFail"
  | .invalidSigHashType => "ErrInvalidSigHashType" | .sigDER => "ErrSigDER"
  | .sigHighS => "ErrSigHighS" | .pubKeyType => "ErrPubKeyType"
  | .witnessPubKeyType => "ErrWitnessPubKeyType" | .negativeLockTime => "ErrNegativeLockTime"
  | .unsatisfiedLockTime => "ErrUnsatisfiedLockTime" | .numberTooBig => "ErrNumberTooBig"
  | .minimalIf => "ErrMinimalIf" | .notPushOnly => "ErrNotPushOnly"
  | .witnessMalleated => "ErrWitnessMalleated" | .witnessMalleatedP2SH => "ErrWitnessMalleatedP2SH"
  | .witnessUnexpected => "ErrWitnessUnexpected"
  | .witnessProgramMismatch => "ErrWitnessProgramMismatch"
  | .witnessProgramEmpty => "ErrWitnessProgramEmpty"
  | .witnessProgramWrongLength => "ErrWitnessProgramWrongLength"
  | .discourageUpgradableWitnessProgram => "ErrDiscourageUpgradableWitnessProgram"
  | .scriptTooBig => "ErrScriptTooBig" | .unsupported => "unsupported"

/-! ## Opcodes and parsing -/

/-- which opcode family carried a data push -/
inductive PushEnc | direct | pd1 | pd2 | pd4
  deriving DecidableEq, Repr

inductive Op
  | zero                                   -- OP_0 (pushes the empty array)
  | push (enc : PushEnc) (data : Bytes)    -- OP_DATA_1..75, OP_PUSHDATA1/2/4
  | neg1                                   -- OP_1NEGATE
  | small (n : Nat)                        -- OP_1..OP_16 (n = 1..16)
  | opIf | opElse | opEndIf | verify | drop | dup | equal | equalVerify | hash160
  | checkSig | cltv
  | other (b : UInt8)
  deriving DecidableEq, Repr

def decodeOp (b : UInt8) : Op :=
  if b = 0x4f then .neg1
  else if 0x51 ≤ b.toNat ∧ b.toNat ≤ 0x60 then .small (b.toNat - 0x50)
  else if b = 0x63 then .opIf
  else if b = 0x67 then .opElse
  else if b = 0x68 then .opEndIf
  else if b = 0x69 then .verify
  else if b = 0x75 then .drop
  else if b = 0x76 then .dup
  else if b = 0x87 then .equal
  else if b = 0x88 then .equalVerify
  else if b = 0xa9 then .hash160
  else if b = 0xac then .checkSig
  else if b = 0xb1 then .cltv
  else .other b

/-- parser state: between opcodes, reading a PUSHDATA length, or reading push data -/
inductive PState
  | idle
  | len (enc : PushEnc) (need mult acc : Nat)
  | data (enc : PushEnc) (need : Nat) (acc : Bytes)
  deriving DecidableEq, Repr

def startData (enc : PushEnc) (n : Nat) (out : List Op) : PState × List Op :=
  if n = 0 then (.idle, out ++ [.push enc []]) else (.data enc n [], out)

/-- consume one script byte -/
def stepByte (s : PState × List Op) (b : UInt8) : PState × List Op :=
  match s with
  | (.idle, out) =>
    if b.toNat = 0 then (.idle, out ++ [.zero])
    else if b.toNat ≤ 75 then (.data .direct b.toNat [], out)
    else if b.toNat = 76 then (.len .pd1 1 1 0, out)
    else if b.toNat = 77 then (.len .pd2 2 1 0, out)
    else if b.toNat = 78 then (.len .pd4 4 1 0, out)
    else (.idle, out ++ [decodeOp b])
  | (.len enc need mult acc, out) =>
    if need ≤ 1 then startData enc (acc + mult * b.toNat) out
    else (.len enc (need - 1) (mult * 256) (acc + mult * b.toNat), out)
  | (.data enc need acc, out) =>
    if need ≤ 1 then (.idle, out ++ [.push enc (acc ++ [b])])
    else (.data enc (need - 1) (acc ++ [b]), out)

def feed (s : PState × List Op) (bs : Bytes) : PState × List Op := bs.foldl stepByte s

/-- `parseScript`: `none` = ErrMalformedPush (a push runs past the end of the script). -/
def parse (bs : Bytes) : Option (List Op) :=
  match feed (.idle, []) bs with
  | (.idle, out) => some out
  | _ => none

/-! ## Script construction (`txscript.ScriptBuilder`) -/

def u8 (n : Nat) : UInt8 := UInt8.ofNat n

/-- `ScriptBuilder.AddData` (canonical push), for data up to 65535 bytes. -/
def pushData (d : Bytes) : Bytes :=
  match d with
  | [] => [0x00]
  | [b] =>
    if 1 ≤ b.toNat ∧ b.toNat ≤ 16 then [u8 (0x50 + b.toNat)]
    else if b = 0x81 then [0x4f]
    else [0x01, b]
  | _ =>
    if d.length ≤ 75 then u8 d.length :: d
    else if d.length ≤ 255 then 0x4c :: u8 d.length :: d
    else 0x4d :: u8 (d.length % 256) :: u8 (d.length / 256) :: d

def p2pkh (pkh : Bytes) : Bytes := [0x76, 0xa9, 0x14] ++ pkh ++ [0x88, 0xac]
def p2wpkh (pkh : Bytes) : Bytes := [0x00, 0x14] ++ pkh
def p2sh (h : Bytes) : Bytes := [0xa9, 0x14] ++ h ++ [0x87]
def p2wsh (h : Bytes) : Bytes := [0x00, 0x20] ++ h

/-! ## Script classes (`txscript.GetScriptClass` restricted to the four wallet classes) -/

inductive Class | pkh | wpkh | sh | wsh | other
  deriving DecidableEq, Repr

def isPubkeyHash : List Op → Bool
  | [.dup, .hash160, .push .direct d, .equalVerify, .checkSig] => d.length == 20
  | _ => false

def isScriptHash : List Op → Bool
  | [.hash160, .push .direct d, .equal] => d.length == 20
  | _ => false

def isWitnessPubKeyHash : List Op → Bool
  | [.zero, .push .direct d] => d.length == 20
  | _ => false

def isWitnessScriptHash : List Op → Bool
  | [.zero, .push .direct d] => d.length == 32
  | _ => false

def classifyOps (ops : List Op) : Class :=
  if isPubkeyHash ops then .pkh
  else if isWitnessPubKeyHash ops then .wpkh
  else if isScriptHash ops then .sh
  else if isWitnessScriptHash ops then .wsh
  else .other

def classify (script : Bytes) : Class :=
  match parse script with
  | some ops => classifyOps ops
  | none => .other

/-- `canonicalPush` -/
def canonicalPush : Op → Bool
  | .push .direct d => !(d.length == 1 && (d.headD 0).toNat ≤ 16)
  | .push .pd1 d => !(d.length < 76)
  | .push .pd2 d => !(d.length ≤ 0xff)
  | .push .pd4 d => !(d.length ≤ 0xffff)
  | _ => true

/-- `isWitnessProgram` on parsed opcodes: version and program. -/
def witnessProgram? : List Op → Option (Nat × Bytes)
  | [v, .push enc d] =>
    let ver : Option Nat := match v with
      | .zero => some 0
      | .small n => some n
      | _ => none
    match ver with
    | some n =>
      if canonicalPush (.push enc d) && decide (2 ≤ d.length) && decide (d.length ≤ 40) then some (n, d)
      else none
    | none => none
  | _ => none

/-- `IsWitnessProgram` on bytes -/
def isWitnessProgramBytes (script : Bytes) : Bool :=
  decide (4 ≤ script.length) && decide (script.length ≤ 42) &&
  match parse script with
  | some ops => (witnessProgram? ops).isSome
  | none => false

def isPushOp : Op → Bool
  | .zero | .push _ _ | .neg1 | .small _ => true
  | .other b => decide (b.toNat ≤ 0x60)
  | _ => false

def isPushOnly (ops : List Op) : Bool := ops.all isPushOp

/-! ## Stack values -/

/-- `asBool` -/
def asBool : Bytes → Bool
  | [] => false
  | [b] => !(b == 0 || b == 0x80)
  | b :: rest => b != 0 || asBool rest

def fromBool (v : Bool) : Bytes := if v then [1] else []

def leNat : Bytes → Nat
  | [] => 0
  | b :: r => b.toNat + 256 * leNat r

/-- `checkMinimalDataEncoding` for script numbers -/
def minimalNum (v : Bytes) : Bool :=
  match v.reverse with
  | [] => true
  | [m] => m.toNat % 128 != 0
  | m :: m2 :: _ => m.toNat % 128 != 0 || decide (128 ≤ m2.toNat)

/-- `makeScriptNum` value (little endian, sign bit in the last byte) -/
def scriptNum (v : Bytes) : Int :=
  match v.getLast? with
  | none => 0
  | some m =>
    if 128 ≤ m.toNat then -((leNat v : Int) - 128 * (256 : Int) ^ (v.length - 1))
    else (leNat v : Int)

def lockTimeThreshold : Nat := 500000000
def maxSequence : Nat := 0xffffffff

/-- `opcodeCheckLockTimeVerify` on the stack top `v` (standard flags): `none` = passes. -/
def cltvCheck (v : Bytes) (txLock seq : Nat) : Option Err :=
  if v.length > 5 then some .numberTooBig
  else if !minimalNum v then some .minimalData
  else
    let lt := scriptNum v
    if lt < 0 then some .negativeLockTime
    else if !((decide ((txLock : Int) < lockTimeThreshold) && decide (lt < lockTimeThreshold)) ||
              (decide ((txLock : Int) ≥ lockTimeThreshold) && decide (lt ≥ lockTimeThreshold))) then
      some .unsatisfiedLockTime
    else if lt > (txLock : Int) then some .unsatisfiedLockTime
    else if seq = maxSequence then some .unsatisfiedLockTime
    else none

/-- `checkMinimalDataPush` for a data push opcode -/
def minimalPush (enc : PushEnc) (d : Bytes) : Bool :=
  match d with
  | [] => false                                   -- must be OP_0
  | [b] =>
    if (1 ≤ b.toNat ∧ b.toNat ≤ 16) ∨ b = 0x81 then false else enc == .direct
  | _ =>
    if d.length ≤ 75 then enc == .direct
    else if d.length ≤ 255 then enc == .pd1
    else if d.length ≤ 65535 then enc == .pd2
    else true

def isCompressedPk (pk : Bytes) : Bool :=
  pk.length == 33 && (pk.headD 0 == 0x02 || pk.headD 0 == 0x03)

def isUncompressedPk (pk : Bytes) : Bool :=
  pk.length == 65 && pk.headD 0 == 0x04

/-! ## Execution context: the transaction being validated + external functions -/

structure Ctx (D : Type) where
  hash160 : Bytes → Bytes
  sha256 : Bytes → Bytes
  /-- `checkSignatureEncoding` (DER shape, low S) on the signature without hash type byte -/
  sigEnc : Bytes → Option Err
  /-- `btcec.ParsePubKey` succeeds -/
  parsePk : Bytes → Bool
  /-- digest for (script code, hash type, witness sigversion, amount) of this tx / input -/
  sighash : Bytes → UInt8 → Bool → Int → D
  /-- ECDSA verification: public key bytes, DER signature, digest -/
  verify : Bytes → Bytes → D → Bool
  locktime : Nat
  sequence : Nat
  amount : Int

/-- BIP-143 script code as `calcWitnessSignatureHash` serialises it: a P2WPKH script is
    replaced by the corresponding P2PKH script, anything else is taken as is. -/
def bip143Code (code : Bytes) : Bytes :=
  match parse code with
  | some [.zero, .push .direct d] => if d.length == 20 then p2pkh d else code
  | _ => code

/-- the digest CHECKSIG verifies against, for the running script `code` -/
def checkSigDigest {D} (cx : Ctx D) (wit : Bool) (code : Bytes) (ht : UInt8) : D :=
  if wit then cx.sighash (bip143Code code) ht true cx.amount
  else cx.sighash code ht false 0

inductive Cond | t | f | skip
  deriving DecidableEq, Repr

structure St where
  stack : List Bytes      -- head = top
  cond : List Cond        -- head = innermost
  deriving DecidableEq, Repr

def executing : List Cond → Bool
  | [] => true
  | .t :: _ => true
  | _ => false

def isConditional : Op → Bool
  | .opIf | .opElse | .opEndIf => true
  | _ => false

def pushTooBig : Op → Bool
  | .push _ d => decide (d.length > 520)
  | _ => false

/-- `opcodeCheckSig` under the standard flags -/
def opCheckSig {D} (cx : Ctx D) (wit : Bool) (code : Bytes) (stack : List Bytes) :
    Except Err (List Bytes) :=
  match stack with
  | pk :: fullSig :: rest =>
    match fullSig.getLast? with
    | none => .ok (fromBool false :: rest)
    | some ht =>
      let sig := fullSig.dropLast
      let base := ht.toNat % 128        -- hashType & ^SigHashAnyOneCanPay
      if base < 1 ∨ base > 3 then .error .invalidSigHashType
      else match cx.sigEnc sig with
      | some e => .error e
      | none =>
        if wit && !isCompressedPk pk then .error .witnessPubKeyType
        else if !(isCompressedPk pk || isUncompressedPk pk) then .error .pubKeyType
        else if !cx.parsePk pk then .ok (fromBool false :: rest)
        else
          let valid := cx.verify pk sig (checkSigDigest cx wit code ht)
          if !valid && !sig.isEmpty then .error .nullFail
          else .ok (fromBool valid :: rest)
  | _ => .error .invalidStackOperation

/-- `popIfBool` -/
def popIfBool (wit : Bool) (stack : List Bytes) : Except Err (Bool × List Bytes) :=
  match stack with
  | [] => .error .invalidStackOperation
  | so :: rest =>
    if wit then
      if so.length > 1 then .error .minimalIf
      else if so.length == 1 && so.headD 0 != 0x01 then .error .minimalIf
      else .ok (asBool so, rest)
    else .ok (asBool so, rest)

/-- `Engine.executeOpcode` for one opcode of the script `code` -/
def execOp {D} (cx : Ctx D) (wit : Bool) (code : Bytes) (op : Op) (st : St) : Except Err St :=
  match op with
  | .other _ => .error .unsupported
  | _ =>
  if pushTooBig op then .error .elementTooBig
  else if !executing st.cond && !isConditional op then .ok st
  else
  match op with
  | .zero => .ok { st with stack := [] :: st.stack }
  | .push enc d =>
    if minimalPush enc d then .ok { st with stack := d :: st.stack } else .error .minimalData
  | .neg1 => .ok { st with stack := [0x81] :: st.stack }
  | .small n => .ok { st with stack := [u8 n] :: st.stack }
  | .opIf =>
    if executing st.cond then
      match popIfBool wit st.stack with
      | .error e => .error e
      | .ok (b, rest) => .ok { stack := rest, cond := (if b then Cond.t else Cond.f) :: st.cond }
    else .ok { st with cond := Cond.skip :: st.cond }
  | .opElse =>
    match st.cond with
    | [] => .error .unbalancedConditional
    | .t :: cs => .ok { st with cond := Cond.f :: cs }
    | .f :: cs => .ok { st with cond := Cond.t :: cs }
    | .skip :: cs => .ok { st with cond := Cond.skip :: cs }
  | .opEndIf =>
    match st.cond with
    | [] => .error .unbalancedConditional
    | _ :: cs => .ok { st with cond := cs }
  | .verify =>
    match st.stack with
    | [] => .error .invalidStackOperation
    | x :: rest => if asBool x then .ok { st with stack := rest } else .error .verify
  | .drop =>
    match st.stack with
    | [] => .error .invalidStackOperation
    | _ :: rest => .ok { st with stack := rest }
  | .dup =>
    match st.stack with
    | [] => .error .invalidStackOperation
    | x :: rest => .ok { st with stack := x :: x :: rest }
  | .equal =>
    match st.stack with
    | a :: b :: rest => .ok { st with stack := fromBool (a == b) :: rest }
    | _ => .error .invalidStackOperation
  | .equalVerify =>
    match st.stack with
    | a :: b :: rest => if a == b then .ok { st with stack := rest } else .error .equalVerify
    | _ => .error .invalidStackOperation
  | .hash160 =>
    match st.stack with
    | [] => .error .invalidStackOperation
    | x :: rest => .ok { st with stack := cx.hash160 x :: rest }
  | .checkSig =>
    match opCheckSig cx wit code st.stack with
    | .error e => .error e
    | .ok s => .ok { st with stack := s }
  | .cltv =>
    match st.stack with
    | [] => .error .invalidStackOperation
    | v :: _ =>
      match cltvCheck v cx.locktime cx.sequence with
      | some e => .error e
      | none => .ok st
  | .other _ => .error .unsupported

/-- run all opcodes of one script; a conditional left open at the end is an error -/
def run {D} (cx : Ctx D) (wit : Bool) (code : Bytes) : List Op → St → Except Err St
  | [], st => if st.cond.isEmpty then .ok st else .error .unbalancedConditional
  | op :: rest, st =>
    match execOp cx wit code op st with
    | .error e => .error e
    | .ok st' => run cx wit code rest st'

/-- parse and run one script on a data stack, returning the final data stack -/
def runScript {D} (cx : Ctx D) (wit : Bool) (code : Bytes) (stack : List Bytes) :
    Except Err (List Bytes) :=
  match parse code with
  | none => .error .malformedPush
  | some ops =>
    match run cx wit code ops { stack := stack, cond := [] } with
    | .error e => .error e
    | .ok st => .ok st.stack

/-- `CheckErrorCondition(true)` -/
def checkFinal (witActive : Bool) (stack : List Bytes) : Except Err Unit :=
  match stack with
  | [x] => if asBool x then .ok () else .error .evalFalse
  | _ => if witActive then .error .evalFalse else .error .cleanStack

def tooBigElement (stack : List Bytes) : Bool := stack.any (fun e => decide (e.length > 520))

/-- `verifyWitnessProgram` (+ the execution of the script it selects and the final check):
    version-0 programs of 20 bytes (P2WPKH) and 32 bytes (P2WSH); other versions are
    discouraged by the standard flags. -/
def verifyWitness {D} (cx : Ctx D) (ver : Nat) (prog : Bytes) (witness : List Bytes) :
    Except Err Unit :=
  if ver ≠ 0 then .error .discourageUpgradableWitnessProgram
  else if prog.length == 20 then
    if witness.length ≠ 2 then .error .witnessProgramMismatch
    else if tooBigElement witness then .error .elementTooBig
    else match runScript cx true (p2pkh prog) witness.reverse with
      | .error e => .error e
      | .ok s3 => checkFinal true s3
  else if prog.length == 32 then
    match witness.getLast? with
    | none => .error .witnessProgramEmpty
    | some ws =>
      if ws.length > 10000 then .error .scriptTooBig
      else if cx.sha256 ws != prog then .error .witnessProgramMismatch
      else match parse ws with
      | none => .error .malformedPush
      | some _ =>
        if tooBigElement witness.dropLast then .error .elementTooBig
        else match runScript cx true ws witness.dropLast.reverse with
          | .error e => .error e
          | .ok s3 => checkFinal true s3
  else .error .witnessProgramWrongLength

/-- Validation of one transaction input: `NewEngine(pkScript, tx, idx, StandardVerifyFlags, nil,
    nil, amount)` followed by `Execute()`.  `witness[0]` is the bottom of the witness stack. -/
def verifyInput {D} (cx : Ctx D) (scriptSig : Bytes) (witness : List Bytes) (pkScript : Bytes) :
    Except Err Unit :=
  if scriptSig.isEmpty && pkScript.isEmpty then .error .evalFalse
  else if scriptSig.length > 10000 ∨ pkScript.length > 10000 then .error .scriptTooBig
  else
  match parse scriptSig, parse pkScript with
  | none, _ => .error .malformedPush
  | _, none => .error .malformedPush
  | some sigOps, some pkOps =>
    let bip16 := isScriptHash pkOps
    if bip16 && !isPushOnly sigOps then .error .notPushOnly
    else
    -- witness program detection
    let wpE : Except Err (Option (Nat × Bytes)) :=
      match witnessProgram? pkOps with
      | some vp => if !scriptSig.isEmpty then .error .witnessMalleated else .ok (some vp)
      | none =>
        if !witness.isEmpty && bip16 then
          match sigOps with
          | [.push enc d] =>
            if canonicalPush (.push enc d) && isWitnessProgramBytes d then
              match parse d with
              | some dOps => .ok (witnessProgram? dOps)
              | none => .error .witnessMalleatedP2SH
            else .error .witnessMalleatedP2SH
          | _ => .error .witnessMalleatedP2SH
        else if !witness.isEmpty then .error .witnessUnexpected
        else .ok none
    match wpE with
    | .error e => .error e
    | .ok wp =>
      let witActive := match wp with
        | some (0, _) => true
        | _ => false
      match run cx witActive scriptSig sigOps { stack := [], cond := [] } with
      | .error e => .error e
      | .ok s1 =>
      match run cx witActive pkScript pkOps { stack := s1.stack, cond := [] } with
      | .error e => .error e
      | .ok s2 =>
        if bip16 then
          -- CheckErrorCondition(false), then the redeem script = top of the scriptSig's stack
          match s2.stack with
          | [] => .error .emptyStack
          | top :: _ =>
            if !asBool top then .error .evalFalse
            else match s1.stack with
            | [] => .error .invalidStackOperation
            | script :: restStack =>
              match runScript cx witActive script restStack with
              | .error e => .error e
              | .ok s3 =>
                match wp with
                | none => checkFinal false s3
                | some (ver, prog) => verifyWitness cx ver prog witness   -- P2SH-nested witness
        else
          match wp with
          | none => checkFinal false s2.stack
          | some (ver, prog) => verifyWitness cx ver prog witness

def showResult : Except Err Unit → String
  | .ok _ => "accept"
  | .error e => "reject:" ++ e.name

end KeepVerif.Script
