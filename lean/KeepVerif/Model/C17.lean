import KeepVerif.Gen.C17
/-!
# C17 model: retransmission strategies and the ticker (pkg/net/retransmission)

* `StandardStrategy.Tick` = call `retransmitFn`.
* `BackoffStrategy` state `(tickCounter, delay, retransmitTick)`; `tick` is the critical section of
  `BackoffStrategy.Tick` (as repaired: one mutex-protected step that decides whether to retransmit;
  `retransmitFn` is called after the unlock).  Naturals instead of `uint64`: a wrap needs 2⁶³ ticks.
* `Ticker.start` / `onTick` for one handler: `tickerStep`.
* `ScheduleRetransmissions` spawns one goroutine per tick: `cstep` (atomic semantics, what the
  mutex gives) and `rstep` (the unsynchronised semantics of the code before the repair, every
  memory access its own step).
-/
namespace KeepVerif.C17

/-! ## Strategies -/

structure BState where
  tc : Nat      -- tickCounter
  delay : Nat
  rt : Nat      -- retransmitTick
deriving DecidableEq, Repr

/-- `WithBackoffStrategy()`; the constants are extracted from the code. -/
def init : BState := ⟨Gen.C17.initTickCounter, Gen.C17.initDelay, Gen.C17.initRetransmitTick⟩

/-- critical section of `BackoffStrategy.Tick`: new state, and whether `retransmitFn` is called. -/
def tick (s : BState) : BState × Bool :=
  if s.tc + 1 = s.rt then (⟨s.tc + 1, s.delay * 2, s.rt + (s.delay + 1)⟩, true)
  else (⟨s.tc + 1, s.delay, s.rt⟩, false)

/-- state after `k` sequential ticks from `s`, and the number of retransmissions they made. -/
def runTicks : Nat → BState → BState × Nat
  | 0, s => (s, 0)
  | k + 1, s =>
    let (s', r) := tick s
    let (s'', n) := runTicks k s'
    (s'', n + r.toNat)

def stateAfter (k : Nat) : BState := (runTicks k init).1
def retransAfter (k : Nat) : Nat := (runTicks k init).2

/-- does the `k`-th tick (k ≥ 1) of a fresh backoff strategy retransmit? -/
def retransmitsAt (k : Nat) : Bool := (tick (stateAfter (k - 1))).2

inductive Strat | std | backoff
deriving DecidableEq, Repr

/-! ## Ticker with one registered handler -/

inductive Ev | tick | cancel
deriving DecidableEq, Repr

structure HState where
  registered : Bool
  cancelled : Bool    -- `handler.ctx.Err() != nil`
deriving DecidableEq, Repr

/-- one iteration of `Ticker.start` (or the context being cancelled); `true` = `handler.fn()` ran,
    i.e. a goroutine calling `strategy.Tick(retransmit)` was started. -/
def tickerStep (h : HState) : Ev → HState × Bool
  | .cancel => ({ h with cancelled := true }, false)
  | .tick =>
    if h.registered then
      if h.cancelled then ({ h with registered := false }, false) else (h, true)
    else (h, false)

def invocations : HState → List Ev → List Bool
  | _, [] => []
  | h, e :: es => let (h', b) := tickerStep h e; b :: invocations h' es

/-! ## One long-lived ticker with many handlers

`Ticker.handlers` is a map from a fresh id to a handler; handlers do not interact, so the ticker
with many handlers is the product of single-handler tickers: handler `i` sees the ticks and its
own cancellation that happen after its registration. -/

inductive REv | reg | tick | cancel (i : Nat)
deriving DecidableEq, Repr

/-- the events handler number `i` (in registration order) lives through: (tick number, event). -/
def project (i : Nat) : List REv → Nat → Nat → List (Nat × Ev)
  | [], _, _ => []
  | .reg :: es, nreg, tk => project i es (nreg + 1) tk
  | .tick :: es, nreg, tk =>
    if i < nreg then (tk + 1, Ev.tick) :: project i es nreg (tk + 1) else project i es nreg (tk + 1)
  | .cancel j :: es, nreg, tk =>
    if j = i ∧ i < nreg then (tk, Ev.cancel) :: project i es nreg tk else project i es nreg tk

/-- tick numbers at which the handler's function runs. -/
def invokedAt (i : Nat) (evs : List REv) : List Nat :=
  let p := project i evs 0 0
  ((p.map (·.1)).zip (invocations ⟨true, false⟩ (p.map (·.2)))).filterMap
    fun (t, b) => if b then some t else none

def regCount (evs : List REv) : Nat := (evs.filter (· == .reg)).length

def modelReg (evs : List REv) : List (List Nat) := (List.range (regCount evs)).map (invokedAt · evs)

/-- monitor, computed directly: handler `i` must run at exactly the ticks after its registration
    and up to its first cancellation — a live handler never loses a tick, a cancelled one never
    gets one. -/
def windowOf (i : Nat) : List REv → Nat → Nat → Bool → List Nat
  | [], _, _, _ => []
  | .reg :: es, nreg, tk, dead => windowOf i es (nreg + 1) tk dead
  | .tick :: es, nreg, tk, dead =>
    if i < nreg && !dead then (tk + 1) :: windowOf i es nreg (tk + 1) dead
    else windowOf i es nreg (tk + 1) dead
  | .cancel j :: es, nreg, tk, dead => windowOf i es nreg tk (dead || (j == i && decide (i < nreg)))

def holdsReg (evs : List REv) (obs : List (List Nat)) (stalled : Bool) : Bool :=
  !stalled && obs.length == regCount evs &&
  (obs.zipIdx).all fun (o, i) => o == windowOf i evs 0 0 false

/-! ## The whole system, sequentially (what the harness drives burst by burst) -/

structure Sys where
  h : HState
  b : BState
  calls : Nat         -- Strategy.Tick invocations
  retransmits : Nat   -- retransmitFn invocations
deriving DecidableEq, Repr

def sysInit : Sys := ⟨⟨true, false⟩, init, 0, 0⟩

def sysStep (st : Strat) (s : Sys) (e : Ev) : Sys :=
  let (h', inv) := tickerStep s.h e
  if inv then
    match st with
    | .std => { s with h := h', calls := s.calls + 1, retransmits := s.retransmits + 1 }
    | .backoff =>
      let (b', r) := tick s.b
      { h := h', b := b', calls := s.calls + 1, retransmits := s.retransmits + r.toNat }
  else { s with h := h' }

def sysRun (st : Strat) (s : Sys) (evs : List Ev) : Sys := evs.foldl (sysStep st) s

/-- cumulative retransmission counts after each burst. -/
def burstCounts (st : Strat) : Sys → List Nat → Sys × List Nat
  | s, [] => (s, [])
  | s, b :: bs =>
    let s' := sysRun st s (List.replicate b Ev.tick)
    let (s'', cs) := burstCounts st s' bs
    (s'', s'.retransmits :: cs)

structure Obs where
  cum : List Nat
  post : Nat           -- Tick calls after the cancellation
  late : Nat           -- retransmissions after the cancellation
  st : Option BState   -- final backoff state
  flags : List String  -- RACE, stall:… (the model never produces any)
deriving DecidableEq, Repr

/-- the observation the harness makes for `<strat> <bursts> <post>`. -/
def modelObs (st : Strat) (bursts : List Nat) (post : Nat) : Obs :=
  let (s1, cum) := burstCounts st sysInit bursts
  let s2 := if post > 0 then sysRun st s1 (Ev.cancel :: List.replicate (post + 1) Ev.tick) else s1
  { cum := cum, post := s2.calls - s1.calls, late := s2.retransmits - s1.retransmits,
    st := match st with | .std => none | .backoff => some s2.b,
    flags := [] }

/-! ## Overlapping tick goroutines, atomic `Tick` (the repaired code) -/

inductive PC
  | start                 -- goroutine spawned, `Tick` not entered
  | decided (r : Bool)    -- left the critical section, `retransmitFn` not yet called
  | finished
deriving DecidableEq, Repr

structure CState where
  b : BState
  pcs : List PC
  retransmits : Nat
deriving DecidableEq, Repr

def cinit (n : Nat) : CState := ⟨init, List.replicate n PC.start, 0⟩

/-- goroutine `t` makes its next step. -/
def cstep (s : CState) (t : Nat) : CState :=
  match s.pcs[t]? with
  | some .start =>
    let (b', r) := tick s.b
    { s with b := b', pcs := s.pcs.set t (.decided r) }
  | some (.decided r) =>
    { s with pcs := s.pcs.set t .finished, retransmits := s.retransmits + r.toNat }
  | _ => s

def crun (s : CState) (sched : List Nat) : CState := sched.foldl cstep s

/-! ## Overlapping tick goroutines, unsynchronised `Tick` (the code before the repair)

```
bos.tickCounter++                              -- load; store
if bos.tickCounter == bos.retransmitTick {     -- load, load
    bos.retransmitTick += bos.delay + 1        -- load, load; store
    bos.delay *= 2                             -- load; store
    return retransmitFn()
```
-/

inductive RPC
  | start
  | loaded (a : Nat)      -- tickCounter read
  | stored                -- tickCounter written
  | chosen                -- comparison was true
  | bumped                -- retransmitTick written
  | finished
deriving DecidableEq, Repr

structure RState where
  b : BState
  pcs : List RPC
  retransmits : Nat
deriving DecidableEq, Repr

def rinit (n : Nat) : RState := ⟨init, List.replicate n RPC.start, 0⟩

def rstep (s : RState) (t : Nat) : RState :=
  match s.pcs[t]? with
  | some .start => { s with pcs := s.pcs.set t (.loaded s.b.tc) }
  | some (.loaded a) => { s with b := { s.b with tc := a + 1 }, pcs := s.pcs.set t .stored }
  | some .stored =>
    if s.b.tc = s.b.rt then { s with pcs := s.pcs.set t .chosen }
    else { s with pcs := s.pcs.set t .finished }
  | some .chosen => { s with b := { s.b with rt := s.b.rt + (s.b.delay + 1) }, pcs := s.pcs.set t .bumped }
  | some .bumped =>
    { s with b := { s.b with delay := s.b.delay * 2 }, pcs := s.pcs.set t .finished,
             retransmits := s.retransmits + 1 }
  | _ => s

def rrun (s : RState) (sched : List Nat) : RState := sched.foldl rstep s

/-! ## Monitor -/

/-- `c` is the number of `j` with `2^j + j ≤ k` (characterised without search; `spec_unique`). -/
def countSpec (k c : Nat) : Bool :=
  (c == 0 || decide (2 ^ (c - 1) + (c - 1) ≤ k)) && decide (k < 2 ^ c + c)

def prefixSums : Nat → List Nat → List Nat
  | _, [] => []
  | acc, b :: bs => (acc + b) :: prefixSums (acc + b) bs

def allSpec : List Nat → List Nat → Bool
  | [], [] => true
  | k :: ks, c :: cs => countSpec k c && allSpec ks cs
  | _, _ => false

/-- the property on what the implementation did: per burst boundary the cumulative number of
    retransmissions is the closed form (std: the number of ticks), nothing after the cancellation,
    final state on the closed form, no data race, no stall. -/
def holds (st : Strat) (bursts : List Nat) (_post : Nat) (o : Obs) : Bool :=
  let ks := prefixSums 0 bursts
  let total := bursts.sum
  o.flags.isEmpty && o.post == 0 && o.late == 0 &&
  (match st with
   | .std => o.cum == ks && o.st == none
   | .backoff =>
     allSpec ks o.cum &&
     (match o.st with
      | some b => countSpec total (b.rt - b.delay) && b.tc == total
                  && b.delay == 2 ^ (b.rt - b.delay) && decide (b.delay ≤ b.rt)
      | none => false))

end KeepVerif.C17
